/-
  Nq.SchedHist — model side of the C15 daemon histories (harness/c15_hist.h): a small interpreter
  that composes the functions of Nq.Sched the way qmail-send.c composes pqstart / pass_dochan /
  del_dochan / job_close / pqrun / pqfinish / pass_selprep, over an abstract queue directory
  (per message: birth = mtime of info/<id>; per channel file: its records and its mtime).
  It predicts every event the harness observes on the real code.  Core Lean only.
-/
import Nq.Sched

namespace Nq.SchedHist
open Nq Nq.Sched

/-- one queued message as the daemon sees it on disk -/
structure Msg where
  id : Nat
  birth : Int
  recs0 : Option (List Bool) := none   -- local/<id>: `none` = no file; `true` = record still 'T'
  recs1 : Option (List Bool) := none   -- remote/<id>
  mt0 : Int := 0
  mt1 : Int := 0
  npar : Nat := 0                      -- paragraphs in bounce/<id>
  ntoo : Nat := 0                      -- … of which carry the "too long" sentence
  deriving Repr

def Msg.recs (m : Msg) : Chan → Option (List Bool)
  | .loc => m.recs0
  | .rem => m.recs1
def Msg.mt (m : Msg) : Chan → Int
  | .loc => m.mt0
  | .rem => m.mt1
def Msg.setRecs (m : Msg) (c : Chan) (r : Option (List Bool)) : Msg :=
  match c with
  | .loc => { m with recs0 := r }
  | .rem => { m with recs1 := r }
def Msg.setMt (m : Msg) (c : Chan) (t : Int) : Msg :=
  match c with
  | .loc => { m with mt0 := t }
  | .rem => { m with mt1 := t }

def other : Chan → Chan
  | .loc => .rem
  | .rem => .loc

structure HSt where
  clock : Int := 0
  lifetime : Int := 0
  msgs : List Msg := []
  q0 : PQ := #[]
  q1 : PQ := #[]
  done : PQ := #[]

def HSt.q (s : HSt) : Chan → PQ
  | .loc => s.q0
  | .rem => s.q1
def HSt.setQ (s : HSt) (c : Chan) (q : PQ) : HSt :=
  match c with
  | .loc => { s with q0 := q }
  | .rem => { s with q1 := q }

def HSt.find (s : HSt) (id : Nat) : Option Msg := s.msgs.find? (·.id == id)
def HSt.update (s : HSt) (m : Msg) : HSt := { s with msgs := s.msgs.map fun x => if x.id == m.id then m else x }

/-- an injected system failure during one `pass_dochan` pass (harness: the corresponding libc call on the
started message's file is made to fail):
`openf` = `open_read(local|remote/<id>)` fails, `info` = `getinfo` fails (both: the `trouble:` exit);
`unlink` = `unlink` of the channel file in `job_close` fails; `stat` = `stat` of the *other* channel file in
`job_close` fails with an error other than `ENOENT` (HOPEFULLY). -/
inductive Fault where
  | none | openf | info | unlink | stat
  deriving DecidableEq, Repr

def Fault.trouble : Fault → Bool
  | .openf => true
  | .info => true
  | _ => false

inductive Step where
  | mk (id : Nat) (c : Chan) (birth due : Int) (nrec : Nat)
  | load | clock (t : Int) | alrm | wake | fin
  | pass (c : Chan) (letters : List Byte) (fault : Fault := .none)
  | arrive (id n0 n1 : Nat)        -- todo_do: a new message with n0 local / n1 remote recipients is taken into the queue
  | bad
  deriving Repr

inductive Ev where
  | plain (tag : String)
  | load (q0 q1 done : List Elt)
  | alrm (q0 q1 : List Elt)
  | wake (t : Int)
  | fin (mt0 mt1 : List Elt)
  | pass (id : Nat) (retry : Int) (dying : Bool) (ndel : Nat) (recs : String) (npar ntoo : Nat) (q0 q1 done : List Elt)
  | done (id : Nat) (gone : Bool) (done : List Elt)   -- pass_do's pqdone part (Nq.SchedFail): message worked on (0 = none), info/<id> gone, pqdone after
  deriving BEq, Repr

def SLEEP_FOREVER : Int := (Nq.Gen.SLEEP_FOREVER : Nat)

def recsString : Option (List Bool) → String
  | none => "gone"
  | some [] => "empty"
  | some l => String.ofList (l.map fun b => if b then 'T' else 'D')

/-- answer the 'T' records in order with the scripted letters (cycled); returns the new records,
the number of deliveries, bounce paragraphs and too-long paragraphs added -/
def answer (dying : Bool) (letters : List Byte) : List Bool → Nat → List Bool × Nat × Nat × Nat
  | [], k => ([], k, 0, 0)
  | false :: r, k => let (r', k', p, t) := answer dying letters r k; (false :: r', k', p, t)
  | true :: r, k =>
    let letter := letters.getD (k % letters.length) 90
    let letter := if letter = 63 then 88 else letter      -- '?' in the script = a mangled report 'X'
    let act := report dying letter (str "report\n")
    let (r', k', p, t) := answer dying letters r (k + 1)
    let isFail := match act with | .failure _ => true | _ => false
    let isToo := match act with | .failure txt => decide (txt.length > 7) | _ => false
    (act.staysTodo :: r', k', p + (if isFail then 1 else 0), t + (if isToo then 1 else 0))

def mtList (s : HSt) (c : Chan) : List Elt :=
  s.msgs.filterMap fun m => (m.recs c).map fun _ => { dt := m.mt c, id := m.id }

/-- what pqstart() must load, as lists (the array order depends on readdir) -/
def expectedLoad (s : HSt) : List Elt × List Elt × List Elt :=
  (mtList s .loc, mtList s .rem,
   s.msgs.filterMap fun m => if m.recs0.isNone && m.recs1.isNone then some { dt := s.clock, id := m.id } else none)

/-- `stat` of the channel file of `m` on channel `c` as `job_close` sees it -/
def statOf (m : Msg) (c : Chan) : StatRes :=
  match m.recs c with
  | none => .noent
  | some _ => .found (m.mt c)

/-- what a completed pass computes for the started message: the records after the pass, the number of
deliveries, bounce / too-long paragraphs added, and what `job_close` does -/
structure PassOut where
  job : Job
  recs' : List Bool
  ndel : Nat
  p : Nat
  t : Nat
  close : CloseOut

def passOut (s : HSt) (c : Chan) (letters : List Byte) (f : Fault) (pe : Elt) (q' : PQ) (m : Msg)
    (recs : List Bool) : PassOut :=
  let job := jobOpen s.clock s.lifetime m.birth c
  let a := answer job.dying letters recs 0
  let numtodo := (a.1.filter id).length
  let otherStat : StatRes := if f = .stat then .err else statOf m (other c)
  { job := job, recs' := a.1, ndel := a.2.1, p := a.2.2.1, t := a.2.2.2,
    close := jobCloseF job pe.id true numtodo (decide (f ≠ .unlink)) otherStat s.clock q' s.done }

/-- the message record after the pass -/
def passMsg (m : Msg) (c : Chan) (o : PassOut) : Msg :=
  { m with npar := m.npar + o.p, ntoo := m.ntoo + o.t }.setRecs c (if o.close.removed then none else some o.recs')

/-- state after `pass_dochan(c)` + the whole pass it opens (reports answered by `letters`), under fault `f` -/
def passSt (s : HSt) (c : Chan) (letters : List Byte) (f : Fault) : HSt :=
  match passStart s.clock true (s.q c) with
  | none => s
  | some (pe, q') =>
    if f.trouble then s.setQ c (passTrouble s.clock pe q')
    else match s.find pe.id with
      | none => s
      | some m =>
        match m.recs c with
        | none => s
        | some recs =>
          let o := passOut s c letters f pe q' m recs
          ({ (s.setQ c o.close.chan) with done := o.close.done }).update (passMsg m c o)

/-- the event the harness must observe for that step -/
def passEv (s : HSt) (c : Chan) (letters : List Byte) (f : Fault) : Ev :=
  let s' := passSt s c letters f
  match passStart s.clock true (s.q c) with
  | none => .pass 0 0 false 0 "" 0 0 s'.q0.toList s'.q1.toList s'.done.toList
  | some (pe, q') =>
    if f.trouble then .pass 0 0 false 0 "" 0 0 s'.q0.toList s'.q1.toList s'.done.toList
    else match s.find pe.id with
      | none => .plain "bad"
      | some m =>
        match m.recs c with
        | none => .plain "bad"
        | some recs =>
          let o := passOut s c letters f pe q' m recs
          let m'' := passMsg m c o
          .pass pe.id o.job.retry o.job.dying o.ndel (recsString (m''.recs c)) m''.npar m''.ntoo
            s'.q0.toList s'.q1.toList s'.done.toList

/-- one `utimes(chan file of e.id, e.dt)` of `pqfinish` -/
def finWrite1 (c : Chan) (s : HSt) (e : Elt) : HSt :=
  match s.find e.id with
  | some m => s.update (m.setMt c e.dt)
  | none => s

def finWrite (c : Chan) (s : HSt) (l : List Elt) : HSt := l.foldl (finWrite1 c) s

/-- `pqfinish()` (TERM): every channel heap is drained, each entry's due time stored as its file's mtime -/
def finSt (s : HSt) : HSt :=
  let s1 := finWrite .loc s (pqfinish (s.q .loc).size (s.q .loc))
  let s2 := finWrite .rem s1 (pqfinish (s1.q .rem).size (s1.q .rem))
  { s2 with q0 := #[], q1 := #[] }

/-- a fresh process: `pqstart()` over the queue directory -/
def loadSt (s : HSt) : HSt :=
  { s with q0 := (expectedLoad s).1.foldl PQ.insert #[], q1 := (expectedLoad s).2.1.foldl PQ.insert #[],
           done := (expectedLoad s).2.2.foldl PQ.insert #[] }

/-- `todo_do` for one new message: info/<id> is created now (its mtime is the birth time), the channel files are written,
`pe.dt = now()` and the message goes into `pqchan[c]` for every channel it has recipients on, or into pqdone if it has none.
Message numbers are inode numbers of existing files: a number in use is never handed out again (no-op). -/
def arriveSt (s : HSt) (id n0 n1 : Nat) : HSt :=
  match s.find id with
  | some _ => s
  | none =>
    let m : Msg := { id := id, birth := s.clock, mt0 := s.clock, mt1 := s.clock,
                     recs0 := if n0 = 0 then none else some (List.replicate n0 true),
                     recs1 := if n1 = 0 then none else some (List.replicate n1 true) }
    let s1 : HSt := { s with msgs := s.msgs ++ [m] }
    let s2 := if n0 = 0 then s1 else s1.setQ .loc ((s1.q .loc).insert { dt := s.clock, id := id })
    let s3 := if n1 = 0 then s2 else s2.setQ .rem ((s2.q .rem).insert { dt := s.clock, id := id })
    if n0 = 0 ∧ n1 = 0 then { s3 with done := s3.done.insert { dt := s.clock, id := id } } else s3

def step (s : HSt) : Step → HSt × Ev
  | .bad => (s, .plain "bad")
  | .mk id c birth due nrec =>
    let recs := some (List.replicate nrec true)
    match s.find id with
    | some m => (s.update ((m.setRecs c recs).setMt c due), .plain "m")
    | none =>
      let m : Msg := { id := id, birth := birth }
      ({ s with msgs := s.msgs ++ [(m.setRecs c recs).setMt c due] }, .plain "m")
  | .clock t => ({ s with clock := t }, .plain "t")
  | .load =>
    let s' := loadSt s
    (s', .load s'.q0.toList s'.q1.toList s'.done.toList)
  | .alrm =>
    let s' := { s with q0 := pqrun s.clock s.q0, q1 := pqrun s.clock s.q1 }
    (s', .alrm s'.q0.toList s'.q1.toList)
  | .wake =>
    (s, .wake (wakeupChan (wakeupChan (wakeupChan (s.clock + SLEEP_FOREVER) s.q0) s.q1) s.done))
  | .fin =>
    let s' := finSt s
    (s', .fin (mtList s' .loc) (mtList s' .rem))
  | .pass c letters f => (passSt s c letters f, passEv s c letters f)
  | .arrive id n0 n1 => (arriveSt s id n0 n1, .plain "n")

end Nq.SchedHist
