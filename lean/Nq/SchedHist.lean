/-
  Nq.SchedHist — model side of the C15 daemon histories (harness/c15_hist.h): a small interpreter
  that composes the functions of Nq.Sched the way qmail-send.c composes pqstart / pass_dochan /
  del_dochan / job_close / pqrun / pqfinish / pass_selprep, over an abstract queue directory
  (per message: birth = mtime of info/<id>; per channel file: its records and its mtime).
  It predicts every event the harness observes on the real code.  Core Lean only.
-/
import Nq.Sched

namespace Nq.SchedHist
open Nq Nq.Sched

/-- one queued message as the daemon sees it on disk -/
structure Msg where
  id : Nat
  birth : Int
  recs0 : Option (List Bool) := none   -- local/<id>: `none` = no file; `true` = record still 'T'
  recs1 : Option (List Bool) := none   -- remote/<id>
  mt0 : Int := 0
  mt1 : Int := 0
  npar : Nat := 0                      -- paragraphs in bounce/<id>
  ntoo : Nat := 0                      -- … of which carry the "too long" sentence
  deriving Repr

def Msg.recs (m : Msg) : Chan → Option (List Bool)
  | .loc => m.recs0
  | .rem => m.recs1
def Msg.mt (m : Msg) : Chan → Int
  | .loc => m.mt0
  | .rem => m.mt1
def Msg.setRecs (m : Msg) (c : Chan) (r : Option (List Bool)) : Msg :=
  match c with
  | .loc => { m with recs0 := r }
  | .rem => { m with recs1 := r }
def Msg.setMt (m : Msg) (c : Chan) (t : Int) : Msg :=
  match c with
  | .loc => { m with mt0 := t }
  | .rem => { m with mt1 := t }

def other : Chan → Chan
  | .loc => .rem
  | .rem => .loc

structure HSt where
  clock : Int := 0
  lifetime : Int := 0
  msgs : List Msg := []
  q0 : PQ := #[]
  q1 : PQ := #[]
  done : PQ := #[]

def HSt.q (s : HSt) : Chan → PQ
  | .loc => s.q0
  | .rem => s.q1
def HSt.setQ (s : HSt) (c : Chan) (q : PQ) : HSt :=
  match c with
  | .loc => { s with q0 := q }
  | .rem => { s with q1 := q }

def HSt.find (s : HSt) (id : Nat) : Option Msg := s.msgs.find? (·.id == id)
def HSt.update (s : HSt) (m : Msg) : HSt := { s with msgs := s.msgs.map fun x => if x.id == m.id then m else x }

inductive Step where
  | mk (id : Nat) (c : Chan) (birth due : Int) (nrec : Nat)
  | load | clock (t : Int) | alrm | wake | fin
  | pass (c : Chan) (letters : List Byte)
  | bad
  deriving Repr

inductive Ev where
  | plain (tag : String)
  | load (q0 q1 done : List Elt)
  | alrm (q0 q1 : List Elt)
  | wake (t : Int)
  | fin (mt0 mt1 : List Elt)
  | pass (id : Nat) (retry : Int) (dying : Bool) (ndel : Nat) (recs : String) (npar ntoo : Nat) (q0 q1 done : List Elt)
  deriving BEq, Repr

def SLEEP_FOREVER : Int := (Nq.Gen.SLEEP_FOREVER : Nat)

def recsString : Option (List Bool) → String
  | none => "gone"
  | some [] => "empty"
  | some l => String.ofList (l.map fun b => if b then 'T' else 'D')

/-- answer the 'T' records in order with the scripted letters (cycled); returns the new records,
the number of deliveries, bounce paragraphs and too-long paragraphs added -/
def answer (dying : Bool) (letters : List Byte) : List Bool → Nat → List Bool × Nat × Nat × Nat
  | [], k => ([], k, 0, 0)
  | false :: r, k => let (r', k', p, t) := answer dying letters r k; (false :: r', k', p, t)
  | true :: r, k =>
    let letter := letters.getD (k % letters.length) 90
    let letter := if letter = 63 then 88 else letter      -- '?' in the script = a mangled report 'X'
    let act := report dying letter (str "report\n")
    let (r', k', p, t) := answer dying letters r (k + 1)
    let isFail := match act with | .failure _ => true | _ => false
    let isToo := match act with | .failure txt => decide (txt.length > 7) | _ => false
    (act.staysTodo :: r', k', p + (if isFail then 1 else 0), t + (if isToo then 1 else 0))

def mtList (s : HSt) (c : Chan) : List Elt :=
  s.msgs.filterMap fun m => (m.recs c).map fun _ => { dt := m.mt c, id := m.id }

/-- what pqstart() must load, as lists (the array order depends on readdir) -/
def expectedLoad (s : HSt) : List Elt × List Elt × List Elt :=
  (mtList s .loc, mtList s .rem,
   s.msgs.filterMap fun m => if m.recs0.isNone && m.recs1.isNone then some { dt := s.clock, id := m.id } else none)

def step (s : HSt) : Step → HSt × Ev
  | .bad => (s, .plain "bad")
  | .mk id c birth due nrec =>
    let recs := some (List.replicate nrec true)
    match s.find id with
    | some m => (s.update ((m.setRecs c recs).setMt c due), .plain "m")
    | none =>
      let m : Msg := { id := id, birth := birth }
      ({ s with msgs := s.msgs ++ [(m.setRecs c recs).setMt c due] }, .plain "m")
  | .clock t => ({ s with clock := t }, .plain "t")
  | .load =>
    let (l0, l1, ld) := expectedLoad s
    let s' := { s with q0 := l0.foldl PQ.insert #[], q1 := l1.foldl PQ.insert #[], done := ld.foldl PQ.insert #[] }
    (s', .load s'.q0.toList s'.q1.toList s'.done.toList)
  | .alrm =>
    let s' := { s with q0 := pqrun s.clock s.q0, q1 := pqrun s.clock s.q1 }
    (s', .alrm s'.q0.toList s'.q1.toList)
  | .wake =>
    (s, .wake (wakeupChan (wakeupChan (wakeupChan (s.clock + SLEEP_FOREVER) s.q0) s.q1) s.done))
  | .fin =>
    let wr (s : HSt) (c : Chan) : HSt :=
      (pqfinish (s.q c).size (s.q c)).foldl (fun s e => match s.find e.id with
        | some m => s.update (m.setMt c e.dt)
        | none => s) s
    let s' := wr (wr s .loc) .rem
    let s' := { s' with q0 := #[], q1 := #[] }
    (s', .fin (mtList s' .loc) (mtList s' .rem))
  | .pass c letters =>
    match passStart s.clock true (s.q c) with
    | none => (s, .pass 0 0 false 0 "" 0 0 s.q0.toList s.q1.toList s.done.toList)
    | some (pe, q') =>
      match s.find pe.id with
      | none => (s, .plain "bad")
      | some m =>
        match m.recs c with
        | none => (s, .plain "bad")
        | some recs =>
          let job := jobOpen s.clock s.lifetime m.birth c
          let (recs', ndel, p, t) := answer job.dying letters recs 0
          let numtodo := (recs'.filter id).length
          let m' := { m with npar := m.npar + p, ntoo := m.ntoo + t }
          let s1 := s.setQ c q'
          match jobClose job pe.id numtodo q' with
          | some q'' =>
            let m'' := m'.setRecs c (some recs')
            let s2 := (s1.setQ c q'').update m''
            (s2, .pass pe.id job.retry job.dying ndel (recsString (some recs')) m''.npar m''.ntoo
                   s2.q0.toList s2.q1.toList s2.done.toList)
          | none =>
            let m'' := m'.setRecs c none
            let s2 := s1.update m''
            let s3 := if (m''.recs (other c)).isNone then { s2 with done := s2.done.insert { dt := s2.clock, id := pe.id } } else s2
            (s3, .pass pe.id job.retry job.dying ndel "gone" m''.npar m''.ntoo
                   s3.q0.toList s3.q1.toList s3.done.toList)

end Nq.SchedHist
