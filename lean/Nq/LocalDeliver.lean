/-
  Nq.LocalDeliver — model of the two mailbox writers of qmail-local.c (property C12).

  * `gfrom`, `mboxEntry`      : gfrom.c and the copy loop of `mailfile()` (>From quoting per getln line,
                                completion of a partial last line, the closing blank line).
  * `myctime`, `ufline`       : myctime.c / datetime.c and the From_ line of `main`.
  * `Md.accept`               : acceptor of the system-call traces of `maildir()` + `maildir_child()`
                                (parent P0, child P1), abstract file state `Md.FS`, crash relation.
  * `Mb.accept`, `Mb.sysStep` : acceptor of the traces of `mailfile()` and the system of any number of
                                concurrent deliveries to one mbox file with `flock` as a mutex.

  As in `Nq.QueueInject`, buffer sizes are not modelled: a `write` is legal iff it continues the
  byte stream that has to end up in the file, which covers every chunking, short write and EINTR
  retry of substdio with one rule.  Core Lean only.
-/
import Nq.Basic
import Nq.Local
import Nq.Spec.Mbox
import Nq.Gen.LocalExit

namespace Nq.LocalDeliver
open Nq

/-! ## 1. gfrom.c and the mbox entry written by `mailfile()` -/

/-- `(len >= 5) && !str_diffn(s,"From ",5)` -/
def startsFrom (l : Bytes) : Bool := l.take 5 == [70, 114, 111, 109, 32]

/-- gfrom.c: skip every leading '>' and test for "From " -/
def gfrom : Bytes → Bool
  | [] => false
  | c :: r => if c = 62 then gfrom r else startsFrom (c :: r)

/-- `if (gfrom(line)) bput(">")`, then the line -/
def quoteLine (l : Bytes) : Bytes := if gfrom l then 62 :: l else l

/-- `if (!match) bputs("\n")` -/
def completeLine (l : Bytes) : Bytes := if l.getLast? = some LF then l else l ++ [LF]

/-- the getln loop of `mailfile()`: one iteration per line of the message -/
def mboxBody (msg : Bytes) : Bytes := ((Mbox.lines msg).map (fun l => completeLine (quoteLine l))).flatten

/-- everything `mailfile()` appends for one message -/
def mboxEntry (uf rp dt msg : Bytes) : Bytes := uf ++ rp ++ dt ++ mboxBody msg ++ [LF]

/-- what `maildir_child()` writes to the file -/
def maildirContent (rp dt msg : Bytes) : Bytes := rp ++ dt ++ msg

/-! ## 2. myctime.c, datetime.c, the From_ line -/

def digits : Bytes := [48, 49, 50, 51, 52, 53, 54, 55, 56, 57]
def dig (d : Nat) : Byte := digits.getD d 48

/-- fmt_ulong / fmt_uint -/
def fmtDec (n : Nat) : Bytes :=
  if h : n < 10 then [dig n] else fmtDec (n / 10) ++ [dig (n % 10)]
termination_by n
decreasing_by omega

/-- fmt_uint0(s,u,2) -/
def fmt02 (n : Nat) : Bytes := if n < 10 then [48, dig n] else fmtDec n

def daytab : List Bytes := [[83, 117, 110], [77, 111, 110], [84, 117, 101], [87, 101, 100], [84, 104, 117], [70, 114, 105], [83, 97, 116]]
def montab : List Bytes := [[74, 97, 110], [70, 101, 98], [77, 97, 114], [65, 112, 114], [77, 97, 121], [74, 117, 110],
  [74, 117, 108], [65, 117, 103], [83, 101, 112], [79, 99, 116], [78, 111, 118], [68, 101, 99]]

structure DT where
  hour : Int
  min : Int
  sec : Int
  wday : Int
  mday : Int
  mon : Int
  year : Int        -- full year (the C field holds year - 1900 and myctime adds 1900 again)
  deriving Repr

/-- datetime_tai(), statement by statement (C `/` and `%` truncate: `Int.tdiv`, `Int.tmod`) -/
def datetimeTai (t : Int) : DT :=
  let tod0 := t.tmod 86400
  let day0 := t.tdiv 86400
  let tod := if tod0 < 0 then tod0 + 86400 else tod0
  let day := if tod0 < 0 then day0 - 1 else day0
  let hour := tod.tdiv 3600
  let tod2 := tod.tmod 3600
  let w0 := (day + 4).tmod 7
  let wday := if w0 < 0 then w0 + 7 else w0
  let d1 := day - 11017
  let d2 := d1.tmod 146097
  let year1 := if d2 < 0 then 5 + d1.tdiv 146097 - 1 else 5 + d1.tdiv 146097
  let d3 := if d2 < 0 then d2 + 146097 else d2
  let year3 := if d3 = 146096 then year1 * 4 + 3 else year1 * 4 + d3.tdiv 36524
  let d4 := if d3 = 146096 then 36524 else d3.tmod 36524
  let year4 := year3 * 25 + d4.tdiv 1461
  let d5 := d4.tmod 1461
  let year6 := if d5 = 1460 then year4 * 4 + 3 else year4 * 4 + d5.tdiv 365
  let d6 := if d5 = 1460 then 365 else d5.tmod 365
  let mon0 := (d6 * 10 + 5).tdiv 306
  let d8 := (d6 * 10 + 5 - 306 * mon0).tdiv 10
  { hour := hour, min := tod2.tdiv 60, sec := tod2.tmod 60, wday := wday, mday := d8 + 1,
    mon := if mon0 ≥ 10 then mon0 - 10 else mon0 + 2,
    year := if mon0 ≥ 10 then year6 + 1 else year6 }

/-- myctime(t): "Sun Sep 09 01:46:40 2001\n" -/
def myctime (t : Nat) : Bytes :=
  let dt := datetimeTai t
  daytab.getD dt.wday.toNat [] ++ [SP] ++ montab.getD dt.mon.toNat [] ++ [SP] ++ fmt02 dt.mday.toNat ++ [SP] ++
  fmt02 dt.hour.toNat ++ [58] ++ fmt02 dt.min.toNat ++ [58] ++ fmt02 dt.sec.toNat ++ [SP] ++ fmtDec dt.year.toNat ++ [LF]

/-- the From_ line qmail-local builds: "From " sanitised-sender " " date -/
def ufline (sender : Bytes) (t : Nat) : Bytes := Local.uflinePrefix sender ++ myctime t

/-- the word put after "From ": the sender with blank, tab, newline replaced by '-', or MAILER-DAEMON -/
def ufSender (sender : Bytes) : Bytes :=
  if sender = [] then [77, 65, 73, 76, 69, 82, 45, 68, 65, 69, 77, 79, 78]
  else sender.map (fun c => if c = SP ∨ c = TAB ∨ c = LF then 45 else c)

/-- "time.pid.host": what `maildir_child()` formats after "tmp/" and "new/" (`fmt_ulong`, `fmt_ulong`,
`fmt_strn(s,myhost,64)`) -/
def maildirName (time pid : Nat) (hostname : Bytes) : Bytes :=
  fmtDec time ++ [DOT] ++ fmtDec pid ++ [DOT] ++ (hostname.take 64).takeWhile (fun c => c != 0)

def isPrefix (a b : Bytes) : Bool := a.length ≤ b.length && b.take a.length == a

/-- what the parent reports for a child exit code: the `switch` of `maildir()`, regenerated from
the source on every run (`Gen.LocalExit.maildirCases`) -/
def parentCode (childCode : Nat) : Nat :=
  match Gen.LocalExit.maildirCases.lookup childCode with
  | some none => 0
  | some (some r) => r.1
  | none => match Gen.LocalExit.maildirDefault with
    | none => 0
    | some r => r.1

def parentText (childCode : Nat) : String :=
  match Gen.LocalExit.maildirCases.lookup childCode with
  | some none => ""
  | some (some r) => r.2
  | none => match Gen.LocalExit.maildirDefault with
    | none => ""
    | some r => r.2

/-! ## 3. maildir delivery: `maildir()` (parent) and `maildir_child()` -/
namespace Md

inductive Ev
  | fork
  | alarm (n : Nat)
  | openExcl (ok : Bool) (exist : Bool)    -- `exist`: failed with EEXIST
  | sleep (n : Nat)
  | read (n : Nat)                          -- successful read of the message, 0 = end
  | readErr (intr : Bool)
  | write (bs : Bytes)                      -- bs were written (possibly fewer than requested)
  | writeErr (intr : Bool)
  | fsync (ok : Bool)
  | close (ok : Bool)
  | link (ok : Bool)                        -- link(tmp/x, new/x)
  | unlinkTmp (ok : Bool)
  | sigAlarm                                -- the 24 h alarm fires: handler `sigalrm`
  | childExit (code : Nat)
  | childKilled                             -- the child dies of a signal (wait_crashed)
  | parentExit (code : Nat)
  deriving DecidableEq, Repr

/-- control points -/
inductive PC
  | start                    -- parent, before `maildir()` forks
  | arm (loop : Nat)         -- child: before `alarm(86400)` of iteration `loop` (loop 0: before chdir)
  | opening (loop : Nat)     -- before `open_excl(tmp/time.pid.host)`
  | nap (loop : Nat)         -- EEXIST: before `sleep(2)`
  | copy                     -- tmp file open: substdio_put ×2, substdio_copy, substdio_flush
  | closing                  -- after fsync
  | linking                  -- after close
  | unlinkOk                 -- after link: `tryunlinktmp(); _exit(0)`
  | failUnlink (code : Nat)  -- `tryunlinktmp(); _exit(code)`
  | dying (code : Nat)       -- child about to `_exit(code)`
  | waited (code : Nat)      -- child gone; parent in the `switch`
  | killed                   -- child crashed
  | done (code : Nat)        -- parent has exited
  deriving DecidableEq, Repr

structure Params where
  content : Bytes      -- Return-Path line ++ Delivered-To line ++ message
  dirOk : Bool := true -- chdir(maildir) succeeds

structure St where
  pc : PC := .start
  written : Bytes := []
  eof : Bool := false
  forked : Bool := false
  interrupted : Bool := false      -- a signal (alarm, kill) hit the child
  deriving DecidableEq, Repr

/-- child control points at which the alarm is armed -/
def armed : PC → Bool
  | .opening _ | .nap _ | .arm (_ + 1) | .copy | .closing | .linking | .unlinkOk | .failUnlink _ | .dying _ => true
  | _ => false

/-- child control points (the child exists and has not exited) -/
def inChild : PC → Bool
  | .arm _ | .opening _ | .nap _ | .copy | .closing | .linking | .unlinkOk | .failUnlink _ | .dying _ => true
  | _ => false

def accept (p : Params) (s : St) : Ev → Option St
  | .fork => if s.pc = .start then some { s with pc := .arm 0, forked := true } else none
  | .alarm n =>
    match s.pc with
    | .arm k => if n = 86400 ∧ (k = 0 → p.dirOk = true) then some { s with pc := .opening k } else none
    | _ => none
  | .openExcl ok exist =>
    match s.pc with
    | .opening k =>
      if ok then some { s with pc := .copy }
      else if exist then (if k = 2 then some { s with pc := .dying 1 } else some { s with pc := .nap k })
      else some { s with pc := .dying 1 }
    | _ => none
  | .sleep n =>
    match s.pc with
    | .nap k => if n = 2 then some { s with pc := .arm (k + 1) } else none
    | _ => none
  | .read n => if s.pc = .copy ∧ s.eof = false then some { s with eof := n == 0 } else none
  | .readErr intr => if s.pc = .copy ∧ s.eof = false then some (if intr then s else { s with pc := .failUnlink 4 }) else none
  | .write bs =>
    if s.pc = .copy ∧ bs ≠ [] ∧ isPrefix (s.written ++ bs) p.content = true then some { s with written := s.written ++ bs } else none
  | .writeErr intr => if s.pc = .copy then some (if intr then s else { s with pc := .failUnlink 1 }) else none
  | .fsync ok =>
    if s.pc = .copy ∧ s.eof = true ∧ s.written = p.content then some { s with pc := if ok then .closing else .failUnlink 1 } else none
  | .close ok => if s.pc = .closing then some { s with pc := if ok then .linking else .failUnlink 1 } else none
  | .link ok => if s.pc = .linking then some { s with pc := if ok then .unlinkOk else .failUnlink 1 } else none
  | .unlinkTmp _ =>
    match s.pc with
    | .unlinkOk => some { s with pc := .dying 0 }
    | .failUnlink c => some { s with pc := .dying c }
    | _ => none
  | .sigAlarm => if armed s.pc = true then some { s with pc := .failUnlink 3, interrupted := true } else none
  | .childExit code =>
    match s.pc with
    | .dying c => if code = c then some { s with pc := .waited code } else none
    | .arm 0 => if p.dirOk = false ∧ (code = 1 ∨ code = 2) then some { s with pc := .waited code } else none
    | _ => none
  | .childKilled => if inChild s.pc = true then some { s with pc := .killed, interrupted := true } else none
  | .parentExit code =>
    match s.pc with
    | .start => if code ≠ 0 then some { s with pc := .done code } else none      -- failure before any delivery
    | .waited c => if code = parentCode c then some { s with pc := .done code } else none
    | .killed => if code = Gen.LocalExit.childCrashedCode then some { s with pc := .done code } else none
    | _ => none

def acceptAll (p : Params) : St → List Ev → Option St
  | s, [] => some s
  | s, e :: es => match accept p s e with
    | some s' => acceptAll p s' es
    | none => none

/-- the file this delivery creates, and its two names -/
structure FS where
  tmpName : Bool := false      -- tmp/time.pid.host names the file
  newName : Bool := false      -- new/time.pid.host names the file
  cur : Bytes := []
  synced : Bool := true        -- nothing written since the last fsync (or creation)
  deriving DecidableEq, Repr

def apply (fs : FS) : Ev → FS
  | .openExcl true _ => { fs with tmpName := true, cur := [], synced := true }
  | .write bs => { fs with cur := fs.cur ++ bs, synced := false }
  | .fsync true => { fs with synced := true }
  | .link true => { fs with newName := true }
  | .unlinkTmp true => { fs with tmpName := false }
  | _ => fs

def applyAll : FS → List Ev → FS
  | fs, [] => fs
  | fs, e :: es => applyAll (apply fs e) es

/-- `fs'` is a possible state after a process or machine crash in state `fs`: names are unaffected
(directory operations are synchronous); a file fsynced since its last change keeps its content;
the content of any other file is arbitrary. -/
def CrashOf (fs fs' : FS) : Prop :=
  fs'.tmpName = fs.tmpName ∧ fs'.newName = fs.newName ∧ (fs.synced = true → fs'.cur = fs.cur)

end Md

/-! ## 4. mbox delivery: `mailfile()` -/
namespace Mb

inductive Ev
  | openAppend (ok : Bool)
  | alarm (n : Nat)
  | flock (ok : Bool)
  | seekEnd (len : Nat)                      -- `seek_end(fd)`: the offset lseek returned (= length of the file now)
  | seekCur (len : Nat)                      -- `pos = seek_cur(fd)`: the offset lseek returned
  | read (n : Nat)
  | readErr (intr : Bool)
  | write (bs : Bytes)
  | writeErr (intr : Bool)
  | fsync (ok : Bool)
  | ftrunc (len : Nat) (ok : Bool)          -- result ignored by the program
  | close
  | sigAlarm                                 -- the 30 s lock alarm: `temp_slowlock`
  | exit (code : Nat)
  deriving DecidableEq, Repr

inductive PC
  | start | alarmOn | lock | alarmOff | seekE | seekC | copy | closeOk | finish | rollback | closeErr
  | dying (code : Nat) | done (code : Nat)
  deriving DecidableEq, Repr

structure St where
  pc : PC := .start
  locked : Bool := false
  off : Nat := 0                 -- offset of the descriptor after `seek_end`
  pos : Nat := 0
  written : Bytes := []
  eof : Bool := false
  opened : Bool := false         -- ghost: `mailfile()` has been entered (open_append was attempted)
  synced : Bool := false         -- ghost: a successful fsync of the complete entry has happened
  deriving DecidableEq, Repr

/-- `goto writeerrs` / the read-error branch: `if (flaglocked) seek_trunc(fd,pos); close(fd); _exit(111)` -/
def failFrom (s : St) : St := if s.locked then { s with pc := .rollback } else { s with pc := .closeErr }

/-- `entry` is what has to be appended: `mboxEntry ufline rpline dtline msg` -/
def accept (entry : Bytes) (s : St) : Ev → Option St
  | .openAppend ok => if s.pc = .start then some { s with pc := if ok then .alarmOn else .dying 111, opened := true } else none
  | .alarm n =>
    if s.pc = .alarmOn ∧ n = 30 then some { s with pc := .lock }
    else if s.pc = .alarmOff ∧ n = 0 then some { s with pc := .seekE }
    else none
  | .flock ok => if s.pc = .lock then some { s with pc := .alarmOff, locked := ok } else none
  | .seekEnd len => if s.pc = .seekE then some { s with pc := .seekC, off := len } else none
  | .seekCur len => if s.pc = .seekC ∧ len = s.off then some { s with pc := .copy, pos := len } else none
  | .read n => if s.pc = .copy ∧ s.eof = false then some { s with eof := n == 0 } else none
  | .readErr intr => if s.pc = .copy ∧ s.eof = false then some (if intr then s else failFrom s) else none
  | .write bs =>
    if s.pc = .copy ∧ bs ≠ [] ∧ isPrefix (s.written ++ bs) entry = true then some { s with written := s.written ++ bs } else none
  | .writeErr intr => if s.pc = .copy then some (if intr then s else failFrom s) else none
  | .fsync ok =>
    if s.pc = .copy ∧ s.eof = true ∧ s.written = entry then some (if ok then { s with pc := .closeOk, synced := true } else failFrom s) else none
  | .ftrunc len _ => if s.pc = .rollback ∧ len = s.pos then some { s with pc := .closeErr } else none
  | .close =>
    if s.pc = .closeOk then some { s with pc := .finish }
    else if s.pc = .closeErr then some { s with pc := .dying 111 }
    else none
  | .sigAlarm => if s.pc = .lock ∨ s.pc = .alarmOff then some { s with pc := .dying 111 } else none
  | .exit code =>
    match s.pc with
    | .start => if code ≠ 0 then some { s with pc := .done code } else none     -- failure before the delivery
    | .finish => if code = 0 then some { s with pc := .done 0 } else none
    | .dying c => if code = c then some { s with pc := .done code } else none
    | _ => none

/-- any number of deliveries to one mbox file; `flock` is a mutex on the file -/
structure Sys where
  file : Bytes
  holder : Option Nat := none
  st : Nat → St := fun _ => {}
  order : List Nat := []          -- ghost: deliveries that completed their append, in order

def upd (f : Nat → St) (i : Nat) (s : St) : Nat → St := fun j => if j = i then s else f j

def release (h : Option Nat) (i : Nat) : Option Nat := if h = some i then none else h

/-- process `i` performs event `e`: the program side (`accept`) and the operating-system side
(append-mode writes go to the end of the file, `ftruncate`, `flock` granted only when free,
`seek_end` returns the current length of the file; the lock is dropped by `close` and by process exit) -/
def sysStep (entry : Nat → Bytes) (y : Sys) (i : Nat) (e : Ev) : Option Sys :=
  match accept (entry i) (y.st i) e with
  | none => none
  | some s' =>
    let y' := { y with st := upd y.st i s' }
    match e with
    | .flock true => if y.holder = none then some { y' with holder := some i } else none
    | .seekEnd len => if len = y.file.length then some y' else none
    | .write bs => some { y' with file := y.file ++ bs }
    | .ftrunc len true => some { y' with file := y.file.take len }
    | .fsync true => some { y' with order := y.order ++ [i] }
    | .close => some { y' with holder := release y.holder i }
    | .exit _ => some { y' with holder := release y.holder i }
    | _ => some y'

def sysRun (entry : Nat → Bytes) : Sys → List (Nat × Ev) → Option Sys
  | y, [] => some y
  | y, (i, e) :: es => match sysStep entry y i e with
    | some y' => sysRun entry y' es
    | none => none

/-- events outside the hypotheses of the serialisation theorem: a failing `flock` (the program then
proceeds *unlocked*, `flaglocked = 0`) and a failing `ftruncate` (its result is ignored) -/
def benign : Ev → Bool
  | .flock false => false
  | .ftrunc _ false => false
  | _ => true

end Mb

end Nq.LocalDeliver
