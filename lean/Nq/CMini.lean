/-
  Nq.CMini — a deep embedding of the small C fragment in which the byte loops of notqmail are
  written (the body of `for (;;) { substdio_get(&ss,&ch,1); ... }` in qmail-smtpd.c `blast()`):
  `int` locals, `if`, `switch` with fall-through, `break` / `continue` / `return`, assignments of
  constants, `++v`, comparisons of the current byte with character and string literals, calls
  of the one-byte output routine and of routines that do not return.

  The translator (tools/extractors/c05.py) turns the clang AST of the CURRENT source text into a value of
  `Stmt` (Nq/Gen/SmtpdBlast.lean, regenerated on every run); `run` below is the meaning of such a
  value.  Theorems in Nq/Lemmas/SmtpdSrc.lean / Nq/Props/C05.lean show that the meaning of the
  extracted text IS the hand-written automaton the C05 theorems are about.

  Values are natural numbers (the fragment has no subtraction and no negative constant; the
  translator refuses anything else).  The current byte is its unsigned value; it only occurs in
  `==` / `!=` tests against ASCII constants (again enforced by the translator), so the signedness
  of `char` does not matter.
-/
namespace Nq.CMini

abbrev Env := List Nat            -- locals, by index (names in the generated module)

inductive Expr
  | ch                            -- the byte read by substdio_get
  | lit (n : Nat)                 -- integer or character constant
  | var (v : Nat)
  | strAt (s : List Nat) (e : Expr)   -- "literal"[e]; `s` includes the terminating NUL
  | eq (a b : Expr) | ne (a b : Expr) | lt (a b : Expr)
  | lnot (a : Expr) | land (a b : Expr) | lor (a b : Expr)
  deriving DecidableEq, Repr

inductive Stmt
  | skip
  | assign (v : Nat) (e : Expr)
  | incr (v : Nat)                -- ++v
  | hop                           -- ++*hops  (the out-parameter: recorded as an event)
  | put (e : Expr)                -- put(&ch) / put("\r"): one byte handed to the queue writer
  | noret (f : Nat)               -- call of a routine that does not return (straynewline)
  | ite (c : Expr) (t e : Stmt)
  | seq (a b : Stmt)
  | label (k : Nat)               -- `case k:` (only directly inside a switch body)
  | switch (e : Expr) (body : Stmt)
  | brk | cont | ret
  deriving DecidableEq, Repr

inductive Ev | put (b : Nat) | hop
  deriving DecidableEq, Repr

inductive Ctl | norm | brk | cont | ret | exit (f : Nat)
  deriving DecidableEq, Repr

structure Res where
  env : Env
  evs : List Ev
  ctl : Ctl
  seek : Option Nat               -- `some k`: still looking for `case k:` (inside a switch body)
  deriving DecidableEq, Repr

def b2n (b : Bool) : Nat := if b then 1 else 0

def eval (env : Env) (c : Nat) : Expr → Nat
  | .ch => c
  | .lit n => n
  | .var v => env.getD v 0
  | .strAt s e => s.getD (eval env c e) 0
  | .eq a b => b2n (eval env c a == eval env c b)
  | .ne a b => b2n (eval env c a != eval env c b)
  | .lt a b => b2n (eval env c a < eval env c b)
  | .lnot a => b2n (eval env c a == 0)
  | .land a b => b2n (eval env c a != 0 && eval env c b != 0)
  | .lor a b => b2n (eval env c a != 0 || eval env c b != 0)

/-- Meaning of a statement. `sk = some k`: control is jumping to `case k:`; statements are skipped
until that label is met (labels are looked for along `seq` only: the translator refuses case
labels nested in other statements). -/
def run : Stmt → Option Nat → Env → Nat → Res
  | .label k, sk, env, _ =>
      ⟨env, [], .norm, if sk = some k then none else sk⟩
  | .seq a b, sk, env, c =>
      let r := run a sk env c
      match r.ctl with
      | .norm => let r2 := run b r.seek r.env c
                 ⟨r2.env, r.evs ++ r2.evs, r2.ctl, r2.seek⟩
      | _ => r
  | s, some k, env, _ => ⟨env, [], .norm, some k⟩          -- skipped while seeking
  | .skip, none, env, _ => ⟨env, [], .norm, none⟩
  | .assign v e, none, env, c => ⟨env.set v (eval env c e), [], .norm, none⟩
  | .incr v, none, env, _ => ⟨env.set v (env.getD v 0 + 1), [], .norm, none⟩
  | .hop, none, env, _ => ⟨env, [.hop], .norm, none⟩
  | .put e, none, env, c => ⟨env, [.put (eval env c e)], .norm, none⟩
  | .noret f, none, env, _ => ⟨env, [], .exit f, none⟩
  | .ite cnd t e, none, env, c =>
      if eval env c cnd != 0 then run t none env c else run e none env c
  | .switch e body, none, env, c =>
      let r := run body (some (eval env c e)) env c
      ⟨r.env, r.evs, (match r.ctl with | .brk => .norm | x => x), none⟩
  | .brk, none, env, _ => ⟨env, [], .brk, none⟩
  | .cont, none, env, _ => ⟨env, [], .cont, none⟩
  | .ret, none, env, _ => ⟨env, [], .ret, none⟩

/-- one iteration of `for (;;) { get; body }` on the byte `c` -/
def iter (body : Stmt) (env : Env) (c : Nat) : Res := run body none env c

/-- Result of running the loop over a finite input. -/
inductive Out
  | returned (evs : List Ev) (rest : List Nat)   -- `return` reached; unread input
  | exited (f : Nat) (evs : List Ev)             -- a no-return routine was called
  | starved (evs : List Ev) (env : Env)          -- input exhausted (the read routine then exits)
  deriving DecidableEq, Repr

def loop (body : Stmt) : Env → List Nat → Out
  | env, [] => .starved [] env
  | env, c :: rest =>
      let r := iter body env c
      match r.ctl with
      | .ret => .returned r.evs rest
      | .exit f => .exited f r.evs
      | _ =>            -- norm / cont: next iteration (a `break` outside a switch does not occur:
                        -- the translator refuses it)
        match loop body r.env rest with
        | .returned e x => .returned (r.evs ++ e) x
        | .exited f e => .exited f (r.evs ++ e)
        | .starved e v => .starved (r.evs ++ e) v

/-! ### Variables a statement mentions, and independence from the others -/

def Expr.vars : Expr → List Nat
  | .ch => [] | .lit _ => [] | .var v => [v]
  | .strAt _ e => e.vars
  | .eq a b => a.vars ++ b.vars | .ne a b => a.vars ++ b.vars | .lt a b => a.vars ++ b.vars
  | .lnot a => a.vars | .land a b => a.vars ++ b.vars | .lor a b => a.vars ++ b.vars

def Stmt.vars : Stmt → List Nat
  | .assign v e => v :: e.vars
  | .incr v => [v]
  | .put e => e.vars
  | .ite c t e => c.vars ++ t.vars ++ e.vars
  | .seq a b => a.vars ++ b.vars
  | .switch e b => e.vars ++ b.vars
  | _ => []

end Nq.CMini
