#!/usr/bin/env python3
"""C18 — helpers at trust boundaries act only on validated requests.

Three correspondence harnesses (qmail-clean main; spawn.c + qmail-lspawn/qmail-rspawn report(); qmail-send del_dochan)
feed one compiled Lean driver (drv_c18); the theorems are in lean/Nq/Props/C18.lean."""
import os, sys, random, re, concurrent.futures
sys.path.insert(0, os.path.join(os.path.dirname(os.path.abspath(__file__)), "..", "tools"))
import nqlib
from nqlib import Check, VERIF, NCPU, run_pipeline, parse_driver_output, standard_verdict, driver_path, kv, shortest

PROP = "C18"
RULE = ("qmail-clean: every request stream over {f,o,p,/,1,NUL,x} and over {t,o,d,/,1,NUL,X} up to length %(L1)s, every one of 24 near-miss "
        "prefixes followed by every tail over {0,1,9,/,.,:,X,NUL,0xff,f} up to length %(L2)s (also followed by a second valid request, with unlink "
        "outcomes ok/ENOENT/EIO), %(NR)s seeded random multi-request streams (numbers around 2^32/2^63/2^64 and wrapped, leading zeros, lengths around "
        "100 and beyond the 256-byte buffer, read chunkings), cleanuppid() on a scripted pid/ (every one of 14 name classes incl. '.', '..', a 255-byte name x "
        "stat failure / atime = now-OSSIFIED-1, now-OSSIFIED, now-OSSIFIED+1, 0, now, future x two clocks; the empty directory; failing opendir; NR/8 random "
        "sessions of 0..70 requests so that the sweeps of iterations 0, 31 and 62 run, each with its own listing of 0..6 entries), qmail-clean with read()/write() faults: four sessions (3 requests, a wrapped number, "
        "a cut request, 33 requests with two pid/ sweeps) with {nothing, EINTR, EIO, end of file} at every byte position of the request stream, the rest in reads of 256/1/3 bytes, x every write() index "
        "{all delivered, fails, interrupted once, twice, interrupted then fails} x three unlink plans, NR/4 random sessions (random read sizes, EINTR anywhere, EIO/EOF at a random place, unterminated tails, "
        "random write and unlink outcomes, pid/ listings); spawn.c with qmail-lspawn and with qmail-rspawn: every message id over {1,/,.,a,0xff,:} up to "
        "length %(LS)s x delivery numbers {0,1,119,120,121,255} x recipients x 9 open/fstat/pipe/fork outcomes, every child output over {r,h,s,K,Z,D,NUL,x} up to "
        "length %(LS1)s with 6 wait statuses, every exit code and signal, after a first command every sequence of up to %(LS)s events over {second command, "
        "EOF on descriptor 0, child 0/1 reaped while in select (select returns -1), EOF on the pipe of child 0/1, both in one wake-up, output of child 0} "
        "(end of input with deliveries in flight, in every order relative to reap / report / the exit test of the main loop; the number of script events "
        "consumed when the program calls _exit is compared with the model), after an ordinary (or crashed) delivery in slot 0 a second one in the same slot whose child "
        "writes a complete success report followed by every sequence of up to %(LS)s events over {the child closes its output descriptors and lives on, killed by a "
        "signal / exit 111 / exit 100 / exit 0 seen as SIGCHLD+EOF, as EOF before SIGCHLD, or reaped first with the EOF later, more output, end of input} - the pipe "
        "reaches EOF only when no process holds a write end any more (every close() of the program is recorded), and the oracle lifeOK (no report before the child's "
        "status was handed over by wait(), K only for exit 0 without signal, a signal -> Z) is evaluated on the trace interleaved with the world's fork/wait events, every single failing stralloc_append call (and pairs) of getcmd() over three commands (slots 0, 1, 0) read whole or cut after every byte and NS/4 random sessions with 0..3 failing calls (flagabort), %(NS)s random sessions (commands cut into arbitrary reads, truncated, oversized, re-used "
        "delivery numbers, hostile/long child output, exits in any order, reaped first and reported later, descriptor 0 closed in the middle of a third of the sessions); "
        "qmail-send del_dochan: every report stream over {0,1,2,3,4,K,Z,D,x,0xff} up to "
        "length %(LD)s against a world with three deliveries in flight (one on a dying job) and against an idle channel, reports with text lengths REPORTMAX-14 .. REPORTMAX+10 "
        "one by one and up to REPORTMAX+2110 in steps x letters K/D/Z x read() sizes 1, 2, 3, 7, 1023, 1024, 2047, 2048 and two random chunkings x four kinds of preceding bytes, "
        "%(ND)s random worlds with reports up to 25000 bytes in fixed and random read() sizes; the oracle truncOK bounds the report text of every log line; all run through the real code (ASan+UBSan build of the working tree, system calls scripted) and the Lean models, compared "
        "on the full event trace (paths unlinked/opened, bytes written, log lines, final state); the oracle Nq.Spec.TB is evaluated on the implementation's "
        "trace; non-trivial = distinct input with a complete request of >= 7 bytes / a complete command / a NUL-terminated report")

ARGS = {"quick": dict(L1=7, L2=4, NR=40000, LS=4, LS1=5, NS=6000, LD=5, ND=4000),
        "thorough": dict(L1=8, L2=5, NR=400000, LS=5, LS1=6, NS=50000, LD=6, ND=20000)}

HARNESSES = [  # (name, source, link_like, exclude, defines)
    ("h_c18_clean", "harness/c18_clean.c", "qmail-clean", [], ""),
    ("h_c18_spawn_l", "harness/c18_spawn.c", "qmail-lspawn", ["spawn.o"], "-DLSPAWN"),
    ("h_c18_spawn_r", "harness/c18_spawn.c", "qmail-rspawn", ["spawn.o"], "-DRSPAWN"),
    ("h_c18_send", "harness/c18_send.c", "qmail-send", ["qsutil.o"], ""),
]


def shard_cmd(bins, a, seed, i, n):
    return " && ".join([
        "%s %d %d %d %d %d %d" % (bins["h_c18_clean"], a["L1"], a["L2"], a["NR"], seed, i, n),
        "%s %d %d %d %d %d" % (bins["h_c18_spawn_l"], a["LS"], a["NS"], seed, i, n),
        "%s %d %d %d %d %d" % (bins["h_c18_spawn_r"], a["LS"], a["NS"], seed, i, n),
        "%s %d %d %d %d %d" % (bins["h_c18_send"], a["LD"], a["ND"], seed, i, n)])


def stdin_cmd(bins, path):
    return " && ".join("%s - < %s" % (bins[h[0]], path) for h in HARNESSES)


def mutate_bytes(rnd, b, alphabet):
    m = bytearray(b)
    for _ in range(rnd.randint(1, 3)):
        op = rnd.randint(0, 2)
        pos = rnd.randint(0, len(m))
        ch = rnd.choice(alphabet)
        if op == 0:
            m.insert(pos, ch)
        elif op == 1 and m:
            del m[min(pos, len(m) - 1)]
        elif m:
            m[min(pos, len(m) - 1)] = ch
    return bytes(m)


def hx(b):
    return b.hex() or "-"


def neighbourhood_cases(dis, seed):
    """stdin cases around the disagreeing inputs (DESIGN 1.5 step 4)"""
    rnd = random.Random(seed)
    cases = set()
    for d in dis[:40]:
        f = kv(d)
        kind = f.get("kind", "")
        try:
            if kind == "clean":
                b = bytes.fromhex("" if f["in"] == "-" else f["in"])
                sc = f.get("scans", "-")
                for _ in range(300):
                    m = mutate_bytes(rnd, b, b"0123456789/.x\x00fopt d\xff:")
                    for pre in ("C 0 -", "C 1 -", "C 0 02", "C 0 0102"):
                        cases.add("%s %s %s" % (pre, hx(m), sc))
                cases.add("C 0 %s %s %s" % (f.get("plan", "-"), f["in"], sc))
                if sc != "-":
                    # the same directory listings with the clocks and access times moved by a few seconds / by OSSIFIED
                    for _ in range(60):
                        d = rnd.choice([-129601, -129600, -2, -1, 1, 2, 129600, 129601])
                        sc2 = re.sub(r"(^|;)(\d+)@", lambda mo: "%s%d@" % (mo.group(1), max(0, int(mo.group(2)) + d)), sc)
                        cases.add("C 0 %s %s %s" % (f.get("plan", "-"), f["in"], sc2))
            elif kind == "cleanio":
                rs, wp, pl, sc = f["rs"], f.get("wplan", "-"), f.get("plan", "-"), f.get("scans", "-")
                cases.add("Q %s %s %s %s" % (rs, wp, pl, sc))
                toks = rs.split(".") if rs != "-" else []
                for _ in range(200):
                    t2 = list(toks)
                    r = rnd.random()
                    if r < 0.3:
                        t2.insert(rnd.randint(0, len(t2)), rnd.choice(["i", "x", "d"]))
                    elif r < 0.6 and t2:
                        i = rnd.randrange(len(t2))
                        if t2[i][0] == "d" and len(t2[i]) > 1:
                            t2[i] = "d" + (mutate_bytes(rnd, bytes.fromhex(t2[i][1:]), b"0123456789/x\x00fopt d")[:200].hex())
                    elif t2:
                        del t2[rnd.randrange(len(t2))]
                    w2 = bytes(rnd.choice([0, 0, 0, 1, 2]) for _ in range(rnd.randint(0, 6)))
                    for plan in (pl, "-", "02", "0102"):
                        cases.add("Q %s %s %s %s" % (".".join(t2) or "-", hx(w2), plan, sc))
                        cases.add("Q %s %s %s %s" % (".".join(t2) or "-", wp, plan, sc))
            elif kind == "send":
                b = bytes.fromhex("" if f["in"] == "-" else f["in"])
                pre = "D %s %s %s %s" % (f["c"], f["jobs"], f["slots"], f["plan"])
                cases.add("%s %s %s" % (pre, f.get("chunk", "0"), f["in"]))
                for _ in range(300 if len(b) < 2000 else 40):
                    m = mutate_bytes(rnd, b, b"\x00\x01\x02\x03\x04KZDx\xff\n")
                    cases.add("%s %d %s" % (pre, rnd.choice([0, 1, 2, 7, 1024, 2047, -rnd.randint(1, 99999)]), hx(m)))
                if len(b) > 9000:
                    # the same stream in every kind of read(): a long report is cut where the reads end
                    for ch in (0, 1, 2, 3, 7, 1023, 1024, 2047, -1, -2, -3, -4):
                        cases.add("%s %d %s" % (pre, ch, f["in"]))
            elif kind.startswith("spawnoom"):
                k = kind[-1]
                cases.add("A %s %s %s %s" % (k, f.get("plan", "-"), f.get("oom", "-"), f["in"]))
                for _ in range(300):
                    om = sorted(set(rnd.randint(0, 40) for _ in range(rnd.randint(0, 3))))
                    for plan in (f.get("plan", "-"), "-", "04"):
                        cases.add("A %s %s %s %s" % (k, plan, ".".join(map(str, om)) or "-", f["in"]))
            elif kind.startswith("spawn"):
                k = kind[-1]
                ops = f["in"].split(".") if f["in"] != "-" else []
                cases.add("S %s %s %s" % (k, f.get("plan", "-"), f["in"]))
                for _ in range(200):
                    o2 = list(ops)
                    if not o2:
                        break
                    i = rnd.randrange(len(o2))
                    if o2[i][0] == "c":
                        o2[i] = "c" + mutate_bytes(rnd, bytes.fromhex(o2[i][1:]), b"0123456789/.@a\x00\xff\x01x").hex()
                        if o2[i] == "c":
                            continue
                    elif o2[i][0] == "w":
                        o2[i] = o2[i][:3] + mutate_bytes(rnd, bytes.fromhex(o2[i][3:]), b"rhsKZD\x00x\n")[:128].hex()
                    elif o2[i][0] == "x" and rnd.random() < 0.5:      # death seen in two steps: reaped, EOF on the pipe later
                        o2[i:i + 1] = ["k" + o2[i][1:]] + (["z" + o2[i][1:3]] if rnd.random() < 0.5 else [])
                    elif o2[i][0] == "k" and rnd.random() < 0.5:
                        o2[i] = "x" + o2[i][1:]
                    if rnd.random() < 0.4:                             # the child closes its output before it dies / EOF seen before SIGCHLD
                        js = [j for j, o in enumerate(o2) if o[0] in "xkv"]
                        if js:
                            j = rnd.choice(js)
                            if rnd.random() < 0.5:
                                o2.insert(j, "y" + o2[j][1:3])
                            elif o2[j][0] == "x":
                                o2[j] = "v" + o2[j][1:]
                    r = rnd.random()
                    if r < 0.25:                                       # end of input anywhere
                        o2.insert(rnd.randint(0, len(o2)), "e")
                    elif r < 0.35:
                        o2 = [o for o in o2 if o != "e"]
                    elif r < 0.5 and len(o2) > 1:                      # another order
                        a, b2 = rnd.randrange(len(o2)), rnd.randrange(len(o2))
                        o2[a], o2[b2] = o2[b2], o2[a]
                    for plan in (f.get("plan", "-"), "-", "03", "04"):
                        cases.add("S %s %s %s" % (k, plan, ".".join(o2)))
        except (KeyError, ValueError):
            continue
    return sorted(cases)


def main():
    c = Check(PROP)
    ok = c.proofs("Nq.Props.C18", drivers=["drv_c18"])
    s = c.build_repo()
    a = ARGS[c.tier]
    stats, samples, disagree, oracle, errors = {}, [], [], [], []
    neighbourhood = None
    if s.ok and c.driver_ok:
        try:
            with concurrent.futures.ThreadPoolExecutor(4) as ex:
                futs = {h[0]: ex.submit(s.cc, os.path.join(VERIF, h[1]), os.path.join(s.dir, h[0]), h[2], "", h[4], h[3]) for h in HARNESSES}
                bins = {k: f.result() for k, f in futs.items()}
            drv = driver_path("drv_c18")
            cmds = []
            corpus = os.path.join(VERIF, "corpus", PROP + ".txt")
            if c.replay:
                cmds.append(stdin_cmd(bins, c.replay))
            else:
                if os.path.exists(corpus):
                    cmds.append(stdin_cmd(bins, corpus))
                cmds += [shard_cmd(bins, a, c.seed, i, NCPU) for i in range(NCPU)]
            outs = run_pipeline(cmds, drv)
            stats, samples, disagree, oracle, errors = parse_driver_output(outs)

            def neighbourhood(dis):
                cases = neighbourhood_cases(dis, c.seed)
                if not cases:
                    return None
                tf = os.path.join(s.dir, "nb.txt")
                open(tf, "w").write("\n".join(cases) + "\n")
                o2 = run_pipeline([stdin_cmd(bins, tf)], drv)
                st2, _, _, or2, _ = parse_driver_output(o2)
                c.cov["search_cases"] = st2.get("cases", 0)
                return shortest(or2) if or2 else None
        except Exception as ex:
            errors.append(str(ex))
    else:
        errors.append("build failed: " + "\n".join(c.notes)[-3000:])
    c.cov["evaluations"] = int(stats.get("cases", 0))
    c.cov["distinct_nontrivial"] = int(stats.get("distinct_nontrivial", 0))
    c.cov["traces_validated_against_impl"] = max(0, int(stats.get("cases", 0)) - int(stats.get("disagree", 0)))
    c.cov["rule"] = RULE % a
    c.cov["exhaustive"] = False
    c.cov["samples"] = samples[:8] or ["(no sample emitted)"]
    c.cov["input_distribution"] = {k: v for k, v in stats.items() if k not in ("cases", "distinct_nontrivial", "disagree", "oracle_fail")}
    c.assumptions += [
        "system calls of the helpers are scripted by the harness: unlink/open/fstat/pipe/fork/select/read outcomes are inputs of both the C run and the model",
        "qmail-clean: now(), opendir/readdir/closedir and stat of pid/<name> are scripted (directory listings, access times, stat failures are inputs of both the C run and the model); the result of cleanuppid's own unlinks is ignored by the code and always 0 in the harness; negative times are not exercised",
        "qmail-clean: read() and write() outcomes on descriptors 0 and 1 are scripted (short reads, EINTR, EIO, end of file; write delivered / EINTR / EPIPE); a write() returning 0 (allwrite would spin) and OOM in stralloc are not exercised",
        "spawn.c: which stralloc_append calls of getcmd() fail is scripted (flagabort); out-of-memory elsewhere (stralloc_copys in docmd, stralloc_readyplus for child output), write errors on descriptor 1 (okwrite) and EINTR on read are not exercised; the code after fork() in the child is not run (C11)",
        "spawn.c: a pipe is modelled as 'EOF iff no write end is open': the child's end is closed by the script (death, or an explicit close while it lives on), the spawner's by its own close() calls, which the harness records",
        "the harness poisons the unused tail of a child's output buffer while report() runs, so a read beyond the output aborts under ASan and is reported with its input",
        "qmail-send: virtualdomains, locals and percenthack are empty in addbounce (stripvdomprepend is the identity); no new delivery starts while the stream is read",
        "unsigned long is 64 bits (LP64)",
    ]
    standard_verdict(c, ok, stats, disagree, oracle, errors,
                     "Clean.run / Spawn.run / SendReport.feed (lean/Nq) vs qmail-clean.c main, spawn.c+qmail-[lr]spawn.c, qmail-send.c del_dochan",
                     neighbourhood, replay_hint="./check C18 --replay <file of stdin cases: lines 'C …', 'Q …', 'S …', 'A …', 'D …' as documented in harness/c18_*.c>")
    c.finish()


if __name__ == "__main__":
    main()
