#!/usr/bin/env python3
"""C10 — recipients are routed and rewritten exactly by the control files."""
import os, sys, random
sys.path.insert(0, os.path.join(os.path.dirname(os.path.abspath(__file__)), "..", "tools"))
from nqlib import run_standard, kv

RULE = ("(a) every recipient string over {u,a,A,@,%%,.} up to length %s under three fixed configurations (exhaustive, seed-independent); "
        "(b) %s generated control directories (me/envnoathost/locals/percenthack/virtualdomains files with virtual users, domains, dot-wildcards, "
        "catch-all, empty-prepend exceptions, comments, trailing blanks, missing final newline, case changes, occasional repeated keys) each with 24-40 "
        "recipients built from the configured names plus near-misses (case changes, extra labels, missing/trailing/multiple @ and %%, stray bytes), all read by the "
        "real control.c + getcontrols() and routed by the real rewrite() (ASan+UBSan build of the working tree); (c) every VERP sender over "
        "{a,@,-,[,]} up to length 5 with and without the -@[] suffix through the real comm_write()/senderadd(); (d) constmap_init/constmap/hash "
        "directly on generated tables up to 320 entries, byte_rchr/case_diffb on all bytes; (e) %s scenarios of the real qmail-send main() run as a "
        "child process on a scratch queue (messages, control-file rewrite, real SIGHUP, messages; local/<n>, remote/<n>, info/<n> read back). "
        "Every output is compared with the Lean model (Nq.Rewrite: hash-table constmap, rewrite, senderadd, todo_do, HUP acceptor) and judged by the "
        "oracle = the documented rules (Nq.Route: routeSpec/verpSpec/specCfg/specHup) evaluated on the implementation's output; configurations "
        "with a repeated key are compared with the model only. non-trivial = distinct (configuration, recipient) routed local/virtual or "
        "percent-hacked, or VERP sender actually expanded; (f) letter leg (exhaustive, seed-independent): each of the 56 bytes A..Z a..z @ [ ` { as a one-letter "
        "label in envnoathost, locals, percenthack and every kind of virtualdomains entry (user@domain, domain, .suffix wildcard, exception, with/without catch-all), "
        "key and envnoathost each written in either case, probed with the same byte, the other case, both neighbouring bytes and the byte differing in bit 5, "
        "and the same bytes through constmap/hash/case_diffb directly; (g) alphabet legs (seeded, own random stream): nconfigs/3 control directories and nscen/8 "
        "real-daemon scenarios whose labels, users and tags are random strings over the whole alphabet (ends favoured, some digits - [ ` {), every occurrence "
        "re-cased independently, recipients with near misses (letter -> next/previous byte or @ [ ` {, one label more/less), plus constmap tables over the whole alphabet; "
        "(h) HUP-timing leg (seeded, own stream): nscen/4 real-daemon scenarios in which the control files are edited again AFTER a SIGHUP was served and before the next "
        "message (the HUP-time files must be in force), edited before any HUP, re-HUPed without change, and in which messages with an empty or unknown-type record are "
        "injected (todo_do must leave them in todo/ and hand nothing on); every S scenario is replayed event by event (edit / hup / loop top / msg) through the monitor "
        "Nq.Rewrite.accept|acceptAll and judged by Nq.Route.specJudge|specStep|specTrace - the two sides of theorem C10_trace - with info, local and remote compared with "
        "specTodo; (i) delivery leg (seeded, own stream): nscen/16 messages through the real daemon with both spawners announcing concurrency 10 - the harness plays qmail-clean, "
        "qmail-lspawn and qmail-rspawn - and every delivery command written by del_start/comm_write/comm_do (file name, sender after VERP expansion, recipient) is compared "
        "per channel and in order with the documented routing of the T records and the documented VERP rule; (j) SIGHUP-during-re-read leg (seeded, own stream): nscen/16 "
        "real-daemon scenarios, each a sweep of pairs (I k; M) for k = 0, 1, 2, ... up to the last call: control files f1 are written and SIGHUP (A) delivered in select(); the daemon is "
        "held right before its k-th call (chdir / open_read / read / close of reread(), regetcontrols(), control_readfile(): pass-through gates around the #included sources) while f2 "
        "(a domain newly listed in locals, a new virtualdomains entry of any kind, both, or regenerated files; every file replaced by rename) is written and a second real SIGHUP (B) "
        "is sent through the daemon's own handler; once it is idle the trigger is pulled with nothing queued (loop top), then a message probing every pool domain is preprocessed: "
        "the files as of the LAST HUP must be in force (events edit g, hup, top, edit f2, hup, top with g = per file the version on disk when re-read (A) opened it); "
        "(k) many-recipient leg (seeded, own stream): nscen/8 real-daemon scenarios with 2-4 messages whose record bytes per channel file are swept over 0.5x..3x (now and then 6x) of "
        "todo_do's 1024-byte channel buffers in every mix of local / virtual / remote order (alternating, blocks of records, blocks of bytes, one remote among many local and vice "
        "versa at the first/middle/last/random position, random mixes in any proportion), short / medium / long / mixed address lengths, records ending exactly at, one short of and "
        "one past a multiple of the buffer size, records longer than a buffer, long senders (info/<id> buffer), serial-numbered recipients, before and after a HUP; the bytes of the real "
        "info/ local/ remote/<id> files are judged by specTodo (each recipient exactly once, in input order, in the channel the documents prescribe). A daemon that dies (sanitizer "
        "report) ends its scenario, is reported as a harness error, and the remaining scenarios still run; "
        "(l) failing-re-read leg (seeded, own stream): nscen/16 real-daemon scenarios, each a sweep of pairs (J k; M) for k = 0, 1, 2, ... up to the last call of reread(): fresh control "
        "files (a pool domain newly listed in locals, a new virtualdomains entry, now and then padded beyond one or two 64-byte reads) are written, SIGHUP delivered in select(), and the "
        "k-th call of reread()/regetcontrols()/control_readfile() FAILS in the gate compiled around the #included sources (chdir, open_read: EACCES; read: EIO; close: EIO after closing; "
        "sleep before a retry skipped); the next message probes every pool domain: when the error struck the re-read BOTH old tables must still be in force, else both new ones; the "
        "failed call (name, file, read index) is compared with the model's call sequence rereadCall; every message of every S scenario is additionally judged by judgeOneInstant "
        "(theorem C10_one_instant_spec: locals AND virtualdomains of ONE control directory among start-up's and those on disk at the served HUPs); every third pair is followed by an "
        "undisturbed HUP; (m) failing-start-up leg (seeded, own stream): nscen/32 configurations, each started with its k-th gated call failing for k = 0, 1, 2, ... up to main()'s "
        "chdir(\"queue\") (Z lines): started iff startIO / specStartIO say so, call sequence compared with startCall")

FIXED_G = "G 610a 752e610a 610a412e750a 610a752e610a750a 7540753a740a753a760a2e753a770a2e612e753a0a7540752e753a0a"
ALPHA = b"ua@%.AbB:"


def mut_bytes(rnd, b, alphabet=ALPHA):
    m = bytearray(b)
    for _ in range(rnd.randint(1, 3)):
        op = rnd.randint(0, 2)
        pos = rnd.randint(0, len(m))
        ch = rnd.choice(alphabet)
        if op == 0:
            m.insert(pos, ch)
        elif op == 1 and m:
            del m[min(pos, len(m) - 1)]
        elif m:
            m[min(pos, len(m) - 1)] = ch
    return bytes(m)


def hx(b):
    return b.hex() or "-"


def unhx(s):
    return b"" if s in ("-", "~") else bytes.fromhex(s)


def mutate(dis, seed):
    """stdin cases around the disagreeing inputs (focused search for an oracle failure)"""
    rnd = random.Random(seed)
    cases = []
    for d in dis[:40]:
        f = kv(d)
        kind, inp = f.get("kind"), f.get("in", "-")
        try:
            if kind == "R":
                g = "G " + f["g"].replace(",", " ")
                b = unhx(inp)
                cases.append(g)
                cases.append("R " + hx(b))
                cases += ["R " + hx(x) for x in (b.swapcase(), b.upper(), b.lower())]
                cases += ["R " + hx(mut_bytes(rnd, b)) for _ in range(300)]
                cases += ["R " + hx(mut_bytes(rnd, b, b.swapcase() + b"@.%")) for _ in range(100)]
            elif kind == "G":
                g = f["g"].split(",")
                probes = set()
                for fld in g:
                    if fld != "~":
                        for l in unhx(fld).replace(b":", b"\n").split(b"\n"):
                            l = l.strip()
                            if l:
                                probes.update([l, b"u@" + l, b"u%" + l + b"@" + l, l.upper(), l.swapcase(), b"u@" + l.swapcase()])
                cases.append("G " + " ".join(g))
                cases += ["R " + hx(p) for p in sorted(probes)]
                cases += ["R " + hx(mut_bytes(rnd, p)) for p in sorted(probes) for _ in range(10)]
            elif kind == "K":
                b = unhx(inp)
                cases += ["K %s %s %s" % (f["buf"], f["fc"], hx(x)) for x in [b, b.upper(), b.lower()] + [mut_bytes(rnd, b, b"abAB.@") for _ in range(60)]]
            elif kind == "V":
                b = unhx(inp)
                cases += ["V %s %s %s %s" % (hx(x), f["recip"], f.get("delnum", "1"), f.get("id", "1"))
                          for x in [b] + [mut_bytes(rnd, b, b"a@-[]") for _ in range(200)]]
            elif kind in ("S", "D"):
                cases.append(inp.replace(",", " "))
            elif kind in ("X", "B"):
                b = unhx(inp)
                sw = b.swapcase()
                for x in (b, sw, b.lower(), b.upper()):
                    cases.append("K %s 0 %s" % (hx(sw + b"\0"), hx(x)))
                    cases.append("K %s 1 %s" % (hx(b + b":t\0"), hx(x)))
                cases.append(FIXED_G)
                cases += ["R " + hx(p) for p in (b, b"u@" + b, b + b"@a", b"u%" + b + b"@a")]
        except (KeyError, ValueError):
            continue
    return cases


run_standard("C10", "Nq.Props.C10", "drv_c10", "harness/c10_route.c", "qmail-send",
             ["control.o", "constmap.o", "auto_qmail.o"],
             "6 1500 320", "8 100000 8000",
             {"quick": RULE % (6, 1500, 320), "thorough": RULE % (8, 100000, 8000)},
             "Nq.Rewrite (cmInit/CM.lookup, getcontrols/reget, rewriteWith, senderadd, commWrite, todoDo, accept/acceptAll over edit|hup|top|msg events, SIGHUP during the re-read included; Nq.RewriteIO: readfileIO/readlineIO, getcontrolsIO/startIO, regetIO, "
             "acceptF/acceptFAll with topIO, rereadCall/startCall call sequences, rchrC) vs control.c, "
             "constmap.c, qmail-send.c getcontrols/regetcontrols/rewrite/senderadd/comm_write/del_start/todo_do/sighup/main loop",
             mutate=mutate,
             assumptions=[
                 "control files and envelope addresses contain no NUL byte (qmail-queue cannot produce one inside an address; the model is exact with NULs, the documented-rule oracle is applied to NUL-free files only)",
                 "control files in which a virtualdomains key is listed twice are outside the property's domain: they are compared with the model (later entry wins) but not judged by the routing oracle (repeated keys in locals/percenthack are judged: membership needs no hypothesis)",
                 "I/O errors while reading control files are modelled (Nq.RewriteIO) and injected at every chdir/open_read/read/close of start-up and of the re-read, one failing call per run (the theorems cover any combination); out-of-memory returns (stralloc/constmap_init returning 0) are modelled and covered by the theorems but NOT injected; the seven controls other than me/envnoathost/locals/percenthack/virtualdomains do not exist in the harness's directory (their open_read is failed, their reads cannot be); a regular file is read in full 64-byte reads (nreadsFile/nreadsLine)",
                 "percent hack repeated: the documents are read as a rule on the (local part, domain) pair; when an extracted fqdn itself contains '@' the string-level reading would differ (counted as R_pct_readings_differ, theorem C10_pct_string)",
                 "H3: qmail-send's main() runs as a real child process with spawn concurrency 0 (no deliveries; legs e/g/h) or 10 with the harness answering every delivery with success (leg i); the harness plays qmail-clean; in H steps a SIGHUP is sent only while the daemon is blocked in select() and the step ends when it is seen blocked in select() again, i.e. the observed events are hup then loop top; in I steps the second SIGHUP arrives while the daemon is inside reread() (held at a chosen call by a pass-through gate compiled around control.c/qmail-send.c: chdir, open_read, read, close keep their arguments and results), and because the stock loop only looks at the flag at its top and select() does not return for a signal that arrived before it (the known select race, theorem C10_hup_race), the harness pulls the trigger once with an empty todo/ before the next message so that the loop has passed its top; the control files of an I step are replaced by rename, so the overlapped re-read sees each file as it was when it opened it",
                 "a message todo_do refuses is recognised by the daemon going back to sleep in select() without having asked qmail-clean to remove todo/<id> (process state and syscall read from /proc)",
                 "LP64: constmap_hash is a 64-bit unsigned long"])
