#!/usr/bin/env python3
"""C02 — every queue entry is always in a documented state under any interleaving, crash, restart; name = inode;
documented removal order; stale leftovers only after 36 h; one daemon."""
import os, re, sys
sys.path.insert(0, os.path.join(os.path.dirname(os.path.abspath(__file__)), "..", "tools"))
import nqlib
from nqlib import Check, run_pipeline, parse_driver_output, standard_verdict, driver_path, NCPU, VERIF, kv


def scenario_of(line):
    """the scenario words (key=value before why=) of a DISAGREE/ORACLE line"""
    words = line.split()[1:]
    out = []
    for w in words:
        if w.startswith("why=") or w.startswith("event#") or "=" not in w:
            break
        out.append(w)
    return out


def main():
    c = Check("C02")
    ok = c.proofs("Nq.Props.C02", drivers=["drv_c02"])
    s = c.build_repo()
    if s.ok:
        c.simcheck(s, 400 if c.tier == "quick" else 4000)
    stats, samples, disagree, oracle, errors = {}, [], [], [], []
    neighbourhood = None
    if s.ok and c.driver_ok:
        try:
            o1, e1 = s.prog_object("qs", "qmail-send.c", "qmail-send", keep_globals=["auto_split"], objs_exclude=["qmail.o"])
            o2, e2 = s.prog_object("qc", "qmail-clean.c", "qmail-clean")
            o3, e3 = s.prog_object("qa", "qmail-queue.c", "qmail-queue")
            o4, e4 = s.prog_object("qb", "qmail-queue.c", "qmail-queue")
            o5, e5 = s.prog_object("qd", "qmail-queue.c", "qmail-queue")
            o6, e6 = s.prog_object("qt", "qmail-send.c", "qmail-send", objs_exclude=["qmail.o"])
            h = s.cc(os.path.join(VERIF, "harness/c02_queuesys.c"), os.path.join(s.dir, "h_c02"),
                     extra="%s/harness/sim.c %s %s %s %s %s %s -lpthread -ldl" % (VERIF, o1, o2, o3, o4, o5, o6))
            drv = driver_path("drv_c02")
            nrand = 2400 if c.tier == "quick" else 60000
            cmds = []
            if c.replay:
                cmds.append("%s - < %s" % (h, c.replay))
            else:
                corpus = os.path.join(VERIF, "corpus", "C02.txt")
                if os.path.exists(corpus):
                    cmds.append("grep -v '^#' %s | %s -" % (corpus, h))
                cmds += ["%s %d %d %d %d" % (h, nrand, c.seed, i, NCPU) for i in range(NCPU)]
                # systematic leg: depth-first enumeration of every interleaving of the queue-file calls for five small configurations
                dlim = 150 if c.tier == "quick" else 6000
                cmds += ["%s D %d %d %d %d" % (h, cfg, dlim, i, NCPU) for cfg in range(5) for i in range(9)]
            outs = run_pipeline(cmds, drv)
            stats, samples, disagree, oracle, errors = parse_driver_output(outs)

            def neighbourhood(dis):
                # the disagreeing scenarios under many other schedules, with and without their fault / stall / crash
                cases = set()
                for d in dis[:12]:
                    words = scenario_of(d)
                    base = [w for w in words if not w.startswith("sched=")]
                    bare = [w for w in base if not re.match(r"(stall|kill|fault|crash|d2)=", w)]
                    for k in range(60):
                        cases.add(" ".join(base + ["sched=%d" % (k * 7919 + 1)]))
                        if k < 20:
                            cases.add(" ".join(bare + ["sched=%d" % (k * 104729 + 3)]))
                            cases.add(" ".join(bare + ["d2=%d" % (30 + 17 * k), "sched=%d" % k]))
                            cases.add(" ".join(bare + ["stall=2:%d:%d" % (20 + 2 * k, (20, 37, 40, 60)[k % 4]), "sched=%d" % k]))
                            cases.add(" ".join(bare + ["crash=%d:%d" % (150 + 37 * k, k % 5), "sched=%d" % k]))
                # old queued / preprocessed messages present at start (daemon was down for days): exercises the info/todo guards of the collector
                for k in range(40):
                    cases.add("inj=%s pre=4:%d,4:%d,5:%d,4:%d skip=%d out=Z sched=%d" % ("05"[k % 2], 37 + k, 40 + 2 * k, 50, 100, k % 23, k))
                cl = sorted(cases)
                cmds2 = []
                for j in range(NCPU):
                    tf = os.path.join(s.dir, "nb%d.txt" % j)
                    open(tf, "w").write("\n".join(cl[j::NCPU]) + "\n")
                    cmds2.append("%s - < %s" % (h, tf))
                o2_ = run_pipeline(cmds2, drv)
                st2, _, _, or2, _ = parse_driver_output(o2_)
                c.cov["search_cases"] = st2.get("cases", 0)
                return nqlib.shortest(or2, key="inj=") if or2 else None
        except Exception as ex:
            errors.append(str(ex))
    else:
        errors.append("build failed: " + "\n".join(c.notes)[-3000:])
    c.cov["evaluations"] = int(stats.get("cases", 0))
    c.cov["distinct_nontrivial"] = int(stats.get("distinct_nontrivial", 0))
    c.cov["traces_validated_against_impl"] = max(0, int(stats.get("cases", 0)) - int(stats.get("disagree", 0)))
    c.cov["rule"] = ("each case = one scenario: 1-3 real qmail-queue instances (good / truncated / wrong-letter / read-error input), the real qmail-send + qmail-clean with "
                     "scripted spawners (K/Z/D outcomes), optionally a second real qmail-send started later, leftovers of every kind (S2, S3, S4, S5, pid files, pid file "
                     "still linked to mess) aged 1-100 h present at start, and one of: a stalled injector (the clock runs on up to 60 h between two of its calls), a killed "
                     "injector, a single failing call in any process, a world crash at a seeded call with one of 5 loss resolutions followed by a restart with a fresh injector. "
                     "All programs run as threads under qsim; a seeded schedule decides before every open_excl/link/unlink/stat/open_append/open_read/flock/select. "
                     "Each trace is replayed event by event through QueueSys.accept and the reconstructed directory is compared with qsim's dump; the oracle evaluates on the "
                     "concrete directory after every mutating call: documented state, documented move, name = inode and split directory, number taken from S1 only, removal "
                     "order of bounce/info/mess, stale collection only after 36 h with no info/todo and no running owner, pid files only after 36 h, no queue change by a "
                     "qmail-send without the lock. Systematic leg: for five small configurations (injector + stale S3 leftover being collected; injector with a truncated envelope "
                     "cleaning up while an unrelated queued message is preprocessed; two injectors; a #@[] message injected while a preprocessed message fails, bounces and is eliminated; "
                     "injector + pid/mess leftovers being collected) every interleaving of the calls on queue files is enumerated depth-first (decisions only at those calls, an idle daemon waits "
                     "for the trigger), up to %d schedules per first-two-choices partition; input_distribution says per configuration how many partitions were enumerated completely. "
                     "non-trivial = distinct scenario text (incl. the schedule)" % (150 if c.tier == "quick" else 6000))
    c.cov["exhaustive"] = False
    c.cov["samples"] = samples[:6] or ["(none)"]
    c.cov["input_distribution"] = {k: v for k, v in stats.items() if k.startswith("ev_") or k.startswith("dfs_") or k.startswith("skipped") or k in ("horizon_abort", "budget_abort", "second_instance_abort", "stall_fired", "kill_fired")}
    c.assumptions += ["OS semantics of DESIGN.md 1.4 as implemented by harness/sim.c: atomic synchronous directory operations, a fresh inode number is not in use, "
                      "alarm(n) lets no call happen n seconds later, flock is a mutex, atime of a new file = creation time",
                      "qmail-clean dies with its qmail-send (a new qmail-send is started only after the previous instance's qmail-clean is gone)",
                      "bounce injection (qmail.c + a child qmail-queue) is replaced by a stand-in that succeeds; spawners are scripted",
                      "readdir returns at least the entries present for the whole scan"]
    standard_verdict(c, ok, stats, disagree, oracle, errors,
                     "QueueSys.accept (Nq/QueueSys.lean) vs the queue-directory system calls of qmail-queue.c, qmail-send.c, qmail-clean.c",
                     neighbourhood, replay_hint="./check C02 --replay <file with scenario lines: the key=value words of the failing case up to why=>")
    c.finish()


if __name__ == "__main__":
    main()
