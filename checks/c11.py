#!/usr/bin/env python3
"""C11 — local deliveries run as exactly the user the address belongs to, never root."""
import os, sys
sys.path.insert(0, os.path.join(os.path.dirname(os.path.abspath(__file__)), "..", "tools"))
from nqlib import run_standard

RULE = ("every users/assign of up to %s lines drawn from a 17-line template set (simple, wildcard, duplicate, overlapping, mixed-case, uid 0, "
        "uid wrapping to 0, malformed incl. one colon short) compiled by the real qmail-newu.c main and compared byte-for-byte with the model cdbMake; for each table 23 probe "
        "local parts (hits, near-misses, case variants, extensions, null) delivered through the real spawn.c docmd() + qmail-lspawn.c spawn()/nughde_get() "
        "child with setgroups/setgid/setuid/getuid/execv/chdir/fork recorded and 9 single-call faults on a rotating basis; the same over an 11-line "
        "8-bit template set (UTF-8 and Latin-1 names, 0x7f, 0x01, 0x80, 0xff, ASCII letter + 0x80, upper case next to 8-bit bytes; exact and wildcard) "
        "with 26 8-bit probe local parts through cdb_seek and the delivery child; %s seeded random tables (every third over the whole byte range) "
        "(1-40, 200-700 and 990-2200 entries) with raw cdb_seek lookups, probes derived from the table, and corrupted/truncated copies of the cdb; "
        "random passwd databases (uid 0, missing/foreign/unreadable homes, ETXTBSY, 29-34 character names, missing/root alias) through the real "
        "qmail-getpw.c main directly and through the forked child of nughde_get; report() on every exit code. Compared with the Lean model "
        "(newuFile, cdbGet, findStruct, getpwMain, docmd); oracle = Nq.Spec.Users (independent colon-field reading of the table, longest-prefix "
        "assignment, password-file rules, guarded-exec trace predicate) on the implementation's trace; non-trivial = distinct (table, passwd db, recipient, fault)")

run_standard("C11", "Nq.Props.C11", "drv_c11", "harness/c11_users.c", "qmail-lspawn",
             ["spawn.o"],
             "2 2000", "3 24000", {"quick": RULE % (2, 2000), "thorough": RULE % (3, 24000)},
             "newuFile/cdbMake, cdbSeek, nughdeCdb, getpwMain, docmd/spawnChild, reportByte (Nq/Users.lean) vs qmail-newu.c, cdb_seek.c, "
             "qmail-lspawn.c, qmail-getpw.c, spawn.c docmd()",
             alphabet=b"ab-AB:+=.\n%0\xc3\xbc\xe9\xc9\xff\x7f\x01",
             stdin_prefixes=("0",),
             extra_cc="cdbmss.o getln.a cdbmake.a auto_break.o stralloc.a substdio.a open.a error.a str.a fs.a case.a",
             assumptions=["setgroups/setgid/setuid/getuid have their POSIX meaning (interposed and recorded; after a successful setuid(u), getuid() = u)",
                          "getpwnam/getgrnam/stat of home directories are scripted; the delivery child runs in-process (fork() in spawn() returns 0), "
                          "the qmail-getpw child of nughde_get is a real fork",
                          "cdb sizes stay below 2^32 (cdbmss.c's own XXX); allocation failures are not modelled (a corrupted cdb that makes the C code "
                          "run out of memory is accepted as the same deferral as the model's read error)"])
