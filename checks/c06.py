#!/usr/bin/env python3
"""C06 — outbound SMTP DATA cannot be terminated or hijacked by message content."""
import os, sys
sys.path.insert(0, os.path.join(os.path.dirname(os.path.abspath(__file__)), "..", "tools"))
from nqlib import run_standard

RULE = ("every byte string over {CR,LF,'.','a'} up to length %s (exhaustive; read chunkings full/1/2/3) plus seeded random "
        "messages up to 64 KiB, run through the real qmail-remote.c blast() (ASan+UBSan build of the working tree) and the Lean "
        "model rblast; the oracle (terminator once, no bare LF, stuffed lines, rfcDecode(out)=canon(in)) is evaluated on the "
        "implementation's output; non-trivial = distinct input containing a CR or a dot at a line start")

run_standard("C06", "Nq.Props.C06", "drv_c06", "harness/c06_blast.c", "qmail-remote", [],
             "9 4000", "12 60000", {"quick": RULE % 9, "thorough": RULE % 12},
             "rblast (Nq/SmtpOut.lean) vs qmail-remote.c blast()", alphabet=b"\r\n.a",
             assumptions=["substdio buffering is transparent to the byte stream (several read chunkings are run)",
                          "the SMTP peer splits lines at CR LF (RFC 5321)"])
