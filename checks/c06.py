#!/usr/bin/env python3
"""C06 — outbound SMTP DATA cannot be terminated or hijacked by message content."""
import os, sys, random
sys.path.insert(0, os.path.join(os.path.dirname(os.path.abspath(__file__)), "..", "tools"))
import nqlib
from nqlib import Check, run_pipeline, parse_driver_output, standard_verdict, driver_path, NCPU, VERIF


def main():
    c = Check("C06")
    ok = c.proofs("Nq.Props.C06", drivers=["drv_c06"])
    s = c.build_repo()
    stats, samples, disagree, oracle, errors = {}, [], [], [], []
    if s.ok and c.driver_ok:
        try:
            h = s.cc(os.path.join(VERIF, "harness/c06_blast.c"), os.path.join(s.dir, "h_c06"), link_like="qmail-remote")
            drv = driver_path("drv_c06")
            maxlen, nrand = (9, 4000) if c.tier == "quick" else (12, 60000)
            cmds = []
            corpus = os.path.join(VERIF, "corpus", "C06.txt")
            if c.replay:
                cmds.append("%s - < %s" % (h, c.replay))
            else:
                if os.path.exists(corpus):
                    cmds.append("%s - < %s" % (h, corpus))
                cmds += ["%s %d %d %d %d %d" % (h, maxlen, nrand, c.seed, i, NCPU) for i in range(NCPU)]
            outs = run_pipeline(cmds, drv)
            stats, samples, disagree, oracle, errors = parse_driver_output(outs)

            def neighbourhood(dis):
                rnd = random.Random(c.seed)
                cases = set()
                for d in dis[:50]:
                    hx = nqlib.kv(d).get("in", "-")
                    b = bytearray.fromhex("" if hx == "-" else hx)
                    for _ in range(400):
                        m = bytearray(b)
                        for _ in range(rnd.randint(1, 3)):
                            op = rnd.randint(0, 2)
                            pos = rnd.randint(0, len(m))
                            ch = rnd.choice(b"\r\n.a")
                            if op == 0: m.insert(pos, ch)
                            elif op == 1 and m: del m[min(pos, len(m) - 1)]
                            elif m: m[min(pos, len(m) - 1)] = ch
                        for ck in (0, 1, 2, 3):
                            cases.add("%d %s" % (ck, m.hex() or "-"))
                tf = os.path.join(s.dir, "nb.txt")
                open(tf, "w").write("\n".join(sorted(cases)) + "\n")
                o2 = run_pipeline(["%s - < %s" % (h, tf)], drv)
                st2, _, _, or2, _ = parse_driver_output(o2)
                c.cov["search_cases"] = st2.get("cases", 0)
                return nqlib.shortest(or2) if or2 else None
        except Exception as ex:
            errors.append(str(ex))
            neighbourhood = None
    else:
        errors.append("build failed: " + "\n".join(c.notes)[-3000:])
        neighbourhood = None
    c.cov["evaluations"] = int(stats.get("cases", 0))
    c.cov["distinct_nontrivial"] = int(stats.get("distinct_nontrivial", 0))
    c.cov["traces_validated_against_impl"] = int(stats.get("cases", 0)) - int(stats.get("disagree", 0))
    c.cov["rule"] = ("every byte string over {CR,LF,'.','a'} up to length %s (exhaustive; read chunkings full/1/2/3) plus seeded random "
                     "messages up to 64 KiB, run through the real qmail-remote.c blast() (ASan+UBSan) and the Lean model rblast; "
                     "non-trivial = distinct input containing a CR or a dot at a line start" % ("9" if c.tier == "quick" else "12"))
    c.cov["exhaustive"] = False
    c.cov["samples"] = samples[:6]
    c.cov["input_distribution"] = {k: v for k, v in stats.items() if k.startswith(("chunk", "status"))}
    c.assumptions += ["substdio buffering is transparent to the byte stream (checked by running several read chunkings)",
                      "the SMTP peer splits lines at CR LF (RFC 5321)"]
    standard_verdict(c, ok, stats, disagree, oracle, errors, "rblast (Nq/SmtpOut.lean) vs qmail-remote.c blast()",
                     neighbourhood, replay_hint="./check C06 --replay <file with '<chunk> <hex message>' lines>")
    c.finish()


if __name__ == "__main__":
    main()
