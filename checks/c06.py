#!/usr/bin/env python3
"""C06 — outbound SMTP DATA cannot be terminated or hijacked by message content."""
import os, sys
sys.path.insert(0, os.path.join(os.path.dirname(os.path.abspath(__file__)), "..", "tools"))
from nqlib import run_standard, VERIF, byte_mutations, kv

RULE = ("every byte string over {CR,LF,'.','a'} up to length %s (exhaustive; read chunkings full/1/2/3, short writes, and for the shorter ones "
        "tiny substdio buffers, a failing read() at every position, a failing write() and interrupted reads (EINTR)) plus seeded random messages up to 64 KiB (7 of 8 ending in a line end, "
        "half with substdio buffer sizes 1..1024), "
        "run through the real qmail-remote.c blast() over the program's OWN ssin/smtpto exactly as its static initialisers set them up (read operation, "
        "descriptor, buffer objects and sizes; the program is built as an object of its own whose data sections are restored to the load-time image "
        "before every case, read()/write()/_exit() interposed at link level, timeoutwrite.o = scripted socket, real safewrite; ASan+UBSan build of the "
        "working tree) and the Lean "
        "models rblast (pure) and oblast (the loop over Nq.Substdio, the harness's read/write plans as scripts: outcome, bytes taken by the socket, "
        "bytes left in smtptobuf, number of write() calls); chunking (theorems C06_chunking*): messages of 1-5 KiB each under 19 fixed read x write "
        "plans (1/2/1023/1024/1025/full/mixed), random short reads and writes, a failing read, a failing write, and every string up to length %s "
        "placed at every offset across the 1024-byte refill of inbuf; oracles on the implementation's output: completed transmissions - terminator once, "
        "no bare LF, stuffed lines, dblast(out)=rfcDecode(out)=canon(in), nothing left unflushed; refused/failed/dropped ones (C06_prefix_no_terminator) - "
        "flushed+buffered bytes are a prefix of the encoder output, no bare LF, no lone-dot line; every non-failing split gives the same wire; "
        "refusal (C06_refused_canon): without a failing call the message is refused iff canon(in) is non-empty and does not end in LF; "
        "envelope commands (C06_envelope_one_line): every string over {a,@,.,CR,LF,quote,backslash,SP} up to length 4/5 as sender and as recipient, every byte value "
        "1..255 at the start/middle/end of the box and in the host part, random addresses up to 440 bytes, through the program's own addrmangle() and smtp() "
        "(sender/reciplist/helohost as main() fills them) against a scripted server (timeoutread.o replaced): the write()s on the socket must be HELO, "
        "MAIL FROM:<mangle sender>, RCPT TO:<mangle rcpt>, DATA, rblast(msg), QUIT as the model says, and (oracle) the MAIL/RCPT write is exactly one line iff the address has no CR/LF; "
        "non-trivial = distinct input containing a CR or a dot at a line start")

PREFIXES = ("0", "1", "2", "3", "1023/1", "1024/1023")


def mutate(dis, seed):
    """failing-input search around disagreeing cases: shortest inputs first, each mutated under ITS OWN plan as well as the
    standard ones; the volume is bounded (long inputs get fewer mutations) so that the single-process search stays in seconds"""
    ds = sorted(dis, key=lambda d: len(kv(d).get("in", "")))[:50]
    cases, vol = set(), 0
    for d in ds:
        f = kv(d)
        plans = tuple(dict.fromkeys((f.get("chunk", "0"),) + PREFIXES))
        per = max(4, min(400, 6000000 // (50 * max(1, len(f.get("in", "-"))) * len(plans))))
        new = byte_mutations([d], seed, b"\r\n.a", per=per, prefix_variants=plans)
        cases.update(new)
        vol += sum(len(c) for c in new)
        if vol > 4000000:
            break
    return sorted(cases)


def builder(s):
    """qmail-remote as a program object of its own (its writable data in sections the harness restores before every case:
    every case starts from the program's own static initialisers - ssin, smtpto, inbuf, smtptobuf, any static);
    read / write / _exit interposed at link level, timeoutwrite.o replaced by the harness's scripted socket"""
    obj, extra = s.prog_object("qr", "qmail-remote.c", "qmail-remote", keep_globals=["blast", "ssin", "smtpto", "smtpfd", "smtp", "addrmangle", "sender", "reciplist", "helohost"],
                               objs_exclude=["timeoutwrite.o", "timeoutread.o"])
    return s.cc(os.path.join(VERIF, "harness/c06_blast.c"), os.path.join(s.dir, "h_c06"),
                extra="%s %s -Wl,--wrap=read -Wl,--wrap=write -Wl,--wrap=_exit" % (obj, extra))


run_standard("C06", "Nq.Props.C06", "drv_c06", "harness/c06_blast.c", "qmail-remote", ["timeoutwrite.o", "timeoutread.o"],
             "9 4000", "12 60000", {"quick": RULE % (9, 5), "thorough": RULE % (12, 8)},
             "rblast (Nq/SmtpOut.lean) and oblast over Nq.Substdio (Nq/SmtpIO.lean) vs qmail-remote.c blast() over substdi.c/substdo.c/safewrite; mangle/cmdLine (Nq/SmtpEnv.lean) vs qmail-remote.c addrmangle()/smtp() + quote.c",
             builder=builder, mutate=mutate, alphabet=b"\r\n.a", stdin_prefixes=PREFIXES,
             assumptions=["the value-level substdio model (Nq/Substdio.lean: buffers are byte lists, not the arrays) is tied to substdi.c/substdo.c by running "
                          "the real substdio under the read/write plans and comparing wire, buffered bytes and write() counts (and by C20's harness); "
                          "read() returns 0 only at the end of the file; write() returns >= 1 or fails (safewrite treats 0 as failure)",
                          "the SMTP peer splits lines at CR LF (RFC 5321)"])
