#!/usr/bin/env python3
"""C09 — remote delivery verdicts are sound for every server behaviour (qmail-remote smtp()/smtpcode(),
qmail-rspawn report())."""
import os, sys, random
sys.path.insert(0, os.path.join(os.path.dirname(os.path.abspath(__file__)), "..", "tools"))
import nqlib
from nqlib import Check, run_pipeline, parse_driver_output, standard_verdict, driver_path, kv, shortest, VERIF, NCPU

PROP = "C09"
HARNESS = "harness/c09_remote.c"
RULE = {
    "quick": "the real qmail-remote.c smtp()/smtpcode()/quit()/dropped()/blast() (ASan+UBSan build of the working tree; only timeoutread/timeoutwrite "
             "replaced by a scripted server) on: every script assigning one of 13 reply kinds (exact/other 2xx, 3xx, 4xx, 5xx, single-/multi-line, code-only, "
             "short line, non-digit code, disconnect at a phase start or inside a reply) to each of the 5+n phases for n=1 (13 kinds, two read chunkings, EOF and "
             "timeout), n=2 (9 kinds), n=3 (6 kinds), cut where the conversation ends; every write (HELO, MAIL, each RCPT, DATA, body, final flush, QUIT) failing "
             "in turn on every {2xx,4xx,5xx} script for n=1..3, also with a 2.4 KB body, a partial last line and an unreadable message; message sizes 1015..1026 "
             "(around the 1024-byte output buffer) x each write from DATA to QUIT failing x final reply 2xx/4xx/5xx, the same with short writes (at most 1000 / 600 / 1 bytes per write() call, "
             "every call around the end of the body failing) and with bodies ending in line ends, a dot-stuffed line or a CR at sizes 1012..1024; every byte string over "
             "{2,5,0,4,-,LF,CR,SP} up to length 5 as the greeting / MAIL reply / final-dot reply; seeded random conversations (random codes, up to 5 lines, "
             "NUL/CR/8-bit text, >5000-byte texts, random cut, 1-8 recipients, random failing write). The real qmail-rspawn.c report() on every output over "
             "{r,h,s,K,Z,D,x,NUL} up to length 6 with exit 0 and, for length <=2, every exit status 0..255 x {no signal, 1, 9, 11, 127, core flag}; and on the "
             "output of every smtp() run. The real main() of qmail-remote from the DNS result on (control files, resolver, ipme, tcpto, connect scripted): every lookup "
             "result x every list of up to 3 addresses (pref x is-me x tcpto-skip x connects/refused/timeout) x {good server, 554 greeting, silent server, failing write}. "
             "Compared with the Lean models smtpRunB (smtp() with blast() over the 1024-byte smtpto buffer: report bytes, the exact bytes received by the server, the bytes of the failing write(), "
             "exit status)/rreport/mainRun (relayed line, tcpto_err calls); "
             "oracle = kSound/rcptOrder/verdictOK(expect), strict also when the QUIT write fails/wireOrderQ/preOK/hostNamed/rspawnSound/rspawnClasses/noUpgrade/relayWithin and, end to end, relayAsReplied (the class K/Z/D of the line the real report() relays for the real smtp() output = relayClass(expect): first recipient refused 4xx -> Z, 5xx -> D, otherwise the class of the message verdict, lost connection -> Z - a function of the server's replies only) on the "
             "implementation's output, reading the stream line by line; whether a failing write inside blast() is critical (must be flagged 'Possible duplicate!') is decided from the "
             "bytes of that write (does it carry the last byte of the encoded message?), not from the client's flagcritical; for a failing write of blast() additionally: wire ++ its bytes is a prefix of "
             "commands ++ encoding, and the duplicate flag is present iff C09_flag_computed says so of the implementation's bytes (complete message and all but at most the 3-byte terminator handed over); "
             "non-trivial = distinct input whose verdict is not K or which has a multi-line reply (S), distinct exit-0 output containing NUL (R)",
}
RULE["thorough"] = RULE["quick"].replace("n=2 (9 kinds), n=3 (6 kinds)", "n=2 (13 kinds), n=3 (9 kinds)").replace("up to length 5 as", "up to length 6 as").replace("up to length 6 with exit 0", "up to length 8 with exit 0")
ARGS = {"quick": "0 6000", "thorough": "1 200000"}
ASSUME = [
    "the server is a byte stream plus the point where reads start failing and the write that fails; timeoutread/timeoutwrite return 0/-1 there (select/read/write themselves are not modelled)",
    "substdio buffering of the reads (ssin, smtpfrom) is transparent (several read chunkings are run); the output buffer smtpto is modelled for blast() (Nq.RemoteBuf over Nq.Substdio), the command writes are one write() each (commands shorter than the buffer)",
    "main() is run from dns_mxip's return value on: control files (helohost me.example, no smtproutes), the resolver, ipme, tcpto's file and connect() are scripted answers; addrmangle is run on plain addresses only",
    "blast() runs over the model of the 1024-byte smtpto buffer (substdio_put per piece, substdio_flush, allwrite with short writes): the model computes the writes, the bytes of a failing write() and on which side of 'flagcritical = 1' it falls; the harness names a failing write by its bytes only and never reads the client's flagcritical; write() itself (timeoutwrite/select) is a scripted answer: takes all / at most wchunk bytes / fails",
    "report() is called with the complete output and the wait status of qmail-remote (spawn.c main loop: property C18, theorem C18_spawn_report_after_status and its oracle lifeOK); in the harness the collected output is followed by '!' NUL and an ASan red zone, so any read past its end is visible",
    "unsigned long is 64 bits (the verdict comparisons are width-independent, Nq.Lemmas.RemoteSmtp)",
]


def case_line(d):
    """stdin case for the harness from the key=value fields of a DISAGREE/ORACLE line"""
    if d.get("kind") == "R":
        return "R %s %s" % (d.get("wstat", "0"), d.get("in", "-"))
    if d.get("kind") == "M":
        return "M %s %s %s %s" % (d.get("dnsret", "0"), d.get("cands", "."), d.get("in", "-"), d.get("wk", "0"))
    return "S %s %s %s %s %s %s %s %s %s %s %s" % (d.get("ip", "c0000219"), d.get("helo", "-"), d.get("sender", "-"), d.get("rcpts", "-"),
                                                   d.get("msg", "-"), d.get("msgerr", "0"), d.get("in", "-"), d.get("chunk", "0"),
                                                   d.get("wk", "0"), d.get("endmode", "0"), d.get("wchunk", "0"))


def mutations(dis, seed, per=300):
    rnd = random.Random(seed)
    cases = set()
    for line in dis[:40]:
        d = kv(line)
        hx = d.get("in", "-")
        try:
            b = bytearray.fromhex("" if hx == "-" else hx)
        except ValueError:
            continue
        alphabet = b"rhsKZDx\0" if d.get("kind") == "R" else b"2504-\n\r x"
        nr = 1 if d.get("kind") == "M" else 0 if d.get("rcpts", "-") == "." else d.get("rcpts", "-").count(",") + 1
        for i in range(per):
            m = bytearray(b)
            for _ in range(rnd.randint(0, 3) if i else 0):
                op, pos, ch = rnd.randint(0, 2), rnd.randint(0, len(m)), rnd.choice(alphabet)
                if op == 0:
                    m.insert(pos, ch)
                elif op == 1 and m:
                    del m[min(pos, len(m) - 1)]
                elif m:
                    m[min(pos, len(m) - 1)] = ch
            if rnd.random() < 0.3 and m:
                del m[rnd.randint(0, len(m)):]
            e = dict(d)
            e["in"] = bytes(m).hex() or "-"
            if d.get("kind") == "R":
                for w in (d.get("wstat", "0"), "0"):
                    e["wstat"] = w
                    cases.add(case_line(e))
            else:
                for wk in ([d.get("wk", "0")] if i % 4 else range(0, nr + 7)):
                    e["wk"] = str(wk)
                    cases.add(case_line(e))
    return sorted(cases)


def main():
    c = Check(PROP)
    ok = c.proofs("Nq.Props.C09", drivers=["drv_c09"])
    s = c.build_repo()
    stats, samples, disagree, oracle, errors = {}, [], [], [], []
    neighbourhood = None
    if s.ok and c.driver_ok:
        try:
            h = s.cc(os.path.join(VERIF, HARNESS), os.path.join(s.dir, "h_c09"), link_like="qmail-remote",
                     objs_exclude=["timeoutread.o", "timeoutwrite.o", "control.o", "dns.o", "ipme.o", "tcpto.o", "timeoutconn.o"])
            drv = driver_path("drv_c09")
            cmds = []
            corpus = os.path.join(VERIF, "corpus", PROP + ".txt")
            if c.replay:
                cmds.append("%s - < %s" % (h, c.replay))
            else:
                if os.path.exists(corpus):
                    cmds.append("%s - < %s" % (h, corpus))
                cmds += ["%s %s %d %d %d" % (h, ARGS[c.tier], c.seed, i, NCPU) for i in range(NCPU)]
            outs = run_pipeline(cmds, drv)
            stats, samples, disagree, oracle, errors = parse_driver_output(outs)

            def neighbourhood(dis):
                cases = mutations(dis, c.seed)
                if not cases:
                    return None
                tf = os.path.join(s.dir, "nb.txt")
                open(tf, "w").write("\n".join(cases) + "\n")
                o2 = run_pipeline(["%s - < %s" % (h, tf)], drv)
                st2, _, _, or2, _ = parse_driver_output(o2)
                c.cov["search_cases"] = st2.get("cases", 0)
                return shortest(or2) if or2 else None
        except Exception as ex:
            errors.append(str(ex))
    else:
        errors.append("build failed: " + "\n".join(c.notes)[-3000:])
    c.cov["evaluations"] = int(stats.get("cases", 0))
    c.cov["distinct_nontrivial"] = int(stats.get("distinct_nontrivial", 0))
    c.cov["traces_validated_against_impl"] = max(0, int(stats.get("cases", 0)) - int(stats.get("disagree", 0)))
    c.cov["rule"] = RULE[c.tier]
    c.cov["exhaustive"] = False
    c.cov["samples"] = samples[:6] or ["(no sample emitted)"]
    c.cov["input_distribution"] = {k: v for k, v in stats.items() if k not in ("cases", "distinct_nontrivial", "disagree", "oracle_fail")}
    c.assumptions += ASSUME
    # a ready-to-run stdin case next to the replay json
    hint = "./check C09 --replay <file of stdin cases for %s; line formats in its header comment>" % HARNESS
    first = shortest(oracle) if oracle else None
    if first:
        rp = os.path.join(VERIF, "replays", "%s-%s-%d-case.txt" % (PROP, c.tier, c.seed))
        os.makedirs(os.path.dirname(rp), exist_ok=True)
        open(rp, "w").write(case_line(kv(first)) + "\n")
        hint = "./check C09 --replay %s" % rp

    def nb(dis):
        found = neighbourhood(dis) if neighbourhood else None
        if found:
            rp = os.path.join(VERIF, "replays", "%s-%s-%d-case.txt" % (PROP, c.tier, c.seed))
            os.makedirs(os.path.dirname(rp), exist_ok=True)
            open(rp, "w").write(case_line(kv(found)) + "\n")
        return found
    standard_verdict(c, ok, stats, disagree, oracle, errors,
                     "smtpRunB/rreport (Nq/RemoteBuf.lean over Nq/RemoteSmtp.lean, Nq/RspawnReport.lean) vs qmail-remote.c smtp()/smtpcode() and qmail-rspawn.c report()",
                     nb, replay_hint=hint)
    c.finish()


if __name__ == "__main__":
    main()
