#!/usr/bin/env python3
"""C19 — the POP3 server shows the maildir faithfully and deletes only on request.

Two harnesses feed one driver: harness/c19_pop3d.c (qmail-pop3d main() over a real temporary maildir)
and harness/c19_popup.c (qmail-popup main() with a stand-in checker on descriptor 3)."""
import json, os, sys, re
sys.path.insert(0, os.path.join(os.path.dirname(os.path.abspath(__file__)), "..", "tools"))
import nqlib
from nqlib import Check, VERIF, NCPU, run_pipeline, parse_driver_output, driver_path, standard_verdict, kv, shortest

RULE = ("qmail-pop3d: every message over {LF,'.',a,CR} up to length %s retrieved with RETR, TOP 1 0/1/2, TOP 1; every command sequence up to length %s "
        "over a 43-command alphabet (all verbs; arguments none, 0, 1, n, n+1, 2^64+1, junk, a number followed by junk, RETR with a second number; upper/lower case) on 5 maildir populations "
        "(empty; new/ and cur/; dot-leading lines; no final newline; empty file; CRLF content; equal mtimes; dot files; mtime = now and in the future; "
        "old and fresh tmp/ files), each ended by QUIT or by a dropped connection; for each of DELE/RETR/TOP/LIST/UIDL the number followed by x, ' x', a space, a second number, 2abc, a tab, '.', '-', a leading + or 0, after nothing / DELE 1 / DELE 2, on every population; refusal as uid 0 / without a maildir; %s seeded random sessions "
        "(random maildirs up to 12 messages, files removed by a third party between commands, input cut into arbitrary read sizes, unfinished last line). "
        "now and then a maildir of 20-49 messages. SESSION 4 - failing system calls (F lines; the harness makes exactly the scheduled stat/open_read/read/unlink/rename calls of maildir.c and "
        "qmail-pop3d.c fail, errno cycling EIO/EACCES/ENOMEM): every message of 5 populations (one with a 3 KB and an 11 KB message, lines of 1500 and 9300 bytes) x RETR/TOP n 0/1/3/30 x {next open fails, read number "
        "0,1,2,3,4,5,9,10,11,12,40 fails}; unlink masks 0..5 x rename masks 0..3 x 5 DELE patterns on 5 populations; every single file stat-failed in the scan / in getlist() / both; a quarter as many random sessions "
        "again with faults of every kind; compared with the model Nq.Pop3F.mainF, oracle Nq.Pop3FRef.faultSessionOk (armed open => -ERR; armed read => complete correct response or +OK + proper prefix without "
        "terminator and end of stream, maildir unchanged; QUIT => exact expected maildir for the failing call ordinals, one -ERR line per marked message not unlinked; sessions in which getlist()'s stat fails on a "
        "message are compared with the model only: finding C19-F1). Big messages (Z lines): sparse files of 2^31-1, 2^31, 2^32-1, 2^32, 2^32+1234, 2^33+5, 70000 bytes and three files of 2^31 bytes, LIST / LIST n / "
        "STAT / DELE / UIDL / QUIT, listed sizes and STAT's total judged against st_size as unbounded naturals (Nq.Pop3SRef.sessionOkS). prioq.c driven directly: every insertion order of up to 6 entries over 4 time stamps, and seeded random "
        "histories of up to 400 prioq_insert/prioq_delmin calls (few or many equal keys), array and removals compared with the model, oracle = every delmin "
        "removes a minimum, nothing lost or invented, the drain is sorted. "
        "qmail-popup: every command sequence up to length %s over a 23-command alphabet, subprogram exiting 0/1/3/111 or crashing, plus %s random dialogues. "
        "The real main() of both programs (ASan+UBSan build of the working tree) is compared with the Lean model Nq.Pop3 on bytes written, exit code, "
        "bytes on descriptor 3 and the maildir afterwards; the oracle is the RFC 1939 reference Nq.Pop3Ref (client-side decoder popDecode, reference "
        "session, expected maildir) evaluated on the implementation's transcript for every numbering that is a mtime-sorted permutation of the "
        "messages present at start-up (searched exactly and lazily over all tie permutations; a failing case with more than 8! such numberings is counted as oracle_skipped_ties, not reported); STAT's total is compared, STAT's message count is not; LAST must report the highest number marked since the last RSET. non-trivial = distinct session with at least two events and a reply "
        "beyond the greeting / distinct dialogue that reached the checker")

TIERS = {"quick": dict(pop3d="3 40000", popup="3 1500", fmt=(6, 3, 40000, 3, 1500)),
         "thorough": dict(pop3d="4 400000", popup="4 20000", fmt=(7, 4, 400000, 4, 20000))}

EXTRA = ["4c4953540d0a", "5549444c0d0a", "5245545220310d0a", "5245545220320d0a", "515549540d0a"]   # LIST UIDL RETR 1 RETR 2 QUIT


def pop3d_case_from_report(d):
    """stdin case of harness/c19_pop3d.c from the fields of an ORACLE/DISAGREE line"""
    files = d.get("files", "-")
    if files != "-":
        out = []
        for e in files.split(","):
            p = e.split(":")
            if len(p) == 4:
                out.append("%s:%s:%d:%d" % (p[0], p[1], 1000000000 - int(p[2]), 1000000000 - int(p[3])))
        files = ",".join(out) or "-"
    flt = d.get("faults")
    return "P %s %s %s %s%s" % (d.get("uid", "1000"), d.get("havedir", "1"), files, d.get("in", "-"), (" " + flt) if flt else "")


def popup_case_from_report(d):
    return "U %s %s %s" % (d.get("host", "68"), d.get("child", "e0"), d.get("in", "-"))


def heap_case_from_report(d):
    return "P H %s" % d.get("in", "-")


def case_of(line):
    d = kv(line)
    if " heap " in line or "kind=heap" in line:
        return heap_case_from_report(d)
    return popup_case_from_report(d) if (" popup " in line or "kind=popup" in line) else pop3d_case_from_report(d)


def split_cases(path, tmpdir):
    """a replay file: JSON written by this check (field replay_cases) or plain 'P …' / 'U …' lines"""
    txt = open(path).read()
    try:
        lines = json.loads(txt).get("replay_cases", [])
    except ValueError:
        lines = txt.split("\n")
    pf, uf = os.path.join(tmpdir, "replay_p.txt"), os.path.join(tmpdir, "replay_u.txt")
    open(pf, "w").write("".join(l[2:] + "\n" for l in lines if l.startswith("P ")))
    open(uf, "w").write("".join(l[2:] + "\n" for l in lines if l.startswith("U ")))
    return pf, uf


def main():
    import time
    c = Check("C19")
    t0 = time.time()
    ok = c.proofs("Nq.Props.C19", drivers=["drv_c19"])
    t1 = time.time()
    s = c.build_repo()
    t2 = time.time()
    stats, samples, disagree, oracle, errors = {}, [], [], [], []
    neighbourhood = None
    if s.ok and c.driver_ok:
        try:
            hp = s.cc(os.path.join(VERIF, "harness/c19_pop3d.c"), os.path.join(s.dir, "h_c19_pop3d"),
                      link_like="qmail-pop3d", objs_exclude=["timeoutread.o", "timeoutwrite.o", "maildir.o"])
            hu = s.cc(os.path.join(VERIF, "harness/c19_popup.c"), os.path.join(s.dir, "h_c19_popup"),
                      link_like="qmail-popup", objs_exclude=["timeoutread.o", "timeoutwrite.o"])
            drv = driver_path("drv_c19")
            t = TIERS[c.tier]
            cmds = []
            if c.replay:
                pf, uf = split_cases(c.replay, s.dir)
                cmds += ["%s - < %s" % (hp, pf), "%s - < %s" % (hu, uf)]
            else:
                corpus = os.path.join(VERIF, "corpus", "C19.txt")
                if os.path.exists(corpus):
                    pf, uf = split_cases(corpus, s.dir)
                    cmds += ["%s - < %s" % (hp, pf), "%s - < %s" % (hu, uf)]
                cmds += ["%s %s %d %d %d" % (hp, t["pop3d"], c.seed, i, NCPU) for i in range(NCPU)]
                cmds += ["%s %s %d %d %d" % (hu, t["popup"], c.seed, i, NCPU) for i in range(NCPU)]
            t3 = time.time()
            outs = run_pipeline(cmds, drv)
            stats, samples, disagree, oracle, errors = parse_driver_output(outs)
            c.cov["phase_s"] = {"proofs": round(t1 - t0, 1), "repo_build": round(t2 - t1, 1), "harness_build": round(t3 - t2, 1),
                                "run": round(time.time() - t3, 1)}

            def neighbourhood(dis):
                cases = set()
                for d in dis[:40]:
                    k = kv(d)
                    if " popup " in d:
                        cases.add(popup_case_from_report(k)); continue
                    if " heap " in d:
                        cases.add(heap_case_from_report(k)); continue
                    cases.add(pop3d_case_from_report(k))
                    evs = [e for e in k.get("in", "-").split(",") if e != "-"]
                    for cut in (len(evs), max(0, len(evs) - 1)):
                        k2 = dict(k); k2["in"] = ",".join(evs[:cut] + ["d" + x for x in EXTRA]); cases.add(pop3d_case_from_report(k2))
                        k3 = dict(k); k3["in"] = ",".join(evs[:cut] + ["d" + EXTRA[2], "d" + EXTRA[4]]); cases.add(pop3d_case_from_report(k3))
                tf = os.path.join(s.dir, "nb.txt")
                open(tf, "w").write("\n".join(sorted(cases)) + "\n")
                pf, uf = split_cases(tf, s.dir)
                o2 = run_pipeline(["%s - < %s" % (hp, pf), "%s - < %s" % (hu, uf)], drv)
                st2, _, _, or2, _ = parse_driver_output(o2)
                c.cov["search_cases"] = st2.get("cases", 0)
                or2 = [o for o in or2 if "kind=wrap" not in o]
                return shortest(or2) if or2 else None
        except Exception as ex:
            errors.append(str(ex))
    else:
        errors.append("build failed: " + "\n".join(c.notes)[-3000:])

    # temporary maildirs of harness processes that died (e.g. killed by the sanitizer) are removed here
    import glob, shutil
    for d in glob.glob("/dev/shm/nqc19*-*") + glob.glob("/tmp/nqc19*-*"):
        pid = d.rsplit("-", 1)[-1]
        if pid.isdigit() and not os.path.exists("/proc/" + pid):
            shutil.rmtree(d, ignore_errors=True)

    c.cov["evaluations"] = int(stats.get("cases", 0))
    c.cov["distinct_nontrivial"] = int(stats.get("distinct_nontrivial", 0))
    c.cov["traces_validated_against_impl"] = max(0, int(stats.get("cases", 0)) - int(stats.get("disagree", 0)))
    c.cov["rule"] = RULE % TIERS[c.tier]["fmt"]
    c.cov["exhaustive"] = False
    c.cov["samples"] = [x[:1500] for x in samples[:6]] or ["(no sample emitted)"]
    c.cov["input_distribution"] = {k: v for k, v in stats.items() if k not in ("cases", "distinct_nontrivial", "disagree", "oracle_fail")}
    c.assumptions += [
        "the maildir holds regular files with unique names; stat/open_read/read/unlink/rename fail only where the harness schedules it (session 4: modelled and run; a file may also vanish between commands); "
        "opendir/readdir, maildir_clean's stat/unlink, write and malloc do not fail",
        "readdir order is whatever the kernel returns; the harness records it and hands it to the model (only the order inside one directory matters)",
        "descriptor 0 delivers the client's bytes in order regardless of read sizes (several chunkings are run); the 20-minute timeout is not modelled",
        "time() is replaced by a fixed clock so that the mtime < now boundary is deterministic",
        "qmail-popup: pipe() and fork() succeed; the subprogram is /bin/sh storing descriptor 3 and exiting as scripted",
        "message numbers are read as the leading decimal digits of the argument (trailing text ignored, as TOP's second argument requires); "
        "command lines containing NUL bytes are compared with the model but not judged by the RFC oracle",
    ]

    # failures that need a number >= 2^64 in the dialogue are one class (scan_ulong wrap-around in msgno/pop3_top)
    wrap = [o for o in oracle if "kind=wrap" in o]
    other = [o for o in oracle if "kind=wrap" not in o]
    hint = "./check C19 --replay <this file>   (replay_cases: 'P <uid> <havedir> <files> <events>' or 'P H <heap ops>' for harness/c19_pop3d.c, 'U <host> <child> <input>' for harness/c19_popup.c)"
    if other:
        first = shortest(other)
        c.violation("property oracle fails on the implementation's output",
                    {"failing_case": kv(first), "raw": first[:4000], "replay_cases": [case_of(first)], "how_to_replay": hint,
                     "oracle_failures": len(other)}, found_input=True)
    if wrap:
        first = shortest(wrap)
        c.violation("a message number (or TOP line count) of 2^64 or more is taken modulo 2^64 instead of being refused",
                    {"finding_class": "C19-msgno-wrap", "failing_case": kv(first), "raw": first[:4000],
                     "replay_cases": [case_of(first)], "how_to_replay": hint, "oracle_failures": len(wrap),
                     "theorems_no_longer_checked": getattr(c, "broken", [])}, found_input=True)
    if not c.violations:
        # no failing input reported so far: proofs / correspondence / harness errors decide (focused search included)
        standard_verdict(c, ok, stats, disagree, [], errors, "Nq.Pop3 main/pmain (Nq/Pop3.lean) vs qmail-pop3d.c / qmail-popup.c main()",
                         neighbourhood, replay_hint=hint)
    c.finish()


if __name__ == "__main__":
    main()
