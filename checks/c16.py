#!/usr/bin/env python3
"""C16 — new mail wakes the daemon: no lost trigger (every interleaving), bounded steps, no sleep with work pending,
select preparation (timeout and descriptor sets) of the real daemon compared with Nq.SelPrep at every select; the timeout is also judged
against the minimum over ALL queued entries (not the heap root), with signals interrupting selects at every phase of the run."""
import os, sys
sys.path.insert(0, os.path.join(os.path.dirname(os.path.abspath(__file__)), "..", "tools"))
import nqlib
from nqlib import Check, run_pipeline, parse_driver_output, standard_verdict, driver_path, NCPU, VERIF, kv


# qmail-send globals that harness/c16_snap.h reads (kept global in the qs instance; everything else is localised)
SNAP_GLOBALS = ["flagexitasap", "flagspawnalive", "flagcleanup", "numjobs", "recent", "nexttodorun", "cleanuptime", "pass", "jo",
                "pqdone", "pqchan", "pqfail", "comm_buf", "concurrency", "concurrencyused", "tododir", "chanfdout", "chanfdin"]


def replay_lines(text):
    """the cases of a replay file: either plain lines (schedule lines / 'm=...' scenario lines, '#' comments) or a replays/C16-*.json written by a
    VIOLATION, whose 'raw' field is the driver's ORACLE/DISAGREE text: 'ninj=<n> snap=<s> var=<v> sched=<c0,c1,..> why=...' or '<scenario> select#<k> why=...'"""
    try:
        import json
        raw = json.loads(text).get("raw", "")
    except Exception:
        return [l for l in text.split("\n") if l.strip() and not l.lstrip().startswith("#")]
    raw = raw.strip()
    if raw.startswith("m="):
        for stop in (" select#", " why=", " event#", " unparsable snapshot"):
            if stop in raw:
                raw = raw[:raw.index(stop)]
        return [raw]
    f = kv(raw)
    if "sched" in f:
        return ["%s %s %s %s" % (f.get("ninj", "2"), f.get("sched", "-"), f.get("snap", "0"), f.get("var", "0"))]
    return []


def main():
    c = Check("C16")
    ok = c.proofs("Nq.Props.C16", drivers=["drv_c16", "drv_c03"])
    s = c.build_repo()
    if s.ok:
        c.simcheck(s, 400 if c.tier == "quick" else 4000)
    stats, samples, disagree, oracle, errors = {}, [], [], [], []
    neighbourhood = None
    if s.ok and c.driver_ok:
        try:
            o1, e1 = s.prog_object("qs", "qmail-send.c", "qmail-send", keep_globals=["auto_split", "d"] + SNAP_GLOBALS, objs_exclude=["qmail.o"])
            o2, e2 = s.prog_object("qc", "qmail-clean.c", "qmail-clean")
            o3, e3 = s.prog_object("qa", "qmail-queue.c", "qmail-queue")
            o4, e4 = s.prog_object("qb", "qmail-queue.c", "qmail-queue")
            h = s.cc(os.path.join(VERIF, "harness/c16_trigger.c"), os.path.join(s.dir, "h_c16"),
                     extra="%s/harness/sim.c %s %s %s %s -lpthread -ldl" % (VERIF, o1, o2, o3, o4))
            drv = driver_path("drv_c16")
            nrand, ndfs = (250, 150) if c.tier == "quick" else (3000, 5000)
            hsel = s.cc(os.path.join(VERIF, "harness/c16_selprep.c"), os.path.join(s.dir, "h_c16sel"),
                        extra="%s/harness/sim.c %s %s %s %s -lpthread -ldl" % (VERIF, o1, o2, e1, e2))
            cmds = []
            replay_sel = None
            if c.replay:
                # schedule lines ("<ninj> <c0,c1,..> <snap>") go to the trigger harness, scenario lines ("m=...") to the daemon harness
                lines = replay_lines(open(c.replay).read())
                sched = [l for l in lines if not l.lstrip().startswith("m=")]
                scen = [l for l in lines if l.lstrip().startswith("m=")]
                if sched:
                    f1 = os.path.join(s.dir, "replay_sched.txt"); open(f1, "w").write("\n".join(sched) + "\n")
                    cmds.append("%s - < %s" % (h, f1))
                if scen:
                    replay_sel = os.path.join(s.dir, "replay_scen.txt"); open(replay_sel, "w").write("\n".join(scen) + "\n")
            else:
                # regression corpus (runs first): schedule lines go to the trigger harness, 'm=...' scenario lines to the daemon harness
                corpus = os.path.join(VERIF, "corpus", "C16.txt")
                corpus_sel = None
                if os.path.exists(corpus):
                    cl = [l for l in open(corpus).read().split("\n") if l.strip() and not l.lstrip().startswith("#")]
                    csched = [l for l in cl if not l.lstrip().startswith("m=")]
                    cscen = [l for l in cl if l.lstrip().startswith("m=")]
                    if csched:
                        f1 = os.path.join(s.dir, "corpus_sched.txt"); open(f1, "w").write("\n".join(csched) + "\n")
                        cmds.append("%s - < %s" % (h, f1))
                    if cscen:
                        corpus_sel = os.path.join(s.dir, "corpus_scen.txt"); open(corpus_sel, "w").write("\n".join(cscen) + "\n")
                cmds.append("%s 0 100000 %d 0 1" % (h, c.seed))                       # one injector: exhaustive
                # the long pipelines first (run_pipeline starts at most 2*NCPU at a time)
                if c.tier == "quick":
                    cmds += ["%s 2 %d %d %d %d" % (h, ndfs, c.seed, i, NCPU) for i in range(9)]   # two injectors: DFS, partitioned by the first two decisions
                else:                                                                             # thorough: by the first three (27 subtrees: even load on the cores)
                    cmds += ["%s 3 %d %d %d %d" % (h, ndfs, c.seed, i, 27) for i in range(27)]
                cmds += ["%s 1 %d %d %d %d" % (h, nrand, c.seed, i, NCPU) for i in range(NCPU)]   # two injectors: random schedules
                # START-UP leg: injector A starts together with the daemon (its steps interleave with todo_init's open, the first selects, the start-up
                # re-arm and the first scan, or finish before the daemon's first step): bounded-exhaustive for one injector, random for two
                cmds += ["%s 4 %d %d %d %d" % (h, 150 if c.tier == "quick" else 4000, c.seed, i, 27) for i in range(27)]
                cmds += ["%s 5 %d %d %d %d" % (h, 20 if c.tier == "quick" else 300, c.seed, i, NCPU) for i in range(NCPU)]
            outs = run_pipeline(cmds, drv) if cmds else []
            stats, samples, disagree, oracle, errors = parse_driver_output(outs)
            # select-preparation leg: the daemon scenarios of qsend.c with a snapshot of the daemon's globals at every select
            nsel = 240 if c.tier == "quick" else 8000
            selcmds = (["%s - < %s" % (hsel, replay_sel)] if replay_sel else
                       [] if c.replay else (["%s - < %s" % (hsel, corpus_sel)] if corpus_sel else []) +
                       ["%s %d %d %d %d" % (hsel, nsel, c.seed, i, NCPU) for i in range(NCPU)])
            if selcmds:
                outs3 = run_pipeline(selcmds, drv + " selprep")
                st3, sm3, di3, or3, er3 = parse_driver_output(outs3)
                for k, v in st3.items():
                    if isinstance(v, (int, float)):
                        stats[k] = stats.get(k, 0) + v
                samples += sm3[:3]; disagree += di3; oracle += or3; errors += er3
                c.cov["daemon_scenarios_with_snapshots"] = int(st3.get("cases", 0))
            c.cov["selects_compared_with_SelPrep"] = int(sum(v for k, v in stats.items() if k.startswith("snap_") and k != "snap_distinct"))
            # second leg (no busy loop): daemon histories of the C03 harness, judged by the spin oracle of drv_c03
            if not c.replay:
                hq = s.cc(os.path.join(VERIF, "harness/qsend.c"), os.path.join(s.dir, "h_qsend"),
                          extra="%s/harness/sim.c %s %s %s %s -lpthread -ldl" % (VERIF, o1, o2, e1, e2))
                nq = 400 if c.tier == "quick" else 8000
                outs2 = run_pipeline(["%s %d %d %d %d" % (hq, nq, c.seed, i, NCPU) for i in range(NCPU)], driver_path("drv_c03"))
                st2, _, _, or2, er2 = parse_driver_output(outs2)
                oracle += [o for o in or2 if "prop=C16" in o]
                errors += er2
                c.cov["daemon_histories_checked_for_busy_loop"] = int(st2.get("cases", 0))
                c.cov["selects_observed"] = int(st2.get("ev_tick", 0))

            def neighbourhood(dis):
                # every schedule that shares a prefix with a disagreeing one, continued both ways
                cases = set()
                for d in dis[:40]:
                    f = kv(d)
                    sc = f.get("sched", "-")
                    if "sched" not in f:
                        continue                  # a daemon-scenario line (selprep leg): its CASE text is the replay already
                    ninj = f.get("ninj", "2")
                    var = f.get("var", "0")
                    ch = [] if sc == "-" else sc.split(",")
                    for i in range(len(ch) + 1):
                        for alt in ("0", "1", "2"):
                            for snap in ("0", "1"):
                                cases.add("%s %s %s %s" % (ninj, ",".join(ch[:i] + [alt]) or "-", snap, var))
                tf = os.path.join(s.dir, "nb.txt")
                open(tf, "w").write("\n".join(sorted(cases)) + "\n")
                o2_ = run_pipeline(["%s - < %s" % (h, tf)], drv)
                st2, _, _, or2, _ = parse_driver_output(o2_)
                c.cov["search_cases"] = st2.get("cases", 0)
                return nqlib.shortest(or2, key="sched=") if or2 else None
        except Exception as ex:
            errors.append(str(ex))
    else:
        errors.append("build failed: " + "\n".join(c.notes)[-3000:])
    c.cov["evaluations"] = int(stats.get("cases", 0))
    c.cov["distinct_nontrivial"] = int(stats.get("distinct_nontrivial", 0))
    c.cov["traces_validated_against_impl"] = max(0, int(stats.get("cases", 0)) - int(stats.get("disagree", 0)))
    c.cov["rule"] = ("the real qmail-queue (1 or 2 instances), qmail-send and qmail-clean run as threads of one process under qsim; a schedule decides "
                     "whenever every runnable program is about to make a trigger-related system call (link todo / open, write, close of the FIFO / trigger_set's "
                     "close and open / opendir, readdir of todo / select). One injector: every schedule (depth-first, complete). Two injectors (the second starts "
                     "when the first has written its byte): seeded random schedules plus depth-first enumeration partitioned by the first two decisions "
                     "(%s). START-UP leg: injector A starts TOGETHER with the daemon, so that complete injections interleave with (or precede) todo_init's open of the FIFO, the first selects, "
                     "the start-up re-arm and the first scan: every interleaving of the first 9 (thorough: 12) decisions for one injector, seeded random schedules for two. "
                     "Each trace is replayed through Trigger.accept; the oracle fails if the daemon ever sleeps with a positive timeout, or the run ends, while a completed injection is unprocessed, "
                     "or if a completed injection is not processed within the 2*|todo|+3 own steps of the daemon of C16_bounded. "
                     "Select preparation: in these runs and in the daemon scenarios of harness/qsend.c (deliveries, deferrals, bounce failures, signals, faults, crashes, restarts, "
                     "concurrency bounds; harness/c16_selprep.c) the globals of the running qmail-send are read at every select (harness/c16_snap.h), at the moment select() is entered, "
                     "and printed with the timeout and descriptor sets the real code passed; SelPrep.timeout/rfds/wfds must agree (DISAGREE) and the predicates of C16_no_spin / "
                     "C16_early_return_acts are evaluated on the implementation's values (ORACLE: timeout 0 iff something pending, otherwise exactly min(due times, recent+SLEEP_FOREVER) "
                     "- recent + SLEEP_FUZZ; only descriptors the loop body acts on are watched, and none it must react to is missing). The snapshot also lists the due times of ALL "
                     "entries of pqchan[0..1], pqfail, pqdone: the predicates of C16_never_past_any_queued are evaluated on the implementation's timeout against the minimum over everything "
                     "queued (ORACLE, independent of which entry the heap has at its root), and its premise 'every root is a minimum' on the arrays (DISAGREE). "
                     "The snapshot also carries tv_usec (qsim's select writes the remaining time back into the timeval like Linux; SelPrep passes whole seconds: DISAGREE on any other "
                     "value, and the oracles count a fraction of a second as a sleep), the SIMULATOR's clock at select entry (DISAGREE when the program's `recent` differs; all timeout "
                     "oracles are evaluated at the simulator's clock, not at the program's own idea of it) and the number of entries in todo/ (daemon scenarios: arrivals are atomic, so "
                     "every entry is a completed injection - ORACLE when the daemon asks to sleep with one unprocessed and the trigger not readable: in the queue at start = injected while "
                     "the daemon was down, or injected while the previous daemon drained after TERM). c16_selprep.c adds to the "
                     "scenarios of qsend.c: deferred-queue scenarios (3-6 messages, mostly deferred, some delivered/failed, arriving before/during/after the start-up scan, virtual time passing "
                     "between selects: queues of three and more entries with distinct due times, entries leaving and coming back), SIGALRM/SIGHUP/SIGTERM that INTERRUPT a select (EINTR after "
                     "0..999 permille of the timeout, nothing else happening at that call) at selects drawn from the whole run, clean stops/crashes followed by a restart on the deferred queue, "
                     "every answer of qmail-clean taking `slow=` seconds (time passing inside the do-phase), restart sweeps (deliveries in flight, TERM at each of the next 8 selects, a second "
                     "injection 0..2 selects later while daemon #1 drains, then daemon #2 on that queue), and interrupt sweeps (base run, then one run per select point - every idle select with messages queued, every select next to a command/report/arrival, every 16th other - "
                     "with SIGALRM/SIGHUP interrupting exactly that select). non-trivial = distinct schedule / scenario" % ("capped at 150 schedules per partition in the quick tier" if c.tier == "quick" else "thorough tier: partitioned by the first three decisions, capped at 5000 schedules in each of the 27 partitions"))
    c.cov["exhaustive"] = False
    c.cov["samples"] = samples[:6] or ["(none)"]
    c.cov["input_distribution"] = {k: v for k, v in stats.items() if k.startswith("ev_") or k.startswith("snap_") or k.startswith("daemon_") or k.startswith("fds_")}
    c.cov["selects_whose_nfds_and_numeric_descriptor_sets_were_compared_with_SelFds"] = int(stats.get("fds_selects_compared", 0))
    c.cov["selects_with_a_queue_of_3_or_more_entries"] = int(stats.get("snap_some_queue_holds_3_or_more", 0))
    c.cov["selects_interrupted_by_a_signal"] = int(stats.get("daemon_selects_interrupted_by_a_signal", 0))
    c.assumptions += ["the snapshot is read inside select(), i.e. after everything the main loop does before it blocks: if anything between `recent = now()` and select() rewrites a global "
                      "the *_selprep functions read (e.g. the signal flags being handled after them) the timeout no longer matches SelPrep.timeout(snapshot) and the select is reported; "
                      "a rewrite that is undone again before select() would not be seen",
                      "a select interrupted by a signal is modelled as: handler runs, part of the timeout elapses, -1/EINTR, no descriptor event consumed at that call",
                      "times are modelled as unbounded integers (no overflow of datetime_sec = long)",
                      "FIFO semantics of DESIGN.md 1.4 as implemented by harness/sim.c (ENXIO on open without reader, EPIPE on write without reader, "
                      "readable until the last descriptor closes)", "readdir may or may not report entries linked after opendir (both are exercised)",
                      "fairness bound in the scheduler: a program chosen 12 times in a row yields (cuts the branch in which the daemon rescans forever while an injector holds the FIFO open)"]
    standard_verdict(c, ok, stats, disagree, oracle, errors, "Trigger.accept (Nq/Trigger.lean) vs the trigger-related system calls of qmail-queue.c/triggerpull.c and qmail-send.c/trigger.c; "
                     "SelPrep.timeout/rfds/wfds (Nq/SelPrep.lean) vs the select arguments of qmail-send.c main() on snapshots of its globals",
                     neighbourhood, replay_hint="./check C16 --replay <file with '<ninj> <c0,c1,...> <snapshot 0|1>' schedule lines and/or 'm=...' daemon scenario lines (the text after CASE)>")
    c.finish()


if __name__ == "__main__":
    main()
