#!/usr/bin/env python3
"""C16 — new mail wakes the daemon: no lost trigger (every interleaving), no sleep with work pending."""
import os, sys
sys.path.insert(0, os.path.join(os.path.dirname(os.path.abspath(__file__)), "..", "tools"))
import nqlib
from nqlib import Check, run_pipeline, parse_driver_output, standard_verdict, driver_path, NCPU, VERIF, kv


def main():
    c = Check("C16")
    ok = c.proofs("Nq.Props.C16", drivers=["drv_c16", "drv_c03"])
    s = c.build_repo()
    if s.ok:
        c.simcheck(s, 400 if c.tier == "quick" else 4000)
    stats, samples, disagree, oracle, errors = {}, [], [], [], []
    neighbourhood = None
    if s.ok and c.driver_ok:
        try:
            o1, e1 = s.prog_object("qs", "qmail-send.c", "qmail-send", keep_globals=["auto_split", "d"], objs_exclude=["qmail.o"])
            o2, e2 = s.prog_object("qc", "qmail-clean.c", "qmail-clean")
            o3, e3 = s.prog_object("qa", "qmail-queue.c", "qmail-queue")
            o4, e4 = s.prog_object("qb", "qmail-queue.c", "qmail-queue")
            h = s.cc(os.path.join(VERIF, "harness/c16_trigger.c"), os.path.join(s.dir, "h_c16"),
                     extra="%s/harness/sim.c %s %s %s %s -lpthread -ldl" % (VERIF, o1, o2, o3, o4))
            drv = driver_path("drv_c16")
            nrand, ndfs = (250, 150) if c.tier == "quick" else (4000, 20000)
            cmds = []
            if c.replay:
                cmds.append("%s - < %s" % (h, c.replay))
            else:
                corpus = os.path.join(VERIF, "corpus", "C16.txt")
                if os.path.exists(corpus):
                    cmds.append("%s - < %s" % (h, corpus))
                cmds.append("%s 0 100000 %d 0 1" % (h, c.seed))                       # one injector: exhaustive
                cmds += ["%s 1 %d %d %d %d" % (h, nrand, c.seed, i, NCPU) for i in range(NCPU)]   # two injectors: random schedules
                cmds += ["%s 2 %d %d %d %d" % (h, ndfs, c.seed, i, NCPU) for i in range(9)]       # two injectors: DFS, partitioned
            outs = run_pipeline(cmds, drv)
            stats, samples, disagree, oracle, errors = parse_driver_output(outs)
            # second leg (no busy loop): daemon histories of the C03 harness, judged by the spin oracle of drv_c03
            if not c.replay:
                hq = s.cc(os.path.join(VERIF, "harness/qsend.c"), os.path.join(s.dir, "h_qsend"),
                          extra="%s/harness/sim.c %s %s %s %s -lpthread -ldl" % (VERIF, o1, o2, e1, e2))
                nq = 400 if c.tier == "quick" else 8000
                outs2 = run_pipeline(["%s %d %d %d %d" % (hq, nq, c.seed, i, NCPU) for i in range(NCPU)], driver_path("drv_c03"))
                st2, _, _, or2, er2 = parse_driver_output(outs2)
                oracle += [o for o in or2 if "prop=C16" in o]
                errors += er2
                c.cov["daemon_histories_checked_for_busy_loop"] = int(st2.get("cases", 0))
                c.cov["selects_observed"] = int(st2.get("ev_tick", 0))

            def neighbourhood(dis):
                # every schedule that shares a prefix with a disagreeing one, continued both ways
                cases = set()
                for d in dis[:40]:
                    f = kv(d)
                    sc = f.get("sched", "-")
                    ninj = f.get("ninj", "2")
                    ch = [] if sc == "-" else sc.split(",")
                    for i in range(len(ch) + 1):
                        for alt in ("0", "1", "2"):
                            for snap in ("0", "1"):
                                cases.add("%s %s %s" % (ninj, ",".join(ch[:i] + [alt]) or "-", snap))
                tf = os.path.join(s.dir, "nb.txt")
                open(tf, "w").write("\n".join(sorted(cases)) + "\n")
                o2_ = run_pipeline(["%s - < %s" % (h, tf)], drv)
                st2, _, _, or2, _ = parse_driver_output(o2_)
                c.cov["search_cases"] = st2.get("cases", 0)
                return nqlib.shortest(or2, key="sched=") if or2 else None
        except Exception as ex:
            errors.append(str(ex))
    else:
        errors.append("build failed: " + "\n".join(c.notes)[-3000:])
    c.cov["evaluations"] = int(stats.get("cases", 0))
    c.cov["distinct_nontrivial"] = int(stats.get("distinct_nontrivial", 0))
    c.cov["traces_validated_against_impl"] = max(0, int(stats.get("cases", 0)) - int(stats.get("disagree", 0)))
    c.cov["rule"] = ("the real qmail-queue (1 or 2 instances), qmail-send and qmail-clean run as threads of one process under qsim; a schedule decides "
                     "whenever every runnable program is about to make a trigger-related system call (link todo / open, write, close of the FIFO / trigger_set's "
                     "close and open / opendir, readdir of todo / select). One injector: every schedule (depth-first, complete). Two injectors (the second starts "
                     "when the first has written its byte): seeded random schedules plus depth-first enumeration partitioned by the first two decisions "
                     "(%s). Each trace is replayed through Trigger.accept; the oracle fails if the daemon ever sleeps with a positive timeout, or the run ends, while a completed injection is unprocessed. "
                     "non-trivial = distinct schedule" % ("capped at 150 schedules per partition in the quick tier" if c.tier == "quick" else "capped at 20000 schedules per partition"))
    c.cov["exhaustive"] = False
    c.cov["samples"] = samples[:6] or ["(none)"]
    c.cov["input_distribution"] = {k: v for k, v in stats.items() if k.startswith("ev_")}
    c.assumptions += ["FIFO semantics of DESIGN.md 1.4 as implemented by harness/sim.c (ENXIO on open without reader, EPIPE on write without reader, "
                      "readable until the last descriptor closes)", "readdir may or may not report entries linked after opendir (both are exercised)",
                      "fairness bound in the scheduler: a program chosen 12 times in a row yields (cuts the branch in which the daemon rescans forever while an injector holds the FIFO open)"]
    standard_verdict(c, ok, stats, disagree, oracle, errors, "Trigger.accept (Nq/Trigger.lean) vs the trigger-related system calls of qmail-queue.c/triggerpull.c and qmail-send.c/trigger.c",
                     neighbourhood, replay_hint="./check C16 --replay <file with '<ninj> <c0,c1,...> <snapshot 0|1>' schedule lines>")
    c.finish()


if __name__ == "__main__":
    main()
