#!/usr/bin/env python3
"""C08 — SMTP transactions are well-sequenced and relaying is gated by policy."""
import os, sys
sys.path.insert(0, os.path.join(os.path.dirname(os.path.abspath(__file__)), "..", "tools"))
from nqlib import run_standard

RULE = ("(A) addrparse()+bmfcheck()+addrallowed() called directly: every string over {a @ . < > \" \\ : [ ] space} up to length %s; "
        "18 wrappers x 14 local parts x 50 domains (mixed case, wildcards, near-misses, IP literals incl. overflowing octets) x 4 address shapes under "
        "13 fixed configurations; addresses of 870..905 bytes with and without localiphost replacement; random arguments under random configurations; "
        "(L) 56 letter configurations (rcpthosts exact/wildcard/mid-label, morercpthosts.cdb exact/wildcard, badmailfrom address/@domain, localiphost "
        "all written with one character c of A..Z a..z @ [ ` {) x every probe character p of the same set x 20 address templates, 5 sessions per "
        "configuration with c, its other case and its neighbours, and every string over {letter in both cases @ . < >} up to length %s for the "
        "boundary letters a z A Z; (A5/S3) configurations ABASE+k whose entries are random labels over the whole alphabet in both cases (boundary "
        "letters favoured, the characters next to the letter ranges occasionally), probed with their own entries re-cased per letter (each letter "
        "independently / exactly one / all upper / all lower), near-missed (letter -> adjacent character or next letter, one more or one fewer "
        "label) as direct arguments and inside sessions. "
        "(S) whole sessions through the real main()/setup()/commands()/smtp_* code: every sequence of up to %s commands (up to %s for the secondary "
        "configurations) from a 16-entry palette (HELO EHLO 4xMAIL incl. badmailfrom hits and an over-long one, 5xRCPT local/wildcard/foreign/bare/"
        "source-routed IP literal, DATA+message, RSET, a rotating state-neutral command, QUIT) with CRLF / LF / alternating line ends and read sizes "
        "all/1/5, plus seeded random sessions of up to 30 commands (mixed-case verbs, generated arguments, NULs, bare LF in DATA, missing terminator) "
        "under fixed and generated configurations of rcpthosts / morercpthosts.cdb (built by the real qmail-newmrh) / badmailfrom / localiphost / "
        "RELAYCLIENT / queue verdict. Compared with the Lean model on the full reply stream, exit status and every envelope handed to the queue; "
        "the oracle rebuilds the trace from the implementation's replies and evaluates the sequencing (SubmitOK) and gating (GateOK <-> 250) "
        "predicates of Nq/Spec/SmtpPolicy.lean on it, and the documented badmailfrom/rcpthosts/RELAYCLIENT rules of Nq/Spec/SmtpPolicyDoc.lean "
        "(A: on the three verdicts; S: on every RCPT answer). Every session also reports the calls commands() made into smtpcommands[] "
        "(recorded by wrappers around the real handlers): the oracle cuts the input with the independent line/word splitter of "
        "Nq/Spec/CmdLine.lean (message bodies skipped with the C05 reference decoder) and requires the same (entry, argument) list; the "
        "model side is SmtpCmdIO.runIO on a 1024-byte substdio with the harness's read sizes. "
        "(F) commands() called directly on a scripted substdio (buffer sizes 1..1024 and larger, read scripts with short reads and a failing "
        "read) with recording handlers: every stream over {a B space CR LF NUL} up to length %s under a synthetic table (shadowed entry, "
        "empty text, text with a blank, the characters next to the letter ranges), fixed streams and seeded streams of up to 14 lines under "
        "both the synthetic table and the texts of the real smtpcommands[] (re-cased / bit-5-flipped / truncated / extended verbs, blanks "
        "before, between and after, arguments with NUL CR TAB and 8-bit bytes, LF / CRLF / CRCRLF / CR-blank-LF / NUL-LF line ends, lines of "
        "1000..67000 bytes, unterminated tails); DISAGREE = SmtpCmdIO.commandsIO on the same buffer size and script, ORACLE = "
        "CmdLineSpec.specCalls on the bytes delivered before the first failing read, return value 0 / -1. "
        "(session 4) The address mode A expects and the parsed address inside the mode-S trace predicates are those of the independent path "
        "grammar of Nq/Spec/SmtpAddr.lean (specPath: start after the first < or after the first colon and blanks, source route dropped, items = "
        "plain byte / quoted pair / quoted string up to the first top-level terminator, unterminated strings and a lone trailing backslash "
        "included) followed by lipSpec and the literal 900 limit (specAddrparse), not the model's addrparse; STATS count every production and "
        "ending of the grammar. (E) every session also reports the events on the two descriptors (reply bytes handed to ssout, write sizes, "
        "reads of the connection with the fill of ssout's buffer, handler returns, flush callbacks; logged inside the timeoutread/timeoutwrite "
        "stand-ins and wrappers around the real handlers and flush callbacks): ORACLE = SmtpFlush.disciplinedB on that log (nothing generated "
        "is unwritten at a read of the connection or after a flush callback) for every session; DISAGREE = reads / flush callbacks with the "
        "bytes written so far / handler returns against SmtpFlush.cmdsEv (flags from the generated table, 512-byte ssout, 1024-byte ssin, the "
        "harness's read sizes) for the sessions that do not reach 354. "
        "non-trivial = distinct case with an address containing @ or <, a session with a RCPT that reaches the policy decision, or a stream "
        "with at least one dispatched call")

run_standard("C08", "Nq.Props.C08", "drv_c08", "harness/c08_session.c", "qmail-smtpd",
             ["qmail.o", "timeoutread.o", "timeoutwrite.o", "rcpthosts.o", "ipme.o", "auto_qmail.o"],
             "5 4 3 6000", "6 5 4 120000", {"quick": RULE % (5, 5, 4, 3, 6), "thorough": RULE % (6, 6, 5, 4, 7)},
             "Nq/SmtpSession.lean (run/sstep/addrparse/bmfcheck/rcpthostsMatch) + Nq/SmtpCmdIO.lean (commandsIO/runIO over substdio) + Nq/SmtpFlush.lean (cmdsEv) vs qmail-smtpd.c + "
             "commands.c (+ substdi.c) + rcpthosts.c + control.c + constmap.c + cdb_seek.c + ip.c + qmail-newmrh.c",
             alphabet=b"a@.<>\"\\:[] \r\nMAILRCPTDO0\x00\tB",
             stdin_prefixes=("S 2 0", "S 4 1", "S 1 0", "S 10 0", "A 2", "A 6", "A 10", "F 0 1024 -", "F 1 2 0101", "F 1 1 -"),
             extra_cc=os.path.join(os.path.dirname(os.path.abspath(__file__)), "..", "harness", "c08_newmrh.c") +
                      " cdbmss.o cdbmake.a strerr.a open.a getln.a case.a stralloc.a substdio.a error.a str.a",
             assumptions=[
                 "timeoutread/timeoutwrite are replaced by a scripted stream and a reply capture (several read sizes are run); timeouts are not modelled",
                 "qmail.o is replaced by a stand-in that records the envelope and answers with a scripted verdict (qmail.c itself is C07); "
                 "the message body is not compared here (C05)",
                 "ipme_init()'s interface scan is bypassed: the list `ipme` is filled with 0.0.0.0, 127.0.0.1, 10.0.0.1 and the real ipme_is() runs on it",
                 "control files contain no NUL byte in localiphost/me; control/me exists; no control/databytes, smtpgreeting or timeoutsmtpd; "
                 "fewer than 100 Received lines per message",
                 "constmap and cdb are modelled as finite sets with (case-insensitive / exact) membership; their hashing is exercised by the "
                 "correspondence runs only",
             ])
