#!/usr/bin/env python3
"""C07 — the network daemons acknowledge a message if and only if exactly it was queued.

Three whole-program harnesses (qmail-smtpd / qmail-qmtpd / qmail-qmqpd, each with the real qmail.c, real
pipe/fork/execv of a stand-in queue program) feed one driver (drv_c07) that compares with the Lean models and
evaluates the property oracle (Nq/Spec/C07.lean) on what the implementation did."""
import os, re, sys, json, random
sys.path.insert(0, os.path.join(os.path.dirname(os.path.abspath(__file__)), "..", "tools"))
import nqlib
from nqlib import Check, VERIF, NCPU, sh, run_pipeline, parse_driver_output, standard_verdict, driver_path, kv, shortest

PROP = "C07"
HARNESSES = [("smtpd", "qmail-smtpd", ["qmail.o", "auto_qmail.o", "timeoutread.o", "timeoutwrite.o"]),
             ("qmtpd", "qmail-qmtpd", ["qmail.o", "auto_qmail.o"]),
             ("qmqpd", "qmail-qmqpd", ["qmail.o", "auto_qmail.o"])]
NRANDOM = {"quick": {"smtpd": 9000, "qmtpd": 9000, "qmqpd": 6000}, "thorough": {"smtpd": 150000, "qmtpd": 150000, "qmqpd": 80000}}
# harness/c07_date.c: the real datetime_tai() / date822fmt() on their own (no daemon); lines "DT ..." / "UB ..." of the same driver
NDATE = {"quick": 40000, "thorough": 4000000}

RULE = ("whole sessions through the real daemons (ASan+UBSan build of the working tree; real qmail.c; real pipe/fork/execv of a stand-in queue "
        "program that records descriptors 0 and 1 and ends as scripted). Enumerated, seed-independent: every exit status 0..255 of the queue program "
        "for each daemon (and custom texts on 81..83, death by SIGKILL/SIGTERM/SIGSEGV), message sizes databytes-3..databytes+3 in every body shape "
        "(LF / CRLF framing, stuffed dots), hop counts 97..102 (Received/Delivered-To mixes), address lengths 995..1004 (QMTP/QMQP) and 896..902 (SMTP) "
        "with and without RELAYCLIENT, a NUL at every third position of sender/recipient, recipient sets that are refused entirely, several messages per "
        "QMTP connection with different queue outcomes, EVERY cut point (client disconnect after k bytes) of short sessions, EVERY single-byte "
        "substitution from an 11-byte alphabet in short QMTP/QMQP requests, lengths written with non-digit characters in each of the four QMTP length "
        "positions, the k-th write to the queue program failing (k=0..6) for small / >1 KiB body / >1 KiB envelope; plus %s seeded random structured "
        "sessions per run with truncation / substitution / insertion / deletion mutations, HELO/TCPREMOTE* strings with unsafe bytes, 23 clock values. "
        "Peer-supplied strings: every byte value 0..255 alone and inside longer strings (and all of 1..255 in one string) in each of TCPREMOTEHOST, "
        "TCPREMOTEIP, TCPREMOTEINFO, TCPLOCALHOST, TCPLOCALIP and the HELO / EHLO argument (LF excepted there), for each daemon; the Received field of every "
        "acknowledged message is compared with the specification built from the documented safe set (Spec.C07.safeSpec, not the table read from the code) "
        "and judged for RFC 822 well-formedness (Spec.C07.wf822: printable ASCII, balanced comments, no backslash or quote, one fold). "
        "Address lengths 0,1,2,50..850 step 50, 250..260, 890..910, 990..1010, 1018..1030 as sender / only / middle / last recipient (QMTP and SMTP also with "
        "RELAYCLIENT) for each daemon. "
        "Real-queue leg (about 3000 sessions, protocol letter in lower case): the same daemons with QMAILQUEUE = the unmodified qmail-queue.c (harness/c07_rqq.c) "
        "on a private queue directory: clean sessions (bodies and envelopes beyond the 1024-byte buffer of qmail.c and the 8192-byte direct-write threshold), every "
        "cut point of short sessions, envelopes longer than 1024 bytes with the sender length swept over a full period of the recipient record size (4, 8, 16, "
        "100 bytes) so that the part flushed to qmail-queue ends at every position of a record, followed by a disconnect (4 cut points), a recipient with NUL, a "
        "1000+ byte recipient, broken framing; SMTP cuts through commands and DATA, 100 hops, oversize, write faults; 1 in 25 random sessions. Judged twice: on the "
        "pipes, and with the queue directory (todo/<inode> carrying the run's pid, mess file behind qmail-queue's own trace line) as the witness of 'queued'; "
        "plus: nothing is committed unless the envelope stream was complete. "
        "A harness stopped by ASan/UBSan inside the daemon's code leaves the session it was running behind; it is re-run on the same harness built without "
        "instrumentation and reported as an oracle failure (with what the uninstrumented code answered and queued). "
        "Whole SMTP connections (protocol letter T, %s seeded + about 700 enumerated per run; the client's bytes as they are): three transactions on one connection with "
        "every combination of queue outcomes {ok, temporary, permanent, crash} for the three runs, RSET between MAIL and DATA, repeated MAIL, RCPT after a completed DATA, "
        "refused / unparsable RCPT, DATA without MAIL or RCPT, HELO/EHLO in the middle of a transaction, source routes, quoted local parts, bare-LF command lines, mixed-case "
        "verbs, NUL inside command lines, acknowledgement-shaped garbage lines, pipelined commands behind the terminator and behind QUIT, hop and size limit in the second of "
        "three transactions, address lengths 896..902 in a later transaction, EVERY cut point of a two-transaction session, write faults, RELAYCLIENT set / empty / unset, "
        "random command sequences with byte damage and truncation; 1 in 25 against the real qmail-queue. Letters S and T are compared with the COMPOSED model "
        "Nq.SmtpC07.run (C08's command loop + smtp_data + qmail.c) and T is judged by the session oracle (statement of C07_smtp_session on the implementation's replies and queue records). "
        "Compared with the Lean model: every reply byte, the daemon's exit status, every byte each queue run received on descriptors 0 and 1. "
        "Oracle (independent strict netstring grammar, reference SMTP decoder, independent calendar and hop count, qmail-queue.8 exit classes): "
        "ack => exactly that message with a complete envelope of exactly the acknowledged addresses and exit 0; no ack => no complete envelope or "
        "no success; refusals have the documented class. Non-trivial = distinct case in which a queue program was actually started. "
        "Separately (harness/c07_date.c, counted in evaluations, not in non-trivial): the real datetime_tai() and date822fmt() on the first and last second "
        "of every day 1968..2106, on Feb 28 / Mar 1 / Dec 31 (-1 s, 0, +1 s, noon, last second, next day) of every year -430..3030, the 1st of every month "
        "of the century years, the years around every 25th 400-year boundary and every 97th century out to both ends of the supported range "
        "[(INT_MIN+11017)*86400, (INT_MAX-4)*86400+86399] (the two ends themselves; one step outside must trip UBSan in a forked child), the 32-bit time_t ends, "
        "plus %s seeded random instants; all eight fields of struct datetime and the formatted string are compared with Nq.Datetime.tai / Received.date822 "
        "(DISAGREE) and the predicate of theorem C07_datetime_civil (valid Gregorian date whose independently computed day number is floor(t/86400), base-60 "
        "time of day, weekday) is evaluated on the implementation's struct (ORACLE).")

def is_known(line):
    """an oracle line that reproduces an open entry of known_findings.json (matched on the tag the driver computes from the case)"""
    return any(kf.get("match") and kf["match"] in line for kf in nqlib.known_findings(PROP))


def mutate_cases(dis, seed, per=150):
    """neighbourhood of disagreeing cases: byte mutations of the client bytes, other queue outcomes"""
    rnd = random.Random(seed)
    alphabet = b"\r\n.,:0129/a\x00"
    out = set()
    for d in dis[:40]:
        cs = kv(d).get("case")
        if not cs:
            continue
        f = cs.split("|")
        if f[0] == "DT" and len(f) >= 2:          # an instant of the date harness: its neighbourhood in seconds / days / years
            try:
                t = int(f[1])
            except ValueError:
                continue
            for dlt in (0, 1, -1, 3600, 86399, 86400, -86400, 31 * 86400, 365 * 86400, -365 * 86400, 1461 * 86400, 36524 * 86400):
                out.add("DT %d" % (t + dlt))
            for _ in range(20):
                out.add("DT %d" % (t + rnd.randint(-400 * 86400, 400 * 86400)))
            continue
        if len(f) < 13:
            continue
        idx = 15 if f[0].upper() == "S" else 12   # stream / request bytes
        if idx >= len(f):
            continue
        try:
            b = bytearray.fromhex("" if f[idx] == "-" else f[idx])
        except ValueError:
            continue
        out.add(" ".join(f))
        for _ in range(per):
            m = bytearray(b)
            for _ in range(rnd.randint(0, 2)):
                op, pos, ch = rnd.randint(0, 2), rnd.randint(0, len(m)), rnd.choice(alphabet)
                if op == 0:
                    m.insert(pos, ch)
                elif m and op == 1:
                    del m[min(pos, len(m) - 1)]
                elif m:
                    m[min(pos, len(m) - 1)] = ch
            g = list(f)
            g[idx] = bytes(m).hex() or "-"
            g[9] = rnd.choice([f[9], "0,0,-", "53,0,-", "31,0,-", "82,0,44637573746f6d"])
            g[10] = rnd.choice([f[10], "-1", "-1", "0", "1", "2"])
            if rnd.randint(0, 3) == 0:            # a peer-supplied string from the whole byte range
                g[rnd.randint(3, 7)] = bytes(rnd.randint(1, 255) for _ in range(rnd.randint(1, 8))).hex()
            if rnd.randint(0, 7) == 0:            # the same session against the real qmail-queue / the stand-in
                g[0] = g[0].swapcase()
            if f[0].upper() == "S":
                g[16] = rnd.choice([f[16], "-1", str(rnd.randint(0, 300))])
                g = g[:17]
            out.add(" ".join(g))
    return sorted(out)


def main():
    import time
    c = Check(PROP)
    phase = c.cov.setdefault("phase_s", {})
    t0 = time.time()
    ok = c.proofs("Nq.Props.C07", drivers=["drv_c07"])
    phase["proofs"] = round(time.time() - t0, 1); t0 = time.time()
    s = c.build_repo(targets="qmail-smtpd qmail-qmtpd qmail-qmqpd qmail-queue")
    phase["build"] = round(time.time() - t0, 1); t0 = time.time()
    stats, samples, disagree, oracle, errors = {}, [], [], [], []
    neighbourhood = None
    nrand = NRANDOM[c.tier]
    if s.ok and c.driver_ok:
        try:
            qq = os.path.join(s.dir, "c07_qq")
            rc, o = sh("cc -O1 -o %s %s" % (qq, os.path.join(VERIF, "harness", "c07_qq.c")), cwd=s.dir)
            if rc != 0:
                raise RuntimeError("stand-in queue program does not compile:\n" + o)
            hs = {}
            for name, like, excl in HARNESSES:
                hs[name] = s.cc(os.path.join(VERIF, "harness", "c07_%s.c" % name), os.path.join(s.dir, "h_c07_" + name),
                                link_like=like, objs_exclude=excl)
            hdate = s.cc(os.path.join(VERIF, "harness", "c07_date.c"), os.path.join(s.dir, "h_c07_date"), extra="fs.a")
            # real-queue leg: the unmodified qmail-queue.c behind QMAILQUEUE, on a private queue directory
            rqq = s.cc(os.path.join(VERIF, "harness", "c07_rqq.c"), os.path.join(s.dir, "c07_rqq"),
                       link_like="qmail-queue", objs_exclude=["auto_qmail.o"])
            split = int(open(os.path.join(s.dir, "conf-split")).readline().strip() or "23")
            env = {"C07_QQBIN": qq, "C07_RQQBIN": rqq, "C07_SPLIT": str(split), "C07_TMP": s.dir}
            drv = driver_path("drv_c07")
            curdir = os.path.join(s.dir, "cur")
            os.makedirs(curdir, exist_ok=True)
            ncur = [0]

            def hcmd(name, args, exe=None):
                """one harness invocation; the case it is working on is kept in a file of its own (see crashed_cases)"""
                ncur[0] += 1
                return "C07_CUR=%s/%s-%d %s %s" % (curdir, name, ncur[0], exe or hs[name], args)

            def all_on(path, only=None, exes=None):
                return "(" + " && ".join([hcmd(n, "- < %s" % path, (exes or {}).get(n)) for n, _, _ in HARNESSES if not only or n in only] +
                                         ([] if only else ["%s - < %s" % (hdate, path)])) + ")"

            def crashed_cases():
                """cases left behind by harness processes that were killed inside the code under test (ASan / UBSan abort, signal):
                {harness name: [case line, ...]}"""
                res = {}
                for fn in sorted(os.listdir(curdir)):
                    try:
                        line = open(os.path.join(curdir, fn)).read().strip()
                    except OSError:
                        continue
                    os.unlink(os.path.join(curdir, fn))
                    if line:
                        res.setdefault(fn.rsplit("-", 1)[0], []).append(line)
                return res

            def plain_harness(name):
                """the same harness with the daemon's translation unit compiled WITHOUT sanitizer instrumentation (the production
                code generation), linked with the sanitised libraries: what the shipped binary does on an input that stops the
                instrumented build"""
                like, excl = [(l, e) for n, l, e in HARNESSES if n == name][0]
                largs = s.load_args(like)
                for o in excl:
                    largs = re.sub(r"(^|\s)%s(\s|$)" % re.escape(o), " ", largs)
                obj, exe = os.path.join(s.dir, "hp_c07_%s.o" % name), os.path.join(s.dir, "hp_c07_" + name)
                sh("cc -g -O1 -w -I. -I%s/harness -c %s -o %s" % (VERIF, os.path.join(VERIF, "harness", "c07_%s.c" % name), obj), cwd=s.dir, check=True)
                sh("cc %s -o %s %s %s" % (nqlib.SAN_LD, exe, obj, largs), cwd=s.dir, check=True)
                return exe

            def sanitizer_stops(errs):
                """ORACLE lines for the cases that stopped an instrumented harness, with what the uninstrumented code does on them"""
                lines = []
                cc = crashed_cases()
                for name, cases in cc.items():
                    msg = ""
                    for e in errs:
                        m = re.search(r"(runtime error: [^\n]*|ERROR: AddressSanitizer: [^\n]*|SUMMARY: [^\n]*|TIMEOUT: the pipeline did not finish within the deadline)", e)
                        if m:
                            msg = m.group(1)
                            break
                    more = []
                    try:
                        exe = plain_harness(name)
                        tf = os.path.join(s.dir, "crash-%s.txt" % name)
                        open(tf, "w").write("\n".join(cases) + "\n")
                        o2 = run_pipeline([all_on(tf, only=[name], exes={name: exe})], drv, env=env)
                        _, _, _, more, _ = parse_driver_output(o2)
                        crashed_cases()      # (a second stop leaves a file behind: already reported)
                    except Exception as ex:
                        more = []
                        c.notes.append("uninstrumented re-run failed: %r" % (ex,))
                    more = [x for x in more if not is_known(x)]
                    if more:
                        lines += ["%s sanitizer=%s" % (x, (msg or "abort").replace(" ", "_")) for x in more]
                    else:
                        for cs in cases:
                            lines.append("kind=sanitizer-abort what=the_harness_was_stopped_inside_the_daemon's_code_on_this_session_(%s);_the_uninstrumented_build_shows_no_oracle_failure case=%s"
                                         % ((msg or "abort").replace(" ", "_"), cs.replace(" ", "|")))
                return lines
            cmds = []
            corpus = os.path.join(VERIF, "corpus", PROP + ".txt")
            if c.replay:
                rp = c.replay
                if rp.endswith(".json"):      # a replay file written by this check: take the failing case out of it
                    obj = json.load(open(rp))
                    rp = os.path.join(s.dir, "replay.txt")
                    open(rp, "w").write((obj.get("failing_case", {}).get("case", "") or "").replace("|", " ") + "\n")
                cmds.append(all_on(rp))
            else:
                if os.path.exists(corpus):
                    cmds.append(all_on(corpus))
                for i in range(NCPU):
                    # ';' between the harnesses: one of them being stopped by a sanitizer must not keep the others from running
                    cmds.append("(rc=0; " + " ".join(["%s || rc=$?;" % hcmd(n, "%d %d %d %d" % (nrand[n], c.seed, i, NCPU)) for n, _, _ in HARNESSES] +
                                                    ["%s %d %d %d %d || rc=$?;" % (hdate, NDATE[c.tier], c.seed, i, NCPU)]) + " exit $rc)")
            phase["harness_build"] = round(time.time() - t0, 1); t0 = time.time()
            outs = run_pipeline(cmds, drv, env=env)
            stats, samples, disagree, oracle, errors = parse_driver_output(outs)
            phase["run"] = round(time.time() - t0, 1); t0 = time.time()
            if errors:
                # a harness that was stopped inside the daemon's code: the session it was running is a concrete failing input
                oracle += sanitizer_stops(errors)
                phase["sanitizer_stops"] = round(time.time() - t0, 1)

            def neighbourhood(dis):
                cases = mutate_cases(dis, c.seed)
                if not cases:
                    return None
                tf = os.path.join(s.dir, "nb.txt")
                open(tf, "w").write("\n".join(cases) + "\n")
                o2 = run_pipeline([all_on(tf)], drv, env=env)
                st2, _, _, or2, er2 = parse_driver_output(o2)
                if er2:
                    or2 += sanitizer_stops(er2)
                c.cov["search_cases"] = st2.get("cases", 0)
                or2 = [x for x in or2 if not is_known(x)]
                return shortest(or2, key="case=") if or2 else None
        except Exception as ex:
            errors.append(str(ex))
    else:
        errors.append("build failed: " + "\n".join(c.notes)[-3000:])

    # open known findings: routed through Check.violation (prints KNOWN-FINDING once per entry, suppresses exactly these cases);
    # every other oracle failure goes to the standard verdict
    rest = []
    for line in oracle:
        if is_known(line):
            c.violation("property oracle fails on the implementation's output (listed known finding)",
                        {"failing_case": kv(line), "raw": line[:4000]}, found_input=True)
        else:
            rest.append(line)
    c.cov["known_finding_cases"] = len(oracle) - len(rest)
    oracle = sorted(rest, key=lambda l: len(kv(l).get("case", "")))      # report the shortest failing session

    c.cov["evaluations"] = int(stats.get("cases", 0))
    c.cov["distinct_nontrivial"] = int(stats.get("distinct_nontrivial", 0))
    c.cov["traces_validated_against_impl"] = max(0, int(stats.get("cases", 0)) - int(stats.get("disagree", 0)))
    c.cov["rule"] = RULE % ("+".join(str(nrand[n]) for n, _, _ in HARNESSES), nrand["smtpd"] // (6 if c.tier == "thorough" else 3), NDATE[c.tier])
    c.cov["exhaustive"] = False
    c.cov["samples"] = [x[:1200] for x in samples[:6]] or ["(no sample emitted)"]
    c.cov["input_distribution"] = {k: v for k, v in stats.items() if k not in ("cases", "distinct_nontrivial", "disagree", "oracle_fail")}
    c.assumptions += [
        "stand-in legs: the queue program honours the qmail-queue interface: it exits 0 only after reading a complete envelope, and a custom text on exit 82 starts with D or Z (texts starting otherwise are run and compared with the model but are outside the oracle); the real-queue leg checks the first half of this on the real qmail-queue.c (commit => complete envelope and exit 0) for the streams the daemons produce - all-or-nothing under crashes and system-call faults is C01",
        "real-queue leg: qmail-queue's end is drained (it goes away only after the daemon closed both pipes: one of the schedules the kernel allows, and the deterministic one); its uid is the uid of the test run, its clock the real clock (only its own first trace line depends on them, which the oracle skips after checking its fixed prefix)",
        "client bytes arrive in order whatever the read sizes (chunkings 0/1/3/100 are run); pipes do not short-write; a failing write to the queue program writes nothing",
        "netstring lengths: ASCII digits only; leading zeros and an empty digit string are tolerated by the oracle as the daemons tolerate them",
        "SMTP: letter S sessions follow the grammar HELO? MAIL RCPT* DATA with plain addresses, letter T sessions are arbitrary command streams (several transactions, RSET, source routes, quoted local parts); control/rcpthosts = {ok.example, .sub.example, LocalHost}, no badmailfrom / morercpthosts / localiphost file, no address with a domain literal is generated (ipme is the test machine's), qmail_open never fails (pipe/fork errors are not injected); address parsing and the policy predicates themselves are C08's models and theorems, composed here",
        "an acknowledgement buffered in ssout is lost when qmail-qmtpd exits on a later protocol violation within the same read buffer (modelled exactly; the oracle requires 'queued => acknowledged' only for replies that were sent)",
    ]
    standard_verdict(c, ok, stats, disagree, oracle, errors,
                     "Nq/Netstring.lean + Nq/SmtpC07.lean (with Nq/SmtpSession.lean) + Nq/QmailC.lean + Nq/Received.lean vs qmail-smtpd.c / qmail-qmtpd.c / qmail-qmqpd.c / qmail.c / received.c / date822fmt.c / datetime.c",
                     neighbourhood, replay_hint="./check C07 --replay <file of case lines: the text after case= with | replaced by spaces>")
    c.finish()


if __name__ == "__main__":
    main()
