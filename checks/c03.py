#!/usr/bin/env python3
"""C03 / C04 — recipient accounting and delivery bookkeeping of qmail-send (+ qmail-clean) under qsim.

usage: checks/c03.py [--tier ..] [--seed ..]     (property id taken from argv[0]: c03.py / c04.py)"""
import os, sys
sys.path.insert(0, os.path.join(os.path.dirname(os.path.abspath(__file__)), "..", "tools"))
from nqlib import run_standard, VERIF, kv, sh

PROP = os.path.basename(sys.argv[0])[:3].upper()

RULE = ("the real qmail-send, qmail-clean AND (started by the real qmail.c of qmail-send through pipe/fork/exec for every bounce injection) qmail-queue mains (ASan+UBSan build of the working tree) run under qsim with scripted spawners; a queued bounce is an ordinary message of the history from then on: corpus/%(p)s.txt first, then %(n)s seeded histories of "
        "1-3 messages x 1-3 local/remote recipients x outcome scripts over {K,Z,D,mangled,out-of-range,unused-slot,blank-line text,oversized} x report orders "
        "(FIFO/LIFO/random) x concurrency 0..3 x spawner limit 0..3 x queuelifetime {0,1,150,2000,default} x TERM/ALRM/HUP at select points x failing bounce "
        "injections; one quarter with 1-2 world crashes (process crash, or machine crash with un-fsynced data lost/empty/garbage/half) followed by restart, one quarter "
        "with a single failing system call; plus %(n)s/16 'bound' histories (spawner limit byte 0..255 and configured concurrency 0..555 on both channels, up to 280 generated "
        "recipients so that min(configured, announced) is exceeded by the ready recipients, reports withheld while the daemon still issues commands), %(n)s/16 'multi-pass' "
        "histories (3-9 recipients of a message on one channel, mixed K/Z/D/mangled outcomes over several passes, ALRM/HUP, reports withheld), %(n)s/40 fault sweeps "
        "(2-3 messages arriving one after the other so that job slots, delivery slots and message numbers are reused: the fault-free base run, then one run per system call of "
        "qmail-send on a file below info/ local/ remote/ bounce/ todo/ - open, read, write, fsync, fstat, stat, unlink, utimes - with exactly that call failing, and one run per unlink of "
        "qmail-clean (intd/ todo/ mess/) failing with EIO so that qmail-clean answers '!' and up to 12 runs with one system call of the first qmail-queue child failing; thorough: every fourth base sweeps every system call) and %(n)s/50 clean-stop sweeps (1-2 messages with more recipients than delivery slots, queuelifetime {0,1,150,default}: "
        "base run, then one run per select point at/after which a command, report or arrival happened (and every 16th idle one) with TERM delivered there, the daemon exiting 0 "
        "once the in-flight attempts have reported, and a restart on the same queue) and %(n)s/80 slow-delivery fault sweeps (1-2 messages x 2-5 recipients, every delivery in flight for 2-31 "
        "selects of the daemon and 0/130/200/1000 s of virtual time - longer than SLEEP_SYSFAIL - mostly more delivery slots than recipients so that a pass ends while its attempts are outstanding, ALRM/HUP "
        "meanwhile, the clock jumping to whatever retry time comes due next: base run, then one run per system call of qmail-send on a file below info/ local/ remote/ bounce/ todo/ with exactly that call "
        "failing - even members: the calls of the first daemon (preprocessing, pass opening incl. getinfo's open/fstat/read, marking); odd members: clean stop before or after the first commands, then the "
        "calls of the RESTARTED daemon (pqstart/pqadd's stat()s of info/ todo/ local/ remote/, the pqfail retry 123 s later, pass opening)). Every trace is abstracted to Daemon.Ev events and replayed through the monitor "
        "Daemon.accept2 (= Daemon.accept plus the list of completion marks that are due, kept across clean restarts; first rejected event = disagreement); the oracles judge the concrete run, keyed by record (message, channel, byte offset, generation): every accepted recipient is delivered (K read for that record), still T at its "
        "offset, in todo/, named in bounce/<m> with info/<m>, named in a bounce of ITS message queued with the envelope of the accepted sender (a wrong envelope is a violation), or exempt because "
        "its own paragraph was discarded with the bounce file of a #@[] message or was in bounce/<m> before a machine crash and not after; no bounce paragraph without a D report or a Z past the "
        "queue lifetime; no completion mark without a K or the paragraph (C03); no delivery starts for a record whose D byte is on disk (re-read from the dump after every crash), nor - across "
        "clean stops and restarts, absent a crash or a failing call of ITS markdone - for a record whose K/D report the daemon has read, nor while todo/<m> exists, nor while another attempt for "
        "the same record is in flight; no slot reuse; in-flight count within min(concurrency, spawner limit); no exit 0 with deliveries in flight (C04). "
        "non-trivial = distinct scenario")


def builder(s):
    # REAL qmail.c mode of harness/qsend.c: qmail.c of the scratch tree is recompiled with fork() redirected (harness/qsend_fork.h: the
    # child branch of qmail_open runs as a further simulated process), qmail-send is linked with that qmail.o (no stand-in), and
    # the real qmail-queue main is the program the child exec's (instance "qq")
    sh("./compile -include %s/harness/qsend_fork.h qmail.c" % VERIF, cwd=s.dir, check=True)
    o1, e1 = s.prog_object("qs", "qmail-send.c", "qmail-send", keep_globals=["auto_split", "d"])
    o2, e2 = s.prog_object("qc", "qmail-clean.c", "qmail-clean")
    o3, e3 = s.prog_object("qq", "qmail-queue.c", "qmail-queue")
    return s.cc(os.path.join(VERIF, "harness/qsend.c"), os.path.join(s.dir, "h_qsend"), defines="-DQSEND_REAL_QMAIL",
                extra="%s/harness/sim.c %s %s %s %s %s %s -lpthread -ldl" % (VERIF, o1, o2, o3, e1, e2, e3))


def mutate(dis, seed):
    """neighbourhood: the disagreeing scenarios themselves with every outcome letter and report order"""
    cases = set()
    for d in dis[:30]:
        i = d.find("m=")
        j = d.find(" event#") if " event#" in d else d.find(" why=")
        if i < 0:
            continue
        sc = d[i:j if j > 0 else None].strip()
        cases.add(sc)
        for o in ("K", "Z", "D", "DK", "ZK", "KD", "DZK", "B", "ZZK", "KZZZKK", "KZZZDK", "ZZZK", "ZZZD"):
            for r in ("0", "1", "2"):
                toks = [t for t in sc.split() if not t.startswith(("out=", "ord="))]
                cases.add(" ".join(toks + ["out=" + o, "ord=" + r]))
    return sorted(cases)


run_standard(PROP, "Nq.Props." + PROP, "drv_c03", "harness/qsend.c", None, [],
             "1600", "24000", {"quick": RULE % {"p": PROP, "n": 1600}, "thorough": RULE % {"p": PROP, "n": 24000}},
             "Daemon.accept2 (Nq/Daemon.lean + Nq/DaemonOwed.lean) vs the system-call traces of qmail-send.c/qmail-clean.c",
             builder=builder, mutate=mutate, oracle_filter="prop=" + PROP,
             assumptions=["OS semantics of DESIGN.md 1.4 as implemented by harness/sim.c", "spawners are scripted by the harness (arbitrary bytes allowed on the report pipes)",
                          "pipe()/fork()/execv()/waitpid() of qmail_open/qmail_close are provided by the harness (they do not fail; close-on-exec is not modelled)", "rewrite() is the identity on the harness's recipients (C10 models it)"])
