#!/usr/bin/env python3
"""C14 — bounces go back once, to the sender, and can neither loop nor be forged."""
import os, sys
sys.path.insert(0, os.path.join(os.path.dirname(os.path.abspath(__file__)), "..", "tools"))
from nqlib import run_standard

RULE = ("the real qmail-send.c stripvdomprepend()/addbounce()/del_dochan()/getcontrols()/injectbounce() (ASan+UBSan build of the working "
        "tree, in-memory file system and captured qmail-queue interface) against the Lean model Nq.Bounce: (P) every failure report over "
        "{LF,x,<,>,:,0x80} up to length %s and every recipient over {LF,a,b,@,-,.} up to length %s against a virtualdomains file with exact, "
        "wildcard, catch-all, exception, virtual-user (user@domain, also with a dash in the prepend) and mixed-case entries, once without and "
        "once with a locals file that overlaps it, plus a recipient x report x write-behaviour (short writes, ENOSPC, open failure) matrix "
        "under four locals/virtualdomains pairs, compared on the bytes appended to bounce/<id>; (I) every sender form (ordinary, empty, #@[], VERP "
        "-@[] variants, quoted, 8-bit, LF-bearing) x which of me/bouncefrom/bouncehost/doublebounceto/doublebouncehost/virtualdomains/locals exist, "
        "and every failure point of injectbounce (info, stat, qmail_open, bounce/mess open and read, qmail_close, unlink) followed by a "
        "retry, compared on return value, envelope, full notice text, log and whether bounce/<id> remains; (C) the chain message -> bounce "
        "-> double bounce -> discard with every generated message failing; (D) spawner reports through del_dochan (status D/Z/K/other, "
        "dying or not, lengths around REPORTMAX, read chunkings); plus seeded random cases of all four kinds (reports up to 12 KB). Oracle "
        "on the implementation's output: exactly one paragraph per failed recipient starting with its <address>: line (address = the recipient "
        "with the prefix undone as rewrite() applied it: none for a locals domain, else virtual-user cut, else governing domain entry), blank line only at "
        "the end, report text shown up to LF->/, envelope rules, chain length <= 2, bounce file removed only after queueing, no second "
        "notice after success; non-trivial = distinct case with a prefix removed or kept by the locals/virtual-user rules, an LF-bearing recipient, a report with an empty line, a "
        "queued/failed injection, a non-empty chain or a recorded bounce")

run_standard("C14", "Nq.Props.C14", "drv_c14", "harness/c14_bounce.c", "qmail-send",
             ["qmail.o", "qsutil.o", "control.o"],
             "7 6 6000", "9 7 60000", {"quick": RULE % (7, 6), "thorough": RULE % (9, 7)},
             "Nq.Bounce (stripvdom, addbounceText, delReport, getcontrols, inject/bounceOf) vs qmail-send.c "
             "stripvdomprepend()/addbounce()/del_dochan()/getcontrols()/injectbounce()",
             alphabet=b"\n\nx<>:@-[]#/",
             stdin_prefixes=("P", "I", "C", "D"),
             assumptions=["qmail-queue is replaced by a capture of the qmail_open/put/from/to/close calls (qmail.c's own discipline is C07; qmail-queue's is C01)",
                          "the queue directory is an in-memory file system behind open_read/open_append/open_write/read/write/close/stat/fstat/unlink; "
                          "sleep() returns at once, time() is fixed (the Date: line is compared for that instant)",
                          "strings taken from the envelope, the control files and the spawner contain no NUL byte (they are C strings in the real program)",
                          "daemon-level scheduling of injectbounce (messdone, retry after SLEEP_SYSFAIL, crash windows) belongs to the Daemon model (C03/C04)"])
