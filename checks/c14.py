#!/usr/bin/env python3
"""C14 — bounces go back once, to the sender, and can neither loop nor be forged."""
import os, sys
sys.path.insert(0, os.path.join(os.path.dirname(os.path.abspath(__file__)), "..", "tools"))
import nqlib
from nqlib import Check, run_pipeline, parse_driver_output, standard_verdict, driver_path, kv, shortest, byte_mutations, sh, VERIF, NCPU

PROP = "C14"
HARNESS = "harness/c14_bounce.c"
RULE = ("the real qmail-send.c rewrite()/stripvdomprepend()/addbounce()/del_dochan()/getcontrols()/injectbounce() (ASan+UBSan build of the working "
        "tree, in-memory file system and captured qmail-queue interface) against the Lean model Nq.Bounce: (P) every failure report over "
        "{LF,x,<,>,:,0x80} up to length %s and every recipient over {LF,a,b,@,-,.} up to length %s against a virtualdomains file with exact, "
        "wildcard, catch-all, domain-exception, virtual-user (user@domain, also with a dash in the prepend), mixed-case entries and an exception entry "
        "for one whole address, once without and once with a locals file that overlaps it, each in three modes: as a local-channel record "
        "(addbounce flagstrip 1), as a remote-channel record (flagstrip 0), and as an ORIGINAL address routed by the real rewrite() whose channel and stored form addbounce then gets; "
        "plus a recipient x report x write-behaviour (short writes, ENOSPC, open failure) x mode matrix "
        "under four locals/virtualdomains pairs, compared on the bytes appended to bounce/<id>; (I) every sender form (ordinary, empty, #@[], VERP "
        "-@[] variants, quoted, 8-bit, LF-bearing) x which of me/bouncefrom/bouncehost/doublebounceto/doublebouncehost/virtualdomains/locals exist, "
        "every failing recipient an original address routed by the real rewrite(), "
        "and every failure point of injectbounce (info, stat, qmail_open, bounce/mess open and read, qmail_close, unlink) followed by a "
        "retry, compared on return value, envelope, full notice text, log and whether bounce/<id> remains; (C) the chain message -> bounce "
        "-> double bounce -> discard with every generated message failing; (D) spawner reports through del_dochan on both channels (status D/Z/K/other, "
        "dying or not, lengths around REPORTMAX, read chunkings); (Q) a second binary linking the REAL qmail.c: injectbounce() -> qmail_open() forks and execs a scripted queue program "
        "(harness/c07_qq.c: records what it is given, then exits with each of 16 codes or dies by SIGKILL/SIGTERM/SIGSEGV/SIGABRT), then a retry with a well-behaved one; "
        "in the same leg the k-th open_read() and the k-th read() of a queue file (info/, bounce/, mess/) inside injectbounce() is made to fail for every call index k, in front of a queue program that exits 0, exits 54 or is killed, "
        "and the message and envelope bytes the queue program received are compared with Nq.BounceQq (qmail.c's sticky error flag under injectbounce()'s calls); (D) also reports the order of the real writes to bounce/<id> and of the done-mark; "
        "plus seeded random cases of all five kinds (reports up to 12 KB) and the corpora "
        "corpus/C14.txt, corpus/C14-qq.txt. Oracle on the implementation's output, its tables and the double-bounce address computed on the spec side from the raw "
        "control-file bytes (specVdoms/specLocals/specDoubleBounceTo, not the model's getcontrols): exactly one paragraph per failed recipient starting with its <address>: line (address = "
        "the stored recipient as it is on the remote channel; on the local channel the prefix undone as rewrite() applied it: none for a locals domain, else virtual-user cut, else governing domain entry), "
        "END TO END for original addresses: the paragraph names the address as routed by C10's model of rewrite() whenever the non-ambiguity hypothesis of C14_bounce_names_routed_address holds "
        "(always on the remote channel; the real routing is compared with that model too), blank line only at "
        "the end, report text shown up to LF->/, original message a suffix of the notice, envelope rules, chain length <= 2, bounce file removed only after queueing "
        "(Q: only if the queue program exited 0 without a signal having been given a terminated envelope and a notice that contains the whole bounce/<id> and ends with the original message - "
        "queuedOK/completeOK of C14_inject_fault_accepted_complete; otherwise 'will try later', the record stays; after a refusal the retry delivers exactly the complete notice), "
        "D: for a permanent failure every write to bounce/<id> precedes the write of the done-mark (recordBeforeMark), no second "
        "notice after success; non-trivial = distinct case with a stored form differing from the given or named address, a locals-domain record, an LF-bearing recipient, a report with an empty line, a "
        "queued/failed injection, a non-empty chain, a recorded bounce or a Q case")
ARGS = {"quick": "7 6 6000", "thorough": "9 7 60000"}
ASSUME = ["in the P/I/C/D legs qmail.c is replaced by a capture of the qmail_open/put/from/to/close calls; the Q leg links the real qmail.c in front of a scripted queue program (qmail.c's full discipline is C07; qmail-queue's is C01)",
          "the queue directory is an in-memory file system behind open_read/open_append/open_write/read/write/close/stat/fstat/unlink; "
          "sleep() returns at once, time() is fixed (the Date: line is compared for that instant)",
          "strings taken from the envelope, the control files and the spawner contain no NUL byte (they are C strings in the real program)",
          "daemon-level scheduling of injectbounce (messdone, retry after SLEEP_SYSFAIL, crash windows) belongs to the Daemon model (C03/C04); the daemon-level "
          "replay of drv_c14 is a SYNTHETIC life: arrival, preprocessing, delivery commands, reports and marks are fabricated set-up events, only appendBounce / "
          "bounceInject / unlinkBounce carry bytes and outcomes of the real addbounce()/injectbounce()",
          "the Q leg uses real fork/exec/pipes/waitpid of the host and C07's scripted stand-in for qmail-queue; 'committed' is what the script says (exit 0, no signal)",
          "Q-leg faults: 'queued' = the scripted queue program exited 0 un-killed AND was given a terminated envelope F..NUL{T..NUL}NUL (a real qmail-queue refuses anything else: C01); pipe writes to the queue program do not fail",
          "the write-ahead ORDER of failure record and done-mark is observed in one uninterrupted del_dochan() call; what a crash between the two writes loses is C03's clause",
          "routing of original addresses: envnoathost = control/me's first line or the literal (no control/envnoathost, no control/percenthack in these cases)"]
NAME = ("Nq.Bounce (stripvdom, nameOf, addbounceText, delReport, getcontrols, inject/bounceOf) vs qmail-send.c "
        "stripvdomprepend()/addbounce()/del_dochan()/getcontrols()/injectbounce() (+ qmail.c qmail_open/qmail_close in the Q leg)")
PREFIXES = ("P", "I", "C", "D")   # the focused search runs on the first binary; Q cases are replayed with --replay


def stdin_case(line):
    d = kv(line)
    return "%s %s" % (d.get("kind", "P"), d.get("in", "-"))


def main():
    c = Check(PROP)
    ok = c.proofs("Nq.Props.C14", drivers=["drv_c14"])
    s = c.build_repo()
    stats, samples, disagree, oracle, errors = {}, [], [], [], []
    neighbourhood = None
    if s.ok and c.driver_ok:
        try:
            h = s.cc(os.path.join(VERIF, HARNESS), os.path.join(s.dir, "h_c14"), link_like="qmail-send",
                     objs_exclude=["qmail.o", "qsutil.o", "control.o"])
            # second binary: the same harness with the REAL qmail.c (qmail_open/qmail_close: fork, exec, wait) and the scripted
            # stand-in for qmail-queue of C07 (harness/c07_qq.c) behind QMAILQUEUE; it runs the Q leg only
            hq = s.cc(os.path.join(VERIF, HARNESS), os.path.join(s.dir, "h_c14q"), link_like="qmail-send",
                      objs_exclude=["qsutil.o", "control.o", "auto_qmail.o"], extra="-DC14_REALQQ")
            qq = os.path.join(s.dir, "c07_qq")
            rc, o = sh("cc -O1 -o %s %s" % (qq, os.path.join(VERIF, "harness", "c07_qq.c")), cwd=s.dir)
            if rc != 0:
                raise RuntimeError("c07_qq.c does not compile: " + o[-500:])
            hq = "QMAILQUEUE=%s %s" % (qq, hq)
            drv = driver_path("drv_c14")
            cmds = []
            corpus = os.path.join(VERIF, "corpus", PROP + ".txt")
            corpusq = os.path.join(VERIF, "corpus", PROP + "-qq.txt")
            if c.replay:
                cmds.append("%s - < %s" % (h, c.replay))
                cmds.append("%s - < %s" % (hq, c.replay))        # Q lines of a replay file are for the second binary
            else:
                if os.path.exists(corpus):
                    cmds.append("%s - < %s" % (h, corpus))
                if os.path.exists(corpusq):
                    cmds.append("%s - < %s" % (hq, corpusq))
                cmds += ["%s %s %d %d %d" % (h, ARGS[c.tier], c.seed, i, NCPU) for i in range(NCPU)]
                cmds += ["%s %s %d %d %d" % (hq, ARGS[c.tier], c.seed, i, 4) for i in range(4)]
            outs = run_pipeline(cmds, drv)
            stats, samples, disagree, oracle, errors = parse_driver_output(outs)

            def neighbourhood(dis):
                cases = byte_mutations(dis, c.seed, b"\n\nx<>:@-[]#/", prefix_variants=PREFIXES)
                if not cases:
                    return None
                tf = os.path.join(s.dir, "nb.txt")
                open(tf, "w").write("\n".join(cases) + "\n")
                o2 = run_pipeline(["%s - < %s" % (h, tf)], drv)
                st2, _, _, or2, _ = parse_driver_output(o2)
                c.cov["search_cases"] = st2.get("cases", 0)
                return shortest(or2) if or2 else None
        except Exception as ex:
            errors.append(str(ex))
    else:
        errors.append("build failed: " + "\n".join(c.notes)[-3000:])
    c.cov["evaluations"] = int(stats.get("cases", 0))
    c.cov["distinct_nontrivial"] = int(stats.get("distinct_nontrivial", 0))
    c.cov["traces_validated_against_impl"] = max(0, int(stats.get("cases", 0)) - int(stats.get("disagree", 0)))
    c.cov["rule"] = RULE % ((7, 6) if c.tier == "quick" else (9, 7))
    c.cov["exhaustive"] = False
    c.cov["samples"] = samples[:6] or ["(no sample emitted)"]
    c.cov["input_distribution"] = {k: v for k, v in stats.items() if k not in ("cases", "distinct_nontrivial", "disagree", "oracle_fail")}
    c.assumptions += ASSUME
    hint = "./check C14 --replay <file of stdin cases '<kind> <blobhex>' for %s>" % HARNESS
    first = shortest(oracle) if oracle else None
    if first:
        rp = os.path.join(VERIF, "replays", "%s-%s-%d-case.txt" % (PROP, c.tier, c.seed))
        os.makedirs(os.path.dirname(rp), exist_ok=True)
        open(rp, "w").write(stdin_case(first) + "\n")
        hint = "./check C14 --replay %s" % rp
    standard_verdict(c, ok, stats, disagree, oracle, errors, NAME, neighbourhood, replay_hint=hint)
    c.finish()


if __name__ == "__main__":
    main()
