#!/usr/bin/env python3
"""C15 — retries back off quadratically, expire with the queue lifetime, earliest first."""
import os, sys, random, re
sys.path.insert(0, os.path.join(os.path.dirname(os.path.abspath(__file__)), "..", "tools"))
import nqlib
from nqlib import Check, VERIF, NCPU, run_pipeline, parse_driver_output, driver_path, standard_verdict, shortest, kv

RULE = ("real static squareroot() of qmail-send.c on every age in [0,2^%(sq)s) plus a window around every perfect square up to "
        "65540^2, random windows up to 2^33 and out-of-domain samples (run-length encoded by the harness, each run checked by the "
        "exact-root predicate at both ends, which covers every x of the run); real nextretry() on a dense (birth,now,channel) grid "
        "(11 births x {ages -40..3000, s^2-1,s^2,s^2+1 for s up to 65537 step %(st)s, saturation and clock-went-backwards points} x 2 "
        "channels + 20000 random); real prioq_insert/min/delmin on every op sequence over {insert 0..3, delmin} up to length %(pq)s "
        "and %(nr)s seeded random sequences up to 10^4 ops (mins returned and full final array compared with the Lean model; oracle = "
        "each returned entry is a minimum of the reference multiset, final array heap-ordered and equal as a multiset); %(nh)s seeded "
        "daemon histories over a real on-disk queue directory driving the real pqstart/pqadd/pass_dochan/del_dochan/job_close/"
        "pqrun/pqfinish/pass_selprep with a virtual clock stepped to just before/at/after each computed retry time, ALRM, "
        "TERM+restart, queuelifetime from 0 upwards, and injected system failures on about a fifth of the passes (open_read of the "
        "channel file or of info/<id> fails -> trouble exit; unlink of the finished channel file fails; stat of the other channel "
        "file fails: the libc call is wrapped inside the included source only), plus (session 4) the other failure paths as further history steps: "
        "`d[,fault]` = the pqdone part of the real pass_do() -> real messdone() with a failing stat of local/remote/todo/info, a failing "
        "injectbounce or a failing unlink of info/<id> (qmail-clean replaced by a pipe pair on fd 5/6, qmail.o by a stand-in), "
        "`p..,x<k>` / `p..,r` = record k of the started channel file has an unknown type / read() of the channel file fails (the two exits "
        "of pass_dochan that call job_close with flaghiteof = 0), `f,<c>:<id>..` = pqfinish() with utimes failing on chosen channel files "
        "(oracle: no start before the due time, earliest-due "
        "first, retry time strictly in the future and equal to the quadratic formula, not beyond birth+(isqrt(lifetime)+skip)^2 before "
        "expiry, a ghost monitor of theorem C15_hist_backoff: no later start of the same message on the channel before the back-off "
        "time owed since its last temporary failure, across TERM+restart; expired pass turns every Z into D with the too-long text and "
        "marks it, restart preserves the schedule, ALRM makes everything due, after a failed open/unlink the message stays scheduled "
        "and strictly later, nothing is lost: every existing channel file is on its channel heap and a message that left its last "
        "channel is in pqdone; messdone: only the due minimum of pqdone moves, afterwards pqdone is the rest or the rest plus the message "
        "strictly in the future, a message still on disk without channel files stays in pqdone, a message leaves the disk only without an "
        "injected failure and without channel files; cut pass: re-inserted exactly at jo.retry, records before the cut handled and the rest "
        "untouched, pqdone untouched; failing utimes: the file keeps the mtime it had, every other file carries its due time, and the next "
        "process loads exactly those mtimes); nextretry() at the edges of the no-overflow range (births up to LONG_MAX-65555^2, LONG_MIN, ages up "
        "to LONG_MAX) compared with the wrapped-arithmetic model; %(np)s pqadd()/pqfail scenarios through the real pass_do()+pqadd() "
        "with per-file stat outcomes exists/ENOENT/EIO for info, todo, local, remote (all four heaps compared after each call; oracle: "
        "message never lost from all heaps, enters a channel heap only with the file's mtime, pqfail re-insertion in the future); "
        "SLEEP_SYSFAIL printed by the harness and compared. SELECT LOOP (harness/c15_loop.c): %(nw)s seeded scenarios in which the real "
        "main() of qmail-send (with the real qmail-clean) runs under qsim with a discrete-event virtual clock - select() is the only place "
        "where time passes: it returns at once if a descriptor is ready, otherwise the clock jumps to the earlier of clock+tv_sec and the "
        "next external event; deliveries take scripted virtual durations (0 s .. 100 min), so a channel (either one, or both) sits in the "
        "middle of a pass with every delivery slot taken (concurrency 1-3 from the control file or from the spawner's byte, more "
        "recipients than slots) while entries on the other channel's heap, on its own heap, in pqdone (bounce injection scripted to "
        "fail: now+SLEEP_SYSFAIL) and in pqfail (one stat() of the start-up scan fails with EIO, found by a pre-run) become due at "
        "spread-out times, plus later arrivals through todo/, ALRM, short lifetimes, a fifth of the scenarios without a busy channel, and in "
        "two fifths one or two CLEAN STOPS at arbitrary virtual times (TERM; deliveries in flight go on and report when their duration is "
        "over, the daemon waits for them and exits 0 - often with a pass still open; a new daemon is started on the same queue, optionally "
        "after some downtime); "
        "at every select the daemon's globals are read and printed with the timeout the real code passed and the clock at which select "
        "returned (oracle = executable form of theorem C15_sleep_not_through on these values: the daemon never wakes more than SLEEP_FUZZ "
        "after the due time of an entry it could start - head of the heap of a channel that is not mid-pass with a job slot free, head of "
        "pqfail, head of pqdone - having really slept; a daemon that uses up its select budget is reported too; after ALRM every channel "
        "heap head is due; BACK-OFF ACROSS DAEMON PROCESSES, black box on the delivery commands and reports: a recipient reported Z in a pass "
        "whose retry time is R (jo.retry, printed with each command) is not started again before R by this or any later daemon unless ALRM "
        "intervened - this is what found the TERM-mid-pass defect fixed in /repo be3a18d; (session 4) in a fifth of the scenarios the n-th "
        "unlink() of the daemon fails with EIO and in half of those with a clean stop the n-th utimes() of the exit sequence fails (by call "
        "index, through qsim's gate hook): after a failed unlink of a finished channel file / of info/<id> the next select must show that "
        "channel heap / pqdone with an entry due no later than failure time + SLEEP_SYSFAIL, the promptness oracle goes on applying to the "
        "re-inserted entries, and a failed utimes exempts exactly that channel file from the back-off oracle; correspondence: the timeout equals "
        "Nq.SelPrep.timeout of the snapshot at every select, and jo.retry / flagdying of every command equal Nq.Sched.jobOpen at the "
        "`recent` of the moment the pass was OPENED (first select showing pass[c] open), for the messages whose birth the scenario fixes). "
        "Crash restarts (L without f) in hand-written S cases: every existing channel file must be scheduled again, at its persisted "
        "mtime where the history fixes it. ASan+UBSan build of the working tree. "
        "non-trivial = in-domain root evaluations + retry cases + distinct op sequences of length >= 3 + distinct histories + distinct pqfail scenarios "
        "+ distinct select-loop scenarios")

QUICK = dict(sq=28, pq=8, nr=300, nh=4000, st=5, np=1016, nw=640)
THOROUGH = dict(sq=32, pq=10, nr=3000, nh=20000, st=1, np=5016, nw=16000)

# qmail-send globals that harness/c15_loop.c reads at every select (kept global in the qs instance; everything else is localised)
LOOP_GLOBALS = ["auto_split", "flagexitasap", "flagspawnalive", "flagcleanup", "numjobs", "recent", "nexttodorun", "cleanuptime", "pass", "jo",
                "pqdone", "pqchan", "pqfail", "comm_buf", "concurrency", "concurrencyused", "tododir", "d"]


def neighbourhood_cases(dis, seed):
    """stdin cases around the disagreeing inputs (failing-input search)"""
    rnd = random.Random(seed)
    cases = []
    for d in dis[:40]:
        f = kv(d).get("in", "")
        p = f.split(",")
        try:
            if p[0] == "Q" and len(p) >= 3:
                lo, hi = int(p[1]), int(p[2])
                for x in (lo, hi):
                    cases.append("Q %d %d" % (x - 3000, x + 3000))
                    r = int(max(x, 0) ** 0.5)
                    for s in range(max(0, r - 3), r + 4):
                        cases.append("Q %d %d" % (s * s - 3, s * s + 3))
            elif p[0] == "N" and len(p) >= 4:
                b, r, c = int(p[1]), int(p[2]), int(p[3])
                for da in list(range(-60, 61)) + [rnd.randint(-100000, 100000) for _ in range(200)]:
                    for cc in (0, 1):
                        cases.append("N %d %d %d" % (b, r + da, cc))
                age = max(r - b, 0)
                s0 = int(age ** 0.5)
                for s in range(max(0, s0 - 30), s0 + 30):
                    for dd in (-1, 0, 1):
                        cases.append("N %d %d %d" % (b, b + s * s + dd, c))
                for a in (0, 1, 2, 3, 4, 9, 16, 100, 10000):
                    for cc in (0, 1):
                        cases.append("N %d %d %d" % (b, b + a, cc))
            elif p[0] == "H":
                ops = p[1:]
                if ops == ["-"]:
                    ops = []
                for k in range(1, len(ops) + 1):           # every prefix, then drained
                    cases.append("H " + ",".join(ops[:k] + ["d"] * (k + 1)))
                for _ in range(300):
                    m = list(ops)
                    for _ in range(rnd.randint(1, 3)):
                        pos = rnd.randint(0, len(m))
                        op = rnd.choice(["d", "i%d" % rnd.randint(0, 6)])
                        if rnd.random() < 0.5 or not m:
                            m.insert(pos, op)
                        else:
                            m[min(pos, len(m) - 1)] = op
                    cases.append("H " + ",".join(m + ["d"] * (len(m) + 1)))
            elif p[0] == "P" and len(d.split("in=P,", 1)) == 2:
                # in=P,<recent>,<now>,<failq>,<files>,<ncalls>: the lists contain commas themselves; re-split on the shape
                m = re.match(r"P,(-?\d+),(-?\d+),((?:-?\d+:\d+,?)+|-),((?:\d+:[^:,]+:[^:,]+:[^:,]+:[^:,]+,?)+|-),(\d+)", f)
                if m:
                    rc, nw, fq, fs = int(m.group(1)), int(m.group(2)), m.group(3).rstrip(","), m.group(4).rstrip(",")
                    for nc in range(1, 7):
                        for dr in (0, -5, 5, 300):
                            cases.append("P %d %d %s %s %d" % (rc + dr, nw + dr, fq, fs, nc))
                    for one in fs.split(","):          # each message alone
                        i = one.split(":")[0]
                        cases.append("P %d %d %d:%s %s 2" % (rc, nw, rc - 1, i, one))
            elif p[0] == "W" and len(f) > 2:
                scen = f[2:]                                # W,<scenario>: the scenario contains commas itself
                cases.append("W " + scen)
                fl = [x for x in scen.split("/") if x]
                def withf(key, val, base=None):
                    b = fl if base is None else [x for x in base.split("/") if x]
                    return "/".join([x for x in b if not x.startswith(key + "=")] + ([key + "=" + val] if val is not None else []))
                for e in ("700", "1400", "2000", "3200"):
                    cases.append("W " + withf("end", e))
                for dd in ("1000", "1700,1700,1700,5", "0", "30,2500"):
                    cases.append("W " + withf("dur", dd))
                for k in ("bf", "sf", "sig", "life"):
                    cases.append("W " + withf(k, None))
                for a in ("1", "2", "3"):
                    for b in ("1", "2", "3"):
                        cases.append("W " + withf("cr", b, withf("cl", a)))
                for o in ("Z", "K", "D", "ZD"):
                    cases.append("W " + withf("out", o))
            elif p[0] == "S" and len(p) >= 3:
                lt, script = p[1], f.split(",", 2)[2]      # the script itself contains commas
                steps = script.split(";")
                cases.append("S %s %s" % (lt, script))
                for k in range(1, len(steps)):
                    cases.append("S %s %s" % (lt, ";".join(steps[:k])))
                for l2 in ("0", "1", "100", "1000", "604800"):
                    cases.append("S %s %s" % (l2, script))
        except (ValueError, IndexError):
            continue
    return cases


def replay_cases(path, tmpdir):
    """--replay accepts a file of stdin cases or a replay JSON written by this check (its failing_case.in)"""
    import json
    txt = open(path).read()
    if not txt.lstrip().startswith("{"):
        return path
    f = json.loads(txt).get("failing_case", {}).get("in", "")
    tag = f[:1]
    if tag in ("Q", "N"):
        line = " ".join(f.split(","))
    elif tag == "H":
        line = "H " + (f[2:] or "-")
    elif tag == "S":
        p = f.split(",", 2)
        line = "S %s %s" % (p[1], p[2]) if len(p) == 3 else ""
    elif tag == "W":
        line = "W " + f[2:]
    elif tag == "P":
        m = re.match(r"P,(-?\d+),(-?\d+),((?:-?\d+:\d+,?)+|-),((?:\d+:[^:,]+:[^:,]+:[^:,]+:[^:,]+,?)+|-),(\d+)", f)
        line = "P %s %s %s %s %s" % (m.group(1), m.group(2), m.group(3).rstrip(","), m.group(4).rstrip(","), m.group(5)) if m else ""
    else:
        line = ""
    out = os.path.join(tmpdir, "replay_cases.txt")
    open(out, "w").write(line + "\n")
    return out


def main():
    c = Check("C15")
    ok = c.proofs("Nq.Props.C15", drivers=["drv_c15"])
    s = c.build_repo()
    P = QUICK if c.tier == "quick" else THOROUGH
    stats, samples, disagree, oracle, errors = {}, [], [], [], []
    neighbourhood = None
    if s.ok and c.driver_ok:
        try:
            h = s.cc(os.path.join(VERIF, "harness/c15_sched.c"), os.path.join(s.dir, "h_c15"),
                     link_like="qmail-send", objs_exclude=["qsutil.o", "qmail.o"])
            drv = driver_path("drv_c15")
            # the select-loop leg: the real main() of qmail-send and qmail-clean as qsim program instances (harness/c15_loop.c)
            o1, e1 = s.prog_object("qs", "qmail-send.c", "qmail-send", keep_globals=LOOP_GLOBALS, objs_exclude=["qmail.o"])
            o2, e2 = s.prog_object("qc", "qmail-clean.c", "qmail-clean")
            hl = s.cc(os.path.join(VERIF, "harness/c15_loop.c"), os.path.join(s.dir, "h_c15loop"),
                      extra="%s/harness/sim.c %s %s %s %s -lpthread -ldl" % (VERIF, o1, o2, e1, e2))
            cmds = []
            corpus = os.path.join(VERIF, "corpus", "C15.txt")
            if c.replay:
                rc_ = replay_cases(c.replay, s.dir)
                cmds.append("%s - < %s" % (h, rc_))
                cmds.append("%s - < %s" % (hl, rc_))          # each harness ignores the other's case lines
            else:
                if os.path.exists(corpus):
                    cmds.append("%s - < %s" % (h, corpus))
                    cmds.append("%s - < %s" % (hl, corpus))
                cmds += ["%s %d %d %d %d %d %d %d" % (h, P["sq"], P["pq"], P["nr"], P["nh"], c.seed, i, NCPU) for i in range(NCPU)]
                cmds += ["%s %d %d %d %d" % (hl, P["nw"], c.seed, i, NCPU) for i in range(NCPU)]
            outs = run_pipeline(cmds, drv, cwd=s.dir)
            stats, samples, disagree, oracle, errors = parse_driver_output(outs)

            def neighbourhood(dis):
                cases = neighbourhood_cases(dis, c.seed)
                if not cases:
                    return None
                tf = os.path.join(s.dir, "nb.txt")
                open(tf, "w").write("\n".join(cases) + "\n")
                o2 = run_pipeline(["%s - < %s" % (h, tf), "%s - < %s" % (hl, tf)], drv, cwd=s.dir)
                st2, _, _, or2, _ = parse_driver_output(o2)
                c.cov["search_cases"] = st2.get("cases", 0)
                return shortest(or2) if or2 else None
        except Exception as ex:
            errors.append(str(ex))
    else:
        errors.append("build failed: " + "\n".join(c.notes)[-3000:])
    c.cov["evaluations"] = int(stats.get("cases", 0))
    c.cov["distinct_nontrivial"] = int(stats.get("distinct_nontrivial", 0))
    c.cov["traces_validated_against_impl"] = max(0, int(stats.get("cases", 0)) - int(stats.get("disagree", 0)))
    c.cov["rule"] = RULE % P
    c.cov["exhaustive"] = False
    c.cov["samples"] = samples[:8] or ["(no sample emitted)"]
    c.cov["input_distribution"] = {k: v for k, v in stats.items()
                                   if k not in ("cases", "distinct_nontrivial", "disagree", "oracle_fail")}
    c.assumptions += [
        "datetime_sec is a 64-bit long; times stay in the range where the C arithmetic cannot overflow (|t| < 2^61; theorem C15_sqrt_nooverflow covers squareroot itself for every x in [0,2^63))",
        "the file system keeps the mtime given to utimes() and returns it from stat() (pqfinish/pqadd; exercised on the real kernel FS in the history harness)",
        "qmail-lspawn/qmail-rspawn report every started delivery with a K, Z or D line (a mangled report is deferred even in the expiring pass: complement theorem C15_dying_mangled)",
        "allocation failure (prioq_readyplus, nomem loops) is not modelled",
        "system failures are injected by wrapping stat/unlink/open_read inside the included qmail-send.c (EIO on chosen paths); 'trouble reading' (read() of the channel file fails: only before the first record, the whole file fits one buffer) and 'unknown record type' (any record) are driven as history steps; utimes (pqfinish) and messdone's calls fail on chosen files; in the select-loop scenarios unlink/utimes fail by call index, stat failures after start-up are not injected there",
        "a failing utimes at exit makes the next process retry the message at the file's old mtime - earlier than its back-off time (theorems C15_fail_utimes / C15_fail_utimes_early; the code's own warning says so): this is the one failure that can make a retry EARLIER; the history oracles exempt exactly that file and count the occurrences",
        "the mtime a markdone write leaves on the real file system is the real time of day, which the model does not fix: when utimes fails on a file that was written since its mtime was last known, the driver adopts the implementation's mtime for that file",
        "nextretry overflow: C signed overflow is undefined behaviour; the complement theorem C15_overflow_wraps describes the two's-complement result, which is not exercised on the UBSan build",
        "the history harness (S cases) drives pass_dochan/del_dochan/pqrun/pqfinish/pqstart directly; main()'s select loop is exercised by the W scenarios (real main() under qsim), where time passes only inside select(): the clock read by recent = now() is the clock at which select() is entered",
        "history-level theorems C15_hist_* treat a pass as ONE step (opened, all recipients answered, job_close at one clock value; a free job slot; started/passes: no fault, clock standing still): interrupted passes - clock, other channel, reports of other jobs, TERM+exit+restart while a pass is open - are the subject of C15_pass_* over Nq.SchedPass.pstep (no faults there; back-off time = the one computed when the job was opened); the fine-grained model is tied to the code by the W scenarios (jobOpen at open time compared per command; exit behaviour by the black-box back-off oracle), not by a step-by-step replay",
        "arrivals (Step.arrive / BStep.arrive = todo_do) are model-only at S level (the function-level harness has no qmail-clean to run todo_do against); real arrivals run in the W scenarios",
        "the model of the select preparation (Nq.SelPrep: timeout, wake-up time) is the one of C16; C15 imports it read-only, states the promptness theorems C15_sleep_* over it and compares it with the real timeout at every select of the W scenarios",
        "select-loop snapshot: between recent = now() and select() the main loop only runs the *_selprep functions, which do not write the globals they read; the struct mirrors in harness/c15_loop.c (pass[].id, jo[].refs) follow qmail-send.c",
    ]
    standard_verdict(c, ok, stats, disagree, oracle, errors,
                     "Nq.Sched (squareroot/nextretry/PQ/passStart/jobOpen/report/pqrun/pqfinish/pqstart/passTrouble/jobCloseF/pqaddF/passDoFail), Nq.SchedHist.step and Nq.SchedFail.fstep (messdone/doneSt, passCutSt, finFSt) vs qmail-send.c + prioq.c; Nq.SelPrep.timeout vs the select timeout of qmail-send.c main() on snapshots of its globals",
                     neighbourhood,
                     replay_hint="./check C15 --replay <file of stdin cases for harness/c15_sched.c: Q lo hi | N birth recent chan | H ops | S lifetime script | P recent now pqfail files ncalls; for harness/c15_loop.c: W scenario> (or the replay JSON itself)")
    c.finish()


main()
