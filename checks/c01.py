#!/usr/bin/env python3
"""C01 — queue acceptance is all-or-nothing and durable (qmail-queue under qsim)."""
import os, sys, random
sys.path.insert(0, os.path.join(os.path.dirname(os.path.abspath(__file__)), "..", "tools"))
from nqlib import run_standard, VERIF, kv

RULE = ("the real qmail-queue main() (ASan+UBSan build of the working tree) runs under qsim (in-memory POSIX subset, DESIGN.md 1.4) on: 12 message sizes "
        "straddling the 256/2048/8192-byte buffers x 12 envelope shapes (0..5 recipients, 1002/1003/1004-byte addresses, wrong record letters, "
        "missing terminator, EOF) x 3 read chunkings; EOF at every byte offset of a small envelope; every call index x {EIO, ENOSPC, short write, EINTR} "
        "on three well-formed base cases AND on 11 envelope shapes that fail by themselves (EOF before F / inside the sender / at a record boundary / "
        "inside a recipient / after a record letter / terminator missing, wrong letters from the whole byte range, 1003..1005-byte addresses; one "
        "well-formed control) x 3 variants (tiny message unchunked; 300 bytes with 30..49 recipients in reads of 100; reads of 1 byte) - so that the calls "
        "made inside cleanup() (ftruncate, unlink intd, unlink mess) are faulted too; every second fault after every first fault on two well-formed "
        "and 11 (thorough: 22) malformed inputs; %s seeded random cases with at most one fault + %s random inputs (half malformed) with a chain of 1..3 "
        "faults; SIGALRM (the simulated clock jumps past alarm(DEATH) before the call, the program's own handler runs) at every call index of the three "
        "well-formed bases and of the 11 shapes x 2 variants - i.e. also between link(intd,todo) and _exit and between the calls of cleanup() - and, on the small "
        "inputs, at every later index after a first fault (EIO / short write at every index), + %s random inputs with SIGALRM at a random index; failures of library "
        "calls qsim does not trace, on 3 inputs: chdir (no /var/qmail, no queue), each of the 5 alloc() calls of qmail-queue.c returning 0 (the source is compiled with "
        "-Dmalloc=qq_malloc), SIGBUS delivered at alloc() #2..#5. uid (ordinary / alias / qmaild / qmails), pid and the instant (1970..2099) are derived from the input bytes. "
        "Every system-call trace is replayed through the Lean acceptor QueueInject.accept (first rejected "
        "event = disagreement); for every crash point (every call of traces of up to 150 calls; for longer traces the first 40, the last 60 and every 97th call in between; "
        "fault-sweep cases: from the last fault on, "
        "the earlier ones being those of the run without that fault, which is a case of its own) x 5 crash resolutions (keep, lose un-fsynced, "
        "empty, garbage, half) the concrete queue entry is judged by the property oracle (todo visible => complete message+envelope, name=inode, intd and todo one inode; "
        "exit status vs visibility: a visible entry goes only with exit 0 or with the signal handlers' 52/81; leftover states in {nothing, pid, pid+mess, mess, mess+intd} "
        "whenever todo is absent). Exit code = documented verdict on the envelope (0/91/11/54) in EVERY run whose trace has no Faulty event (EINTR, short writes, refused "
        "pid names, failures inside cleanup() or of the trigger pull do not excuse it); after a delivered signal nothing but _exit(52/81); 61/62/51/81 and what they leave for the "
        "untraced failures; the Received line the program wrote = the documented format for the uid, pid and instant given (calendar: Nq.Datetime.tai), computed by the driver. "
        "non-trivial = distinct (message, envelope, fault list)")


def builder(s):
    obj, extra = s.prog_object("qq", "qmail-queue.c", "qmail-queue", keep_globals=["received", "receivedlen", "auto_split"],
                                defines="-Dmalloc=qq_malloc")    # alloc.h: #define alloc(x) malloc(x); the harness can make the k-th alloc() fail
    return s.cc(os.path.join(VERIF, "harness/c01_queue.c"), os.path.join(s.dir, "h_c01"),
                extra="%s/harness/sim.c %s %s -lpthread -ldl" % (VERIF, obj, extra))


def mutate(dis, seed):
    """neighbourhood of disagreeing cases: same message/envelope with every fault position and chunking, and - keeping the
    faults of the disagreeing case - every further fault in the calls that follow them"""
    rnd = random.Random(seed)
    cases = set()
    seen = set()
    for d in dis[:60]:
        f = kv(d)
        m, e = f.get("msg", "-"), f.get("env", "-")
        if (m, e) not in seen and len(seen) < 20:
            seen.add((m, e))
            for ck in (0, 1, 100):
                cases.add("%d %s %s 0 0" % (ck, m, e))
                for fc in range(1, 45):
                    for fe in (5, 28, -1, 4, -3):
                        cases.add("%d %s %s %d %d" % (ck, m, e, fc, fe))
        try:
            fl = [tuple(int(x) for x in t.split(":")) for t in f.get("fault", "0:0").split("+")]
            ck = int(f.get("chunk", "0"))
        except ValueError:
            continue
        fl = [t for t in fl if t[0] > 0]
        if fl and len(fl) < 3 and len(cases) < 40000:
            base = " ".join("%d %d" % t for t in fl)
            for fc in range(fl[-1][0] + 1, fl[-1][0] + 13):
                for fe in (5, 28, -1, 4):
                    cases.add("%d %s %s %s %d %d" % (ck, m, e, base, fc, fe))
    return sorted(cases)


run_standard("C01", "Nq.Props.C01", "drv_c01", "harness/c01_queue.c", None, [],
             "300", "4000", {"quick": RULE % (300, 150, 75), "thorough": RULE % (4000, 2000, 1000)},
             "QueueInject.accept (Nq/QueueInject.lean) vs the system-call traces of qmail-queue.c main()",
             builder=builder, mutate=mutate,
             assumptions=["OS semantics of DESIGN.md 1.4 as implemented by harness/sim.c: directory operations atomic and synchronous; file data "
                          "written since the last fsync of that file may be lost or arbitrary after a machine crash; fsync makes it durable",
                          "inode numbers of live files are unique (name = inode gives uniqueness of message numbers)",
                          "the trigger pull is best-effort (C16)"])
