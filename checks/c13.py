#!/usr/bin/env python3
"""C13 — delivery instructions are interpreted as documented and loops are cut (qmail-local)."""
import os, random, sys
sys.path.insert(0, os.path.join(os.path.dirname(os.path.abspath(__file__)), "..", "tools"))
import nqlib
from nqlib import Check, VERIF, NCPU, run_pipeline, parse_driver_output, standard_verdict, driver_path, kv, shortest

PROP = "C13"
HARNESS = "harness/c13_local.c"
RULE = ("the real qmail-local.c main() (ASan+UBSan build of the working tree, run in-process in real temporary home directories; "
        "open_read/open_append/stat/chdir/execv/qmail.o/strerr_die interposed only to observe or to script failures) against the Lean model "
        "Nq.Local.run on: every subset of 7 (dash '-') and 5 (dash '') .qmail names x 46 near-miss extensions (case, dots, slashes, "
        "trailing/double dashes, 'default' spellings) with -n; every sequence of up to %s instruction lines from a 20-line grammar set, plain "
        "and with the x bit, with -n; real deliveries with stand-in commands for all 256 exit codes in two shapes and every sequence of up to %s "
        "lines from a 16-line delivery set (mbox, maildir, missing maildir, exit 0/99/100/111/1, kill -9, forwards, +list); 16 home modes x 20 "
        "file modes x {-n, deliver}; 16 message shapes (own Delivered-To in header/body/unterminated/case-changed/NUL) x 4 recipients x 9 "
        "hosts; the recipient's own Delivered-To line (and a one-character miss, a prefix, the line after the header) at every start offset "
        "B-len-2..B+2 around B = 128..8192 (read-buffer boundaries) x 2 header line lengths; control files whose instruction lines straddle "
        "offsets 256/512/1024; 22 hostile senders x owner/VERP files; %s seeded random homes/extensions/bodies/messages (incl. EIO/EACCES, directories, "
        "NUL bytes, names around NAME_MAX, headers padded to random lengths up to 9000 bytes). Compared on exit code, stdout, diagnostic, "
        "names opened (in order), names given to stat (in order), delivery events (in order), forward envelope and body, and 12 environment "
        "variables; the oracle is Nq.LocalSpec.outcome - the function C13_run_outcome proves the model equal to - (documented refusals, "
        "instruction semantics, exit-code classes, forward last) plus the documented search order, confinement of every name opened or "
        "stat'ed, owner names, $DEFAULT, loop rule in both directions, one-line header fields, and a post-run scan of the home directory "
        "(every new or changed file must be explained by an observed delivery event; none when no file delivery is documented), all "
        "evaluated on the implementation's output; the whole environment (`environ`) of the main process after the run and of the first real "
        "command child at its execv(/bin/sh), for inherited environments from a 10-entry pool (incl. a stale DEFAULT), 3 user names and scripted "
        "clocks 0..year 9999 (46 extensions x 9 hosts x 3 sender/owner layouts with a real command, plus every other case), compared variable by "
        "variable with Nq.LocalEnv.commandEnv and judged by Nq.LocalEnvSpec.check (qmail-command(8) variable by variable) and uflineOracle "
        "(Gregorian date of the clock); "
        "non-trivial = distinct case in which an instruction was acted on or a failure was reported")


def mutate_blob(rnd, doit, blob):
    """field-level neighbours of a case"""
    f = blob.split(",")
    if len(f) != 10:
        return []
    out = set()
    unhex = lambda h: b"" if h == "-" else bytes.fromhex(h)
    hx = lambda b: b.hex() or "-"
    for d in ("0", "1"):
        out.add((d, blob))
    try:
        ext = unhex(f[3])
        files = [] if f[9] == "-" else [e.split(":") for e in f[9].split(";")]
    except ValueError:
        return []
    def emit(ff, d=doit):
        out.add((d, ",".join(ff)))
    # extension near-misses
    for _ in range(40):
        e = bytearray(ext)
        op = rnd.randint(0, 4)
        pos = rnd.randint(0, len(e))
        ch = rnd.choice(b"-.aAb:/dD")
        if op == 0:
            e.insert(pos, ch)
        elif op == 1 and e:
            del e[min(pos, len(e) - 1)]
        elif op == 2 and e:
            e[min(pos, len(e) - 1)] = ch
        elif op == 3:
            e = bytearray(bytes(e).swapcase())
        else:
            e += b"-default"
        if 0 in e:
            continue
        g = list(f); g[3] = hx(bytes(e)); emit(g); emit(g, "0")
    # home and file modes, drop files, simplify bodies
    for hm in ("700", "702", "1700", "770"):
        g = list(f); g[0] = hm; emit(g)
    for i in range(len(files)):
        for m in ("600", "700", "602", "622"):
            fs = [list(x) for x in files]; fs[i][2] = m
            g = list(f); g[9] = ";".join(":".join(x) for x in fs); emit(g)
        fs = [x for j, x in enumerate(files) if j != i]
        g = list(f); g[9] = ";".join(":".join(x) for x in fs) or "-"; emit(g)
        try:
            body = unhex(files[i][3])
        except ValueError:
            continue
        lines = body.split(b"\n")
        for j in range(len(lines)):
            nb = b"\n".join(lines[:j] + lines[j + 1:])
            fs = [list(x) for x in files]; fs[i][3] = hx(nb)
            g = list(f); g[9] = ";".join(":".join(x) for x in fs); emit(g)
            for repl in (b"|exit 99", b"|exit 100", b"|exit 0", b"&n@x", b"./mb1", b"+list", b""):
                nb = b"\n".join(lines[:j] + [repl] + lines[j + 1:])
                fs = [list(x) for x in files]; fs[i][3] = hx(nb)
                g = list(f); g[9] = ";".join(":".join(x) for x in fs); emit(g)
    for s in ("-", hx(b"s@x.org"), hx(b"a\nb@c")):
        g = list(f); g[6] = s; emit(g)
    g = list(f); g[8] = "-"; emit(g)
    return sorted(out)


def main():
    import time
    c = Check(PROP)
    t0 = time.time()
    ok = c.proofs("Nq.Props.C13", drivers=["drv_c13"])
    t1 = time.time()
    s = c.build_repo()
    t2 = time.time()
    stats, samples, disagree, oracle, errors = {}, [], [], [], []
    neighbourhood = None
    level, nrandom = (3, 30000) if c.tier == "quick" else (4, 400000)
    if s.ok and c.driver_ok:
        try:
            h = s.cc(os.path.join(VERIF, HARNESS), os.path.join(s.dir, "h_c13"), link_like="qmail-local", objs_exclude=["qmail.o"])
            drv = driver_path("drv_c13")
            cmds = []
            corpus = os.path.join(VERIF, "corpus", PROP + ".txt")
            if c.replay:
                cmds.append("%s - < %s" % (h, c.replay))
            else:
                if os.path.exists(corpus):
                    cmds.append("%s - < %s" % (h, corpus))
                cmds += ["%s %d %d %d %d %d" % (h, level, nrandom, c.seed, i, NCPU) for i in range(NCPU)]
            t3 = time.time()
            outs = run_pipeline(cmds, drv)
            stats, samples, disagree, oracle, errors = parse_driver_output(outs)
            c.cov["phase_s"] = {"translator+lake+audit": round(t1 - t0, 1), "scratch_build": round(t2 - t1, 1),
                                "harness_compile": round(t3 - t2, 1), "run": round(time.time() - t3, 1)}

            def neighbourhood(dis):
                rnd = random.Random(c.seed)
                cases = set()
                for d in dis[:20]:
                    k = kv(d)
                    for dd, b in mutate_blob(rnd, k.get("doit", "0"), k.get("in", "")):
                        cases.add("%s %s" % (dd, b))
                if not cases:
                    return None
                tf = os.path.join(s.dir, "nb.txt")
                open(tf, "w").write("\n".join(sorted(cases)) + "\n")
                o2 = run_pipeline(["%s - < %s" % (h, tf)], drv)
                st2, _, _, or2, _ = parse_driver_output(o2)
                c.cov["search_cases"] = st2.get("cases", 0)
                return shortest(or2) if or2 else None
        except Exception as ex:
            errors.append(str(ex))
    else:
        errors.append("build failed: " + "\n".join(c.notes)[-3000:])
    # home directories of harness processes that died (sanitizer abort on a mutant) are not left behind
    import glob, shutil
    for d in glob.glob("/tmp/c13h-*"):
        pid = d.rsplit("-", 1)[1]
        if pid.isdigit() and not os.path.exists("/proc/" + pid):
            try:
                for root, dirs, _ in os.walk(d):
                    for x in dirs:
                        os.chmod(os.path.join(root, x), 0o700)
            except OSError:
                pass
            shutil.rmtree(d, ignore_errors=True)
    c.cov["evaluations"] = int(stats.get("cases", 0))
    c.cov["distinct_nontrivial"] = int(stats.get("distinct_nontrivial", 0))
    c.cov["traces_validated_against_impl"] = max(0, int(stats.get("cases", 0)) - int(stats.get("disagree", 0)))
    c.cov["rule"] = RULE % ((3, 2, 30000) if c.tier == "quick" else (4, 3, 400000))
    c.cov["exhaustive"] = False
    c.cov["samples"] = [x[:1200] for x in samples[:6]] or ["(no sample emitted)"]
    c.cov["input_distribution"] = {k: v for k, v in stats.items() if k not in ("cases", "distinct_nontrivial", "disagree", "oracle_fail")}
    c.assumptions += [
        "POSIX path lookup in the generated home directories (which names exist, are regular, their modes and contents) is reconstructed by the driver from the case description; the harness verifies that the home was realised as described and skips the case otherwise",
        "commands are stand-ins ('exit N', 'kill -9 $$') run by the real /bin/sh; their result is derived from the command text",
        "qmail-queue is replaced by a recorder (qmail.o excluded): envelope sender, recipients and body of the forwarded copy are captured; its verdict is scripted",
        "mbox/maildir file contents are C12's subject; here only the fact and order of the delivery attempts and their success are observed",
        "arguments are C strings (no NUL); conf-patrn is read from the tree (002)",
        "the clock is scripted by redefining time() inside qmail-local.c (now.h calls it); inherited environments have no two entries of one name and every entry has the form NAME=value; the order of environ is not compared (env.c moves the last entry into a freed slot)",
    ]
    hint = "./check C13 --replay <file with one line '<doit> <in>' built from failing_case.doit and failing_case.in; blob format in harness/c13_local.c>"
    standard_verdict(c, ok, stats, disagree, oracle, errors, "Nq.Local.run (lean/Nq/Local.lean) vs qmail-local.c main()", neighbourhood, replay_hint=hint)
    c.finish()


if __name__ == "__main__":
    main()
