#!/usr/bin/env python3
"""C12 — mailbox deliveries are complete or absent: maildir atomic, mbox rolled back (qmail-local under qsim)."""
import os, sys
sys.path.insert(0, os.path.join(os.path.dirname(os.path.abspath(__file__)), "..", "tools"))
from nqlib import run_standard, VERIF, kv

RULE = ("the real qmail-local main() (ASan+UBSan build of the working tree; fork() of maildir() redirected so that maildir_child() runs inline as a second "
        "simulated process) runs under qsim (in-memory POSIX subset, DESIGN.md 1.4). Maildir: 14 message shapes (empty, no final newline, From_/>From_ lines, "
        "NUL and 8-bit bytes, message and file sizes 1023..1025 and 2048 around the 1024-byte buffers) x 7 name-collision set-ups (tmp/ or new/ name taken, all "
        "three tries taken, maildir missing) x 13 envelope senders (blanks, tabs, newlines, quotes) x 5 host names (64 and 71 bytes); every call index of parent "
        "and child x {EIO, ENOSPC, short write, EINTR, clock jump = the 24 h alarm fires} on three base cases; each run is repeated with a world crash before "
        "EVERY call x 5 crash resolutions (keep, lose un-fsynced data, empty, garbage, half) and the concrete new/ and tmp/ directories are judged. Mbox: every "
        "message of up to %s lines from a 12-line From_/>From_/>>From_/near-miss pool x 7 unterminated tails x 7 old-file shapes x senders x dates; entry sizes "
        "around 1024/2048/3072; every call index x the same fault kinds, plus lock failure followed by a write failure; 2 and 3 concurrent deliveries as threads "
        "with every schedule of open/flock/write/fsync/ftruncate/close enumerated depth-first (capped at %s per configuration) plus seeded random schedules, "
        "with and without a failing write; several maildir deliveries into ONE maildir (kind mm, 2-3 deliveries): restarts with the same / another pid 0..3 s later with and "
        "without a mail reader having emptied new/, stale tmp/ and new/ names, and a second delivery running completely between two calls of the first child (every call "
        "index; two live children, same second, different pids), plus a failing call / alarm / kill in the second one - replayed through MdSys.step (O_EXCL, link exclusivity, "
        "pid uniqueness, clock, sleep), final new/ tmp/ compared with the model's, oracle: every delivery that reported success has its complete message in new/ (or cur/) "
        "exactly once, nothing else appeared, old files untouched, no name linked twice while it was there; every maildir crash state also reports whether a link() had "
        "returned 0 before the crash, and the message must be in new/ exactly then; %s seeded random single deliveries (fault at any call of the run). Buffer boundaries, mbox AND maildir: the message length is "
        "chosen so that the OUTPUT of the delivery (appended entry / maildir file; lead-in, >-quoting and last-line completion measured on a fault-free run of the "
        "implementation, not computed) is exactly k*1024+d bytes, k = 1..%s, d = -3..3, three message styles (text, From_/>From_ lines + unterminated last line, NUL/8-bit), "
        "and likewise MESSAGE length k*1024+d, d = -1..1; each with a failing call at EVERY call index of the delivery (open_append..close / the whole maildir child) x "
        "{ENOSPC, short write, EINTR%s} plus short write followed by ENOSPC on the retry; and without assuming where the boundaries are: filler length over the full residue "
        "range 0..1030 (%s) with ENOSPC%s and short write + ENOSPC at every write/fsync/close/link. corpus/C12.txt (first): entry = 1024(+1) and 2048(+1) bytes with the "
        "flush forced by the final one-byte put failing, maildir file = 1024 bytes. gfrom(): every string over {>,F,r,o,m,space,LF,f} up to length %s; myctime(): "
        "about 4000 instants incl. leap days, century years, 2^31. The results of the program's own lseek calls (seek_end, pos = seek_cur) are traced and fed to the "
        "model, which requires them to be the current file length and to come after the lock. Every trace is replayed through the Lean acceptors Md.accept / Mb.sysStep (first rejected "
        "event = disagreement); the oracle is the maildir predicate on the concrete crash states and the mbox(5) reader mboxRead on the concrete final file. "
        "non-trivial = distinct case")


def builder(s):
    objs, extra = [], ""
    for inst in ("qa", "qb", "qc"):
        o, extra = s.prog_object(inst, "qmail-local.c", "qmail-local", defines="-include %s/harness/c12_fork.h" % VERIF)
        objs.append(o)
    return s.cc(os.path.join(VERIF, "harness/c12_local.c"), os.path.join(s.dir, "h_c12"),
                extra="%s/harness/sim.c %s gfrom.o myctime.o datetime.a fs.a str.a %s -lpthread -ldl" % (VERIF, " ".join(objs), extra))


FERRS = (5, 28, -1, 4, -3)


def mutate(dis, seed):
    """neighbourhood of disagreeing cases: the same delivery with every single fault position, and for concurrent cases every
    schedule sharing a prefix with the disagreeing one"""
    cases = set()
    for d in dis[:12]:
        f = kv(d)
        k = f.get("kind")
        if k == "gf":
            h = f.get("in", "-")
            for pre in ("", "3e", "3e3e", "0a"):
                for suf in ("", "0a", "20", "2078"):
                    cases.add("gf %s" % ((pre + ("" if h == "-" else h) + suf) or "-"))
        elif k == "ct":
            t = int(f.get("time", "0"))
            for dt in (-86400, -1, 0, 1, 86400, 31536000):
                if t + dt >= 0:
                    cases.add("ct %d" % (t + dt))
        elif k == "md":
            base = "md %s %s %s %s %s %s" % (f.get("in", f.get("msg", "-")), f.get("sender", "-"), f.get("local", "-"), f.get("host", "-"), f.get("hn", "-"), f.get("time", "1000000000"))
            for col in (f.get("collide", "0"), "0", "1", "2"):
                cases.add("%s %s -" % (base, col))
                for pr in (0, 1):
                    for fc in range(1, 20):
                        for fe in FERRS:
                            cases.add("%s %s %d:%d:%d" % (base, col, pr, fc, fe))
                        cases.add("%s %s %d:%d:-1,%d:%d:28" % (base, col, pr, fc, pr, fc + 1))
        elif k == "mm":
            n = int(f.get("n", "1"))
            f.setdefault("msg0", f.get("in", "-"))
            head = "%s %s %%s %s %s %s" % (n, f.get("time", "1000000000"), f.get("hn", "-"), f.get("local", "-"), f.get("host", "-"))
            for col in (f.get("collide", "0"), "0", "1", "2"):
                for flt in (f.get("faults", "-"), "-"):
                    for dt in ("0", "1", "2"):
                        for mua in ("0", "1"):
                            for at in ("0", "3", "8"):
                                tail = []
                                for i in range(n):
                                    pid = f.get("pid%d" % i, "4001")
                                    a = at if i == 1 and pid != f.get("pid0", "4001") else "0"
                                    tail.append("%s %s %s %s %s %s" % (f.get("msg%d" % i, "-"), f.get("sender%d" % i, "-"), pid, a, dt if i else "0", mua if i else "0"))
                                cases.add("mm " + (head % col) + " " + flt + " " + " ".join(tail))
        elif k in ("mb", "mc"):
            n = int(f.get("n", "1"))
            box = f.get("box", "-")
            t = f.get("time", "1000000000")
            if n == 1:
                base = "mb %s %s %s %s %s" % (f.get("in", f.get("msg0", "-")), f.get("sender0", "-"), f.get("local", "-"), f.get("host", "-"), t)
                for bx in (box, "-", "absent"):
                    cases.add("%s %s -" % (base, bx))
                    for fc in range(1, 26):
                        for fe in FERRS:
                            cases.add("%s %s 0:%d:%d" % (base, bx, fc, fe))
                        cases.add("%s %s 0:%d:-1,0:%d:28" % (base, bx, fc, fc + 1))
            else:
                f.setdefault("msg0", f.get("in", "-"))
                tail = " ".join("%s %s" % (f.get("msg%d" % i, "-"), f.get("sender%d" % i, "-")) for i in range(n))
                sc = f.get("sched", "-")
                ch = [] if sc == "-" else sc.split(",")
                for i in range(len(ch) + 1):
                    for alt in ("0", "1", "2"):
                        cases.add("mc %d %s %s %s %s %s" % (n, ",".join(ch[:i] + [alt]), t, box, f.get("faults", "-"), tail))
                # and each message alone
                for i in range(n):
                    cases.add("mb %s %s %s %s %s %s -" % (f.get("msg%d" % i, "-"), f.get("sender%d" % i, "-"), f.get("local", "-"), f.get("host", "-"), t, box))
    return sorted(cases)


run_standard("C12", "Nq.Props.C12", "drv_c12", "harness/c12_local.c", None, [],
             "2 300", "3 6000",
             {"quick": RULE % (2, 250, 300, 4, "", "mbox: all; maildir: one third per seed, seeds 1-3 cover it", "", 6),
              "thorough": RULE % (3, 4000, 6000, 6, ", EIO, alarm", "three bases, all", " / short write", 7)},
             "Md.accept / MdSys.step / Mb.sysStep / gfrom / myctime / ufline, rpline, dtline (Nq/LocalDeliver.lean, Nq/Local.lean) vs the system-call traces and "
             "outputs of qmail-local.c maildir(), maildir_child(), mailfile(), main(), gfrom.c, myctime.c",
             builder=builder, mutate=mutate,
             assumptions=["OS semantics of DESIGN.md 1.4 as implemented by harness/sim.c: link/unlink/open(O_EXCL) atomic and synchronous, link fails if the target "
                          "exists; data written since the last fsync of a file may be lost or arbitrary after a machine crash; fsync makes it durable; "
                          "O_APPEND writes go to the current end of the file; flock is a mutex on the file, dropped by close and by process exit",
                          "files present in new/ before the delivery staying untouched is judged by the oracle on the concrete crash states (not a theorem); "
                          "maildir names: fork() gives a child a process id that no other live child has (guard of MdSys.step, hypothesis of C12_mdsys_concurrent_names); "
                          "with it concurrent deliveries have different names; a restart can meet its own name only with the same pid in the same second, and then open_excl / "
                          "link refuse it (C12_mdsys_link_exclusive) unless a mail reader has moved the first message away (C12_mdsys_restart_names); exercised by the mm cases",
                          "if lock_ex() itself fails the program proceeds unlocked (flaglocked = 0) and then neither serialisation nor roll-back holds; the result of "
                          "ftruncate is ignored by the code, so a failing ftruncate leaves the partial entry: both are excluded by the hypothesis Benign of "
                          "C12_mbox_serial / _final / _rollback / _append, exercised by the harness (lock failure + write failure) and counted "
                          "in input_distribution.outside_hypotheses_lock_or_truncate_failed, not hidden",
                          "one delivery instruction per run (aliasempty = ./Maildir/ or ./Mailbox); the .qmail interpretation around it is C13",
                          "mbox deliveries are not crash-atomic (maildir(5) says so); C12 claims roll-back on write errors only"])
