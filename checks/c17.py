#!/usr/bin/env python3
"""C17 — address quoting and parsing agree; header recipients become the envelope."""
import json, os, random, re, sys, time
sys.path.insert(0, os.path.join(os.path.dirname(os.path.abspath(__file__)), "..", "tools"))
import nqlib
from nqlib import Check, VERIF, NCPU, run_pipeline, parse_driver_output, standard_verdict, driver_path, shortest, kv

RULE = ("H1 (real quote.c, token822.c, qmail-remote.c addrmangle, commands.c, qmail-smtpd.c addrparse; ASan+UBSan build of the working tree): "
        "every local part over the 17-byte alphabet {a . @ \" \\ SP CR TAB ( ) < > [ ] : ; 0x80} up to length %(q)d (all 8 domains up to length %(q)d-2, "
        "one at the two top lengths), quoted by quote2/addrmangle and parsed back by token822_parse+unquote and by commands()+addrparse(); every string over the "
        "15-byte token alphabet {a SP , < > ( ) \" \\ : ; @ . [ ]} up to length %(p)d as a field body through token822_parse/unquote/unparse(80 and 3..7)/"
        "re-parse/addrlist/addrlist-without-comment-tokens, every fourth one (and every generated list) also RE-RENDERED from the tokens the real parser "
        "returned (random white space/folds, quoted-pairs, nested comment parentheses; described piece by piece so that the driver rebuilds the text with "
        "the theorem's `render`) and parsed again by the real token822_parse; seeded random long local parts (to 920 bytes, all bytes but NUL/LF), address lists from the RFC 822 grammar generator "
        "(expected mailboxes known by construction), token soup. H2 (real qmail-inject.c main with headerbody.c, hfield.c, newfield.c and a stand-in queue): "
        "448 systematic flag/strategy/resent/args combinations, %(s)d messages with generated headers (To/Cc/Bcc/Apparently-To/Resent-*/sender fields/"
        "Return-Path, groups, routes, comments, quoted strings, literals, folding, missing commas) x random -a/-h/-H/-n/-f and QMAILINJECT letters and "
        "default host/domain/plus configurations, %(m)d malformed messages; each produced message is injected a second time with -h; the real headerbody() "
        "(headerbody.c + getln.c, stdin in 37-byte chunks) called directly with recording callbacks on every sequence of at most %(b)d of the pieces "
        "{LF, SP, TAB, a, :, b, 'From '}, on %(m)d random line-pool messages (field starts, continuations, From lines, empty lines, junk, NUL/8-bit bytes, "
        "missing final LF, lines longer than the buffer), on the stdin of every H2 case, and on %(m)d messages built by construction from well-formed field "
        "texts (valid names incl. every printable byte, continuation lines, 8-bit bytes) followed by nothing or an empty line and arbitrary bytes. Every case also runs "
        "through the compiled Lean model (quote2/parse/unquote/unparse/addrlist/addrmangle/addrparse/inject). Oracles on the implementation's own output: "
        "unquote(parse(quote2 a))=a with shape word(.word)*@domain and token822_addrlist on these tokens makes exactly ONE callback with the whole address; "
        "addrparse(commands(MAIL FROM:<addrmangle a>))=a and the same for RCPT TO:<...> (or refused beyond 899 bytes, or "
        "localiphost for a local IP literal); parse(unparse ts)=ts; parse(render cts)=tokens of cts for every legal description (C17_parse_render); "
        "addrlist(ts) and addrlist(ts without comment tokens) return the same value and make the same callbacks (C17_comments_ignored); "
        "addrlist callbacks = listed mailboxes; on a generated grammatical header qmail-inject must exit 0 (Irejected); envelope recipients = listed mailboxes after the "
        "documented rewriting per strategy; no Bcc/Resent-Bcc/Return-Path/Content-Length in the output; second injection yields the same visible recipients; "
        "headerbody()'s fields and body pieces are those of the declarative description Spec.HeaderBody (C17_headerbody_spec), reassemble the input "
        "(reassembles), every field is hfield_valid and one logical line (C17_headerbody_laws), hdone is called once between fields and body; a message built from well-formed field texts is split into exactly these "
        "texts (C17_headerbody_wellformed). "
        "non-trivial = distinct case whose local part needs quoting (Q), whose string is longer than 3 bytes (P), whose rendering has more than 3 tokens (R), or that carries generated mailboxes (I)")

SMTPD_EXCLUDE = ["ipme.o"]
Q_EXTRA = ("timeoutconn.o tcpto.o dns.o quote.o token822.o ndelay.a lock.a stralloc.a substdio.a error.a str.a fs.a open.a `cat dns.lib`")
I_EXCLUDE = ["newfield.o", "control.o", "qmail.o"]

def case_line(f):
    """the stdin case that reproduces a DISAGREE/ORACLE line (kv dict)"""
    k = f.get("kind", "")
    if k.startswith("Q"):
        return "Q %s %s" % (f["in"], f["dom"])
    if k.startswith("P"):
        return "P %s %s %s" % (f.get("n", "80"), f["in"], f.get("E", "X"))
    if k.startswith("R"):
        return "R %s %s" % (f["desc"], f["text"])
    if k.startswith("W"):
        return "W %s %s" % (f["texts"], f["tail"])
    if k.startswith("B"):
        return "B %s" % f["in"]
    if k.startswith("I") and k != "I2":
        return "I %s %s %s %s %s %s %s" % (f["flags"], f["strat"], f["f"], f["args"], f["env"], f["in"], f.get("E", "X"))
    return None


def replay_file(path, tmpdir):
    """--replay accepts a file of stdin cases or a replays/C17-*.json written by a VIOLATION"""
    try:
        d = json.load(open(path))
    except ValueError:
        return path
    lines = []
    fc = d.get("failing_case")
    if isinstance(fc, dict):
        try:
            l = case_line(fc)
            if l:
                lines.append(l)
        except KeyError:
            pass
    for b in d.get("broken", []):
        for dis in b.get("first_disagreements", []):
            try:
                l = case_line(kv(dis))
                if l:
                    lines.append(l)
            except KeyError:
                pass
    out = os.path.join(tmpdir, "replay_cases.txt")
    open(out, "w").write("\n".join(lines) + "\n")
    return out


def mutate_hex(hx, rnd, alphabet):
    b = bytearray.fromhex("" if hx == "-" else hx)
    for _ in range(rnd.randint(1, 3)):
        op, pos, ch = rnd.randint(0, 2), rnd.randint(0, len(b)), rnd.choice(alphabet)
        if op == 0:
            b.insert(pos, ch)
        elif op == 1 and b:
            del b[min(pos, len(b) - 1)]
        elif b:
            b[min(pos, len(b) - 1)] = ch
    return bytes(b).hex() or "-"


def stdin_cases(disagree, seed, per=300):
    """stdin cases around the disagreeing inputs (for both harnesses; each ignores the other's lines)"""
    rnd = random.Random(seed)
    alpha = b"a.@\"\\ \r\t()<>[]:;,+\x80"
    cases = set()
    for d in disagree[:40]:
        f = kv(d)
        k = f.get("kind")
        try:
            if k == "Q":
                cases.add("Q %s %s" % (f["in"], f["dom"]))
                for _ in range(per):
                    cases.add("Q %s %s" % (mutate_hex(f["in"], rnd, alpha), f["dom"]))
                    cases.add("Q %s %s" % (f["in"], mutate_hex(f["dom"], rnd, b"a.[]127")))
            elif k in ("R", "Rtext"):
                cases.add("R %s %s" % (f["desc"], f["text"]))
            elif k == "P":
                for n in ("80", "5", f.get("n", "80")):
                    cases.add("P %s %s" % (n, f["in"]))
                for _ in range(per):
                    cases.add("P %s %s" % (f.get("n", "80"), mutate_hex(f["in"], rnd, alpha)))
            elif k == "W":
                cases.add("W %s %s" % (f["texts"], f["tail"]))
                cases.add("B %s" % f["in"])
                for _ in range(per):
                    cases.add("B %s" % mutate_hex(f["in"], rnd, b"\n \t:aFrom"))
            elif k == "B":
                cases.add("B %s" % f["in"])
                for _ in range(per):
                    cases.add("B %s" % mutate_hex(f["in"], rnd, b"\n \t:aFrom"))
            elif k == "I":
                base = "I %s %s %s %s %s" % (f["flags"], f["strat"], f["f"], f["args"], f["env"])
                cases.add("%s %s X" % (base, f["in"]))
                for _ in range(per // 3):
                    cases.add("%s %s X" % (base, mutate_hex(f["in"], rnd, alpha + b"\nTo:Bc")))
        except (KeyError, ValueError):
            continue
    return sorted(cases)


def main():
    c = Check("C17")
    ok = c.proofs("Nq.Props.C17", drivers=["drv_c17"])
    s = c.build_repo()
    quick = c.tier == "quick"
    par = {"q": 5 if quick else 6, "p": 5 if quick else 6, "s": 40000 if quick else 300000, "m": 20000 if quick else 150000,
           "b": 6 if quick else 7}
    nrandq = 60000 if quick else 800000
    stats, samples, disagree, oracle, errors = {}, [], [], [], []
    hq = hi = None
    drv = driver_path("drv_c17")
    if s.ok and c.driver_ok:
        try:
            hq = s.cc(os.path.join(VERIF, "harness/c17_quote.c"), os.path.join(s.dir, "h_c17q"), link_like="qmail-smtpd",
                      objs_exclude=SMTPD_EXCLUDE, extra=Q_EXTRA)
            hi = s.cc(os.path.join(VERIF, "harness/c17_inject.c"), os.path.join(s.dir, "h_c17i"), link_like="qmail-inject",
                      objs_exclude=I_EXCLUDE)
            cmds = []
            corpus = os.path.join(VERIF, "corpus", "C17.txt")
            if c.replay:
                rp = replay_file(c.replay, s.dir)
                cmds += ["%s - < %s" % (hq, rp), "%s - < %s" % (hi, rp)]
            else:
                if os.path.exists(corpus):
                    cmds += ["%s - < %s" % (hq, corpus), "%s - < %s" % (hi, corpus)]
                for i in range(NCPU):
                    cmds.append("%s %d %d %d %d %d %d" % (hq, par["q"], par["p"], nrandq, c.seed, i, NCPU))
                for i in range(NCPU):
                    cmds.append("%s %d %d %d %d %d %d" % (hi, par["s"], par["m"], c.seed, i, NCPU, par["b"]))
            outs = run_pipeline(cmds, drv)
            stats, samples, disagree, oracle, errors = parse_driver_output(outs)
        except Exception as ex:
            errors.append(str(ex))
    else:
        errors.append("build failed: " + "\n".join(c.notes)[-3000:])

    def neighbourhood(dis):
        """focused search: mutations of the disagreeing inputs, then a larger seeded run of both harnesses"""
        found = []
        cases = stdin_cases(dis, c.seed)
        cmds2 = []
        if cases:
            tf = os.path.join(s.dir, "nb.txt")
            open(tf, "w").write("\n".join(cases) + "\n")
            cmds2 += ["%s - < %s" % (hq, tf), "%s - < %s" % (hi, tf)]
        for i in range(NCPU // 2):
            cmds2.append("%s %d %d %d %d %d %d" % (hq, 4, 4, 400000, c.seed + 7919, i, NCPU // 2))
            cmds2.append("%s %d %d %d %d %d" % (hi, 120000, 60000, c.seed + 7919, i, NCPU // 2))
        o2 = run_pipeline(cmds2, drv)
        st2, _, _, or2, _ = parse_driver_output(o2)
        c.cov["search_cases"] = int(st2.get("cases", 0))
        return shortest(or2) if or2 else None

    # floors (audit repair): a run that JUDGED too few cases with its oracles must say so as an error, whatever the
    # number of cases it merely executed (skipped-because-not-legal / not-exit-0 / -n cases do not count)
    FLOORS = {"Q_header_checked": 500000, "Q_smtp": 500000, "P_reparse_checked": 100000, "P_nocomment_checked": 150000,
              "P_grammar_checked": 10000, "R_legal_checked": 30000, "I_envelope_checked": 20000, "I_hidden_checked": 30000,
              "B_checked": 150000, "B_mbox_line": 5000, "B_continuation": 5000, "B_inserted_blank_line": 5000,
              "B_ended_by_stray_continuation": 1000, "B_unterminated_last_line": 5000, "B_no_body": 5000,
              "W_wellformed_checked": 10000, "W_with_continuation": 3000, "I_hidden_theorem_applies": 20000}
    if stats and not c.replay and hq and hi:
        for k, floor in sorted(FLOORS.items()):
            if int(stats.get(k, 0)) < floor:
                errors.append("oracle floor not reached: %s = %d < %d (the oracle judged too few cases)" % (k, int(stats.get(k, 0)), floor))
        rl, rs = int(stats.get("R_legal_checked", 0)), int(stats.get("R_not_legal_skipped", 0))
        if rl + rs and rl < 0.6 * (rl + rs):
            errors.append("oracle floor not reached: only %d of %d re-renderings were legal descriptions" % (rl, rl + rs))
        c.cov["oracle_floors"] = FLOORS

    c.cov["evaluations"] = int(stats.get("cases", 0))
    c.cov["distinct_nontrivial"] = int(stats.get("distinct_nontrivial", 0))
    c.cov["traces_validated_against_impl"] = max(0, int(stats.get("cases", 0)) - int(stats.get("disagree", 0)))
    c.cov["rule"] = RULE % par
    c.cov["exhaustive"] = False
    c.cov["samples"] = samples[:8] or ["(no sample emitted)"]
    c.cov["input_distribution"] = {k: v for k, v in stats.items() if k not in ("cases", "distinct_nontrivial", "disagree", "oracle_fail")}
    c.assumptions += [
        "C strings contain no NUL (the property excludes NUL); the harness never passes one to the char* interfaces",
        "qmail-queue is replaced by a stand-in that records envelope and message and accepts (qmail.c's own discipline is C07)",
        "control files and the environment are supplied by the harness (control.o replaced); QMAILMFTFILE / Mail-Followup-To is not exercised",
        "time() and getpid() are fixed so that generated Date/Message-ID fields are reproducible",
        "ipme_is() is replaced by {127.0.0.1, 0.0.0.0}; control/localiphost = lip.example",
        "substdio buffering is transparent (stdin is served in 37-byte chunks)",
    ]
    if not (hq and hi) and not errors:
        errors.append("harness not built")
    # proof / translator / correspondence broken but no failing input yet: run the focused search now
    if (not ok or disagree or errors) and not oracle and hq and hi:
        try:
            found = neighbourhood(disagree)
            if found:
                oracle = [found]
        except Exception as ex:
            errors.append("focused search failed: %s" % ex)
    standard_verdict(c, ok, stats, disagree, oracle, errors,
                     "quote2/parse/unquote/unparse/addrlist/addrmangle/addrparse/inject (Nq/Quote.lean, Token822.lean, SmtpAddr.lean, Inject.lean) "
                     "vs quote.c, token822.c, qmail-remote.c, commands.c, qmail-smtpd.c, qmail-inject.c, headerbody.c, hfield.c",
                     None,
                     replay_hint="./check C17 --replay <this file>  (or a file of stdin cases: 'Q <local hex> <domain hex>' | 'P <linelen> <hex> [E]' | 'R <desc> <text hex>' | 'B <stdin hex>' | 'I …' as printed by harness/c17_inject.c)")
    c.finish()


if __name__ == "__main__":
    main()
