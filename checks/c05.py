#!/usr/bin/env python3
"""C05 — inbound SMTP DATA is decoded transparently and framed only by CRLF.CRLF."""
import os, sys
sys.path.insert(0, os.path.join(os.path.dirname(os.path.abspath(__file__)), "..", "tools"))
from nqlib import run_standard

RULE = ("every byte string over {CR,LF,'.','x'} up to length %s (exhaustive; read chunkings full/1/2), each also followed by "
        "CRLF.CRLF and a next command; every header of up to 4 lines from an 11-line Received/Delivered-To near-miss set; seeded random "
        "streams up to 64 KiB; run through the real qmail-smtpd.c blast() (ASan+UBSan build of the working tree) and the Lean model "
        "dblast/hopsOf; compared on verdict, stored bytes, bytes consumed and hop count; the oracle is the line-based reference decoder "
        "rfcDecode evaluated on the implementation's behaviour; non-trivial = distinct input containing CR or LF")

run_standard("C05", "Nq.Props.C05", "drv_c05", "harness/c05_blast.c", "qmail-smtpd",
             ["qmail.o", "timeoutread.o", "timeoutwrite.o"],
             "9 4000", "12 60000", {"quick": RULE % 9, "thorough": RULE % 12},
             "dblast/hopsOf (Nq/SmtpIn.lean) vs qmail-smtpd.c blast()", alphabet=b"\r\n.x",
             stdin_prefixes=("0", "1", "2"),
             assumptions=["substdio_get delivers the stream bytes in order regardless of read sizes (several chunkings are run)",
                          "qmail_put is replaced by a capture of the bytes it is given (qmail.c's own discipline is C07)"])
