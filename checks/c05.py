#!/usr/bin/env python3
"""C05 — inbound SMTP DATA is decoded transparently and framed only by CRLF.CRLF."""
import os, sys
sys.path.insert(0, os.path.join(os.path.dirname(os.path.abspath(__file__)), "..", "tools"))
from nqlib import run_standard, VERIF, byte_mutations, kv

RULE = ("TRANSLATED SOURCE: the body of blast() is extracted from the clang-14 AST of the working tree's qmail-smtpd.c into Nq/Gen/SmtpdBlast.lean "
        "(a Nq.CMini.Stmt) on this run, and the kernel re-checked C05_source_step/_spec/_hops against it (exhaustive evaluation over 40960 + 1280 "
        "(state, byte) cases + independence lemma); CORRESPONDENCE: every byte string over {CR,LF,'.','x'} up to length %s (exhaustive; read chunkings full/1/2), each also followed by "
        "CRLF.CRLF and a next command; every header of up to 4 lines from an 11-line Received/Delivered-To near-miss set; seeded random "
        "streams up to 64 KiB; for strings up to length %s followed by the terminator a read() failing with EIO/EAGAIN/EINTR/ECONNRESET after j one-byte reads for every j "
        "(a program that keeps reading after a failed read is cut off: verdict H); "
        "run through the real qmail-smtpd.c blast() over the program's OWN ssin as its static initialiser sets it up (saferead, descriptor 0, "
        "ssinbuf and its size; the program is built as an object of its own whose data sections are restored to the load-time image before every "
        "case; ASan+UBSan build of the working tree) and the Lean model "
        "dblast/hopsOf; compared on verdict, stored bytes, bytes consumed and hop count; the oracle is the line-based reference decoder "
        "rfcDecode and the line-based hop count HopCount.hopSpec (theorem C05_hops) evaluated on the implementation's behaviour; "
        "chunking (theorems C05_chunking*): streams of 1-8 KiB each delivered under read plans 1/2/1023/1024/1025/full/mixed/random short reads/"
        "bytes already buffered/a failing read, and every framing string up to length %s placed at every offset across the 1024-byte buffer refill; "
        "the composed Lean model sblast (substdio_get(1) over Nq.Substdio with the plan as read script) is compared with the implementation on "
        "verdict, stored bytes, consumed count, final ssin.p/ssin.n and the number of read() calls; the chunk-independence oracle requires every "
        "split of a stream to give the same verdict/stored bytes/consumed count; a death under a plan with a failing read is accepted only if the "
        "reference decoder has no verdict on the bytes delivered so far and the process stopped at the failing call; non-trivial = distinct input containing CR or LF")

PREFIXES = ("0", "1", "2", "1023", "1023,1")


def mutate(dis, seed):
    """failing-input search around disagreeing cases: shortest inputs first, each mutated under ITS OWN plan as well as the
    standard ones; the volume is bounded (long inputs get fewer mutations) so that the single-process search stays in seconds"""
    ds = sorted(dis, key=lambda d: len(kv(d).get("in", "")))[:50]
    cases, vol = set(), 0
    for d in ds:
        f = kv(d)
        plans = tuple(dict.fromkeys((f.get("chunk", "0"),) + PREFIXES))
        per = max(4, min(400, 6000000 // (50 * max(1, len(f.get("in", "-"))) * len(plans))))
        new = byte_mutations([d], seed, b"\r\n.x", per=per, prefix_variants=plans)
        cases.update(new)
        vol += sum(len(c) for c in new)
        if vol > 4000000:
            break
    return sorted(cases)


def builder(s):
    """qmail-smtpd as a program object of its own (its writable data in sections the harness restores before every case:
    every case starts from the program's own static initialisers - ssin / saferead / ssinbuf and its size, every static);
    _exit / read interposed at link level; qmail.o, timeoutread.o, timeoutwrite.o replaced by the harness"""
    obj, extra = s.prog_object("qs", "qmail-smtpd.c", "qmail-smtpd", keep_globals=["blast", "ssin", "substdio_get"],
                               objs_exclude=["qmail.o", "timeoutread.o", "timeoutwrite.o"])
    return s.cc(os.path.join(VERIF, "harness/c05_blast.c"), os.path.join(s.dir, "h_c05"),
                extra="%s %s -Wl,--wrap=read -Wl,--wrap=_exit" % (obj, extra))


run_standard("C05", "Nq.Props.C05", "drv_c05", "harness/c05_blast.c", "qmail-smtpd",
             ["qmail.o", "timeoutread.o", "timeoutwrite.o"],
             "9 4000", "12 60000", {"quick": RULE % (9, 5, 5), "thorough": RULE % (12, 8, 8)},
             "dblast/hopsOf (Nq/SmtpIn.lean) and sblast over Nq.Substdio (Nq/SmtpIO.lean) vs qmail-smtpd.c blast() over substdi.c", alphabet=b"\r\n.x",
             builder=builder, mutate=mutate, stdin_prefixes=PREFIXES,
             assumptions=["for the translated-source theorems: clang-14's AST, tools/cmini.py (one Nq.CMini constructor per AST node kind, anything else refused), Nq.CMini.run "
                          "as the meaning of the fragment (naturals; the byte only in ==/!= tests against ASCII constants), put() = one byte to qmail_put and "
                          "straynewline() = no return (both checked textually by the extractor)",
                          "the value-level substdio model (Nq/Substdio.lean: the buffer is the list of unread bytes, not the array x) is tied to "
                          "substdi.c by running the real substdio under the read plans and comparing ssin.p/ssin.n/read() counts (and by C20's harness); "
                          "read() returns 0 only at the end of the stream",
                          "qmail_put is replaced by a capture of the bytes it is given (qmail.c's own discipline is C07)"])
