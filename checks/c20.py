#!/usr/bin/env python3
"""C20 — no input can corrupt memory in any program of the suite.   (proof, PARTIAL — see notes/C20.md)

Twelve harness binaries (eight sources) feed one compiled Lean driver (drv_c20):
  harness/c20_lib.c    gen_allocdefs.h / stralloc_*.c / quote.c doit() / substdo.c / substdi.c   vs Nq.Stralloc, Nq.Substdio
  harness/c20_dns.c    dns.c resolve/findname/findip/findmx/dns_ip/dns_mxip/dns_ptr (interposed resolver, poisoned
                       buffer tail)                                                              vs Nq.Dns
  harness/c20_parse.c  token822 / cdb_seek / control+constmap / ip_scan / headerbody+hfield / getln / scan   (sanitised
                       in-process execution; cdb_seek also vs Nq.Users.cdbSeek; token822_parse's two passes vs Nq.TokPass,
                       token822_unparse/unquote's two walks vs Nq.TokFill (kinds tok, utok); getln2 call by call vs Nq.Getln (kind gl2))
  harness/c20_local.c  the real qmail-local main() in-process: counting pass (calloc argument) vs filling pass (qmail_to
                       calls, count_forward) over .qmail contents                                                    vs Nq.LocalPass
  harness/c20_fixed.c  qmail-qmqpd getbuf(), qmail-qmtpd main() sender/recipient, qmail-getpw userext(), qmail.c qmail_errstr(),
                       quote.c quote_need(): which bytes of the fixed buffers are stored to / read                vs Nq.FixedBuf
  harness/c20_report.c report() of qmail-rspawn.c / qmail-lspawn.c on exact-size child output           vs Nq.Spawn.reportBody
  harness/c20_ctl.c    HISTORIES of control-file edits / faults / SIGHUP re-reads / routed recipients through the real
                       getcontrols(), reread()+regetcontrols(), rewrite(), stripvdomprepend() of qmail-send.c (control.c,
                       constmap.c): use after free / stale lookup tables across re-reads
  harness/c20_prog.c   the real sanitised binaries qmail-smtpd/-qmtpd/-qmqpd/-pop3d/-popup/-inject/-local as child
                       processes on hostile streams (every truncation point, extreme declared lengths, thousands of
                       tokens, deep nesting); qmail-local both with -n and in real delivery mode over a .qmail grammar,
                       qmail-inject both with -n and really queueing through a stand-in qmail-queue
The theorems (length/index arithmetic) are in lean/Nq/Props/C20.lean."""
import os, sys, re, json, random, concurrent.futures
sys.path.insert(0, os.path.join(os.path.dirname(os.path.abspath(__file__)), "..", "tools"))
import nqlib
from nqlib import Check, VERIF, NCPU, sh, run_pipeline, parse_driver_output, standard_verdict, driver_path, kv, shortest

PROP = "C20"
PROGS = "qmail-smtpd qmail-qmtpd qmail-qmqpd qmail-pop3d qmail-popup qmail-inject qmail-local"
ARGS = {"quick": dict(level=1, nlib=16000, ndns=48000, nparse=20000, nprog=3000, nrep=20000, nctl=3000, nloc=20000),
        "thorough": dict(level=2, nlib=400000, ndns=600000, nparse=160000, nprog=24000, nrep=200000, nctl=40000, nloc=300000)}
ASAN = "detect_leaks=0:allocator_may_return_null=1"

RULE = ("(1) c20_lib: gen_alloc ready/readyplus for EVERY pair of 40 edge values of (len|a, n) in 0..2^32-1 (1, 8, 16, 24-byte elements; null and non-null "
        "records; allocator limits 0 / 1 MiB / none), append/catb/copyb from real exact-size blocks with a<=40(70), n small or near 2^31/2^32, quote.c doit() at "
        "every length threshold up to 2^32-1, every stralloc op compared on (return, len, a, bytes requested); substdio output: every sequence of <=3(4) "
        "put/bput/flush/putflush over 8 data sizes x buffer sizes 1..5 x 8 write scripts (short writes, errors); substdio input: every sequence of <=4(5) "
        "get/feed/seek over sources <=7 bytes x buffers 1..4 x 7 read scripts; %(nlib)s seeded random states/sequences (buffers around 8192). "
        "(2) c20_dns: 36 base responses (A/MX/PTR, 0..3 records, CNAME / foreign-type mixes) at EVERY truncation length >= 12 walked as every kind, every "
        "single-byte substitution from 14 values, last record with claimed RDLENGTH x bytes present x 9 name styles x total length 505..516/1000/65534/65535, lying "
        "qdcount/ancount, answer sections filling 512 and 65535 bytes, %(ndns)s random grammar-derived and mutated responses; each walked call by call through the "
        "real resolve()/find*() (dn_expand = libc's, logged) and through dns_ip/dns_mxip/dns_ptr, tail of the response buffer poisoned. "
        "(3) c20_parse: about 1.5M (13M) in-process cases: token822 over a 16-character alphabet to length 4/5, nesting to 100000, 50000 repetitions; corrupt/truncated "
        "cdb files at every truncation and every field corruption; control files / constmap with huge lines, NULs, 20000 entries; ip_scan over {0,1,9,.,[,],x}^<=7; "
        "headerbody/hfield; getln over every chunking; %(nparse)s random. For token822 the sizes of the two fresh blocks (= pass 1's numtoks/numchars), the token records "
        "and buffer bytes pass 2 really wrote, and stralloc a / final len of token822_unparse (linelen 0, 72, 1, reversed array) and token822_unquote are compared with "
        "Nq.TokPass / Nq.TokFill; every byte value 0..255 in 10 contexts; hand-made token arrays (kind utok: every sequence of <=2 of 29 token shapes x 5 line lengths, <=3 of 21(29) shapes x 3, "
        "1..40 items x line lengths 0..14, also token types outside TOKEN822_*); getln2() called directly (kind gl2) on every stream over {a,LF,NUL} to length 6 (all chunkings x buffers 1,2,3,16), line lengths 0..140 and random streams: per call "
        "return value, cont - ss.x, clen, sa.len, sa.a, ss.p, ss.n compared with Nq.Getln. "
        "(3a) c20_local: the real qmail-local main() in-process on every sequence of <=2(3) of 29 line shapes (blank, TAB, #, ., /, |, +list, &, address, leading/trailing blanks) with and without final newline and x bit, every first byte 0..255 "
        "alone / before an address in first / second position, 1..20000 lines, NUL bytes, lines around 256 bytes, %(nloc)s random contents; -n and real mode (real mode only without mbox/maildir/program lines; qmail.o replaced by counting hooks): "
        "calloc argument, qmail_to calls, count_forward and exit code compared with Nq.LocalPass. "
        "(3b) c20_report: report() of qmail-rspawn and qmail-lspawn on every child output over {r,h,s,K,Z,D,NUL,x} up to length 5(6) and %(nrep)s random outputs up to 5000 "
        "bytes in exact-size blocks, 11 wait statuses. "
        "(3c) c20_fixed: the real getbuf() for every declared length 0..1100 (and 1500..2000000009) at full / cut streams, qmail-qmtpd's main() on sender x recipient "
        "lengths around every guard for 11 RELAYCLIENT settings, userext() on every string over {a,-,B} to length 6(8) and 25..70-byte names with dashes around the "
        "32-byte buffer, qmail_errstr() with 0..300 (..60000) bytes on the error descriptor, quote_need() on 0..120(400) bytes: set of indices stored / read compared with Nq.FixedBuf. "
        "(4) c20_prog: the real sanitised binaries as child processes: every truncation point of valid SMTP/QMTP/QMQP/POP3/popup sessions, declared netstring lengths "
        "up to 2^31, 2^32, 2^64 and beyond followed by EOF, address lengths around every buffer size, thousands of recipients/tokens/commands, comment nesting to 50000, "
        "hostile .qmail files, %(nprog)s random mutations; qmail-local runs every .qmail case twice: with -n and in REAL delivery mode (message on a regular file, private home "
        "with a Maildir, '|' lines through /bin/sh with PATH=/nonexistent, forwards through a stand-in qmail-queue, uid 65534 when root; a generated file with more than 100 mbox/maildir/program lines is run with -n only), plus a .qmail grammar: every first byte "
        "0..255 x {empty, address, blanks, blank+address} x {final newline, none} as a one-line file, 24 first bytes x 4 remainders in every position of 2..6-line files "
        "among harmless lines, 1..6 lines of the same shape, long lines around the 256-byte slurp buffer; qmail-inject also without -n (really queueing). "
        "(5) c20_ctl: histories of a running qmail-send in-process (real getcontrols / reread+regetcontrols / rewrite / stripvdomprepend, control.c, constmap.c): start-up, then "
        "0..2 successful re-reads and a re-read that fails at one of 9 points (open or k-th read of locals / virtualdomains, errno EACCES/EISDIR/EIO/ELOOP), x 8(12) size "
        "sequences of the two files (growing / shrinking / equal; 1, 3, 12, 140 lines, one key x 3000, a 5000-byte comment, lines of 29..4000 bytes, no final newline, file "
        "removed -> falls back to me) x 4 continuations (none / good re-read / second failing re-read / restart), faults at every file during start-up, read chunk 0/5/7/13/64; "
        "after every step recipients matching entries of EVERY earlier and the current configuration are routed; %(nctl)s seeded random histories of 2..7 steps. Oracle: no "
        "sanitizer report (use after free of a reallocated scratch buffer), and every answer equals that of a fresh process started on the configuration in force. "
        "Compared with the Lean models (DISAGREE); the oracle is the bounds/stream predicate of the theorems evaluated on the implementation's numbers, plus: no "
        "sanitizer report, no signal, no hang, exit status in the documented set. Non-trivial = distinct case (input part of the line).")


def hx(b):
    return b.hex() or "-"


def neighbourhood_cases(dis, seed):
    """stdin cases around disagreeing inputs (DESIGN 1.5 step 4): numeric neighbours for the arithmetic kinds,
    byte mutations / truncations for DNS responses, the case itself otherwise"""
    rnd = random.Random(seed)
    cases = set()
    for d in dis[:60]:
        cs = kv(d).get("in")
        if not cs:
            continue
        f = cs.split("|")
        cases.add(" ".join(f))
        try:
            if f[0] == "A" and len(f) == 9:
                for _ in range(300):
                    g = list(f)
                    for idx in (5, 6, 8):
                        if rnd.random() < 0.5:
                            g[idx] = str(max(0, min(4294967295, int(g[idx]) + rnd.choice([-33, -9, -8, -2, -1, 1, 2, 8, 9, 31, 33]))))
                    if int(g[7]) >= 2:        # ops with stores need a real block
                        g[6] = str(min(int(g[6]), 65536)); g[3] = str(min(int(g[3]), 1 << 20))
                        if int(g[8]) > 70000 and int(g[8]) < (1 << 21):
                            g[8] = "70000"
                    g[7] = f[7] if rnd.random() < 0.7 else str(rnd.randint(0, 4 if f[1] == "1" else 2))
                    cases.add(" ".join(g))
            elif f[0] == "Q" and len(f) == 6:
                for _ in range(200):
                    g = list(f)
                    il = max(0, min(4294967295, int(g[4]) + rnd.choice([-2, -1, 0, 1, 2, 100])))
                    if 600000 < il < (1 << 21):
                        il = 600000
                    g[4] = str(il); g[5] = str(rnd.randint(0, il) if il <= 600000 else il // 2)
                    g[1] = str(min(int(g[1]), 1 << 20))
                    cases.add(" ".join(g))
            elif f[0] == "D" and len(f) == 3:
                b = bytes.fromhex("" if f[2] == "-" else f[2])
                for _ in range(400):
                    m = bytearray(b)
                    for _ in range(rnd.randint(1, 3)):
                        if not m:
                            break
                        op = rnd.randint(0, 2); pos = rnd.randrange(len(m))
                        if op == 0:
                            m[pos] = rnd.choice([0, 1, 3, 4, 12, 0x3f, 0xc0, 0xff, rnd.randrange(256)])
                        elif op == 1 and len(m) > 12:
                            del m[12 + rnd.randrange(len(m) - 12):]
                        else:
                            m.insert(pos, rnd.randrange(256))
                    if len(m) >= 12:
                        for k in "imn":
                            cases.add("D %s %s" % (k, hx(bytes(m))))
        except (ValueError, IndexError):
            continue
    return sorted(cases)


def main():
    import time
    c = Check(PROP)
    t0 = time.time()
    ok = c.proofs("Nq.Props.C20", drivers=["drv_c20"])
    t1 = time.time()
    s = c.build_repo()
    t2 = time.time()
    phase = {"proofs_s": round(t1 - t0, 1), "repo_build_s": round(t2 - t1, 1)}
    a = ARGS[c.tier]
    stats, samples, disagree, oracle, errors, outs = {}, [], [], [], [], []
    neighbourhood = None
    work = None
    if s.ok and c.driver_ok:
        try:
            work = os.path.join(s.dir, "c20work")
            qhome = os.path.join(s.dir, "c20home")
            os.makedirs(work, exist_ok=True)
            os.makedirs(os.path.join(qhome, "control"), exist_ok=True)
            os.makedirs(os.path.join(qhome, "bin"), exist_ok=True)
            os.chmod(s.dir, 0o755)

            def relink():
                # the daemons chdir(auto_qmail): point the compiled-in home at a private directory and relink them
                p = os.path.join(s.dir, "conf-qmail")
                lines = open(p).read().split("\n")
                lines[0] = qhome
                open(p, "w").write("\n".join(lines))
                rc, o = sh("make -j%d %s" % (NCPU, PROGS), cwd=s.dir)
                if rc != 0:
                    raise RuntimeError("relinking the daemons with a private qmail home failed:\n" + o[-3000:])
                rc, o = sh("cc -O1 -o %s %s" % (os.path.join(work, "c20_qq"), os.path.join(VERIF, "harness", "c20_qq.c")), cwd=s.dir)
                if rc != 0:
                    raise RuntimeError("c20_qq.c does not compile:\n" + o)
                return True

            parse_objs = ("headerbody.o newfield.o quote.o control.o date822fmt.o constmap.o qmail.o case.a fd.a wait.a open.a getln.a sig.a "
                          "getopt.a datetime.a token822.o env.a stralloc.a substdio.a error.a str.a fs.a auto_qmail.o cdb.a")
            with concurrent.futures.ThreadPoolExecutor(10) as ex:
                # the parse/dns harnesses link auto_qmail.o: compile them before conf-qmail is changed? auto_qmail.o content is irrelevant
                # to them (they never chdir there), but make rewrites the file while they link: so relink first, then compile.
                ex.submit(relink).result()
                fl = ex.submit(s.cc, os.path.join(VERIF, "harness/c20_lib.c"), os.path.join(s.dir, "h_c20_lib"))
                fd = ex.submit(s.cc, os.path.join(VERIF, "harness/c20_dns.c"), os.path.join(s.dir, "h_c20_dns"), "qmail-remote", "", "", ["dns.o"])
                fp = ex.submit(s.cc, os.path.join(VERIF, "harness/c20_parse.c"), os.path.join(s.dir, "h_c20_parse"), None, parse_objs)
                fr = ex.submit(s.cc, os.path.join(VERIF, "harness/c20_prog.c"), os.path.join(s.dir, "h_c20_prog"))
                fc = ex.submit(s.cc, os.path.join(VERIF, "harness/c20_ctl.c"), os.path.join(s.dir, "h_c20_ctl"), "qmail-send", "", "",
                               ["control.o", "constmap.o", "auto_qmail.o", "qsutil.o"])
                frr = ex.submit(s.cc, os.path.join(VERIF, "harness/c20_report.c"), os.path.join(s.dir, "h_c20_rep_r"), "qmail-rspawn", "", "-DRSPAWN", ["spawn.o"])
                frl = ex.submit(s.cc, os.path.join(VERIF, "harness/c20_report.c"), os.path.join(s.dir, "h_c20_rep_l"), "qmail-lspawn", "", "-DLSPAWN", ["spawn.o"])
                fxs = [ex.submit(s.cc, os.path.join(VERIF, "harness/c20_fixed.c"), os.path.join(s.dir, "h_c20_fx_" + n), like, "", "-DFX_" + n.upper(), excl)
                       for n, like, excl in (("qmqpd", "qmail-qmqpd", []), ("qmtpd", "qmail-qmtpd", ["qmail.o", "auto_qmail.o"]),
                                             ("getpw", "qmail-getpw", []), ("qq", "qmail-inject", ["qmail.o"]))]
                flo = ex.submit(s.cc, os.path.join(VERIF, "harness/c20_local.c"), os.path.join(s.dir, "h_c20_local"), "qmail-local", "", "", ["qmail.o"])
                hl, hd, hp, hr, hrr, hrl = fl.result(), fd.result(), fp.result(), fr.result(), frr.result(), frl.result()
                hfx = [x.result() for x in fxs]
                hc = fc.result()
                hlo = flo.result()
            drv = driver_path("drv_c20")
            phase["harness_build_s"] = round(time.time() - t2, 1)

            def group(cmds):
                # run all, fail if any failed (a crash without an X line must not go unnoticed)
                return "( rc=0; " + " ".join("%s || rc=1;" % x for x in cmds) + " exit $rc )"

            def all_on(path):
                return group(["%s - < %s" % (hl, path), "%s - < %s" % (hd, path), "%s %s - < %s" % (hp, work, path),
                              "%s - < %s" % (hrr, path), "%s - < %s" % (hrl, path), "%s %s - < %s" % (hc, work, path), "%s %s - < %s" % (hlo, work, path)] + ["%s %s - < %s" % (x, work, path) for x in hfx] + [
                              "%s %s %s %s - < %s" % (hr, s.dir, qhome, work, path)])

            def shard(i):
                return group(["%s %d %d %d %d %d" % (hl, a["level"], a["nlib"], c.seed, i, NCPU),
                              "%s %d %d %d %d %d" % (hd, a["level"], a["ndns"], c.seed, i, NCPU),
                              "%s %s %d %d %d %d %d" % (hp, work, a["level"], a["nparse"], c.seed, i, NCPU),
                              "%s %d %d %d %d %d" % (hrr, a["level"] + 4, a["nrep"], c.seed, i, NCPU),
                              "%s %d %d %d %d %d" % (hrl, a["level"] + 4, a["nrep"], c.seed, i, NCPU),
                              "%s %s %d %d %d %d %d" % (hc, work, a["level"], a["nctl"], c.seed, i, NCPU),
                              "%s %s %d %d %d %d %d" % (hlo, work, a["level"], a["nloc"], c.seed, i, NCPU)] +
                             ["%s %s %d %d %d %d" % (x, work, a["level"], c.seed, i, NCPU) for x in hfx] + [
                              "%s %s %s %s %d %d %d %d %d" % (hr, s.dir, qhome, work, a["level"], a["nprog"], c.seed, i, NCPU)])

            def to_case_file(path):
                if path.endswith(".json"):      # a replay file written by this check
                    obj = json.load(open(path))
                    cs = (obj.get("failing_case", {}) or {}).get("in", "")
                    rp = os.path.join(s.dir, "replay.txt")
                    open(rp, "w").write(cs.replace("|", " ") + "\n")
                    return rp
                return path

            cmds = []
            corpus = os.path.join(VERIF, "corpus", PROP + ".txt")
            if c.replay:
                cmds.append(all_on(to_case_file(c.replay)))
            else:
                if os.path.exists(corpus):
                    cmds.append(all_on(corpus))
                cmds += [shard(i) for i in range(NCPU)]
            env = {"ASAN_OPTIONS": ASAN}
            t3 = time.time()
            outs = run_pipeline(cmds, drv, env=env)
            phase["run_s"] = round(time.time() - t3, 1)
            stats, samples, disagree, oracle, errors = parse_driver_output(outs)
            # a harness that exits non-zero after printing its X line has been accounted for by the oracle line
            if oracle:
                errors = [e for e in errors if not e.startswith("harness exit")]

            def neighbourhood(dis):
                cases = neighbourhood_cases(dis, c.seed)
                if not cases:
                    return None
                tf = os.path.join(s.dir, "nb.txt")
                open(tf, "w").write("\n".join(cases) + "\n")
                o2 = run_pipeline([all_on(tf)], drv, env=env)
                st2, _, _, or2, _ = parse_driver_output(o2)
                c.cov["search_cases"] = st2.get("cases", 0)
                outs.extend(o2)
                return shortest(or2) if or2 else None
        except Exception as ex:
            errors.append(str(ex))
    else:
        errors.append("build failed: " + "\n".join(c.notes)[-3000:])

    # quote() at the top of its length range (1 GiB input, ~3.5 GiB, ~8 s): run in the thorough tier, and in any tier as part of
    # the failing-input search when a proof obligation is broken (e.g. the counters of quote.c are signed again: pre-26e354b).
    big_fail = None
    if s.ok and not c.replay and (c.tier == "thorough" or not ok):
        try:
            qb = s.cc(os.path.join(VERIF, "harness/c20_quote_big.c"), os.path.join(s.dir, "h_c20_quote_big"), None, "quote.o stralloc.a str.a error.a")
            rc, o = sh(qb, cwd=s.dir, env={"ASAN_OPTIONS": "detect_leaks=0:max_allocation_size_mb=8000"}, timeout=900)
            m = re.search(r"[^\n]*(runtime error:|ERROR: AddressSanitizer)[^\n]*", o)
            r = re.search(r"BIG quote (\d+) x 22 : (-?\d+) (\d+) (\d+) (\d)", o)
            good = (not m) and r and r.group(2) == "1" and int(r.group(3)) == 2 * int(r.group(1)) + 2 and int(r.group(3)) <= int(r.group(4)) and r.group(5) == "1"
            c.cov["quote_1GiB"] = "ok: " + r.group(0) if good else "FAILS: " + (m.group(0).strip() if m else o.strip()[-300:])
            c.cov["evaluations_big"] = 1
            if not good:
                big_fail = (m.group(0).strip() if m else o.strip()[-300:])
        except Exception as ex:
            c.cov["quote_1GiB"] = "not run: " + str(ex)[:300]
            errors.append("c20_quote_big: " + str(ex)[:500])

    c.cov["evaluations"] = int(stats.get("cases", 0))
    c.cov["distinct_nontrivial"] = int(stats.get("distinct_nontrivial", 0))
    c.cov["traces_validated_against_impl"] = max(0, int(stats.get("cases", 0)) - int(stats.get("disagree", 0)))
    c.cov["rule"] = RULE % a
    c.cov["exhaustive"] = False
    c.cov["phase_wall_s"] = phase
    c.cov["samples"] = [x[:1200] for x in samples[:8]] or ["(no sample emitted)"]
    c.cov["input_distribution"] = {k: v for k, v in stats.items() if k not in ("cases", "distinct_nontrivial", "disagree", "oracle_fail")}
    c.cov["explanation"] = (
        "PARTIAL proof. Proved (Nq/Props/C20.lean, all lengths, no bound): the length/index arithmetic of gen_alloc readyplus/ready/append, stralloc_catb/copyb, "
        "quote.c doit()/quote_need() (all lengths; counter types read from the source), substdio put/bput/flush/putflush/feed/get with the stream laws, the fixed buffers of qmail-qmqpd, "
        "qmail-qmtpd, qmail-getpw, qmail.c errstr, spawn.c slots/truncation, qmail-send REPORTMAX, qmail-pop3d msgno, dns.c findname/findip/findmx/resolve, and (session 4) the count-allocate-fill "
        "patterns: token822_parse pass 1 vs pass 2, token822_unparse/unquote length walk vs fill walk, qmail-local's numforward count vs recips[] stores, plus getln2/getln/byte_chr (cont/clen inside the substdio buffer, copies inside the grown line buffer). "
        "NOT proved: absence of undefined behaviour elsewhere in the compiled C (the other parsers' loops - token822_addrlist, headerbody, hfield, control, constmap, ip, scan -, pointer aliasing, signal handlers, libc/libresolv); that part "
        "is covered only by the sanitised executions counted in 'evaluations' (kinds T.*, P.*, H = control-file re-read histories of qmail-send, and the ASan/UBSan instrumentation of all kinds) and by the sanitised "
        "harnesses of C01-C19.")
    c.assumptions += [
        "token822.c keeps C int counters (salen, numtoks, numchars, len): the models count in unbounded naturals, i.e. fields / unparsed outputs below 2^31 bytes; substdio buffer sizes are below 2^32 (substdio.n is an int)",
        "c20_local runs qmail-local's main() with qmail.o (qmail_open/put/from/to/close) and strerr_die replaced by counting hooks, the .qmail file as .qmail-x in a private home, and never executes a mbox/maildir/program line in real mode (c20_prog does, with the real binary)",
        "the allocator seen by the code under test is the harness's (exact-size blocks, scripted failures): malloc(0) returns a non-null pointer as in glibc",
        "C unsigned int is 32 bits, size_t and unsigned long 64 bits (LP64); __builtin_add_overflow/__builtin_mul_overflow have their documented meaning",
        "the write/read function behind a substdio returns between 1 and len bytes or -1 (a write returning 0 loops forever by design: 'luser's fault'); substdio_get/getthis are called with len < 2^31 (getthis takes an int)",
        "res_query/res_search return -1 or a length between 12 (HFIXEDSZ) and the buffer size (glibc: shorter datagrams are discarded with EMSGSIZE); dn_expand never reports a name that extends beyond the message (checked on every call the harness logs)",
        "fmt_ulong writes at most 20 digits (64-bit unsigned long)",
        "whole programs run with control files me/rcpthosts/databytes/localiphost/badmailfrom only (no morercpthosts.cdb, no timeoutsmtpd/smtpgreeting), a stand-in qmail-queue, a three-message maildir; qmail-popup with /bin/true and /bin/false as checkpassword; qmail-remote, qmail-lspawn/rspawn, qmail-clean, qmail-queue, qmail-getpw mains are exercised by the sanitised harnesses of C01-C04/C09/C11/C14/C18, not here; of qmail-send only the control-file surface (getcontrols/regetcontrols/rewrite/stripvdomprepend, in-process, c20_ctl) is run here",
        "c20_ctl: a failing read of a control file is an open_read() or read() returning -1 with EACCES/EISDIR/EIO/ELOOP (interposed at the two call sites in control.c); out-of-memory during a re-read is not exercised (regetcontrols sleeps and retries)",
        "quote.c doit()/quote_need() use unsigned counters (26e354b; the translator checks the declarations): the 1 GiB input that overflowed the former signed counters is executed in the thorough tier and whenever an obligation is broken, not in the quick tier",
    ]

    if big_fail and not oracle:
        c.violation("property oracle fails on the implementation's output (quote() of a 2^30-byte address)",
                    {"failing_case": {"kind": "quote-big", "in": "quote(saout,sain) with sain = 1073741824 bytes 0x22 (harness/c20_quote_big.c)"},
                     "raw": big_fail, "sanitizer_report": big_fail,
                     "how_to_replay": "build harness/c20_quote_big.c against the sanitised tree (quote.o stralloc.a str.a error.a) and run it"},
                    found_input=True)
    elif oracle:
        first = shortest(oracle)
        rep = ""
        for o in outs:
            m = re.search(r"(==\d+==ERROR: [^\n]*\n(?:[^\n]*\n){0,14})|([^\n]*runtime error:[^\n]*\n(?:[^\n]*\n){0,6})", o.get("herr", ""))
            if m:
                rep = m.group(0)
                break
        if not rep and work and os.path.exists(os.path.join(work, "sanitizer.log")):
            rep = open(os.path.join(work, "sanitizer.log"), errors="replace").read()[:3000]
        c.violation("property oracle fails on the implementation's output",
                    {"failing_case": kv(first), "raw": first[:4000], "oracle_failures": len(oracle), "sanitizer_report": rep[:3000],
                     "how_to_replay": "./check C20 --replay <this file>   (or a text file of case lines: the in= value with | replaced by spaces)"},
                    found_input=True)
    else:
        standard_verdict(c, ok, stats, disagree, oracle, errors,
                         "Nq.Stralloc / Nq.Substdio / Nq.Dns / Nq.FixedBuf / Nq.Users.cdbSeek / Nq.Spawn.reportBody / Nq.TokPass / Nq.TokFill / Nq.LocalPass / Nq.Getln vs gen_allocdefs.h, stralloc_*.c, quote.c, substdo.c, substdi.c, dns.c, qmail-qmqpd.c, qmail-qmtpd.c, qmail-getpw.c, qmail.c, cdb_seek.c, qmail-[lr]spawn.c, token822.c, qmail-local.c, getln2.c, getln.c, byte_chr.c",
                         neighbourhood, replay_hint="./check C20 --replay <file of case lines: the in= value with | replaced by spaces>")
    c.finish()


if __name__ == "__main__":
    main()
