/* C08 correspondence harness: SMTP transaction sequencing and relay gating.
 *
 * Runs, in-process and unmodified: qmail-smtpd.c main() -> setup() -> commands() (commands.c) -> smtp_* handlers ->
 * addrparse/bmfcheck/addrallowed -> rcpthosts.c, constmap.c, control.c, cdb_seek.c, ip.c, ipme_is (ipme.c), and
 * qmail-newmrh.c main() (second translation unit c08_newmrh.c) to compile morercpthosts.cdb.
 * Replaced: timeoutread/timeoutwrite (scripted stream, captured replies), qmail.o (captures the envelope, scripted
 * verdict), auto_qmail (a temp dir holding real control files), time() (fixed), the interface scan of ipme_init()
 * (the list `ipme` is filled directly).
 *
 * usage: c08_session <alen> <slenA> <slenB> <nrandom> <seed> <shard> <nshards>
 *        c08_session -          cases on stdin:  "S <cfg> <chunk> <hex>"  |  "A <cfg> <hex>"
 * output:
 *   C <cfg> <me> <rcpthosts> <morercpthosts> <badmailfrom> <localiphost> <RELAYCLIENT> <ipme> <qqmode> <now> <qp>
 *        (hex; "!" = absent)  — emitted whenever the configuration changes; later lines refer to it
 *   A <cfg> <arg> <ok> <addr> <bmf> <allowed>          one addrparse() call (+ bmfcheck(), addrallowed() if ok)
 *   S <cfg> <chunk> <in> <exit> <replies> <nsub> {<from> <rcptto>}   one whole session                                  */
#include "hcommon.h"
#include <time.h>
#include <fcntl.h>
#include <errno.h>
#include <sys/stat.h>

#define H_NOW 1000000000L
#define H_QP 4242UL
static time_t h_time(time_t *t) { if (t) *t = H_NOW; return H_NOW; }
#define time(x) h_time(x)
#define _exit(x) h_exit(x)
#define main qmail_smtpd_main
#include "qmail-smtpd.c"
#undef main
#include "rcpthosts.c"
#include "ipme.c"
#undef _exit
#undef time

char auto_qmail[512];
extern int newmrh_main(void);

/* hbuf_add with n == 0 on an empty buffer would hand memcpy a null pointer */
static inline void hadd(hbuf *b, const void *s, size_t n) { if (n) hbuf_add(b, s, n); }

/* ---------------------------------------------------------------- replaced objects */
static const unsigned char *in_p; static size_t in_n, in_pos; static int in_chunk;
static hbuf replyb;

ssize_t timeoutread(int t, int fd, char *buf, size_t len) {
  size_t k = in_n - in_pos;
  if (k > len) k = len;
  if (in_chunk > 0 && k > (size_t)in_chunk) k = in_chunk;
  if (k) memcpy(buf, in_p + in_pos, k);
  in_pos += k;
  return k;
}
ssize_t timeoutwrite(int t, int fd, const void *buf, size_t len) { hadd(&replyb, buf, len); return len; }

static int qq_mode;               /* 0 queue accepts, 1 qmail_open fails, 2 permanent, 3 temporary */
static int in_env;
#define MAXSUB 64
static hbuf sub_from[MAXSUB], sub_rcpt[MAXSUB]; static int nsub;
static hbuf envf, envr;
int qmail_open(struct qmail *qq) { if (qq_mode == 1) return -1; qq->flagerr = 0; in_env = 0; return 0; }
void qmail_put(struct qmail *qq, char *s, size_t len) { if (in_env) hadd(&envr, s, len); }
void qmail_fail(struct qmail *qq) { qq->flagerr = 1; }
void qmail_from(struct qmail *qq, char *s) { hbuf_reset(&envf); hadd(&envf, s, strlen(s)); hbuf_reset(&envr); in_env = 1; }
void qmail_to(struct qmail *qq, char *s) {}
char *qmail_close(struct qmail *qq) {
  if (nsub < MAXSUB) {
    hbuf_reset(&sub_from[nsub]); hadd(&sub_from[nsub], envf.p, envf.n);
    hbuf_reset(&sub_rcpt[nsub]); hadd(&sub_rcpt[nsub], envr.p, envr.n);
    nsub++;
  }
  in_env = 0;
  return qq_mode == 2 ? "Dqq permanent problem (#5.3.0)" : qq_mode == 3 ? "Zqq temporary problem (#4.3.0)" : "";
}
unsigned long qmail_qp(struct qmail *qq) { return H_QP; }

/* ---------------------------------------------------------------- configurations */
enum { F_RH, F_MORE, F_BMF, F_LIP, F_RELAY, NF };
typedef struct { hbuf f[NF]; int has[NF]; int qq; } cfg_t;
static cfg_t cur; static int cur_id = -1;
static const char ME[] = "me.example\n";
static const unsigned char IPME[][4] = { {0,0,0,0}, {127,0,0,1}, {10,0,0,1} };
#define NIPME 3

typedef struct { const char *f[NF]; int qq; } fcfg;
#define RH1 "local.example\n.wild.example\nMiXed.Example\n# comment.example\n\nspaced.example  \t\n"
#define MORE1 "more.example\n.MoreWild.Example\n#hash.example\n  \nmspaced.example \n"
#define BMF1 "bad@spam.example\n@evil.example\nMixed@Case.Example\n#c@comment.example\n"
static const fcfg fixed[] = {
  /* 0 */ { { 0, 0, 0, 0, 0 }, 0 },
  /* 1 */ { { RH1, 0, 0, 0, 0 }, 0 },
  /* 2 */ { { RH1, MORE1, BMF1, "local.example\n", 0 }, 0 },
  /* 3 */ { { RH1, MORE1, BMF1, "local.example\n", "" }, 0 },
  /* 4 */ { { RH1, MORE1, BMF1, "local.example\n", "@relay.suffix" }, 0 },
  /* 5 */ { { "", MORE1, 0, 0, 0 }, 0 },
  /* 6 */ { { "a\n.a\na.a\n", "aa\n", "a@a\n@a.a\n", "a.a\n", 0 }, 0 },
  /* 7 */ { { RH1, MORE1, BMF1, "local.example\n", 0 }, 1 },
  /* 8 */ { { RH1, MORE1, BMF1, "local.example\n", 0 }, 2 },
  /* 9 */ { { RH1, 0, BMF1, 0, 0 }, 3 },
  /* 10 */ { { "[127.0.0.1]\nlocal.example\n", 0, 0, "notlisted.example\n", 0 }, 0 },
  /* 11 */ { { "dos.example\r\nexample\n.example.\nlocal.example", ".\nCAPS.EXAMPLE\n", "@\nbare\n", "", 0 }, 0 },
  /* 12 */ { { 0, MORE1, BMF1, "[10.0.0.1]\n", 0 }, 0 },
};
#define NFIXED ((int)(sizeof fixed / sizeof fixed[0]))

static const char *cdoms[] = { "local.example", "wild.example", ".wild.example", "Mixed.Example", "more.example", ".morewild.example",
  "remote.example", "example", ".example", "a", ".a", "a.a", "[127.0.0.1]", "spam.example", "LOCAL.EXAMPLE", "." };
#define NCDOMS ((int)(sizeof cdoms / sizeof cdoms[0]))

static void sets(hbuf *b, const char *s) { hbuf_reset(b); hadd(b, s, strlen(s)); }

/* configuration number `id`: the fixed table, then configurations generated from the number alone */
static void make_cfg(int id, cfg_t *c) {
  for (int i = 0; i < NF; i++) { hbuf_reset(&c->f[i]); c->has[i] = 0; }
  c->qq = 0;
  if (id < NFIXED) {
    for (int i = 0; i < NF; i++) if (fixed[id].f[i]) { c->has[i] = 1; sets(&c->f[i], fixed[id].f[i]); }
    c->qq = fixed[id].qq;
    return;
  }
  uint64_t save = h_rng_state;
  h_seed(0xC08C08ull + (uint64_t)id);
  for (int i = F_RH; i <= F_MORE; i++) {
    c->has[i] = h_below(5) != 0;
    int n = h_below(5);
    for (int k = 0; k < n && c->has[i]; k++) {
      const char *d = cdoms[h_below(NCDOMS)];
      for (const char *p = d; *p; p++) { char ch = *p; if (h_below(4) == 0 && ch >= 'a' && ch <= 'z') ch -= 32; hadd(&c->f[i], &ch, 1); }
      switch (h_below(8)) { case 0: hadd(&c->f[i], " \t", 2); break; case 1: hadd(&c->f[i], "\r", 1); break; case 2: hadd(&c->f[i], "\0x", 2); break; }
      if (k + 1 < n || h_below(3)) hadd(&c->f[i], "\n", 1);
      if (h_below(6) == 0) hadd(&c->f[i], "#no.example\n\n", 13);
    }
  }
  c->has[F_BMF] = h_below(2);
  if (c->has[F_BMF]) {
    int n = h_below(4);
    for (int k = 0; k < n; k++) {
      static const char *b[] = { "bad@spam.example", "@spam.example", "@EVIL.example", "a@a", "@a", "sender@remote.example", "@", "u", "@[127.0.0.1]", "@local.example" };
      const char *e = b[h_below(10)]; hadd(&c->f[F_BMF], e, strlen(e)); hadd(&c->f[F_BMF], "\n", 1);
    }
  }
  c->has[F_LIP] = h_below(2);
  if (c->has[F_LIP]) { const char *d = cdoms[h_below(NCDOMS)]; hadd(&c->f[F_LIP], d, strlen(d)); if (h_below(2)) hadd(&c->f[F_LIP], " \nsecond\n", 9); }
  c->has[F_RELAY] = h_below(4) == 0;
  if (c->has[F_RELAY] && h_below(2)) sets(&c->f[F_RELAY], "@relay.suffix");
  c->qq = h_below(8) == 0 ? 1 + (int)h_below(3) : 0;
  h_rng_state = save;
}

static void put_file(const char *name, int has, const void *p, size_t n) {
  char path[700];
  snprintf(path, sizeof path, "%s/control/%s", auto_qmail, name);
  if (!has) { unlink(path); return; }
  int fd = open(path, O_WRONLY | O_CREAT | O_TRUNC, 0644);
  if (fd == -1 || write(fd, p, n) != (ssize_t)n) { perror(path); exit(99); }
  close(fd);
}
static void hexo(int has, const unsigned char *p, size_t n) { fputc(' ', h_out); if (!has) fputc('!', h_out); else h_hex(p, n); }

static int maps_live;
static void drop_maps(void) {          /* undo what setup() allocated/opened for the previous run */
  if (!maps_live) return;
  if (flagrh == 1) { constmap_free(&maprh); if (fdmrh != -1) close(fdmrh); }
  if (bmfok == 1) constmap_free(&mapbmf);
  flagrh = 0; fdmrh = -1; bmfok = 0; maps_live = 0;
}

static void use_cfg(int id) {
  if (id == cur_id) return;
  drop_maps();
  make_cfg(id, &cur); cur_id = id;
  put_file("rcpthosts", cur.has[F_RH], cur.f[F_RH].p, cur.f[F_RH].n);
  put_file("badmailfrom", cur.has[F_BMF], cur.f[F_BMF].p, cur.f[F_BMF].n);
  put_file("localiphost", cur.has[F_LIP], cur.f[F_LIP].p, cur.f[F_LIP].n);
  put_file("morercpthosts", cur.has[F_MORE], cur.f[F_MORE].p, cur.f[F_MORE].n);
  put_file("morercpthosts.cdb", 0, 0, 0);
  if (cur.has[F_MORE]) { fflush(h_out); if (newmrh_main() != 0) { fprintf(stderr, "qmail-newmrh failed\n"); exit(99); } umask(022); }
  if (cur.has[F_RELAY]) { static char rc[300]; if (cur.f[F_RELAY].n) memcpy(rc, cur.f[F_RELAY].p, cur.f[F_RELAY].n); rc[cur.f[F_RELAY].n] = 0; setenv("RELAYCLIENT", rc, 1); }
  else unsetenv("RELAYCLIENT");
  qq_mode = cur.qq;
  fprintf(h_out, "C %d", id);
  hexo(1, (const unsigned char *)ME, strlen(ME));
  for (int i = 0; i < NF; i++) hexo(cur.has[i], cur.f[i].p, cur.f[i].n);
  hexo(1, &IPME[0][0], 4 * NIPME);
  fprintf(h_out, " %d %ld %lu\n", cur.qq, (long)H_NOW, (unsigned long)H_QP);
}

/* ---------------------------------------------------------------- running the code under test */
static int run_main(const unsigned char *in, size_t n, int chunk) {
  drop_maps();
  ssin.p = 0; ssin.n = sizeof ssinbuf; ssout.p = 0;
  seenmail = 0; flagbarf = 0; rcptto.len = 0; mailfrom.len = 0; addr.len = 0; bytestooverflow = 0; qqt.flagerr = 0;
  databytes = 0; timeout = 1200; in_env = 0; nsub = 0;
  in_p = in; in_n = n; in_pos = 0; in_chunk = chunk;
  hbuf_reset(&replyb);
  ipmeok = 1;
  int code = -1;
  h_exit_armed = 1;
  maps_live = 1;
  if (setjmp(h_jb) == 0) qmail_smtpd_main(); else code = h_exitcode;
  h_exit_armed = 0;
  return code;
}

static void s_case(int cfg, int chunk, const unsigned char *in, size_t n) {
  use_cfg(cfg);
  int code = run_main(in, n, chunk);
  fprintf(h_out, "S %d %d ", cfg, chunk); h_hex(in, n);
  fprintf(h_out, " %d ", code); h_hex(replyb.p, replyb.n);
  fprintf(h_out, " %d", nsub);
  for (int i = 0; i < nsub; i++) { fputc(' ', h_out); h_hex(sub_from[i].p, sub_from[i].n); fputc(' ', h_out); h_hex(sub_rcpt[i].p, sub_rcpt[i].n); }
  fputc('\n', h_out);
}

static int a_ready = -1;
static void a_case(int cfg, const unsigned char *arg, size_t n) {
  static char buf[70000];
  use_cfg(cfg);
  if (a_ready != cfg || !maps_live) { run_main((const unsigned char *)"", 0, 0); a_ready = cfg; }   /* setup() for this configuration */
  if (n >= sizeof buf || memchr(arg, 0, n)) return;
  memcpy(buf, arg, n); buf[n] = 0;
  int ok = -1, bmfr = -1, allowed = -1;
  h_exit_armed = 1;
  if (setjmp(h_jb) == 0) {
    ok = addrparse(buf);
    if (ok) { bmfr = bmfcheck(); allowed = addrallowed(); }
  }
  h_exit_armed = 0;
  fprintf(h_out, "A %d ", cfg); h_hex(arg, n); fprintf(h_out, " %d ", ok);
  if (ok == 1 && addr.len > 0) h_hex((unsigned char *)addr.s, addr.len - 1); else fputc('-', h_out);
  fprintf(h_out, " %d %d\n", bmfr, allowed);
}

/* ---------------------------------------------------------------- generators */
static uint64_t case_id; static int shard, nshards;
#define MINE() ((int)(case_id++ % (uint64_t)nshards) == shard)

static const char *g_local[] = { "u", "User", "a.b", "\"q s\"", "\"a@b\"", "x\\@y", "x\\>y", "", "bad", "Mixed", "\"un\\\"q", "a b", "<x", "\\", "#c" };
#define NLOCAL ((int)(sizeof g_local / sizeof g_local[0]))
static const char *g_dom[] = { "local.example", "LOCAL.Example", "sub.local.example", "wild.example", "x.wild.example", "X.Y.WILD.EXAMPLE",
  "xwild.example", "mixed.example", "spaced.example", "more.example", "MORE.example", "a.morewild.example", "morewild.example", "mspaced.example",
  "remote.example", "example", "", "local.example.", ".local.example", "[127.0.0.1]", "[10.0.0.1]", "[0.0.0.0]", "[1.2.3.4]",
  "[256.256.256.256]", "[127.0.0.1", "[127.0.0.1]x", "[0127.000.0.1]", "[383.0.0.1]", "[127.0.0.1.]", "[127.0.0]", "[127..0.1]", "[ 127.0.0.1]",
  "[18446744073709551743.0.0.1]", "spam.example", "evil.example", "Case.Example", "a", "a.a", "aa", "comment.example", "hash.example", "dos.example",
  "dos.example\r", "x.example", "x.example.", "caps.example", "notlisted.example", "\"local.example\"", "local.example>", "wild.example x",
  "#no.example", "# comment.example", "#hash.example" };
#define NDOM ((int)(sizeof g_dom / sizeof g_dom[0]))
static const char *g_wrap[] = { "<%s>", "FROM:<%s>", "TO:<%s>", "to: %s", "%s", "<@route.example:%s>", "<@r1,@r2:%s>", "TO:<%s> SIZE=100", "<%s",
  "%s>", ":%s", "TO:  %s extra", "<<%s>>", "to:@r:%s", "<@noroute %s>", "TO:\"<\"%s", "x:y:%s", "@r:%s" };
#define NWRAP ((int)(sizeof g_wrap / sizeof g_wrap[0]))

static size_t mk_addr(char *o, int form, const char *loc, const char *dom) {
  switch (form) {
    case 0: return sprintf(o, "%s@%s", loc, dom);
    case 1: return sprintf(o, "%s", loc);
    case 2: return sprintf(o, "@%s", dom);
    default: return sprintf(o, "%s@other.example@%s", loc, dom);
  }
}
static size_t rnd_arg(char *o) {
  char a[400];
  mk_addr(a, h_below(8) < 6 ? 0 : 1 + h_below(3), g_local[h_below(NLOCAL)], g_dom[h_below(NDOM)]);
  return sprintf(o, g_wrap[h_below(4) ? h_below(4) : h_below(NWRAP)], a);
}

static const char *palette[] = {
  "HELO client.example\n", "EHLO client.example\n",
  "MAIL FROM:<sender@remote.example>\n", "MAIL FROM:<bad@spam.example>\n", "mail from:<X@EVIL.example>\n", "MAIL FROM:<>\n",
  "RCPT TO:<user@local.example>\n", "RCPT TO:<Other@Sub.Wild.Example>\n", "RCPT TO:<relay@remote.example>\n", "rcpt  to: bare\n",
  "RCPT TO:<@route.example:lit@[127.0.0.1]>\n",
  "MAIL FROM:<\2>\n",
  "DATA\n\1Subject: t\r\n\r\nhello\r\n..\r\n.\r\n",
  "RSET\n", "\3", "QUIT\n" };
#define NPAL 16
static const char *neutral[] = { "NOOP\n", "VRFY user\n", "HELP\n", "BOGUS arg\n", "\n", "noop x\n", "MAILFROM:<x@local.example>\n", "RCPT\n" };

/* append palette entry e; '\n' = the session's line ending, \1 = rest verbatim, \2 = 900 'a', \3 = a state-neutral command */
static void add_pal(hbuf *b, int e, int mode, int *lineno, uint64_t salt) {
  const char *s = palette[e];
  if (*s == 3) s = neutral[salt % 8];
  for (; *s; s++) {
    if (*s == 1) { hadd(b, s + 1, strlen(s + 1)); return; }
    if (*s == 2) { for (int i = 0; i < 900; i++) hadd(b, "a", 1); continue; }
    if (*s == '\n') { int crlf = mode == 0 || (mode == 2 && (*lineno & 1)); (*lineno)++; if (crlf) hadd(b, "\r\n", 2); else hadd(b, "\n", 1); continue; }
    hadd(b, s, 1);
  }
}

static void exhaustive_sessions(int cfg, int maxlen) {
  static hbuf b;
  static const int chunks[3] = { 0, 1, 5 };
  for (int len = 0; len <= maxlen; len++) {
    uint64_t total = 1; for (int i = 0; i < len; i++) total *= NPAL;
    for (uint64_t k = 0; k < total; k++) {
      if (!MINE()) continue;
      uint64_t v = k; int lineno = 0; int mode = (int)((k + len) % 3);
      hbuf_reset(&b);
      for (int i = 0; i < len; i++) { add_pal(&b, (int)(v % NPAL), mode, &lineno, k / 3 + i); v /= NPAL; }
      s_case(cfg, chunks[(k / 3) % 3], b.p, b.n);
    }
  }
}

static void rnd_case(hbuf *b, const char *v) {
  for (; *v; v++) { char ch = *v; if (h_below(3) == 0 && ch >= 'A' && ch <= 'Z') ch += 32; hadd(b, &ch, 1); }
}
static void rnd_eol(hbuf *b, int mode) { if (mode == 0 || (mode == 2 && h_below(2))) hadd(b, "\r\n", 2); else hadd(b, "\n", 1); }

static void random_session(void) {
  static hbuf b; char arg[2000];
  hbuf_reset(&b);
  int cfg = h_below(3) ? (int)h_below(NFIXED) : NFIXED + (int)h_below(400);
  int n = 1 + h_below(30), mode = h_below(4) ? 0 : 1 + h_below(2);
  int orderly = h_below(2);
  for (int i = 0; i < n; i++) {
    int w = h_below(orderly ? 10 : 16);
    size_t al;
    switch (w) {
      case 0: case 1: case 10:
        rnd_case(&b, "MAIL"); hadd(&b, "   ", 1 + h_below(2)); al = rnd_arg(arg); hadd(&b, arg, al); rnd_eol(&b, mode); break;
      case 2: case 3: case 4: case 11: {
        int k = 1 + h_below(3);
        for (int j = 0; j < k; j++) { rnd_case(&b, "RCPT"); hadd(&b, "  ", 1 + h_below(2)); al = rnd_arg(arg); hadd(&b, arg, al); rnd_eol(&b, mode); }
        break; }
      case 5: case 6: case 12:
        rnd_case(&b, "DATA"); rnd_eol(&b, mode);
        { int nl = h_below(4);
          for (int j = 0; j < nl; j++) { static const char *bl[] = { "Subject: x", "", ".dot", "..", "Received: y", "RSET", "MAIL FROM:<z@local.example>", "a\rb" };
            const char *l = bl[h_below(8)]; hadd(&b, l, strlen(l)); if (h_below(40) == 0) hadd(&b, "\n", 1); else hadd(&b, "\r\n", 2); }
          if (h_below(25)) hadd(&b, ".\r\n", 3); }
        break;
      case 7: rnd_case(&b, h_below(2) ? "RSET" : "NOOP"); rnd_eol(&b, mode); break;
      case 8: rnd_case(&b, h_below(2) ? "HELO" : "EHLO"); hadd(&b, " h.example", 10); rnd_eol(&b, mode); break;
      case 9: { static const char *o[] = { "VRFY u", "HELP", "XYZZY", "", " ", "MAIL", "RCPT", "DATA x", "RSET now", "QUIT" };
        rnd_case(&b, o[h_below(h_below(6) ? 9 : 10)]); rnd_eol(&b, mode); break; }
      case 13: { /* address at the length limit */
        int L = 880 + h_below(30); rnd_case(&b, h_below(2) ? "MAIL FROM:<" : "RCPT TO:<");
        for (int j = 0; j < L; j++) hadd(&b, "a", 1);
        const char *d = g_dom[h_below(NDOM)]; hadd(&b, "@", 1); hadd(&b, d, strlen(d)); hadd(&b, ">", 1); rnd_eol(&b, mode); break; }
      case 14: { int L = h_below(12); for (int j = 0; j < L; j++) { char ch = "MAIL RCPT<>@:\0\r\"\\.x"[h_below(20)]; hadd(&b, &ch, 1); } rnd_eol(&b, mode); break; }
      default: rnd_case(&b, "RCPT TO:<user@local.example>"); hadd(&b, "\0junk", h_below(2) ? 5 : 0); rnd_eol(&b, mode); break;
    }
  }
  if (h_below(3) == 0) { rnd_case(&b, "QUIT"); rnd_eol(&b, mode); }
  s_case(cfg, (int[]){ 0, 0, 1, 3, 64, 1000 }[h_below(6)], b.p, b.n);
}

static int unhex(const char *h, unsigned char *o) {
  int n = 0;
  if (h[0] == '-') return 0;
  for (; h[0] && h[1] && h[0] != '\n'; h += 2) { unsigned v; if (sscanf(h, "%2x", &v) != 1) break; o[n++] = v; }
  return n;
}

int main(int argc, char **argv) {
  h_init_out();
  { const char *t = getenv("TMPDIR"); char ctl[600];
    snprintf(auto_qmail, sizeof auto_qmail, "%s/nq-c08-XXXXXX", t ? t : "/tmp");
    if (!mkdtemp(auto_qmail)) { perror("mkdtemp"); return 99; }
    snprintf(ctl, sizeof ctl, "%s/control", auto_qmail); mkdir(ctl, 0755);
    put_file("me", 1, ME, strlen(ME)); }
  if (!ipalloc_readyplus(&ipme, NIPME)) return 99;
  ipme.len = 0;
  for (int i = 0; i < NIPME; i++) { struct ip_mx ix; ix.pref = 0; memcpy(&ix.ip, IPME[i], 4); ipalloc_append(&ipme, &ix); }
  ipmeok = 1;
  int rc = 0;
  if (argc > 1 && !strcmp(argv[1], "-")) {
    static char line[600000], hx[600000]; static unsigned char b[300000];
    while (fgets(line, sizeof line, stdin)) {
      int cfg, chunk;
      if (sscanf(line, "S %d %d %s", &cfg, &chunk, hx) == 3) s_case(cfg, chunk, b, unhex(hx, b));
      else if (sscanf(line, "A %d %s", &cfg, hx) == 2) a_case(cfg, b, unhex(hx, b));
    }
    goto done;
  }
  {
  int alen = h_argi(argc, argv, 1, 5), slenA = h_argi(argc, argv, 2, 4), slenB = h_argi(argc, argv, 3, 3), nrandom = h_argi(argc, argv, 4, 4000);
  uint64_t seed = (uint64_t)h_argi(argc, argv, 5, 1);
  shard = h_argi(argc, argv, 6, 0); nshards = h_argi(argc, argv, 7, 1);
  static char arg[4000], a[2000];

  /* (A1) every string over the address alphabet, under the single-letter configuration 6 */
  static const char alpha[11] = { 'a', '@', '.', '<', '>', '"', '\\', ':', '[', ']', ' ' };
  for (int len = 0; len <= alen; len++) {
    uint64_t total = 1; for (int i = 0; i < len; i++) total *= 11;
    for (uint64_t k = 0; k < total; k++) {
      if (!MINE()) continue;
      uint64_t v = k; for (int i = 0; i < len; i++) { arg[i] = alpha[v % 11]; v /= 11; }
      a_case(6, (unsigned char *)arg, len);
    }
  }
  /* (A2) wrapper x local part x domain x form, under every fixed configuration */
  for (int cfg = 0; cfg < NFIXED; cfg++)
    for (int w = 0; w < NWRAP; w++) for (int l = 0; l < NLOCAL; l++) for (int d = 0; d < NDOM; d++) for (int f = 0; f < 4; f++) {
      if ((f == 1 && d) || (f == 2 && l)) continue;
      if (cfg != 2 && cfg != 6 && cfg != 11 && (w > 5 || l > 6)) continue;
      if (!MINE()) continue;
      mk_addr(a, f, g_local[l], g_dom[d]);
      a_case(cfg, (unsigned char *)arg, sprintf(arg, g_wrap[w], a));
    }
  /* (A3) the length limit, with and without localiphost substitution */
  for (int cfg = 2; cfg <= 12; cfg += 2)
    for (int L = 870; L <= 905; L++) for (int d = 0; d < 5; d++) {
      if (!MINE()) continue;
      static const char *ld[] = { "", "@local.example", "@[127.0.0.1]", "@[1.2.3.4]", "@remote.example" };
      size_t n = 0; arg[n++] = '<'; for (int j = 0; j < L; j++) arg[n++] = 'a'; n += sprintf(arg + n, "%s>", ld[d]);
      a_case(cfg, (unsigned char *)arg, n);
    }
  /* (S1) every sequence of palette commands */
  { static const int deep[] = { 2, 4 }, shallow[] = { 0, 1, 3, 5, 7, 8, 9, 10, 12 };
    for (int i = 0; i < 2; i++) exhaustive_sessions(deep[i], slenA);
    for (int i = 0; i < 9; i++) exhaustive_sessions(shallow[i], slenB); }
  /* (S2) seeded random sessions and (A4) random arguments under random configurations */
  h_seed(seed * 1000003ull + (uint64_t)shard);
  for (int r = 0; r < nrandom; r++) {
    if ((r % nshards) != shard) continue;
    random_session();
    if (r % 4 == 0) { int cfg = NFIXED + (int)h_below(400); for (int j = 0; j < 40; j++) { size_t n = rnd_arg(arg); a_case(cfg, (unsigned char *)arg, n); } }
  }
  }
done:
  fflush(h_out);
  { char p[700]; static const char *fs[] = { "control/me", "control/rcpthosts", "control/morercpthosts", "control/morercpthosts.cdb", "control/morercpthosts.tmp",
      "control/badmailfrom", "control/localiphost", "control", "" };
    for (int i = 0; i < 9; i++) { snprintf(p, sizeof p, "%s/%s", auto_qmail, fs[i]); if (i < 7) unlink(p); else rmdir(p); } }
  return rc;
}
