/* C08 correspondence harness: SMTP transaction sequencing and relay gating.
 *
 * Runs, in-process and unmodified: qmail-smtpd.c main() -> setup() -> commands() (commands.c) -> smtp_* handlers ->
 * addrparse/bmfcheck/addrallowed -> rcpthosts.c, constmap.c, control.c, cdb_seek.c, ip.c, ipme_is (ipme.c), and
 * qmail-newmrh.c main() (second translation unit c08_newmrh.c) to compile morercpthosts.cdb.
 * Replaced: timeoutread/timeoutwrite (scripted stream, captured replies), qmail.o (captures the envelope, scripted
 * verdict), auto_qmail (a temp dir holding real control files), time() (fixed), the interface scan of ipme_init()
 * (the list `ipme` is filled directly).
 *
 * usage: c08_session <alen> <slenA> <slenB> <nrandom> <seed> <shard> <nshards>
 *        c08_session -          cases on stdin:  "S <cfg> <chunk> <hex>"  |  "A <cfg> <hex>"  |  "F <table> <bufsize> <script> <hex>"
 * output:
 *   B <sizeof ssinbuf>                                  once, first line
 *   F <table> <texts,...> <bufsize> <script> <in> <ret> <ncalls> {<index> <arg>}
 *        commands() (commands.c) called directly on a substdio of size <bufsize> whose read() calls follow <script> (one byte
 *        per call: the most it may return; 00 = fails with EIO; exhausted = as much as asked), with a table of recording
 *        handlers: table 0 carries the texts of the real smtpcommands[], table 1 a synthetic one (shadowed entry, empty text,
 *        text with a blank, the characters next to the letter ranges)
 *   S lines end with  D <ncalls> {<index> <arg>} : the calls commands() made into smtpcommands[] during the session
 *   C <cfg> <me> <rcpthosts> <morercpthosts> <badmailfrom> <localiphost> <RELAYCLIENT> <ipme> <qqmode> <now> <qp>
 *        (hex; "!" = absent)  — emitted whenever the configuration changes; later lines refer to it
 *   A <cfg> <arg> <ok> <addr> <bmf> <allowed>          one addrparse() call (+ bmfcheck(), addrallowed() if ok)
 *   S <cfg> <chunk> <in> <exit> <replies> <nsub> {<from> <rcptto>} D <ncalls> {<index> <arg>}   one whole session
 * configuration numbers (a configuration is a function of its number alone, so replay lines stay meaningful):
 *   0..NFIXED-1 the fixed table; NFIXED..NFIXED+399 generated from a small domain list; LBASE+i (1000..1055) the "letter"
 *   configuration written with the single character i of A..Z a..z @ [ ` { ; ABASE+k (2000..) entries over the whole
 *   alphabet in both cases.                                                                                              */
#include "hcommon.h"
#include <time.h>
#include <fcntl.h>
#include <errno.h>
#include <sys/stat.h>

#define H_NOW 1000000000L
#define H_QP 4242UL
static time_t h_time(time_t *t) { if (t) *t = H_NOW; return H_NOW; }
#define time(x) h_time(x)
#define _exit(x) h_exit(x)
#define main qmail_smtpd_main
#include "qmail-smtpd.c"
#undef main
#include "rcpthosts.c"
#include "ipme.c"
#undef _exit
#undef time

char auto_qmail[512];
extern int newmrh_main(void);

/* hbuf_add with n == 0 on an empty buffer would hand memcpy a null pointer */
static inline void hadd(hbuf *b, const void *s, size_t n) { if (n) hbuf_add(b, s, n); }

/* ---------------------------------------------------------------- replaced objects */
static const unsigned char *in_p; static size_t in_n, in_pos; static int in_chunk;
static hbuf replyb;

/* (E) flush discipline: the events of a session on the two descriptors.  G<n> = n more reply bytes have been handed to
 * ssout (observed lazily: at the next read / write / handler return), W<n> = write of n bytes, R<p> = read of the
 * connection with p bytes still sitting in ssout's buffer, C<i> = handler i returned, F = its flush callback ran. */
static hbuf evb; static size_t ev_totalw, ev_lastgen; static int ev_on;
static void ev_log(char k, size_t v) { char t[32]; int l = snprintf(t, sizeof t, "%s%c%zu", evb.n ? "," : "", k, v); hadd(&evb, t, l); }
static void ev_sync(size_t extra) {
  if (!ev_on) return;
  size_t g = (size_t)ssout.p + ev_totalw + extra;
  if (g > ev_lastgen) { ev_log('G', g - ev_lastgen); ev_lastgen = g; }
}
ssize_t timeoutread(int t, int fd, char *buf, size_t len) {
  if (ev_on) { ev_sync(0); ev_log('R', (size_t)ssout.p); }
  size_t k = in_n - in_pos;
  if (k > len) k = len;
  if (in_chunk > 0 && k > (size_t)in_chunk) k = in_chunk;
  if (k) memcpy(buf, in_p + in_pos, k);
  in_pos += k;
  return k;
}
ssize_t timeoutwrite(int t, int fd, const void *buf, size_t len) {
  if (ev_on) { ev_sync(len); ev_log('W', len); ev_totalw += len; }
  hadd(&replyb, buf, len); return len;
}

static int qq_mode;               /* 0 queue accepts, 1 qmail_open fails, 2 permanent, 3 temporary */
static int in_env;
#define MAXSUB 64
static hbuf sub_from[MAXSUB], sub_rcpt[MAXSUB]; static int nsub;
static hbuf envf, envr;
int qmail_open(struct qmail *qq) { if (qq_mode == 1) return -1; qq->flagerr = 0; in_env = 0; return 0; }
void qmail_put(struct qmail *qq, char *s, size_t len) { if (in_env) hadd(&envr, s, len); }
void qmail_fail(struct qmail *qq) { qq->flagerr = 1; }
void qmail_from(struct qmail *qq, char *s) { hbuf_reset(&envf); hadd(&envf, s, strlen(s)); hbuf_reset(&envr); in_env = 1; }
void qmail_to(struct qmail *qq, char *s) {}
char *qmail_close(struct qmail *qq) {
  if (nsub < MAXSUB) {
    hbuf_reset(&sub_from[nsub]); hadd(&sub_from[nsub], envf.p, envf.n);
    hbuf_reset(&sub_rcpt[nsub]); hadd(&sub_rcpt[nsub], envr.p, envr.n);
    nsub++;
  }
  in_env = 0;
  return qq_mode == 2 ? "Dqq permanent problem (#5.3.0)" : qq_mode == 3 ? "Zqq temporary problem (#4.3.0)" : "";
}
unsigned long qmail_qp(struct qmail *qq) { return H_QP; }

/* ---------------------------------------------------------------- the calls commands() makes */
#define MAXTAB 24
static hbuf callb; static int ncalls;            /* per call: index byte, argument, NUL */
static void rec_call(int i, const char *arg) { unsigned char ix = (unsigned char)i; hadd(&callb, &ix, 1); hadd(&callb, arg, strlen(arg) + 1); ncalls++; }
static void (*orig_fun[MAXTAB])();
static void (*orig_flush[MAXTAB])();
#define WF(i) static void recf_##i(void) { if (orig_flush[i]) orig_flush[i](); if (ev_on) { ev_sync(0); ev_log('F', 0); } }
WF(0) WF(1) WF(2) WF(3) WF(4) WF(5) WF(6) WF(7) WF(8) WF(9) WF(10) WF(11) WF(12) WF(13) WF(14) WF(15) WF(16) WF(17) WF(18) WF(19) WF(20) WF(21) WF(22) WF(23)
static void (*const recf_fun[MAXTAB])(void) = { recf_0, recf_1, recf_2, recf_3, recf_4, recf_5, recf_6, recf_7, recf_8, recf_9, recf_10, recf_11, recf_12,
  recf_13, recf_14, recf_15, recf_16, recf_17, recf_18, recf_19, recf_20, recf_21, recf_22, recf_23 };
#define W(i) static void rec_##i(char *arg) { rec_call(i, arg); if (orig_fun[i]) orig_fun[i](arg); if (ev_on) { ev_sync(0); ev_log('C', i); } }
W(0) W(1) W(2) W(3) W(4) W(5) W(6) W(7) W(8) W(9) W(10) W(11) W(12) W(13) W(14) W(15) W(16) W(17) W(18) W(19) W(20) W(21) W(22) W(23)
static void (*const rec_fun[MAXTAB])(char *) = { rec_0, rec_1, rec_2, rec_3, rec_4, rec_5, rec_6, rec_7, rec_8, rec_9, rec_10, rec_11, rec_12,
  rec_13, rec_14, rec_15, rec_16, rec_17, rec_18, rec_19, rec_20, rec_21, rec_22, rec_23 };
static int nsmtp;                                  /* entries of smtpcommands[] before the terminating one */
/* route every entry of the real smtpcommands[] through a recorder that then calls the real handler */
static void hook_smtpcommands(void) {
  int n = 0; while (smtpcommands[n].text) n++;
  if (n + 1 > MAXTAB) { fprintf(stderr, "smtpcommands[] has more than %d entries\n", MAXTAB - 1); exit(99); }
  nsmtp = n;
  for (int i = 0; i <= n; i++) { orig_fun[i] = smtpcommands[i].fun; smtpcommands[i].fun = rec_fun[i]; }
  for (int i = 0; i <= n; i++) { orig_flush[i] = smtpcommands[i].flush; if (orig_flush[i]) smtpcommands[i].flush = recf_fun[i]; }
}
static void put_calls(void) {
  fprintf(h_out, " %d", ncalls);
  for (size_t i = 0; i < callb.n; ) {
    size_t l = strlen((char *)callb.p + i + 1);
    fprintf(h_out, " %d ", (int)callb.p[i]); h_hex(callb.p + i + 1, l);
    i += l + 2;
  }
}

/* ---------------------------------------------------------------- configurations */
enum { F_RH, F_MORE, F_BMF, F_LIP, F_RELAY, NF };
typedef struct { hbuf f[NF]; int has[NF]; int qq; } cfg_t;
static cfg_t cur; static int cur_id = -1;
static const char ME[] = "me.example\n";
static const unsigned char IPME[][4] = { {0,0,0,0}, {127,0,0,1}, {10,0,0,1} };
#define NIPME 3

typedef struct { const char *f[NF]; int qq; } fcfg;
#define RH1 "local.example\n.wild.example\nMiXed.Example\n# comment.example\n\nspaced.example  \t\n"
#define MORE1 "more.example\n.MoreWild.Example\n#hash.example\n  \nmspaced.example \n"
#define BMF1 "bad@spam.example\n@evil.example\nMixed@Case.Example\n#c@comment.example\n"
static const fcfg fixed[] = {
  /* 0 */ { { 0, 0, 0, 0, 0 }, 0 },
  /* 1 */ { { RH1, 0, 0, 0, 0 }, 0 },
  /* 2 */ { { RH1, MORE1, BMF1, "local.example\n", 0 }, 0 },
  /* 3 */ { { RH1, MORE1, BMF1, "local.example\n", "" }, 0 },
  /* 4 */ { { RH1, MORE1, BMF1, "local.example\n", "@relay.suffix" }, 0 },
  /* 5 */ { { "", MORE1, 0, 0, 0 }, 0 },
  /* 6 */ { { "a\n.a\na.a\n", "aa\n", "a@a\n@a.a\n", "a.a\n", 0 }, 0 },
  /* 7 */ { { RH1, MORE1, BMF1, "local.example\n", 0 }, 1 },
  /* 8 */ { { RH1, MORE1, BMF1, "local.example\n", 0 }, 2 },
  /* 9 */ { { RH1, 0, BMF1, 0, 0 }, 3 },
  /* 10 */ { { "[127.0.0.1]\nlocal.example\n", 0, 0, "notlisted.example\n", 0 }, 0 },
  /* 11 */ { { "dos.example\r\nexample\n.example.\nlocal.example", ".\nCAPS.EXAMPLE\n", "@\nbare\n", "", 0 }, 0 },
  /* 12 */ { { 0, MORE1, BMF1, "[10.0.0.1]\n", 0 }, 0 },
};
#define NFIXED ((int)(sizeof fixed / sizeof fixed[0]))

static const char *cdoms[] = { "local.example", "wild.example", ".wild.example", "Mixed.Example", "more.example", ".morewild.example",
  "remote.example", "example", ".example", "a", ".a", "a.a", "[127.0.0.1]", "spam.example", "LOCAL.EXAMPLE", "." };
#define NCDOMS ((int)(sizeof cdoms / sizeof cdoms[0]))

static void sets(hbuf *b, const char *s) { hbuf_reset(b); hadd(b, s, strlen(s)); }

/* ---- letter configurations LBASE+i: every control file is written with the single character lset_at(i) as a host label /
 * local part (all 52 letters, and the four characters adjacent to the two letter ranges).  In a template \1 is that
 * character and \2 the character that differs from it in bit 5 only (the other case of a letter; '@'<->'`', '['<->'{'). */
#define LBASE 1000
#define NLSET 56
static unsigned char lset_at(int i) { return i < 26 ? 'A' + i : i < 52 ? 'a' + (i - 26) : (unsigned char)"@[`{"[i - 52]; }
static void tmpl(hbuf *b, const char *t, unsigned char c1, unsigned char c2) {
  for (; *t; t++) { char ch = *t == 1 ? (char)c1 : *t == 2 ? (char)c2 : *t; hadd(b, &ch, 1); }
}
#define L_RH   "\1\n.\1.w\nrh-\1.example\n\2.lip\nx\1y.mid\n"
#define L_MORE "\1.more\n.\1.mw\n\1\1\nm\1m.mid\n"
#define L_BMF  "\1@\1.bad\n@\1.evil\n\1@\1\n@\1.\1\nb\1b@mid.bad\n"
#define L_LIP  "\1.lip\n"

/* ---- alphabet configurations ABASE+k: entries over the whole alphabet in both cases, generated from the number alone */
#define ABASE 2000
#define NALPHA 1000000
static size_t rnd_label(char *o) {
  static const char fav[] = "aazzAAZZmMnNyYbB09-";
  size_t n = 1 + h_below(h_below(3) ? 3 : 8);
  for (size_t i = 0; i < n; i++) {
    if (h_below(40) == 0) o[i] = "@[`{"[h_below(4)];
    else if (h_below(3) == 0) o[i] = fav[h_below(sizeof fav - 1)];
    else o[i] = (char)(((h_below(2) ? 'a' : 'A') + (int)h_below(26)));
  }
  return n;
}
/* mode 0 as is, 1 every letter flipped with probability 1/2, 2 exactly one letter flipped, 3 upper, 4 lower */
static void flipcase(char *s, size_t n, int mode) {
  size_t nl = 0, pick;
  for (size_t i = 0; i < n; i++) if ((s[i] | 32) >= 'a' && (s[i] | 32) <= 'z') nl++;
  pick = nl ? h_below((uint32_t)nl) : 0;
  for (size_t i = 0, l = 0; i < n; i++) {
    if (!((s[i] | 32) >= 'a' && (s[i] | 32) <= 'z')) continue;
    switch (mode) {
      case 1: if (h_below(2)) s[i] ^= 32; break;
      case 2: if (l == pick) s[i] ^= 32; break;
      case 3: s[i] &= ~32; break;
      case 4: s[i] |= 32; break;
    }
    l++;
  }
}
static int rnd_flipmode(void) { static const int m[8] = { 0, 1, 1, 1, 2, 2, 3, 4 }; return m[h_below(8)]; }

static void make_alpha_cfg(cfg_t *c) {
  char pool[6][64]; size_t plen[6]; int np = 2 + (int)h_below(5);
  for (int i = 0; i < np; i++) {
    size_t n = 0; int nl = 1 + (int)h_below(3);
    if (h_below(3) == 0) pool[i][n++] = '.';
    for (int k = 0; k < nl; k++) { if (k) pool[i][n++] = '.'; n += rnd_label(pool[i] + n); }
    plen[i] = n;
  }
  for (int f = F_RH; f <= F_MORE; f++) {
    c->has[f] = h_below(f == F_RH ? 8 : 3) != 0;
    int n = (int)h_below(6);
    for (int k = 0; k < n && c->has[f]; k++) {
      char e[80]; int i = (int)h_below(np); size_t m = plen[i]; const char *src = pool[i];
      if (h_below(5) == 0) { if (*src == '.') { src++; m--; } else { e[0] = '.'; memcpy(e + 1, src, m); src = 0; m++; } }
      if (src) memcpy(e, src, m);
      flipcase(e, m, rnd_flipmode());
      hadd(&c->f[f], e, m);
      switch (h_below(12)) { case 0: hadd(&c->f[f], " \t", 2); break; case 1: hadd(&c->f[f], "\r", 1); break; }
      if (k + 1 < n || h_below(4)) hadd(&c->f[f], "\n", 1);
    }
  }
  c->has[F_BMF] = h_below(3) != 0;
  if (c->has[F_BMF]) {
    int n = (int)h_below(5);
    for (int k = 0; k < n; k++) {
      char e[160]; size_t m = 0; int i = (int)h_below(np);
      if (h_below(2)) m += rnd_label(e);
      e[m++] = '@';
      { const char *src = pool[i]; size_t l = plen[i]; if (*src == '.') { src++; l--; } memcpy(e + m, src, l); m += l; }
      flipcase(e, m, rnd_flipmode());
      hadd(&c->f[F_BMF], e, m); hadd(&c->f[F_BMF], "\n", 1);
    }
  }
  c->has[F_LIP] = h_below(2);
  if (c->has[F_LIP]) {
    char e[80]; int i = (int)h_below(np); const char *src = pool[i]; size_t l = plen[i];
    if (*src == '.') { src++; l--; }
    memcpy(e, src, l); flipcase(e, l, rnd_flipmode());
    hadd(&c->f[F_LIP], e, l); hadd(&c->f[F_LIP], "\n", 1);
  }
  c->has[F_RELAY] = h_below(8) == 0;
  if (c->has[F_RELAY] && h_below(2)) sets(&c->f[F_RELAY], "@relay.suffix");
  c->qq = h_below(12) == 0 ? 1 + (int)h_below(3) : 0;
}

/* configuration number `id`: the fixed table, then configurations generated from the number alone */
static void make_cfg(int id, cfg_t *c) {
  for (int i = 0; i < NF; i++) { hbuf_reset(&c->f[i]); c->has[i] = 0; }
  c->qq = 0;
  if (id < NFIXED) {
    for (int i = 0; i < NF; i++) if (fixed[id].f[i]) { c->has[i] = 1; sets(&c->f[i], fixed[id].f[i]); }
    c->qq = fixed[id].qq;
    return;
  }
  if (id >= LBASE && id < LBASE + NLSET) {
    unsigned char ch = lset_at(id - LBASE);
    static const char *t[4] = { L_RH, L_MORE, L_BMF, L_LIP };
    for (int i = F_RH; i <= F_LIP; i++) { c->has[i] = 1; tmpl(&c->f[i], t[i], ch, ch ^ 32); }
    return;
  }
  if (id >= ABASE) {
    uint64_t save = h_rng_state;
    h_seed(0xA1FAC08ull + (uint64_t)id);
    make_alpha_cfg(c);
    h_rng_state = save;
    return;
  }
  uint64_t save = h_rng_state;
  h_seed(0xC08C08ull + (uint64_t)id);
  for (int i = F_RH; i <= F_MORE; i++) {
    c->has[i] = h_below(5) != 0;
    int n = h_below(5);
    for (int k = 0; k < n && c->has[i]; k++) {
      const char *d = cdoms[h_below(NCDOMS)];
      for (const char *p = d; *p; p++) { char ch = *p; if (h_below(4) == 0 && ch >= 'a' && ch <= 'z') ch -= 32; hadd(&c->f[i], &ch, 1); }
      switch (h_below(8)) { case 0: hadd(&c->f[i], " \t", 2); break; case 1: hadd(&c->f[i], "\r", 1); break; case 2: hadd(&c->f[i], "\0x", 2); break; }
      if (k + 1 < n || h_below(3)) hadd(&c->f[i], "\n", 1);
      if (h_below(6) == 0) hadd(&c->f[i], "#no.example\n\n", 13);
    }
  }
  c->has[F_BMF] = h_below(2);
  if (c->has[F_BMF]) {
    int n = h_below(4);
    for (int k = 0; k < n; k++) {
      static const char *b[] = { "bad@spam.example", "@spam.example", "@EVIL.example", "a@a", "@a", "sender@remote.example", "@", "u", "@[127.0.0.1]", "@local.example" };
      const char *e = b[h_below(10)]; hadd(&c->f[F_BMF], e, strlen(e)); hadd(&c->f[F_BMF], "\n", 1);
    }
  }
  c->has[F_LIP] = h_below(2);
  if (c->has[F_LIP]) { const char *d = cdoms[h_below(NCDOMS)]; hadd(&c->f[F_LIP], d, strlen(d)); if (h_below(2)) hadd(&c->f[F_LIP], " \nsecond\n", 9); }
  c->has[F_RELAY] = h_below(4) == 0;
  if (c->has[F_RELAY] && h_below(2)) sets(&c->f[F_RELAY], "@relay.suffix");
  c->qq = h_below(8) == 0 ? 1 + (int)h_below(3) : 0;
  h_rng_state = save;
}

static void put_file(const char *name, int has, const void *p, size_t n) {
  char path[700];
  snprintf(path, sizeof path, "%s/control/%s", auto_qmail, name);
  if (!has) { unlink(path); return; }
  int fd = open(path, O_WRONLY | O_CREAT | O_TRUNC, 0644);
  if (fd == -1 || write(fd, p, n) != (ssize_t)n) { perror(path); exit(99); }
  close(fd);
}
static void hexo(int has, const unsigned char *p, size_t n) { fputc(' ', h_out); if (!has) fputc('!', h_out); else h_hex(p, n); }

static int maps_live;
static void drop_maps(void) {          /* undo what setup() allocated/opened for the previous run */
  if (!maps_live) return;
  if (flagrh == 1) { constmap_free(&maprh); if (fdmrh != -1) close(fdmrh); }
  if (bmfok == 1) constmap_free(&mapbmf);
  flagrh = 0; fdmrh = -1; bmfok = 0; maps_live = 0;
}

static void use_cfg(int id) {
  if (id == cur_id) return;
  drop_maps();
  make_cfg(id, &cur); cur_id = id;
  put_file("rcpthosts", cur.has[F_RH], cur.f[F_RH].p, cur.f[F_RH].n);
  put_file("badmailfrom", cur.has[F_BMF], cur.f[F_BMF].p, cur.f[F_BMF].n);
  put_file("localiphost", cur.has[F_LIP], cur.f[F_LIP].p, cur.f[F_LIP].n);
  put_file("morercpthosts", cur.has[F_MORE], cur.f[F_MORE].p, cur.f[F_MORE].n);
  put_file("morercpthosts.cdb", 0, 0, 0);
  if (cur.has[F_MORE]) { fflush(h_out); if (newmrh_main() != 0) { fprintf(stderr, "qmail-newmrh failed\n"); exit(99); } umask(022); }
  if (cur.has[F_RELAY]) { static char rc[300]; if (cur.f[F_RELAY].n) memcpy(rc, cur.f[F_RELAY].p, cur.f[F_RELAY].n); rc[cur.f[F_RELAY].n] = 0; setenv("RELAYCLIENT", rc, 1); }
  else unsetenv("RELAYCLIENT");
  qq_mode = cur.qq;
  fprintf(h_out, "C %d", id);
  hexo(1, (const unsigned char *)ME, strlen(ME));
  for (int i = 0; i < NF; i++) hexo(cur.has[i], cur.f[i].p, cur.f[i].n);
  hexo(1, &IPME[0][0], 4 * NIPME);
  fprintf(h_out, " %d %ld %lu\n", cur.qq, (long)H_NOW, (unsigned long)H_QP);
}

/* ---------------------------------------------------------------- running the code under test */
static int run_main(const unsigned char *in, size_t n, int chunk) {
  drop_maps();
  ssin.p = 0; ssin.n = sizeof ssinbuf; ssout.p = 0;
  seenmail = 0; flagbarf = 0; rcptto.len = 0; mailfrom.len = 0; addr.len = 0; bytestooverflow = 0; qqt.flagerr = 0;
  databytes = 0; timeout = 1200; in_env = 0; nsub = 0;
  in_p = in; in_n = n; in_pos = 0; in_chunk = chunk;
  hbuf_reset(&replyb); hbuf_reset(&callb); ncalls = 0;
  hbuf_reset(&evb); ev_totalw = 0; ev_lastgen = 0; ev_on = 1;
  ipmeok = 1;
  int code = -1;
  h_exit_armed = 1;
  maps_live = 1;
  if (setjmp(h_jb) == 0) qmail_smtpd_main(); else code = h_exitcode;
  h_exit_armed = 0;
  ev_sync(0); ev_on = 0;
  return code;
}

static void s_case(int cfg, int chunk, const unsigned char *in, size_t n) {
  use_cfg(cfg);
  int code = run_main(in, n, chunk);
  fprintf(h_out, "S %d %d ", cfg, chunk); h_hex(in, n);
  fprintf(h_out, " %d ", code); h_hex(replyb.p, replyb.n);
  fprintf(h_out, " %d", nsub);
  for (int i = 0; i < nsub; i++) { fputc(' ', h_out); h_hex(sub_from[i].p, sub_from[i].n); fputc(' ', h_out); h_hex(sub_rcpt[i].p, sub_rcpt[i].n); }
  fputs(" D", h_out); put_calls();
  fputs(" E ", h_out); if (evb.n) fwrite(evb.p, 1, evb.n, h_out); else fputc('-', h_out);
  fputc('\n', h_out);
}

/* ---------------------------------------------------------------- (F) commands() called directly */
static const unsigned char *f_in; static size_t f_n, f_pos; static const unsigned char *f_script; static size_t f_ns, f_si;
static ssize_t f_read(int fd, void *buf, size_t len) {
  size_t k = f_n - f_pos;
  if (f_si < f_ns) { unsigned c = f_script[f_si++]; if (c == 0) { errno = EIO; return -1; } if (k > c) k = c; }
  if (k > len) k = len;
  if (k) memcpy(buf, f_in + f_pos, k);
  f_pos += k;
  return (ssize_t)k;
}
static const char *synth_texts[] = { "a", "AB", "ab", "", "x y", "Quit", "top", "Z", "z{", "@", "[a", "mail", 0 };
static struct commands f_table[MAXTAB + 1]; static int f_nt;
static void f_use_table(int tbl) {
  f_nt = 0;
  if (tbl == 0) { for (int i = 0; i < nsmtp; i++) f_table[f_nt++].text = smtpcommands[i].text; }
  else for (int i = 0; synth_texts[i]; i++) f_table[f_nt++].text = (char *)synth_texts[i];
  f_table[f_nt].text = 0;
  for (int i = 0; i <= f_nt; i++) { f_table[i].fun = rec_fun[i]; f_table[i].flush = 0; }
}
static void f_case(int tbl, int bufsize, const unsigned char *script, size_t ns, const unsigned char *in, size_t n) {
  static char fbuf[70000]; substdio fss; void (*save[MAXTAB])();
  if (bufsize < 1) bufsize = 1;
  if (bufsize > (int)sizeof fbuf) bufsize = sizeof fbuf;
  tbl = tbl ? 1 : 0;
  f_use_table(tbl);
  memcpy(save, orig_fun, sizeof save); memset(orig_fun, 0, sizeof orig_fun);     /* recorders only */
  f_in = in; f_n = n; f_pos = 0; f_script = script; f_ns = ns; f_si = 0;
  substdio_fdbuf(&fss, f_read, 0, fbuf, bufsize);
  hbuf_reset(&callb); ncalls = 0;
  int ret = 99;
  h_exit_armed = 1;
  if (setjmp(h_jb) == 0) ret = commands(&fss, f_table);
  h_exit_armed = 0;
  memcpy(orig_fun, save, sizeof save);
  fprintf(h_out, "F %d ", tbl);
  for (int i = 0; i < f_nt; i++) { if (i) fputc(',', h_out); h_hex((const unsigned char *)f_table[i].text, strlen(f_table[i].text)); }
  fprintf(h_out, " %d ", bufsize); h_hex(script, ns); fputc(' ', h_out); h_hex(in, n);
  fprintf(h_out, " %d", ret); put_calls();
  fputc('\n', h_out);
}

static int a_ready = -1;
static void a_case(int cfg, const unsigned char *arg, size_t n) {
  static char buf[70000];
  use_cfg(cfg);
  if (a_ready != cfg || !maps_live) { run_main((const unsigned char *)"", 0, 0); a_ready = cfg; }   /* setup() for this configuration */
  if (n >= sizeof buf || memchr(arg, 0, n)) return;
  memcpy(buf, arg, n); buf[n] = 0;
  int ok = -1, bmfr = -1, allowed = -1;
  h_exit_armed = 1;
  if (setjmp(h_jb) == 0) {
    ok = addrparse(buf);
    if (ok) { bmfr = bmfcheck(); allowed = addrallowed(); }
  }
  h_exit_armed = 0;
  fprintf(h_out, "A %d ", cfg); h_hex(arg, n); fprintf(h_out, " %d ", ok);
  if (ok == 1 && addr.len > 0) h_hex((unsigned char *)addr.s, addr.len - 1); else fputc('-', h_out);
  fprintf(h_out, " %d %d\n", bmfr, allowed);
}

/* ---------------------------------------------------------------- generators */
static uint64_t case_id; static int shard, nshards;
#define MINE() ((int)(case_id++ % (uint64_t)nshards) == shard)

static const char *g_local[] = { "u", "User", "a.b", "\"q s\"", "\"a@b\"", "x\\@y", "x\\>y", "", "bad", "Mixed", "\"un\\\"q", "a b", "<x", "\\", "#c" };
#define NLOCAL ((int)(sizeof g_local / sizeof g_local[0]))
static const char *g_dom[] = { "local.example", "LOCAL.Example", "sub.local.example", "wild.example", "x.wild.example", "X.Y.WILD.EXAMPLE",
  "xwild.example", "mixed.example", "spaced.example", "more.example", "MORE.example", "a.morewild.example", "morewild.example", "mspaced.example",
  "remote.example", "example", "", "local.example.", ".local.example", "[127.0.0.1]", "[10.0.0.1]", "[0.0.0.0]", "[1.2.3.4]",
  "[256.256.256.256]", "[127.0.0.1", "[127.0.0.1]x", "[0127.000.0.1]", "[383.0.0.1]", "[127.0.0.1.]", "[127.0.0]", "[127..0.1]", "[ 127.0.0.1]",
  "[18446744073709551743.0.0.1]", "spam.example", "evil.example", "Case.Example", "a", "a.a", "aa", "comment.example", "hash.example", "dos.example",
  "dos.example\r", "x.example", "x.example.", "caps.example", "notlisted.example", "\"local.example\"", "local.example>", "wild.example x",
  "#no.example", "# comment.example", "#hash.example" };
#define NDOM ((int)(sizeof g_dom / sizeof g_dom[0]))
static const char *g_wrap[] = { "<%s>", "FROM:<%s>", "TO:<%s>", "to: %s", "%s", "<@route.example:%s>", "<@r1,@r2:%s>", "TO:<%s> SIZE=100", "<%s",
  "%s>", ":%s", "TO:  %s extra", "<<%s>>", "to:@r:%s", "<@noroute %s>", "TO:\"<\"%s", "x:y:%s", "@r:%s" };
#define NWRAP ((int)(sizeof g_wrap / sizeof g_wrap[0]))

static size_t mk_addr(char *o, int form, const char *loc, const char *dom) {
  switch (form) {
    case 0: return sprintf(o, "%s@%s", loc, dom);
    case 1: return sprintf(o, "%s", loc);
    case 2: return sprintf(o, "@%s", dom);
    default: return sprintf(o, "%s@other.example@%s", loc, dom);
  }
}
static size_t rnd_arg(char *o) {
  char a[400];
  mk_addr(a, h_below(8) < 6 ? 0 : 1 + h_below(3), g_local[h_below(NLOCAL)], g_dom[h_below(NDOM)]);
  return sprintf(o, g_wrap[h_below(4) ? h_below(4) : h_below(NWRAP)], a);
}

static const char *palette[] = {
  "HELO client.example\n", "EHLO client.example\n",
  "MAIL FROM:<sender@remote.example>\n", "MAIL FROM:<bad@spam.example>\n", "mail from:<X@EVIL.example>\n", "MAIL FROM:<>\n",
  "RCPT TO:<user@local.example>\n", "RCPT TO:<Other@Sub.Wild.Example>\n", "RCPT TO:<relay@remote.example>\n", "rcpt  to: bare\n",
  "RCPT TO:<@route.example:lit@[127.0.0.1]>\n",
  "MAIL FROM:<\2>\n",
  "DATA\n\1Subject: t\r\n\r\nhello\r\n..\r\n.\r\n",
  "RSET\n", "\3", "QUIT\n" };
#define NPAL 16
static const char *neutral[] = { "NOOP\n", "VRFY user\n", "HELP\n", "BOGUS arg\n", "\n", "noop x\n", "MAILFROM:<x@local.example>\n", "RCPT\n" };

/* append palette entry e; '\n' = the session's line ending, \1 = rest verbatim, \2 = 900 'a', \3 = a state-neutral command */
static void add_pal(hbuf *b, int e, int mode, int *lineno, uint64_t salt) {
  const char *s = palette[e];
  if (*s == 3) s = neutral[salt % 8];
  for (; *s; s++) {
    if (*s == 1) { hadd(b, s + 1, strlen(s + 1)); return; }
    if (*s == 2) { for (int i = 0; i < 900; i++) hadd(b, "a", 1); continue; }
    if (*s == '\n') { int crlf = mode == 0 || (mode == 2 && (*lineno & 1)); (*lineno)++; if (crlf) hadd(b, "\r\n", 2); else hadd(b, "\n", 1); continue; }
    hadd(b, s, 1);
  }
}

static void exhaustive_sessions(int cfg, int maxlen) {
  static hbuf b;
  static const int chunks[3] = { 0, 1, 5 };
  for (int len = 0; len <= maxlen; len++) {
    uint64_t total = 1; for (int i = 0; i < len; i++) total *= NPAL;
    for (uint64_t k = 0; k < total; k++) {
      if (!MINE()) continue;
      uint64_t v = k; int lineno = 0; int mode = (int)((k + len) % 3);
      hbuf_reset(&b);
      for (int i = 0; i < len; i++) { add_pal(&b, (int)(v % NPAL), mode, &lineno, k / 3 + i); v /= NPAL; }
      s_case(cfg, chunks[(k / 3) % 3], b.p, b.n);
    }
  }
}

static void rnd_case(hbuf *b, const char *v) {
  for (; *v; v++) { char ch = *v; if (h_below(3) == 0 && ch >= 'A' && ch <= 'Z') ch += 32; hadd(b, &ch, 1); }
}
static void rnd_eol(hbuf *b, int mode) { if (mode == 0 || (mode == 2 && h_below(2))) hadd(b, "\r\n", 2); else hadd(b, "\n", 1); }

static void random_session(void) {
  static hbuf b; char arg[2000];
  hbuf_reset(&b);
  int cfg = h_below(3) ? (int)h_below(NFIXED) : NFIXED + (int)h_below(400);
  int n = 1 + h_below(30), mode = h_below(4) ? 0 : 1 + h_below(2);
  int orderly = h_below(2);
  for (int i = 0; i < n; i++) {
    int w = h_below(orderly ? 10 : 16);
    size_t al;
    switch (w) {
      case 0: case 1: case 10:
        rnd_case(&b, "MAIL"); hadd(&b, "   ", 1 + h_below(2)); al = rnd_arg(arg); hadd(&b, arg, al); rnd_eol(&b, mode); break;
      case 2: case 3: case 4: case 11: {
        int k = 1 + h_below(3);
        for (int j = 0; j < k; j++) { rnd_case(&b, "RCPT"); hadd(&b, "  ", 1 + h_below(2)); al = rnd_arg(arg); hadd(&b, arg, al); rnd_eol(&b, mode); }
        break; }
      case 5: case 6: case 12:
        rnd_case(&b, "DATA"); rnd_eol(&b, mode);
        { int nl = h_below(4);
          for (int j = 0; j < nl; j++) { static const char *bl[] = { "Subject: x", "", ".dot", "..", "Received: y", "RSET", "MAIL FROM:<z@local.example>", "a\rb" };
            const char *l = bl[h_below(8)]; hadd(&b, l, strlen(l)); if (h_below(40) == 0) hadd(&b, "\n", 1); else hadd(&b, "\r\n", 2); }
          if (h_below(25)) hadd(&b, ".\r\n", 3); }
        break;
      case 7: rnd_case(&b, h_below(2) ? "RSET" : "NOOP"); rnd_eol(&b, mode); break;
      case 8: rnd_case(&b, h_below(2) ? "HELO" : "EHLO"); hadd(&b, " h.example", 10); rnd_eol(&b, mode); break;
      case 9: { static const char *o[] = { "VRFY u", "HELP", "XYZZY", "", " ", "MAIL", "RCPT", "DATA x", "RSET now", "QUIT" };
        rnd_case(&b, o[h_below(h_below(6) ? 9 : 10)]); rnd_eol(&b, mode); break; }
      case 13: { /* address at the length limit */
        int L = 880 + h_below(30); rnd_case(&b, h_below(2) ? "MAIL FROM:<" : "RCPT TO:<");
        for (int j = 0; j < L; j++) hadd(&b, "a", 1);
        const char *d = g_dom[h_below(NDOM)]; hadd(&b, "@", 1); hadd(&b, d, strlen(d)); hadd(&b, ">", 1); rnd_eol(&b, mode); break; }
      case 14: { int L = h_below(12); for (int j = 0; j < L; j++) { char ch = "MAIL RCPT<>@:\0\r\"\\.x"[h_below(20)]; hadd(&b, &ch, 1); } rnd_eol(&b, mode); break; }
      default: rnd_case(&b, "RCPT TO:<user@local.example>"); hadd(&b, "\0junk", h_below(2) ? 5 : 0); rnd_eol(&b, mode); break;
    }
  }
  if (h_below(3) == 0) { rnd_case(&b, "QUIT"); rnd_eol(&b, mode); }
  s_case(cfg, (int[]){ 0, 0, 1, 3, 64, 1000 }[h_below(6)], b.p, b.n);
}

/* ---- (L) letter leg: configuration LBASE+i (written with character c) probed with every character p of the same set */
static const char *lprobe[] = { "<u@\1>", "<u@x.\1.w>", "<u@\1.w>", "<u@rh-\1.example>", "<u@x\1y.mid>", "<u@\1.more>", "<u@y.\1.mw>", "<u@\1\1>", "<u@\1\2>",
  "<u@m\1m.mid>", "<\1@\1.bad>", "<\2@\1.bad>", "<v@\1.evil>", "<\1@\1>", "<\2@\1>", "<v@\1.\1>", "<v@\2.\1>", "<b\1b@mid.bad>", "<u@\1.lip>", "<u@x\1>" };
#define NLPROBE ((int)(sizeof lprobe / sizeof lprobe[0]))
static const char *lsess[] = {
  "MAIL FROM:<\1@\1.bad>\nRCPT TO:<u@\1>\nDATA\n\3QUIT\n",
  "MAIL FROM:<v@\1.evil>\nRCPT TO:<u@\1>\nRCPT TO:<u@a.\1.w>\nDATA\n\3QUIT\n",
  "MAIL FROM:<\2@\1>\nRCPT TO:<u@\1\2>\nRCPT TO:<u@rh-\1.example>\nDATA\n\3",
  "MAIL FROM:<b\1b@mid.bad>\nRCPT TO:<u@x\1y.mid>\nRCPT TO:<u@m\1m.mid>\nDATA\n\3QUIT\n",
  "EHLO h\nMAIL FROM:<ok@remote.example>\nRCPT TO:<u@\1>\nRCPT TO:<u@a.\1.w>\nRCPT TO:<u@\1.more>\nRCPT TO:<u@b.\1.mw>\nRCPT TO:<u@[127.0.0.1]>\n"
    "RCPT TO:<u@\1.lip>\nRCPT TO:<u@remote.example>\nDATA\n\3MAIL FROM:<v@\1.\1>\nRCPT TO:<u@\1>\nDATA\n\3QUIT\n" };
#define NLSESS ((int)(sizeof lsess / sizeof lsess[0]))

static void hadds(hbuf *b, const char *s) { hadd(b, s, strlen(s)); }

static void letter_leg(int alen) {
  static hbuf b; static const int chunks[3] = { 0, 1, 5 };
  for (int i = 0; i < NLSET; i++) {
    if (i % nshards != shard) continue;
    int cfg = LBASE + i; unsigned char c = lset_at(i);
    for (int j = 0; j < NLSET; j++) {
      unsigned char p = lset_at(j);
      for (int t = 0; t < NLPROBE; t++) { hbuf_reset(&b); tmpl(&b, lprobe[t], p, p ^ 32); a_case(cfg, b.p, b.n); }
    }
    { static const char *fixedp[] = { "<u@[127.0.0.1]>", "<u@[10.0.0.1]>", "<u@[1.2.3.4]>", "<u>", "<>" };
      for (int t = 0; t < 5; t++) a_case(cfg, (const unsigned char *)fixedp[t], strlen(fixedp[t])); }
    /* the boundary letters: every string over { letter in both cases @ . < > } */
    if ((c | 32) == 'a' || (c | 32) == 'z') {
      const unsigned char al6[6] = { (unsigned char)(c | 32), (unsigned char)(c & ~32), '@', '.', '<', '>' }; unsigned char w[16];
      for (int len = 1; len <= alen && len <= 12; len++) {
        uint64_t total = 1; for (int q = 0; q < len; q++) total *= 6;
        for (uint64_t k = 0; k < total; k++) { uint64_t v = k; for (int q = 0; q < len; q++) { w[q] = al6[v % 6]; v /= 6; } a_case(cfg, w, (size_t)len); }
      }
    }
    /* sessions: the character itself, its bit-5 partner, and (for the boundary characters) the neighbouring letter */
    unsigned char ps[4] = { c, (unsigned char)(c ^ 32), c == '@' || c == '`' ? (unsigned char)(c + 1) : c == '[' || c == '{' ? (unsigned char)(c - 1) : c,
                            (unsigned char)((c | 32) == 'z' ? c - 25 : (c | 32) >= 'a' && (c | 32) < 'z' ? c + 1 : c) };
    for (int k = 0; k < 4; k++) for (int s = 0; s < NLSESS; s++) {
      if (k >= 2 && ps[k] == c) continue;
      int mode = (i + k + s) % 3, lineno = 0;
      hbuf_reset(&b);
      for (const char *q = lsess[s]; *q; q++) {
        char ch = *q;
        if (ch == 1) ch = (char)ps[k]; else if (ch == 2) ch = (char)(ps[k] ^ 32);
        else if (ch == 3) { hadds(&b, "Subject: t\r\n\r\nhello\r\n.\r\n"); continue; }
        else if (ch == '\n') { int crlf = mode == 0 || (mode == 2 && (lineno & 1)); lineno++; if (crlf) hadd(&b, "\r\n", 2); else hadd(&b, "\n", 1); continue; }
        hadd(&b, &ch, 1);
      }
      s_case(cfg, chunks[(i + s) % 3], b.p, b.n);
    }
  }
}

/* ---- probes derived from the current configuration: an entry of one of its control files, its letters re-cased
 * independently, sometimes pushed just outside the letter ranges or given one more / one fewer label */
static int cfg_lines(int f, const unsigned char **st, size_t *ln, int max) {
  int n = 0; const unsigned char *p = cur.f[f].p; size_t len = cur.has[f] ? cur.f[f].n : 0, i = 0;
  while (i < len && n < max) {
    size_t j = i; while (j < len && p[j] != '\n') j++;
    size_t e = j; while (e > i && (p[e - 1] == ' ' || p[e - 1] == '\t' || p[e - 1] == '\r')) e--;
    if (e > i && e - i < 150 && !memchr(p + i, 0, e - i)) { st[n] = p + i; ln[n] = e - i; n++; }
    i = j + 1;
  }
  return n;
}
static size_t probe_addr(char *o, int sender) {
  const unsigned char *st[32]; size_t ln[32]; char e[400]; size_t m = 0;
  static const char *locs[] = { "u", "User", "z", "Z", "Zaz", "a.Z", "\"z Z\"" };
  int f = sender ? (h_below(5) ? F_BMF : F_RH) : (int[]){ F_RH, F_RH, F_MORE, F_MORE, F_LIP, F_BMF }[h_below(6)];
  int n = cfg_lines(f, st, ln, 32);
  if (!n) { f = F_RH; n = cfg_lines(f, st, ln, 32); }
  if (!n) { f = F_MORE; n = cfg_lines(f, st, ln, 32); }
  if (!n) return (size_t)sprintf(o, "%s@Zed.remote.example", locs[h_below(7)]);
  int k = (int)h_below((uint32_t)n);
  const unsigned char *at = memchr(st[k], '@', ln[k]);
  if (at && f == F_BMF) {
    if (at == st[k] || h_below(5) == 0) { m = (size_t)sprintf(e, "%s", locs[h_below(7)]); memcpy(e + m, at, ln[k] - (size_t)(at - st[k])); m += ln[k] - (size_t)(at - st[k]); }
    else { memcpy(e, st[k], ln[k]); m = ln[k]; }
  } else {
    m = (size_t)sprintf(e, "%s@", locs[h_below(7)]);
    if (st[k][0] == '.') { if (h_below(6)) m += rnd_label(e + m); }
    else if (h_below(6) == 0) { m += rnd_label(e + m); if (h_below(3)) e[m++] = '.'; }
    memcpy(e + m, st[k], ln[k]); m += ln[k];
  }
  flipcase(e, m, rnd_flipmode());
  if (h_below(8) == 0) {                  /* one letter replaced by the character just outside its range, or by the next letter */
    size_t pos = h_below((uint32_t)m); char ch = e[pos];
    if ((ch | 32) >= 'a' && (ch | 32) <= 'z')
      e[pos] = ch == 'a' ? '`' : ch == 'A' ? '@' : ch == 'z' ? '{' : ch == 'Z' ? '[' : (char)(ch + 1);
  }
  memcpy(o, e, m); o[m] = 0;
  return m;
}
static size_t probe_arg(char *o, int sender) {
  char a[450]; probe_addr(a, sender);
  return (size_t)sprintf(o, g_wrap[h_below(6) ? h_below(3) : h_below(NWRAP)], a);
}

static void alpha_round(void) {
  static hbuf b; char arg[2000]; size_t al;
  int cfg = ABASE + (int)h_below(NALPHA);
  use_cfg(cfg);
  for (int j = 0; j < 16; j++) { al = probe_arg(arg, j & 1); a_case(cfg, (unsigned char *)arg, al); }
  hbuf_reset(&b);
  int mode = h_below(4) ? 0 : 1 + (int)h_below(2), ntx = 1 + (int)h_below(2);
  for (int t = 0; t < ntx; t++) {
    if (h_below(4) == 0) { rnd_case(&b, h_below(2) ? "HELO" : "EHLO"); hadd(&b, " h.example", 10); rnd_eol(&b, mode); }
    rnd_case(&b, "MAIL"); hadd(&b, " ", 1);
    if (h_below(3) == 0) hadds(&b, "FROM:<ok@remote.example>"); else { al = probe_arg(arg, 1); hadd(&b, arg, al); }
    rnd_eol(&b, mode);
    int k = 1 + (int)h_below(4);
    for (int j = 0; j < k; j++) {
      rnd_case(&b, "RCPT"); hadd(&b, " ", 1);
      al = h_below(8) ? probe_arg(arg, 0) : rnd_arg(arg); hadd(&b, arg, al); rnd_eol(&b, mode);
      if (h_below(12) == 0) { rnd_case(&b, "MAIL"); hadd(&b, " ", 1); al = probe_arg(arg, 1); hadd(&b, arg, al); rnd_eol(&b, mode); }
    }
    rnd_case(&b, "DATA"); rnd_eol(&b, mode);
    hadds(&b, "Subject: x\r\n\r\nz\r\n.\r\n");
  }
  if (h_below(3)) { rnd_case(&b, "QUIT"); rnd_eol(&b, mode); }
  s_case(cfg, (int[]){ 0, 0, 1, 3, 64, 1000 }[h_below(6)], b.p, b.n);
}

/* ---- (F) byte streams for commands(): lines built from table texts (re-cased, characters swapped with their bit-5 partners,
 * truncated / extended), blanks before / between / after, arguments with NUL, CR, TAB and 8-bit bytes, LF / CRLF / CRCRLF / CR-in-
 * the-middle line ends, very long lines, an unterminated last line; buffer sizes 1..1024, read scripts with short reads and a
 * failing read */
static void f_random(void) {
  static hbuf b; unsigned char script[64]; size_t ns = 0;
  int tbl = (int)h_below(2);
  f_use_table(tbl);
  hbuf_reset(&b);
  int nl = (int)h_below(h_below(4) ? 6 : 14);
  for (int i = 0; i < nl; i++) {
    int lead = h_below(6) == 0 ? 1 + (int)h_below(2) : 0;
    for (int j = 0; j < lead; j++) hadd(&b, " ", 1);
    { char v[40]; size_t m = 0;
      switch (h_below(8)) {
        case 0: m = (size_t)sprintf(v, "%s", "xyzzy"); break;
        case 1: m = 0; break;
        default: { const char *t = f_table[h_below((uint32_t)f_nt)].text; m = strlen(t); memcpy(v, t, m); }
      }
      flipcase(v, m, rnd_flipmode());
      if (m && h_below(10) == 0) { size_t pos = h_below((uint32_t)m); v[pos] ^= 32; }                 /* bit-5 partner, letter or not */
      if (m && h_below(12) == 0) m--;                                                                    /* one byte short */
      if (h_below(12) == 0) v[m++] = "aZ{@ \t"[h_below(6)];                                              /* one byte too many */
      hadd(&b, v, m); }
    if (h_below(4)) {
      int sp = h_below(5) ? 1 : (int)h_below(4);
      for (int j = 0; j < sp; j++) hadd(&b, " ", 1);
      if (sp == 0 && h_below(2)) hadd(&b, "\t", 1);
      if (h_below(40) == 0) { int L = 1000 + (int)h_below(h_below(4) ? 3000 : 66000); for (int j = 0; j < L; j++) hadd(&b, j % 97 ? "x" : " ", 1); }
      else { static const char argal[] = "FROM:<a@b> to \0\r\t\x80\xff\"\\xY  ";
             int L = (int)h_below(12); for (int j = 0; j < L; j++) { char ch = argal[h_below(sizeof argal - 1)]; hadd(&b, &ch, 1); } }
      for (int j = (int)h_below(6) ? 0 : 1 + (int)h_below(2); j > 0; j--) hadd(&b, " ", 1);
    }
    switch (h_below(10)) { case 0: hadd(&b, "\n", 1); break; case 1: hadd(&b, "\r\r\n", 3); break; case 2: hadd(&b, "\r \n", 3); break;
      case 3: hadd(&b, "\0\n", 2); break; case 4: hadd(&b, "\r\0\r\n", 4); break; default: hadd(&b, "\r\n", 2); }
  }
  if (h_below(4) == 0) hadd(&b, "quit\r", h_below(6));                                                   /* unterminated tail */
  int bufsize = (int[]){ 1, 1, 2, 3, 7, 16, 64, 1024 }[h_below(8)];
  switch (h_below(4)) {
    case 0: ns = 0; break;
    case 1: ns = 1 + h_below(60); for (size_t j = 0; j < ns; j++) script[j] = (unsigned char)(1 + h_below(h_below(3) ? 4 : 200)); break;
    case 2: ns = 63; for (size_t j = 0; j < ns; j++) script[j] = 1; break;
    default: ns = 1 + h_below(40); for (size_t j = 0; j < ns; j++) script[j] = (unsigned char)(1 + h_below(9)); script[h_below((uint32_t)ns)] = 0; break;
  }
  if (b.n > 3000) {                       /* the model's read is linear in what is left: keep the number of reads of a long stream small */
    bufsize = h_below(2) ? 1024 : 64 + (int)h_below(4000);
    for (size_t j = 0; j < ns; j++) if (script[j]) script[j] = (unsigned char)(script[j] | 128);
    if (ns > 8) ns = 8;
  }
  f_case(tbl, bufsize, script, ns, b.p, b.n);
}

static void f_legs(int flen, int nrandom) {
  /* (F1) every stream over { a B space CR LF NUL } under the synthetic table, buffer size / read size rotating */
  static const unsigned char al[6] = { 'a', 'B', ' ', '\r', '\n', 0 }; unsigned char w[16];
  static const unsigned char one[40] = { 1,1,1,1,1,1,1,1,1,1,1,1,1,1,1,1,1,1,1,1,1,1,1,1,1,1,1,1,1,1,1,1,1,1,1,1,1,1,1,1 };
  static const unsigned char two[4] = { 2, 1, 3, 2 };
  for (int len = 0; len <= flen && len <= 12; len++) {
    uint64_t total = 1; for (int q = 0; q < len; q++) total *= 6;
    for (uint64_t k = 0; k < total; k++) {
      if (!MINE()) continue;
      uint64_t v = k; for (int q = 0; q < len; q++) { w[q] = al[v % 6]; v /= 6; }
      switch (k % 4) {
        case 0: f_case(1, 1024, 0, 0, w, (size_t)len); break;
        case 1: f_case(1, 1, 0, 0, w, (size_t)len); break;
        case 2: f_case(1, 2, one, sizeof one, w, (size_t)len); break;
        default: f_case(1, 3, two, sizeof two, w, (size_t)len); break;
      }
    }
  }
  /* (F2) fixed streams under the real smtpcommands[] texts */
  {
#define FX(s) { s, sizeof s - 1 }
    static const struct { const char *p; size_t n; } fx[] = {
      FX("MAIL FROM:<a@b>\r\nrcpt to:<c@d>\nDaTa\r\nquit\r\n"),
      FX("HELO\r\r\nEHLO  x \r\n NOOP\r\n\r\n\nRSET\0junk\r\nVRFY\ta\r\nHELP me\r\nquit"),
      FX("MAILFROM:<a>\r\nMAI\r\nmailx y\r\nM@IL z\r\nmAIL\0 z\r\nMAIL\r z\r\n`UIT\r\nQUIT\r") };
    for (int i = 0; i < 3; i++) for (int bs = 0; bs < 3; bs++) {
      if (!MINE()) continue;
      f_case(0, (int[]){ 1024, 1, 5 }[bs], one, bs == 2 ? sizeof one : 0, (const unsigned char *)fx[i].p, fx[i].n);
    } }
  /* (F3) seeded */
  for (int r = 0; r < nrandom; r++) { if ((r % nshards) != shard) continue; f_random(); }
}

static int unhex(const char *h, unsigned char *o) {
  int n = 0;
  if (h[0] == '-') return 0;
  for (; h[0] && h[1] && h[0] != '\n'; h += 2) { unsigned v; if (sscanf(h, "%2x", &v) != 1) break; o[n++] = v; }
  return n;
}

int main(int argc, char **argv) {
  h_init_out();
  { const char *t = getenv("TMPDIR"); char ctl[600];
    snprintf(auto_qmail, sizeof auto_qmail, "%s/nq-c08-XXXXXX", t ? t : "/tmp");
    if (!mkdtemp(auto_qmail)) { perror("mkdtemp"); return 99; }
    snprintf(ctl, sizeof ctl, "%s/control", auto_qmail); mkdir(ctl, 0755);
    put_file("me", 1, ME, strlen(ME)); }
  if (!ipalloc_readyplus(&ipme, NIPME)) return 99;
  ipme.len = 0;
  for (int i = 0; i < NIPME; i++) { struct ip_mx ix; ix.pref = 0; memcpy(&ix.ip, IPME[i], 4); ipalloc_append(&ipme, &ix); }
  ipmeok = 1;
  hook_smtpcommands();
  fprintf(h_out, "B %d\n", (int)sizeof ssinbuf);
  int rc = 0;
  if (argc > 1 && !strcmp(argv[1], "-")) {
    static char line[600000], hx[600000]; static unsigned char b[300000];
    while (fgets(line, sizeof line, stdin)) {
      int cfg, chunk;
      if (sscanf(line, "S %d %d %s", &cfg, &chunk, hx) == 3) s_case(cfg, chunk, b, unhex(hx, b));
      else if (sscanf(line, "A %d %s", &cfg, hx) == 2) a_case(cfg, b, unhex(hx, b));
      else { static char sx[4000]; static unsigned char sc[2000]; int tbl, bs;
        if (sscanf(line, "F %d %d %3999s %s", &tbl, &bs, sx, hx) == 4) { int ns = unhex(sx, sc); f_case(tbl, bs, sc, (size_t)ns, b, unhex(hx, b)); } }
    }
    goto done;
  }
  {
  int alen = h_argi(argc, argv, 1, 5), slenA = h_argi(argc, argv, 2, 4), slenB = h_argi(argc, argv, 3, 3), nrandom = h_argi(argc, argv, 4, 4000);
  uint64_t seed = (uint64_t)h_argi(argc, argv, 5, 1);
  shard = h_argi(argc, argv, 6, 0); nshards = h_argi(argc, argv, 7, 1);
  static char arg[4000], a[2000];

  /* (A1) every string over the address alphabet, under the single-letter configuration 6 */
  static const char alpha[11] = { 'a', '@', '.', '<', '>', '"', '\\', ':', '[', ']', ' ' };
  for (int len = 0; len <= alen; len++) {
    uint64_t total = 1; for (int i = 0; i < len; i++) total *= 11;
    for (uint64_t k = 0; k < total; k++) {
      if (!MINE()) continue;
      uint64_t v = k; for (int i = 0; i < len; i++) { arg[i] = alpha[v % 11]; v /= 11; }
      a_case(6, (unsigned char *)arg, len);
    }
  }
  /* (A2) wrapper x local part x domain x form, under every fixed configuration */
  for (int cfg = 0; cfg < NFIXED; cfg++)
    for (int w = 0; w < NWRAP; w++) for (int l = 0; l < NLOCAL; l++) for (int d = 0; d < NDOM; d++) for (int f = 0; f < 4; f++) {
      if ((f == 1 && d) || (f == 2 && l)) continue;
      if (cfg != 2 && cfg != 6 && cfg != 11 && (w > 5 || l > 6)) continue;
      if (!MINE()) continue;
      mk_addr(a, f, g_local[l], g_dom[d]);
      a_case(cfg, (unsigned char *)arg, sprintf(arg, g_wrap[w], a));
    }
  /* (A3) the length limit, with and without localiphost substitution */
  for (int cfg = 2; cfg <= 12; cfg += 2)
    for (int L = 870; L <= 905; L++) for (int d = 0; d < 5; d++) {
      if (!MINE()) continue;
      static const char *ld[] = { "", "@local.example", "@[127.0.0.1]", "@[1.2.3.4]", "@remote.example" };
      size_t n = 0; arg[n++] = '<'; for (int j = 0; j < L; j++) arg[n++] = 'a'; n += sprintf(arg + n, "%s>", ld[d]);
      a_case(cfg, (unsigned char *)arg, n);
    }
  /* (S1) every sequence of palette commands */
  { static const int deep[] = { 2, 4 }, shallow[] = { 0, 1, 3, 5, 7, 8, 9, 10, 12 };
    for (int i = 0; i < 2; i++) exhaustive_sessions(deep[i], slenA);
    for (int i = 0; i < 9; i++) exhaustive_sessions(shallow[i], slenB); }
  /* (S2) seeded random sessions and (A4) random arguments under random configurations */
  h_seed(seed * 1000003ull + (uint64_t)shard);
  for (int r = 0; r < nrandom; r++) {
    if ((r % nshards) != shard) continue;
    random_session();
    if (r % 4 == 0) { int cfg = NFIXED + (int)h_below(400); for (int j = 0; j < 40; j++) { size_t n = rnd_arg(arg); a_case(cfg, (unsigned char *)arg, n); } }
  }
  /* (L) every letter, both cases, and the characters next to the letter ranges: control-file character x probe character */
  letter_leg(alen);
  /* (S3/A5) configurations over the whole alphabet in both cases, probed with re-cased copies of their own entries */
  for (int r = 0; r < nrandom / 2; r++) {
    if ((r % nshards) != shard) continue;
    alpha_round();
  }
  /* (F) commands() called directly: framing of the byte stream into calls */
  f_legs(alen + 1, nrandom);
  }
done:
  fflush(h_out);
  { char p[700]; static const char *fs[] = { "control/me", "control/rcpthosts", "control/morercpthosts", "control/morercpthosts.cdb", "control/morercpthosts.tmp",
      "control/badmailfrom", "control/localiphost", "control", "" };
    for (int i = 0; i < 9; i++) { snprintf(p, sizeof p, "%s/%s", auto_qmail, fs[i]); if (i < 7) unlink(p); else rmdir(p); } }
  return rc;
}
