/* C17 correspondence harness H2: the real qmail-inject.c main() (with headerbody.c, hfield.c, token822.c,
 * quote.c, newfield.c) run in-process against a stand-in queue that records envelope and message.
 *
 * usage: c17_inject <nstructured> <nmalformed> <seed> <shard> <nshards>   |   c17_inject -   (cases on stdin)
 *
 * first output line:  C <starttime> <pid> <newfield_date hex> <msgid stamp hex>
 * case (stdin and output; output appends the results):
 *   I <QMAILINJECT|-> <strategy d|a|h|H [n]> <-f sender hex|N> <recips hex,hex…|-> <env> <stdin hex> <E>
 *        env = QMAILUSER,QMAILHOST,QMAILSHOST,QMAILSUSER,QMAILNAME,defaultdomain,defaulthost,plusdomain,idhost  (hex, ~ = unset)
 *        E   = X  or  ';'-separated  <kind>=<mbox>,<mbox>…   kind: t To  c Cc  b Bcc  a Apparently-To  T Resent-To  C Resent-Cc
 *              B Resent-Bcc  r other Resent-*  s sender-type field  A command-line recipients;  mbox = <local hex>/<host hex|~>
 *     … <exit> <sender hex> <recips|-> <message hex> <exit2> <recips2|->
 *        exit2/recips2 = the message produced by the first run injected again with -h (the re-parse of the rewritten header)
 *   B <stdin hex>   … <rc> <order> <fields hex,hex…|-> <body pieces hex,hex…|->
 *        the real headerbody() (headerbody.c + getln.c) called directly with recording callbacks; order = 1 iff hdone was
 *        called exactly once, after every dohf and before every dobl.  Every I case also emits the B line of its stdin.
 *   W <texts hex,hex…|-> <tail hex|->   … <rc> <order> <fields> <body pieces>
 *        a message built BY CONSTRUCTION from well-formed field texts (one logical line each, valid name, not a From line)
 *        followed by nothing or by an empty line and arbitrary bytes: headerbody() must return exactly these texts (C17_headerbody_wellformed)
 *   optional 6th argument: length bound of the exhaustive B enumeration over the pieces LF SP TAB a : b "From " (default 5)
 */
#include "hcommon.h"
#include <time.h>
static time_t h_time(time_t *t) { return 812090813; }   /* 26 Sep 1995 04:46:53 GMT */
#define H_PID 12345
#define _exit(x) h_exit(x)
#define time(x) h_time(x)
#define getpid() H_PID
#define chdir(x) 0
#define puts inject_puts
#define put inject_put
#define main inject_main
#include "qmail-inject.c"
#include "newfield.c"
#undef main
#undef _exit
#undef chdir
#include "c17_gen.h"

extern char **environ;

/* ---- replaces qmail.o: the stand-in queue ---- */
static hbuf q_msg, q_from, q_to; static int q_nto;
int qmail_open(struct qmail *qq) { qq->flagerr = 0; return 0; }
void qmail_put(struct qmail *qq, char *s, size_t len) { hbuf_add(&q_msg, s, len); }
void qmail_fail(struct qmail *qq) { qq->flagerr = 1; }
void qmail_from(struct qmail *qq, char *s) { hbuf_reset(&q_from); hbuf_add(&q_from, s, strlen(s)); }
void qmail_to(struct qmail *qq, char *s) {
  static const char d[] = "0123456789abcdef";
  if (q_nto++) hbuf_add(&q_to, ",", 1);
  if (!*s) hbuf_add(&q_to, "e", 1);
  for (; *s; s++) { char x[2] = { d[(unsigned char)*s >> 4], d[*s & 15] }; hbuf_add(&q_to, x, 2); }
}
char *qmail_close(struct qmail *qq) { return ""; }
unsigned long qmail_qp(struct qmail *qq) { return 1; }

/* ---- replaces control.o: control files come from the case ---- */
static const char *ctl_dd, *ctl_dh, *ctl_pd, *ctl_id;
int control_init() { return 1; }
int control_rldef(stralloc *sa, char *fn, int flagme, char *def) {
  const char *v = def;
  if (!strcmp(fn, "control/defaultdomain")) v = ctl_dd;
  else if (!strcmp(fn, "control/defaulthost")) v = ctl_dh;
  else if (!strcmp(fn, "control/plusdomain")) v = ctl_pd;
  else if (!strcmp(fn, "control/idhost")) v = ctl_id;
  if (!v) v = def;
  return stralloc_copys(sa, (char *)v) ? 1 : -1;
}
int control_readline(stralloc *sa, char *fn) { return 0; }
int control_readint(int *i, char *fn) { return 0; }
int control_readfile(stralloc *sa, char *fn, int flagme) { return 0; }

/* ---- stdin / stdout / stderr of the program ---- */
static const unsigned char *in_p; static size_t in_n, in_pos;
static ssize_t in_read(int fd, char *buf, size_t len) {
  size_t k = in_n - in_pos; if (k > len) k = len;
  if (k > 37) k = 37;                       /* odd chunking */
  if (k) memcpy(buf, in_p + in_pos, k);
  in_pos += k; return k;
}
static hbuf o_msg;
static ssize_t out_write(int fd, const char *buf, size_t len) { hbuf_add(&o_msg, buf, len); return len; }
static ssize_t err_write(int fd, const char *buf, size_t len) { return len; }
static substdio my_in, my_out, my_err; static char my_inbuf[256], my_outbuf[256], my_errbuf[256];

static void free_saa(saa *l) { for (int i = 0; i < l->len; i++) { if (l->sa[i].s) free(l->sa[i].s); l->sa[i] = sauninit; } l->len = 0; }

typedef struct { char *flags; char strat; int nflag; char *fsender; char *recips[16]; int nrecips; char *env[9]; } icase;

static int run_inject(icase *c, const unsigned char *inp, size_t n, int second) {
  static char *envv[16]; static char envbuf[16][600]; int ne = 0;
  static const char *names[5] = { "QMAILUSER", "QMAILHOST", "QMAILSHOST", "QMAILSUSER", "QMAILNAME" };
  if (c->flags) { snprintf(envbuf[ne], 600, "QMAILINJECT=%s", c->flags); envv[ne] = envbuf[ne]; ne++; }
  for (int i = 0; i < 5; i++) if (c->env[i]) { snprintf(envbuf[ne], 600, "%s=%s", names[i], c->env[i]); envv[ne] = envbuf[ne]; ne++; }
  envv[ne] = 0;
  ctl_dd = c->env[5]; ctl_dh = c->env[6]; ctl_pd = c->env[7]; ctl_id = c->env[8];
  char *argv[32]; int argc = 0; char fopt[3] = "-f";
  argv[argc++] = "qmail-inject";
  if (second) argv[argc++] = "-h";
  else {
    if (c->strat == 'a') argv[argc++] = "-a"; else if (c->strat == 'h') argv[argc++] = "-h"; else if (c->strat == 'H') argv[argc++] = "-H";
    if (c->nflag) argv[argc++] = "-n";
    if (c->fsender) { argv[argc++] = fopt; argv[argc++] = c->fsender; }
    argv[argc++] = "--";
    for (int i = 0; i < c->nrecips; i++) argv[argc++] = c->recips[i];
  }
  argv[argc] = 0;
  /* reset every global qmail-inject dirties */
  if (sender.s) free(sender.s); sender = sauninit;
  free_saa(&savedh); free_saa(&hrlist); free_saa(&tocclist); free_saa(&hrrlist); free_saa(&reciplist);
  flagdeletesender = flagdeletefrom = flagdeletemessid = flagnamecomment = flaghackmess = flaghackrecip = 0;
  flagmft = 0; flagresent = 0; flagrh = 0; flagqueue = 1;
  subgetoptind = 1; subgetoptpos = 0;
  in_p = inp; in_n = n; in_pos = 0;
  substdio_fdbuf(&my_in, in_read, 0, my_inbuf, sizeof my_inbuf); subfdin = &my_in;
  substdio_fdbuf(&my_out, out_write, 1, my_outbuf, sizeof my_outbuf); subfdout = &my_out;
  substdio_fdbuf(&my_err, err_write, 2, my_errbuf, sizeof my_errbuf); subfderr = &my_err;
  hbuf_reset(&q_msg); hbuf_reset(&q_from); hbuf_reset(&q_to); q_nto = 0; hbuf_reset(&o_msg);
  char **saved_env = environ; environ = envv;
  h_exit_armed = 1; h_exitcode = -1;
  if (setjmp(h_jb) == 0) { inject_main(argc, argv); h_exitcode = -2; }
  h_exit_armed = 0; environ = saved_env;
  return h_exitcode;
}


/* ---- B lines: headerbody() itself ---- */
static hbuf b_fields, b_body; static int b_nf, b_nb, b_state, b_hdone_n, b_bad;
static void b_item(hbuf *b, int *n, stralloc *sa) {
  static const char d[] = "0123456789abcdef";
  if ((*n)++) hbuf_add(b, ",", 1);
  if (!sa->len) hbuf_add(b, "e", 1);
  for (unsigned int i = 0; i < sa->len; i++) { char x[2] = { d[(unsigned char)sa->s[i] >> 4], d[sa->s[i] & 15] }; hbuf_add(b, x, 2); }
}
static void b_dohf(stralloc *h) { if (b_state != 0) b_bad = 1; b_item(&b_fields, &b_nf, h); }
static void b_hdone(void) { if (b_state != 0) b_bad = 1; b_state = 1; b_hdone_n++; }
static void b_dobl(stralloc *h) { if (b_state != 1) b_bad = 1; b_item(&b_body, &b_nb, h); }
static void run_hb(const unsigned char *inp, size_t n) {
  hbuf_reset(&b_fields); hbuf_reset(&b_body); b_nf = b_nb = b_state = b_hdone_n = b_bad = 0;
  in_p = inp; in_n = n; in_pos = 0;
  substdio_fdbuf(&my_in, in_read, 0, my_inbuf, sizeof my_inbuf);
  int rc = headerbody(&my_in, b_dohf, b_hdone, b_dobl);
  fputs("B ", h_out); h_hex(inp, n);
  fprintf(h_out, " %d %d ", rc, (!b_bad && b_hdone_n == 1) ? 1 : 0);
  if (b_nf) fwrite(b_fields.p, 1, b_fields.n, h_out); else fputc('-', h_out);
  fputc(' ', h_out);
  if (b_nb) fwrite(b_body.p, 1, b_body.n, h_out); else fputc('-', h_out);
  fputc('\n', h_out);
}

/* exhaustive: every sequence of at most `len` pieces */
static const char *b_piece[] = { "\n", " ", "\t", "a", ":", "b", "From " };
#define B_NP 7
static void gen_hb_exhaustive(int len, int shard, int nshards) {
  uint64_t id = 0;
  for (int L = 0; L <= len; L++) {
    uint64_t total = 1; for (int i = 0; i < L; i++) total *= B_NP;
    for (uint64_t k = 0; k < total; k++, id++) {
      if ((int)(id % nshards) != shard) continue;
      unsigned char buf[64]; size_t n = 0; uint64_t v = k;
      for (int i = 0; i < L; i++) { const char *p = b_piece[v % B_NP]; v /= B_NP; size_t l = strlen(p); memcpy(buf + n, p, l); n += l; }
      run_hb(buf, n);
    }
  }
}
/* random: lines from a pool (field starts, continuations, From lines, empty lines, junk), odd bytes, missing final LF */
static void gen_hb_random(void) {
  static hbuf m; hbuf_reset(&m);
  static const char *pool[] = { "To: a@b\n", "Cc: c@d,\n", " e@f\n", "\tg@h\n", "\n", "From x\n", "From: y\n", "From \n", "From", "garbage\n",
    "x y: z\n", "a :b\n", ":\n", "a\t :\n", "MBOX-Line: From z\n", "Bcc: s@t\n", " \n", "\t\n", "Subject: hi\n", "A:", "a:\n", "\x80:\n", "a\x7f:\n", "!~:\n",
    "Fro: m\n", "from x\n", " From x\n", "k" };
  int nl = h_below(9);
  for (int i = 0; i < nl; i++) {
    if (h_below(12) == 0) { int k = 1 + h_below(6); for (int j = 0; j < k; j++) g_c(&m, h_below(4) ? "\n \t:aF"[h_below(7)] : (int)h_below(256)); }
    else g_s(&m, pool[h_below(sizeof pool / sizeof *pool)]);
  }
  if (m.n && h_below(6) == 0) m.n--;            /* drop the last byte: often an unterminated last line */
  if (h_below(40) == 0) { int k = 300 + h_below(300); for (int j = 0; j < k; j++) g_c(&m, 'l'); if (h_below(2)) g_s(&m, ": v\n more\n\nb"); }   /* longer than the 256-byte buffer */
  run_hb(m.p, m.n);
}

/* W lines: message = well-formed field texts ++ (nothing | LF ++ anything) */
static void run_hbw(hbuf *texts, int ntexts, const unsigned char *msg, size_t n, const unsigned char *tail, size_t tn) {
  hbuf_reset(&b_fields); hbuf_reset(&b_body); b_nf = b_nb = b_state = b_hdone_n = b_bad = 0;
  in_p = msg; in_n = n; in_pos = 0;
  substdio_fdbuf(&my_in, in_read, 0, my_inbuf, sizeof my_inbuf);
  int rc = headerbody(&my_in, b_dohf, b_hdone, b_dobl);
  fputs("W ", h_out);
  if (ntexts) fwrite(texts->p, 1, texts->n, h_out); else fputc('-', h_out);
  fputc(' ', h_out); h_hex(tail, tn);
  fprintf(h_out, " %d %d ", rc, (!b_bad && b_hdone_n == 1) ? 1 : 0);
  if (b_nf) fwrite(b_fields.p, 1, b_fields.n, h_out); else fputc('-', h_out);
  fputc(' ', h_out);
  if (b_nb) fwrite(b_body.p, 1, b_body.n, h_out); else fputc('-', h_out);
  fputc('\n', h_out);
}
static void hexadd(hbuf *b, const unsigned char *p, size_t n) {
  static const char d[] = "0123456789abcdef";
  for (size_t i = 0; i < n; i++) { char x[2] = { d[p[i] >> 4], d[p[i] & 15] }; hbuf_add(b, x, 2); }
}
static void gen_hb_wellformed(void) {
  static hbuf m, tx, one, tl; hbuf_reset(&m); hbuf_reset(&tx); hbuf_reset(&tl);
  static const char *names[] = { "To", "cc", "BCC", "Subject", "X-y", "Received", "From", "From\t", "MBOX-Line", "a", "!#$%&'*+-./09;<=>?@AZ[\\]^_`az{|}~", "Resent-To " };
  static const char *frag[] = { " a@b", "", "x", " \"q\" <u@h>,", "(c) d", ":", "::", "\t", " From x", "\x80\xff", "\r", "Bcc: z" };
  int nt = h_below(5);
  for (int i = 0; i < nt; i++) {
    hbuf_reset(&one);
    g_s(&one, names[h_below(sizeof names / sizeof *names)]);
    if (h_below(4) == 0) g_c(&one, ' ');
    g_c(&one, ':');
    g_s(&one, frag[h_below(sizeof frag / sizeof *frag)]);
    int nc = h_below(3) ? 0 : 1 + h_below(3);
    for (int j = 0; j < nc; j++) { g_c(&one, '\n'); g_c(&one, h_below(2) ? ' ' : '\t'); if (h_below(5)) g_s(&one, frag[h_below(sizeof frag / sizeof *frag)]); }
    g_c(&one, '\n');
    if (i) hbuf_add(&tx, ",", 1);
    hexadd(&tx, one.p, one.n);
    hbuf_add(&m, one.p, one.n);
  }
  uint32_t k = h_below(6);
  if (k) {                                       /* k == 0: no body at all */
    g_c(&tl, '\n');
    if (k == 2) g_s(&tl, "body\nTo: x@y\n");
    else if (k == 3) g_s(&tl, " indented\n\n\nlast line without LF");
    else if (k == 4) g_s(&tl, "\nTo: after@two.blank\n");
    else if (k == 5) { int q = h_below(12); for (int j = 0; j < q; j++) g_c(&tl, h_below(3) ? "\n :aF\t"[h_below(6)] : (int)h_below(256)); }
  }
  if (tl.n) hbuf_add(&m, tl.p, tl.n);
  run_hbw(&tx, nt, m.p, m.n, tl.p, tl.n);
}

static void print_field(const char *s) { if (!s) fputc('~', h_out); else h_hex((const unsigned char *)s, strlen(s)); }

static void run_case(icase *c, const unsigned char *inp, size_t n, const char *E) {
  run_hb(inp, n);
  fprintf(h_out, "I %s %c%s ", (c->flags && *c->flags) ? c->flags : "-", c->strat, c->nflag ? "n" : "");
  if (c->fsender) h_hex((unsigned char *)c->fsender, strlen(c->fsender)); else fputc('N', h_out);
  fputc(' ', h_out);
  if (!c->nrecips) fputc('-', h_out);
  for (int i = 0; i < c->nrecips; i++) { if (i) fputc(',', h_out); if (!*c->recips[i]) fputc('e', h_out); else h_hex((unsigned char *)c->recips[i], strlen(c->recips[i])); }
  fputc(' ', h_out);
  for (int i = 0; i < 9; i++) { if (i) fputc(',', h_out); print_field(c->env[i]); }
  fputc(' ', h_out); h_hex(inp, n); fprintf(h_out, " %s ", E);
  int ex = run_inject(c, inp, n, 0);
  hbuf *m = c->nflag ? &o_msg : &q_msg;
  fprintf(h_out, "%d ", ex); h_hex(q_from.p, q_from.n); fputc(' ', h_out);
  if (q_to.n) fwrite(q_to.p, 1, q_to.n, h_out); else fputc('-', h_out);
  fputc(' ', h_out); h_hex(m->p, m->n);
  if (ex == 0 && !c->nflag) {
    static hbuf copy; hbuf_reset(&copy); if (m->n) hbuf_add(&copy, m->p, m->n);
    int ex2 = run_inject(c, copy.p, copy.n, 1);
    fprintf(h_out, " %d ", ex2);
    if (q_to.n) fwrite(q_to.p, 1, q_to.n, h_out); else fputc('-', h_out);
  } else fputs(" -1 -", h_out);
  fputc('\n', h_out);
}

static int unhexs(const char *h, char *o) {
  int n = 0;
  if (!strcmp(h, "-") || !strcmp(h, "e")) { o[0] = 0; return 0; }
  for (; h[0] && h[1]; h += 2) { unsigned v; sscanf(h, "%2x", &v); o[n++] = v; }
  o[n] = 0; return n;
}

/* ---- generators ---- */
static const char *pool_user[] = { "joe", "j.r", "joe smith", "a\"b", "" };
static const char *pool_host[] = { 0, 0, "mh.example.net", "mh", "mh+" };
static const char *pool_name[] = { 0, 0, "Joe Smith", "J. (x) \"Q\"", "" };
static const char *pool_dd[] = { "dd.example", "dd.example", "dd", "d1.d2.example" };
static const char *pool_dh[] = { "dh.example.org", "dh", "dh+", "dh.sub" };
static const char *pool_pd[] = { "pd.example", "pd.example", "plus" };

static void gen_env(icase *c) {
  c->env[0] = (char *)pool_user[h_below(12) < 8 ? 0 : h_below(5)];
  c->env[1] = (char *)pool_host[h_below(5)];
  c->env[2] = h_below(6) == 0 ? "sh.example.com" : 0;
  c->env[3] = h_below(6) == 0 ? "suser" : 0;
  c->env[4] = (char *)pool_name[h_below(5)];
  c->env[5] = (char *)pool_dd[h_below(4)];
  c->env[6] = (char *)pool_dh[h_below(4)];
  c->env[7] = (char *)pool_pd[h_below(3)];
  c->env[8] = h_below(4) ? "id.example.org" : 0;
}

static hbuf E; static int E_n;
static void E_field(char kind, glist *g, int from) {
  char tmp[8]; snprintf(tmp, sizeof tmp, "%s%c=", E_n++ ? ";" : "", kind); hbuf_add(&E, tmp, strlen(tmp));
  char *mem; size_t mn; FILE *f = open_memstream(&mem, &mn);
  for (int i = from; i < g->nmb; i++) { if (i > from) fputc(',', f); g_mbox_print(f, &g->mb[i]); }
  fclose(f); hbuf_add(&E, mem, mn); free(mem);
}
static void name_variant(hbuf *b, const char *name) {
  int mode = h_below(6);
  for (const char *p = name; *p; p++) {
    int ch = *p;
    if (mode == 1 && ch >= 'a' && ch <= 'z') ch -= 32;
    if (mode == 2 && ch >= 'A' && ch <= 'Z') ch += 32;
    if (mode == 3 && h_below(2) && ch >= 'a' && ch <= 'z') ch -= 32;
    g_c(b, ch);
  }
  if (h_below(8) == 0) g_c(b, ' ');
  if (h_below(16) == 0) g_c(b, '\t');
  g_c(b, ':');
}

static char argstore[16][128];
/* a command-line recipient: local part with any bytes but NUL and LF; host optional */
static void gen_arg(icase *c, glist *g) {
  gmbox *m = &g->mb[g->nmb++];
  int n = 1 + h_below(6), mode = h_below(4);
  m->ln = 0;
  for (int i = 0; i < n; i++) {
    int ch = mode == 0 ? (unsigned char)g_qch[h_below(sizeof g_qch - 1)] : g_atomch[h_below(sizeof g_atomch - 1)];
    if (mode == 1 && i && i + 1 < n && h_below(4) == 0) ch = '.';
    if (i == 0 && ch == '-') ch = 'd';
    m->l[m->ln++] = ch;
  }
  hbuf t = {0}; gmbox hm;
  if (h_below(5)) { g_fold_ok = 0; do { hbuf_reset(&t); g_host(&t, &hm); } while (memchr(t.p, ' ', t.n) || memchr(t.p, '\t', t.n) || memchr(t.p, '(', t.n)); g_fold_ok = 1;
    memcpy(m->h, hm.h, hm.hn); m->hn = hm.hn; }
  else { m->hn = -1; for (int i = 0; i < m->ln; i++) if (m->l[i] == '@') m->l[i] = 'a'; }
  char *s = argstore[c->nrecips]; int k = 0;
  memcpy(s, m->l, m->ln); k = m->ln;
  if (m->hn >= 0) { s[k++] = '@'; memcpy(s + k, m->h, m->hn); k += m->hn; }
  s[k] = 0; c->recips[c->nrecips++] = s;
  free(t.p);
}

static void gen_structured(uint64_t r) {
  static glist g; static hbuf msg; icase c; memset(&c, 0, sizeof c);
  hbuf_reset(&g.text); hbuf_reset(&msg); hbuf_reset(&E); E_n = 0; g.nmb = 0;
  static char flagbuf[8]; int fl = 0;
  if (h_below(3) == 0) for (const char *p = "csfirm"; *p; p++) if (h_below(3) == 0) flagbuf[fl++] = *p;
  flagbuf[fl] = 0; c.flags = fl ? flagbuf : (h_below(8) == 0 ? "" : 0);
  c.strat = "dddahH"[h_below(6)]; c.nflag = h_below(12) == 0;
  gen_env(&c);
  /* command-line recipients */
  int na = h_below(3) == 0 ? 1 + h_below(3) : 0;
  int from = g.nmb;
  for (int i = 0; i < na; i++) gen_arg(&c, &g);
  if (na) E_field('A', &g, from);
  if (h_below(8) == 0) c.fsender = (char *[]){ "env@sender.example", "envs", "", "a b@c", "s@h+" }[h_below(5)];
  /* header */
  int resent = h_below(5) == 0;
  int nf = h_below(7);
  for (int i = 0; i < nf; i++) {
    uint32_t k = h_below(resent ? 16 : 12);
    const char *nm; char kind;
    switch (k) {
      case 0: case 1: case 2: nm = "To"; kind = 't'; break;
      case 3: case 4: nm = "Cc"; kind = 'c'; break;
      case 5: case 6: nm = "Bcc"; kind = 'b'; break;
      case 7: nm = "Apparently-To"; kind = 'a'; break;
      case 8: nm = (const char *[]){ "From", "Sender", "Reply-To", "Errors-To", "Return-Receipt-To" }[h_below(5)]; kind = 's'; break;
      case 9: nm = 0; kind = 'o'; break;
      case 10: nm = "Return-Path"; kind = 'p'; break;
      case 11: nm = 0; kind = 'x'; break;
      case 12: nm = "Resent-To"; kind = 'T'; break;
      case 13: nm = "Resent-Cc"; kind = 'C'; break;
      case 14: nm = "Resent-Bcc"; kind = 'B'; break;
      default: nm = (const char *[]){ "Resent-From", "Resent-Sender", "Resent-Reply-To" }[h_below(3)]; kind = 'r'; break;
    }
    if (kind == 'o') {
      static const char *others[] = { "Subject: hello, world <x@y>\n", "Date: 1 Jan 2000 00:00:00 -0000\n", "Message-ID: <1@x>\n",
        "Content-Length: 12\n", "X-Foo: a@b, (c\n", "Received: by x;\n\tMon\n", "Content-Type: text/plain\n", "Mail-Followup-To: l@m\n" };
      g_s(&msg, others[h_below(8)]); continue;
    }
    if (kind == 'x') { g_s(&msg, resent ? "Resent-Date: 1 Jan 2000 00:00:00 -0000\n" : "Subject: re\n"); if (resent) { if (E_n++) hbuf_add(&E, ";", 1); hbuf_add(&E, "r=", 2); } continue; }
    name_variant(&msg, nm);
    hbuf_reset(&g.text); from = g.nmb; g_fold_ok = 1;
    g_ws(&g.text, 0);
    if (kind == 'p') { g_c(&g.text, '<'); g_addrspec(&g.text, &g.mb[g.nmb++], 0); g_c(&g.text, '>'); }
    else gen_addrlist(&g, kind == 's' ? 2 : 5);
    g_ws(&g.text, 0);
    /* a folded field must not end in an empty continuation line that looks like the blank separator: fine, it starts with a blank */
    hbuf_add(&msg, g.text.p, g.text.n); g_c(&msg, '\n');
    if (kind == 'p') { g.nmb = from; continue; }
    E_field(kind, &g, from);
  }
  uint32_t tail = h_below(8);
  if (tail < 5) g_s(&msg, "\nbody line\nTo: not@a.header\n");
  else if (tail == 5) g_s(&msg, "\n");
  else if (tail == 6) g_s(&msg, "not a header line\nBcc: in@the.body\n");
  /* tail == 7: no body at all */
  g_c(&E, 0);
  run_case(&c, msg.p, msg.n, E_n ? (char *)E.p : "-");
}

static void gen_malformed(uint64_t r) {
  static hbuf msg; icase c; memset(&c, 0, sizeof c);
  hbuf_reset(&msg);
  static char flagbuf[8]; int fl = 0;
  if (h_below(4) == 0) for (const char *p = "csfirm"; *p; p++) if (h_below(3) == 0) flagbuf[fl++] = *p;
  flagbuf[fl] = 0; c.flags = fl ? flagbuf : 0;
  c.strat = "dahH"[h_below(4)]; c.nflag = h_below(10) == 0;
  gen_env(&c);
  if (h_below(10) == 0) c.env[6] = (char *[]){ "d h", "(", "a@b", "\\" }[h_below(4)];
  if (h_below(4) == 0) { c.recips[c.nrecips++] = (char *[]){ "a@b", "x", "", "a b@c", "a@)", "@r:u@h", "u@[]", ".", "@", "u@h.", "a@b@c" }[h_below(11)]; }
  if (h_below(8) == 0) c.fsender = (char *[]){ "s@h", "", "a@(", "@", "s" }[h_below(5)];
  static const char *names[] = { "To", "Cc", "Bcc", "From", "Return-Path", "Resent-To", "Resent-Bcc", "Apparently-To", "Sender", "X", "to", "BCC ", "Resent-Date", "Content-Length" };
  static const char alpha[] = "a b,<>()\"\\:;@.[]+\t\n ";
  int nf = h_below(4);
  for (int i = 0; i < nf; i++) {
    g_s(&msg, names[h_below(14)]); g_c(&msg, ':');
    int n = h_below(14);
    for (int j = 0; j < n; j++) {
      int ch = h_below(12) ? alpha[h_below(sizeof alpha - 1)] : (int)h_below(256);
      g_c(&msg, ch);
      if (ch == '\n' && h_below(4)) g_c(&msg, ' ');
    }
    g_c(&msg, '\n');
  }
  uint32_t tail = h_below(6);
  if (tail < 3) g_s(&msg, "\nbody\n"); else if (tail == 3) g_s(&msg, "From x\nTo: m@box\n\nb"); else if (tail == 4) g_s(&msg, "garbage");
  run_case(&c, msg.p, msg.n, "X");
}

/* systematic: every strategy x resent x args x one flag letter on one fixed header */
static void gen_systematic(uint64_t k) {
  icase c; memset(&c, 0, sizeof c);
  static char fb[2]; static const char fl[] = "-csfirm";
  int f = k % 7; k /= 7; int st = k % 4; k /= 4; int resent = k % 2; k /= 2; int args = k % 2; k /= 2; int n = k % 2; k /= 2; int envk = k % 4;
  fb[0] = fl[f]; fb[1] = 0; c.flags = f ? fb : 0;
  c.strat = "dahH"[st]; c.nflag = n;
  c.env[0] = "joe"; c.env[1] = envk & 1 ? "mh" : 0; c.env[4] = envk & 2 ? "Joe Smith" : 0;
  c.env[5] = "dd.example"; c.env[6] = "dh"; c.env[7] = "pd.example"; c.env[8] = "id.example";
  if (args) { c.recips[0] = "arg1@h1"; c.recips[1] = "arg2"; c.nrecips = 2; }
  const char *h = resent
    ? "To: a@b\nResent-To: r1@x.y, R <r2>\nResent-Bcc: rb@z+\nBcc: b@c\nFrom: me\nMessage-ID: <m@i>\n\nbody\n"
    : "To: a@b, \"x y\"@c.d\nCc: Joe <c1@h>, grp: g1, g2@g;\nBcc: b@c (hidden)\nReturn-Path: <rp@h>\nFrom: me\nMessage-ID: <m@i>\nContent-Length: 5\n\nbody\n";
  const char *e = resent
    ? (args ? "A=61726731/6831,61726732/~;t=61/62;T=7231/782e79,7232/~;B=7262/7a2b;b=62/63;s=6d65/~" : "t=61/62;T=7231/782e79,7232/~;B=7262/7a2b;b=62/63;s=6d65/~")
    : (args ? "A=61726731/6831,61726732/~;t=61/62,782079/632e64;c=6331/68,6731/~,6732/67;b=62/63;s=6d65/~" : "t=61/62,782079/632e64;c=6331/68,6731/~,6732/67;b=62/63;s=6d65/~");
  run_case(&c, (const unsigned char *)h, strlen(h), e);
}

int main(int argc, char **argv) {
  h_init_out();
  if (!newfield_datemake(h_time(0))) abort();
  {
    struct datetime dt; char stamp[64]; datetime_tai(&dt, h_time(0));
    snprintf(stamp, sizeof stamp, "%d%02d%02d%02d%02d%02d.%d", dt.year + 1900, dt.mon + 1, dt.mday, dt.hour, dt.min, dt.sec, H_PID);
    fprintf(h_out, "C %ld %d ", (long)h_time(0), H_PID); h_hex((unsigned char *)newfield_date.s, newfield_date.len);
    fputc(' ', h_out); h_hex((unsigned char *)stamp, strlen(stamp)); fputc('\n', h_out);
  }
  if (argc > 1 && !strcmp(argv[1], "-")) {
    static char line[600000], f[8][300000];
    while (fgets(line, sizeof line, stdin)) {
      if (line[0] == 'B' && line[1] == ' ') { static unsigned char binp[150000]; char *h = strtok(line + 2, " \r\n"); int n = h ? unhexs(h, (char *)binp) : 0; run_hb(binp, n); continue; }
      if (line[0] == 'W' && line[1] == ' ') {
        static unsigned char wm[150000], wt[150000], wone[150000]; static hbuf tx; hbuf_reset(&tx);
        char *a = strtok(line + 2, " \r\n"), *b = strtok(0, " \r\n"); if (!a || !b) continue;
        static char acopy[300000]; strncpy(acopy, a, sizeof acopy - 1);
        size_t mn = 0; int nt = 0;
        if (strcmp(a, "-")) { hbuf_add(&tx, acopy, strlen(acopy)); for (char *p = strtok(a, ","); p; p = strtok(0, ",")) { int k = unhexs(p, (char *)wone); memcpy(wm + mn, wone, k); mn += k; nt++; } }
        int tn = unhexs(b, (char *)wt); memcpy(wm + mn, wt, tn);
        run_hbw(&tx, nt, wm, mn + tn, wt, tn); continue;
      }
      if (line[0] != 'I') continue;
      if (sscanf(line + 1, "%s %s %s %s %s %s %s", f[0], f[1], f[2], f[3], f[4], f[5], f[6]) != 7) continue;
      icase c; memset(&c, 0, sizeof c);
      static char flags[64], fs[4096], rc[16][4096], ev[9][600]; static unsigned char inp[150000];
      if (strcmp(f[0], "-")) { strncpy(flags, f[0], 63); c.flags = flags; }
      c.strat = f[1][0]; c.nflag = f[1][1] == 'n';
      if (strcmp(f[2], "N")) { unhexs(f[2], fs); c.fsender = fs; }
      if (strcmp(f[3], "-")) { char *p = strtok(f[3], ","); while (p && c.nrecips < 16) { unhexs(p, rc[c.nrecips]); c.recips[c.nrecips] = rc[c.nrecips]; c.nrecips++; p = strtok(0, ","); } }
      { int i = 0; char *p = strtok(f[4], ","); while (p && i < 9) { if (strcmp(p, "~")) { unhexs(p, ev[i]); c.env[i] = ev[i]; } i++; p = strtok(0, ","); } }
      int n = unhexs(f[5], (char *)inp);
      run_case(&c, inp, n, f[6]);
    }
    fflush(h_out);
    return 0;
  }
  int nstruct = h_argi(argc, argv, 1, 1000), nmal = h_argi(argc, argv, 2, 1000);
  uint64_t seed = (uint64_t)h_argi(argc, argv, 3, 1);
  int shard = h_argi(argc, argv, 4, 0), nshards = h_argi(argc, argv, 5, 1);
  gen_hb_exhaustive(h_argi(argc, argv, 6, 5), shard, nshards);
  for (uint64_t k = 0; k < 7 * 4 * 2 * 2 * 2 * 4; k++) if ((int)(k % nshards) == shard) gen_systematic(k);
  h_seed(seed * 7000003ull + shard);
  for (int r = 0; r < nstruct; r++) if ((r % nshards) == shard) gen_structured(r);
  for (int r = 0; r < nmal; r++) if ((r % nshards) == shard) gen_malformed(r);
  for (int r = 0; r < nmal; r++) if ((r % nshards) == shard) gen_hb_random();
  for (int r = 0; r < nmal; r++) if ((r % nshards) == shard) gen_hb_wellformed();
  fflush(h_out);
  return 0;
}
