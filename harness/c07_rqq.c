/* C07 real-queue leg: the UNMODIFIED qmail-queue.c main() as the program behind QMAILQUEUE (run by the real qmail.c of the
 * daemon harnesses through real pipe/fork/execv), working on the private queue directory $C07_HOME/queue.
 *
 * Replaced: auto_qmail (= $C07_HOME), inituid() (the qmail users do not exist here: alias 7790, qmaild 7791, qmails 7796).
 * Observed: every byte qmail-queue read from descriptors 0 and 1 (read() is routed through rq_read), and at the end
 * (_exit / return from main) the rest of both pipes is drained - the daemon sees a queue program that is slow to go away, one of
 * the schedules the kernel allows, and the harness gets the complete streams for the comparison with the model.
 * One record is appended to the inherited descriptor 100:
 *     'R' u32 n0 <fd 0 bytes> u32 n1 <fd 1 bytes> 'X' u32 exit-status u32 pid u64 inode-number-of-the-message-file
 * Whether the message was committed is NOT reported from here: the harness looks at todo/<inode> itself afterwards. */
#include <stdio.h>
#include <stdlib.h>
#include <string.h>
#include <stdint.h>
#include <unistd.h>
#include <sys/types.h>

#define REC_FD 100
char auto_qmail[512];          /* replaces auto_qmail.o */

uid_t inituid(char *user) {    /* replaces uid.o of ids.a */
  if (!strcmp(user, "alias")) return 7790;
  if (!strcmp(user, "qmaild")) return 7791;
  if (!strcmp(user, "qmails")) return 7796;
  return 7799;
}

static unsigned char *cap[2]; static size_t capn[2], capc[2];
static void cap_add(int fd, const void *p, size_t n) {
  if (capn[fd] + n > capc[fd]) { capc[fd] = (capn[fd] + n) * 2 + 4096; cap[fd] = realloc(cap[fd], capc[fd]); }
  memcpy(cap[fd] + capn[fd], p, n); capn[fd] += n;
}
static ssize_t rq_read(int fd, void *buf, size_t n) {
  ssize_t r = read(fd, buf, n);
  if (r > 0 && (fd == 0 || fd == 1)) cap_add(fd, buf, (size_t)r);
  return r;
}
static void wr(int fd, const void *p, size_t n) {
  const char *c = p;
  while (n) { ssize_t w = write(fd, c, n); if (w <= 0) break; c += w; n -= w; }
}
extern unsigned long messnum;
__attribute__((noreturn)) static void rq_exit(int code) {
  static char b[65536];
  for (int fd = 0; fd < 2; fd++) for (;;) { ssize_t r = read(fd, b, sizeof b); if (r <= 0) break; cap_add(fd, b, (size_t)r); }
  uint32_t n0 = (uint32_t)capn[0], n1 = (uint32_t)capn[1], c = (uint32_t)code, pid = (uint32_t)getpid(); uint64_t ino = messnum;
  lseek(REC_FD, 0, SEEK_END);
  wr(REC_FD, "R", 1); wr(REC_FD, &n0, 4); wr(REC_FD, cap[0], n0); wr(REC_FD, &n1, 4); wr(REC_FD, cap[1], n1);
  wr(REC_FD, "X", 1); wr(REC_FD, &c, 4); wr(REC_FD, &pid, 4); wr(REC_FD, &ino, 8);
  _exit(code);
}

#define read rq_read
#define _exit(x) rq_exit(x)
#define main rqq_main
#include "qmail-queue.c"
#undef main
#undef _exit
#undef read

int main(void) {
  const char *h = getenv("C07_HOME");
  if (!h || strlen(h) >= sizeof auto_qmail) return 111;
  strcpy(auto_qmail, h);
  rq_exit(rqq_main());
}
