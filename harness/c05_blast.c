/* C05 correspondence harness: the real qmail-smtpd.c blast() (DATA decoder + hop counter).
 * usage: c05_blast <maxlen> <nrandom> <seed> <shard> <nshards>     |  c05_blast -   (cases "<chunk> <hex>" on stdin)
 * output per case: <chunk> <input-hex> <A|S|E|T> <stored-hex> <consumed> <hops>
 *   A = blast returned (terminator seen), S = straynewline (451), E = die_read at end of input, T = other exit */
#include "hcommon.h"
#define _exit(x) h_exit(x)
#define main qmail_smtpd_main
#include "qmail-smtpd.c"
#undef main
#undef _exit

static const unsigned char *in_p; static size_t in_n, in_pos; static int in_chunk;
static hbuf stored, replyb;

/* replaces timeoutread.o: serve the scripted stream; 0 at its end */
ssize_t timeoutread(int t, int fd, char *buf, size_t len) {
  size_t k = in_n - in_pos;
  if (k > len) k = len;
  if (in_chunk > 0 && k > (size_t)in_chunk) k = in_chunk;
  memcpy(buf, in_p + in_pos, k); in_pos += k;
  return k;
}
/* replaces timeoutwrite.o: capture replies */
ssize_t timeoutwrite(int t, int fd, const void *buf, size_t len) { hbuf_add(&replyb, buf, len); return len; }

/* replaces qmail.o: capture what would be piped to qmail-queue */
int qmail_open(struct qmail *qq) { qq->flagerr = 0; return 0; }
void qmail_put(struct qmail *qq, char *s, size_t len) { if (!qq->flagerr) hbuf_add(&stored, s, len); }
void qmail_fail(struct qmail *qq) { qq->flagerr = 1; }
void qmail_from(struct qmail *qq, char *s) {}
void qmail_to(struct qmail *qq, char *s) {}
char *qmail_close(struct qmail *qq) { return ""; }
unsigned long qmail_qp(struct qmail *qq) { return 1; }

static void one(const unsigned char *m, size_t n, int chunk) {
  int hops = -1;
  ssin.p = 0; ssin.n = sizeof ssinbuf;
  ssout.p = 0;
  in_p = m; in_n = n; in_pos = 0; in_chunk = chunk;
  hbuf_reset(&stored); hbuf_reset(&replyb);
  bytestooverflow = 0; qqt.flagerr = 0;
  char st = 'A';
  h_exit_armed = 1;
  if (setjmp(h_jb) == 0) { blast(&hops); }
  else {
    if (replyb.n >= 3 && !memcmp(replyb.p, "451", 3)) st = 'S';
    else if (replyb.n == 0 && in_pos == in_n) st = 'E';
    else st = 'T';
  }
  h_exit_armed = 0;
  long consumed = (long)in_pos - ssin.p;
  fprintf(h_out, "%d ", chunk); h_hex(m, n); fprintf(h_out, " %c ", st); h_hex(stored.p, stored.n);
  fprintf(h_out, " %ld %d\n", st == 'A' ? consumed : -1, st == 'A' ? hops : -1);
}

static int unhex(const char *h, unsigned char *o) {
  int n = 0;
  if (h[0] == '-') return 0;
  for (; h[0] && h[1]; h += 2) { unsigned v; sscanf(h, "%2x", &v); o[n++] = v; }
  return n;
}

static const char *hl[] = { "Received: from x", "received", "RECEIVE", "rEcEiVeD:", "Delivered-To: y", "DELIVERED", "delivere",
                            "", "x", " received: z", "deliveredreceived" };
#define NHL (sizeof hl / sizeof hl[0])

int main(int argc, char **argv) {
  h_init_out();
  if (argc > 1 && !strcmp(argv[1], "-")) {
    static char line[400000], hx[400000]; static unsigned char b[200000];
    while (fgets(line, sizeof line, stdin)) {
      int chunk;
      if (sscanf(line, "%d %s", &chunk, hx) != 2) continue;
      one(b, unhex(hx, b), chunk);
    }
    fflush(h_out);
    return 0;
  }
  int maxlen = h_argi(argc, argv, 1, 8), nrandom = h_argi(argc, argv, 2, 1000);
  uint64_t seed = (uint64_t)h_argi(argc, argv, 3, 1);
  int shard = h_argi(argc, argv, 4, 0), nshards = h_argi(argc, argv, 5, 1);
  static const unsigned char alpha[4] = { '\r', '\n', '.', 'x' };
  unsigned char m[4096];
  uint64_t id = 0;
  /* (1) every string over the framing alphabet; (2) the same followed by a terminator and a next command */
  for (int len = 0; len <= maxlen; len++) {
    uint64_t total = 1; for (int i = 0; i < len; i++) total *= 4;
    for (uint64_t k = 0; k < total; k++, id++) {
      if ((int)(id % nshards) != shard) continue;
      uint64_t v = k; for (int i = 0; i < len; i++) { m[i] = alpha[v & 3]; v >>= 2; }
      one(m, len, 0);
      if (len + 2 <= maxlen) {
        one(m, len, 1); one(m, len, 2);
        memcpy(m + len, "\r\n.\r\nQUIT\r\n", 11);
        one(m, len + 11, 0); one(m, len + 11, 1);
      }
    }
  }
  /* (3) headers of up to 4 lines from the hop-counter line set, then body and terminator */
  for (int nl = 0; nl <= 4; nl++) {
    uint64_t total = 1; for (int i = 0; i < nl; i++) total *= NHL;
    for (uint64_t k = 0; k < total; k++, id++) {
      if ((int)(id % nshards) != shard) continue;
      size_t n = 0; uint64_t v = k;
      for (int i = 0; i < nl; i++) { const char *s = hl[v % NHL]; v /= NHL; size_t l = strlen(s); memcpy(m + n, s, l); n += l; m[n++] = '\r'; m[n++] = '\n'; }
      memcpy(m + n, "\r\nReceived: in body\r\n.\r\n", 24); n += 24;
      one(m, n, (int)(k % 3));
    }
  }
  /* (4) seeded random streams */
  h_seed(seed * 1000003ull + shard);
  for (int r = 0; r < nrandom; r++) {
    if ((r % nshards) != shard) continue;
    size_t n = (r % 7 == 0) ? h_below(65536) : h_below(3000);
    unsigned char *b = malloc(n + 16);
    int mode = h_below(4);
    for (size_t i = 0; i < n; i++) {
      uint32_t x = h_below(mode == 0 ? 6 : 40);
      if (x == 0) { b[i] = '\r'; if (i + 1 < n && mode != 3) b[++i] = '\n'; }
      else if (x == 1) b[i] = (mode == 3) ? '\n' : '\r';
      else if (x == 2) b[i] = '.';
      else b[i] = (mode == 2) ? (unsigned char)h_below(256) : "Receivd: DELIVERED-to"[h_below(21)];
      if (mode != 3 && b[i] == '\n' && (i == 0 || b[i - 1] != '\r')) b[i] = 'n';
    }
    if (r % 3) { memcpy(b + n, "\r\n.\r\nRSET\r\n", 11); n += 11; }
    one(b, n, (int[]){0, 1, 7, 1024, 1500}[h_below(5)]);
    free(b);
  }
  fflush(h_out);
  return 0;
}
