/* C05 correspondence harness: the real qmail-smtpd.c blast() (DATA decoder + hop counter) over the real substdio / saferead.
 * usage: c05_blast <maxlen> <nrandom> <seed> <shard> <nshards>     |  c05_blast -   (cases "<plan> <hex>" on stdin)
 * output per case: <plan> <input-hex> <A|S|E|T|H> <stored-hex> <consumed> <hops> <ssin.p> <ssin.n> <nreads> <delivered>
 *   A = blast returned (terminator seen), S = straynewline (451), E = die_read (end of input or failing read), T = other exit
 *   nreads = read() calls made (the failing one included), delivered = bytes of the stream those calls had returned when the
 *   case ended (for E: what the program had been given when it gave up - it only reads when its buffer is empty)
 * <plan> (one token) says how the stream is cut into read()s: comma-separated caps used cyclically, one per read() call
 *   (0 = no cap, e / a / n / p = this read fails with EIO / EAGAIN / EINTR / ECONNRESET), optionally followed by @k: the first k bytes of the stream are consumed
 *   through substdio_get(&ssin,buf,<=k) before blast() is called (so blast() starts with bytes already buffered, as after
 *   a pipelined DATA command).  A plain integer is the old <chunk>.  consumed counts from the end of the skipped prefix. */
#include "hcommon.h"
#include <errno.h>
#include "substdio.h"
#include "qmail.h"

/* How the program is run (round 2, see notes/C05.md "Tie"): qmail-smtpd.c is NOT #included and the harness initialises
 * nothing of `ssin`.  checks/c05.py builds the program as an object of its own (nqlib prog_object: qmail-smtpd.c compiled
 * by the scratch tree's ./compile with main renamed, partially linked with everything the Makefile links qmail-smtpd with
 * except qmail.o / timeoutread.o / timeoutwrite.o, its writable data in the sections pd_qs / pdl_qs / pdr_qs / pb_qs).
 * Before EVERY case those sections are restored to their load-time image: `ssin` is the program's static initialiser
 * (its own `saferead`, descriptor, `ssinbuf` and size), `ssout`, `bytestooverflow`, `qqt` and every other static are
 * as in a freshly exec'ed qmail-smtpd - each case is a run of its own, so a failing case also fails when replayed alone.
 * _exit() and read() are interposed at link level (-Wl,--wrap): a read of descriptor 0 that does not go through
 * timeoutread is served from the same scripted stream; other descriptors fail with EBADF. */
extern substdio ssin;
extern void blast(int *);

extern char __start_pd_qs[] __attribute__((weak)), __stop_pd_qs[] __attribute__((weak));
extern char __start_pdl_qs[] __attribute__((weak)), __stop_pdl_qs[] __attribute__((weak));
extern char __start_pdr_qs[] __attribute__((weak)), __stop_pdr_qs[] __attribute__((weak));
extern char __start_pb_qs[] __attribute__((weak)), __stop_pb_qs[] __attribute__((weak));
static struct { char *a, *b, *snap; } greg[4]; static int ngreg;
__attribute__((no_sanitize("address", "undefined"))) static void rawcopy(char *d, const char *s, size_t n) {
  size_t i = 0;
  if ((((uintptr_t)d | (uintptr_t)s) & 7) == 0) for (; i + 8 <= n; i += 8) *(volatile uint64_t *)(d + i) = *(const uint64_t *)(s + i);
  for (; i < n; i++) ((volatile char *)d)[i] = s[i];
}
static void greg_add(char *a, char *b) {
  if (!a || !b || b <= a) return;
  size_t n = b - a;
  greg[ngreg].a = a; greg[ngreg].b = b; greg[ngreg].snap = malloc(n); rawcopy(greg[ngreg].snap, a, n); ngreg++;
}
static void prog_snapshot(void) {
  greg_add(__start_pd_qs, __stop_pd_qs); greg_add(__start_pdl_qs, __stop_pdl_qs);
  greg_add(__start_pdr_qs, __stop_pdr_qs); greg_add(__start_pb_qs, __stop_pb_qs);
  if (ngreg < 2) { fprintf(stderr, "c05_blast: program data sections not found\n"); exit(3); }
}
static void prog_restore(void) { for (int i = 0; i < ngreg; i++) rawcopy(greg[i].a, greg[i].snap, greg[i].b - greg[i].a); }

static const unsigned char *in_p; static size_t in_n, in_pos;
static hbuf stored, replyb;
#define MAXPLAN 64
static int plan[MAXPLAN], plan_n; static long plan_k, in_reads; static int plan_skip, in_failed, in_case, in_hang;

static int parse_plan(const char *t) {
  plan_n = 0; plan_skip = 0;
  while (*t && *t != '@') {
    if (plan_n >= MAXPLAN) return 0;
    if (*t == 'e' || *t == 'a' || *t == 'n' || *t == 'p') { plan[plan_n++] = *t == 'e' ? -1 : *t == 'a' ? -2 : *t == 'n' ? -3 : -4; t++; }
    else if (*t >= '0' && *t <= '9') { plan[plan_n++] = (int)strtol(t, (char **)&t, 10); }
    else return 0;
    if (*t == ',') t++;
  }
  if (*t == '@') plan_skip = atoi(t + 1);
  return plan_n > 0;
}

/* replaces timeoutread.o: serve the scripted stream according to the plan; 0 at its end */
ssize_t timeoutread(int t, int fd, char *buf, size_t len) {
  if (fd != 0) { errno = EBADF; return -1; }                 /* the SMTP connection is descriptor 0 */
  int c = plan[plan_k++ % plan_n];
  in_reads++;
  /* a program that goes on reading after a failed read (the plan is cyclic) would never stop: that is a verdict ('H'), not a hang of the check */
  if (in_case && in_reads > 4 * (long)in_n + 256) { in_hang = 1; longjmp(h_jb, 1); }
  if (c < 0) { in_failed = 1; errno = c == -1 ? EIO : c == -2 ? EAGAIN : c == -3 ? EINTR : ECONNRESET; return -1; }   /* e a n p: whatever the errno (other than a timeout), the session must end */
  size_t k = in_n - in_pos;
  if (k > len) k = len;
  if (c > 0 && k > (size_t)c) k = c;
  memcpy(buf, in_p + in_pos, k); in_pos += k;
  return k;
}
ssize_t __real_read(int fd, void *buf, size_t len);
ssize_t __wrap_read(int fd, void *buf, size_t len) { return in_case ? timeoutread(0, fd, buf, len) : __real_read(fd, buf, len); }
void __real__exit(int c) __attribute__((noreturn));
void __wrap__exit(int c) {
  if (in_case) { h_exitcode = c; longjmp(h_jb, 1); }
  __real__exit(c);
}
/* replaces timeoutwrite.o: capture replies */
ssize_t timeoutwrite(int t, int fd, const void *buf, size_t len) { hbuf_add(&replyb, buf, len); return len; }

/* replaces qmail.o: capture what would be piped to qmail-queue */
int qmail_open(struct qmail *qq) { qq->flagerr = 0; return 0; }
void qmail_put(struct qmail *qq, char *s, size_t len) { if (!qq->flagerr) hbuf_add(&stored, s, len); }
void qmail_fail(struct qmail *qq) { qq->flagerr = 1; }
void qmail_from(struct qmail *qq, char *s) {}
void qmail_to(struct qmail *qq, char *s) {}
char *qmail_close(struct qmail *qq) { return ""; }
unsigned long qmail_qp(struct qmail *qq) { return 1; }

static void onep(const unsigned char *m, size_t n, const char *tok) {
  int hops = -1;
  if (!parse_plan(tok)) return;
  prog_restore();                                /* a fresh qmail-smtpd: ssin, ssinbuf, ssout, bytestooverflow, qqt, every static */
  in_p = m; in_n = n; in_pos = 0; plan_k = 0; in_reads = 0; in_failed = 0; in_hang = 0;
  hbuf_reset(&stored); hbuf_reset(&replyb);
  char st = 'A';
  in_case = 1;
  if (setjmp(h_jb) == 0) {
    static char skipbuf[4096];
    long left = plan_skip;
    while (left > 0) {                      /* the pipelined prefix: saferead exits at end of input / on a failing read */
      ssize_t r = substdio_get(&ssin, skipbuf, left > (long)sizeof skipbuf ? sizeof skipbuf : (size_t)left);
      if (r <= 0) __wrap__exit(1);
      left -= r;
    }
    blast(&hops);
  }
  else {
    if (in_hang) st = 'H';
    else if (replyb.n >= 3 && !memcmp(replyb.p, "451", 3)) st = 'S';
    else if (replyb.n == 0 && (in_pos == in_n || in_failed)) st = 'E';
    else st = 'T';
  }
  in_case = 0;
  long consumed = (long)in_pos - ssin.p - plan_skip;
  fprintf(h_out, "%s ", tok); h_hex(m, n); fprintf(h_out, " %c ", st); h_hex(stored.p, stored.n);
  fprintf(h_out, " %ld %d %d %d %ld %ld\n", st == 'A' ? consumed : -1, st == 'A' ? hops : -1,
          st == 'A' ? ssin.p : -1, st == 'A' ? (int)ssin.n : -1, in_reads, (long)in_pos);
}
static void one(const unsigned char *m, size_t n, int chunk) { char t[24]; snprintf(t, sizeof t, "%d", chunk); onep(m, n, t); }

static int unhex(const char *h, unsigned char *o) {
  int n = 0;
  if (h[0] == '-') return 0;
  for (; h[0] && h[1]; h += 2) { unsigned v; sscanf(h, "%2x", &v); o[n++] = v; }
  return n;
}

static const char *hl[] = { "Received: from x", "received", "RECEIVE", "rEcEiVeD:", "Delivered-To: y", "DELIVERED", "delivere",
                            "", "x", " received: z", "deliveredreceived" };
#define NHL (sizeof hl / sizeof hl[0])

int main(int argc, char **argv) {
  h_init_out();
  prog_snapshot();
  if (argc > 1 && !strcmp(argv[1], "-")) {
    static char line[400000], hx[400000]; static unsigned char b[200000];
    while (fgets(line, sizeof line, stdin)) {
      char tok[400];
      if (sscanf(line, "%399s %s", tok, hx) != 2) continue;
      onep(b, unhex(hx, b), tok);
    }
    fflush(h_out);
    return 0;
  }
  int maxlen = h_argi(argc, argv, 1, 8), nrandom = h_argi(argc, argv, 2, 1000);
  uint64_t seed = (uint64_t)h_argi(argc, argv, 3, 1);
  int shard = h_argi(argc, argv, 4, 0), nshards = h_argi(argc, argv, 5, 1);
  static const unsigned char alpha[4] = { '\r', '\n', '.', 'x' };
  unsigned char m[4096];
  uint64_t id = 0;
  /* (1) every string over the framing alphabet; (2) the same followed by a terminator and a next command */
  for (int len = 0; len <= maxlen; len++) {
    uint64_t total = 1; for (int i = 0; i < len; i++) total *= 4;
    for (uint64_t k = 0; k < total; k++, id++) {
      if ((int)(id % nshards) != shard) continue;
      uint64_t v = k; for (int i = 0; i < len; i++) { m[i] = alpha[v & 3]; v >>= 2; }
      one(m, len, 0);
      if (len + 2 <= maxlen) {
        one(m, len, 1); one(m, len, 2);
        memcpy(m + len, "\r\n.\r\nQUIT\r\n", 11);
        one(m, len + 11, 0); one(m, len + 11, 1);
        /* a failing read() after j one-byte reads, for every j up to just past the terminator, and after one / two
         * larger reads: the session may die there (E) only if the decoder has no verdict yet on the bytes delivered */
        if (len + 4 <= maxlen) {
          for (int j = 0; j <= len + 6; j++) { char t[80]; int o = 0; for (int q = 0; q < j; q++) o += snprintf(t + o, sizeof t - o, "1,"); snprintf(t + o, sizeof t - o, "%c", "eanp"[(j + len) & 3]); onep(m, len + 11, t); }
          onep(m, len + 11, "3,e"); onep(m, len + 11, "4,2,e"); onep(m, len + 11, "0,e"); onep(m, len + 11, "2,e@1");
          onep(m, len + 11, "3,a"); onep(m, len + 11, "4,2,n"); onep(m, len + 11, "0,a"); onep(m, len + 11, "1,a,1,p,1,e");
        }
      }
    }
  }
  /* (3) headers of up to 4 lines from the hop-counter line set, then body and terminator */
  for (int nl = 0; nl <= 4; nl++) {
    uint64_t total = 1; for (int i = 0; i < nl; i++) total *= NHL;
    for (uint64_t k = 0; k < total; k++, id++) {
      if ((int)(id % nshards) != shard) continue;
      size_t n = 0; uint64_t v = k;
      for (int i = 0; i < nl; i++) { const char *s = hl[v % NHL]; v /= NHL; size_t l = strlen(s); memcpy(m + n, s, l); n += l; m[n++] = '\r'; m[n++] = '\n'; }
      memcpy(m + n, "\r\nReceived: in body\r\n.\r\n", 24); n += 24;
      one(m, n, (int)(k % 3));
    }
  }
  /* (3b) every single-byte perturbation of the two keywords (each of the first 10 positions: case flipped, next letter,
   *      'x', '.', CR, and the line cut at that position), as first / second header line and after the empty line */
  {
    static const char *kw[] = { "received: a", "RECEIVED: a", "ReCeIvEd: a", "delivered-to: b", "DELIVERED-TO: b", "dElIvErEd-to: b" };
    for (unsigned w = 0; w < sizeof kw / sizeof kw[0]; w++)
      for (int p = 0; p < 10; p++)
        for (int v = 0; v < 6; v++)
          for (int place = 0; place < 3; place++, id++) {
            if ((int)(id % nshards) != shard) continue;
            char l[64]; size_t ll = strlen(kw[w]); memcpy(l, kw[w], ll);
            switch (v) {
              case 0: l[p] ^= 0x20; break;
              case 1: l[p] += 1; break;
              case 2: l[p] = 'x'; break;
              case 3: l[p] = '.'; break;
              case 4: l[p] = '\r'; break;
              default: ll = p; break;
            }
            size_t n = 0;
            if (place == 1) { memcpy(m + n, "Received: first\r\n", 17); n += 17; }
            if (place == 2) { memcpy(m + n, "Subject: s\r\n\r\n", 14); n += 14; }
            memcpy(m + n, l, ll); n += ll;
            memcpy(m + n, "\r\nDelivered-To: last\r\n\r\nbody\r\n.\r\n", 33); n += 33;
            one(m, n, (int)(id % 3));
          }
  }
  /* (4) seeded random streams */
  h_seed(seed * 1000003ull + shard);
  for (int r = 0; r < nrandom; r++) {
    if ((r % nshards) != shard) continue;
    size_t n = (r % 7 == 0) ? h_below(65536) : h_below(3000);
    unsigned char *b = malloc(n + 16);
    int mode = h_below(4);
    for (size_t i = 0; i < n; i++) {
      uint32_t x = h_below(mode == 0 ? 6 : 40);
      if (x == 0) { b[i] = '\r'; if (i + 1 < n && mode != 3) b[++i] = '\n'; }
      else if (x == 1) b[i] = (mode == 3) ? '\n' : '\r';
      else if (x == 2) b[i] = '.';
      else b[i] = (mode == 2) ? (unsigned char)h_below(256) : "Receivd: DELIVERED-to"[h_below(21)];
      if (mode != 3 && b[i] == '\n' && (i == 0 || b[i - 1] != '\r')) b[i] = 'n';
    }
    if (r % 3) { memcpy(b + n, "\r\n.\r\nRSET\r\n", 11); n += 11; }
    one(b, n, (int[]){0, 1, 7, 1024, 1500}[h_below(5)]);
    free(b);
  }
  /* (5) chunking sweep (theorem C05_chunking): streams longer than ssinbuf (1024), each delivered under every read plan of a
   *     fixed set (1, 2, 1023, 1024, 1025, full, a mixed plan with a 1023-byte read after a partial one), two random
   *     short-read plans, one plan starting with bytes already buffered (@skip) and one with a failing read */
  for (int r = 0; r < nrandom / 16 + 2; r++) {
    if ((r % nshards) != shard) continue;
    size_t n = 1030 + h_below(r % 5 == 0 ? 4400 : 2400);
    unsigned char *b = malloc(n + 64);
    size_t i = 0;
    while (i < n) {                               /* mostly well-formed CRLF lines with dots and bare CRs */
      uint32_t ll = h_below(70), kind = h_below(12);
      if (kind == 0 && i + 1 < n) b[i++] = '.';
      if (kind == 1 && i + 2 < n) { b[i++] = '.'; b[i++] = '\r'; }
      for (uint32_t j = 0; j < ll && i < n; j++) { uint32_t x = h_below(30); b[i++] = x == 0 ? '\r' : x == 1 ? '.' : 'a' + x % 26; }
      if (i < n) b[i++] = '\r';
      if (i < n) b[i++] = (r % 11 == 10 && h_below(40) == 0) ? 'x' : '\n';
    }
    if (r % 9 != 8) { memcpy(b + n, "\r\n.\r\nRSET\r\nNOOP\r\n", 17); n += 17; }
    static const char *fixed[] = { "0", "1", "2", "1023", "1024", "1025", "700,1023,5,1024,1", "1023,1", "512,511,1" };
    for (unsigned k = 0; k < sizeof fixed / sizeof fixed[0]; k++) onep(b, n, fixed[k]);
    for (int k = 0; k < 2; k++) {
      char tok[400]; int o = 0, np = 2 + h_below(12);
      for (int j = 0; j < np; j++) {
        uint32_t c = h_below(4) == 0 ? 1020 + h_below(8) : h_below(3) == 0 ? 1 + h_below(4) : 1 + h_below(1100);
        o += snprintf(tok + o, sizeof tok - o, "%s%u", j ? "," : "", c);
      }
      onep(b, n, tok);
    }
    { char tok[64]; snprintf(tok, sizeof tok, "%d,0@%u", (int[]){1023, 1024, 300, 7}[h_below(4)], 1 + h_below(1500)); onep(b, n, tok); }
    { char tok[64]; snprintf(tok, sizeof tok, "%u,%u,%c", 1 + h_below(1100), 1 + h_below(1100), "eanp"[h_below(4)]); onep(b, n, tok); }
    free(b);
  }
  /* (6) every framing string placed across the buffer refill: padding so that the 1024-byte boundary falls before, inside
   *     (at every position) and after the string; full reads */
  {
    int wl = maxlen - 4 < 3 ? 3 : maxlen - 4;
    unsigned char *b = malloc(1024 + wl + 32);
    for (int len = 1; len <= wl; len++) {
      uint64_t total = 1; for (int i = 0; i < len; i++) total *= 4;
      for (uint64_t k = 0; k < total; k++, id++) {
        if ((int)(id % nshards) != shard) continue;
        for (int cut = 0; cut <= len; cut++) {
          size_t pad = 1024 - cut, n = 0;
          memset(b, 'x', pad); b[pad - 2] = '\r'; b[pad - 1] = '\n'; n = pad;
          uint64_t v = k; for (int i = 0; i < len; i++) { b[n++] = alpha[v & 3]; v >>= 2; }
          memcpy(b + n, "\r\n.\r\nQUIT\r\n", 11); n += 11;
          onep(b, n, (cut & 1) ? "1024" : "0");
        }
      }
    }
    free(b);
  }
  fflush(h_out);
  return 0;
}
