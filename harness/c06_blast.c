/* C06 correspondence harness: the real qmail-remote.c blast() on generated messages.
 * usage: c06_blast <maxlen> <nrandom> <seed> <shard> <nshards>
 * output (one line per case):  <chunk> <input-hex> <O|P|T> <output-hex>
 *   O = blast returned, P = perm_partialline, T = any other exit            */
#include "hcommon.h"
#define _exit(x) h_exit(x)
#define main qmail_remote_main
#include "qmail-remote.c"
#undef main
#undef _exit

static const unsigned char *in_p; static size_t in_n, in_pos; static int in_chunk;
static hbuf outb, repb;

static ssize_t rd(int fd, char *buf, size_t len) {
  size_t k = in_n - in_pos;
  if (k > len) k = len;
  if (in_chunk > 0 && k > (size_t)in_chunk) k = in_chunk;
  memcpy(buf, in_p + in_pos, k); in_pos += k;
  return k;
}
static ssize_t wr(int fd, const char *buf, size_t len) { hbuf_add(&outb, buf, len); return len; }
static ssize_t wrrep(int fd, const char *buf, size_t len) { hbuf_add(&repb, buf, len); return len; }

static void one(const unsigned char *m, size_t n, int chunk) {
  substdio tin = SUBSTDIO_FDBUF(rd, -1, inbuf, sizeof inbuf);
  substdio tto = SUBSTDIO_FDBUF(wr, -1, smtptobuf, sizeof smtptobuf);
  ssin = tin; smtpto = tto;
  subfdoutsmall->op = wrrep; subfdoutsmall->p = 0;
  in_p = m; in_n = n; in_pos = 0; in_chunk = chunk;
  hbuf_reset(&outb); hbuf_reset(&repb);
  flagcritical = 0;
  char st = 'O';
  h_exit_armed = 1;
  if (setjmp(h_jb) == 0) { blast(); }
  else {
    st = (repb.n > 0 && repb.p[0] == 'D' && memmem(repb.p, repb.n, "partial final line", 18)) ? 'P' : 'T';
  }
  h_exit_armed = 0;
  fprintf(h_out, "%d ", chunk); h_hex(m, n); fprintf(h_out, " %c ", st); h_hex(outb.p, outb.n); fputc('\n', h_out);
}

static int unhex(const char *h, unsigned char *o) {
  int n = 0;
  if (h[0] == '-') return 0;
  for (; h[0] && h[1]; h += 2) { unsigned v; sscanf(h, "%2x", &v); o[n++] = v; }
  return n;
}

int main(int argc, char **argv) {
  if (argc > 1 && !strcmp(argv[1], "-")) {   /* explicit cases on stdin: "<chunk> <hex>" */
    static char line[400000]; static unsigned char b[200000];
    h_init_out();
    while (fgets(line, sizeof line, stdin)) {
      int chunk; static char hx[400000];
      if (sscanf(line, "%d %s", &chunk, hx) != 2) continue;
      one(b, unhex(hx, b), chunk);
    }
    fflush(h_out);
    return 0;
  }
  int maxlen = h_argi(argc, argv, 1, 8), nrandom = h_argi(argc, argv, 2, 1000);
  uint64_t seed = (uint64_t)h_argi(argc, argv, 3, 1);
  int shard = h_argi(argc, argv, 4, 0), nshards = h_argi(argc, argv, 5, 1);
  static const unsigned char alpha[4] = { '\r', '\n', '.', 'a' };
  static const int chunks[] = { 0, 1, 2, 3 };
  h_init_out();
  unsigned char m[64];
  uint64_t id = 0;
  /* corpus lines first (stdin): hex messages */
  /* exhaustive part */
  for (int len = 0; len <= maxlen; len++) {
    uint64_t total = 1; for (int i = 0; i < len; i++) total *= 4;
    for (uint64_t k = 0; k < total; k++, id++) {
      if ((int)(id % nshards) != shard) continue;
      uint64_t v = k; for (int i = 0; i < len; i++) { m[i] = alpha[v & 3]; v >>= 2; }
      /* full reads for every string; the other chunkings for strings of length <= maxlen-2 */
      one(m, len, 0);
      if (len + 2 <= maxlen) for (int c = 1; c < 4; c++) one(m, len, chunks[c]);
    }
  }
  /* random long messages */
  h_seed(seed * 1000003ull + shard);
  for (int r = 0; r < nrandom; r++) {
    if ((r % nshards) != shard) { continue; }
    size_t n = (r % 7 == 0) ? h_below(65536) : h_below(3000);
    unsigned char *b = malloc(n + 1);
    int mode = h_below(3);
    for (size_t i = 0; i < n; i++) {
      uint32_t x = h_below(mode == 0 ? 8 : 40);
      b[i] = x == 0 ? '\r' : x == 1 ? '\n' : x == 2 ? '.' : x == 3 ? '\n' : (mode == 2 ? (unsigned char)h_below(256) : 'a' + h_below(26));
    }
    one(b, n, (int[]){0, 1, 7, 1024, 1500}[h_below(5)]);
    free(b);
  }
  fflush(h_out);
  return 0;
}
