/* C06 correspondence harness: the real qmail-remote.c blast() over the real substdio, on generated messages.
 * usage: c06_blast <maxlen> <nrandom> <seed> <shard> <nshards>      |  c06_blast -   (cases "<plan> <hex>" on stdin)
 * output (one line per case):  <plan> <input-hex> <O|P|R|D|T> <wire-hex> <nwrites> <smtpto.p> <buffered-hex>
 *   O = blast returned, P = perm_partialline, R = temp_read (a read failed), D = dropped() (a write failed), T = any other exit
 *   wire = concatenation of everything the socket took (also for P/R/D: what had been flushed before the exit),
 *   buffered = smtptobuf[0..smtpto.p) at that moment, nwrites = number of write() calls on the socket.
 * envelope mode (session 4): stdin line "E <sender-hex> <rcpt-hex> <msg-hex>" (also generated, see main) runs the program's own
 *   addrmangle() on the two argv strings and then its smtp() against a scripted server (timeoutread.o replaced as well); output
 *   "E <sender> <rcpt> <msg> <K|P|T> <seg,seg,...>", one seg per write() on the socket.
 * <plan> (one token) = <rplan>[/<wplan>[/<ibuf>,<obuf>]]: how read() of the message file and write() to the socket behave. Each
 *   plan is a comma-separated list of caps used cyclically, one per call (0 = no cap, e = the call fails with EIO; in the
 *   read plan also i = the call is interrupted, -1/EINTR, nothing transferred: the same bytes are there for the retry).
 *   <ibuf>,<obuf>: the two substdio are given only that many bytes of their buffers (ssin.n / smtpto.n lowered after the
 *   program's own initialisation: refills and flushes then happen every few bytes).  Without them NOTHING of the program's
 *   own `ssin` / `smtpto` is touched.  A plain integer is the old <chunk> (read cap, unlimited writes).
 *
 * How the program is run (round 2, seed C06-r2m2): qmail-remote.c is NOT #included and the harness does NOT initialise
 * `ssin` or `smtpto`.  checks/c06.py builds the program as an object of its own (nqlib prog_object: qmail-remote.c compiled
 * by the scratch tree's ./compile with main renamed, partially linked with everything the Makefile links qmail-remote with
 * except timeoutwrite.o, its writable data moved to the sections pd_qr / pdl_qr / pdr_qr / pb_qr).  Before EVERY case the
 * harness restores those sections to their load-time image, so blast() starts exactly as in a freshly exec'ed qmail-remote:
 * `ssin` = the program's static initialiser (its own read operation, descriptor, buffer object and size), likewise `smtpto`,
 * and every static the program (or a changed program) keeps between calls is back to its initial value - each case is a
 * run of its own, so a failing case also fails when it is replayed alone.
 * The environment is interposed at link level (-Wl,--wrap): read() - descriptor 0 is the message file, served according to
 * <rplan>; any other descriptor fails with EBADF -, write() on descriptor 1 (the report to qmail-rspawn, captured), _exit()
 * (back to the case loop); timeoutwrite.o is replaced by the scripted socket (so the program's real `safewrite`
 * = GEN_SAFE_TIMEOUTWRITE runs: failure -> dropped()), which accepts only the descriptor in `smtpfd`. */
#define _GNU_SOURCE
#include "hcommon.h"
#include <errno.h>
#include "substdio.h"

extern substdio ssin, smtpto;      /* the program's own, as initialised by qmail-remote.c */
extern int smtpfd;
extern void blast(void);
#define SMTPFD 9
/* envelope mode (session 4): the program's own smtp() and addrmangle(), its sender / reciplist / helohost */
#include "stralloc.h"
extern void smtp(void);
extern void addrmangle(stralloc *, char *);
extern stralloc sender, helohost;
extern struct { stralloc *sa; unsigned int len; unsigned int a; } reciplist;

/* the program's writable data (sections made by prog_object): snapshot at start, restore before every case */
extern char __start_pd_qr[] __attribute__((weak)), __stop_pd_qr[] __attribute__((weak));
extern char __start_pdl_qr[] __attribute__((weak)), __stop_pdl_qr[] __attribute__((weak));
extern char __start_pdr_qr[] __attribute__((weak)), __stop_pdr_qr[] __attribute__((weak));
extern char __start_pb_qr[] __attribute__((weak)), __stop_pb_qr[] __attribute__((weak));
static struct { char *a, *b, *snap; } greg[4]; static int ngreg;
__attribute__((no_sanitize("address", "undefined"))) static void rawcopy(char *d, const char *s, size_t n) {
  size_t i = 0;
  if ((((uintptr_t)d | (uintptr_t)s) & 7) == 0) for (; i + 8 <= n; i += 8) *(volatile uint64_t *)(d + i) = *(const uint64_t *)(s + i);
  for (; i < n; i++) ((volatile char *)d)[i] = s[i];
}
static void greg_add(char *a, char *b) {
  if (!a || !b || b <= a) return;
  size_t n = b - a;
  greg[ngreg].a = a; greg[ngreg].b = b; greg[ngreg].snap = malloc(n); rawcopy(greg[ngreg].snap, a, n); ngreg++;
}
static void prog_snapshot(void) {
  greg_add(__start_pd_qr, __stop_pd_qr); greg_add(__start_pdl_qr, __stop_pdl_qr);
  greg_add(__start_pdr_qr, __stop_pdr_qr); greg_add(__start_pb_qr, __stop_pb_qr);
  if (ngreg < 2) { fprintf(stderr, "c06_blast: program data sections not found\n"); exit(3); }
}
static void prog_restore(void) { for (int i = 0; i < ngreg; i++) rawcopy(greg[i].a, greg[i].snap, greg[i].b - greg[i].a); }

static const unsigned char *in_p; static size_t in_n, in_pos;
static hbuf outb, repb;
#define MAXPLAN 64
static int rplan[MAXPLAN], rplan_n, wplan[MAXPLAN], wplan_n, ibuf_n, obuf_n; static long rplan_k, wplan_k, nwrites;
static int in_case;

static const char *parse_caps(const char *t, int *plan, int *n, int allow_intr) {
  int real = 0;                              /* entries other than 'i': a plan of interrupted calls only would never end */
  *n = 0;
  while (*t && *t != '/') {
    if (*n >= MAXPLAN) return 0;
    if (*t == 'e') { plan[(*n)++] = -1; t++; real++; }
    else if (*t == 'i' && allow_intr) { plan[(*n)++] = -2; t++; }
    else if (*t >= '0' && *t <= '9') { plan[(*n)++] = (int)strtol(t, (char **)&t, 10); real++; }
    else return 0;
    if (*t == ',') t++;
  }
  return real > 0 ? t : 0;
}
static int parse_plan(const char *t) {
  ibuf_n = obuf_n = 0;                      /* 0 = as the program initialised it */
  wplan[0] = 0; wplan_n = 1;
  t = parse_caps(t, rplan, &rplan_n, 1);
  if (!t) return 0;
  if (*t == '/') { t = parse_caps(t + 1, wplan, &wplan_n, 0); if (!t) return 0; }
  if (*t == '/') {
    if (sscanf(t + 1, "%d,%d", &ibuf_n, &obuf_n) != 2) return 0;
    if (ibuf_n < 1 || ibuf_n > 1024 || obuf_n < 1 || obuf_n > 1024) return 0;
    return 1;
  }
  return !*t;
}

/* link-level interposition (-Wl,--wrap=read,--wrap=write,--wrap=_exit): whatever read operation the program installed
 * in `ssin` ends up here when it reads descriptor 0 */
ssize_t __real_read(int fd, void *buf, size_t len);
ssize_t __wrap_read(int fd, void *buf, size_t len) {
  if (!in_case) return __real_read(fd, buf, len);
  if (fd != 0) { errno = EBADF; return -1; }                 /* the message is descriptor 0 and nothing else */
  int c = rplan[rplan_k++ % rplan_n];
  if (c == -2) { errno = EINTR; return -1; }                 /* interrupted before any byte was transferred: to be retried */
  if (c < 0) { errno = EIO; return -1; }
  size_t k = in_n - in_pos;
  if (k > len) k = len;
  if (c > 0 && k > (size_t)c) k = c;
  memcpy(buf, in_p + in_pos, k); in_pos += k;
  return k;
}
ssize_t __real_write(int fd, const void *buf, size_t len);
ssize_t __wrap_write(int fd, const void *buf, size_t len) {
  if (!in_case || fd != 1) return __real_write(fd, buf, len);
  hbuf_add(&repb, buf, len);                                  /* the report for qmail-rspawn */
  return len;
}
void __real__exit(int c) __attribute__((noreturn));
void __wrap__exit(int c) {
  if (in_case) { h_exitcode = c; longjmp(h_jb, 1); }
  __real__exit(c);
}
/* replaces timeoutwrite.o: the socket, taking what the write plan says */
#define MAXSEG 64
static size_t segend[MAXSEG]; static int nseg;      /* envelope mode: where each write() on the socket ended */
ssize_t timeoutwrite(int t, int fd, const void *buf, size_t len) {
  if (fd != SMTPFD) { errno = EBADF; return -1; }
  int c = wplan[wplan_k++ % wplan_n];
  nwrites++;
  if (c < 0) { errno = EIO; return -1; }
  size_t k = len;
  if (c > 0 && k > (size_t)c) k = c;
  hbuf_add(&outb, buf, k);
  if (nseg < MAXSEG) segend[nseg++] = outb.n;
  return k;
}
/* replaces timeoutread.o (envelope mode): the scripted server - greeting 220, then 250 to everything except 354 to DATA
 * (the 5th reply with one recipient); one whole reply per read */
static long srv_k;
ssize_t timeoutread(int t, int fd, char *buf, size_t len) {
  if (fd != SMTPFD) { errno = EBADF; return -1; }
  const char *r = srv_k == 0 ? "220 srv ESMTP\r\n" : srv_k == 4 ? "354 go ahead\r\n" : "250 ok\r\n";
  srv_k++;
  size_t k = strlen(r);
  if (k > len) k = len;
  memcpy(buf, r, k);
  return k;
}

static void onep(const unsigned char *m, size_t n, const char *tok) {
  if (!parse_plan(tok)) return;
  prog_restore();                              /* a fresh qmail-remote: ssin, smtpto, inbuf, smtptobuf, every static */
  int own_obuf = smtpto.n;
  if (ibuf_n && ibuf_n < ssin.n) ssin.n = ibuf_n;
  if (obuf_n && obuf_n < smtpto.n) smtpto.n = obuf_n;
  smtpfd = SMTPFD;                             /* main() would have put the connected socket here */
  in_p = m; in_n = n; in_pos = 0; rplan_k = wplan_k = nwrites = 0;
  hbuf_reset(&outb); hbuf_reset(&repb);
  char st = 'O';
  in_case = 1;
  if (setjmp(h_jb) == 0) { blast(); }
  else {
    if (repb.n > 0 && repb.p[0] == 'D' && memmem(repb.p, repb.n, "partial final line", 18)) st = 'P';
    else if (repb.n > 0 && repb.p[0] == 'Z' && memmem(repb.p, repb.n, "Unable to read message", 22)) st = 'R';
    else if (repb.n > 0 && repb.p[0] == 'Z' && memmem(repb.p, repb.n, "but connection died", 19)) st = 'D';
    else st = 'T';
  }
  in_case = 0;
  fprintf(h_out, "%s ", tok); h_hex(m, n); fprintf(h_out, " %c ", st); h_hex(outb.p, outb.n);
  fprintf(h_out, " %ld %d ", nwrites, smtpto.p);
  h_hex((unsigned char *)smtpto.x, smtpto.p > 0 && smtpto.p <= own_obuf ? smtpto.p : 0);
  fputc('\n', h_out);
}
/* envelope case: what main() does with argv[2] / argv[3] (addrmangle into sender / reciplist), then the program's smtp()
 * against the scripted server, message `m` on descriptor 0.  Output:
 *   E <sender-hex> <rcpt-hex> <msg-hex> <K|P|T> <seg,seg,...>     seg = the bytes of one write() on the socket, in order */
static void envcase(const char *snd, const char *rcp, const unsigned char *m, size_t n) {
  static stralloc rl[1]; static char hh[2] = "h";
  prog_restore();
  smtpfd = SMTPFD;
  rplan[0] = 0; rplan_n = 1; wplan[0] = 0; wplan_n = 1;
  in_p = m; in_n = n; in_pos = 0; rplan_k = wplan_k = nwrites = 0; nseg = 0; srv_k = 0;
  hbuf_reset(&outb); hbuf_reset(&repb);
  helohost.s = hh; helohost.len = 1; helohost.a = 2;     /* getcontrols(): control/helohost */
  char st = 'T';
  char *s2 = strdup(snd), *r2 = strdup(rcp);
  in_case = 1;
  if (setjmp(h_jb) == 0) {
    addrmangle(&sender, s2);
    memset(rl, 0, sizeof rl);
    reciplist.sa = rl; reciplist.len = 0; reciplist.a = 1;
    addrmangle(reciplist.sa + reciplist.len, r2);
    ++reciplist.len;
    smtp();
  } else {
    if (memmem(repb.p, repb.n, " accepted message", 17)) st = 'K';
    else if (memmem(repb.p, repb.n, "partial final line", 18)) st = 'P';
  }
  in_case = 0;
  free(s2); free(r2);
  fprintf(h_out, "E "); h_hex((const unsigned char *)snd, strlen(snd)); fputc(' ', h_out);
  h_hex((const unsigned char *)rcp, strlen(rcp)); fputc(' ', h_out); h_hex(m, n); fprintf(h_out, " %c ", st);
  if (nseg == 0) fputc('-', h_out);
  for (int i = 0; i < nseg; i++) { size_t a = i ? segend[i - 1] : 0; if (i) fputc(',', h_out); h_hex(outb.p + a, segend[i] - a); }
  fputc('\n', h_out);
}
static void one(const unsigned char *m, size_t n, int chunk) { char t[24]; snprintf(t, sizeof t, "%d", chunk); onep(m, n, t); }

static int unhex(const char *h, unsigned char *o) {
  int n = 0;
  if (h[0] == '-') return 0;
  for (; h[0] && h[1]; h += 2) { unsigned v; sscanf(h, "%2x", &v); o[n++] = v; }
  return n;
}

int main(int argc, char **argv) {
  prog_snapshot();
  if (argc > 1 && !strcmp(argv[1], "-")) {   /* explicit cases on stdin: "<chunk> <hex>" */
    static char line[400000]; static unsigned char b[200000];
    h_init_out();
    while (fgets(line, sizeof line, stdin)) {
      char tok[800]; static char hx[400000];
      if (line[0] == 'E' && line[1] == ' ') {                 /* E <sender-hex> <rcpt-hex> <msg-hex> : envelope case */
        static char h1[4000], h2[4000], h3[4000]; static unsigned char a1[2001], a2[2001], a3[2001];
        if (sscanf(line + 2, "%3999s %3999s %3999s", h1, h2, h3) != 3) continue;
        int n1 = unhex(h1, a1), n2 = unhex(h2, a2), n3 = unhex(h3, a3);
        a1[n1] = 0; a2[n2] = 0;                               /* argv strings: what follows a NUL does not exist */
        envcase((char *)a1, (char *)a2, a3, n3);
        continue;
      }
      if (sscanf(line, "%799s %s", tok, hx) != 2) continue;
      onep(b, unhex(hx, b), tok);
    }
    fflush(h_out);
    return 0;
  }
  int maxlen = h_argi(argc, argv, 1, 8), nrandom = h_argi(argc, argv, 2, 1000);
  uint64_t seed = (uint64_t)h_argi(argc, argv, 3, 1);
  int shard = h_argi(argc, argv, 4, 0), nshards = h_argi(argc, argv, 5, 1);
  static const unsigned char alpha[4] = { '\r', '\n', '.', 'a' };
  static const int chunks[] = { 0, 1, 2, 3 };
  h_init_out();
  unsigned char m[64];
  uint64_t id = 0;
  /* corpus lines first (stdin): hex messages */
  /* exhaustive part */
  for (int len = 0; len <= maxlen; len++) {
    uint64_t total = 1; for (int i = 0; i < len; i++) total *= 4;
    for (uint64_t k = 0; k < total; k++, id++) {
      if ((int)(id % nshards) != shard) continue;
      uint64_t v = k; for (int i = 0; i < len; i++) { m[i] = alpha[v & 3]; v >>= 2; }
      /* full reads for every string; the other chunkings for strings of length <= maxlen-2 */
      one(m, len, 0);
      if (len + 2 <= maxlen) { for (int c = 1; c < 4; c++) one(m, len, chunks[c]); onep(m, len, "2/1"); onep(m, len, "0/2,1");
                               onep(m, len, "0/0/2,3"); onep(m, len, "0/1/3,2"); onep(m, len, "2/0/1,1"); }
      /* a failing read() after j one-byte reads (temp_read), a failing write() at the final flush / after one byte (dropped) */
      if (len + 4 <= maxlen) {
        for (int j = 0; j <= len; j++) { char t[64]; int o = 0; for (int q = 0; q < j; q++) o += snprintf(t + o, sizeof t - o, "1,"); snprintf(t + o, sizeof t - o, "e"); onep(m, len, t); }
        onep(m, len, "0/e"); onep(m, len, "0/1,e");
        /* interrupted reads (EINTR): before the first byte, between one-byte reads, before the read that sees the end */
        onep(m, len, "i,0"); onep(m, len, "i,1"); onep(m, len, "1,i,i,2/1");
      }
    }
  }
  /* random long messages; 7 of 8 are made to end with a line end so that most of them are transmitted (status O) */
  h_seed(seed * 1000003ull + shard);
  for (int r = 0; r < nrandom; r++) {
    if ((r % nshards) != shard) { continue; }
    size_t n = (r % 7 == 0) ? h_below(65536) : h_below(3000);
    unsigned char *b = malloc(n + 2);
    int mode = h_below(3);
    for (size_t i = 0; i < n; i++) {
      uint32_t x = h_below(mode == 0 ? 8 : 40);
      b[i] = x == 0 ? '\r' : x == 1 ? '\n' : x == 2 ? '.' : x == 3 ? '\n' : (mode == 2 ? (unsigned char)h_below(256) : 'a' + h_below(26));
    }
    uint32_t e = h_below(8);
    if (e >= 2) b[n++] = '\n'; else if (e == 1) b[n++] = '\r';
    if (h_below(2)) one(b, n, (int[]){0, 1, 7, 1024, 1500}[h_below(5)]);
    else { char tok[64]; snprintf(tok, sizeof tok, "%d/%d/%d,%d", (int[]){0, 1, 7, 1024, 1500}[h_below(5)], (int[]){0, 0, 1, 3, 100}[h_below(5)],
                                  (int[]){1024, 512, 64, 7, 2, 1}[h_below(6)], (int[]){1024, 61, 16, 5, 2, 1}[h_below(6)]); onep(b, n, tok); }
    free(b);
  }
  /* chunking sweep (theorems C06_chunking*): messages longer than inbuf/smtptobuf (1024), each under a fixed set of
   * read plans x write plans (1, 2, 1023, 1024, 1025, full, mixed), random short reads and short writes, a failing
   * read (temp_read) and a failing write (dropped) */
  for (int r = 0; r < nrandom / 64 + 2; r++) {
    if ((r % nshards) != shard) continue;
    size_t n = 1030 + h_below(r % 5 == 0 ? 4400 : 2400);
    unsigned char *b = malloc(n + 2);
    int crlf = h_below(3);                         /* 0: LF line ends, 1: CR LF line ends, 2: mixed with bare CRs */
    size_t i = 0;
    while (i < n) {
      uint32_t ll = h_below(70), kind = h_below(10);
      if (kind == 0 && i < n) b[i++] = '.';
      for (uint32_t j = 0; j < ll && i < n; j++) { uint32_t x = h_below(30); b[i++] = (x == 0 && crlf == 2) ? '\r' : x == 1 ? '.' : 'a' + x % 26; }
      if (crlf != 0 && h_below(crlf == 1 ? 1 : 2) == 0 && i < n) b[i++] = '\r';
      if (i < n) b[i++] = '\n';
    }
    if (r % 9 != 8) b[n - 1] = '\n';
    static const char *fixed[] = { "0", "1", "2", "1023", "1024", "1025", "700,1023,5,1024,1",
                                   "0/1", "0/2", "0/1023", "0/1024", "0/1025", "1023/1023", "1/1", "1024/3,1,1020,7", "1023,1/1,1022", "i,0", "1024,i", "i,1023,i,i,1/1023" };
    for (unsigned k = 0; k < sizeof fixed / sizeof fixed[0]; k++) onep(b, n, fixed[k]);
    for (int k = 0; k < 3; k++) {
      char tok[800]; int o = 0;
      for (int side = 0; side < 2; side++) {
        int np = 1 + h_below(12);
        if (side) tok[o++] = '/';
        for (int j = 0; j < np; j++) {
          uint32_t c = h_below(4) == 0 ? 1020 + h_below(8) : h_below(3) == 0 ? 1 + h_below(4) : 1 + h_below(1100);
          o += snprintf(tok + o, sizeof tok - o, "%s%u", j ? "," : "", c);
          if (!side && k == 2 && h_below(3) == 0) o += snprintf(tok + o, sizeof tok - o, ",i");
        }
      }
      onep(b, n, tok);
    }
    { char tok[64]; snprintf(tok, sizeof tok, "%u,%u,e/%u", 1 + h_below(1100), 1 + h_below(1100), h_below(3) * 500); onep(b, n, tok); }
    { char tok[64]; snprintf(tok, sizeof tok, "%u/%u,%u,e", h_below(2) * 1023, 1 + h_below(1100), 1 + h_below(1100)); onep(b, n, tok); }
    free(b);
  }
  /* every short string placed across the 1024-byte refill of inbuf (the CR look-ahead then needs a second read());
   * the padding contains 0..2 LFs so that the flush of smtptobuf falls at different places too */
  {
    int wl = maxlen - 4 < 3 ? 3 : maxlen - 4;
    unsigned char *b = malloc(1024 + wl + 8);
    for (int len = 1; len <= wl; len++) {
      uint64_t total = 1; for (int i = 0; i < len; i++) total *= 4;
      for (uint64_t k = 0; k < total; k++, id++) {
        if ((int)(id % nshards) != shard) continue;
        for (int cut = 0; cut <= len; cut++) {
          size_t pad = 1024 - cut, n = 0;
          memset(b, 'a', pad); b[pad - 1] = '\n'; n = pad;
          for (int j = 0; j < cut % 3; j++) b[100 + 7 * j] = '\n';
          uint64_t v = k; for (int i = 0; i < len; i++) { b[n++] = alpha[v & 3]; v >>= 2; }
          b[n++] = '\n';
          onep(b, n, cut % 3 == 0 ? "0" : cut % 3 == 1 ? "0/1024/1024,64" : "0/0/1024,61");
        }
      }
    }
    free(b);
  }
  /* envelope commands (session 4): addresses as argv strings through the program's addrmangle() and smtp() */
  {
    static const unsigned char ea[8] = { 'a', '@', '.', '\r', '\n', '"', '\\', ' ' };
    static const unsigned char msg1[] = "a\n.\n", msg2[] = "x";
    char a[600]; uint64_t eid = 0;
    int el = maxlen >= 12 ? 5 : 4;
    /* every string over {a @ . CR LF " \ SP} up to length el, as sender and as recipient */
    for (int len = 0; len <= el; len++) {
      uint64_t total = 1; for (int i = 0; i < len; i++) total *= 8;
      for (uint64_t k = 0; k < total; k++, eid++) {
        if ((int)(eid % nshards) != shard) continue;
        uint64_t v = k; for (int i = 0; i < len; i++) { a[i] = ea[v & 7]; v >>= 3; } a[len] = 0;
        envcase(a, "r@h", msg1, 4);
        envcase("s@h", a, msg1, k % 7 == 0 ? 0 : 4);
      }
    }
    /* every byte value 1..255 at the start, in the middle and at the end of the box, and in the host part */
    for (int c = 1; c < 256; c++, eid++) {
      if ((int)(eid % nshards) != shard) continue;
      snprintf(a, sizeof a, "%cbc@h.example", c); envcase(a, "r@h", msg1, 4);
      snprintf(a, sizeof a, "b%cc@h.example", c); envcase("s@h", a, msg1, 4);
      snprintf(a, sizeof a, "bc%c@h.example", c); envcase(a, a, msg1, 4);
      snprintf(a, sizeof a, "bc@h%c.example", c); envcase(a, "r@h", msg2, 1);
      snprintf(a, sizeof a, "b%cc", c); envcase("", a, msg1, 4);
    }
    /* random addresses: mostly ordinary, with CR / LF / quotes / backslashes / '@' / NUL-adjacent bytes (1, 255) sprinkled in,
     * now and then a whole injected command after CR LF */
    for (int r = 0; r < nrandom / 4 + 16; r++, eid++) {
      if ((int)(eid % nshards) != shard) continue;
      char b[2][600];
      for (int w = 0; w < 2; w++) {
        int n = h_below(8) == 0 ? (int)h_below(400) : (int)h_below(24), o = 0, dirty = h_below(3) == 0;
        for (int i = 0; i < n; i++) {
          uint32_t x = h_below(dirty ? 12 : 40);
          b[w][o++] = x == 0 ? '@' : x == 1 ? '.' : (dirty && x == 2) ? '\r' : (dirty && x == 3) ? '\n' : (dirty && x == 4) ? '"' :
                      (dirty && x == 5) ? '\\' : (dirty && x == 6) ? (h_below(2) ? 1 : 255) : (dirty && x == 7) ? (char)(1 + h_below(255)) : 'a' + x % 26;
        }
        if (dirty && h_below(4) == 0) o += snprintf(b[w] + o, 40, "@h\r\nRCPT TO:<v@x");
        b[w][o] = 0;
      }
      envcase(b[0], b[1], msg1, 4);
    }
  }
  fflush(h_out);
  return 0;
}
