/* C19 correspondence harness: the real qmail-pop3d.c main() (with maildir.c, prioq.c, commands.c,
 * getln, scan_ulong … linked unmodified) run in-process over a real temporary maildir.
 *
 * usage: c19_pop3d <seqlen> <nrandom> <seed> <shard> <nshards>  |  c19_pop3d -   (cases on stdin)
 *
 * stdin case:  <uid> <havedir> <files> <events>
 *   files  = comma list of  <pathhex>:<datahex>:<mage>:<aage>   (mtime = NOW - mage, atime = NOW - aage; "-" = none)
 *   events = comma list of  d<hex> (bytes arriving on fd 0)  |  v<pathhex> (file removed by someone else)
 * output line: P <uid> <havedir> <now> <files in readdir order: pathhex:datahex:mtime:atime> <events>
 *                <fd1 hex> <fd2 hex> <exit code> <maildir afterwards: pathhex:datahex,…> <chdir calls>
 *
 *
 * session 4: failing system calls.  A 5th stdin field <faults> = A;G;U;N  ("-" = none in each part):
 *   A = pathhex.pathhex…  stat() of these paths fails in maildir.c append()      (start-up scan)
 *   G = pathhex.pathhex…  stat() of these paths fails in getlist()
 *   U = ordinals (0.2.…)  these unlink() calls of pop3_quit fail (counted from 0 in call order)
 *   N = ordinals          these rename() calls of pop3_quit fail
 * and two more event kinds:  o  (the next open_read() fails)   r<k>  (read number k, counted from 0, of the next
 * message opened successfully fails).  errno cycles through EIO, EACCES, ENOMEM.  A case with a <faults> field or
 * such events is printed as an F line:  F <uid> <havedir> <now> <files> <events> <faults> <fd1> <fd2> <code> <after> <chdirs>
 *
 * Big messages (session 4): a file whose <datahex> is  z<size>  is created sparse (ftruncate to <size> bytes, nothing
 * written); files longer than 64 KiB are reported as z<size> instead of their contents. A case with such a file is
 * printed as a Z line (same fields as a P line).
 *
 * prioq.c driven directly (the heap getlist() sorts the maildir with):
 * stdin case:  H <ops>      ops = comma list of  i<dt> (prioq_insert, ids 0,1,2,…)  |  d (prioq_min + prioq_delmin)
 * output line: H <ops> <removed by the d ops: dt:id | e (heap was empty)> <array afterwards: dt:id,…> <full drain: dt:id,…>
 */
#define _GNU_SOURCE
#include "hcommon.h"
#include <dirent.h>
#include <fcntl.h>
#include <sys/stat.h>
#include <sys/syscall.h>
#include <time.h>
#include <errno.h>

static void h19_exit(int c);
/* failing system calls (session 4): maildir.c is compiled here too, so that its stat() can be made to fail */
static int h_stat_scan(const char *p, struct stat *st);
static int h_stat_list(const char *p, struct stat *st);
static int h_open_read(const char *fn);
static ssize_t h_read(int fd, void *buf, size_t len);
static int h_unlink(const char *p);
extern int h_rename(const char *a, const char *b);
#define stat(p,s) h_stat_scan(p,s)
#include "maildir.c"
#undef stat
#define stat(p,s) h_stat_list(p,s)
#define open_read h_open_read
#define read h_read
#define unlink h_unlink
#define rename h_rename
#define _exit(x) h19_exit(x)
#define main pop3d_main
#define puts pop3d_puts
#include "qmail-pop3d.c"
#undef main
#undef _exit
#undef puts
#undef stat
#undef open_read
#undef read
#undef unlink
#undef rename

#define NOW 1000000000L

/* ---- scripted environment ---- */
typedef struct { char kind; unsigned char *p; size_t n; } event;
static event evs[256]; static int nev, ev_i; static size_t ev_pos;
static hbuf out1, out2;
static int cur_uid, n_chdir, exitcode;
static jmp_buf jb19;
static int arm_o, arm_r = -1;

static void h19_exit(int c) { exitcode = c; longjmp(jb19, 1); }

uid_t getuid(void) { return cur_uid; }
time_t time(time_t *t) { if (t) *t = NOW; return NOW; }
int chdir(const char *p) { n_chdir++; return syscall(SYS_chdir, p); }

ssize_t timeoutread(int t, int fd, char *buf, size_t len) {
  for (;;) {
    if (ev_i >= nev) return 0;
    event *e = &evs[ev_i];
    if (e->kind == 'v') { char pth[600]; memcpy(pth, e->p, e->n); pth[e->n] = 0; unlink(pth); ev_i++; continue; }
    if (e->kind == 'o') { arm_o = 1; ev_i++; continue; }
    if (e->kind == 'r') { arm_r = (int)e->n; ev_i++; continue; }
    size_t k = e->n - ev_pos;
    if (k == 0) { ev_i++; ev_pos = 0; continue; }
    if (k > len) k = len;
    memcpy(buf, e->p + ev_pos, k); ev_pos += k;
    if (ev_pos == e->n) { ev_i++; ev_pos = 0; }
    return k;
  }
}
ssize_t timeoutwrite(int t, int fd, const void *buf, size_t len) {
  hbuf_add(fd == 2 ? &out2 : &out1, buf, len); return len;
}

/* ---- failing system calls ---- */
static struct { char a[16][300]; int na; char g[16][300]; int ng; uint64_t u, n; int on; } flt;
static int rd_died, rd_active, rd_k, rd_no, msg_fd, n_unlink, n_rename, errno_i;
static int n_fault_hit[6];      /* a g o r u n : faults that really happened (whole process) */
static int next_errno(void) { static const int e[3] = { EIO, EACCES, ENOMEM }; return e[errno_i++ % 3]; }
static int in_set(char set[][300], int n, const char *p) { for (int i = 0; i < n; i++) if (!strcmp(set[i], p)) return 1; return 0; }
static int h_stat_scan(const char *p, struct stat *st) {
  if (strncmp(p, "tmp/", 4) && in_set(flt.a, flt.na, p)) { n_fault_hit[0]++; errno = next_errno(); return -1; }
  return (stat)(p, st);
}
static int h_stat_list(const char *p, struct stat *st) {
  if (in_set(flt.g, flt.ng, p)) { n_fault_hit[1]++; errno = next_errno(); return -1; }
  return (stat)(p, st);
}
static int h_open_read(const char *fn) {
  if (arm_o) { arm_o = 0; n_fault_hit[2]++; errno = next_errno(); return -1; }
  int fd = open(fn, O_RDONLY | O_NDELAY);
  if (fd >= 0) { msg_fd = fd; rd_active = arm_r >= 0; rd_k = arm_r; rd_no = 0; arm_r = -1; }
  return fd;
}
static ssize_t h_read(int fd, void *buf, size_t len) {
  if (fd == msg_fd && rd_active) {
    if (rd_no == rd_k) { rd_active = 0; rd_died = 1; n_fault_hit[3]++; errno = next_errno(); return -1; }
    rd_no++;
  }
  return (read)(fd, buf, len);
}
static int h_unlink(const char *p) {
  int k = n_unlink++;
  if (k < 64 && ((flt.u >> k) & 1)) { n_fault_hit[4]++; errno = next_errno(); return -1; }
  return (unlink)(p);
}
int h_rename(const char *a, const char *b) {
  int k = n_rename++;
  if (k < 64 && ((flt.n >> k) & 1)) { n_fault_hit[5]++; errno = next_errno(); return -1; }
  return (rename)(a, b);
}
static void flt_reset(void) { memset(&flt, 0, sizeof flt); }
static void flt_path(char set[][300], int *n, const char *p) { if (*n < 16) snprintf(set[(*n)++], 300, "%s", p); }
static void flt_print_paths(char set[][300], int n) {
  if (!n) fputc('-', h_out);
  for (int i = 0; i < n; i++) { if (i) fputc('.', h_out); h_hex((unsigned char *)set[i], strlen(set[i])); }
}
static void flt_print_mask(uint64_t m) {
  int first = 1;
  if (!m) fputc('-', h_out);
  for (int k = 0; k < 64; k++) if ((m >> k) & 1) { fprintf(h_out, "%s%d", first ? "" : ".", k); first = 0; }
}

/* ---- the maildir on disk ---- */
typedef struct { char path[300]; unsigned char *data; size_t n; long mage, aage; long long sparse; } mfile;
static char base[200], md[260];

static void rm_tree(void) {
  static const char *sub[] = { "new", "cur", "tmp" };
  char p[900];
  for (int s = 0; s < 3; s++) {
    snprintf(p, sizeof p, "%s/%s", md, sub[s]);
    DIR *d = opendir(p);
    if (!d) continue;
    struct dirent *e;
    while ((e = readdir(d))) {
      if (!strcmp(e->d_name, ".") || !strcmp(e->d_name, "..")) continue;
      char q[1200]; snprintf(q, sizeof q, "%s/%s", p, e->d_name); unlink(q);
    }
    closedir(d); rmdir(p);
  }
  rmdir(md);
}

static void mk_tree(mfile *f, int nf) {
  char p[900];
  mkdir(md, 0700);
  snprintf(p, sizeof p, "%s/new", md); mkdir(p, 0700);
  snprintf(p, sizeof p, "%s/cur", md); mkdir(p, 0700);
  snprintf(p, sizeof p, "%s/tmp", md); mkdir(p, 0700);
  for (int i = 0; i < nf; i++) {
    snprintf(p, sizeof p, "%s/%s", md, f[i].path);
    int fd = open(p, O_WRONLY | O_CREAT | O_TRUNC, 0600);
    if (fd < 0) { fprintf(stderr, "cannot create %s\n", p); exit(3); }
    if (f[i].sparse) { if (ftruncate(fd, (off_t)f[i].sparse) != 0) { fprintf(stderr, "cannot make a sparse file of %lld bytes\n", f[i].sparse); exit(3); } }
    else if (f[i].n && write(fd, f[i].data, f[i].n) != (ssize_t)f[i].n) exit(3);
    close(fd);
    struct timespec ts[2] = { { NOW - f[i].aage, 0 }, { NOW - f[i].mage, 0 } };
    utimensat(AT_FDCWD, p, ts, 0);
  }
}

typedef struct { char path[300]; } pent;
static int cmp_pent(const void *a, const void *b) { return strcmp(((pent *)a)->path, ((pent *)b)->path); }

/* entries of the three directories; sorted = 0 keeps readdir order (new, cur, tmp) */
static int scan_tree(pent *out, int max, int sorted) {
  static const char *sub[] = { "new", "cur", "tmp" };
  int n = 0; char p[900];
  for (int s = 0; s < 3; s++) {
    snprintf(p, sizeof p, "%s/%s", md, sub[s]);
    DIR *d = opendir(p);
    if (!d) continue;
    struct dirent *e;
    while ((e = readdir(d)) && n < max) {
      if (!strcmp(e->d_name, ".") || !strcmp(e->d_name, "..")) continue;
      snprintf(out[n++].path, 300, "%s/%s", sub[s], e->d_name);
    }
    closedir(d);
  }
  if (sorted) qsort(out, n, sizeof(pent), cmp_pent);
  return n;
}

static void emit_file(const char *rel, int withtimes) {
  char p[900]; snprintf(p, sizeof p, "%s/%s", md, rel);
  struct stat st; static unsigned char buf[1 << 16]; size_t n = 0;
  int fd = open(p, O_RDONLY | O_NOATIME), big = 0;
  if (fd < 0) fd = open(p, O_RDONLY);
  if (fd >= 0) {
    fstat(fd, &st); big = st.st_size > (off_t)sizeof buf;
    if (!big) { ssize_t r; while ((r = read(fd, buf + n, sizeof buf - n)) > 0) n += r; fstat(fd, &st); }
    close(fd);
  }
  h_hex((const unsigned char *)rel, strlen(rel)); fputc(':', h_out);
  if (big) fprintf(h_out, "z%lld", (long long)st.st_size); else h_hex(buf, n);
  if (withtimes) fprintf(h_out, ":%ld:%ld", (long)st.st_mtime, (long)st.st_atime);
}

static void one(int uid, int havedir, mfile *f, int nf) {
  static pent ents[256];
  rm_tree(); mk_tree(f, nf);
  int isf = flt.on;
  for (int i = 0; i < nev; i++) if (evs[i].kind == 'o' || evs[i].kind == 'r') isf = 1;
  int isz = 0; for (int i = 0; i < nf; i++) if (f[i].sparse) isz = 1;
  fprintf(h_out, "%c %d %d %ld ", isf ? 'F' : isz ? 'Z' : 'P', uid, havedir, NOW);
  int n = scan_tree(ents, 256, 0);
  if (!n) fputc('-', h_out);
  for (int i = 0; i < n; i++) { if (i) fputc(',', h_out); emit_file(ents[i].path, 1); }
  fputc(' ', h_out);
  if (!nev) fputc('-', h_out);
  for (int i = 0; i < nev; i++) {
    if (i) fputc(',', h_out);
    fputc(evs[i].kind, h_out);
    if (evs[i].kind == 'o') continue;
    if (evs[i].kind == 'r') { fprintf(h_out, "%zu", evs[i].n); continue; }
    h_hex(evs[i].p, evs[i].n);
  }
  if (isf) {
    fputc(' ', h_out); flt_print_paths(flt.a, flt.na); fputc(';', h_out); flt_print_paths(flt.g, flt.ng);
    fputc(';', h_out); flt_print_mask(flt.u); fputc(';', h_out); flt_print_mask(flt.n);
  }
  arm_o = 0; arm_r = -1; rd_active = 0; rd_died = 0; msg_fd = -1; n_unlink = 0; n_rename = 0;
  /* reset what the program dirties */
  ssin.p = 0; ssin.n = sizeof ssinbuf; ssout.p = 0; sserr.p = 0;
  last = 0; numm = 0; if (m) { free(m); m = 0; }
  hbuf_reset(&out1); hbuf_reset(&out2);
  ev_i = 0; ev_pos = 0; cur_uid = uid; n_chdir = 0; exitcode = -1;
  char nodir[300]; snprintf(nodir, sizeof nodir, "%s/does-not-exist", base);
  char *argv[3] = { "qmail-pop3d", havedir == 1 ? md : havedir == 2 ? 0 : nodir, 0 };
  if (setjmp(jb19) == 0) pop3d_main(argv[1] ? 2 : 1, argv);
  syscall(SYS_chdir, base);
  if (rd_died && msg_fd >= 0) close(msg_fd);
  msg_fd = -1; rd_died = 0;     /* blast() dies on a read error without closing */
  fputc(' ', h_out); h_hex(out1.p, out1.n); fputc(' ', h_out); h_hex(out2.p, out2.n);
  fprintf(h_out, " %d ", exitcode);
  n = scan_tree(ents, 256, 1);
  if (!n) fputc('-', h_out);
  for (int i = 0; i < n; i++) { if (i) fputc(',', h_out); emit_file(ents[i].path, 0); }
  fprintf(h_out, " %d\n", n_chdir);
}

/* ---- prioq.c driven directly ---- */
typedef struct { char kind; long dt; } hop;
static void heap_case(hop *ops, int nops) {
  static prioq q; struct prioq_elt pe; unsigned long id = 0; int first;
  q.len = 0;
  fputs("H ", h_out);
  if (!nops) fputc('-', h_out);
  for (int i = 0; i < nops; i++) {
    if (i) fputc(',', h_out);
    if (ops[i].kind == 'i') fprintf(h_out, "i%ld", ops[i].dt); else fputc('d', h_out);
  }
  fputc(' ', h_out); first = 1;
  for (int i = 0; i < nops; i++) {
    if (ops[i].kind == 'i') { pe.dt = ops[i].dt; pe.id = id++; if (!prioq_insert(&q, &pe)) exit(3); continue; }
    if (!first) fputc(',', h_out);
    first = 0;
    if (prioq_min(&q, &pe)) fprintf(h_out, "%ld:%lu", (long)pe.dt, pe.id); else fputc('e', h_out);
    prioq_delmin(&q);
  }
  if (first) fputc('-', h_out);
  fputc(' ', h_out);
  if (!q.p || !q.len) fputc('-', h_out);
  else for (unsigned int k = 0; k < q.len; k++) fprintf(h_out, "%s%ld:%lu", k ? "," : "", (long)q.p[k].dt, q.p[k].id);
  fputc(' ', h_out); first = 1;
  while (prioq_min(&q, &pe)) { fprintf(h_out, "%s%ld:%lu", first ? "" : ",", (long)pe.dt, pe.id); first = 0; prioq_delmin(&q); }
  if (first) fputc('-', h_out);
  fputc('\n', h_out);
}

static void heap_stdin(char *ops_s) {
  static hop ops[4096]; int n = 0;
  if (strcmp(ops_s, "-"))
    for (char *p = ops_s; p && *p && n < 4096; ) {
      char *e = strchr(p, ','); if (e) *e = 0;
      if (*p == 'i') { ops[n].kind = 'i'; ops[n].dt = atol(p + 1); n++; } else if (*p == 'd') { ops[n].kind = 'd'; ops[n].dt = 0; n++; }
      p = e ? e + 1 : 0;
    }
  heap_case(ops, n);
}

/* ---- case construction ---- */
static unsigned char arena[1 << 20]; static size_t arena_n;
static unsigned char *keep(const void *p, size_t n) { unsigned char *r = arena + arena_n; memcpy(r, p, n); arena_n += n; return r; }
static void ev_reset(void) { nev = 0; arena_n = 0; }
static void ev_data(const char *s, size_t n) { if (nev < 250) { evs[nev].kind = 'd'; evs[nev].p = keep(s, n); evs[nev].n = n; nev++; } }
static void ev_line(const char *s) { char b[600]; int n = snprintf(b, sizeof b, "%s\r\n", s); ev_data(b, n); }
static void ev_arm(char kind, int k) { if (nev < 250) { evs[nev].kind = kind; evs[nev].p = 0; evs[nev].n = (size_t)k; nev++; } }
static void ev_vanish(const char *path) { if (nev < 250) { evs[nev].kind = 'v'; evs[nev].p = keep(path, strlen(path)); evs[nev].n = strlen(path); nev++; } }

static void mf(mfile *f, const char *path, const char *data, long n, long mage, long aage) {
  snprintf(f->path, sizeof f->path, "%s", path);
  if (n < 0) n = strlen(data);
  f->data = keep(data, n); f->n = n; f->mage = mage; f->aage = aage; f->sparse = 0;
}

#define HUGE1 "18446744073709551617"
/* the command alphabet; %d slots are filled with n (number of messages) and n+1 */
static const char *alpha_t[] = {
  "QUIT", "STAT", "RSET", "LAST", "NOOP", "XYZZY 1", "",
  "LIST", "LIST 0", "LIST 1", "LIST %n", "LIST %m", "LIST " HUGE1, "LIST x1",
  "UIDL", "UIDL 0", "UIDL 1", "UIDL %n", "UIDL %m", "UIDL " HUGE1, "UIDL -1",
  "DELE 0", "DELE 1", "dele %n", "DELE %m", "DELE " HUGE1, "DELE", "DELE one", "DELE 1x",
  "RETR 0", "RETR 1", "RETR %n", "retr %m", "RETR " HUGE1, "RETR junk", "RETR %n 0",
  "TOP 1 0", "TOP %n 1", "TOP %m 1", "TOP 1", "Top %n 2", "TOP 0 0", "TOP " HUGE1 " 0",
};
#define NALPHA ((int)(sizeof alpha_t / sizeof alpha_t[0]))
static char alpha[NALPHA][64];
static void fill_alpha(int n) {
  for (int i = 0; i < NALPHA; i++) {
    const char *s = alpha_t[i]; char *o = alpha[i];
    for (; *s; s++) {
      if (s[0] == '%' && s[1] == 'n') { o += sprintf(o, "%d", n); s++; }
      else if (s[0] == '%' && s[1] == 'm') { o += sprintf(o, "%d", n + 1); s++; }
      else *o++ = *s;
    }
    *o = 0;
  }
}

/* fixed populations; returns the number of files, *nmsg = messages the server will list */
static const char M1[] = "Subject: one\nX: y\n\nbody line 1\n.dot\n..\n.\nlast line no newline";
static const char M2[] = "H: 2\r\n\r\n.\r\nb2\r\n";
static const char M3[] = "no blank line here\n.x\n";
static int population(int k, mfile *f, int *nmsg) {
  int n = 0;
  switch (k) {
  case 0: *nmsg = 0; break;
  case 1: mf(&f[n++], "new/1000.a.host", M1, -1, 500, 500); *nmsg = 1; break;
  case 2:
    mf(&f[n++], "new/1001.b.host", M2, -1, 300, 300);
    mf(&f[n++], "cur/0999.a.host:2,S", M1, -1, 400, 400);
    *nmsg = 2; break;
  case 3:
    mf(&f[n++], "new/t1", M3, -1, 100, 100);
    mf(&f[n++], "cur/t2:2,", "", 0, 100, 100);
    mf(&f[n++], "new/t3", "\n", 1, 100, 100);
    mf(&f[n++], "new/.hidden", "secret\n", -1, 100, 100);
    mf(&f[n++], "cur/future:2,", "later\n", -1, -5000, 10);
    mf(&f[n++], "new/justnow", "now\n", -1, 0, 0);
    mf(&f[n++], "new/second-ago", "s\n\n1\n2\n3\n", -1, 1, 1);
    mf(&f[n++], "tmp/old", "stale", -1, 200000, 129601);
    mf(&f[n++], "tmp/edge", "edge", -1, 200000, 129600);
    mf(&f[n++], "tmp/.dotold", "x", -1, 200000, 200000);
    *nmsg = 4; break;
  case 4:
    mf(&f[n++], "cur/nocolon", "a\n\nb\nc\nd\n", -1, 50, 50);
    mf(&f[n++], "cur/x:1:2,RS", ".\n", 2, 60, 60);
    mf(&f[n++], "new/y", "\n\n\n", 3, 60, 60);
    *nmsg = 3; break;
  case 5: {   /* messages longer than the 1024-byte buffers of ssmsg and ssout; a line longer than 1024 and one longer than 8192 */
    static char b1[4000], b2[12000]; static size_t n1, n2;
    if (!n1) {
      n1 += sprintf(b1 + n1, "Subject: big one\nX-Pad: %050d\n\n", 7);
      for (int l = 0; l < 44; l++) n1 += sprintf(b1 + n1, "%sline %02d %.*s\n", l % 7 == 3 ? "." : "", l, 20 + (l * 13) % 60, "abcdefghijklmnopqrstuvwxyzabcdefghijklmnopqrstuvwxyzabcdefghijklmnopqrstuvwxyz0123456789");
      n2 += sprintf(b2 + n2, "H: big two\n\n");
      for (int i = 0; i < 1500; i++) b2[n2++] = 'a' + i % 26;
      b2[n2++] = '\n'; n2 += sprintf(b2 + n2, ".short\n");
      for (int i = 0; i < 9300; i++) b2[n2++] = i ? 'A' + i % 26 : '.';
      b2[n2++] = '\n'; n2 += sprintf(b2 + n2, ".tail without newline");
    }
    mf(&f[n++], "new/big1", b1, (long)n1, 300, 300);
    mf(&f[n++], "cur/big2:2,S", b2, (long)n2, 200, 200);
    mf(&f[n++], "new/small", M1, -1, 100, 100);
    *nmsg = 3; break; }
  }
  return n;
}

static const char *lineset[] = { "", ".", "..", ".x", "Subject: hi", "a\r", "x", "\r", "...", "From me" };
static int random_population(mfile *f, int *nmsg) {
  int big = h_below(40) == 0;      /* now and then a big maildir (distinct mtimes): deeper heaps in getlist() */
  int nf = big ? 20 + h_below(30) : h_below(8) == 0 ? 6 + h_below(7) : h_below(5);
  int distinct = big || h_below(3) != 0, n = 0; *nmsg = 0;
  for (int i = 0; i < nf; i++) {
    char path[100], data[2000]; size_t dn = 0;
    int innew = h_below(2);
    snprintf(path, sizeof path, innew ? "new/%d.%u" : (h_below(3) ? "cur/%d.%u:2,%s" : "cur/%d.%u"), 1000 + i, h_below(1000), h_below(2) ? "S" : "");
    int nl = big ? h_below(3) : h_below(7);
    for (int l = 0; l < nl; l++) {
      const char *s = lineset[h_below(10)]; size_t sl = strlen(s);
      memcpy(data + dn, s, sl); dn += sl;
      if (l + 1 < nl || h_below(3)) data[dn++] = '\n';
    }
    long mage = distinct ? 100 + 10 * (long)((i * 7 + 3) % 13) + (long)i * 1000 : 100 + (long)h_below(nf > 5 ? 40 : 2);
    if (h_below(12) == 0) mage = -(long)h_below(100);
    mf(&f[n++], path, data, dn, mage, 10);
    if (mage > 0) ++*nmsg;
  }
  if (h_below(4) == 0) mf(&f[n++], "tmp/1.x", "t", 1, 10, h_below(2) ? 129700 : 100);
  if (h_below(6) == 0) mf(&f[n++], "new/.keep", "", 0, 10, 10);
  return n;
}

static int unhex(const char *h, size_t hl, unsigned char *o) {
  int n = 0;
  if (hl >= 1 && h[0] == '-') return 0;
  for (size_t i = 0; i + 1 < hl; i += 2) { unsigned v; sscanf(h + i, "%2x", &v); o[n++] = v; }
  return n;
}

static void stdin_cases(void) {
  static char line[1 << 20]; static mfile f[64]; static unsigned char tmp[1 << 18];
  while (fgets(line, sizeof line, stdin)) {
    int uid, havedir; char *fs, *es;
    char *tok = strtok(line, " \n"); if (!tok) continue;
    if (!strcmp(tok, "H")) { tok = strtok(0, " \n"); if (tok) heap_stdin(tok); continue; }
    uid = atoi(tok);
    tok = strtok(0, " \n"); if (!tok) continue; havedir = atoi(tok);
    fs = strtok(0, " \n"); es = strtok(0, " \n"); if (!fs || !es) continue;
    char *fls = strtok(0, " \n");
    ev_reset(); flt_reset();
    if (fls) {
      flt.on = 1;
      char *part[4] = { 0, 0, 0, 0 }; int np = 0;
      for (char *p = fls; p && np < 4; ) { char *e = strchr(p, ';'); if (e) *e = 0; part[np++] = p; p = e ? e + 1 : 0; }
      for (int k = 0; k < np; k++) {
        if (!strcmp(part[k], "-")) continue;
        for (char *p = part[k]; p && *p; ) {
          char *e = strchr(p, '.'); if (e) *e = 0;
          if (k < 2) { int pn = unhex(p, strlen(p), tmp); tmp[pn] = 0; if (k == 0) flt_path(flt.a, &flt.na, (char *)tmp); else flt_path(flt.g, &flt.ng, (char *)tmp); }
          else { int o = atoi(p); if (o >= 0 && o < 64) { if (k == 2) flt.u |= 1ull << o; else flt.n |= 1ull << o; } }
          p = e ? e + 1 : 0;
        }
      }
    }
    int nf = 0;
    if (strcmp(fs, "-")) {
      for (char *p = fs; p && *p && nf < 64; ) {
        char *e = strchr(p, ','); if (e) *e = 0;
        char *c1 = strchr(p, ':'), *c2 = c1 ? strchr(c1 + 1, ':') : 0, *c3 = c2 ? strchr(c2 + 1, ':') : 0;
        if (c3) {
          int pn = unhex(p, c1 - p, tmp); tmp[pn] = 0;
          char path[300]; snprintf(path, sizeof path, "%s", (char *)tmp);
          if (c1[1] == 'z') { mf(&f[nf], path, "", 0, atol(c2 + 1), atol(c3 + 1)); f[nf++].sparse = atoll(c1 + 2); }
          else {
          int dn = unhex(c1 + 1, c2 - c1 - 1, tmp);
          mf(&f[nf++], path, (char *)tmp, dn, atol(c2 + 1), atol(c3 + 1)); }
        }
        p = e ? e + 1 : 0;
      }
    }
    if (strcmp(es, "-")) {
      for (char *p = es; p && *p; ) {
        char *e = strchr(p, ','); if (e) *e = 0;
        if (*p == 'o') { ev_arm('o', 0); p = e ? e + 1 : 0; continue; }
        if (*p == 'r') { ev_arm('r', atoi(p + 1)); p = e ? e + 1 : 0; continue; }
        int n = unhex(p + 1, strlen(p + 1), tmp);
        if (*p == 'v') { tmp[n] = 0; ev_vanish((char *)tmp); } else ev_data((char *)tmp, n);
        p = e ? e + 1 : 0;
      }
    }
    one(uid, havedir, f, nf);
    flt_reset();
  }
}

int main(int argc, char **argv) {
  /* the protocol stream lives on a high descriptor */
  int fd = fcntl(1, F_DUPFD_CLOEXEC, 100);
  h_out = fdopen(fd, "w");
  static char big[1 << 20]; setvbuf(h_out, big, _IOFBF, sizeof big);
  struct stat st;
  snprintf(base, sizeof base, "%s/nqc19-%d", stat("/dev/shm", &st) == 0 ? "/dev/shm" : "/tmp", (int)getpid());
  mkdir(base, 0700); syscall(SYS_chdir, base);
  snprintf(md, sizeof md, "%s/Maildir", base);
  static mfile f[64];

  if (argc > 1 && !strcmp(argv[1], "-")) { stdin_cases(); goto done; }
  {
    int seqlen = h_argi(argc, argv, 1, 2), nrandom = h_argi(argc, argv, 2, 1000);
    uint64_t seed = (uint64_t)h_argi(argc, argv, 3, 1);
    int shard = h_argi(argc, argv, 4, 0), nshards = h_argi(argc, argv, 5, 1);
    uint64_t id = 0;

    /* (0) refusal to run as root / without a maildir */
    for (int k = 0; k < 5; k++, id++) {
      if ((int)(id % nshards) != shard) continue;
      int nmsg; ev_reset(); int nf = population(k, f, &nmsg);
      ev_line("DELE 1"); ev_line("QUIT");
      one(0, 1, f, nf); one(1000, 0, f, nf); one(0, 0, f, nf); one(1000, 2, f, nf);
    }

    /* (1) every message over {LF,'.',a,CR} up to length 6 (7 in longer runs): RETR and TOP of it */
    int maxc = seqlen >= 4 ? 7 : 6;
    static const unsigned char ca[4] = { '\n', '.', 'a', '\r' };
    for (int len = 0; len <= maxc; len++) {
      uint64_t total = 1; for (int i = 0; i < len; i++) total *= 4;
      for (uint64_t k = 0; k < total; k++, id++) {
        if ((int)(id % nshards) != shard) continue;
        char c[16]; uint64_t v = k; for (int i = 0; i < len; i++) { c[i] = ca[v & 3]; v >>= 2; }
        ev_reset(); mf(&f[0], (k & 1) ? "new/m" : "cur/m:2,", c, len, 10, 10);
        ev_line("RETR 1"); ev_line("TOP 1 0"); ev_line("TOP 1 1"); ev_line("TOP 1 2"); ev_line("TOP 1"); ev_line("RETR 1 0"); ev_line("RETR 1 1"); ev_line("LIST"); ev_line("QUIT");
        one(1000, 1, f, 1);
      }
    }

    /* (2) every command sequence up to seqlen over the alphabet, on the fixed populations */
    for (int pk = 0; pk < 5; pk++) {
      int nmsg;
      int L = (pk == 2 || pk == 3) ? seqlen : (seqlen > 2 ? seqlen - 1 : seqlen);
      { ev_reset(); population(pk, f, &nmsg); }
      fill_alpha(nmsg ? nmsg : 1);
      for (int len = 1; len <= L; len++) {
        uint64_t total = 1; for (int i = 0; i < len; i++) total *= NALPHA;
        for (uint64_t k = 0; k < total; k++, id++) {
          if ((int)(id % nshards) != shard) continue;
          ev_reset(); int nf = population(pk, f, &nmsg);
          uint64_t v = k; int hasquit = 0;
          for (int i = 0; i < len; i++) { int a = v % NALPHA; v /= NALPHA; ev_line(alpha[a]); if (a == 0) hasquit = 1; }
          if (!hasquit && (id % 4) != 3) ev_line("QUIT");
          one(1000, 1, f, nf);
        }
      }
    }

    /* (2b) what follows the message number: for every verb that takes a number, the number followed by junk,
       by a space, by a second number, ... - after nothing / DELE 1 / DELE 2, followed by LIST and (or not) QUIT */
    {
      static const char *vb[] = { "DELE", "RETR", "TOP", "LIST", "UIDL" };
      static const char *form[] = { "%s 1x", "%s 1 x", "%s 1 ", "%s 2 0", "%s %d 0", "%s 1x 0", "%s 1  2", "%s 01", "%s 1\t",
                                    "%s 2abc", "%s 1 1x", "%s 1.", "%s 1-", "%s +1" };
      static const char *pre[] = { 0, "DELE 1", "DELE 2" };
      for (int pk = 0; pk < 5; pk++)
        for (int v = 0; v < 5; v++)
          for (int fo = 0; fo < (int)(sizeof form / sizeof form[0]); fo++)
            for (int pr = 0; pr < 3; pr++)
              for (int q = 0; q < 2; q++, id++) {
                if ((int)(id % nshards) != shard) continue;
                int nmsg; ev_reset(); int nf = population(pk, f, &nmsg);
                char cmd[100];
                if (fo == 4) snprintf(cmd, sizeof cmd, form[fo], vb[v], nmsg ? nmsg : 1); else snprintf(cmd, sizeof cmd, form[fo], vb[v]);
                if (pre[pr]) ev_line(pre[pr]);
                ev_line(cmd); ev_line("LIST");
                if (q) ev_line("QUIT");
                one(1000, 1, f, nf);
              }
    }

    /* (3) seeded random sessions: random maildirs, longer sequences, vanishing files, odd chunking */
    h_seed(seed * 1000003ull + shard);
    for (int r = 0; r < nrandom; r++) {
      if ((r % nshards) != shard) continue;
      int nmsg; ev_reset();
      int nf = h_below(4) ? random_population(f, &nmsg) : population(1 + h_below(4), f, &nmsg);
      fill_alpha(nmsg ? nmsg : 1);
      int len = 1 + h_below(10), mode = h_below(4);
      char stream[4096]; size_t sn = 0;
      for (int i = 0; i < len; i++) {
        char cmd[100];
        if (h_below(3) == 0 && nmsg > 0) {
          static const char *vb[] = { "DELE", "RETR", "TOP", "LIST", "UIDL", "dele", "Retr" };
          const char *vbs = vb[h_below(7)];
          if (h_below(5) == 0) snprintf(cmd, sizeof cmd, "%s %u %u", vbs, 1 + h_below(nmsg), h_below(4));
          else if (h_below(6) == 0) { static const char *tail[] = { "x", " ", " x", "abc", " 0x", "\t", "." };
            snprintf(cmd, sizeof cmd, "%s %s%u%s", vbs, h_below(2) ? " " : "", 1 + h_below(nmsg), tail[h_below(7)]); }
          else snprintf(cmd, sizeof cmd, "%s %u", vbs, 1 + h_below(nmsg));
        } else snprintf(cmd, sizeof cmd, "%s", alpha[i == len - 1 && h_below(2) ? 0 : 1 + h_below(NALPHA - 1)]);
        if (mode == 0) { ev_line(cmd); if (nf && h_below(6) == 0) ev_vanish(f[h_below(nf)].path); }
        else sn += snprintf(stream + sn, sizeof stream - sn, "%s%s", cmd, h_below(3) ? "\r\n" : "\n");
      }
      if (mode != 0) {          /* the same bytes in arbitrary pieces, possibly an unfinished last line */
        if (mode == 3 && sn > 2) sn -= 1 + h_below(2);
        size_t p = 0;
        while (p < sn) {
          size_t k = 1 + h_below(mode == 1 ? 200 : 9); if (k > sn - p) k = sn - p;
          ev_data(stream + p, k); p += k;
          if (nf && h_below(25) == 0) ev_vanish(f[h_below(nf)].path);
        }
      }
      one(1000, 1, f, nf);
    }

    /* (4) prioq.c directly: every insertion order of up to 6 entries over 4 time stamps, drained;
       then seeded random histories of inserts and delmins (up to 400 operations, few or many ties) */
    {
      static hop ops[4096];
      for (int len = 0; len <= 6; len++) {
        uint64_t total = 1; for (int i = 0; i < len; i++) total *= 4;
        for (uint64_t k = 0; k < total; k++, id++) {
          if ((int)(id % nshards) != shard) continue;
          uint64_t v = k; for (int i = 0; i < len; i++) { ops[i].kind = 'i'; ops[i].dt = 100 + (long)(v & 3); v >>= 2; }
          heap_case(ops, len);
        }
      }
      int nheap = nrandom / 20;
      for (int r = 0; r < nheap; r++) {
        if ((r % nshards) != shard) continue;
        int n = h_below(4) == 0 ? 100 + h_below(300) : 1 + h_below(40);
        int range = h_below(3) == 0 ? 3 : h_below(2) ? 50 : 1000000;
        int pdel = h_below(3) == 0 ? 0 : 1 + h_below(4);      /* 0: inserts only, as maildir_scan does */
        for (int i = 0; i < n; i++) {
          if (pdel && h_below(10) < (uint32_t)pdel) { ops[i].kind = 'd'; ops[i].dt = 0; }
          else { ops[i].kind = 'i'; ops[i].dt = 999000000L + (long)h_below(range); }
        }
        heap_case(ops, n);
      }
    }

    /* (5) failing system calls (session 4) */
    {
      static const int rk[] = { 0, 1, 2, 3, 4, 5, 9, 10, 11, 12, 40 };
      static const char *vf[] = { "RETR %d", "TOP %d 0", "TOP %d 1", "TOP %d 3", "TOP %d 30" };
      /* (5a) the next open fails / read number k of the next message fails: every message of populations 1-5 */
      for (int pk = 1; pk <= 5; pk++) {
        int nmsg; ev_reset(); population(pk, f, &nmsg);
        for (int mi = 1; mi <= nmsg; mi++)
          for (int v = 0; v < 5; v++)
            for (int a = -1; a < (int)(sizeof rk / sizeof rk[0]); a++, id++) {
              if ((int)(id % nshards) != shard) continue;
              ev_reset(); flt_reset(); int nf = population(pk, f, &nmsg);
              char cmd[100]; snprintf(cmd, sizeof cmd, vf[v], mi);
              if (a < 0) ev_arm('o', 0); else ev_arm('r', rk[a]);
              if (a == 3) ev_arm('o', 0);           /* both armed: the open fails, the read fault waits for the next message */
              ev_line(cmd); ev_line("LIST"); ev_line(cmd); ev_line("DELE 1"); ev_line("QUIT");
              one(1000, 1, f, nf);
            }
      }
      /* (5b) unlink / rename failing at QUIT */
      for (int pk = 1; pk <= 5; pk++) {
        int nmsg;
        for (int dp = 0; dp < 5; dp++)
          for (unsigned um = 0; um < 6; um++)
            for (unsigned nm = 0; nm < 4; nm++, id++) {
              if ((int)(id % nshards) != shard) continue;
              if (!um && !nm) continue;
              ev_reset(); flt_reset(); int nf = population(pk, f, &nmsg);
              flt.on = 1; flt.u = um; flt.n = nm;
              char cmd[40];
              if (dp == 1 || dp == 3) ev_line("DELE 1");
              if (dp == 2 || dp == 3) ev_line("DELE 2");
              if (dp == 4) for (int i = 1; i <= nmsg; i++) { snprintf(cmd, sizeof cmd, "DELE %d", i); ev_line(cmd); }
              if (um == 5 && nf) ev_vanish(f[0].path);
              ev_line("QUIT");
              one(1000, 1, f, nf);
            }
      }
      /* (5c) stat failing at start-up: in the scan, in getlist, for each file */
      for (int pk = 1; pk <= 5; pk++) {
        int nmsg; ev_reset(); int nf0 = population(pk, f, &nmsg);
        for (int fi = 0; fi < nf0; fi++)
          for (int w = 0; w < 3; w++, id++) {
            if ((int)(id % nshards) != shard) continue;
            ev_reset(); flt_reset(); int nf = population(pk, f, &nmsg);
            flt.on = 1;
            if (w != 1) flt_path(flt.a, &flt.na, f[fi].path);
            if (w != 0) flt_path(flt.g, &flt.ng, f[(fi + (w == 2)) % nf].path);
            ev_line("STAT"); ev_line("LIST"); ev_line("UIDL"); ev_line("RETR 1"); ev_line("DELE 1"); ev_line("QUIT");
            one(1000, 1, f, nf);
          }
      }
      /* (5d) seeded random sessions with faults of every kind */
      h_seed(seed * 7777777ull + 13 + shard);
      for (int r = 0; r < nrandom / 4; r++) {
        if ((r % nshards) != shard) continue;
        int nmsg; ev_reset(); flt_reset();
        int nf = h_below(3) ? random_population(f, &nmsg) : population(1 + h_below(5), f, &nmsg);
        fill_alpha(nmsg ? nmsg : 1);
        flt.on = 1;
        if (nf && h_below(4) == 0) flt_path(flt.a, &flt.na, f[h_below(nf)].path);
        if (nf && h_below(6) == 0) flt_path(flt.g, &flt.ng, f[h_below(nf)].path);
        if (h_below(2)) flt.u = h_below(8);
        if (h_below(2)) flt.n = h_below(8);
        int len = 1 + h_below(9);
        for (int i = 0; i < len; i++) {
          char cmd[100];
          if (h_below(3) == 0) { if (h_below(4) == 0) ev_arm('o', 0); else ev_arm('r', h_below(4) ? h_below(4) : h_below(14)); }
          if (nmsg > 0 && h_below(2)) {
            static const char *vb[] = { "DELE %u", "RETR %u", "TOP %u 1", "TOP %u 0", "RETR %u", "TOP %u 7", "LIST %u" };
            snprintf(cmd, sizeof cmd, vb[h_below(7)], 1 + h_below(nmsg));
          } else snprintf(cmd, sizeof cmd, "%s", alpha[i == len - 1 && h_below(2) ? 0 : 1 + h_below(NALPHA - 1)]);
          ev_line(cmd);
          if (nf && h_below(10) == 0) ev_vanish(f[h_below(nf)].path);
        }
        if (h_below(3)) ev_line("QUIT");
        one(1000, 1, f, nf);
      }
      flt_reset();
    }

    /* (6) big messages (sparse files, only stat()ed): sizes around 2^31 and 2^32, and a total above 2^32 from smaller files */
    {
      static const long long zs[] = { 2147483647LL, 2147483648LL, 4294967295LL, 4294967296LL, 4294968530LL, 8589934597LL, 70000LL };
      static const char *sess[][8] = {
        { "LIST", "LIST 1", "LIST 2", "STAT", "QUIT", 0 },
        { "STAT", "DELE 2", "STAT", "LIST", "UIDL", "QUIT", 0 },
        { "LIST 2", "DELE 1", "LIST", "STAT", 0 } };
      for (int zi = 0; zi < 8; zi++)
        for (int si = 0; si < 3; si++, id++) {
          if ((int)(id % nshards) != shard) continue;
          ev_reset(); flt_reset();
          int nf = 0;
          if (zi < 7) {
            mf(&f[nf], "new/1000.big.host", "", 0, 300, 300); f[nf++].sparse = zs[zi];
            mf(&f[nf++], "cur/0999.a.host:2,S", M1, -1, 400, 400);
          } else {            /* three files of 2^31 bytes: each fits 32 bits, the total does not */
            mf(&f[nf], "new/1.x", "", 0, 300, 300); f[nf++].sparse = 2147483648LL;
            mf(&f[nf], "new/2.x", "", 0, 200, 200); f[nf++].sparse = 2147483648LL;
            mf(&f[nf], "cur/3.x:2,", "", 0, 100, 100); f[nf++].sparse = 2147483648LL;
          }
          for (int k = 0; sess[si][k]; k++) ev_line(sess[si][k]);
          one(1000, 1, f, nf);
        }
    }
  }
done:
  rm_tree(); syscall(SYS_chdir, "/"); rmdir(base);
  fflush(h_out);
  return 0;
}
