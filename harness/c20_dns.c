/* C20 correspondence harness (d): the real dns.c — resolve(), findname(), findip(), findmx(), dns_ip(), dns_mxip(),
 * dns_ptr() — on DNS responses from a record-grammar generator, served through an interposed res_query/res_search.
 * ASan+UBSan build; the unused tail of the response buffer is POISONED after every lookup, so a read beyond
 * responselen (even inside the 513 / 65536-byte buffer) aborts and is reported with its input.
 * libresolv's real dn_expand is used (wrapped only to log offset and result).
 *
 * usage: c20_dns <level> <nrandom> <seed> <shard> <nshards>    |   c20_dns -   (cases "D <kind> <resp-hex>" on stdin)
 * output: D <kind> <resp-hex> : <rc>,<pos>,<num> <steps|-> <dnlog|-> <pubrc>,<publen>
 *   kind i = T_A/findip, m = T_MX/findmx, n = T_PTR/findname
 *   rc,pos,num   resolve()'s result, responsepos - response.buf and numanswers afterwards (pos,num = 0 unless rc == 0)
 *   steps        r,pos,num,data;…  one per find*() call until 2 or DNS_SOFT; data = 4 hex bytes (ip) / pref / -
 *   dnlog        pos:ret,…  every dn_expand call made by resolve()+find*(), in order
 *   pub          return value of the public function (dns_ip / dns_mxip / dns_ptr) on the same response and the
 *                number of addresses (or the name length) it produced
 *   X D <kind> <resp-hex> sanitizer     printed by the sanitizer death callback */
#include "c20_death.h"
#include <netinet/in.h>
#include <arpa/nameser.h>
#include <resolv.h>
#include <netdb.h>
#include <errno.h>

static int h_dn_expand(const unsigned char *msg, const unsigned char *eom, const unsigned char *src, char *dst, int dstsiz);
static int h_lookup(const char *name, int class, int type, unsigned char *answer, int anslen);
#undef dn_expand
#define dn_expand h_dn_expand
#undef res_query
#define res_query h_lookup
#undef res_search
#define res_search h_lookup
#include "dns.c"
#undef dn_expand
#undef res_query
#undef res_search

/* the C library's own dn_expand (the macro in <resolv.h> renames it; fetch the exported symbol) */
typedef int (*dn_fn)(const unsigned char *, const unsigned char *, const unsigned char *, char *, int);
static dn_fn real_dn;
static int fallback_dn(const unsigned char *msg, const unsigned char *eom, const unsigned char *src, char *dst, int dstsiz) {
  int n = ns_name_uncompress(msg, eom, src, dst, (size_t)dstsiz);      /* glibc's dn_expand is exactly this */
  if (n > 0 && dst[0] == '.') dst[0] = '\0';
  return n;
}

#define MAXLOG 200000
static int dn_pos[MAXLOG], dn_ret[MAXLOG], dn_n; static int dn_logging;
static int h_dn_expand(const unsigned char *msg, const unsigned char *eom, const unsigned char *src, char *dst, int dstsiz) {
  if (!real_dn) { real_dn = (dn_fn)dlsym(RTLD_DEFAULT, "dn_expand"); if (!real_dn) real_dn = (dn_fn)dlsym(RTLD_DEFAULT, "__dn_expand"); if (!real_dn) real_dn = fallback_dn; }
  int r = real_dn(msg, eom, src, dst, dstsiz);
  if (dn_logging && dn_n < MAXLOG) { dn_pos[dn_n] = (int)(src - msg); dn_ret[dn_n] = r; dn_n++; }
  return r;
}

/* scripted resolver: the first lookup of a case gets serve1, later ones serve2 */
static const unsigned char *serve1, *serve2; static int serve1_n, serve2_n, nlookups;
static int h_lookup(const char *name, int class, int type, unsigned char *answer, int anslen) {
  const unsigned char *s = nlookups ? serve2 : serve1; int n = nlookups ? serve2_n : serve1_n;
  nlookups++;
  __asan_unpoison_memory_region(answer, anslen);
  if (n <= 0) { h_errno = (n == 0) ? HOST_NOT_FOUND : TRY_AGAIN; errno = 0; return -1; }
  if (n > anslen) n = anslen;                /* the real resolver never returns more than the buffer holds */
  memcpy(answer, s, n);
  __asan_poison_memory_region(answer + n, anslen - n);
  return n;
}
static void reset_dns(void) {
  if (response.buf) { __asan_unpoison_memory_region(response.buf, responsebuflen); free(response.buf); }
  response.buf = 0; responsebuflen = 0; nlookups = 0;
}

static unsigned char okA[] = { 0,1, 0x81,0x80, 0,1, 0,1, 0,0, 0,0,  1,'x',0, 0,1, 0,1,  0xc0,12, 0,1, 0,1, 0,0,0,9, 0,4, 10,0,0,1 };

static void one(char kind, const unsigned char *resp, int n) {
  int o = snprintf(c20_cur, sizeof c20_cur, "D %c ", kind);
  if (!n) c20_cur[o++] = '-';
  for (int i = 0; i < n && o + 3 < (int)sizeof c20_cur; i++) o += sprintf(c20_cur + o, "%02x", resp[i]);
  c20_cur[o] = 0;
  fprintf(h_out, "%s : ", c20_cur);
  int type = kind == 'i' ? T_A : kind == 'm' ? T_MX : T_PTR;
  static stralloc dom = { 0 }; stralloc_copys(&dom, "x.example");
  /* (1) the walk, call by call */
  reset_dns(); serve1 = resp; serve1_n = n; serve2 = resp; serve2_n = n;
  dn_n = 0; dn_logging = 1;
  int rc = resolve(&dom, type);
  if (rc == 0) {
    fprintf(h_out, "0,%ld,%d ", (long)(responsepos - response.buf), numanswers);
    int first = 1;
    for (int it = 0; it < 70000; it++) {
      int r = kind == 'i' ? findip(type) : kind == 'm' ? findmx(type) : findname(type);
      fprintf(h_out, "%s%d,%ld,%d,", first ? "" : ";", r, (long)(responsepos - response.buf), numanswers); first = 0;
      if (r == 1 && kind == 'i') fprintf(h_out, "%02x%02x%02x%02x", ip.d[0], ip.d[1], ip.d[2], ip.d[3]);
      else if (r == 1 && kind == 'm') fprintf(h_out, "%u", (unsigned)pref);
      else fputc('-', h_out);
      if (r == 2 || r == DNS_SOFT) break;
    }
  } else fprintf(h_out, "%d,0,0 -", rc);
  dn_logging = 0;
  fputc(' ', h_out);
  if (!dn_n) fputc('-', h_out);
  for (int i = 0; i < dn_n; i++) fprintf(h_out, "%s%d:%d", i ? "," : "", dn_pos[i], dn_ret[i]);
  /* (2) the public entry point on the same response; follow-up lookups get the same bytes (odd length) or a sane A answer */
  reset_dns(); serve1 = resp; serve1_n = n;
  if (n & 1) { serve2 = resp; serve2_n = n; } else { serve2 = okA; serve2_n = sizeof okA; }
  int prc; unsigned plen = 0;
  if (kind == 'n') {
    static stralloc out = { 0 }; struct ip_address ipa = { { 10, 1, 2, 3 } };
    prc = dns_ptr(&out, &ipa); plen = prc == 0 ? out.len : 0;
  } else {
    static ipalloc ia = { 0 };
    prc = kind == 'i' ? dns_ip(&ia, &dom) : dns_mxip(&ia, &dom, (unsigned long)n * 2654435761u);
    plen = ia.len;
    for (unsigned i = 0; i < ia.len; i++) { volatile unsigned char t = ia.ix[i].ip.d[3]; (void)t; }
  }
  fprintf(h_out, " %d,%u\n", prc, plen);
}

/* ---------------------------------------------------------------- record-grammar generator */
typedef struct { unsigned char b[70000]; int n; } msg;
static void put8(msg *m, int v) { if (m->n < 69990) m->b[m->n++] = v; }
static void put16(msg *m, int v) { put8(m, v >> 8); put8(m, v & 255); }
static void putname(msg *m, int style) {
  switch (style) {
    case 0: put8(m, 0xc0); put8(m, 12); break;                                  /* pointer to the question name */
    case 1: put8(m, 2); put8(m, 'm'); put8(m, 'x'); put8(m, 0xc0); put8(m, 12); break;
    case 2: put8(m, 3); put8(m, 'w'); put8(m, 'w'); put8(m, 'w'); put8(m, 1); put8(m, 'a'); put8(m, 0); break;
    case 3: put8(m, 0); break;                                                   /* root */
    case 4: put8(m, 0xc0); put8(m, m->n - 1); break;                             /* pointer to itself */
    case 5: put8(m, 0xff); put8(m, 0xff); break;                                 /* pointer far beyond the end */
    case 6: put8(m, 63); for (int i = 0; i < 63; i++) put8(m, 'a' + i % 26); put8(m, 0); break;
    case 7: put8(m, 40); put8(m, 'x'); break;                                    /* label longer than what follows */
    default: put8(m, 1); put8(m, '.'); put8(m, 0); break;
  }
}
static void header(msg *m, int qd, int an, int flags) { m->n = 0; put16(m, 0x1234); put16(m, flags); put16(m, qd); put16(m, an); put16(m, 0); put16(m, 0); }
static void question(msg *m, int type) { put8(m, 1); put8(m, 'x'); put8(m, 7); for (int i = 0; i < 7; i++) put8(m, "example"[i]); put8(m, 0); put16(m, type); put16(m, 1); }
static void rr_head(msg *m, int nstyle, int type, int rdlen) { putname(m, nstyle); put16(m, type); put16(m, 1); put16(m, 0); put16(m, 300); put16(m, rdlen); }
static void rr(msg *m, int nstyle, int type, int rdstyle) {
  int at; putname(m, nstyle); put16(m, type); put16(m, 1); put16(m, 0); put16(m, 300); at = m->n; put16(m, 0);
  int s = m->n;
  if (type == T_A) { put8(m, 192); put8(m, 0); put8(m, 2); put8(m, 1 + (rdstyle & 7)); }
  else if (type == T_MX) { put16(m, 10 * (rdstyle & 3)); putname(m, rdstyle % 9); }
  else putname(m, rdstyle % 9);
  m->b[at] = (m->n - s) >> 8; m->b[at + 1] = (m->n - s) & 255;
}
static void base(msg *m, int type, int nrec, int variant) {
  header(m, 1, nrec, 0x8180); question(m, type);
  for (int i = 0; i < nrec; i++) {
    int t = type; if (variant == 1 && i == 0) t = T_CNAME; if (variant == 2 && i == 1) t = 99;
    rr(m, (i + variant) % 3, t, i + variant);
  }
}

static uint64_t gid; static int gshard, gnshards;
static int mine(void) { return (int)(gid++ % gnshards) == gshard; }
static const char KINDS[3] = { 'i', 'm', 'n' }; static const int TYPES[3] = { T_A, T_MX, T_PTR };

static void gen(int level, int nrandom, uint64_t seed) {
  static msg m, m2;
  static const int SUBST[] = { 0, 1, 2, 3, 4, 5, 0x0c, 0x0f, 0x3f, 0x40, 0x7f, 0x80, 0xc0, 0xff };
  for (int k = 0; k < 3; k++)
    for (int variant = 0; variant < 3; variant++)
      for (int nrec = 0; nrec <= 3; nrec++) {
        base(&m, TYPES[k], nrec, variant);
        /* (1) every truncation (the resolver never returns 1..11 bytes) — walked as every kind */
        for (int cut = 12; cut <= m.n; cut++)
          for (int kk = 0; kk < 3; kk++) { if (mine()) one(KINDS[kk], m.b, cut); }
        if (mine()) one(KINDS[k], m.b, 0);
        /* (2) every single-byte substitution */
        for (int at = 2; at < m.n; at++)
          for (unsigned s = 0; s < sizeof SUBST / sizeof SUBST[0]; s++) {
            if (!mine()) continue;
            memcpy(&m2, &m, sizeof(int) + m.n); m2.n = m.n; memcpy(m2.b, m.b, m.n);
            if (m2.b[at] == SUBST[s]) continue;
            m2.b[at] = SUBST[s]; one(KINDS[k], m2.b, m2.n);
          }
      }
  /* (3) last record: claimed RDLENGTH x bytes really present x name style; padded to lengths around the 512/513 buffer edge */
  { static const int RDL[] = { 0, 1, 2, 3, 4, 5, 6, 17, 255, 256, 0x7fff, 0x8000, 0xffff };
    static const int TOTAL[] = { 0, 505, 506, 507, 508, 509, 510, 511, 512, 513, 514, 515, 516, 520, 1000, 65534, 65535 };
    for (int k = 0; k < 3; k++)
      for (unsigned r = 0; r < sizeof RDL / sizeof RDL[0]; r++)
        for (int present = 0; present <= 7; present++)
          for (int ns = 0; ns < 9; ns += (level > 1 ? 1 : 4))
            for (unsigned t = 0; t < sizeof TOTAL / sizeof TOTAL[0]; t++) {
              if (TOTAL[t] > 600 && (present > 1 || ns)) continue;
              if (!mine()) continue;
              header(&m, 1, 3, 0x8180); question(&m, TYPES[k]);
              if (TOTAL[t]) {            /* filler record of another type so that the message ends exactly at TOTAL */
                int hl = 2 + 10, tail = (ns == 0 ? 2 : 12) + 10 + present;
                int fill = TOTAL[t] - m.n - hl - tail;
                if (fill >= 0 && fill <= 65535) { rr_head(&m, 0, 99, fill); for (int i = 0; i < fill; i++) put8(&m, 0xc0); }
              }
              rr_head(&m, ns, TYPES[k], RDL[r]);
              for (int i = 0; i < present; i++) put8(&m, k == 0 ? 7 + i : (i < 2 && k == 1) ? i : 0xc0);
              one(KINDS[k], m.b, m.n);
            }
  }
  /* (4) counts that lie: qdcount / ancount 0..3, 255, 65535 against 0..2 records present */
  { static const int CNT[] = { 0, 1, 2, 3, 255, 65535 };
    for (int k = 0; k < 3; k++)
      for (int qi = 0; qi < 6; qi++) for (int ai = 0; ai < 6; ai++) for (int qp = 0; qp <= 2; qp++) for (int ap = 0; ap <= 2; ap++) {
        if (!mine()) continue;
        header(&m, CNT[qi], CNT[ai], (qi + ai) & 1 ? 0x8380 : 0x8180);       /* sometimes TC: second lookup */
        for (int i = 0; i < qp; i++) question(&m, TYPES[k]);
        for (int i = 0; i < ap; i++) rr(&m, i, TYPES[k], i);
        one(KINDS[k], m.b, m.n);
      }
  }
  /* (5) many records: answer sections filling 512 bytes and 65535 bytes */
  for (int k = 0; k < 3; k++)
    for (int big = 0; big < (level > 1 ? 4 : 2); big++) {
      if (!mine()) continue;
      int lim = big & 1 ? 65535 : 512; header(&m, 1, 65535, 0x8180); question(&m, TYPES[k]);
      while (m.n + 40 < lim) rr(&m, big > 1 ? 2 : 0, (m.n & 64) ? T_CNAME : TYPES[k], m.n);
      one(KINDS[k], m.b, m.n);
      one(KINDS[k], m.b, m.n < 600 ? m.n - 3 : 65535 < m.n ? 65535 : m.n - 1);
    }
  /* (6) seeded random: grammar-derived, then mutated */
  h_seed(seed * 1000003ull + gshard);
  for (int r = 0; r < nrandom; r++) {
    if ((r % gnshards) != gshard) continue;
    int k = h_below(3), qd = h_below(8) ? 1 : h_below(4), an = h_below(6);
    header(&m, qd, h_below(5) ? an : h_below(65536), h_below(10) ? 0x8180 : 0x8380);
    for (int i = 0; i < qd; i++) { if (h_below(6)) question(&m, TYPES[k]); else { putname(&m, h_below(9)); put16(&m, TYPES[k]); put16(&m, 1); } }
    for (int i = 0; i < an; i++) {
      int t = h_below(5) ? TYPES[k] : (int[]){ T_A, T_MX, T_PTR, T_CNAME, 99 }[h_below(5)];
      if (h_below(5)) rr(&m, h_below(9), t, h_below(64));
      else { rr_head(&m, h_below(9), t, h_below(3) ? h_below(12) : h_below(65536)); int pr = h_below(10); for (int j = 0; j < pr; j++) put8(&m, h_rand() & 255); }
    }
    int nm = h_below(4);
    for (int j = 0; j < nm && m.n > 12; j++) {
      int at = 2 + h_below(m.n - 2);
      switch (h_below(3)) { case 0: m.b[at] = h_rand() & 255; break; case 1: m.b[at] = SUBST[h_below(14)]; break; default: if (m.n > 13) m.n = 12 + h_below(m.n - 12); }
    }
    if (h_below(12) == 0) { int tot = 505 + h_below(12); while (m.n < tot) put8(&m, h_below(4) ? 0 : h_rand() & 255); m.n = tot; }
    if (m.n < 12) m.n = 12;
    one(KINDS[h_below(6) ? k : h_below(3)], m.b, m.n);
  }
}

int main(int argc, char **argv) {
  h_init_out();
  c20_install_death();
  if (argc > 1 && !strcmp(argv[1], "-")) {
    static char line[300000], hx[300000]; static unsigned char b[150000]; char kind;
    while (fgets(line, sizeof line, stdin)) {
      if (sscanf(line, "D %c %s", &kind, hx) != 2 || !strchr("imn", kind)) continue;
      int n = 0;
      if (hx[0] != '-') for (char *h = hx; h[0] && h[1]; h += 2) { unsigned v; sscanf(h, "%2x", &v); b[n++] = v; }
      if (n >= 1 && n < 12) continue;            /* outside the resolver's contract */
      if (n > 65535) n = 65535;
      unsigned char *x = malloc(n ? n : 1); memcpy(x, b, n);
      one(kind, x, n); free(x);
    }
    fflush(h_out);
    return 0;
  }
  int level = h_argi(argc, argv, 1, 1), nrandom = h_argi(argc, argv, 2, 1000);
  uint64_t seed = (uint64_t)h_argi(argc, argv, 3, 1);
  gshard = h_argi(argc, argv, 4, 0); gnshards = h_argi(argc, argv, 5, 1);
  gen(level, nrandom, seed);
  fflush(h_out);
  return 0;
}
