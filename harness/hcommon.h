/* Shared helpers for the correspondence harnesses (C side).
 * Every random choice derives from one splitmix64 state seeded from VERIF_SEED. */
#ifndef HCOMMON_H
#define HCOMMON_H
#include <stdio.h>
#include <stdlib.h>
#include <string.h>
#include <stdint.h>
#include <setjmp.h>
#include <unistd.h>
#include <sys/types.h>

static uint64_t h_rng_state;
/* the seed is scrambled (splitmix64 finaliser) so that the streams of consecutive seeds are unrelated: with a
 * plain affine map the stream of seed+1 is the stream of seed shifted by one draw */
static inline void h_seed(uint64_t s) {
  uint64_t z = s * 0x9E3779B97F4A7C15ull + 0x1234567ull;
  z = (z ^ (z >> 30)) * 0xBF58476D1CE4E5B9ull; z = (z ^ (z >> 27)) * 0x94D049BB133111EBull;
  h_rng_state = z ^ (z >> 31);
}
static inline uint64_t h_rand(void) {
  uint64_t z = (h_rng_state += 0x9E3779B97F4A7C15ull);
  z = (z ^ (z >> 30)) * 0xBF58476D1CE4E5B9ull;
  z = (z ^ (z >> 27)) * 0x94D049BB133111EBull;
  return z ^ (z >> 31);
}
static inline uint32_t h_below(uint32_t n) { return n ? (uint32_t)(h_rand() % n) : 0; }

/* protocol output goes to this stream (a dup of the original stdout) so that code under test
 * writing to fd 1 cannot corrupt it */
static FILE *h_out;
static inline void h_init_out(void) {
  int fd = dup(1);
  h_out = fdopen(fd, "w");
  static char big[1 << 20];
  setvbuf(h_out, big, _IOFBF, sizeof big);
}
static inline void h_hex(const unsigned char *p, size_t n) {
  static const char d[] = "0123456789abcdef";
  if (n == 0) { fputc('-', h_out); return; }
  for (size_t i = 0; i < n; i++) { fputc(d[p[i] >> 4], h_out); fputc(d[p[i] & 15], h_out); }
}

/* _exit interposition for code that is #included: h_exit longjmps back to the case loop */
static jmp_buf h_jb;
static int h_exitcode;
static int h_exit_armed;
__attribute__((noreturn)) static void h_exit(int c) {
  if (!h_exit_armed) { fflush(h_out); _exit(c); }
  h_exitcode = c; longjmp(h_jb, 1);
}

/* growable byte buffer */
typedef struct { unsigned char *p; size_t n, cap; } hbuf;
static inline void hbuf_add(hbuf *b, const void *s, size_t n) {
  if (b->n + n > b->cap) { b->cap = (b->n + n) * 2 + 64; b->p = realloc(b->p, b->cap); }
  if (n) memcpy(b->p + b->n, s, n);
  b->n += n;
}
static inline void hbuf_reset(hbuf *b) { b->n = 0; }

static inline int h_argi(int argc, char **argv, int i, int dflt) {
  return (i < argc) ? atoi(argv[i]) : dflt;
}
#endif
