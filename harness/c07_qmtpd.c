/* C07 whole-program harness: the real qmail-qmtpd.c main() + the real qmail.c against the stand-in queue program.
 * usage: c07_qmtpd <nrandom> <seed> <shard> <nshards>   |   c07_qmtpd -   (case lines on stdin)
 * payload of a case: <session bytes>.  See c07_common.h for the line format. */
#include "c07_common.h"
#define read c07_read
#define write c07_write
#define fork c07_fork
#include "qmail.c"
#undef fork
#define _exit(x) h_exit(x)
#define main qmtpd_main
#include "qmail-qmtpd.c"
#undef main
#undef _exit
#undef read
#undef write

static void one(c07_case *c) {
  static unsigned char in[1 << 21];
  size_t n = c07_unhex(c->pay[0], in);
  c07_setup(c, in, n);
  ssin.p = 0; ssin.n = sizeof ssinbuf; ssout.p = 0; databytes = 0; bytestooverflow = 0; binqqargs[0] = 0;
  int code;
  h_exit_armed = 1;
  if (setjmp(h_jb) == 0) { qmtpd_main(); code = -1; } else code = h_exitcode;
  h_exit_armed = 0;
  c07_finish(c, code);
}

/* ---- session builders */
typedef struct { const char *s; size_t n; } str_t;
static void msg(hbuf *b, int dos, const void *body, size_t bn, const void *sender, size_t sn, int nr, const str_t *r) {
  hbuf m = {0}, rl = {0};
  hbuf_add(&m, dos ? "\r" : "\n", 1); if (bn) hbuf_add(&m, body, bn);
  c07_ns(b, m.p, m.n);
  c07_ns(b, sender, sn);
  for (int i = 0; i < nr; i++) c07_ns(&rl, r[i].s, r[i].n);
  c07_ns(b, rl.p, rl.n);
  free(m.p); free(rl.p);
}
static void emit(c07_case *c, hbuf *b) {
  c->pay[0] = c07_hexdup(b->p, b->n); c->npay = 1;
  one(c);
}
#define S(x) { x, sizeof(x) - 1 }
#define ADDS(b, lit) hbuf_add(b, lit, sizeof(lit) - 1)
static const str_t RC_OK[] = { S("u1@ok.example"), S("u2@a.sub.example") };
static const str_t RC_MIX[] = { S("u1@ok.example"), S("nope@other.example"), S("local"), S("x@LOCALHOST") };
static const char BODY_U[] = "Subject: t\n\nline one\n.\nlast\n";
static const char BODY_D[] = "Subject: t\r\n\r\nline one\r\n\rx\r\r\nend\r";

static char *fill(size_t n, char ch, const char *suffix) {   /* n bytes total ending in suffix */
  char *s = malloc(n + 1); size_t sl = strlen(suffix);
  memset(s, ch, n); if (sl <= n) memcpy(s + n - sl, suffix, sl); s[n] = 0; return s;
}

static void enumerate(void) {
  c07_case c; hbuf b = {0};
  /* custom texts outside the qmail-queue.8 interface (first byte neither D nor Z): NUL, 'K' */
  for (int k = 0; k < 2; k++) {
    if (!c07_mine()) continue;
    c07_defaults(&c, 'M', k); free(c.qq); c.qq = strdup(k ? "82,0,4b6f6b2066616b65" : "82,0,007879");
    hbuf_reset(&b); msg(&b, 0, "x\n", 2, "s@x", 3, 1, RC_OK); emit(&c, &b); c07_free(&c);
  }
  /* (A) every exit status of the queue program, unix and dos framing; crash by signal; custom text on 82 (and on others) */
  for (int e = 0; e < 256; e++) for (int dos = 0; dos < 2; dos++) {
    if (!c07_mine()) continue;
    c07_defaults(&c, 'M', e + dos); free(c.qq); c.qq = c07_qqscript(e, 0, e % 5 == 0 ? "Dignored unless 82" : 0);
    hbuf_reset(&b); msg(&b, dos, dos ? BODY_D : BODY_U, dos ? sizeof BODY_D - 1 : sizeof BODY_U - 1, "s@x.example", 11, 2, RC_OK);
    emit(&c, &b); c07_free(&c);
  }
  for (int t = 0; t < C07_N(c07_texts); t++) for (int e = 81; e <= 83; e++) {
    if (!c07_mine()) continue;
    c07_defaults(&c, 'M', t); free(c.qq); c.qq = c07_qqscript(e, 0, c07_texts[t]);
    hbuf_reset(&b); msg(&b, 0, BODY_U, sizeof BODY_U - 1, "s@x.example", 11, 2, RC_MIX);
    emit(&c, &b); c07_free(&c);
  }
  for (int sg = 0; sg < 3; sg++) {
    if (!c07_mine()) continue;
    c07_defaults(&c, 'M', sg); free(c.qq); c.qq = c07_qqscript(0, (int[]){ SIGKILL, SIGTERM, SIGSEGV }[sg], 0);
    hbuf_reset(&b); msg(&b, 0, BODY_U, sizeof BODY_U - 1, "", 0, 1, RC_OK);
    emit(&c, &b); c07_free(&c);
  }
  /* (B) sizes around databytes (stored size differs from the framed size in dos mode) */
  for (int db = 0; db <= 40; db += 8) for (int len = (db ? db - 3 : 0); len <= db + 3; len++) for (int dos = 0; dos < 2; dos++) for (int crlf = 0; crlf < 2; crlf++) {
    if (!c07_mine()) continue;
    char body[64]; int n = 0;
    for (int i = 0; i < len; i++) {
      if (crlf && i % 5 == 3 && i + 1 < len) { body[n++] = '\r'; body[n++] = '\n'; i++; } else body[n++] = 'a' + i % 26;
    }
    c07_defaults(&c, 'M', db + len); c.databytes = db;
    hbuf_reset(&b); msg(&b, dos, body, n, "s@x.example", 11, 1, RC_OK);
    if (len == db + 1) msg(&b, 0, "ok\n", 3, "s2@x.example", 12, 1, RC_OK);   /* next message of the session must be unaffected */
    emit(&c, &b); c07_free(&c);
  }
  { if (c07_mine()) { c07_defaults(&c, 'M', 3); c.databytes = 4294967295L; hbuf_reset(&b); msg(&b, 1, BODY_D, sizeof BODY_D - 1, "s", 1, 1, RC_OK); emit(&c, &b); c07_free(&c); } }
  /* (C) address lengths around 1000 (with and without RELAYCLIENT), NULs */
  for (int who = 0; who < 2; who++) for (int len = 995; len <= 1004; len++) for (int rc = 0; rc < 3; rc++) {
    if (!c07_mine()) continue;
    char *a = fill(len - (who && rc ? rc * 2 : 0), 'q', "@ok.example");
    str_t rr[3] = { S("first@ok.example"), { a, strlen(a) }, S("last@ok.example") };
    c07_defaults(&c, 'M', len + rc);
    if (rc) { free(c.env[5]); c.env[5] = c07_hexs(rc == 1 ? "@r" : "@rel"); }
    hbuf_reset(&b);
    if (who == 0) msg(&b, 0, "x\n", 2, a, strlen(a), 2, RC_OK); else msg(&b, 0, "x\n", 2, "s@x.example", 11, 3, rr);
    emit(&c, &b); c07_free(&c); free(a);
  }
  for (int who = 0; who < 2; who++) for (int pos = 0; pos < 6; pos++) for (int rc = 0; rc < 2; rc++) {
    if (!c07_mine()) continue;
    char a[] = "ab@ok.example"; if (pos < 5) a[pos * 3] = 0;   /* pos 5: no NUL (control) */
    str_t rr[3] = { S("first@ok.example"), { a, 13 }, S("nul@other.example") };
    if (pos == 4) { rr[2].s = "nu\0@other.example"; }
    c07_defaults(&c, 'M', pos);
    if (rc) { free(c.env[5]); c.env[5] = strdup("-"); }
    hbuf_reset(&b);
    if (who == 0) msg(&b, 0, "x\n", 2, a, 13, 2, RC_OK); else msg(&b, 0, "x\n", 2, "s@x.example", 11, 3, rr);
    emit(&c, &b); c07_free(&c);
  }
  /* no recipients, only refused recipients, empty body, several messages with different queue outcomes */
  for (int k = 0; k < 6; k++) {
    if (!c07_mine()) continue;
    c07_defaults(&c, 'M', k); hbuf_reset(&b);
    static const str_t bad[] = { S("a@other.example"), S("b@nowhere") };
    if (k == 0) msg(&b, 0, "x\n", 2, "s", 1, 0, RC_OK);
    if (k == 1) msg(&b, 0, "x\n", 2, "s", 1, 2, bad);
    if (k == 2) msg(&b, 0, "", 0, "s", 1, 1, RC_OK);
    if (k == 3) msg(&b, 1, "", 0, "", 0, 1, RC_OK);
    if (k >= 4) { free(c.qq); c.qq = strdup(k == 4 ? "53,0,-;0,0,-;31,0,-" : "0,0,-;82,0,447265667573656421;0,0,-");
      msg(&b, 0, "one\n", 4, "s1", 2, 1, RC_OK); msg(&b, 1, "two\r\n", 5, "s2", 2, 4, RC_MIX); msg(&b, 0, "three\n", 6, "s3", 2, 2, RC_OK); }
    emit(&c, &b); c07_free(&c);
  }
  /* (E) every cut point (client disconnect after k bytes) and (F) every single-byte substitution of short sessions */
  for (int v = 0; v < 4; v++) {
    hbuf s = {0};
    static const str_t r1[] = { S("u@ok.example"), S("v@other.example") };
    if (v == 0) msg(&s, 0, "H: v\n\nb\n", 8, "s@x", 3, 2, r1);
    if (v == 1) msg(&s, 1, "H: v\r\n\r\nb\r\n", 11, "", 0, 1, r1);
    if (v == 2) { msg(&s, 0, "1\n", 2, "s", 1, 1, r1); msg(&s, 0, "2\n", 2, "t", 1, 1, r1); }
    if (v == 3) { char *a = fill(990, 'e', "@ok.example"); str_t rr[2] = { { a, 990 }, { a, 990 } }; msg(&s, 0, "x\n", 2, a, 990, 2, rr); free(a); }
    size_t step = v == 3 ? 97 : 1;
    for (size_t k = 0; k <= s.n; k += step) {
      if (!c07_mine()) continue;
      c07_defaults(&c, 'M', (unsigned)k); if (v == 1) c.databytes = 9;
      c.chunk = (int)(k % 3);
      hbuf_reset(&b); if (k) hbuf_add(&b, s.p, k); emit(&c, &b); c07_free(&c);
    }
    if (v < 2) {
      static const unsigned char alt[] = { '0', '9', ':', ',', '/', 'a', 0, '\n', '\r', '1' + 10, 0xff };
      for (size_t k = 0; k < s.n; k++) for (int a = 0; a < (int)sizeof alt; a++) {
        if (alt[a] == s.p[k]) continue;
        if (!c07_mine()) continue;
        c07_defaults(&c, 'M', 1);
        hbuf_reset(&b); hbuf_add(&b, s.p, s.n); b.p[k] = alt[a]; emit(&c, &b); c07_free(&c);
      }
    }
    free(s.p);
  }
  /* (H) lengths written with non-digit characters whose "value" (10*len + ch-'0') happens to frame the data */
  {
    static const struct { const char *len; int n; } enc[] = { {"12", 12}, {"2/", 19}, {"1;", 21}, {"<", 12}, {"0<", 12}, {"00012", 12}, {"/", 12}, {"1 0", 12},
      {"+12", 12}, {" 12", 12}, {"12 ", 12}, {"1\x80", 12}, {"1a", 59}, {"", 0}, {"1:", 12} };
    for (int where = 0; where < 4; where++) for (int k = 0; k < C07_N(enc); k++) {
      if (!c07_mine()) continue;
      c07_defaults(&c, 'M', k); hbuf_reset(&b);
      char data[80]; int n = enc[k].n;
      memset(data, 'a', n); if (n >= 11) memcpy(data + n - 11, "@ok.example", 11);
      char item[160]; int il = sprintf(item, "%s:", enc[k].len); memcpy(item + il, data, n); il += n; item[il++] = ',';
      if (where == 0) {          /* recipient length */
        ADDS(&b, "3:\nx\n,3:s@x,"); c07_ns(&b, item, il);
      } else if (where == 1) {   /* sender length */
        ADDS(&b, "3:\nx\n,"); hbuf_add(&b, item, il); ADDS(&b, "15:12:u@ok.example,,");
      } else if (where == 2) {   /* message length */
        data[0] = '\n'; hbuf_add(&b, item, il); ADDS(&b, "3:s@x,15:12:u@ok.example,,");
      } else {                   /* length of the recipient list: item is one recipient of n bytes inside */
        if (n < 4 || n > 12) continue;
        char in2[80]; int l2 = sprintf(in2, "%d:", n - 3); memset(in2 + l2, 'r', n - 3); l2 += n - 3; in2[l2++] = ','; /* l2 == n when n-3 < 10 */
        ADDS(&b, "3:\nx\n,3:s@x,"); hbuf_add(&b, enc[k].len, strlen(enc[k].len)); ADDS(&b, ":"); hbuf_add(&b, in2, l2); ADDS(&b, ",");
      }
      emit(&c, &b); c07_free(&c);
    }
  }
  /* (G) the k-th write to the queue program fails: short message, body > 1024, envelope > 1024 */
  for (int v = 0; v < 3; v++) for (int wf = 0; wf < 7; wf++) {
    if (!c07_mine()) continue;
    c07_defaults(&c, 'M', wf); c.wfault = wf; hbuf_reset(&b);
    char *big = fill(2500, 'b', "\n"); char *a = fill(700, 'r', "@ok.example"); str_t rr[3] = { { a, 700 }, { a, 700 }, S("z@ok.example") };
    if (v == 0) msg(&b, 0, BODY_U, sizeof BODY_U - 1, "s@x", 3, 2, RC_OK);
    if (v == 1) msg(&b, 0, big, 2500, "s@x", 3, 2, RC_OK);
    if (v == 2) msg(&b, 1, BODY_D, sizeof BODY_D - 1, a, 700, 3, rr);
    msg(&b, 0, "after\n", 6, "s@x", 3, 1, RC_OK);
    emit(&c, &b); c07_free(&c); free(big); free(a);
  }
}

/* every byte value in every peer-supplied string; address lengths 0..1030 in every role, with and without RELAYCLIENT */
static void enumerate2(void) {
  c07_case c; hbuf b = {0};
  for (unsigned k = 0; k < C07_NPEERV; k++) {
    if (C07_PEER_HELO_ONLY(k)) continue;
    if (!c07_mine()) continue;
    char *helo; c07_peer_variant(&c, 'M', k, &helo); free(helo);
    hbuf_reset(&b); msg(&b, k & 1, "x\n", 2, "s@x", 3, 1, RC_OK); emit(&c, &b); c07_free(&c);
  }
  for (int role = 0; role < 5; role++) for (int i = 0; c07_addrlen(i) >= 0; i++) {
    if (!c07_mine()) continue;
    int len = c07_addrlen(i);
    char *a = fill(len, 'q', "@ok.example"); str_t rr[3] = { S("first@ok.example"), { a, len }, S("last@ok.example") };
    c07_defaults(&c, 'M', len + role); hbuf_reset(&b);
    if (role == 4) { free(c.env[5]); c.env[5] = c07_hexs("@r"); }
    if (role == 0) msg(&b, 0, "x\n", 2, a, len, 2, RC_OK);
    if (role == 1) msg(&b, 0, "x\n", 2, "s@x", 3, 1, rr + 1);
    if (role == 2 || role == 4) msg(&b, 0, "x\n", 2, "s@x", 3, 3, rr);
    if (role == 3) msg(&b, 1, "x\r\n", 3, "", 0, 2, rr);
    emit(&c, &b); c07_free(&c); free(a);
  }
}

/* Real-queue leg (protocol letter 'm'): the real qmail-queue behind the real qmail.c - see c07_qmqpd.c real_sweep().
 * RELAYCLIENT is set (empty) so that every recipient is handed to the queue.  A recipient with NUL or of 1000 bytes is
 * refused on its own here (the others must be committed exactly); a disconnect or broken framing must commit nothing. */
static void real_sweep(int quickdiv) {
  c07_case c; hbuf b = {0};
  static const int recs[] = { 4, 8, 16, 100 };
  for (int ri = 0; ri < 4; ri++) {
    int rec = recs[ri], L = rec - 2, nr = 1030 / rec + 6;
    for (int sl = 0; sl < rec; sl++) for (int kind = 0; kind < 8; kind++) {
      if (rec == 100 && !(kind == 1 || kind == 2)) continue;
      if (kind == 0 && sl % 4) continue;
      if (quickdiv > 1 && rec == 100 && (sl % quickdiv) && kind != 2) continue;
      if (!c07_mine()) continue;
      char *sender = fill(sl, 's', ""); static char rb[300][104]; static str_t rr[300];
      for (int i = 0; i < nr + 3; i++) { memset(rb[i], 'a' + i % 26, L); rb[i][0] = 'r'; rr[i].s = rb[i]; rr[i].n = L; }
      int n = nr;
      char *longa = 0;
      if (kind == 5) { rb[nr][L / 2] = 0; n = nr + 3; }
      if (kind == 6) { longa = fill(1000 + sl % 5, 'l', "@x"); rr[nr].s = longa; rr[nr].n = 1000 + sl % 5; n = nr + 3; }
      c07_defaults(&c, 'm', sl + kind); free(c.env[5]); c.env[5] = strdup("-"); hbuf_reset(&b);
      msg(&b, sl & 1, "Subject: real\n\nbody\n", 20, sender, sl, n, rr);
      size_t wire = (size_t)(L >= 10 ? 2 : 1) + 1 + L + 1;
      if (kind >= 1 && kind <= 4) {
        size_t back = kind == 1 ? 1 : kind == 2 ? 1 + wire : kind == 3 ? 1 + 2 * wire + wire / 2 : 2 + 3 * wire;
        if (back < b.n) b.n -= back;
      }
      if (kind == 7) b.p[b.n - 1 - wire] = 'x';
      emit(&c, &b); c07_free(&c); free(sender); free(longa);
    }
  }
}
static void enumerate_real(void) {
  c07_case c; hbuf b = {0};
  for (int k = 0; k < 9; k++) {
    if (!c07_mine()) continue;
    c07_defaults(&c, 'm', k); hbuf_reset(&b);
    char *big = fill(k == 3 ? 9000 : 1500, 'b', "\n"); static char rb[40][24]; static str_t rr[40];
    for (int i = 0; i < 40; i++) { snprintf(rb[i], 24, "u%d@h%d.sub.example", i, i % 7); rr[i].s = rb[i]; rr[i].n = strlen(rb[i]); }
    if (k == 0) msg(&b, 0, BODY_U, sizeof BODY_U - 1, "s@x.example", 11, 2, RC_OK);
    if (k == 1) msg(&b, 1, BODY_D, sizeof BODY_D - 1, "", 0, 4, RC_MIX);
    if (k == 2) msg(&b, 0, big, 1500, "s@x", 3, 25, rr);
    if (k == 3) msg(&b, 0, big, 9000, "s@x", 3, 40, rr);
    if (k == 4) { msg(&b, 0, "one\n", 4, "s1", 2, 1, RC_OK); msg(&b, 1, "two\r\n", 5, "s2", 2, 4, RC_MIX); msg(&b, 0, "three\n", 6, "s3", 2, 2, RC_OK); }
    if (k == 5) { c.databytes = 10; msg(&b, 0, big, 1500, "s@x", 3, 2, RC_OK); msg(&b, 0, "ok\n", 3, "s@x", 3, 1, RC_OK); }
    if (k == 6) { msg(&b, 0, BODY_U, sizeof BODY_U - 1, "s@x", 3, 2, RC_OK); c.wfault = 1; }
    if (k == 7) { msg(&b, 0, big, 1500, "s@x", 3, 25, rr); c.wfault = 2; }
    if (k == 8) { static const str_t bad[] = { S("a@other.example"), S("b@nowhere") }; msg(&b, 0, "x\n", 2, "s", 1, 2, bad); }
    emit(&c, &b); c07_free(&c); free(big);
  }
  { hbuf s = {0}; static const str_t r1[] = { S("u@ok.example"), S("v@other.example") };
    msg(&s, 0, "H: v\n\nb\n", 8, "s@x", 3, 2, r1); msg(&s, 0, "2\n", 2, "t", 1, 1, r1);
    for (size_t k = 0; k <= s.n; k++) {
      if (!c07_mine()) continue;
      c07_defaults(&c, 'm', (unsigned)k); hbuf_reset(&b); if (k) hbuf_add(&b, s.p, k); emit(&c, &b); c07_free(&c);
    }
    free(s.p); }
}

static void randoms(int nrandom, uint64_t seed) {
  c07_case c; hbuf b = {0};
  h_seed(seed * 7919ull + 17);
  for (int r = 0; r < nrandom; r++) {
    /* all shards draw the same stream so that case r is the same whatever the shard count */
    uint64_t save = h_rng_state;
    int mine = c07_mine();
    h_seed(seed * 1000003ull + r);
    if (mine) {
      c07_defaults(&c, 'M', h_below(1000));
      if (h_below(3) == 0) c.databytes = h_below(60);
      if (h_below(4) == 0) { free(c.env[5]); c.env[5] = h_below(2) ? strdup("-") : c07_hexs("@relay.example"); }
      int nm = 1 + (h_below(4) == 0) + (h_below(8) == 0);
      char script[200] = "";
      for (int k = 0; k < nm; k++) {
        static const int codes[] = { 0, 0, 0, 0, 0, 11, 31, 51, 53, 54, 81, 91, 115, 120, 1, 40, 41, 100, 255 };
        char e[64]; int code = codes[h_below(C07_N(codes))];
        if (h_below(10) == 0) snprintf(e, sizeof e, "82,0,%s", h_below(2) ? "44637573746f6d" : "5a637573746f6d");
        else snprintf(e, sizeof e, "%d,%d,-", code, h_below(40) == 0 ? SIGKILL : 0);
        if (k) strcat(script, ";"); strcat(script, e);
      }
      free(c.qq); c.qq = strdup(script);
      hbuf_reset(&b);
      for (int k = 0; k < nm; k++) {
        int dos = h_below(2);
        unsigned char body[4000]; size_t bn = h_below(10) == 0 ? h_below(3000) : h_below(70);
        for (size_t i = 0; i < bn; i++) { uint32_t x = h_below(12); body[i] = x == 0 ? '\r' : x == 1 ? '\n' : x == 2 ? '.' : (unsigned char)('a' + h_below(26)); }
        unsigned char sender[1100]; size_t sn = h_below(12) == 0 ? 990 + h_below(15) : h_below(20);
        for (size_t i = 0; i < sn; i++) sender[i] = (unsigned char)('a' + h_below(26));
        if (sn && h_below(12) == 0) sender[h_below(sn)] = 0;
        int nr = h_below(5); str_t rr[5]; static char rb[5][1200];
        for (int i = 0; i < nr; i++) {
          static const char *dom[] = { "@ok.example", "@x.sub.example", "@other.example", "", "@OK.EXAMPLE", "@localhost" };
          size_t ln = h_below(15) == 0 ? 985 + h_below(20) : 1 + h_below(12);
          for (size_t j = 0; j < ln; j++) rb[i][j] = (char)('a' + h_below(26));
          const char *d = dom[h_below(6)]; size_t dl = strlen(d);
          if (dl < ln) memcpy(rb[i] + ln - dl, d, dl);
          if (h_below(15) == 0) rb[i][h_below(ln)] = 0;
          rr[i].s = rb[i]; rr[i].n = ln;
        }
        msg(&b, dos, body, bn, sender, sn, nr, rr);
      }
      /* mutations: truncate, substitute, insert, delete */
      uint32_t mu = h_below(10);
      if (mu == 0 && b.n) b.n = h_below(b.n);
      if (mu == 1 || mu == 2) for (int k = 0; k < 1 + (int)h_below(2); k++) if (b.n) {
        static const unsigned char alt[] = { '0', '1', '9', ':', ',', '/', ';', 'a', 0, '\n', '\r', 0xff, ' ' };
        b.p[h_below(b.n)] = alt[h_below(sizeof alt)];
      }
      if (mu == 3 && b.n) { size_t p = h_below(b.n); memmove(b.p + p, b.p + p + 1, b.n - p - 1); b.n--; }
      if (mu == 4) { unsigned char x = "0:,9/"[h_below(5)]; size_t p = h_below(b.n + 1); hbuf_add(&b, &x, 1); memmove(b.p + p + 1, b.p + p, b.n - 1 - p); b.p[p] = x; }
      if (h_below(25) == 0) c.wfault = h_below(6);
      c.chunk = (int[]){ 0, 0, 1, 3, 100 }[h_below(5)];
      if (h_below(8) == 0) { static const char *odd[] = { "e\\", "a\"b", "(c", "d)", "<e>", "f,g;h", "\x7f\x80\xff", "i\\)j(" };   /* peer strings from the whole byte range */
        int f = h_below(5); unsigned char v[16]; size_t vn = 1 + h_below(12);
        for (size_t i = 0; i < vn; i++) v[i] = (unsigned char)(1 + h_below(255));
        free(c.env[f]); c.env[f] = h_below(3) ? c07_hexdup(v, vn) : c07_hexs(odd[h_below(8)]); }
      if (h_below(25) == 0) c.proto = 'm';                     /* the same session against the real qmail-queue */
      emit(&c, &b); c07_free(&c);
    }
    h_rng_state = save;
  }
}

int main(int argc, char **argv) {
  c07_init();
  if (argc > 1 && !strcmp(argv[1], "-")) {
    static char line[1 << 23];
    while (fgets(line, sizeof line, stdin)) { c07_case c; if (c07_parse(line, &c) && toupper((unsigned char)c.proto) == 'M' && c.npay >= 1) one(&c); }
  } else {
    int nrandom = h_argi(argc, argv, 1, 1000); uint64_t seed = (uint64_t)h_argi(argc, argv, 2, 1);
    c07_shard = h_argi(argc, argv, 3, 0); c07_nshards = h_argi(argc, argv, 4, 1); c07_thorough = nrandom > 50000;
    enumerate();
    enumerate2();
    enumerate_real();
    real_sweep(c07_thorough ? 1 : 5);
    randoms(nrandom, seed);
  }
  c07_fini();
  return 0;
}
