/* C01 correspondence harness: the real qmail-queue main() under qsim.
 *
 * For every case (message, envelope, read chunking, optional single fault) the program is run to
 * completion with the full system-call trace recorded; then it is re-run once per (crash point,
 * crash resolution) and the state of the queue entry after the crash is summarised.
 *
 * usage: c01_queue <nrandom> <seed> <shard> <nshards>   |   c01_queue -   (cases on stdin)
 * stdin case:  <chunk> <msghex> <envhex> <faultcall> <faulterr> [<faultcall2> <faulterr2> ...]   (up to 4 faults, ascending call numbers)
 *   faulterr > 0: errno; -1: short write; -3: the clock jumps 100000 s ahead before that call, so the pending
 *   alarm(DEATH) fires there (SIGALRM -> sigalrm()).
 *   faultcall == 0 with faulterr >= -1: no fault.  faultcall == 0 with faulterr <= -10: a failure of something qsim does
 *   not trace: -11..-16 the k-th alloc() of qmail-queue.c returns 0 (k = -err-10: 1 received_setup, 2 pidopen, 3..5 fnnum;
 *   6 never happens); -22..-26 SIGBUS is delivered at the k-th alloc() (k = -err-20; sigbug()); -31 /var/qmail does not
 *   exist (chdir(auto_qmail) fails); -32 /var/qmail/queue does not exist (chdir("queue") fails).
 * uid (one of: ordinary user, alias, qmaild, qmails - the four forms of the Received line), pid and the time of day are
 * derived from the input bytes, so that a replayed case is the same case.
 *
 * output per case:
 *   CASE chunk=<n> msg=<hex> env=<hex> fault=<callno>:<err>[+<callno2>:<err2>...] received=<hex> uid=<u> pid=<p> clock=<t>
 *   T <event> ...                      one per interposed call (see sim.c), write data in hex
 *   EXIT <code> ncalls=<n> faultfired=<0|1>
 *   S <k> <mode> <code> [mess=<len>:<hash> todo=<len>:<hash> named=<0|1> linked=<0|1>]   (linked: intd/<n> and todo/<n> are one inode)
 *        state after a world crash before call k (k = ncalls+1: after exit) resolved by <mode>:
 *        code = subset of letters p(pid file) m(mess) i(intd) t(todo); contents given when t present
 *        (fault-sweep cases whose fault-free run is emitted as a case of its own report only the crash points
 *        from the last injected fault on: earlier ones are, call for call, those of the run without that fault)
 *   END
 *
 * Fault space: single faults at every call index of well-formed AND of malformed / truncated inputs (so the
 * calls made inside cleanup() - ftruncate, unlink intd, unlink mess - are faulted too), pairs of faults (every
 * second fault after every first fault), seeded random chains of up to 3 faults on random inputs.
 */
#define _GNU_SOURCE
#include "sim.h"
#include <signal.h>
#include "auto_split.h"
SIM_INSTANCE(qq)
extern char *received; extern unsigned int receivedlen;    /* globals of qmail-queue.c */

static uint64_t fnv(const unsigned char *p, size_t n);

/* per-case identity of the process and failures of untraced library calls (see the header) */
static long g_uid, g_pid, g_clock;
static int g_setup;               /* 0, or the faulterr <= -10 of a fault with call 0 */
static int g_nalloc;              /* alloc() calls of qmail-queue.c so far in this run */
static const long uids[4] = { 1000, 7790 /* alias */, 7791 /* qmaild */, 7796 /* qmails */ };

/* qmail-queue.c is compiled with -Dmalloc=qq_malloc (alloc.h: #define alloc(x) malloc(x)), nothing else is */
static void *g_allocs[16];       /* what the program allocated in the current run (it never frees; released by the next world()) */
void *qq_malloc(size_t n) {
  int k = ++g_nalloc;
  if (sim_on && g_setup == -10 - k) return 0;
  if (sim_on && g_setup == -20 - k) sim_deliver_signal(sim_cur, SIGBUS);
  void *r = malloc(n);
  if (k <= 16) g_allocs[k - 1] = r;
  return r;
}

static void world(const unsigned char *msg, size_t mn, const unsigned char *env, size_t en, int chunk) {
  char b[64];
  sim_reset();
  sim_globals_restore();
  for (int i = 0; i < 16; i++) { free(g_allocs[i]); g_allocs[i] = 0; }
  g_nalloc = 0;
  { uint64_t h = fnv(msg, mn) ^ (fnv(env, en) * 0x9e3779b97f4a7c15ull);
    g_uid = uids[h & 3]; g_pid = 1 + (long)((h >> 8) % 99999); g_clock = (long)((h >> 24) % 4102444800ull); }
  W.clock = g_clock;
  if (g_setup == -31) return (void)sim_proc(0, "qmail-queue", g_pid, g_uid, "/");            /* no /var/qmail */
  if (g_setup == -32) { sim_mkdir_p("/var/qmail", 0, 0755); sim_proc(0, "qmail-queue", g_pid, g_uid, "/"); return; }   /* no queue */
  sim_user("alias", 7790, 2108); sim_user("qmaild", 7791, 2108); sim_user("qmails", 7796, 2107);
  sim_user("qmailq", 7794, 2107); sim_user("qmailr", 7795, 2107); sim_user("qmaill", 7792, 2108); sim_user("qmailp", 7793, 2108);
  sim_mkdir_p("/var/qmail/queue/pid", 7794, 0700);
  sim_mkdir_p("/var/qmail/queue/intd", 7794, 0700);
  sim_mkdir_p("/var/qmail/queue/todo", 7794, 0750);
  sim_mkdir_p("/var/qmail/queue/lock", 7794, 0750);
  for (int i = 0; i < auto_split; i++) { snprintf(b, sizeof b, "/var/qmail/queue/mess/%d", i); sim_mkdir_p(b, 7794, 0750); }
  int f = sim_mkfifo_("/var/qmail/queue/lock/trigger", 7796, 0622);
  W.ino[f].readers = 1;             /* the daemon has the trigger open */
  simproc *p = sim_proc(0, "qmail-queue", g_pid, g_uid, "/");
  sim_fd_source(p, 0, msg, mn, chunk);
  sim_fd_source(p, 1, env, en, chunk);
  sim_fd_sink(p, 2);
}

static uint64_t fnv(const unsigned char *p, size_t n) {
  uint64_t h = 14695981039346656037ull;
  for (size_t i = 0; i < n; i++) { h ^= p[i]; h *= 1099511628211ull; }
  return h;
}

/* summarise the queue entry; the message number is the inode of whatever is in mess/ or pid/ */
static void summarise(long k, int mode) {
  char code[8]; int c = 0; int messino = -1, todoino = -1, intdino = -1;
  for (int i = 0; i < W.ndent; i++) if (W.dent[i].ino >= 0) {
    const char *q = W.dent[i].path;
    if (W.ino[W.dent[i].ino].type != SI_FILE) continue;
    if (strstr(q, "/queue/pid/")) { if (!memchr(code, 'p', c)) code[c++] = 'p'; }
    else if (strstr(q, "/queue/mess/")) { code[c++] = 'm'; messino = W.dent[i].ino; }
    else if (strstr(q, "/queue/intd/")) { code[c++] = 'i'; intdino = W.dent[i].ino; }
    else if (strstr(q, "/queue/todo/")) { code[c++] = 't'; todoino = W.dent[i].ino; }
  }
  /* canonical order p m i t */
  char out[8]; int o = 0; for (const char *l = "pmit"; *l; l++) if (memchr(code, *l, c)) out[o++] = *l; out[o] = 0;
  fprintf(h_out, "S %ld %d %s", k, mode, o ? out : "-");
  if (todoino >= 0) {
    /* name = inode check: the file must be called after its own inode number */
    int named_ok = 1; char want[64];
    if (messino >= 0) { snprintf(want, sizeof want, "/var/qmail/queue/mess/%d/%d", messino % auto_split, messino); named_ok &= sim_lookup(want) == messino; }
    snprintf(want, sizeof want, "/var/qmail/queue/todo/%d", messino); named_ok &= sim_lookup(want) == todoino;
    if (messino >= 0) fprintf(h_out, " mess=%zu:%016llx", W.ino[messino].cur.n, (unsigned long long)fnv(W.ino[messino].cur.p, W.ino[messino].cur.n));
    else fprintf(h_out, " mess=absent");
    fprintf(h_out, " todo=%zu:%016llx named=%d linked=%d", W.ino[todoino].cur.n, (unsigned long long)fnv(W.ino[todoino].cur.p, W.ino[todoino].cur.n), named_ok,
            intdino == todoino);
  }
  fputc('\n', h_out);
}

typedef struct { int call, err; } flt;
#define MAXF 4

/* call before world(): which untraced failure this case has */
static void set_setup(const flt *f, int nf) {
  g_setup = 0;
  for (int i = 0; i < nf; i++) if (f[i].call == 0 && f[i].err <= -10) g_setup = f[i].err;
}
/* call after world() (sim_reset clears the plan) */
static void set_faults(const flt *f, int nf) {
  int n = 0;
  for (int i = 0; i < nf; i++) if (f[i].call > 0) { sim_faults[n].proc = 0; sim_faults[n].callno = f[i].call; sim_faults[n].err = f[i].err; n++; }
  sim_nfaults = n;
}

/* number of calls the program makes on this input under these faults (nothing is printed) */
static long ncalls_of(const unsigned char *msg, size_t mn, const unsigned char *env, size_t en, int chunk, const flt *f, int nf) {
  set_setup(f, nf); world(msg, mn, env, en, chunk); set_faults(f, nf);
  int save = sim_trace_on; sim_trace_on = 0; sim_run(&P[0], qq_main); sim_trace_on = save;
  return P[0].ncalls;
}

/* long traces: every index among the first 40 and last 60 calls, every 97th in between */
static int sampled(long k, long ncalls) { return !(ncalls > 150 && k > 40 && k < ncalls - 60 && (k % 97)); }

/* one case: faults f[0..nf) (call == 0: unused slot); crash points kmin..ncalls+1 */
static void one_f(const unsigned char *msg, size_t mn, const unsigned char *env, size_t en, int chunk, const flt *f, int nf, long kmin) {
  /* 1. the full run, traced */
  set_setup(f, nf);
  world(msg, mn, env, en, chunk);
  set_faults(f, nf);
  sim_trace_on = 1;
  int code = sim_run(&P[0], qq_main);
  long ncalls = P[0].ncalls;
  /* received line = what the program would put first; recompute with the real formatter */
  fprintf(h_out, "CASE chunk=%d msg=", chunk); h_hex(msg, mn); fprintf(h_out, " env="); h_hex(env, en);
  fprintf(h_out, " fault=");
  if (nf == 0) fprintf(h_out, "0:0");
  for (int i = 0; i < nf; i++) fprintf(h_out, "%s%d:%d", i ? "+" : "", f[i].call, f[i].err);
  fprintf(h_out, " received="); if (received) h_hex((unsigned char *)received, receivedlen); else fprintf(h_out, "null");
  fprintf(h_out, " uid=%ld pid=%ld clock=%ld\n", g_uid, g_pid, g_clock);
  /* trace lines */
  { char *s = (char *)sim_trace.p; size_t n = sim_trace.n, i = 0;
    while (i < n) { size_t j = i; while (j < n && s[j] != '\n') j++; fprintf(h_out, "T %.*s\n", (int)(j - i), s + i); i = j + 1; } }
  fprintf(h_out, "EXIT %d ncalls=%ld faultfired=%d\n", code, ncalls, sim_fault_fired);
  /* 2. crash states */
  sim_trace_on = 0;
  if (kmin < 1) kmin = 1;
  if (kmin > ncalls + 1) kmin = ncalls + 1;
  for (long k = kmin; k <= ncalls + 1; k++) {
    if (!sampled(k, ncalls)) continue;
    for (int mode = CR_KEEP; mode <= CR_HALF; mode++) {
      world(msg, mn, env, en, chunk);
      set_faults(f, nf);
      if (k <= ncalls) sim_crash_before = k;
      sim_run(&P[0], qq_main);
      sim_apply_crash(mode);
      summarise(k, mode);
    }
  }
  fprintf(h_out, "END\n");
}

static void one(const unsigned char *msg, size_t mn, const unsigned char *env, size_t en, int chunk, int fcall, int ferr) {
  flt f = { fcall, ferr };
  /* (a fault "0:<err>" never fires; it is kept in the CASE line as before) */
  one_f(msg, mn, env, en, chunk, &f, 1, 1);
}

static int unhex(const char *h, unsigned char *o) {
  int n = 0;
  if (h[0] == '-') return 0;
  for (; h[0] && h[1]; h += 2) { unsigned v; sscanf(h, "%2x", &v); o[n++] = v; }
  return n;
}

/* ---- generators ---- */
static int bad_letter = 'X';      /* the wrong record letter gen_env() uses */
static size_t gen_env(unsigned char *e, int nrcpt, int badletter_at, int longaddr_at, int longlen, int cut, int noterm) {
  size_t n = 0;
  for (int r = -1; r < nrcpt; r++) {
    e[n++] = (r == badletter_at) ? bad_letter : (r < 0 ? 'F' : 'T');
    int alen = (r == longaddr_at) ? longlen : (int)h_below(12);
    for (int i = 0; i < alen; i++) e[n++] = "abcxyz@.-"[h_below(9)];
    e[n++] = 0;
  }
  if (!noterm) e[n++] = 0;
  if (h_below(3) == 0) { e[n++] = 'j'; e[n++] = 'u'; e[n++] = 'n'; e[n++] = 'k'; }   /* bytes after the terminator are never read as envelope */
  if (cut >= 0 && (size_t)cut < n) n = cut;
  return n;
}

static size_t put_addr(unsigned char *e, size_t n, int len) { for (int i = 0; i < len; i++) e[n++] = "abcxyz@.-"[h_below(9)]; return n; }
static size_t put_rec(unsigned char *e, size_t n, int letter, int len) { e[n++] = letter; n = put_addr(e, n, len); e[n++] = 0; return n; }

/* envelopes that make the program fail (or not) at each of the places where it can: the shapes of
 * "the writer died" (EOF at every kind of position), wrong record letters drawn from the whole byte
 * range, over-long addresses; shape 10 is well-formed (control).  Contents are seeded-random. */
#define NSHAPES 11
static size_t gen_abnormal(unsigned char *e, int shape, int nrcpt) {
  size_t n = 0;
  int wrongF; do wrongF = (int)h_below(256); while (wrongF == 'F');
  int wrongT; do wrongT = (int)h_below(256); while (wrongT == 'T' || wrongT == 0);
  int wrong_at = nrcpt > 0 ? (int)h_below(nrcpt) : 0;
  if (shape == 0) return 0;                                                      /* EOF before the 'F' */
  if (shape == 1) { e[n++] = 'F'; return put_addr(e, n, (int)h_below(13)); }     /* EOF inside the sender (possibly right after 'F') */
  n = put_rec(e, n, shape == 6 ? wrongF : 'F', shape == 8 ? 1003 + (int)h_below(3) : (int)h_below(12));
  if (shape == 2) return n;                                                      /* EOF at the sender's record boundary */
  for (int r = 0; r < nrcpt; r++)
    n = put_rec(e, n, (shape == 7 && r == wrong_at) ? wrongT : 'T', (shape == 9 && r == nrcpt - 1) ? 1003 + (int)h_below(3) : (int)h_below(12));
  if (shape == 3) { e[n++] = 'T'; return put_addr(e, n, 1 + (int)h_below(12)); } /* EOF inside a recipient address */
  if (shape == 4) { e[n++] = 'T'; return n; }                                    /* EOF right after a record letter */
  if (shape == 5) return n;                                                      /* all records, terminator missing */
  e[n++] = 0;
  if (shape == 10 && h_below(2)) { e[n++] = 'T'; e[n++] = 'x'; }                 /* bytes after the terminator are ignored */
  return n;
}

/* every call index x every fault kind on one input; the fault-free run first, with all its crash points */
static const int ferrs[] = { EIO, ENOSPC, -1, EINTR };
static long sweep1(const unsigned char *msg, size_t mn, const unsigned char *env, size_t en, int chunk, long id, int shard, int nshards) {
  long nc = ncalls_of(msg, mn, env, en, chunk, 0, 0);
  if ((int)(id++ % nshards) == shard) one_f(msg, mn, env, en, chunk, 0, 0, 1);
  for (long fc = 1; fc <= nc; fc++) {
    if (!sampled(fc, nc)) continue;
    for (int fe = 0; fe < 4; fe++, id++) {
      if ((int)(id % nshards) != shard) continue;
      flt f = { (int)fc, ferrs[fe] };
      one_f(msg, mn, env, en, chunk, &f, 1, fc);
    }
  }
  return id;
}

/* every second fault after every first fault (the singly-faulted runs are cases of sweep1 / section C) */
static long sweep2(const unsigned char *msg, size_t mn, const unsigned char *env, size_t en, int chunk, long id, int shard, int nshards) {
  long nc = ncalls_of(msg, mn, env, en, chunk, 0, 0);
  for (long fc1 = 1; fc1 <= nc; fc1++) {
    if (!sampled(fc1, nc)) continue;
    for (int fe1 = 0; fe1 < 4; fe1++) {
      flt f[2] = { { (int)fc1, ferrs[fe1] }, { 0, 0 } };
      long nc1 = ncalls_of(msg, mn, env, en, chunk, f, 1);
      for (long fc2 = fc1 + 1; fc2 <= nc1; fc2++) {
        if (!sampled(fc2, nc1)) continue;
        for (int fe2 = 0; fe2 < 4; fe2++, id++) {
          if ((int)(id % nshards) != shard) continue;
          f[1].call = (int)fc2; f[1].err = ferrs[fe2];
          one_f(msg, mn, env, en, chunk, f, 2, fc2);
        }
      }
    }
  }
  return id;
}

/* SIGALRM (fault kind -3: the clock jumps past alarm(DEATH) before the call) at every call index of the run */
static long sweep_alarm(const unsigned char *msg, size_t mn, const unsigned char *env, size_t en, int chunk, long id, int shard, int nshards) {
  long nc = ncalls_of(msg, mn, env, en, chunk, 0, 0);
  for (long fc = 1; fc <= nc; fc++, id++) {
    if (!sampled(fc, nc)) continue;
    if ((int)(id % nshards) != shard) continue;
    flt f = { (int)fc, -3 };
    one_f(msg, mn, env, en, chunk, &f, 1, fc);
  }
  return id;
}

/* a first fault (EIO or a short write, at every index), then SIGALRM at every later index: the alarm also arrives
 * between and after the calls of cleanup() */
static long sweep_alarm2(const unsigned char *msg, size_t mn, const unsigned char *env, size_t en, int chunk, long id, int shard, int nshards) {
  long nc = ncalls_of(msg, mn, env, en, chunk, 0, 0);
  for (long fc1 = 1; fc1 <= nc; fc1++) {
    if (!sampled(fc1, nc)) continue;
    for (int fe1 = 0; fe1 < 2; fe1++) {
      flt f[2] = { { (int)fc1, fe1 ? -1 : EIO }, { 0, 0 } };
      long nc1 = ncalls_of(msg, mn, env, en, chunk, f, 1);
      for (long fc2 = fc1 + 1; fc2 <= nc1; fc2++, id++) {
        if (!sampled(fc2, nc1)) continue;
        if ((int)(id % nshards) != shard) continue;
        f[1].call = (int)fc2; f[1].err = -3;
        one_f(msg, mn, env, en, chunk, f, 2, fc2);
      }
    }
  }
  return id;
}

/* the inputs of the malformed-input sweeps: shape x variant (0: tiny message, few recipients, unchunked;
 * 1: 300-byte message, 30..49 recipients (the envelope file is written in several pieces), reads of 100;
 * 2: tiny message, reads of 1 byte (255 for the over-long addresses)) */
static void gen_variant(uint64_t seed, int shape, int variant, unsigned char *msg, size_t *mn, unsigned char *env, size_t *en, int *chunk) {
  h_seed(seed * 131 + (uint64_t)(shape * 3 + variant));
  *mn = variant == 1 ? 300 : h_below(12);
  for (size_t i = 0; i < *mn; i++) msg[i] = "ab\n .XYZ"[h_below(8)];
  int nrcpt = variant == 1 ? 30 + (int)h_below(20) : 1 + (int)h_below(variant == 0 ? 3 : 2);
  *en = gen_abnormal(env, shape, nrcpt);
  *chunk = variant == 0 ? 0 : variant == 1 ? 100 : (shape == 8 || shape == 9) ? 255 : 1;
}

int main(int argc, char **argv) {
  h_init_out();
  SIM_REGISTER(qq); sim_globals_snapshot();
  static unsigned char msg[70000], env[12000];
  if (argc > 1 && !strcmp(argv[1], "-")) {
    static char line[400000], mh[200000], eh[40000];
    while (fgets(line, sizeof line, stdin)) {
      int chunk, fc, fe, pos = 0;
      if (sscanf(line, "%d %s %s %d %d%n", &chunk, mh, eh, &fc, &fe, &pos) != 5) continue;
      size_t mn = unhex(mh, msg), en = unhex(eh, env);
      flt f[MAXF]; int nf = 1; f[0].call = fc; f[0].err = fe;
      { int c2, e2, adv; const char *q = line + pos;
        while (nf < MAXF && sscanf(q, "%d %d%n", &c2, &e2, &adv) == 2) { f[nf].call = c2; f[nf].err = e2; nf++; q += adv; } }
      if (nf == 1) one(msg, mn, env, en, chunk, fc, fe); else one_f(msg, mn, env, en, chunk, f, nf, 1);
    }
    fflush(h_out); return 0;
  }
  int nrandom = h_argi(argc, argv, 1, 100);
  uint64_t seed = (uint64_t)h_argi(argc, argv, 2, 1);
  int shard = h_argi(argc, argv, 3, 0), nshards = h_argi(argc, argv, 4, 1);
  long id = 0;
  static const int msizes[] = { 0, 1, 255, 256, 257, 1000, 2047, 2048, 2049, 8191, 8192, 8193 };
  static const int chunks[] = { 0, 1, 700 };
  h_seed(seed);
  /* (A) clean runs: message sizes x envelope shapes x chunkings */
  for (unsigned ms = 0; ms < sizeof msizes / sizeof msizes[0]; ms++)
    for (int shape = 0; shape < 12; shape++)
      for (unsigned ck = 0; ck < 3; ck++, id++) {
        if ((int)(id % nshards) != shard) { h_rand(); continue; }
        h_seed(seed * 7919 + id);
        size_t mn = msizes[ms]; for (size_t i = 0; i < mn; i++) msg[i] = "ab\n .XYZ"[h_below(8)];
        size_t en;
        switch (shape) {
          case 0: en = gen_env(env, 0, -2, -2, 0, -1, 0); break;
          case 1: en = gen_env(env, 1, -2, -2, 0, -1, 0); break;
          case 2: en = gen_env(env, 5, -2, -2, 0, -1, 0); break;
          case 3: en = gen_env(env, 2, -1, -2, 0, -1, 0); break;          /* wrong letter for F */
          case 4: en = gen_env(env, 3, 1, -2, 0, -1, 0); break;           /* wrong letter at a T */
          case 5: en = gen_env(env, 2, -2, -1, 1002, -1, 0); break;       /* sender 1002: ok */
          case 6: en = gen_env(env, 2, -2, -1, 1003, -1, 0); break;       /* sender 1003: too long */
          case 7: en = gen_env(env, 2, -2, 1, 1002, -1, 0); break;
          case 8: en = gen_env(env, 2, -2, 1, 1003, -1, 0); break;
          case 9: en = gen_env(env, 2, -2, 0, 1004, -1, 0); break;
          case 10: en = gen_env(env, 2, -2, -2, 0, -1, 1); break;         /* missing terminator */
          default: en = gen_env(env, 3, -2, -2, 0, (int)h_below(30), 0); break;   /* EOF somewhere */
        }
        one(msg, mn, env, en, chunks[ck], 0, 0);
      }
  /* (B) EOF at every byte offset of a small envelope */
  { unsigned char e0[64]; h_seed(seed + 5); size_t full = gen_env(e0, 2, -2, -2, 0, -1, 0);
    for (size_t cut = 0; cut <= full; cut++, id++) { if ((int)(id % nshards) != shard) continue; memcpy(msg, "hello\n", 6); one(msg, 6, e0, cut, (int)(cut % 2), 0, 0); } }
  /* (C) every call index x every fault kind on a few base cases */
  for (int base = 0; base < 3; base++) {
    h_seed(seed * 31 + base);
    size_t mn = base == 0 ? 10 : base == 1 ? 300 : 9000; for (size_t i = 0; i < mn; i++) msg[i] = "ab\n"[h_below(3)];
    size_t en = gen_env(env, 2, -2, -2, 0, -1, 0);
    int chunk = base == 1 ? 100 : 0;
    /* number of calls of the clean run */
    int nc = (int)ncalls_of(msg, mn, env, en, chunk, 0, 0);
    for (int fc = 1; fc <= nc; fc++) for (int fe = 0; fe < 4; fe++, id++) { if ((int)(id % nshards) != shard) continue; one(msg, mn, env, en, chunk, fc, ferrs[fe]); }
  }
  /* (D) random */
  for (int r = 0; r < nrandom; r++, id++) {
    if ((int)(id % nshards) != shard) continue;
    h_seed(seed * 1000003ull + r);
    size_t mn = h_below(4) == 0 ? h_below(20000) : h_below(700); for (size_t i = 0; i < mn; i++) msg[i] = (unsigned char)h_below(256);
    int k = h_below(10);
    size_t en = gen_env(env, (int)h_below(6), k == 0 ? (int)h_below(4) - 1 : -2, k == 1 ? (int)h_below(4) - 1 : -2, 1001 + (int)h_below(4),
                        k == 2 ? (int)h_below(40) : -1, k == 3);
    int chunk = (int[]){0, 1, 3, 255, 256, 2048}[h_below(6)];
    int fc = h_below(3) == 0 ? 1 + (int)h_below(40) : 0;
    one(msg, mn, env, en, chunk, fc, ferrs[h_below(4)]);
  }
  /* (E) the fault sweep of (C) on malformed / truncated inputs: every call index (including the calls made
   *     inside cleanup()) x every fault kind, for every shape x variant */
  for (int shape = 0; shape < NSHAPES; shape++)
    for (int variant = 0; variant < 3; variant++) {
      size_t mn, en; int chunk;
      gen_variant(seed, shape, variant, msg, &mn, env, &en, &chunk);
      id = sweep1(msg, mn, env, en, chunk, id, shard, nshards);
    }
  /* (F) pairs of faults: on the first two base cases of (C) and on the small malformed inputs
   *     (thorough: also the 300-byte / many-recipient variants) */
  for (int base = 0; base < 2; base++) {
    h_seed(seed * 31 + base);
    size_t mn = base == 0 ? 10 : 300; for (size_t i = 0; i < mn; i++) msg[i] = "ab\n"[h_below(3)];
    size_t en = gen_env(env, 2, -2, -2, 0, -1, 0);
    id = sweep2(msg, mn, env, en, base == 1 ? 100 : 0, id, shard, nshards);
  }
  for (int shape = 0; shape < NSHAPES; shape++)
    for (int variant = 0; variant < (nrandom >= 1000 ? 2 : 1); variant++) {
      size_t mn, en; int chunk;
      gen_variant(seed, shape, variant, msg, &mn, env, &en, &chunk);
      id = sweep2(msg, mn, env, en, chunk, id, shard, nshards);
    }
  /* (G) random inputs (half of them malformed) with a random chain of 1..3 faults, each placed in the part of
   *     the trace that the previous ones leave (half of the time among its last 8 calls) */
  for (int r = 0; r < nrandom / 2; r++, id++) {
    if ((int)(id % nshards) != shard) continue;
    h_seed(seed * 7777777ull + r);
    size_t mn = h_below(8) == 0 ? h_below(5000) : h_below(700); for (size_t i = 0; i < mn; i++) msg[i] = (unsigned char)h_below(256);
    size_t en;
    if (h_below(2)) en = gen_abnormal(env, (int)h_below(NSHAPES), (int)h_below(6));
    else { int k = h_below(10); do bad_letter = (int)h_below(256); while (bad_letter == 'F' || bad_letter == 'T' || bad_letter == 0);
           en = gen_env(env, (int)h_below(6), k == 0 ? (int)h_below(4) - 1 : -2, k == 1 ? (int)h_below(4) - 1 : -2, 1001 + (int)h_below(4),
                        k == 2 ? (int)h_below(40) : -1, k == 3); bad_letter = 'X'; }
    int chunk = (int[]){0, 1, 3, 100, 255, 256, 2048}[h_below(7)];
    flt f[3]; int nf = 0, want = 1 + (int)h_below(3); long last = 0;
    while (nf < want) {
      long nc = ncalls_of(msg, mn, env, en, chunk, f, nf);
      if (nc <= last) break;
      long lo = last + 1; if (h_below(2) && nc - 7 > lo) lo = nc - 7;
      f[nf].call = (int)(lo + h_below((uint32_t)(nc - lo + 1))); f[nf].err = ferrs[h_below(4)];
      last = f[nf].call; nf++;
    }
    one_f(msg, mn, env, en, chunk, f, nf, 1);
  }
  /* (H) SIGALRM at every call index (sampled in the middle of traces > 150 calls): the three well-formed bases of (C),
   *     every malformed shape x the variants 0 and 1; then after a first fault, on base 0 and on the small malformed inputs */
  for (int base = 0; base < 3; base++) {
    h_seed(seed * 31 + base);
    size_t mn = base == 0 ? 10 : base == 1 ? 300 : 9000; for (size_t i = 0; i < mn; i++) msg[i] = "ab\n"[h_below(3)];
    size_t en = gen_env(env, 2, -2, -2, 0, -1, 0);
    id = sweep_alarm(msg, mn, env, en, base == 1 ? 100 : 0, id, shard, nshards);
    if (base == 0) id = sweep_alarm2(msg, mn, env, en, 0, id, shard, nshards);
  }
  for (int shape = 0; shape < NSHAPES; shape++)
    for (int variant = 0; variant < 2; variant++) {
      size_t mn, en; int chunk;
      gen_variant(seed, shape, variant, msg, &mn, env, &en, &chunk);
      id = sweep_alarm(msg, mn, env, en, chunk, id, shard, nshards);
      if (variant == 0) id = sweep_alarm2(msg, mn, env, en, chunk, id, shard, nshards);
    }
  /* random inputs with SIGALRM at a random call index (half of the time among the last 8 calls) */
  for (int r = 0; r < nrandom / 4; r++, id++) {
    if ((int)(id % nshards) != shard) continue;
    h_seed(seed * 424243ull + r);
    size_t mn = h_below(700); for (size_t i = 0; i < mn; i++) msg[i] = (unsigned char)h_below(256);
    size_t en = h_below(3) ? gen_env(env, (int)h_below(6), -2, -2, 0, -1, 0) : gen_abnormal(env, (int)h_below(NSHAPES), (int)h_below(6));
    int chunk = (int[]){0, 1, 3, 100, 255, 256, 2048}[h_below(7)];
    long nc = ncalls_of(msg, mn, env, en, chunk, 0, 0);
    long lo = 1; if (h_below(2) && nc - 7 > lo) lo = nc - 7;
    flt f = { (int)(lo + h_below((uint32_t)(nc - lo + 1))), -3 };
    one_f(msg, mn, env, en, chunk, &f, 1, 1);
  }
  /* (I) failures of library calls qsim does not trace: chdir (61, 62), each alloc() of qmail-queue.c (51; -16 is the
   *     control: there is no sixth alloc), SIGBUS at an alloc() (sigbug(): 81), on a well-formed and on a truncated input */
  for (int inp = 0; inp < 3; inp++) {
    size_t mn, en; int chunk;
    if (inp == 0) { h_seed(seed * 31); mn = 10; for (size_t i = 0; i < mn; i++) msg[i] = "ab\n"[h_below(3)]; en = gen_env(env, 2, -2, -2, 0, -1, 0); chunk = 0; }
    else gen_variant(seed, inp == 1 ? 3 : 10, 1, msg, &mn, env, &en, &chunk);
    static const int setups[] = { -31, -32, -11, -12, -13, -14, -15, -16, -22, -23, -24, -25 };
    for (unsigned q = 0; q < sizeof setups / sizeof setups[0]; q++, id++) {
      if ((int)(id % nshards) != shard) continue;
      flt f = { 0, setups[q] };
      one_f(msg, mn, env, en, chunk, &f, 1, 1);
    }
  }
  g_setup = 0;
  fflush(h_out);
  return 0;
}
