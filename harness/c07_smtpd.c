/* C07 whole-program harness: the real qmail-smtpd.c main() (commands loop, smtp_data, blast, put) + the real qmail.c
 * against the stand-in queue program.  timeoutread.o / timeoutwrite.o are replaced by the scripted client.
 * usage: c07_smtpd <nrandom> <seed> <shard> <nshards>   |   c07_smtpd -   (case lines on stdin)
 * payload of a case: <helo|!helo|~> <sender> <rcpt,rcpt,...|-> <stream after DATA> <cut|-1>      ("!" in front: EHLO instead of HELO)
 *   the session sent is  [HELO helo CRLF] MAIL FROM:<sender> CRLF (RCPT TO:<rcpt> CRLF)* DATA CRLF stream , truncated to
 *   `cut` bytes when cut >= 0 (client disconnect).  A sixth payload field is appended to the answer: the length of the
 *   command part (everything before `stream`).
 * Raw sessions (protocol letter 'T', real-queue leg 't'): the payload is ONE field, the client's bytes as they are - any number of
 *   transactions, RSET, repeated MAIL, refused RCPT, garbage, cut anywhere; the k-th run of the queue program ends as the k-th
 *   entry of <qqscript> says.  Compared with the composed model Nq.SmtpC07.run (C08's command loop + C07's smtp_data/qmail.c). */
#include "c07_common.h"
#define read c07_read
#define write c07_write
#define fork c07_fork
#include "qmail.c"
#undef fork
#undef read
#undef write
#define _exit(x) h_exit(x)
#define main smtpd_main
#include "qmail-smtpd.c"
#undef main
#undef _exit

ssize_t timeoutread(int t, int fd, char *buf, size_t len) { return c07_read(0, buf, len); }
ssize_t timeoutwrite(int t, int fd, const void *buf, size_t len) { hbuf_add(&c07_outb, buf, len); return len; }

static void one(c07_case *c) {
  static unsigned char tmp[1 << 21]; hbuf s = {0};
  if (c->npay < 5) return;
  if (c->pay[0][0] != '~') { int e = c->pay[0][0] == '!'; size_t l = c07_unhex(c->pay[0] + e, tmp); hbuf_add(&s, e ? "EHLO " : "HELO ", 5); if (l) hbuf_add(&s, tmp, l); hbuf_add(&s, "\r\n", 2); }
  { size_t l = c07_unhex(c->pay[1], tmp); hbuf_add(&s, "MAIL FROM:<", 11); if (l) hbuf_add(&s, tmp, l); hbuf_add(&s, ">\r\n", 3); }
  if (c->pay[2][0] != '-') {
    char *cp = strdup(c->pay[2]);
    for (char *t = cp; t; ) { char *e = strchr(t, ','); if (e) *e = 0; size_t l = c07_unhex(t, tmp); hbuf_add(&s, "RCPT TO:<", 9); if (l) hbuf_add(&s, tmp, l); hbuf_add(&s, ">\r\n", 3); t = e ? e + 1 : 0; }
    free(cp);
  }
  hbuf_add(&s, "DATA\r\n", 6);
  size_t cmdlen = s.n;
  { size_t l = c07_unhex(c->pay[3], tmp); if (l) hbuf_add(&s, tmp, l); }
  long cut = atol(c->pay[4]);
  size_t n = s.n; if (cut >= 0 && (size_t)cut < n) n = cut;
  c07_setup(c, s.p, n);
  ssin.p = 0; ssin.n = sizeof ssinbuf; ssout.p = 0; seenmail = 0; databytes = 0; bytestooverflow = 0; timeout = 1200; flagbarf = 0; binqqargs[0] = 0; rcptto.len = 0; mailfrom.len = 0;   /* a fresh process starts with empty strallocs */
  int code;
  h_exit_armed = 1;
  if (setjmp(h_jb) == 0) { smtpd_main(); code = -1; } else code = h_exitcode;
  h_exit_armed = 0;
  char cl[32]; snprintf(cl, sizeof cl, "%zu", cmdlen);
  int np = c->npay; char *save = c->pay[5];
  c->pay[5] = cl; c->npay = 6;
  c07_finish(c, code);
  c->pay[5] = save; c->npay = np;
  free(s.p);
}

static void reset_daemon(void) {
  ssin.p = 0; ssin.n = sizeof ssinbuf; ssout.p = 0; seenmail = 0; databytes = 0; bytestooverflow = 0; timeout = 1200; flagbarf = 0; binqqargs[0] = 0; rcptto.len = 0; mailfrom.len = 0;   /* a fresh process starts with empty strallocs */
}
static void one_raw(c07_case *c) {
  static unsigned char tmp[1 << 21];
  if (c->npay < 1) return;
  size_t n = c07_unhex(c->pay[0], tmp);
  c07_setup(c, tmp, n);
  reset_daemon();
  int code;
  h_exit_armed = 1;
  if (setjmp(h_jb) == 0) { smtpd_main(); code = -1; } else code = h_exitcode;
  h_exit_armed = 0;
  c->npay = 1;
  c07_finish(c, code);
}
static void emit_raw(c07_case *c, const void *p, size_t n) {
  c->pay[0] = c07_hexdup(p, n); c->npay = 1;
  one_raw(c);
}

static char *emit_helohex;     /* when set: the first payload field as it is (hex, "!" in front for EHLO); consumed by the next emit() */
static void emit(c07_case *c, const char *helo, const char *sender, int nr, const char **rcpts, const void *stream, size_t sn, long cut) {
  if (emit_helohex) { c->pay[0] = emit_helohex; emit_helohex = 0; }
  else c->pay[0] = helo ? c07_hexs(helo) : strdup("~");
  c->pay[1] = c07_hexs(sender);
  if (nr == 0) c->pay[2] = strdup("-");
  else { size_t tot = 1; for (int i = 0; i < nr; i++) tot += 2 * strlen(rcpts[i]) + 2; char *l = malloc(tot); l[0] = 0;
         for (int i = 0; i < nr; i++) { char *h = c07_hexs(rcpts[i]); if (i) strcat(l, ","); strcat(l, h); free(h); } c->pay[2] = l; }
  c->pay[3] = c07_hexdup(stream, sn);
  char b[32]; snprintf(b, sizeof b, "%ld", cut); c->pay[4] = strdup(b);
  c->npay = 5;
  one(c);
}
static char *fill(size_t n, char ch, const char *suffix) {
  char *s = malloc(n + 1); size_t sl = strlen(suffix);
  memset(s, ch, n); if (sl <= n) memcpy(s + n - sl, suffix, sl); s[n] = 0; return s;
}
#define LIT(x) x, sizeof(x) - 1
static const char *R2[] = { "u1@ok.example", "u2@a.sub.example" };
static const char *RMIX[] = { "u1@ok.example", "nope@other.example", "local", "x@LOCALHOST" };
static const char MSG[] = "Subject: t\r\n\r\nline one\r\n..stuffed\r\n\rx\r\r\nlast\r\n.\r\nQUIT\r\n";

static void enumerate(void) {
  c07_case c;
  /* custom texts outside the qmail-queue.8 interface (first byte neither D nor Z): NUL, 'K' */
  for (int k = 0; k < 2; k++) {
    if (!c07_mine()) continue;
    c07_defaults(&c, 'S', k); free(c.qq); c.qq = strdup(k ? "82,0,4b6f6b2066616b65" : "82,0,007879");
    emit(&c, 0, "s@x", 1, R2, LIT(MSG), -1); c07_free(&c);
  }
  for (int e = 0; e < 256; e++) {
    if (!c07_mine()) continue;
    c07_defaults(&c, 'S', e); free(c.qq); c.qq = c07_qqscript(e, 0, e % 5 == 0 ? "Dignored unless 82" : 0);
    emit(&c, e % 3 ? "helo.example" : 0, "s@x.example", 2, R2, LIT(MSG), -1); c07_free(&c);
  }
  for (int t = 0; t < C07_N(c07_texts); t++) for (int e = 81; e <= 83; e++) {
    if (!c07_mine()) continue;
    c07_defaults(&c, 'S', t); free(c.qq); c.qq = c07_qqscript(e, 0, c07_texts[t]);
    emit(&c, 0, "", 4, RMIX, LIT(MSG), -1); c07_free(&c);
  }
  for (int sg = 0; sg < 3; sg++) {
    if (!c07_mine()) continue;
    c07_defaults(&c, 'S', sg); free(c.qq); c.qq = c07_qqscript(0, (int[]){ SIGKILL, SIGTERM, SIGSEGV }[sg], 0);
    emit(&c, 0, "s@x", 1, R2, LIT(MSG), -1); c07_free(&c);
  }
  /* sizes around databytes: stored size, not wire size, counts */
  for (int db = 0; db <= 40; db += 10) for (int len = (db ? db - 3 : 0); len <= db + 3; len++) for (int shape = 0; shape < 3; shape++) {
    if (!c07_mine()) continue;
    char body[200]; int n = 0, stored = 0;
    while (stored < len) {
      if (shape == 1 && stored % 7 == 0) body[n++] = '.', body[n++] = '.', stored++;        /* a stuffed dot stores one byte */
      else if (shape == 2 && stored % 6 == 5) { body[n++] = '\r'; body[n++] = '\n'; stored++; }   /* CRLF stores one byte */
      else { body[n++] = 'a' + stored % 26; stored++; }
    }
    if (n && body[n - 1] == '\n' && n >= 2 && body[n - 2] == '\r') memcpy(body + n, ".\r\n", 3), n += 3;
    else memcpy(body + n, "\r\n.\r\n", 5), n += 5;   /* the final CRLF stores one more byte (LF) */
    memcpy(body + n, "QUIT\r\n", 6); n += 6;
    c07_defaults(&c, 'S', db + len); c.databytes = db;
    emit(&c, 0, "s@x.example", 1, R2, body, n, -1); c07_free(&c);
  }
  /* hop counts 97..102 from Received / Delivered-To lines */
  for (int hops = 97; hops <= 102; hops++) for (int mix = 0; mix < 4; mix++) {
    if (!c07_mine()) continue;
    hbuf m = {0};
    for (int i = 0; i < hops; i++) {
      if (mix == 3) {   /* near misses that must not be counted, between lines that must */
        static const char *miss[] = { "Receive\r\n", "Receivex: y\r\n", "Delivere: z\r\n", "xReceived: w\r\n", " Delivered-To: v\r\n", "Deliverex-To: u\r\n", "received\r\n" + 1 };
        const char *ms = miss[i % 7]; hbuf_add(&m, ms, strlen(ms));
        if (i % 2) hbuf_add(&m, LIT("DeliveredX\r\n")); else hbuf_add(&m, LIT("RECEIVED\r\n"));
        continue;
      }
      if (mix == 0 || (mix == 2 && i % 2)) hbuf_add(&m, LIT("Received: from a by b; date\r\n"));
      else if (mix == 1) hbuf_add(&m, LIT("DELIVERED-to: someone@ok.example\r\n"));
      else hbuf_add(&m, LIT("rEcEiVeD:x\r\n"));
    }
    hbuf_add(&m, LIT("Subject: loop\r\n\r\nReceived: in the body does not count\r\n.\r\nQUIT\r\n"));
    c07_defaults(&c, 'S', hops + mix); if (mix == 2) c.databytes = 20;   /* hops is reported before size */
    emit(&c, 0, "s@x.example", 1, R2, m.p, m.n, -1); c07_free(&c); free(m.p);
  }
  /* address lengths around 900; RELAYCLIENT; refused recipients; nobody accepted */
  for (int who = 0; who < 2; who++) for (int len = 896; len <= 902; len++) for (int rc = 0; rc < 2; rc++) {
    if (!c07_mine()) continue;
    char *a = fill(len, 'q', "@ok.example"); const char *rr[3] = { "first@ok.example", a, "last@ok.example" };
    c07_defaults(&c, 'S', len + rc);
    if (rc) { free(c.env[5]); c.env[5] = c07_hexs("@relay.example"); }
    if (who == 0) emit(&c, 0, a, 2, R2, LIT(MSG), -1); else emit(&c, 0, "s@x.example", 3, rr, LIT(MSG), -1);
    c07_free(&c); free(a);
  }
  for (int k = 0; k < 4; k++) {
    if (!c07_mine()) continue;
    static const char *bad[] = { "a@other.example", "b@nowhere.example" };
    c07_defaults(&c, 'S', k);
    if (k == 0) emit(&c, 0, "s@x", 2, bad, LIT(MSG), -1);
    if (k == 1) emit(&c, 0, "s@x", 0, bad, LIT(MSG), -1);
    if (k == 2) { free(c.env[5]); c.env[5] = strdup("-"); emit(&c, 0, "s@x", 2, bad, LIT(MSG), -1); }
    if (k == 3) emit(&c, 0, "s@x", 4, RMIX, LIT("\r\n.\r\nQUIT\r\n"), -1);
    c07_free(&c);
  }
  /* HELO against TCPREMOTEHOST */
  for (int k = 0; k < 6; k++) {
    if (!c07_mine()) continue;
    static const char *helos[] = { "client.example", "CLIENT.Example", "other.example", "we ird(host)\tname", "", "x" };
    c07_defaults(&c, 'S', 1);   /* variant 1: TCPREMOTEHOST=client.example */
    emit(&c, helos[k], "s@x", 1, R2, LIT(MSG), -1); c07_free(&c);
  }
  /* bare LF, missing terminator, CR shapes */
  {
    static const struct { const char *s; size_t n; } st[] = { { LIT("a\nb\r\n.\r\nQUIT\r\n") }, { LIT("abc\r\n") }, { LIT("") }, { LIT(".\r\nQUIT\r\n") }, { LIT("a\r\n.\r\n") },
      { LIT("a\r\r\n.\rb\r\n.\r\nQUIT\r\n") }, { LIT("a\r\n.\r\nNOOP\r\nQUIT\r\n") }, { LIT("x\r\n.\n") }, { LIT("\r\n.\r\nQUIT\r\n") } };
    for (int k = 0; k < C07_N(st); k++) {
      if (!c07_mine()) continue;
      c07_defaults(&c, 'S', k); emit(&c, 0, "s@x", 1, R2, st[k].s, st[k].n, -1); c07_free(&c);
    }
  }
  /* every cut point of two short sessions */
  for (int v = 0; v < 2; v++) {
    const char *st = v ? "H: v\r\n\r\nb\r\n.\r\nQUIT\r\n" : "Received: x\r\n\r\n..\r\n.\r\n";
    size_t total = (v ? 14 : 0) + 15 + 2 * 26 + 6 + strlen(st) + 8;
    for (size_t k = 0; k <= total; k++) {
      if (!c07_mine()) continue;
      c07_defaults(&c, 'S', (unsigned)k); c.chunk = (int)(k % 3); if (v) c.databytes = 11;
      emit(&c, v ? "he.lo" : 0, "s@x", 2, R2, st, strlen(st), (long)k); c07_free(&c);
    }
  }
  /* the k-th write to the queue program fails: small, body > 1024, rcptto > 1024 */
  for (int v = 0; v < 3; v++) for (int wf = 0; wf < 7; wf++) {
    if (!c07_mine()) continue;
    c07_defaults(&c, 'S', wf); c.wfault = wf;
    char *a = fill(700, 'r', "@ok.example"); const char *rr[3] = { a, a, "z@ok.example" };
    hbuf m = {0}; for (int i = 0; i < 60; i++) hbuf_add(&m, LIT("0123456789012345678901234567890123456789\r\n")); hbuf_add(&m, LIT(".\r\nQUIT\r\n"));
    if (v == 0) emit(&c, 0, "s@x", 2, R2, LIT(MSG), -1);
    if (v == 1) emit(&c, 0, "s@x", 2, R2, m.p, m.n, -1);
    if (v == 2) emit(&c, 0, a, 3, rr, LIT(MSG), -1);
    c07_free(&c); free(a); free(m.p);
  }
}

/* every byte value in every peer-supplied string (HELO and EHLO argument included); address lengths 0..1030 in every role */
static void enumerate2(void) {
  c07_case c;
  for (unsigned k = 0; k < C07_NPEERV; k++) {
    if (!c07_mine()) continue;
    char *helo; c07_peer_variant(&c, 'S', k, &helo); emit_helohex = helo;
    emit(&c, 0, "s@x", 1, R2, LIT(MSG), -1); c07_free(&c);
  }
  for (int role = 0; role < 5; role++) for (int i = 0; c07_addrlen(i) >= 0; i++) {
    if (!c07_mine()) continue;
    int len = c07_addrlen(i);
    char *a = fill(len, 'q', "@ok.example"); const char *rr[3] = { "first@ok.example", a, "last@ok.example" };
    c07_defaults(&c, 'S', len + role);
    if (role == 4) { free(c.env[5]); c.env[5] = c07_hexs("@r"); }
    if (role == 0) emit(&c, 0, a, 2, R2, LIT(MSG), -1);
    if (role == 1) emit(&c, "h.example", "s@x.example", 1, rr + 1, LIT(MSG), -1);
    if (role == 2 || role == 4) emit(&c, 0, "s@x.example", 3, rr, LIT(MSG), -1);
    if (role == 3) emit(&c, 0, "", 2, rr, LIT(MSG), -1);
    c07_free(&c); free(a);
  }
}

/* Real-queue leg (protocol letter 's'): the real qmail-queue behind the real qmail.c.  Clean sessions (short, body > 1 KiB and
 * > 8 KiB, envelope > 1 KiB) must be acknowledged and committed exactly; a disconnect at every 37th (thorough: 7th) byte of the session (commands and
 * commands), a stray LF, 100 hops, a message over databytes, a failing write to the queue program must commit nothing. */
static void enumerate_real(void) {
  c07_case c;
  static char rb[60][40]; const char *rr[60];
  for (int i = 0; i < 60; i++) { snprintf(rb[i], 40, "user%d@host%d.sub.example", i, i % 9); rr[i] = rb[i]; }
  hbuf big = {0}, huge = {0}, hops = {0};
  for (int i = 0; i < 40; i++) hbuf_add(&big, LIT("0123456789012345678901234567890123456789\r\n")); hbuf_add(&big, LIT(".\r\nQUIT\r\n"));
  for (int i = 0; i < 220; i++) hbuf_add(&huge, LIT("..23456789012345678901234567890123456789\r\n")); hbuf_add(&huge, LIT(".\r\nQUIT\r\n"));
  for (int i = 0; i < 100; i++) hbuf_add(&hops, LIT("Received: by x\r\n")); hbuf_add(&hops, LIT("\r\nb\r\n.\r\nQUIT\r\n"));
  for (int k = 0; k < 12; k++) {
    if (!c07_mine()) continue;
    c07_defaults(&c, 's', k);
    if (k == 0) emit(&c, 0, "s@x", 2, R2, LIT(MSG), -1);
    if (k == 1) emit(&c, "he.lo", "", 4, RMIX, LIT(MSG), -1);
    if (k == 2) emit(&c, 0, "s@x", 2, R2, big.p, big.n, -1);
    if (k == 3) emit(&c, 0, "s@x", 60, rr, huge.p, huge.n, -1);
    if (k == 4) emit(&c, 0, "s@x", 1, R2, hops.p, hops.n, -1);
    if (k == 5) { c.databytes = 50; emit(&c, 0, "s@x", 60, rr, big.p, big.n, -1); }
    if (k == 6) emit(&c, 0, "s@x", 1, R2, LIT("a\nb\r\n.\r\nQUIT\r\n"), -1);
    if (k == 7) emit(&c, 0, "s@x", 1, R2, LIT("abc\r\n"), -1);
    if (k == 8) { c.wfault = 1; emit(&c, 0, "s@x", 2, R2, LIT(MSG), -1); }
    if (k == 9) { c.wfault = 2; emit(&c, 0, "s@x", 60, rr, big.p, big.n, -1); }
    if (k == 10) { c.wfault = 3; emit(&c, 0, "s@x", 60, rr, huge.p, huge.n, -1); }
    if (k == 11) { free(c.env[5]); c.env[5] = c07_hexs("@relay.example"); emit(&c, "x", "s@x", 60, rr, LIT(MSG), -1); }
    c07_free(&c);
  }
  { size_t cmd = 15 + 60 * 40 + 6, total = cmd + big.n;       /* upper bound of the session length; the harness clips the cut */
    for (size_t k = 0; k <= total; k += (c07_thorough ? 7 : 37)) {
      if (!c07_mine()) continue;
      c07_defaults(&c, 's', (unsigned)k); c.chunk = (int)(k % 3);
      emit(&c, 0, "s@x", 60, rr, big.p, big.n, (long)k); c07_free(&c);
    }
  }
  free(big.p); free(huge.p); free(hops.p);
}

static void randoms(int nrandom, uint64_t seed) {
  c07_case c;
  for (int r = 0; r < nrandom; r++) {
    if (!c07_mine()) continue;
    h_seed(seed * 1000003ull + r + 4242);
    c07_defaults(&c, 'S', h_below(1000));
    if (h_below(3) == 0) c.databytes = h_below(80);
    if (h_below(4) == 0) { free(c.env[5]); c.env[5] = h_below(2) ? strdup("-") : c07_hexs("@relay.example"); }
    static const int codes[] = { 0, 0, 0, 0, 0, 11, 31, 51, 53, 54, 81, 91, 115, 120, 1, 40, 41, 100, 255 };
    free(c.qq);
    if (h_below(10) == 0) c.qq = c07_qqscript(82, 0, h_below(2) ? "Dcustom no" : "Zcustom later");
    else c.qq = c07_qqscript(codes[h_below(C07_N(codes))], h_below(40) == 0 ? SIGKILL : 0, 0);
    hbuf m = {0};
    int nh = h_below(6) == 0 ? 95 + h_below(10) : h_below(4);
    for (int i = 0; i < nh; i++) { static const char *hl[] = { "Received: from x\r\n", "Delivered-To: y\r\n", "received\r\n", "X-Other: z\r\n", "DELIVERED\r\n" }; const char *l = hl[h_below(nh > 10 ? 2 : 5)]; hbuf_add(&m, l, strlen(l)); }
    if (h_below(4)) hbuf_add(&m, "\r\n", 2);
    size_t bn = h_below(10) == 0 ? h_below(3000) : h_below(90);
    for (size_t i = 0; i < bn; i++) {
      uint32_t x = h_below(14); unsigned char ch;
      if (x == 0) { hbuf_add(&m, "\r\n", 2); continue; }
      ch = x == 1 ? '\r' : x == 2 ? '.' : x == 3 && h_below(30) == 0 ? '\n' : (unsigned char)('a' + h_below(26));
      hbuf_add(&m, &ch, 1);
    }
    uint32_t endk = h_below(12);
    if (endk < 9) hbuf_add(&m, LIT("\r\n.\r\nQUIT\r\n")); else if (endk == 9) hbuf_add(&m, LIT("\r\n.\r\n")); else if (endk == 10) hbuf_add(&m, LIT("\r\n."));
    char sender[1000]; size_t sl = h_below(15) == 0 ? 895 + h_below(8) : h_below(20);
    for (size_t i = 0; i < sl; i++) sender[i] = (char)('a' + h_below(26)); sender[sl] = 0;
    int nr = h_below(5); static char rb[5][1000]; const char *rr[5];
    for (int i = 0; i < nr; i++) {
      static const char *dom[] = { "@ok.example", "@x.sub.example", "@other.example", "", "@OK.EXAMPLE", "@localhost" };
      size_t ln = h_below(15) == 0 ? 893 + h_below(10) : 1 + h_below(12);
      for (size_t j = 0; j < ln; j++) rb[i][j] = (char)('a' + h_below(26));
      const char *d = dom[h_below(6)]; size_t dl = strlen(d); if (dl < ln) memcpy(rb[i] + ln - dl, d, dl);
      rb[i][ln] = 0; rr[i] = rb[i];
    }
    if (h_below(25) == 0) c.wfault = h_below(6);
    c.chunk = (int[]){ 0, 0, 1, 3, 100 }[h_below(5)];
    long cut = h_below(8) == 0 ? (long)h_below((uint32_t)m.n + 120) : -1;
    static const char *helos[] = { 0, 0, "client.example", "h.example", "a b" };
    const char *hl = helos[h_below(5)];
    if (h_below(8) == 0) { static const char *odd[] = { "e\\", "a\"b", "(c", "d)", "<e>", "f,g;h", "\x7f\x80\xff", "i\\)j(" };   /* peer strings from the whole byte range */
      int f = h_below(6); unsigned char v[16]; size_t vn = 1 + h_below(12);
      for (size_t i = 0; i < vn; i++) { v[i] = (unsigned char)(1 + h_below(255)); if (v[i] == '\n') v[i] = '\\'; }
      char *hx = h_below(3) ? c07_hexdup(v, vn) : c07_hexs(odd[h_below(8)]);
      if (f < 5) { free(c.env[f]); c.env[f] = hx; }
      else if (h_below(2)) emit_helohex = hx; else { emit_helohex = malloc(strlen(hx) + 2); sprintf(emit_helohex, "!%s", hx); free(hx); } }
    if (h_below(25) == 0) c.proto = 's';                       /* the same session against the real qmail-queue */
    emit(&c, hl, sender, nr, rr, m.p, m.n, cut);
    c07_free(&c); free(m.p);
  }
}

/* ---------------------------------------------------------------- raw sessions (protocol letter 'T' / 't') */
#define ADD(b, lit) hbuf_add(b, lit, sizeof(lit) - 1)
static void t_str(hbuf *b, const char *s) { hbuf_add(b, s, strlen(s)); }
static const char *T_BODY[] = { "Subject: a\r\n\r\none\r\n", "..dot\r\nReceived: x\r\n", "", "x\r\n\r\n\ry\r\r\n", "Received: by z\r\nDelivered-To: q\r\n\r\nlong line long line long line\r\n" };
static void t_data(hbuf *b, int body) { ADD(b, "DATA\r\n"); t_str(b, T_BODY[body % C07_N(T_BODY)]); ADD(b, ".\r\n"); }
/* k-th multi-run queue script */
static char *t_script(const int *codes, int n) {
  char *s = malloc(64 * n + 8); s[0] = 0;
  for (int i = 0; i < n; i++) { char e[64];
    if (codes[i] == -9) snprintf(e, sizeof e, "%s0,9,-", i ? ";" : "");
    else if (codes[i] == -82) snprintf(e, sizeof e, "%s82,0,44637573746f6d", i ? ";" : "");       /* "Dcustom" */
    else snprintf(e, sizeof e, "%s%d,0,-", i ? ";" : "", codes[i]);
    strcat(s, e); }
  return s;
}

static void enumerate_t(void) {
  c07_case c;
  static const int outc[] = { 0, 53, 31, -9, -82, 111 };
  /* three transactions on one connection, every combination of outcomes from {ok, temp, perm, crash} for the three queue runs */
  for (int a = 0; a < 4; a++) for (int b = 0; b < 4; b++) for (int d = 0; d < 4; d++) {
    if (!c07_mine()) continue;
    hbuf s = {0};
    ADD(&s, "HELO first.example\r\nMAIL FROM:<one@s.example>\r\nRCPT TO:<u1@ok.example>\r\nRCPT TO:<no@other.example>\r\nRCPT TO:<u2@a.sub.example>\r\n"); t_data(&s, a);
    ADD(&s, "MAIL FROM:<two@s.example>\r\nRCPT TO:<v1@OK.example>\r\n"); t_data(&s, b + 1);
    ADD(&s, "RCPT TO:<late@ok.example>\r\nDATA\r\nMAIL FROM:<>\r\nrcpt to: w1@localhost\r\nEHLO second.example\r\nRCPT TO:<lost@ok.example>\r\nmail from:<three@s.example> SIZE=5\r\nRCPT TO:<w2@ok.example>\r\n"); t_data(&s, d + 2);
    ADD(&s, "QUIT\r\n");
    int codes[3] = { outc[a], outc[b], outc[d] };
    c07_defaults(&c, 'T', a * 16 + b * 4 + d); free(c.qq); c.qq = t_script(codes, 3); c.chunk = (a + b + d) % 4 == 3 ? 1 : 0;
    emit_raw(&c, s.p, s.n); c07_free(&c); free(s.p);
  }
  /* shapes: RSET, repeated MAIL, refused and unparsable RCPT, DATA without RCPT / MAIL, garbage, bare-LF line ends, NUL in a line,
     pipelined garbage behind the terminator, route and quoted addresses, blanks, RELAYCLIENT, databytes, hop limit in the second message */
  static const char *shape[] = {
    "MAIL FROM:<a@s>\r\nRCPT TO:<u@ok.example>\r\nRSET\r\nDATA\r\nMAIL FROM:<b@s>\r\nRCPT TO:<v@ok.example>\r\nDATA\r\nx\r\n.\r\nQUIT\r\n",
    "MAIL FROM:<a@s>\r\nRCPT TO:<u@ok.example>\r\nMAIL FROM:<b@s>\r\nDATA\r\nRCPT TO:<v@ok.example>\r\nRCPT TO:<w@ok.example>\r\nMAIL FROM:<" "c@s>\r\nRCPT TO:<x@ok.example>\r\nDATA\r\nx\r\n.\r\nQUIT\r\n",
    "MAIL FROM:<a@s>\r\nRCPT TO:<u@other.example>\r\nRCPT TO:<>\r\nRCPT TO:<plain>\r\nDATA\r\nx\r\n.\r\nRCPT TO:<v@ok.example>\r\nDATA\r\nQUIT\r\n",
    "RCPT TO:<u@ok.example>\r\nDATA\r\nMAIL FROM:<a@s>\r\nDATA\r\nRCPT TO:<u@ok.example>\r\nDATA\r\n.\r\nDATA\r\nRCPT TO:<u@ok.example>\r\nQUIT\r\n",
    "mail FROM:<a@s>\nrcpt to:<u@ok.example>\ndata\nx\r\n.\r\nNOOP\nHELP\nVRFY x\nFOO\n\nmail from: b@s \nRcPt To:   v@ok.example\nDaTa  now\ny\r\n.\r\nquit\n",
    "MAIL FROM:<a@s>\r\nRCPT TO:<u@ok.example>\r\nDATA\r\nx\r\n.\r\n250 ok 0 qp 1\r\nok\r\nMAIL\r\nRCPT\r\nDATA\r\nGARBAGE GARBAGE\r\nMAIL FROM:<b@s>\r\nRCPT TO:<v@ok.example>\r\nDATA\r\ny\r\n.\r\nQUIT\r\n",
    "MAIL FROM:<@r1,@r2:a@s>\r\nRCPT TO:<@x:u@ok.example>\r\nRCPT TO:<\"q u\"@ok.example>\r\nRCPT TO:<q\\@r@ok.example>\r\nRCPT TO: bare@ok.example trailing\r\nDATA\r\nx\r\n.\r\nQUIT\r\n",
    "HELO a\r\nMAIL FROM:<a@s>\r\nRCPT TO:<u@ok.example>\r\nHELO b\r\nDATA\r\nMAIL FROM:<a@s>\r\nRCPT TO:<u@ok.example>\r\nEHLO c d\r\nMAIL FROM:<b@s>\r\nRCPT TO:<v@ok.example>\r\nDATA\r\nx\r\n.\r\nHELO e\r\nMAIL FROM:<c@s>\r\nRCPT TO:<w@ok.example>\r\nDATA\r\ny\r\n.\r\nQUIT\r\n",
    "MAIL FROM:<a@s>\r\nRCPT TO:<u@ok.example>\r\nDATA\r\nx\r\n.\r\nMAIL FROM:<b@s>\r\nRCPT TO:<v@ok.example>\r\nDATA\r\ny\nz\r\n.\r\nQUIT\r\n",
    "MAIL FROM:<a@s>\r\nRCPT TO:<u@ok.example>\r\nDATA\r\nx\r\n.\r\nMAIL FROM:<b@s>\r\nRCPT TO:<v@ok.example>\r\nDATA\r\n0123456789012345678901234567890123456789\r\n.\r\nMAIL FROM:<c@s>\r\nRCPT TO:<w@ok.example>\r\nDATA\r\nz\r\n.\r\nQUIT\r\n",
    "MAIL FROM:<a@s>\r\nRCPT TO:<u@ok.example>\r\nDATA\r\nx\r\n.\r\nQUIT\r\nMAIL FROM:<b@s>\r\nRCPT TO:<v@ok.example>\r\nDATA\r\ny\r\n.\r\n",
  };
  for (int k = 0; k < C07_N(shape); k++) for (int v = 0; v < 6; v++) {
    if (!c07_mine()) continue;
    int codes[4] = { outc[v], outc[(v + 1) % 6], outc[(v + 2) % 6], 0 };
    c07_defaults(&c, 'T', k + v); free(c.qq); c.qq = t_script(codes, v == 5 ? 1 : 4);
    if (v == 1) { free(c.env[5]); c.env[5] = c07_hexs("@relay.example"); }
    if (v == 2) { free(c.env[5]); c.env[5] = strdup("-"); }
    if (v == 3) c.databytes = 20;
    if (v == 4) c.wfault = k % 5;
    c.chunk = (int[]){ 0, 1, 3, 100 }[(k + v) % 4];
    emit_raw(&c, shape[k], strlen(shape[k])); c07_free(&c);
  }
  /* a NUL inside command lines */
  { if (c07_mine()) { static const char z[] = "MAIL FROM:<a@s>\0junk\r\nRCPT TO:<u@ok.example\0>\r\nRS\0ET\r\nDATA\r\nx\r\n.\r\nQUIT\r\n";
      c07_defaults(&c, 'T', 3); emit_raw(&c, z, sizeof z - 1); c07_free(&c); } }
  /* the hop limit and the size limit in the SECOND transaction, the first and third fine */
  for (int v = 0; v < 2; v++) {
    if (!c07_mine()) continue;
    hbuf s = {0};
    ADD(&s, "MAIL FROM:<a@s>\r\nRCPT TO:<u@ok.example>\r\n"); t_data(&s, 0);
    ADD(&s, "MAIL FROM:<b@s>\r\nRCPT TO:<v@ok.example>\r\nDATA\r\n");
    for (int i = 0; i < (v ? 3 : 100); i++) ADD(&s, "Received: by hop\r\n");
    ADD(&s, "\r\nbody body body body body body body body\r\n.\r\n");
    ADD(&s, "MAIL FROM:<c@s>\r\nRCPT TO:<w@ok.example>\r\n"); t_data(&s, 2); ADD(&s, "QUIT\r\n");
    c07_defaults(&c, 'T', v); if (v) c.databytes = 60;
    emit_raw(&c, s.p, s.n); c07_free(&c); free(s.p);
  }
  /* EVERY cut point of a two-transaction session (second one after RSET + repeated MAIL), queue outcomes ok / ok and perm / ok */
  { static const char two[] = "HELO h\r\nMAIL FROM:<a@s>\r\nRCPT TO:<u@ok.example>\r\nDATA\r\nA: b\r\n\r\n..\r\n.\r\nRSET\r\nMAIL FROM:<x@s>\r\nMAIL FROM:<b@s>\r\nRCPT TO:<no@other.example>\r\nRCPT TO:<v@ok.example>\r\nDATA\r\ny\r\n.\r\nQUIT\r\n";
    for (int v = 0; v < 2; v++) for (size_t k = 0; k <= sizeof two - 1; k++) {
      if (!c07_mine()) continue;
      int codes[2] = { v ? 31 : 0, 0 };
      c07_defaults(&c, 'T', (unsigned)k); free(c.qq); c.qq = t_script(codes, 2); c.chunk = (int)(k % 3);
      emit_raw(&c, two, k); c07_free(&c);
    } }
  /* address lengths around the 900 limit inside a later transaction (MAIL and RCPT), with and without RELAYCLIENT */
  for (int len = 896; len <= 902; len++) for (int who = 0; who < 2; who++) for (int rc = 0; rc < 2; rc++) {
    if (!c07_mine()) continue;
    char *a = fill(len, 'q', "@ok.example"); hbuf s = {0};
    ADD(&s, "MAIL FROM:<a@s>\r\nRCPT TO:<u@ok.example>\r\n"); t_data(&s, 0);
    if (who == 0) { ADD(&s, "MAIL FROM:<"); t_str(&s, a); ADD(&s, ">\r\nRCPT TO:<v@ok.example>\r\n"); }
    else { ADD(&s, "MAIL FROM:<b@s>\r\nRCPT TO:<first@ok.example>\r\nRCPT TO:<"); t_str(&s, a); ADD(&s, ">\r\nRCPT TO:<last@ok.example>\r\n"); }
    t_data(&s, 1); ADD(&s, "QUIT\r\n");
    c07_defaults(&c, 'T', len); if (rc) { free(c.env[5]); c.env[5] = c07_hexs("@r"); }
    emit_raw(&c, s.p, s.n); c07_free(&c); free(s.p); free(a);
  }
  /* the same against the real qmail-queue */
  for (int k = 0; k < C07_N(shape); k++) {
    if (!c07_mine()) continue;
    c07_defaults(&c, 't', k); if (k % 3 == 1) c.databytes = 20; emit_raw(&c, shape[k], strlen(shape[k])); c07_free(&c);
  }
}

static void t_addr(hbuf *b) {
  static const char *loc[] = { "u", "user.name", "a+b", "\"q s\"", "x\\@y", "" };
  static const char *dom[] = { "@ok.example", "@a.sub.example", "@OK.Example", "@other.example", "@localhost", "", "@sub.example", "@xok.example", "@ok.example.", "@.sub.example" };
  uint32_t k = h_below(20);
  if (k == 0) { size_t n = 880 + h_below(30); for (size_t i = 0; i < n; i++) ADD(b, "l"); t_str(b, "@ok.example"); return; }
  if (k == 1) t_str(b, "@route.example:");
  t_str(b, loc[h_below(6)]); if (h_below(3) == 0) { char ch = (char)('a' + h_below(26)); hbuf_add(b, &ch, 1); }
  t_str(b, dom[h_below(10)]);
}
static void t_line_end(hbuf *b) { if (h_below(12) == 0) ADD(b, "\n"); else ADD(b, "\r\n"); }
static void t_verb(hbuf *b, const char *v) { for (; *v; v++) { char ch = h_below(4) == 0 ? (char)tolower((unsigned char)*v) : *v; hbuf_add(b, &ch, 1); } }

static void randoms_t(int nrandom, uint64_t seed) {
  c07_case c;
  for (int r = 0; r < nrandom; r++) {
    if (!c07_mine()) continue;
    h_seed(seed * 1000003ull + r + 777001);
    c07_defaults(&c, 'T', h_below(1000));
    if (h_below(4) == 0) c.databytes = h_below(60);
    if (h_below(4) == 0) { free(c.env[5]); c.env[5] = h_below(2) ? strdup("-") : c07_hexs("@relay.example"); }
    static const int codes[] = { 0, 0, 0, 0, 0, 0, 11, 31, 51, 53, 54, 81, 91, 115, 120, 1, 40, 41, 100, 255, -9, -82 };
    int cs[5]; int nc = 1 + h_below(5); for (int i = 0; i < nc; i++) cs[i] = codes[h_below(C07_N(codes))];
    free(c.qq); c.qq = t_script(cs, nc);
    hbuf s = {0};
    int ncmd = 2 + h_below(24);
    int fresh = 0;    /* 0 nothing, 1 after MAIL, 2 after RCPT: bias towards complete transactions */
    if (h_below(5) < 2) {   /* two to four complete transactions, a stray command between them now and then */
      int nt = 2 + h_below(3);
      if (h_below(3) == 0) { t_verb(&s, h_below(2) ? "HELO" : "EHLO"); ADD(&s, " "); t_str(&s, (const char *[]){ "client.example", "h.example", "a b" }[h_below(3)]); t_line_end(&s); }
      for (int k = 0; k < nt; k++) {
        t_verb(&s, "MAIL"); ADD(&s, " "); t_verb(&s, "FROM:"); ADD(&s, "<"); t_addr(&s); ADD(&s, ">"); t_line_end(&s);
        int nr = 1 + h_below(3);
        for (int j = 0; j < nr; j++) { t_verb(&s, "RCPT"); ADD(&s, " "); t_verb(&s, "TO:"); ADD(&s, "<"); if (h_below(4)) { char u[24]; snprintf(u, sizeof u, "u%u@ok.example", h_below(100)); t_str(&s, u); } else t_addr(&s); ADD(&s, ">"); t_line_end(&s); }
        if (h_below(6) == 0) { t_verb(&s, (const char *[]){ "NOOP", "RSET", "HELO x", "MAIL FROM:<again@s.example>", "VRFY y", "DATA" }[h_below(6)]); t_line_end(&s); }
        t_verb(&s, "DATA"); t_line_end(&s);
        t_str(&s, T_BODY[h_below(C07_N(T_BODY))]); if (h_below(10) == 0) for (int j = 0; j < 100; j++) ADD(&s, "Received: x\r\n");
        size_t bn = h_below(12) == 0 ? h_below(2500) : h_below(50); for (size_t j = 0; j < bn; j++) { char ch = (char)('a' + h_below(26)); hbuf_add(&s, &ch, 1); if (h_below(30) == 0) ADD(&s, "\r\n"); }
        ADD(&s, "\r\n.\r\n");
        if (h_below(8) == 0) { t_verb(&s, (const char *[]){ "NOOP", "RSET", "RCPT TO:<late@ok.example>", "DATA", "250 ok 1 qp 2" }[h_below(5)]); t_line_end(&s); }
      }
      ncmd = h_below(3);
    }
    for (int i = 0; i < ncmd; i++) {
      uint32_t k = h_below(100);
      if (fresh == 0 && k < 45) k = 0; else if (fresh == 1 && k < 55) k = 10; else if (fresh == 2 && k < 40) k = 20;
      if (k < 10) { t_verb(&s, "MAIL"); ADD(&s, " "); t_verb(&s, "FROM:"); if (h_below(8)) { ADD(&s, "<"); t_addr(&s); ADD(&s, ">"); } else { ADD(&s, " "); t_addr(&s); } if (h_below(6) == 0) ADD(&s, " BODY=8BITMIME"); t_line_end(&s); fresh = 1; }
      else if (k < 20) { t_verb(&s, "RCPT"); ADD(&s, " "); t_verb(&s, "TO:"); if (h_below(8)) { ADD(&s, "<"); t_addr(&s); ADD(&s, ">"); } else t_addr(&s); t_line_end(&s); if (fresh) fresh = 2; }
      else if (k < 45) { t_verb(&s, "DATA"); t_line_end(&s);
        uint32_t shape = h_below(14);
        if (shape < 10) { t_str(&s, T_BODY[h_below(C07_N(T_BODY))]); size_t bn = h_below(8) == 0 ? h_below(2500) : h_below(40); for (size_t j = 0; j < bn; j++) { char ch = (char)('a' + h_below(26)); hbuf_add(&s, &ch, 1); if (h_below(30) == 0) ADD(&s, "\r\n"); } ADD(&s, "\r\n.\r\n"); }
        else if (shape == 10) { for (int j = 0; j < 100; j++) ADD(&s, "Received: x\r\n"); ADD(&s, "\r\n.\r\n"); }
        else if (shape == 11) ADD(&s, "a\nb\r\n.\r\n");
        else if (shape == 12) ADD(&s, ".\r\n");
        else ADD(&s, "unterminated\r\n");
        fresh = 0; }
      else if (k < 52) { t_verb(&s, "RSET"); t_line_end(&s); fresh = 0; }
      else if (k < 58) { t_verb(&s, h_below(2) ? "HELO" : "EHLO"); ADD(&s, " "); t_str(&s, (const char *[]){ "client.example", "h.example", "a b", "" }[h_below(4)]); t_line_end(&s); fresh = 0; }
      else if (k < 64) { t_verb(&s, (const char *[]){ "NOOP", "HELP", "VRFY x", "XYZZY", "", "250 ok 1 qp 2" }[h_below(6)]); t_line_end(&s); }
      else if (k < 67) { t_verb(&s, "QUIT"); t_line_end(&s); }
      else { static const char *junk[] = { "MAIL", "RCPT TO:", "DATA x", "mail from:<>", ".", "RCPT TO:<@>" }; t_str(&s, junk[h_below(6)]); t_line_end(&s); }
    }
    if (h_below(3)) ADD(&s, "QUIT\r\n");
    /* byte-level damage */
    if (h_below(6) == 0 && s.n) { static const unsigned char alpha[] = "\r\n.<>:@ \0Dd\\\""; for (int j = h_below(3); j >= 0; j--) s.p[h_below((uint32_t)s.n)] = alpha[h_below(sizeof alpha - 1)]; }
    size_t n = s.n;
    if (h_below(5) == 0) n = h_below((uint32_t)s.n + 1);
    if (h_below(25) == 0) c.wfault = h_below(8);
    c.chunk = (int[]){ 0, 0, 1, 3, 100 }[h_below(5)];
    if (h_below(25) == 0) c.proto = 't';
    emit_raw(&c, s.p, n);
    c07_free(&c); free(s.p);
  }
}

int main(int argc, char **argv) {
  c07_init();
  if (argc > 1 && !strcmp(argv[1], "-")) {
    static char line[1 << 23];
    while (fgets(line, sizeof line, stdin)) { c07_case c; if (!c07_parse(line, &c)) continue;
      if (toupper((unsigned char)c.proto) == 'S' && c.npay >= 5) { c.npay = 5; one(&c); }
      else if (toupper((unsigned char)c.proto) == 'T' && c.npay >= 1) one_raw(&c); }
  } else {
    int nrandom = h_argi(argc, argv, 1, 1000); uint64_t seed = (uint64_t)h_argi(argc, argv, 2, 1);
    c07_shard = h_argi(argc, argv, 3, 0); c07_nshards = h_argi(argc, argv, 4, 1); c07_thorough = nrandom > 50000;
    enumerate();
    enumerate2();
    enumerate_real();
    randoms(nrandom, seed);
    enumerate_t();
    randoms_t(c07_thorough ? nrandom / 6 : nrandom / 3, seed);
  }
  c07_fini();
  return 0;
}
