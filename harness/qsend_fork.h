/* Force-included (-include) when qmail.c is compiled for the daemon harness qsend.c in its REAL-qmail.c mode
 * (-DQSEND_REAL_QMAIL).  The source file itself is unmodified; like `-Dmain=<inst>_main` this only redirects one libc
 * entry point: fork() becomes a setjmp in the caller's frame (qmail_open(), which stays live), so that the child branch of
 * qmail_open() -- close / fd_move / chdir / execv -- runs on a copy of the parent's descriptor table as a second simulated
 * process; execv() (defined in qsend.c) turns that process into a qsim thread running the real qmail-queue main and resumes
 * the parent at the fork point with the child's pid.  pipe(), execv() and waitpid() are ordinary functions in qsend.c. */
#ifndef QSEND_FORK_H
#define QSEND_FORK_H
#include <sys/types.h>
#include <unistd.h>
#include <setjmp.h>
extern jmp_buf *qsend_fork_prepare(void);   /* creates the child process record (descriptors inherited), returns its exit jmp_buf */
extern int qsend_fork_child(void);          /* switch to the child; returns 0 */
extern int qsend_fork_parent(void);         /* the child has exec'ed (or exited before exec): back in the parent; returns the child's pid */
#define fork() (setjmp(*qsend_fork_prepare()) == 0 ? qsend_fork_child() : qsend_fork_parent())
#endif
