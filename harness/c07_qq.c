/* C07 stand-in for qmail-queue (run through QMAILQUEUE by the real qmail.c: real fork/execv/pipes).
 * Reads the message on fd 0 to EOF, then the envelope on fd 1 to EOF (the order qmail-queue uses),
 * appends one record  'R' u32 n0 <fd0 bytes> u32 n1 <fd1 bytes>  to the inherited descriptor 100,
 * writes the scripted custom error text to fd 6 and exits with the scripted status (or kills itself).
 * Script: env C07_QQ = "exit,sig,hextext[;exit,sig,hextext...]"; the k-th run in a session uses entry k
 * (the last entry repeats).  Plain C, no sanitizer: built by checks/c07.py next to the harnesses. */
#include <stdio.h>
#include <stdlib.h>
#include <string.h>
#include <unistd.h>
#include <signal.h>
#include <stdint.h>

#define REC_FD 100

static unsigned char *slurp(int fd, uint32_t *n) {
  size_t cap = 1 << 16, len = 0; unsigned char *b = malloc(cap);
  for (;;) {
    if (len == cap) { cap *= 2; b = realloc(b, cap); }
    ssize_t r = read(fd, b + len, cap - len);
    if (r <= 0) break;
    len += r;
  }
  *n = (uint32_t)len; return b;
}

static void wr(int fd, const void *p, size_t n) {
  const char *c = p;
  while (n) { ssize_t w = write(fd, c, n); if (w <= 0) _exit(99); c += w; n -= w; }
}

int main(void) {
  uint32_t n0, n1;
  /* how many records are there already?  (index of this run within the session) */
  int idx = 0; off_t pos = 0;
  for (;;) {
    unsigned char h[5]; uint32_t a, b;
    if (pread(REC_FD, h, 5, pos) != 5 || h[0] != 'R') break;
    memcpy(&a, h + 1, 4);
    if (pread(REC_FD, &b, 4, pos + 5 + a) != 4) break;
    pos += 5 + a + 4 + b; idx++;
  }
  unsigned char *m = slurp(0, &n0);
  unsigned char *e = slurp(1, &n1);
  lseek(REC_FD, 0, SEEK_END);
  wr(REC_FD, "R", 1); wr(REC_FD, &n0, 4); wr(REC_FD, m, n0); wr(REC_FD, &n1, 4); wr(REC_FD, e, n1);

  const char *s = getenv("C07_QQ");
  int code = 0, sig = 0; const char *hex = "-";
  static char ent[4096];
  if (s) {
    const char *p = s;
    for (int k = 0; k < idx; k++) { const char *q = strchr(p, ';'); if (!q) break; p = q + 1; }
    size_t l = strcspn(p, ";"); if (l >= sizeof ent) l = sizeof ent - 1;
    memcpy(ent, p, l); ent[l] = 0;
    char *c1 = strchr(ent, ','); char *c2 = c1 ? strchr(c1 + 1, ',') : 0;
    code = atoi(ent); if (c1) sig = atoi(c1 + 1); if (c2) hex = c2 + 1;
  }
  if (hex[0] != '-') {   /* one write: atomic on a pipe, so the reader sees all of it or (if it is gone) none */
    static unsigned char tb[2048]; size_t tn = 0;
    for (const char *h = hex; h[0] && h[1] && tn < sizeof tb; h += 2) { unsigned v; sscanf(h, "%2x", &v); tb[tn++] = (unsigned char)v; }
    if (tn && write(6, tb, tn) < 0) { /* reader gone: nothing to report to */ }
  }
  if (sig) {   /* the disposition may be inherited as 'ignored' (nohup, a background job of a non-interactive shell): die by it all the same */
    sigset_t all; signal(sig, SIG_DFL); sigfillset(&all); sigprocmask(SIG_UNBLOCK, &all, 0);
    kill(getpid(), sig); pause();
  }
  _exit(code);
}
