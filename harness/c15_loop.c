/* C15 (promptness of the sleep): the real main() loop of qmail-send (and the real qmail-clean) under qsim with a
 * DISCRETE-EVENT virtual clock.  The daemon's select() is the only place where time passes: if a descriptor is ready
 * the call returns at once, otherwise the clock jumps to the earlier of (a) the time the daemon asked to be woken
 * (clock + tv_sec) and (b) the next external event (a delivery report becoming available, a message arriving, a
 * signal, the end of the scenario).  Deliveries take scripted virtual durations, so they can stay in flight for
 * a long time: a channel can sit in the middle of a pass with every delivery slot taken while entries on the other
 * channel's heap, on its own heap, in pqdone (bounce injection failed) or in pqfail (stat failed at start-up) become
 * due - with no other wake-up source than the timeout the daemon computed itself.
 *
 * At every select() the globals the select preparation was computed from are read (read-only; kept global by
 * checks/c15.py: LOOP_GLOBALS) and printed with the timeout the real code passed and the clock at which select
 * returned.  The driver (lean/Drv/C15.lean) evaluates the promptness predicate of theorem C15_sleep_prompt on these
 * values (ORACLE: "slept through a due time") and compares the timeout with Nq.SelPrep.timeout (DISAGREE).
 *
 * usage: c15_loop <nscen> <seed> <shard> <nshards>   |   c15_loop -   (lines "W <scenario>" on stdin, others ignored)
 *
 * scenario = fields separated by '/' (no blanks), T0 = 1000000000 (the clock at start):
 *   cl=<n> cr=<n>          control/concurrencylocal, concurrencyremote
 *   sl=<n> sr=<n>          the byte each spawner announces
 *   life=<n>               control/queuelifetime
 *   end=<s>                at T0+s the (last) daemon gets TERM and every report still owed is released
 *   term=<s>,<s>           clean stops: the 1st, 2nd.. incarnation gets TERM at T0+s (at its first select if that time has passed);
 *                          deliveries in flight go on and report when their duration is over (the daemon waits for them:
 *                          del_canexit); when it has exited 0 a new daemon is started on the same queue
 *   down=<s>               the clock advances by s between a clean exit and the restart
 *   out=<letters>          outcome of the k-th delivery attempt (in order of start, cyclic): K, Z or D
 *   dur=<s>,<s>,...        virtual duration of the k-th delivery attempt (cyclic)
 *   bf=<digits>            per bounce injection: 1 = qmail-queue fails (messdone puts the message back into pqdone)
 *   sig=<s>A,<s>A          SIGALRM at T0+s
 *   sf=<n>                 the n-th stat() of the start-up scan (pqstart/pqadd: info, todo, local, remote per message)
 *                          fails with EIO (-> pqfail); found by a pre-run of the same scenario
 *   uf=<n> tf=<n>          the n-th unlink() / utimes() call of the daemon (counted over the whole scenario, all incarnations) fails
 *                          with EIO: job_close's unlink of a finished channel file (-> back into pqchan at now+SLEEP_SYSFAIL),
 *                          messdone's unlink of info/<id> (-> pqdone at now+SLEEP_SYSFAIL), injectbounce's unlink of bounce/<id>;
 *                          pqfinish's / pass_finish's utimes at exit (-> the file keeps its mtime: "retried too soon")
 *   m=<msg>;<msg>;...      p<nl>.<nr>.<age>.<due0>.<due1>  in the queue at start: nl local / nr remote recipients, info mtime
 *                                                          T0-age, local/<id> mtime T0+due0, remote/<id> mtime T0+due1
 *                          a<nl>.<nr>.<at>                 arrives in todo/ (trigger pulled) at T0+at
 *
 * output: one line per scenario:  W <scenario> <records separated by ';'>
 *   s:<recent>:<exit>:<c0>:<c1>:<freejobs>:<pqfail>:<pqdone>:<tododir>:<nexttodorun>:<flagcleanup>:<cleanuptime>:<timeout>:<tafter>:<nready>[*<count>]
 *        c<k> = <spawnalive>,<commpending>,<used>,<concurrency>,<passopen>,<pqmin|->  ("-" = empty heap); times absolute
 *   c:<t>:<chan>:<id>:<delnum>:<attempt>:<retry>:<dying>:<recip>   delivery command seen; retry / dying = jo[j].retry / flagdying of its job
 *   r:<t>:<chan>:<id>:<letter>:<attempt>   report released
 *   n:<t>:<id>   message arrived          b:<t>:<ok|fail>   bounce injection     g:<t>:<sig>   signal     f:<callno>   injected stat fault
 *   F:<t>:<call>:<path>   injected failure of unlink / utimes on that file (path relative to the queue directory)
 *   i:<t>:<n>    the n-th daemon process starts on the queue (n >= 2: restart)
 *   q:<id>:<birth>   a message in the queue at start (mtime of info/<id>)
 *   x:<exitcode>:<crashed>:<clock>:<pass0>:<pass1>   end of a daemon; pass<c> = pass[c].id when it exited (a pass cut short by TERM)
 *   x:abort = select budget exhausted (the daemon spins or never stops)
 */
#define _GNU_SOURCE
#include "sim.h"
#include "auto_split.h"
#include <signal.h>
#include <stdarg.h>
#include <limits.h>
#include "qmail.h"
#include "datetime.h"
#include "prioq.h"
#include "stralloc.h"
#include "seek.h"
#include "substdio.h"
SIM_INSTANCE(qs)
SIM_INSTANCE(qc)

/* mirrors of the file-local struct types of qmail-send.c (only `id` / `refs` and the array strides are used) */
struct l_pass { unsigned long id; int j; int fd; seek_pos mpos; substdio ss; char buf[128]; };
struct l_job { int refs; unsigned long id; int channel; datetime_sec retry; stralloc sender; int numtodo; int flaghiteof; int flagdying; };
struct l_del { int used; int j; unsigned long delid; seek_pos mpos; stralloc recip; };
extern struct l_del *d[2];
extern int flagexitasap, flagspawnalive[2], flagcleanup, numjobs;
extern datetime_sec recent, nexttodorun, cleanuptime;
extern struct l_pass pass[2];
extern struct l_job *jo;
extern prioq pqdone, pqchan[2], pqfail;
extern stralloc comm_buf[2];
extern unsigned int concurrency[2], concurrencyused[2];
extern DIR *tododir;

#define QROOT "/var/qmail/queue"
#define T0 1000000000L
#define MAXSEL 6000

typedef struct { char kind; int n[2]; long age, due[2], at; int created; } lmsg;
typedef struct {
  int cl, cr, sl, sr; long life, end;
  int nmsg; lmsg msg[8];
  char out[48]; int ndur; long dur[48];
  char bf[24];
  int nsig; struct { long at; int done; } sig[4];
  int sf, uf, tf;
  int nterm; long term[4]; long down;
  char text[1400];
} lscen;
static lscen S;
static int prerun_world;                /* world_init() for the pre-run: no records */

static hbuf ev;                         /* records of this scenario */
static char lastrec[600]; static int lastcount;
static void flush_rec(void) {
  if (!lastcount) return;
  if (ev.n) hbuf_add(&ev, ";", 1);
  hbuf_add(&ev, lastrec, strlen(lastrec));
  if (lastcount > 1) { char b[24]; int n = snprintf(b, sizeof b, "*%d", lastcount); hbuf_add(&ev, b, n); }
  lastcount = 0;
}
static void rec(int mergeable, const char *fmt, ...) {
  char b[600]; va_list ap; va_start(ap, fmt); vsnprintf(b, sizeof b, fmt, ap); va_end(ap);
  if (mergeable && lastcount && !strcmp(b, lastrec)) { lastcount++; return; }
  flush_rec();
  strcpy(lastrec, b); lastcount = 1;
  if (!mergeable) flush_rec();
}

/* ---- spawner emulation: every delivery takes a scripted virtual duration ---- */
typedef struct { int chan, delnum, attempt, sent; char outcome; long start, rep; unsigned long id; char recip[80]; } lpend;
#define MAXPEND 2048
static lpend pend[MAXPEND]; static int npend, nattempt, nselect, nbounce, flushing, prerun, term_sent;
static long term_time; static int term_final;      /* when this incarnation gets TERM; final: release every report then */
static size_t cmdpos[2];
static int sinkid[2], srcid[2];

static void parse_commands(void) {
  for (int c = 0; c < 2; c++) {
    hbuf *b = &W.sink[sinkid[c]];
    for (;;) {
      size_t p = cmdpos[c];
      if (p >= b->n) break;
      size_t q = p + 1; int nul = 0; size_t f[3] = { 0, 0, 0 };      /* delnum, messid\0, sender\0, recip\0 */
      while (q < b->n && nul < 3) { if (!b->p[q]) f[nul++] = q; q++; }
      if (nul < 3) break;
      if (npend >= MAXPEND) break;
      lpend *e = &pend[npend++];
      e->chan = c; e->delnum = b->p[p]; e->attempt = nattempt++; e->sent = 0;
      e->outcome = S.out[0] ? S.out[e->attempt % strlen(S.out)] : 'K';
      e->start = W.clock; e->rep = W.clock + (flushing || !S.ndur ? 0 : S.dur[e->attempt % S.ndur]);
      { const char *mi = (char *)b->p + p + 1, *sl = strrchr(mi, '/'); e->id = strtoul(sl ? sl + 1 : mi, 0, 10); }   /* "<split>/<id>" */
      snprintf(e->recip, sizeof e->recip, "%s", (char *)b->p + f[1] + 1);
      { long retry = 0; int dying = 0;
        if (d[c] && e->delnum >= 0 && (unsigned)e->delnum < concurrency[c] && d[c][e->delnum].used && jo) { struct l_job *jb = &jo[d[c][e->delnum].j]; retry = (long)jb->retry; dying = jb->flagdying ? 1 : 0; }
        rec(0, "c:%ld:%d:%lu:%d:%d:%ld:%d:%s", W.clock, c, e->id, e->delnum, e->attempt, retry, dying, e->recip); }
      cmdpos[c] = f[2] + 1;
    }
  }
}
static void send_report(lpend *e) {
  unsigned char r[200]; size_t n = 0;
  char L = (e->outcome == 'K' || e->outcome == 'D') ? e->outcome : 'Z';
  r[n++] = e->delnum;
  n += sprintf((char *)r + n, "%c%s %s\n", L, L == 'K' ? "delivered to" : L == 'D' ? "no mailbox" : "deferred for", e->recip) + 1;
  hbuf_add(&W.src[srcid[e->chan]].data, r, n);
  rec(0, "r:%ld:%d:%lu:%c:%d", W.clock, e->chan, e->id, L, e->attempt);
  e->sent = 1;
}

/* ---- queue contents ---- */
static int envelope(unsigned char *env, int idx, lmsg *m, int which /* -1 all, else one channel */, int with_head) {
  size_t n = 0;
  if (with_head) { n += sprintf((char *)env + n, "u1000") + 1; n += sprintf((char *)env + n, "p4242") + 1;
                   env[n++] = 'F'; n += sprintf((char *)env + n, "s@src.example") + 1; }
  for (int c = 0; c < 2; c++) if (which < 0 || which == c)
    for (int i = 0; i < m->n[c]; i++) { env[n++] = 'T'; n += sprintf((char *)env + n, c ? "r%dm%d@far.example" : "u%dm%d@h.example", i, idx) + 1; }
  return (int)n;
}
static void arrive(lmsg *m, int idx) {                 /* what qmail-queue leaves behind, then the trigger is pulled */
  char body[120]; int bl = snprintf(body, sizeof body, "Subject: m%d\n\nbody of message %d\n", idx, idx);
  int ino = sim_mkfile_ino(QROOT "/mess/%d/%d", auto_split, body, bl, 7794, 0644);
  static unsigned char env[4096]; int n = envelope(env, idx, m, -1, 1);
  char p1[100], p2[100]; snprintf(p1, sizeof p1, QROOT "/intd/%d", ino); snprintf(p2, sizeof p2, QROOT "/todo/%d", ino);
  sim_mkfile(p1, env, n, 7794, 0644); sim_link_(p1, p2);
  W.ino[ino].atime = W.ino[ino].mtime = W.clock;
  m->created = ino;
  rec(0, "n:%ld:%d", W.clock, ino);
  int f = sim_lookup(QROOT "/lock/trigger");
  if (f >= 0 && W.ino[f].readers > 0) W.ino[f].buffered++;
}
static void preload(lmsg *m, int idx) {                /* a message the daemon has already worked on: info + channel files */
  char body[120]; int bl = snprintf(body, sizeof body, "Subject: m%d\n\nbody of message %d\n", idx, idx);
  int ino = sim_mkfile_ino(QROOT "/mess/%d/%d", auto_split, body, bl, 7794, 0644);
  W.ino[ino].atime = W.ino[ino].mtime = T0 - m->age;
  char p[120]; static unsigned char env[4096];
  snprintf(p, sizeof p, QROOT "/info/%d/%d", ino % auto_split, ino);
  int n = sprintf((char *)env, "Fs@src.example") + 1;
  int fi = sim_mkfile(p, env, n, 7796, 0600); W.ino[fi].atime = W.ino[fi].mtime = T0 - m->age;
  for (int c = 0; c < 2; c++) if (m->n[c]) {
    snprintf(p, sizeof p, QROOT "/%s/%d/%d", c ? "remote" : "local", ino % auto_split, ino);
    n = envelope(env, idx, m, c, 0);
    int fc = sim_mkfile(p, env, n, 7796, 0600); W.ino[fc].atime = W.ino[fc].mtime = T0 + m->due[c];
  }
  m->created = ino;
  if (!prerun_world) rec(0, "q:%d:%ld", ino, T0 - m->age);
}

/* ---- injected unlink()/utimes() failures by call index (sim_gate_hook: runs before the fault table is consulted) ---- */
static int nunlink, nutimes, fault_watch; static long fault_t;
static void harvest_fault(void) {
  if (!fault_watch) return;
  fault_watch = 0; sim_trace_on = 0;
  char *s = (char *)sim_trace.p; size_t n = sim_trace.n, i = 0;
  while (i < n) {
    size_t j = i; while (j < n && s[j] != '\n') j++;
    char line[300]; size_t l = j - i < sizeof line - 1 ? j - i : sizeof line - 1; memcpy(line, s + i, l); line[l] = 0; i = j + 1;
    int k; char what[32], arg[200];
    if (strstr(line, "FAULT") && sscanf(line, "P0 #%d %31s %199s", &k, what, arg) == 3) rec(0, "F:%ld:%s:%s", fault_t, what, arg);
  }
  sim_trace.n = 0;
}
static void loop_gate(simproc *p, const char *what) {
  if (fault_watch) harvest_fault();
  if (p->idx != 0 || prerun) return;
  int hit = 0;
  if (!strcmp(what, "unlink")) { if (++nunlink == S.uf) hit = 1; }
  else if (!strcmp(what, "utimes")) { if (++nutimes == S.tf) hit = 1; }
  if (hit && sim_nfaults < 8) {
    sim_faults[sim_nfaults].proc = 0; sim_faults[sim_nfaults].callno = p->ncalls; sim_faults[sim_nfaults].err = EIO; sim_nfaults++;
    sim_trace_on = 1; sim_trace.n = 0; fault_watch = 1; fault_t = W.clock;
  }
}

/* ---- the daemon's select: discrete-event clock + snapshot ---- */
static void fmt_min(char *o, size_t n, prioq *q) { if (q->p && q->len) snprintf(o, n, "%ld", (long)q->p[0].dt); else snprintf(o, n, "-"); }

static void fire(simproc *p) {                         /* external events whose time has come */
  if (!term_sent && W.clock >= term_time) {
    term_sent = 1; if (term_final) flushing = 1;
    rec(0, "g:%ld:T", W.clock);
    sim_deliver_signal(p, SIGTERM);
  }
  for (int i = 0; i < S.nsig; i++) if (!S.sig[i].done && W.clock >= T0 + S.sig[i].at) { S.sig[i].done = 1; rec(0, "g:%ld:A", W.clock); sim_deliver_signal(p, SIGALRM); }
  for (int i = 0; i < S.nmsg; i++) if (S.msg[i].kind == 'a' && !S.msg[i].created && W.clock >= T0 + S.msg[i].at) arrive(&S.msg[i], i);
  for (int i = 0; i < npend; i++) if (!pend[i].sent && (flushing || W.clock >= pend[i].rep)) send_report(&pend[i]);
}
static long next_event(void) {                         /* earliest external event strictly after the clock */
  long t = LONG_MAX;
  if (!term_sent && term_time < t) t = term_time;
  for (int i = 0; i < S.nsig; i++) if (!S.sig[i].done && T0 + S.sig[i].at < t) t = T0 + S.sig[i].at;
  for (int i = 0; i < S.nmsg; i++) if (S.msg[i].kind == 'a' && !S.msg[i].created && T0 + S.msg[i].at < t) t = T0 + S.msg[i].at;
  for (int i = 0; i < npend; i++) if (!pend[i].sent && pend[i].rep < t) t = pend[i].rep;
  return t;
}
static int ready(simproc *p, int nfds, fd_set *r, fd_set *w, fd_set *ro, fd_set *wo) {
  int n = 0; FD_ZERO(ro); FD_ZERO(wo);
  for (int fd = 0; fd < nfds && fd < SIM_MAXFD; fd++) {
    simfd *f = &p->fd[fd];
    if (r && FD_ISSET(fd, r)) {
      int ok = 0;
      if (f->kind == SFD_FIFO_R) ok = W.ino[f->ino].buffered > 0;
      else if (f->kind == SFD_SOURCE) ok = W.src[f->aux].pos < W.src[f->aux].data.n || W.src[f->aux].closed;
      else if (f->kind == SFD_PIPE_R) ok = W.pipe[f->aux].data.n > 0 || W.pipe[f->aux].wclosed;
      if (ok) { FD_SET(fd, ro); n++; }
    }
    if (w && FD_ISSET(fd, w) && f->kind != SFD_FREE) { FD_SET(fd, wo); n++; }
  }
  return n;
}

static int loop_select(simproc *p, int nfds, fd_set *r, fd_set *w, struct timeval *tv) {
  if (p->idx != 0) return 0;
  nselect++;
  if (prerun) { p->exitcode = -97; sim_crash_before = W.ncalls_total + 1; return 0; }
  parse_commands();
  /* the state the select preparation was computed from (nothing below touches the daemon's globals except a signal handler) */
  char snap[400]; size_t n = 0; char m[32];
  n += snprintf(snap + n, sizeof snap - n, "s:%ld:%d", (long)recent, flagexitasap ? 1 : 0);
  for (int c = 0; c < 2; c++) {
    fmt_min(m, sizeof m, &pqchan[c]);
    n += snprintf(snap + n, sizeof snap - n, ":%d,%d,%u,%u,%d,%s", flagspawnalive[c] ? 1 : 0, (comm_buf[c].s && comm_buf[c].len) ? 1 : 0,
                  concurrencyused[c], concurrency[c], pass[c].id ? 1 : 0, m);
  }
  int freejobs = 0; for (int j = 0; j < numjobs; j++) if (!jo[j].refs) freejobs++;
  n += snprintf(snap + n, sizeof snap - n, ":%d", freejobs);
  fmt_min(m, sizeof m, &pqfail); n += snprintf(snap + n, sizeof snap - n, ":%s", m);
  fmt_min(m, sizeof m, &pqdone); n += snprintf(snap + n, sizeof snap - n, ":%s", m);
  long tmo = tv ? (long)tv->tv_sec : -1;
  n += snprintf(snap + n, sizeof snap - n, ":%d:%ld:%d:%ld:%ld", tododir ? 1 : 0, (long)nexttodorun, flagcleanup ? 1 : 0, (long)cleanuptime, tmo);

  fire(p);
  fd_set ro, wo;
  int nr = ready(p, nfds, r, w, &ro, &wo);
  if (nr == 0 && tmo != 0) {
    long twake = tmo > 0 ? W.clock + tmo : LONG_MAX, tev = next_event();
    if (tev <= twake) { if (tev > W.clock) W.clock = tev; fire(p); nr = ready(p, nfds, r, w, &ro, &wo); }
    else W.clock = twake;
  }
  rec(1, "%s:%ld:%d", snap, W.clock, nr);
  if (nselect > MAXSEL) { rec(0, "x:abort"); p->exitcode = -98; sim_crash_before = W.ncalls_total + 1; }
  if (r) *r = ro; if (w) *w = wo;
  return nr;
}

/* ---- stand-in for qmail.c: a bounce injection is one event that succeeds or fails as scripted ---- */
int qmail_open(struct qmail *qq) { qq->flagerr = 0; qq->pid = 9000 + nbounce; qq->fdm = 1; return 0; }
unsigned long qmail_qp(struct qmail *qq) { return qq->pid; }
void qmail_fail(struct qmail *qq) { qq->flagerr = 1; }
void qmail_put(struct qmail *qq, char *s, size_t len) { (void)qq; (void)s; (void)len; }
void qmail_from(struct qmail *qq, char *s) { (void)qq; (void)s; }
void qmail_to(struct qmail *qq, char *s) { (void)qq; (void)s; }
char *qmail_close(struct qmail *qq) {
  int scripted = S.bf[0] ? S.bf[nbounce % strlen(S.bf)] == '1' : 0;
  nbounce++;
  int fail = scripted || qq->flagerr;
  rec(0, "b:%ld:%s", W.clock, fail ? "fail" : "ok");
  return fail ? "Zqq scripted failure (#4.3.0)" : "";
}

/* ---- world ---- */
static void ctl(const char *name, const char *val) { char p[120]; snprintf(p, sizeof p, "/var/qmail/control/%s", name); sim_mkfile(p, val, strlen(val), 0, 0644); }
static void world_init(void) {
  char b[100];
  sim_reset();
  sim_user("alias", 7790, 2108); sim_user("qmaild", 7791, 2108); sim_user("qmails", 7796, 2107); sim_user("qmailq", 7794, 2107);
  sim_user("qmailr", 7795, 2107); sim_user("qmaill", 7792, 2108); sim_user("qmailp", 7793, 2108);
  static const char *dirs[] = { "pid", "intd", "todo", "bounce", "lock", 0 };
  for (int i = 0; dirs[i]; i++) { snprintf(b, sizeof b, QROOT "/%s", dirs[i]); sim_mkdir_p(b, 7794, 0700); }
  static const char *sdirs[] = { "mess", "info", "local", "remote", 0 };
  for (int j = 0; sdirs[j]; j++) for (int i = 0; i < auto_split; i++) { snprintf(b, sizeof b, QROOT "/%s/%d", sdirs[j], i); sim_mkdir_p(b, 7794, 0700); }
  sim_mkdir_p("/var/qmail/control", 0, 0755);
  sim_mkfifo_(QROOT "/lock/trigger", 7796, 0622);
  sim_mkfile(QROOT "/lock/sendmutex", "", 0, 7796, 0600);
  ctl("me", "h.example\n"); ctl("locals", "h.example\n");
  snprintf(b, sizeof b, "%d\n", S.cl); ctl("concurrencylocal", b);
  snprintf(b, sizeof b, "%d\n", S.cr); ctl("concurrencyremote", b);
  snprintf(b, sizeof b, "%ld\n", S.life); ctl("queuelifetime", b);
  W.clock = T0;
  for (int i = 0; i < S.nmsg; i++) S.msg[i].created = 0;
  for (int i = 0; i < S.nsig; i++) S.sig[i].done = 0;
  for (int i = 0; i < S.nmsg; i++) if (S.msg[i].kind == 'p') preload(&S.msg[i], i);
}

static void run_daemon(void) {
  sim_globals_restore();
  npend = 0; nselect = 0; cmdpos[0] = cmdpos[1] = 0; flushing = 0; term_sent = 0;
  W.nsrc = 0; W.nsink = 0; W.npipe = 0;
  simproc *p0 = sim_proc(0, "qmail-send", 501, 7796, "/");
  simproc *p1 = sim_proc(1, "qmail-clean", 601, 7794, "/");
  sim_fd_sink(p0, 0);
  sinkid[0] = sim_fd_sink(p0, 1); sinkid[1] = sim_fd_sink(p0, 3);
  unsigned char sb0 = S.sl, sb1 = S.sr;
  srcid[0] = sim_fd_source(p0, 2, &sb0, 1, 0); srcid[1] = sim_fd_source(p0, 4, &sb1, 1, 0);
  int a = sim_pipe_new(), b = sim_pipe_new();
  sim_fd_pipe(p0, 5, a, 1); sim_fd_pipe(p1, 0, a, 0);
  sim_fd_pipe(p1, 1, b, 1); sim_fd_pipe(p0, 6, b, 0);
  sim_fd_sink(p1, 2);
  sim_threads = 1;
  sim_select_hook = loop_select; sim_sink_hook = 0; sim_gate_hook = (S.uf > 0 || S.tf > 0) ? loop_gate : 0;
  sim_spawn(p0, qs_main); sim_spawn(p1, qc_main);
  sim_run_all();
  sim_threads = 0;
}

static void run_scenario(void) {
  hbuf_reset(&ev); lastcount = 0;
  int faultcall = 0;
  if (S.sf > 0) {                       /* pre-run up to the first select: which calls of the start-up scan are stat()s? */
    prerun_world = 1; world_init(); prerun_world = 0;
    prerun = 1; sim_trace_on = 1; sim_trace.n = 0; term_time = LONG_MAX; term_final = 1;
    run_daemon();
    prerun = 0; sim_trace_on = 0;
    int calls[256], nc = 0;
    char *s = (char *)sim_trace.p; size_t n = sim_trace.n, i = 0;
    while (i < n) {
      size_t j = i; while (j < n && s[j] != '\n') j++;
      char line[300]; size_t l = j - i < sizeof line - 1 ? j - i : sizeof line - 1; memcpy(line, s + i, l); line[l] = 0; i = j + 1;
      int k; char arg[200];
      if (sscanf(line, "P0 #%d stat %199s", &k, arg) == 2 && nc < 256 &&
          (!strncmp(arg, "info/", 5) || !strncmp(arg, "todo/", 5) || !strncmp(arg, "local/", 6) || !strncmp(arg, "remote/", 7))) calls[nc++] = k;
    }
    sim_trace.n = 0;
    if (nc) faultcall = calls[(S.sf - 1) % nc];
  }
  world_init();
  sim_trace_on = 0;
  nattempt = 0; nbounce = 0; nunlink = 0; nutimes = 0; fault_watch = 0;
  if (faultcall) { sim_faults[0].proc = 0; sim_faults[0].callno = faultcall; sim_faults[0].err = EIO; sim_nfaults = 1; rec(0, "f:%d", faultcall); }
  for (int inc = 0; inc <= S.nterm; inc++) {
    term_final = inc == S.nterm;
    term_time = term_final ? T0 + S.end : T0 + S.term[inc];
    if (term_final && term_time < W.clock + 1) term_time = W.clock + 1;
    rec(0, "i:%ld:%d", W.clock, inc + 1);
    run_daemon();
    harvest_fault();
    sim_nfaults = 0;
    parse_commands();
    flush_rec();
    rec(0, "x:%d:%d:%ld:%lu:%lu", P[0].exitcode, P[0].crashed, W.clock, pass[0].id, pass[1].id);
    if (P[0].exitcode != 0 || P[0].crashed) break;
    W.clock += S.down;
  }
  flush_rec();
  fprintf(h_out, "W %s ", S.text);
  if (ev.n) fwrite(ev.p, 1, ev.n, h_out); else fputc('-', h_out);
  fputc('\n', h_out);
}

/* ---- scenario parsing ---- */
static int parse_scenario(const char *text) {
  memset(&S, 0, sizeof S); S.cl = 2; S.cr = 2; S.sl = 10; S.sr = 10; S.life = 604800; S.end = 2000;
  snprintf(S.text, sizeof S.text, "%s", text);
  char tmp[1400]; snprintf(tmp, sizeof tmp, "%s", S.text); char *save = 0;
  for (char *t = strtok_r(tmp, "/", &save); t; t = strtok_r(0, "/", &save)) {
    char *v = strchr(t, '='); if (!v) continue; *v++ = 0;
    if (!strcmp(t, "cl")) S.cl = atoi(v); else if (!strcmp(t, "cr")) S.cr = atoi(v);
    else if (!strcmp(t, "sl")) S.sl = atoi(v); else if (!strcmp(t, "sr")) S.sr = atoi(v);
    else if (!strcmp(t, "life")) S.life = atol(v); else if (!strcmp(t, "end")) S.end = atol(v);
    else if (!strcmp(t, "out")) snprintf(S.out, sizeof S.out, "%s", v);
    else if (!strcmp(t, "bf")) snprintf(S.bf, sizeof S.bf, "%s", v);
    else if (!strcmp(t, "sf")) S.sf = atoi(v);
    else if (!strcmp(t, "uf")) S.uf = atoi(v);
    else if (!strcmp(t, "tf")) S.tf = atoi(v);
    else if (!strcmp(t, "down")) { S.down = atol(v); if (S.down < 0) S.down = 0; if (S.down > 100000) S.down = 100000; }
    else if (!strcmp(t, "term")) { char *s2 = 0; for (char *u = strtok_r(v, ",", &s2); u && S.nterm < 4; u = strtok_r(0, ",", &s2)) { long x = atol(u); S.term[S.nterm++] = x < 0 ? 0 : x; } }
    else if (!strcmp(t, "dur")) { char *s2 = 0; for (char *u = strtok_r(v, ",", &s2); u && S.ndur < 48; u = strtok_r(0, ",", &s2)) { long x = atol(u); S.dur[S.ndur++] = x < 0 ? 0 : x; } }
    else if (!strcmp(t, "sig")) { char *s2 = 0; for (char *u = strtok_r(v, ",", &s2); u && S.nsig < 4; u = strtok_r(0, ",", &s2)) S.sig[S.nsig++].at = atol(u); }
    else if (!strcmp(t, "m")) {
      char *s2 = 0;
      for (char *u = strtok_r(v, ";", &s2); u && S.nmsg < 8; u = strtok_r(0, ";", &s2)) {
        lmsg *m = &S.msg[S.nmsg]; long x[5] = { 0, 0, 0, 0, 0 }; int nx = 0; char *s3 = 0;
        m->kind = u[0];
        if (m->kind != 'p' && m->kind != 'a') continue;
        for (char *f = strtok_r(u + 1, ".", &s3); f && nx < 5; f = strtok_r(0, ".", &s3)) x[nx++] = atol(f);
        if ((m->kind == 'p' && nx != 5) || (m->kind == 'a' && nx != 3)) continue;
        m->n[0] = x[0] < 0 ? 0 : x[0] > 40 ? 40 : (int)x[0]; m->n[1] = x[1] < 0 ? 0 : x[1] > 40 ? 40 : (int)x[1];
        if (m->n[0] + m->n[1] == 0) continue;
        if (m->kind == 'p') { m->age = x[2]; m->due[0] = x[3]; m->due[1] = x[4]; } else m->at = x[2] < 0 ? 0 : x[2];
        S.nmsg++;
      }
    }
  }
  if (S.cl < 0) S.cl = 0; if (S.cr < 0) S.cr = 0; if (S.cl > 120) S.cl = 120; if (S.cr > 120) S.cr = 120;
  if (S.sl < 0 || S.sl > 255) S.sl = 255; if (S.sr < 0 || S.sr > 255) S.sr = 255;
  if (S.end < 1) S.end = 1; if (S.end > 200000) S.end = 200000;
  return S.nmsg > 0;
}

/* ---- generation ----
 * One structured-random family.  Most scenarios have a "busy" channel X: small concurrency, a message with more recipients than
 * slots that is due at (or arrives near) the start, and long delivery durations, so that X sits mid-pass with all slots taken.
 * Around it, independently drawn: entries on the other channel and on X's own heap that become due at spread-out times, messages
 * that finish while a bounce injection fails (pqdone retry), a failing stat in the start-up scan (pqfail retry), later arrivals,
 * ALRM, short lifetimes, and (2/5) one or two clean stops (TERM at an arbitrary virtual time, restart on the same queue).  About a fifth of the scenarios have no busy channel (control: idle daemon, ordinary retries). */
static long pick_due(void) {
  switch (h_below(6)) { case 0: return -(long)h_below(50); case 1: return (long)h_below(130);
    case 2: return 100 + (long)h_below(400); case 3: return 380 + (long)h_below(60); default: return (long)h_below(2600); }
}
static long pick_long(void) { return h_below(4) == 0 ? 3000 + (long)h_below(3000) : 500 + (long)h_below(1600); }
static long pick_short(void) { static const long s[] = { 0, 0, 1, 2, 5, 30, 90 }; return s[h_below(7)]; }
static void gen_scenario(char *o, size_t osz) {
  size_t n = 0;
  int busy = h_below(5) ? (int)h_below(2) : -1;             /* the channel kept saturated, -1 = none */
  int both = busy >= 0 && h_below(8) == 0;                    /* both channels saturated */
  int conc[2];
  for (int c = 0; c < 2; c++) conc[c] = (c == busy || both) ? 1 + (int)h_below(3) : 1 + (int)h_below(6);
  int limit_by_spawner = h_below(3) == 0;                     /* the bound comes from the spawner's byte instead of the control file */
  n += snprintf(o + n, osz - n, "cl=%d/cr=%d/sl=%d/sr=%d", limit_by_spawner ? conc[0] + (int)h_below(5) : conc[0], limit_by_spawner ? conc[1] + (int)h_below(5) : conc[1],
                limit_by_spawner ? conc[0] : conc[0] + (int)h_below(200), limit_by_spawner ? conc[1] : conc[1] + (int)h_below(200));
  if (h_below(4) == 0) n += snprintf(o + n, osz - n, "/life=%ld", (long[]){ 0, 1, 150, 2000, 100000 }[h_below(5)]);
  n += snprintf(o + n, osz - n, "/end=%ld", h_below(3) ? 1000 + (long)h_below(1500) : 2500 + (long)h_below(1500));
  /* messages */
  n += snprintf(o + n, osz - n, "/m=");
  int nm = 0, nheavy = 0;
  for (int c = 0; c < 2; c++) if (c == busy || both) {         /* the heavy message(s): more recipients than slots */
    int nr = conc[c] + 1 + (int)h_below(4);
    if (h_below(4) == 0) n += snprintf(o + n, osz - n, "%sa%d.%d.%ld", nm ? ";" : "", c ? 0 : nr, c ? nr : 0, (long)h_below(40));
    else n += snprintf(o + n, osz - n, "%sp%d.%d.%ld.%ld.%ld", nm ? ";" : "", c ? 0 : nr, c ? nr : 0, (long)h_below(100000), -(long)h_below(60), -(long)h_below(60));
    nm++; nheavy += conc[c];
  }
  int nother = 1 + (int)h_below(4);
  for (int k = 0; k < nother && nm < 7; k++, nm++) {
    int kind = h_below(10);
    int nl = 0, nr = 0;
    if (kind < 5) { if (busy >= 0 && h_below(4)) { if (busy) nl = 1 + h_below(2); else nr = 1 + h_below(2); } else if (h_below(2)) nl = 1 + h_below(3); else nr = 1 + h_below(3); }
    else if (kind < 7) { nl = 1 + h_below(2); nr = 1 + h_below(2); }
    else { if (busy == 0 || (busy < 0 && h_below(2))) nl = 1 + h_below(2); else nr = 1 + h_below(2); }     /* on the busy channel's own heap */
    if (h_below(6) == 0) n += snprintf(o + n, osz - n, "%sa%d.%d.%ld", nm ? ";" : "", nl, nr, (long)h_below(2400));
    else n += snprintf(o + n, osz - n, "%sp%d.%d.%ld.%ld.%ld", nm ? ";" : "", nl, nr, h_below(3) ? (long)h_below(5000) : (long)h_below(700000), pick_due(), pick_due());
  }
  /* outcomes and durations: the first deliveries (normally those of the heavy message) are slow */
  char out[40]; int ol = 1 + h_below(10); for (int i = 0; i < ol; i++) out[i] = "ZZZKKD"[h_below(6)]; out[ol] = 0;
  n += snprintf(o + n, osz - n, "/out=%s/dur=", out);
  int nd = nheavy + 1 + (int)h_below(6);
  int lead = h_below(3) == 0 ? (int)h_below(3) : 0;          /* short deliveries that start before the slow ones */
  for (int i = 0; i < nd; i++) {
    long d = (i >= lead && i < lead + nheavy) ? (h_below(8) ? pick_long() : pick_short()) : (h_below(4) ? pick_short() : pick_long());
    n += snprintf(o + n, osz - n, "%s%ld", i ? "," : "", d);
  }
  if (h_below(3) == 0) n += snprintf(o + n, osz - n, "/bf=%s", (const char *[]){ "1", "10", "110", "01", "1110" }[h_below(5)]);
  if (h_below(5) == 0) n += snprintf(o + n, osz - n, "/sf=%d", 1 + (int)h_below(16));
  if (h_below(8) == 0) n += snprintf(o + n, osz - n, "/sig=%ldA", (long)h_below(2000));
  /* clean stops at arbitrary virtual times (often early, while the heavy pass is open), restart on the same queue */
  if (h_below(5) < 2) {
    long t1 = h_below(3) ? (long)h_below(400) : (long)h_below(2200);
    n += snprintf(o + n, osz - n, "/term=%ld", t1);
    if (h_below(3) == 0) n += snprintf(o + n, osz - n, ",%ld", t1 + 1 + (long)(h_below(2) ? h_below(300) : h_below(1500)));
    if (h_below(3) == 0) n += snprintf(o + n, osz - n, "/down=%ld", (long[]){ 1, 5, 300, 3000 }[h_below(4)]);
    if (h_below(2) == 0) n += snprintf(o + n, osz - n, "/tf=%d", 1 + (int)h_below(3));     /* a utimes of the exit sequence fails */
  }
  if (h_below(5) == 0) n += snprintf(o + n, osz - n, "/uf=%d", 1 + (int)h_below(5));       /* an unlink (job_close / messdone / injectbounce) fails */
}

int main(int argc, char **argv) {
  h_init_out();
  SIM_REGISTER(qs); SIM_REGISTER(qc); sim_globals_snapshot();
  sim_trace_on = 0;
  static char line[4000];
  if (argc > 1 && !strcmp(argv[1], "-")) {
    while (fgets(line, sizeof line, stdin)) {
      size_t l = strlen(line);
      while (l && (line[l - 1] == '\n' || line[l - 1] == ' ' || line[l - 1] == '\r')) line[--l] = 0;
      if (line[0] != 'W' || line[1] != ' ') continue;
      char *p = line + 2; while (*p == ' ') p++;
      char *e = strchr(p, ' '); if (e) *e = 0;
      if (parse_scenario(p)) run_scenario();
    }
    fflush(h_out); return 0;
  }
  int nscen = h_argi(argc, argv, 1, 100);
  uint64_t seed = (uint64_t)h_argi(argc, argv, 2, 1);
  int shard = h_argi(argc, argv, 3, 0), nshards = h_argi(argc, argv, 4, 1);
  for (int r = 0; r < nscen; r++) {
    if (r % nshards != shard) continue;
    h_seed(seed * 1000003ull + 1500000ull + r);
    gen_scenario(line, 1300);
    if (parse_scenario(line)) run_scenario();
  }
  fflush(h_out);
  return 0;
}
