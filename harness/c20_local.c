/* C20 harness: the two passes of qmail-local.c main() over the .qmail instructions (count the forward lines,
 * calloc(numforward + 1), then fill recips[]), on the real main(), in-process, under ASan+UBSan.
 *
 * usage: h_c20_local <workdir> <level> <nrandom> <seed> <shard> <nshards>
 *        h_c20_local <workdir> -        (cases "L <doit> <xbit> <content-hex>" on stdin)
 * output: L <doit> <xbit> <content> : <exit> <calloc_n> <nto> <count_forward> <inside>
 *   doit     0 = qmail-local -n (pass 2 prints "forward ..." instead of storing), 1 = real run: recips[] is filled and
 *            handed to mailforward(), whose qmail_to() calls are counted (qmail.o is replaced by hooks).  A content with a
 *            mbox / maildir / program line is not run with doit = 1 (c20_prog does that with the real binary).
 *   xbit     the .qmail file has its x bit set (flagforwardonly starts as 1)
 *   calloc_n first argument of the calloc() in main() (= pass 1's numforward + 1), -1 = never reached
 *   nto      number of qmail_to() calls (= stores of pass 2 that were handed on), count_forward = the program's own counter
 *   inside   1 = every pointer handed to qmail_to() points into cmds
 * The file is .qmail-x in a private home directory (so NUL bytes are possible); recips is a block of exactly
 * calloc_n pointers, so one store too many is a heap-buffer-overflow. */
#include "c20_death.h"
#include <fcntl.h>
#include <sys/stat.h>
#include <signal.h>

static long k_calloc_n; static void *k_calloc_p;
static void *h_calloc(size_t n, size_t sz) {
  k_calloc_n = (long)n;
  void *p = malloc(n * sz);
  if (p) memset(p, 0, n * sz);
  k_calloc_p = p;
  return p;
}
#define calloc(n, sz) h_calloc(n, sz)
#define _exit(x) h_exit(x)
#define main x_main
#include "qmail-local.c"
#undef main
#undef _exit
#undef calloc

extern int subgetoptind, subgetoptpos;

/* replaces strerr.a(strerr_die.o): the diagnostic is dropped, the exit code kept */
void strerr_warn(char *x1, char *x2, char *x3, char *x4, char *x5, char *x6, struct strerr *se) {}
void strerr_die(int e, char *x1, char *x2, char *x3, char *x4, char *x5, char *x6, struct strerr *se) { h_exit(e); }

/* replaces qmail.o */
static long k_nto; static int k_inside;
int qmail_open(struct qmail *qq) { return 0; }
unsigned long qmail_qp(struct qmail *qq) { return 1; }
void qmail_fail(struct qmail *qq) {}
void qmail_put(struct qmail *qq, char *s, int len) {}
void qmail_from(struct qmail *qq, char *s) {}
void qmail_to(struct qmail *qq, char *s) {
  ++k_nto;
  if (!(s >= cmds.s && s < cmds.s + cmds.len)) k_inside = 0;
}
char *qmail_close(struct qmail *qq) { return ""; }

static char g_dir[4096];
static uint64_t g_id; static int g_shard, g_nshards = 1, g_level = 1;
static int take(void) { uint64_t i = g_id++; if (!(i & 255)) alarm(300); return (int)(i % g_nshards) == g_shard; }
static hbuf g;
static void G(const char *s) { hbuf_add(&g, s, strlen(s)); }
static void Gc(int c, size_t n) { unsigned char ch = c; while (n--) hbuf_add(&g, &ch, 1); }

static int has_delivery(const unsigned char *p, size_t n) {
  int start = 1;
  for (size_t i = 0; i < n; i++) {
    if (start && (p[i] == '.' || p[i] == '/' || p[i] == '|')) return 1;
    start = p[i] == '\n';
  }
  return 0;
}

static void case_local(int doit, int xbit, const unsigned char *p, size_t n) {
  if (doit && has_delivery(p, n)) return;
  int fd = open(".qmail-x", O_WRONLY | O_CREAT | O_TRUNC, 0600);
  if (fd == -1) { perror(".qmail-x"); exit(2); }
  for (size_t o = 0; o < n;) { ssize_t w = write(fd, p + o, n - o); if (w <= 0) { perror("write"); exit(2); } o += w; }
  fchmod(fd, xbit ? 0700 : 0600);
  close(fd);
  {
    size_t l = 0;
    l += snprintf(c20_cur, sizeof c20_cur, "L %d %d ", doit, xbit);
    static const char d[] = "0123456789abcdef";
    if (!n) c20_cur[l++] = '-';
    for (size_t i = 0; i < n && l + 3 < sizeof c20_cur; i++) { c20_cur[l++] = d[p[i] >> 4]; c20_cur[l++] = d[p[i] & 15]; }
    c20_cur[l] = 0;
  }
  char *argv[12]; int argc = 0;
  argv[argc++] = "qmail-local"; if (!doit) argv[argc++] = "-n"; argv[argc++] = "--";
  argv[argc++] = "u"; argv[argc++] = g_dir; argv[argc++] = "u-x"; argv[argc++] = "-"; argv[argc++] = "x";
  argv[argc++] = "h.example"; argv[argc++] = "s@s.example"; argv[argc++] = "#"; argv[argc] = 0;
  /* everything main() leaves behind */
  subgetoptind = 1; subgetoptpos = 0;
  count_file = count_forward = count_program = 0; mailforward_qp = 0; flag99 = 0;
  k_calloc_n = -1; k_calloc_p = 0; k_nto = 0; k_inside = 1;
  lseek(0, 0, SEEK_SET);
  h_exitcode = -1; h_exit_armed = 1;
  if (!setjmp(h_jb)) x_main(argc, argv);
  h_exit_armed = 0;
  fprintf(h_out, "%s : %d %ld %ld %lu %d\n", c20_cur, h_exitcode, k_calloc_n, k_nto, count_forward, k_inside);
  c20_cur[0] = 0;
  free(k_calloc_p);
}
static void both(int xbit) {
  if (take()) { case_local(0, xbit, g.p, g.n); case_local(1, xbit, g.p, g.n); }
  hbuf_reset(&g);
}

/* the line shapes that make the two passes look at different bytes */
static const char *lines[] = { "", " ", "\t", " \t ", "#c", ".f", "/f/", "|p", "+list", "+list \t", "+lis", "+listx", "+", "&a@b", "&", "a@b", " a@b", "\ta", "a ", "& ", "-x",
                               "# ", " #", " .f", " |p", "\\", "\"q\"@d", "a b", "+ list" };
#define NLINES (sizeof lines / sizeof lines[0])
static void enum_lines(int depth, int maxdepth, int nl_last) {
  if (depth == maxdepth) { size_t keep = g.n; if (!nl_last && g.n) g.n--; if (take()) { case_local(0, 0, g.p, g.n); case_local(1, 0, g.p, g.n); case_local(0, 1, g.p, g.n); } g.n = keep; return; }
  for (unsigned i = 0; i < NLINES; i++) {
    size_t keep = g.n;
    G(lines[i]); G("\n");
    enum_lines(depth + 1, maxdepth, nl_last);
    g.n = keep;
  }
}
static void fixed_cases(void) {
  hbuf_reset(&g);
  both(0); both(1);
  for (int d = 1; d <= (g_level >= 2 ? 3 : 2); d++) for (int nl = 0; nl < 2; nl++) { hbuf_reset(&g); enum_lines(0, d, nl); }
  /* every first byte, alone and followed by an address, in first and in second position */
  for (int b = 0; b < 256; b++) for (int v = 0; v < 4; v++) {
    hbuf_reset(&g);
    if (v >= 2) G("a@b\n");
    Gc(b, 1); if (v & 1) G("x@y");
    G("\n");
    both(0);
  }
  /* many lines: the array grows with the count */
  static const int cnt[] = { 1, 2, 3, 7, 8, 9, 63, 64, 65, 1000, 20000 };
  for (unsigned i = 0; i < sizeof cnt / sizeof cnt[0]; i++) for (int v = 0; v < 5; v++) {
    hbuf_reset(&g);
    for (int k = 0; k < cnt[i]; k++) G(v == 0 ? "a@b\n" : v == 1 ? " \n" : v == 2 ? (k & 1 ? "#c\n" : "&a@b\n") : v == 3 ? "+x\n" : (k ? "\n" : "a\n"));
    both(0);
  }
  /* NUL bytes: a line that starts with NUL, NUL inside "+list", NUL after blanks */
  static const struct { const char *p; size_t n; } nul[] = { { "\0\n", 2 }, { "a\n\0\n", 4 }, { "a\n\0b\n", 5 }, { "+list\0x\n|p\n", 11 }, { "+lis\0t\n|p\n", 10 }, { "a\0 \n", 4 }, { " \0\n", 3 }, { "\0", 1 }, { "a\n \0 \nb\n", 9 } };
  for (unsigned i = 0; i < sizeof nul / sizeof nul[0]; i++) { hbuf_reset(&g); hbuf_add(&g, nul[i].p, nul[i].n); both(0); hbuf_add(&g, nul[i].p, nul[i].n); both(1); }
  /* long lines around slurpclose()'s 256-byte steps */
  for (int l = 250; l <= 260; l++) for (int v = 0; v < 3; v++) { hbuf_reset(&g); Gc(v == 0 ? 'a' : v == 1 ? ' ' : '#', l); G("\nb@c\n"); both(0); }
}
static void random_case(void) {
  int n = h_below(4) ? (int)h_below(8) : (int)h_below(60);
  hbuf_reset(&g);
  for (int i = 0; i < n; i++) {
    if (h_below(4)) G(lines[h_below(NLINES)]);
    else { int l = h_below(6); for (int j = 0; j < l; j++) Gc(h_below(3) ? " \t#./|+&a\0\\"[h_below(11)] : (int)h_below(256), 1); }
    if (i + 1 < n || h_below(4)) G("\n");
  }
  int x = !h_below(4);
  case_local(0, x, g.p, g.n); case_local(1, x, g.p, g.n);
  hbuf_reset(&g);
}

static size_t unhex(const char *h, unsigned char **o) {
  size_t n = 0, l = strlen(h);
  *o = malloc(l / 2 + 1);
  if (h[0] == '-') return 0;
  for (; h[0] && h[1]; h += 2) { unsigned v = 0; sscanf(h, "%2x", &v); (*o)[n++] = v; }
  return n;
}
static void on_alarm(int s) { if (h_out) { fprintf(h_out, "X %s timeout\n", c20_cur[0] ? c20_cur : "gen -"); fflush(h_out); } _exit(3); }

int main(int argc, char **argv) {
  h_init_out();
  if (argc < 3) { fprintf(stderr, "usage: %s <workdir> <level|-> <nrandom> <seed> <shard> <nshards>\n", argv[0]); return 2; }
  c20_install_death();
  signal(SIGALRM, on_alarm);
  /* stdin cases are read before fd 0 becomes the message */
  char **cases = 0; size_t ncases = 0;
  int from_stdin = !strcmp(argv[2], "-");
  if (from_stdin) {
    char *line = 0; size_t cap = 0;
    while (getline(&line, &cap, stdin) > 0) {
      if (line[0] != 'L' || line[1] != ' ') continue;
      cases = realloc(cases, (ncases + 1) * sizeof *cases); cases[ncases++] = strdup(line);
    }
    free(line);
  }
  mkdir(argv[1], 0700);
  snprintf(g_dir, sizeof g_dir, "%s/l%ld", argv[1], (long)getpid());
  mkdir(g_dir, 0700);
  if (chdir(g_dir) == -1) { perror(g_dir); return 2; }
  int mfd = open("msg", O_RDWR | O_CREAT | O_TRUNC, 0600);
  static const char msg[] = "From: a@b\nSubject: t\n\nbody\n";
  if (mfd == -1 || write(mfd, msg, sizeof msg - 1) < 0) { perror("msg"); return 2; }
  int nul = open("/dev/null", O_WRONLY);
  dup2(mfd, 0); dup2(nul, 1);
  if (from_stdin) {
    for (size_t i = 0; i < ncases; i++) {
      char *sv, *t = strtok_r(cases[i], " \r\n", &sv), *f[4]; int nf = 0;
      while (nf < 4 && (f[nf] = strtok_r(0, " \r\n", &sv))) nf++;
      if (!t || nf < 3) continue;
      unsigned char *a; size_t an = unhex(f[2], &a);
      alarm(300);
      case_local(atoi(f[0]), atoi(f[1]), a, an);
      free(a);
    }
  } else {
    g_level = h_argi(argc, argv, 2, 1);
    int nrandom = h_argi(argc, argv, 3, 1000);
    uint64_t seed = (uint64_t)h_argi(argc, argv, 4, 1);
    g_shard = h_argi(argc, argv, 5, 0); g_nshards = h_argi(argc, argv, 6, 1);
    if (g_nshards < 1) g_nshards = 1;
    fixed_cases();
    h_seed(seed * 1000003ull + g_shard);
    for (int r = 0; r < nrandom; r++) if (r % g_nshards == g_shard) { alarm(300); random_case(); }
  }
  fflush(h_out);
  alarm(0);
  unlink(".qmail-x"); unlink("msg");
  if (chdir("..") == 0) rmdir(strrchr(g_dir, '/') + 1);
  return 0;
}
