/* C20 harness: report() of qmail-rspawn.c (-DRSPAWN) / qmail-lspawn.c (-DLSPAWN) on hostile child output.
 * The child's output is a length-counted buffer: it is handed over in a malloc'ed block of EXACTLY len bytes, so a
 * read beyond it (the defect repaired by 9e1dfcc) aborts under ASan and is reported with its input.
 * usage: c20_report <maxlen> <nrandom> <seed> <shard> <nshards>   |   c20_report -   (cases "R <l|r> <wstat> <out-hex>")
 * output: R <l|r> <wstat> <out-hex> : <report-hex>        X R <l|r> <wstat> <out-hex> sanitizer */
#include "c20_death.h"
#include <sys/types.h>
uid_t auto_uidq;
#ifdef RSPAWN
#define KIND 'r'
#include "qmail-rspawn.c"
#else
#define KIND 'l'
#include "qmail-lspawn.c"
#endif

static hbuf rep;
static ssize_t cap_write(int fd, const char *b, size_t n) { hbuf_add(&rep, b, n); return n; }

static void one(int wstat, const unsigned char *out, size_t n) {
  int o = snprintf(c20_cur, sizeof c20_cur, "R %c %d ", KIND, wstat);
  if (!n) c20_cur[o++] = '-';
  for (size_t i = 0; i < n && o + 3 < (int)sizeof c20_cur; i++) o += sprintf(c20_cur + o, "%02x", out[i]);
  c20_cur[o] = 0;
  char *x = malloc(n ? n : 1); memcpy(x, out, n);
  if (!n) __asan_poison_memory_region(x, 1);
  static char sbuf[64]; substdio ss; substdio_fdbuf(&ss, cap_write, 1, sbuf, sizeof sbuf);
  hbuf_reset(&rep);
  report(&ss, wstat, x, (int)n);
  substdio_flush(&ss);
  if (!n) __asan_unpoison_memory_region(x, 1);
  free(x);
  fprintf(h_out, "%s : ", c20_cur); h_hex(rep.p, rep.n); fputc('\n', h_out);
}

int main(int argc, char **argv) {
  h_init_out();
  c20_install_death();
  if (argc > 1 && !strcmp(argv[1], "-")) {
    static char line[400000], hx[400000]; static unsigned char b[200000]; char k; int w;
    while (fgets(line, sizeof line, stdin)) {
      if (sscanf(line, "R %c %d %s", &k, &w, hx) != 3 || k != KIND) continue;
      size_t n = 0;
      if (hx[0] != '-') for (char *h = hx; h[0] && h[1]; h += 2) { unsigned v; sscanf(h, "%2x", &v); b[n++] = v; }
      one(w, b, n);
    }
    fflush(h_out);
    return 0;
  }
  int maxlen = h_argi(argc, argv, 1, 5), nrandom = h_argi(argc, argv, 2, 1000);
  uint64_t seed = (uint64_t)h_argi(argc, argv, 3, 1);
  int shard = h_argi(argc, argv, 4, 0), nshards = h_argi(argc, argv, 5, 1);
  static const unsigned char alpha[8] = { 'r', 'h', 's', 'K', 'Z', 'D', 0, 'x' };
  static const int WS[] = { 0, 0, 0, 111 << 8, 100 << 8, 1 << 8, 9, 11, 71 << 8, 31 << 8, 255 << 8 };
  unsigned char m[16]; uint64_t id = 0;
  for (int len = 0; len <= maxlen; len++) {
    uint64_t total = 1; for (int i = 0; i < len; i++) total *= 8;
    for (uint64_t k = 0; k < total; k++, id++) {
      if ((int)(id % nshards) != shard) continue;
      uint64_t v = k; for (int i = 0; i < len; i++) { m[i] = alpha[v & 7]; v >>= 3; }
      one(0, m, len);
      if (k % 5 == 0) one(WS[k % 11], m, len);
    }
  }
  h_seed(seed * 1000003ull + shard);
  for (int r = 0; r < nrandom; r++) {
    if ((r % nshards) != shard) continue;
    size_t n = h_below(4) ? h_below(60) : h_below(5000);
    unsigned char *b = malloc(n + 1);
    for (size_t i = 0; i < n; i++) { uint32_t x = h_below(12); b[i] = x < 8 ? alpha[x] : x < 10 ? '\n' : (unsigned char)h_rand(); }
    if (n && h_below(2)) b[0] = "rhs"[h_below(3)];
    one(WS[h_below(11)], b, n);
    free(b);
  }
  fflush(h_out);
  return 0;
}
