/* C13 correspondence harness: the real qmail-local.c main() (H2, in-process), run in real temporary
 * home directories with generated .qmail files.
 *
 * usage: c13_local <level> <nrandom> <seed> <shard> <nshards>   |   c13_local -   (cases "<doit> <blob>" on stdin)
 *
 * case blob (no blanks): homemode,qq,dash,ext,host,local,sender,aliasempty,msg,files
 *   homemode  octal st_mode bits of the home directory, or "x" = stat(".") fails with EIO
 *   qq        0: qmail-queue accepts the forwarded copy, 1: permanent refusal ("D..."), 2: temporary ("Z...")
 *   dash..msg lower-case hex, "-" = empty
 *   files     ';'-separated  namehex:kind:modeoctal:contenthex   ("-" = no files); kind
 *             f regular file, d directory, m maildir (tmp/new/cur), T open/stat fail with EIO, A with EACCES
 * output per case:
 *   <doit> <blob> <exit> <stdout-hex> <stderr-hex> <opened> <events> <env> <stats> <files>
 *   opened    names given to open_read(), in order, hex, comma separated
 *   events    doit mode, in order: M<fn> open_append(fn) (mbox), D<dir> chdir(dir) in the maildir child,
 *             P<cmd> execv("/bin/sh","-c",cmd) in the program child, Q<sender>:<body>:<rcpt>:<rcpt>... forwarded copy
 *   env       DEFAULT,NEWSENDER,DTLINE,RPLINE,UFLINE,EXT2,EXT3,EXT4,HOST2,HOST3,HOST4,RECIPIENT  (hex, "!" = unset)
 *   stats     names given to stat() by the program itself (not "."), in order, hex, comma separated ("-" = none)
 *   files     post-run scan of the home directory: every regular file that the case description does not list (hex of
 *             the path relative to the home; a file inside a directory called tmp/new/cur is reported as <dir>/ followed by '*')
 *             and every listed regular file whose size or content changed ('~' + hex name); sorted; "-" = none
 *   aux       <now>:<user hex>:<home hex>:<inherited>   values the harness derives from the blob (hash): the clock the program
 *             sees (time() is scripted), argv[1], the home path, and the environment the program is started with
 *             (';'-separated hex of NAME=value, "-" = empty)
 *   fenv      the whole `environ` of the main process after the run (hex of NAME=value, comma separated, "-" = empty)
 *   cenv      the whole `environ` of the first command child at its execv("/bin/sh") ("-" = no command was run)
 * A case whose home directory cannot be realised as described prints "<doit> <blob> SKIP".
 */
#include "hcommon.h"
#include <sys/stat.h>
#include <sys/wait.h>
#include <fcntl.h>
#include <errno.h>
#include <dirent.h>
#include <signal.h>
#include <time.h>

static pid_t k_mainpid;
static time_t k_now;
static int k_nfork;
static time_t c13_time(time_t *p) { if (p) *p = k_now; return k_now; }
static pid_t c13_fork(void) { k_nfork++; return fork(); }
static jmp_buf k_jb;
static int k_exitcode;
static int k_evpipe[2];
static hbuf k_out, k_err, k_opens, k_ev, k_stats, k_cenv;
static int k_cenv_done;

__attribute__((noreturn)) static void c13_exit(int c) {
  if (getpid() != k_mainpid) _exit(c);          /* a forked child really exits */
  k_exitcode = c; longjmp(k_jb, 1);
}
static void k_childevent(char kind, const char *s) {
  unsigned char b[4096]; size_t n = strlen(s); if (n > 4000) n = 4000;
  b[0] = kind; b[1] = n >> 8; b[2] = n & 255; memcpy(b + 3, s, n);
  if (write(k_evpipe[1], b, n + 3) < 0) {}
}
static int c13_stat(const char *p, struct stat *st);
static int c13_chdir(const char *p);
static int c13_execv(const char *path, char *const argv[]);

#define _exit(x) c13_exit(x)
#define stat(p, b) c13_stat(p, b)
#define chdir(p) c13_chdir(p)
#define execv(p, a) c13_execv(p, a)
#define time(p) c13_time(p)
#define fork() c13_fork()
#define main qmail_local_main
#include "qmail-local.c"
#undef main
#undef _exit
#undef stat
#undef chdir
#undef execv
#undef time
#undef fork

extern int subgetoptind, subgetoptpos;

/* ---------------------------------------------------------------- case description */
typedef struct { char name[600]; char kind; int mode; unsigned char content[1200]; int clen; } fent;
#define MSGCAP 20000
#define MAXF 24
typedef struct {
  int doit; char homemode[12]; int qq;
  char k_dash[64], k_ext[600], k_host[200], k_local[800], k_sender[300], k_alias[300];
  unsigned char msg[MSGCAP]; int msglen;
  fent f[MAXF]; int nf;
} kase;
static kase K;
static char k_base[200], k_home[256];

/* ---------------------------------------------------------------- interposed pieces */
static const fent *k_inject(const char *p) {
  for (int i = 0; i < K.nf; i++)
    if ((K.f[i].kind == 'T' || K.f[i].kind == 'A') && !strcmp(K.f[i].name, p)) return &K.f[i];
  return 0;
}
static void k_hexlist(hbuf *b, const void *s, size_t n) {
  static const char d[] = "0123456789abcdef"; const unsigned char *p = s;
  if (b->n) hbuf_add(b, ",", 1);
  if (!n) hbuf_add(b, "-", 1);
  for (size_t i = 0; i < n; i++) { char c[2] = { d[p[i] >> 4], d[p[i] & 15] }; hbuf_add(b, c, 2); }
}
static void k_hexraw(hbuf *b, const void *s, size_t n) {
  static const char d[] = "0123456789abcdef"; const unsigned char *p = s;
  if (!n) hbuf_add(b, "-", 1);
  for (size_t i = 0; i < n; i++) { char c[2] = { d[p[i] >> 4], d[p[i] & 15] }; hbuf_add(b, c, 2); }
}
static void k_event(char kind, const void *s, size_t n) {
  if (k_ev.n) hbuf_add(&k_ev, ",", 1);
  hbuf_add(&k_ev, &kind, 1); k_hexraw(&k_ev, s, n);
}
static void k_drain(void) {
  static unsigned char b[65536]; static size_t have = 0;
  for (;;) {
    ssize_t r = read(k_evpipe[0], b + have, sizeof b - have);
    if (r <= 0) break;
    have += r;
  }
  size_t pos = 0;
  while (have - pos >= 3) {
    size_t n = (b[pos + 1] << 8) | b[pos + 2];
    if (have - pos < 3 + n) break;
    if (b[pos] == 'E') { if (!k_cenv_done) k_hexlist(&k_cenv, b + pos + 3, n); }
    else { if (b[pos] == 'P' && k_cenv.n) k_cenv_done = 1; k_event(b[pos], b + pos + 3, n); }
    pos += 3 + n;
  }
  memmove(b, b + pos, have - pos); have -= pos;
}

/* replaces open.a(open_read.o): log the name; scripted failures */
int open_read(char *fn) {
  k_hexlist(&k_opens, fn, strlen(fn));
  const fent *e = k_inject(fn);
  if (e) { errno = e->kind == 'T' ? EIO : EACCES; return -1; }
  return open(fn, O_RDONLY | O_NDELAY);
}
/* replaces open.a(open_append.o): the mbox delivery is an observable event */
int open_append(char *fn) {
  k_drain();
  k_event('M', fn, strlen(fn));
  return open(fn, O_WRONLY | O_NDELAY | O_APPEND | O_CREAT, 0600);
}
static int c13_stat(const char *p, struct stat *st) {
  if (getpid() == k_mainpid && strcmp(p, ".")) k_hexlist(&k_stats, p, strlen(p));
  if (!strcmp(p, ".") && K.homemode[0] == 'x') { errno = EIO; return -1; }
  const fent *e = k_inject(p);
  if (e) { errno = e->kind == 'T' ? EIO : EACCES; return -1; }
  return stat(p, st);
}
static int c13_chdir(const char *p) {
  if (getpid() != k_mainpid) k_childevent('D', p);
  return chdir(p);
}
static int c13_execv(const char *path, char *const argv[]) {
  if (getpid() != k_mainpid) {
    /* the real environment of the real command child, as execv() hands it to /bin/sh (first two forks of a case only) */
    if (k_nfork <= 2) for (char **e = environ; *e; e++) k_childevent('E', *e);
    k_childevent('P', argv[2] ? argv[2] : "");
  }
  return execv(path, argv);
}

/* replaces strerr.a(strerr_die.o): capture the diagnostic */
void strerr_warn(char *x1, char *x2, char *x3, char *x4, char *x5, char *x6, struct strerr *se) {
  char *xs[6] = { x1, x2, x3, x4, x5, x6 };
  if (getpid() != k_mainpid) return;
  for (int i = 0; i < 6; i++) if (xs[i]) hbuf_add(&k_err, xs[i], strlen(xs[i]));
  while (se) {
    if (se->x) hbuf_add(&k_err, se->x, strlen(se->x));
    if (se->y) hbuf_add(&k_err, se->y, strlen(se->y));
    if (se->z) hbuf_add(&k_err, se->z, strlen(se->z));
    se = se->who;
  }
  hbuf_add(&k_err, "\n", 1);
}
void strerr_die(int e, char *x1, char *x2, char *x3, char *x4, char *x5, char *x6, struct strerr *se) {
  strerr_warn(x1, x2, x3, x4, x5, x6, se);
  c13_exit(e);
}

/* replaces substdio.a(subfdouts.o): capture stdout */
static ssize_t k_outwrite(int fd, const char *b, size_t n) { hbuf_add(&k_out, b, n); return n; }
char subfd_outbufsmall[256];
static substdio k_ss = SUBSTDIO_FDBUF(k_outwrite, 1, subfd_outbufsmall, 256);
substdio *subfdoutsmall = &k_ss;

/* replaces qmail.o: capture the forwarded copy */
static hbuf fw_body, fw_to, fw_from;
int qmail_open(struct qmail *qq) { qq->flagerr = 0; hbuf_reset(&fw_body); hbuf_reset(&fw_to); hbuf_reset(&fw_from); return 0; }
unsigned long qmail_qp(struct qmail *qq) { return 4242; }
void qmail_put(struct qmail *qq, char *s, size_t len) { hbuf_add(&fw_body, s, len); }
void qmail_fail(struct qmail *qq) { qq->flagerr = 1; }
void qmail_from(struct qmail *qq, char *s) { hbuf_add(&fw_from, s, strlen(s)); }
void qmail_to(struct qmail *qq, char *s) { hbuf_add(&fw_to, ":", 1); k_hexraw(&fw_to, s, strlen(s)); }
char *qmail_close(struct qmail *qq) {
  k_drain();
  if (k_ev.n) hbuf_add(&k_ev, ",", 1);
  hbuf_add(&k_ev, "Q", 1); k_hexraw(&k_ev, fw_from.p, fw_from.n);
  hbuf_add(&k_ev, ":", 1); k_hexraw(&k_ev, fw_body.p, fw_body.n);
  hbuf_add(&k_ev, fw_to.p, fw_to.n);
  if (qq->flagerr) return "Zqq read error (#4.3.0)";
  if (K.qq == 1) return "Dqq permanent problem (#5.3.0)";
  if (K.qq == 2) return "Zqq temporary problem (#4.3.0)";
  return "";
}

/* ---------------------------------------------------------------- home directory */
static void k_rmrf(const char *path) {
  DIR *d = opendir(path);
  if (d) {
    struct dirent *e; char p[1400];
    while ((e = readdir(d))) {
      if (!strcmp(e->d_name, ".") || !strcmp(e->d_name, "..")) continue;
      snprintf(p, sizeof p, "%s/%s", path, e->d_name);
      struct stat st;
      if (lstat(p, &st) == 0 && S_ISDIR(st.st_mode)) k_rmrf(p); else unlink(p);
    }
    closedir(d);
  }
  rmdir(path);
}
static int k_mkparents(char *p) {   /* p is absolute, below k_home */
  for (char *s = p + strlen(k_home) + 1; *s; s++)
    if (*s == '/') { *s = 0; int r = mkdir(p, 0700); *s = '/'; if (r == -1 && errno != EEXIST) return -1; }
  return 0;
}
/* returns 0 if the home was realised exactly as described */
static int k_setup(void) {
  umask(0);
  chmod(k_home, 0700); k_rmrf(k_home);
  if (mkdir(k_home, 0700) == -1) return -1;
  for (int i = 0; i < K.nf; i++) {
    fent *e = &K.f[i]; char p[1400]; struct stat st;
    if (e->kind == 'T' || e->kind == 'A') continue;
    if (!e->name[0] || e->name[0] == '/' || strstr(e->name, "..")) return -1;
    snprintf(p, sizeof p, "%s/%s", k_home, e->name);
    if (k_mkparents(p) == -1) return -1;
    if (e->kind == 'f') {
      int fd = open(p, O_WRONLY | O_CREAT | O_EXCL, 0600);
      if (fd == -1) return -1;
      if (e->clen && write(fd, e->content, e->clen) != e->clen) { close(fd); return -1; }
      if (fchmod(fd, e->mode) == -1) { close(fd); return -1; }
      close(fd);
      if (stat(p, &st) == -1 || !S_ISREG(st.st_mode) || (st.st_mode & 07777) != (e->mode & 07777)) return -1;
    } else if (e->kind == 'd' || e->kind == 'm') {
      if (mkdir(p, 0700) == -1) return -1;
      if (e->kind == 'm') {
        char q[1500];
        snprintf(q, sizeof q, "%s/tmp", p); if (mkdir(q, 0700) == -1) return -1;
        snprintf(q, sizeof q, "%s/new", p); if (mkdir(q, 0700) == -1) return -1;
        snprintf(q, sizeof q, "%s/cur", p); if (mkdir(q, 0700) == -1) return -1;
      }
    } else return -1;
  }
  /* a regular file must not also be the parent of another entry, nor listed twice */
  for (int i = 0; i < K.nf; i++) for (int j = 0; j < K.nf; j++) if (i != j) {
    size_t li = strlen(K.f[i].name);
    if (!strcmp(K.f[i].name, K.f[j].name)) return -1;
    if (!strncmp(K.f[i].name, K.f[j].name, li) && K.f[j].name[li] == '/' && K.f[i].kind != 'd' && K.f[i].kind != 'm') return -1;
  }
  if (K.homemode[0] != 'x') {
    char *end; long m = strtol(K.homemode, &end, 8);
    if (*end || m < 0 || m > 07777) return -1;
    if (chmod(k_home, m) == -1) return -1;
  }
  return 0;
}

/* post-run scan: files that were not there before, and listed files that changed */
#define MAXSCAN 64
static char k_scan[MAXSCAN][1500]; static int k_nscan;
static const fent *k_listed(const char *rel) {
  for (int i = 0; i < K.nf; i++) if (K.f[i].kind == 'f' && !strcmp(K.f[i].name, rel)) return &K.f[i];
  return 0;
}
static void k_scan_add(const char *pfx, const char *rel) {
  if (k_nscan >= MAXSCAN) return;
  static const char d[] = "0123456789abcdef"; char *o = k_scan[k_nscan++]; size_t n = 0;
  for (const char *c = pfx; *c; c++) o[n++] = *c;
  for (const unsigned char *c = (const unsigned char *)rel; *c && n < 1400; c++) { o[n++] = d[*c >> 4]; o[n++] = d[*c & 15]; }
  o[n] = 0;
}
static void k_scandir(const char *abs, const char *rel) {
  DIR *d = opendir(abs); if (!d) return;
  struct dirent *e; char p[1500], r[1500];
  const char *base = strrchr(rel, '/'); base = base ? base + 1 : rel;
  int spool = !strcmp(base, "tmp") || !strcmp(base, "new") || !strcmp(base, "cur");
  while ((e = readdir(d))) {
    if (!strcmp(e->d_name, ".") || !strcmp(e->d_name, "..")) continue;
    snprintf(p, sizeof p, "%s/%s", abs, e->d_name);
    snprintf(r, sizeof r, "%s%s%s", rel, *rel ? "/" : "", e->d_name);
    struct stat st;
    if (lstat(p, &st) == -1) continue;
    if (S_ISDIR(st.st_mode)) { k_scandir(p, r); continue; }
    const fent *f = k_listed(r);
    if (!f) {
      if (spool) { char q[1500]; snprintf(q, sizeof q, "%s/*", rel); k_scan_add("", q); } else k_scan_add("", r);
      continue;
    }
    int changed = st.st_size != f->clen;
    if (!changed && f->clen) {
      unsigned char b[1200]; int fd = open(p, O_RDONLY);
      if (fd == -1 || read(fd, b, f->clen) != f->clen || memcmp(b, f->content, f->clen)) changed = (fd != -1 || (f->mode & 0400));
      if (fd != -1) close(fd);
    }
    if (changed) k_scan_add("~", r);
  }
  closedir(d);
}
static int k_scancmp(const void *a, const void *b) { return strcmp((const char *)a, (const char *)b); }
static void k_postscan(void) {
  k_nscan = 0;
  chmod(k_home, 0700);
  k_scandir(k_home, "");
  qsort(k_scan, k_nscan, sizeof k_scan[0], k_scancmp);
}

/* ---------------------------------------------------------------- blob (de)serialisation */
static void put_hex(const void *s, size_t n) { h_hex(s, n); }
static void emit_blob(void) {
  fprintf(h_out, "%s,%d,", K.homemode, K.qq);
  put_hex(K.k_dash, strlen(K.k_dash)); fputc(',', h_out);
  put_hex(K.k_ext, strlen(K.k_ext)); fputc(',', h_out);
  put_hex(K.k_host, strlen(K.k_host)); fputc(',', h_out);
  put_hex(K.k_local, strlen(K.k_local)); fputc(',', h_out);
  put_hex(K.k_sender, strlen(K.k_sender)); fputc(',', h_out);
  put_hex(K.k_alias, strlen(K.k_alias)); fputc(',', h_out);
  put_hex(K.msg, K.msglen); fputc(',', h_out);
  if (!K.nf) fputc('-', h_out);
  for (int i = 0; i < K.nf; i++) {
    if (i) fputc(';', h_out);
    put_hex(K.f[i].name, strlen(K.f[i].name));
    fprintf(h_out, ":%c:%o:", K.f[i].kind, K.f[i].mode);
    put_hex(K.f[i].content, K.f[i].clen);
  }
}
static int unhexn(const char *h, size_t hl, unsigned char *o, size_t cap) {
  if (hl == 1 && h[0] == '-') return 0;
  if (hl % 2 || hl / 2 > cap) return -1;
  for (size_t i = 0; i < hl; i += 2) {
    unsigned v; char t[3] = { h[i], h[i + 1], 0 };
    if (sscanf(t, "%2x", &v) != 1) return -1;
    o[i / 2] = v;
  }
  return hl / 2;
}
static int unhex_cstr(const char *h, size_t hl, char *o, size_t cap) {
  int n = unhexn(h, hl, (unsigned char *)o, cap - 1);
  if (n < 0) return -1;
  o[n] = 0;
  return memchr(o, 0, n) ? -1 : 0;   /* arguments are C strings */
}
static int parse_blob(char *b) {
  char *fld[10]; int n = 0;
  for (char *s = b; n < 10; ) { fld[n++] = s; char *c = strchr(s, ','); if (!c) break; *c = 0; s = c + 1; }
  if (n != 10) return -1;
  if (strlen(fld[0]) > 8) return -1;
  strcpy(K.homemode, fld[0]); K.qq = atoi(fld[1]);
  if (unhex_cstr(fld[2], strlen(fld[2]), K.k_dash, sizeof K.k_dash)) return -1;
  if (unhex_cstr(fld[3], strlen(fld[3]), K.k_ext, sizeof K.k_ext)) return -1;
  if (unhex_cstr(fld[4], strlen(fld[4]), K.k_host, sizeof K.k_host)) return -1;
  if (unhex_cstr(fld[5], strlen(fld[5]), K.k_local, sizeof K.k_local)) return -1;
  if (unhex_cstr(fld[6], strlen(fld[6]), K.k_sender, sizeof K.k_sender)) return -1;
  if (unhex_cstr(fld[7], strlen(fld[7]), K.k_alias, sizeof K.k_alias)) return -1;
  K.msglen = unhexn(fld[8], strlen(fld[8]), K.msg, sizeof K.msg); if (K.msglen < 0) return -1;
  K.nf = 0;
  char *fs = fld[9]; size_t l = strlen(fs);
  while (l && (fs[l - 1] == '\n' || fs[l - 1] == '\r' || fs[l - 1] == ' ')) fs[--l] = 0;
  if (!strcmp(fs, "-")) return 0;
  for (char *s = fs; s && *s; ) {
    char *semi = strchr(s, ';'); if (semi) *semi = 0;
    char *p1 = strchr(s, ':'); if (!p1) return -1; *p1++ = 0;
    char *p2 = strchr(p1, ':'); if (!p2) return -1; *p2++ = 0;
    char *p3 = strchr(p2, ':'); if (!p3) return -1; *p3++ = 0;
    if (K.nf >= MAXF) return -1;
    fent *e = &K.f[K.nf++];
    if (unhex_cstr(s, strlen(s), e->name, sizeof e->name)) return -1;
    e->kind = p1[0]; e->mode = strtol(p2, 0, 8);
    e->clen = unhexn(p3, strlen(p3), e->content, sizeof e->content); if (e->clen < 0) return -1;
    s = semi ? semi + 1 : 0;
  }
  return 0;
}

/* ---------------------------------------------------------------- values derived from the blob (so that a replay sees the same) */
static uint64_t k_hash(void) {
  uint64_t h = 1469598103934665603ull;
  const char *fs[] = { K.homemode, K.k_dash, K.k_ext, K.k_host, K.k_local, K.k_sender, K.k_alias };
  for (int i = 0; i < 7; i++) { for (const char *c = fs[i]; *c; c++) { h ^= (unsigned char)*c; h *= 1099511628211ull; } h ^= 0xff; h *= 1099511628211ull; }
  for (int i = 0; i < K.nf; i++) { for (const char *c = K.f[i].name; *c; c++) { h ^= (unsigned char)*c; h *= 1099511628211ull; } h ^= K.f[i].clen & 255; h *= 1099511628211ull; }
  h ^= K.msglen & 0xffff; h *= 1099511628211ull; h ^= K.doit; h *= 1099511628211ull;
  return h ^ (h >> 29);
}
static const char *USERS[] = { "u", "alice", "U.x-1" };
static const char *INHERIT[] = { "DEFAULT=stale", "EXT=old-ext", "PATH=/bin:/usr/bin", "NEWSENDER=evil@x", "HOST2=zz", "FOO=bar baz", "SENDER=",
  "DEFAULTX=1", "UFLINE=From x", "LANG=C" };
#define NINHERIT 10
static const long long CLOCKS[] = { 0, 1, 59, 3599, 86399, 86400, 5097599, 5097600, 68255999, 68256000, 951782399, 951782400, 951868800,
  1000000000, 1078099199, 1709251199, 2147483647, 2147483648LL, 4102444799LL, 4102444800LL, 4107542399LL, 4107542400LL, 32503679999LL, 253402300799LL };
#define NCLOCKS (sizeof CLOCKS / sizeof CLOCKS[0])
static const char *k_user; static unsigned k_inherit;
static void k_derive(void) {
  uint64_t h = k_hash();
  switch (h & 3) {
    case 0: k_now = CLOCKS[(h >> 8) % NCLOCKS]; break;
    case 1: k_now = (h >> 8) % 253402300800ull; break;
    default: k_now = (h >> 8) % 2147483648ull; break;
  }
  k_user = USERS[(h >> 2) % 3];
  k_inherit = ((h >> 4) & 3) == 0 ? (unsigned)((h >> 40) & 1023) : 0;
}
static void emit_environ(void) {
  int n = 0;
  for (char **e = environ; e && *e; e++) { if (n++) fputc(',', h_out); put_hex(*e, strlen(*e)); }
  if (!n) fputc('-', h_out);
}

/* ---------------------------------------------------------------- one case */
static void env_field(const char *name, int first) {
  char *v = env_get((char *)name);
  if (!first) fputc(',', h_out);
  if (!v) fputc('!', h_out); else put_hex(v, strlen(v));
}
static void one(void) {
  fprintf(h_out, "%d ", K.doit); emit_blob();
  if (k_setup() != 0) { fprintf(h_out, " SKIP\n"); return; }
  /* message on fd 0 */
  if (ftruncate(0, 0) == -1) {}
  if (K.msglen && pwrite(0, K.msg, K.msglen, 0) != K.msglen) {}
  lseek(0, 0, SEEK_SET);
  /* reset everything the program dirties */
  hbuf_reset(&k_out); hbuf_reset(&k_err); hbuf_reset(&k_opens); hbuf_reset(&k_ev); hbuf_reset(&k_stats); hbuf_reset(&k_cenv);
  k_cenv_done = 0; k_nfork = 0; k_derive();
  k_ss.p = 0;
  subgetoptind = 1; subgetoptpos = 0;
  count_file = count_forward = count_program = 0; mailforward_qp = 0;
  flag99 = 0; flagdoit = 1;
  env_clear();
  for (int i = 0; i < NINHERIT; i++) if (k_inherit >> i & 1) if (!env_put((char *)INHERIT[i])) {}
  char *argv[12]; int n = 0;
  argv[n++] = "qmail-local"; if (!K.doit) argv[n++] = "-n";
  argv[n++] = (char *)k_user; argv[n++] = k_home; argv[n++] = K.k_local; argv[n++] = K.k_dash; argv[n++] = K.k_ext;
  argv[n++] = K.k_host; argv[n++] = K.k_sender; argv[n++] = K.k_alias; argv[n] = 0;
  k_exitcode = -1;
  if (setjmp(k_jb) == 0) { qmail_local_main(n, argv); k_exitcode = -2; }
  k_drain();
  alarm(0);
  if (chdir("/") == -1) {}
  fprintf(h_out, " %d ", k_exitcode);
  put_hex(k_out.p, k_out.n); fputc(' ', h_out);
  put_hex(k_err.p, k_err.n); fputc(' ', h_out);
  if (k_opens.n) fwrite(k_opens.p, 1, k_opens.n, h_out); else fputc('-', h_out);
  fputc(' ', h_out);
  if (k_ev.n) fwrite(k_ev.p, 1, k_ev.n, h_out); else fputc('-', h_out);
  fputc(' ', h_out);
  static const char *ev[] = { "DEFAULT", "NEWSENDER", "DTLINE", "RPLINE", "UFLINE", "EXT2", "EXT3", "EXT4", "HOST2", "HOST3", "HOST4", "RECIPIENT" };
  for (int i = 0; i < 12; i++) env_field(ev[i], i == 0);
  fputc(' ', h_out);
  if (k_stats.n) fwrite(k_stats.p, 1, k_stats.n, h_out); else fputc('-', h_out);
  fputc(' ', h_out);
  k_postscan();
  if (!k_nscan) fputc('-', h_out);
  for (int i = 0; i < k_nscan; i++) { if (i) fputc(',', h_out); fputs(k_scan[i], h_out); }
  fprintf(h_out, " %lld:", (long long)k_now);
  put_hex(k_user, strlen(k_user)); fputc(':', h_out); put_hex(k_home, strlen(k_home)); fputc(':', h_out);
  { int m = 0; for (int i = 0; i < NINHERIT; i++) if (k_inherit >> i & 1) { if (m++) fputc(';', h_out); put_hex(INHERIT[i], strlen(INHERIT[i])); }
    if (!m) fputc('-', h_out); }
  fputc(' ', h_out); emit_environ();
  fputc(' ', h_out);
  if (k_cenv.n) fwrite(k_cenv.p, 1, k_cenv.n, h_out); else fputc('-', h_out);
  fputc('\n', h_out);
}

/* ---------------------------------------------------------------- generators */
static void k_clear(void) {
  K.doit = 0; strcpy(K.homemode, "700"); K.qq = 0;
  strcpy(K.k_dash, "-"); K.k_ext[0] = 0; strcpy(K.k_host, "h.example"); strcpy(K.k_local, "u"); strcpy(K.k_sender, "s@x.org");
  strcpy(K.k_alias, "./Mailbox"); K.msglen = 0; K.nf = 0;
}
static fent *add_file(const char *name, char kind, int mode, const void *content, int clen) {
  if (K.nf >= MAXF) return &K.f[MAXF - 1];
  fent *e = &K.f[K.nf++];
  snprintf(e->name, sizeof e->name, "%s", name); e->kind = kind; e->mode = mode;
  if (clen > (int)sizeof e->content) clen = sizeof e->content;
  memcpy(e->content, content, clen); e->clen = clen;
  return e;
}
static void set_msg(const char *s) { K.msglen = strlen(s); memcpy(K.msg, s, K.msglen); }
static void set_local_std(void) { snprintf(K.k_local, sizeof K.k_local, "u%s%s", K.k_dash, K.k_ext); }

static const char *EXTS[] = { "", "a", "A", "a-", "a-b", "A-B", "a-b-", "a-b-c", "a-b-c-d", "a.b", "a:b", "a-B.c", "-", "--", "a--b",
  "-a", "default", "a-default", "A-DEFAULT", "a-b-default", "adefault", "a/b", "../x", "a/../b", "a-x", "x", "x-y-z", "a-b.",
  ".", "..", "a-/b", "b", "a-bb", "aa", "a-default-default", "owner", "a-owner", "a-b-owner", "a-DeFault", "a-b/", "/", "a-\x01", "a b", "Z", "@Z[`{", "a-Z-default" };
#define NEXTS (sizeof EXTS / sizeof EXTS[0])

static const char *SEARCH7[] = { ".qmail-a", ".qmail-a-default", ".qmail-default", ".qmail-a-b", ".qmail-a-b-default", ".qmail-a-", ".qmail-a:b" };
static const char *SEARCH5[] = { ".qmail", ".qmaila", ".qmaildefault", ".qmaila-default", ".qmaila-b" };

static const char *LINES_N[] = { "#c", "", " ", "\t ", "|exit 0", "|exit 99 \t", "./mb", "./md/", "&a@b", "c@d", "+list", "+lis", "&",
  "/abs/x/", " x", "+list \t", ".", "/", "| ", "&&a" };
#define NLINES_N (sizeof LINES_N / sizeof LINES_N[0])
static const char *LINES_D[] = { "#c", "", "|exit 0", "|exit 99", "|exit 100", "|exit 111", "|exit 1", "./mb1", "./md/", "&a@b", "c@d", "+list",
  "./nomd/", "|kill -9 $$", "./nodir/mb", "+x" };
#define NLINES_D (sizeof LINES_D / sizeof LINES_D[0])

static int k_content_from(const char **pool, int npool, int nl, uint64_t v, unsigned char *o) {
  int n = 0;
  for (int i = 0; i < nl; i++) { const char *s = pool[v % npool]; v /= npool; int l = strlen(s); memcpy(o + n, s, l); n += l; o[n++] = '\n'; }
  return n;
}

/* the Delivered-To line the program will compute (generator side only; verdicts come from model/oracle) */
static int k_dtline(char *o) {
  int n = sprintf(o, "Delivered-To: %s@%s", K.k_local, K.k_host);
  for (int i = 0; i < n; i++) if (o[i] == '\n') o[i] = '_';
  o[n++] = '\n'; o[n] = 0;
  return n;
}
static void msg_variant(int v) {
  char dt[1400]; int dl = k_dtline(dt); char m[4000]; int n = 0;
#define ADD(s) do { int l_ = strlen(s); memcpy(m + n, s, l_); n += l_; } while (0)
#define ADDDT() do { memcpy(m + n, dt, dl); n += dl; } while (0)
  switch (v) {
    case 0: ADD("Subject: x\n\nbody\n"); break;
    case 1: ADDDT(); ADD("Subject: x\n\nbody\n"); break;
    case 2: ADD("Received: y\n"); ADD("Subject: x\n"); ADDDT(); ADD("\nbody\n"); break;
    case 3: ADD("Subject: x\n\n"); ADDDT(); ADD("body\n"); break;                 /* in the body: not a loop */
    case 4: ADD("Subject: x\n"); memcpy(m + n, dt, dl - 1); n += dl - 1; break;     /* unterminated last line */
    case 5: ADD("Subject: x\n"); ADDDT(); break;                                  /* header only */
    case 6: ADD("X: y\n"); m[n++] = ' '; ADDDT(); ADD("\n"); break;               /* continuation-looking */
    case 7: ADD("X: y\n"); memcpy(m + n, dt, dl - 1); n += dl - 1; ADD(" \n\n"); break;  /* trailing blank */
    case 8: { ADD("X: y\n"); for (int i = 0; i < dl; i++) m[n++] = (i < 13 && dt[i] >= 'a' && dt[i] <= 'z') ? dt[i] - 32 : dt[i]; ADD("\n"); break; }
    case 9: ADD("\n"); ADDDT(); break;                                            /* empty header */
    case 10: ADD("X: y\r\n"); ADDDT(); ADD("\n"); break;
    case 11: ADD("X: y\n"); memcpy(m + n, dt, dl - 1); n += dl - 1; ADD("\r\n\n"); break;
    case 12: ADD("Delivered-To: other@h\n"); ADD("X: y\n\n"); break;
    case 13: break;                                                                /* empty message */
    case 14: ADD("X: y\n"); memcpy(m + n, dt + 1, dl - 1); n += dl - 1; ADD("\n"); break;
    default: { ADD("X: y\n"); memcpy(m + n, dt, dl); m[n + 3] = 0; n += dl; ADD("\n"); break; }  /* NUL inside */
  }
  if (n > (int)sizeof K.msg) n = sizeof K.msg;
  memcpy(K.msg, m, n); K.msglen = n;
}
#define NMSGV 16

/* `n` bytes of header lines, none of them empty, none of them a Delivered-To line (n != 1) */
static int k_padding(unsigned char *o, int n, int linelen) {
  int w = 0, k = 0;
  while (n - w > 0) {
    int l = n - w >= linelen ? linelen : n - w;
    if (n - w - l == 1) l = l > 2 ? l - 1 : l + 1;     /* never leave a 1-byte line */
    if (l < 2) l = 2;
    if (l > n - w) l = n - w;
    for (int i = 0; i < l - 1; i++) o[w + i] = i == 0 ? 'X' : i == 1 ? 'a' + k % 26 : i == 2 ? ':' : i == 3 ? ' ' : 'p';
    o[w + l - 1] = '\n'; w += l; k++;
  }
  return w;
}
/* the message: `start` bytes of other header lines, then the line `dtkind`, then `tail`.
   dtkind 0: the recipient's own Delivered-To line; 1: the same with its last character changed; 2: the same, one byte shorter
   (prefix); 3: own line, but after the blank line that ends the header */
static void msg_at_offset(int start, int dtkind, int linelen) {
  char dt[1400]; int dl = k_dtline(dt); int n = 0;
  if (start == 1) start = 2;
  if (start + dl + 64 > MSGCAP) start = MSGCAP - dl - 64;
  if (dtkind == 3) { n = k_padding(K.msg, start - 1 > 1 ? start - 1 : 0, linelen); K.msg[n++] = '\n'; }
  else n = k_padding(K.msg, start, linelen);
  if (dtkind == 1) dt[dl - 2] ^= 1;
  if (dtkind == 2) { dt[dl - 2] = '\n'; dl--; }
  memcpy(K.msg + n, dt, dl); n += dl;
  memcpy(K.msg + n, "Subject: s\n\nbody\n", 17); n += 17;
  K.msglen = n;
}
/* put `pad` bytes of header lines in front of the current message */
static void msg_prepend(int pad) {
  if (pad < 2 || K.msglen + pad > MSGCAP) return;
  memmove(K.msg + pad, K.msg, K.msglen);
  k_padding(K.msg, pad, 40 + pad % 37);
  K.msglen += pad;
}

static uint64_t g_id; static int g_shard, g_nshards;
static int mine(void) { return (int)(g_id++ % g_nshards) == g_shard; }

static const int FMODES[] = { 0600, 0600, 0600, 0644, 0610, 0601, 0622, 0602, 0700, 0711, 0755, 0722, 0640, 0660, 0000, 0100, 0200, 04600, 0606, 0666 };
#define NFMODES (sizeof FMODES / sizeof FMODES[0])
static const char *HMODES[] = { "700", "700", "700", "755", "750", "770", "702", "777", "1700", "1755", "1777", "707", "0", "2700", "722", "x" };
#define NHMODES (sizeof HMODES / sizeof HMODES[0])
static const char *SENDERS[] = { "", "#@[]", "s@x.org", "s", "a b@c", "a\nb@c\nd", "\"q\"@x", "@only", "x@", "a@b@c", "a..b@c", ".a@c", "a\\b@c",
  "\xc3\xa9@c", "s\r\n@x", "a\tb", "\n", "a\n", "s@x\nBcc: evil@x", "#@[]x", "a.@c", "(c)@d" };
#define NSENDERS (sizeof SENDERS / sizeof SENDERS[0])
static const char *HOSTS[] = { "h", "ex.org", "a.b.c.d.e", "", "h\nX: y", ".", "x.", ".x", "a..b" };
#define NHOSTS (sizeof HOSTS / sizeof HOSTS[0])
static const char *ALIASES[] = { "./Mailbox", "./Maildir/", "|exit 0", "&dflt@x", "", "#", " ", "./Mailbox\n&also@x", "+list" };
#define NALIASES (sizeof ALIASES / sizeof ALIASES[0])
static const char *DASHES[] = { "-", "-", "-", "-", "", "", "-x-", "--" };
static const char *POOL[] = { ".qmail", ".qmail-a", ".qmail-a-default", ".qmail-default", ".qmail-a-b", ".qmail-a-b-default", ".qmail-a-", ".qmail-a:b",
  ".qmail-a-owner", ".qmail-a-owner-default", ".qmail-a-b-owner", ".qmail-default-default", ".qmail-::", ".qmail-:", ".qmail-x-y-default",
  ".qmail-a/b", ".qmail-a-b-c", ".qmail--default", ".qmail--", ".qmail-owner", ".qmail-default-owner", ".qmaila", ".qmaildefault", ".qmail-x-default",
  ".qmail-a-b:", ".qmail-a-x", ".qmail-x-a-default", ".qmail-a-default-owner", ".qmail-a b" };
#define NPOOL (sizeof POOL / sizeof POOL[0])
static const int CODES[] = { 0, 0, 0, 99, 100, 111, 64, 65, 70, 76, 77, 78, 112, 1, 2, 255, 98, 101, 110, 113, 63, 79, 126, 127 };
#define NCODES (sizeof CODES / sizeof CODES[0])

static int rnd_line(char *o, int doit) {
  int n = 0;
  switch (h_below(doit ? 13 : 16)) {
    case 0: n = sprintf(o, "#%s", h_below(2) ? " comment |exit 100" : ""); break;
    case 1: n = 0; break;
    case 2: n = sprintf(o, "%s", h_below(2) ? " " : "\t \t"); break;
    case 3: case 4: { int c = h_below(4) ? CODES[h_below(NCODES)] : (int)h_below(256);
      if (doit && h_below(40) == 0) n = sprintf(o, "|kill -9 $$");
      else n = sprintf(o, "|%sexit %d", h_below(3) ? "" : ": t;", c); break; }
    case 5: n = sprintf(o, "./mb%d", (int)h_below(3)); break;
    case 6: n = sprintf(o, "%s", h_below(4) ? "./md/" : (h_below(2) ? "./nomd/" : "./nodir/mb")); break;
    case 7: n = sprintf(o, "&r%d@x.org", (int)h_below(5)); break;
    case 8: n = sprintf(o, "r%d@y.org", (int)h_below(5)); break;
    case 9: n = sprintf(o, "%s", h_below(3) ? "+list" : (h_below(2) ? "+lis" : "+listx")); break;
    case 10: n = sprintf(o, "%s", h_below(2) ? "&" : "& sp@x"); break;
    case 11: n = sprintf(o, "%s", h_below(2) ? " lead@x" : "-dash@x"); break;
    case 12: n = sprintf(o, "&r%d@z", (int)h_below(3)); break;
    /* -n only: the text is printed, never executed */
    case 13: n = sprintf(o, "/abs/path%s", h_below(2) ? "/" : ""); break;
    case 14: n = sprintf(o, "|some command; exit 3"); break;
    default: n = sprintf(o, "%s", h_below(2) ? "." : "/"); break;
  }
  if (h_below(5) == 0) { const char *t[] = { " ", "\t", "  \t", " \t " }; n += sprintf(o + n, "%s", t[h_below(4)]); }
  return n;
}
static int rnd_content(unsigned char *o, int doit) {
  int n = 0, nl = h_below(8) ? (int)h_below(7) : 0;
  for (int i = 0; i < nl; i++) {
    char l[200]; int ll = rnd_line(l, doit);
    memcpy(o + n, l, ll); n += ll;
    if (h_below(25) == 0 && ll > 0) { o[n++] = 0; memcpy(o + n, "/zz", 3); n += 3; if (h_below(2)) o[n++] = '/'; }  /* NUL inside a line */
    if (h_below(40) == 0) o[n++] = '\r';
    if (i + 1 < nl || h_below(6)) o[n++] = '\n';
  }
  return n;
}
static void rnd_ext(void) {
  int r = h_below(10);
  if (r < 4) strcpy(K.k_ext, EXTS[h_below(NEXTS)]);
  else if (r < 8) {
    const char *p = POOL[1 + h_below(NPOOL - 1)];
    const char *e = p + 6; if (*e == '-') e++;
    strcpy(K.k_ext, e);
    int l = strlen(K.k_ext);
    switch (h_below(8)) {
      case 0: for (int i = 0; i < l; i++) if (h_below(2) && K.k_ext[i] >= 'a' && K.k_ext[i] <= 'z') K.k_ext[i] -= 32; break;
      case 1: for (int i = 0; i < l; i++) if (K.k_ext[i] == ':') K.k_ext[i] = '.'; break;
      case 2: strcat(K.k_ext, "-"); break;
      case 3: strcat(K.k_ext, "-zz"); break;
      case 4: if (l > 7 && !strcmp(K.k_ext + l - 7, "default")) strcpy(K.k_ext + l - 7, h_below(2) ? "zz" : "Zz-Y.w"); break;
      case 5: if (l) K.k_ext[h_below(l)] = "-.aB/"[h_below(5)]; break;
      default: break;
    }
  } else if (r == 8) {
    int l = h_below(9);
    for (int i = 0; i < l; i++) K.k_ext[i] = "ab-.:-/AdDefault"[h_below(16)];
    K.k_ext[l] = 0;
  } else {
    int l = 240 + h_below(40);                      /* around NAME_MAX */
    for (int i = 0; i < l; i++) K.k_ext[i] = (i % 37 == 36) ? '-' : 'a' + i % 3;
    K.k_ext[l] = 0;
  }
}
static void rnd_home(int doit) {
  for (unsigned i = 0; i < NPOOL && K.nf < MAXF - 3; i++) {
    if (h_below(100) >= 30) continue;
    if (!strcmp(POOL[i], ".qmail-a/b")) {
      int clash = 0; for (int j = 0; j < K.nf; j++) if (!strcmp(K.f[j].name, ".qmail-a")) clash = 1;
      if (clash) continue;
    }
    unsigned char c[1200]; int cl;
    int r = h_below(100);
    char kind = r < 84 ? 'f' : r < 92 ? 'd' : r < 96 ? 'T' : 'A';
    if (h_below(3) == 0) { cl = sprintf((char *)c, "&sel%u@f\n", i); }
    else cl = rnd_content(c, doit);
    add_file(POOL[i], kind, h_below(3) ? 0600 : FMODES[h_below(NFMODES)], c, cl);
  }
  if (doit) { if (h_below(10)) add_file("md", 'm', 0700, "", 0); }
}
static void rnd_case(int doit) {
  k_clear(); K.doit = doit;
  strcpy(K.homemode, h_below(4) ? "700" : HMODES[h_below(NHMODES)]);
  strcpy(K.k_dash, DASHES[h_below(8)]);
  rnd_ext();
  strcpy(K.k_host, h_below(3) ? "h.example" : HOSTS[h_below(NHOSTS)]);
  if (h_below(5)) set_local_std();
  else { const char *l[] = { "u\nBcc: z", "u x", "u\"q", "", "U", "u\n", "\nu" }; strcpy(K.k_local, l[h_below(7)]); }
  strcpy(K.k_sender, h_below(3) ? SENDERS[h_below(NSENDERS)] : "s@x.org");
  strcpy(K.k_alias, h_below(3) ? "./Mailbox" : ALIASES[h_below(NALIASES)]);
  K.qq = h_below(8) ? 0 : 1 + h_below(2);
  rnd_home(doit);
  msg_variant(h_below(3) ? 0 : h_below(NMSGV));
  /* long headers: the interesting line may lie anywhere relative to the reader's buffer boundaries */
  if (h_below(4) == 0) {
    static const int B[] = { 128, 256, 512, 1024, 2048, 4096, 8192 };
    int b = B[h_below(7)] * (1 + (int)h_below(2));
    msg_prepend(h_below(3) ? b - (int)h_below(80) : (int)h_below(9000));
  }
}

static void generate(int level, int nrandom, uint64_t seed) {
  unsigned char c[1200]; int cl;
  /* (1) search order: every subset of 7 (dash "-") resp. 5 (dash "") names x every near-miss extension, -n.
         Each file forwards to an address naming the file, so stdout identifies the file that was used. */
  for (unsigned e = 0; e < NEXTS; e++)
    for (unsigned sub = 0; sub < 128; sub++) {
      if (!mine()) continue;
      k_clear(); strcpy(K.k_ext, EXTS[e]); set_local_std();
      for (int i = 0; i < 7; i++) if (sub >> i & 1) {
        cl = sprintf((char *)c, "&sel%d@f\n", i);
        char kind = ((sub * 7 + e + i) % 11 == 0) ? 'd' : 'f';           /* a directory is skipped, not selected */
        add_file(SEARCH7[i], kind, ((sub + e + i) % 13 == 0) ? 0700 : 0600, c, cl);
      }
      if ((sub + e) % 4 == 0) strcpy(K.k_sender, "");
      one();
    }
  for (unsigned e = 0; e < NEXTS; e++)
    for (unsigned sub = 0; sub < 32; sub++) {
      if (!mine()) continue;
      k_clear(); strcpy(K.k_dash, ""); strcpy(K.k_ext, EXTS[e]); set_local_std();
      for (int i = 0; i < 5; i++) if (sub >> i & 1) { cl = sprintf((char *)c, "&sel%d@g\n", i); add_file(SEARCH5[i], 'f', 0600, c, cl); }
      one();
    }
  /* (2) instruction grammar, -n: every sequence of up to `level` lines, plain and with the x bit */
  for (int nl = 0; nl <= level; nl++) {
    uint64_t total = 1; for (int i = 0; i < nl; i++) total *= NLINES_N;
    for (uint64_t v = 0; v < total; v++)
      for (int xb = 0; xb < 2; xb++) {
        if (!mine()) continue;
        k_clear(); strcpy(K.k_ext, "a"); set_local_std();
        cl = k_content_from(LINES_N, NLINES_N, nl, v, c);
        if (nl && v % 5 == 1) cl--;                                     /* no newline at the end */
        add_file(".qmail-a", 'f', xb ? 0700 : 0600, c, cl);
        one();
      }
  }
  /* (2b) control files longer than the chunks they are read in (slurpclose reads 256 bytes at a time): a comment of
          every length that puts the following instruction lines across offsets 256, 512, 1024 */
  {
    static const int B[] = { 256, 512, 1024 };
    for (unsigned b = 0; b < 3; b++)
      for (int off = B[b] - 14; off <= B[b] + 2; off++)
        for (int xb = 0; xb < 2; xb++) {
          if (!mine()) continue;
          k_clear(); strcpy(K.k_ext, "a"); set_local_std();
          cl = 0; c[cl++] = '#'; while (cl < off - 1) c[cl++] = 'c'; c[cl++] = '\n';
          cl += sprintf((char *)c + cl, "&first@x \n./mb\n+list\n&last@y\n|exit 0\n");
          add_file(".qmail-a", 'f', xb ? 0700 : 0600, c, cl);
          one();
        }
  }
  /* (3) real deliveries: every exit code; earlier forward is kept on 99, dropped on failure */
  for (int code = 0; code < 256; code++)
    for (int shape = 0; shape < 2; shape++) {
      if (!mine()) continue;
      k_clear(); K.doit = 1; strcpy(K.k_ext, "a"); set_local_std(); set_msg("Subject: t\n\nb\n");
      cl = shape == 0 ? sprintf((char *)c, "&f@x\n|exit %d\n./mb1\n|exit 0\n", code)
                      : sprintf((char *)c, "|exit %d\n&g@x\n", code);
      add_file(".qmail-a", 'f', 0600, c, cl);
      one();
    }
  /* (4) real deliveries: every sequence of up to min(level,2)+... lines from the delivery line set */
  for (int nl = 1; nl <= (level >= 4 ? 3 : 2); nl++) {
    uint64_t total = 1; for (int i = 0; i < nl; i++) total *= NLINES_D;
    for (uint64_t v = 0; v < total; v++) {
      if (!mine()) continue;
      k_clear(); K.doit = 1; strcpy(K.k_ext, "a"); set_local_std(); set_msg("Subject: t\n\nb\n");
      cl = k_content_from(LINES_D, NLINES_D, nl, v, c);
      add_file(".qmail-a", 'f', (v % 7 == 3) ? 0700 : 0600, c, cl);
      add_file("md", 'm', 0700, "", 0);
      K.qq = (v % 11 == 5) ? 1 + (v & 1) : 0;
      one();
    }
  }
  /* (5) permissions: home modes x file modes x doit */
  for (unsigned hm = 0; hm < NHMODES; hm++)
    for (unsigned fm = 0; fm < NFMODES; fm++)
      for (int doit = 0; doit < 2; doit++) {
        if (!mine()) continue;
        k_clear(); K.doit = doit; strcpy(K.k_ext, "a"); set_local_std(); set_msg("Subject: t\n\nb\n");
        strcpy(K.homemode, HMODES[hm]);
        cl = sprintf((char *)c, "&p@x\n./mb1\n");
        add_file(".qmail-a", 'f', FMODES[fm], c, cl);
        add_file(".qmail-default", 'f', 0600, "&q@x\n", 5);
        one();
      }
  /* (6) loop detection and hostile envelope bytes: message variants x recipients x senders */
  {
    const char *locals[] = { "u-a", "u\nBcc: z", "U-a", "u a" };
    for (int mv = 0; mv < NMSGV; mv++)
      for (int l = 0; l < 4; l++)
        for (unsigned hs = 0; hs < NHOSTS; hs++)
          for (int doit = 0; doit < 2; doit++) {
            if (!mine()) continue;
            k_clear(); K.doit = doit; strcpy(K.k_ext, "a"); strcpy(K.k_local, locals[l]); strcpy(K.k_host, HOSTS[hs]);
            strcpy(K.k_sender, SENDERS[(mv + l + hs) % NSENDERS]);
            add_file(".qmail-a", 'f', 0600, "&p@x\n", 5);
            msg_variant(mv);
            one();
          }
    /* (6b) the Delivered-To line at every position relative to plausible read-buffer boundaries (the scan must not
            depend on how the message is cut into reads): start offsets B-len-2 .. B+2 for B = 128 .. 8192, two line lengths
            of the preceding header, the genuine line / a one-character miss / a prefix / the line after the header */
    {
      static const int B[] = { 128, 256, 512, 1024, 2048, 3072, 4096, 8192 };
      for (unsigned b = 0; b < sizeof B / sizeof B[0]; b++)
        for (int l = 0; l < 2; l++) {
          k_clear(); strcpy(K.k_ext, "a"); strcpy(K.k_local, l ? "u\nBcc: z" : "u-a"); strcpy(K.k_host, l ? "h" : "example.com");
          char dt[1400]; int dl = k_dtline(dt);
          for (int start = B[b] - dl - 2; start <= B[b] + 2; start++)
            for (int kind = 0; kind < 4; kind++) {
              if (start < 2) continue;
              if (kind && (start + b + l) % 3) continue;                   /* the misses: every third position */
              if (!mine()) continue;
              k_clear(); K.doit = 1; strcpy(K.k_ext, "a"); strcpy(K.k_local, l ? "u\nBcc: z" : "u-a"); strcpy(K.k_host, l ? "h" : "example.com");
              add_file(".qmail-a", 'f', 0600, "&p@x\n", 5);
              msg_at_offset(start, kind, (start + kind) % 2 ? 61 : 997);
              one();
            }
        }
    }
    for (unsigned s = 0; s < NSENDERS; s++)
      for (int own = 0; own < 4; own++)
        for (int doit = 0; doit < 2; doit++) {
          if (!mine()) continue;
          k_clear(); K.doit = doit; strcpy(K.k_ext, "a"); set_local_std(); strcpy(K.k_sender, SENDERS[s]); set_msg("X: y\n\nb\n");
          add_file(".qmail-a", 'f', 0600, "&p@x\n./mb1\n", 11);
          if (own & 1) add_file(".qmail-a-owner", own == 3 ? 'd' : 'f', 0600, "", 0);
          if (own & 2) add_file(".qmail-a-owner-default", 'f', 0600, "", 0);
          one();
        }
  }
  /* (8) the environment of a real command child: every near-miss extension x every host shape x senders, one command line
         in the file that is found (.qmail-default, for some extensions the exact name / a longer -default file as well) */
  for (unsigned e = 0; e < NEXTS; e++)
    for (unsigned hs = 0; hs < NHOSTS; hs++)
      for (int v = 0; v < 3; v++) {
        if (!mine()) continue;
        k_clear(); K.doit = 1; strcpy(K.k_ext, EXTS[e]); strcpy(K.k_host, HOSTS[hs]); set_msg("Subject: t\n\nb\n");
        if (v == 1) strcpy(K.k_local, "u\nX: y"); else set_local_std();
        strcpy(K.k_sender, SENDERS[(e + hs * 5 + v * 7) % NSENDERS]);
        add_file(".qmail-default", 'f', 0600, "|exit 0\n", 8);
        if (v == 2) { add_file(".qmail-a-default", 'f', 0600, "|exit 0\n&f@x\n", 13); add_file(".qmail-a-owner", 'f', 0600, "", 0);
                      if (e & 1) add_file(".qmail-a-owner-default", 'f', 0600, "", 0); }
        if (v == 0 && (e % 3) == 0) add_file(".qmail-a-b-default", 'f', 0600, "|exit 99\n", 9);
        one();
      }
  /* (7) seeded random cases: mostly -n, one in six a real delivery */
  h_seed(seed * 1000003ull + g_shard);
  for (int r = 0; r < nrandom; r++) {
    if ((r % g_nshards) != g_shard) continue;
    rnd_case(h_below(6) == 0);
    one();
  }
}

int main(int argc, char **argv) {
  h_init_out();
  k_mainpid = getpid();
  signal(SIGPIPE, SIG_IGN);
  snprintf(k_base, sizeof k_base, "/tmp/c13h-%d", (int)k_mainpid);
  k_rmrf(k_base);
  if (mkdir(k_base, 0700) == -1) { perror("mkdir"); return 2; }
  snprintf(k_home, sizeof k_home, "%s/home", k_base);
  int cases_fd = dup(0);
  { char p[300]; snprintf(p, sizeof p, "%s/msg", k_base);
    int fd = open(p, O_RDWR | O_CREAT | O_TRUNC, 0600); if (fd == -1) { perror("msg"); return 2; }
    dup2(fd, 0); close(fd); }
  fcntl(cases_fd, F_SETFD, FD_CLOEXEC);
  if (pipe(k_evpipe) == -1) return 2;
  fcntl(k_evpipe[0], F_SETFL, O_NONBLOCK);
  fcntl(k_evpipe[0], F_SETFD, FD_CLOEXEC); fcntl(k_evpipe[1], F_SETFD, FD_CLOEXEC);
  int rc = 0;
  if (argc > 1 && !strcmp(argv[1], "-")) {
    static char line[200000];
    FILE *in = fdopen(cases_fd, "r");   /* fd 0 now is the message file */
    while (in && fgets(line, sizeof line, in)) {
      char *sp = strchr(line, ' ');
      if (!sp) continue;
      *sp = 0;
      k_clear(); K.doit = atoi(line);
      if (parse_blob(sp + 1) != 0) { fprintf(h_out, "%d %s BADCASE\n", K.doit, "-"); continue; }
      one();
    }
  } else {
    int level = h_argi(argc, argv, 1, 2), nrandom = h_argi(argc, argv, 2, 1000);
    uint64_t seed = (uint64_t)h_argi(argc, argv, 3, 1);
    g_shard = h_argi(argc, argv, 4, 0); g_nshards = h_argi(argc, argv, 5, 1);
    generate(level, nrandom, seed);
  }
  fflush(h_out);
  if (chdir("/") == -1) {}
  chmod(k_home, 0700); k_rmrf(k_base);
  return rc;
}
