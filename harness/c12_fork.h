/* C12: force-included (-include) when qmail-local.c is compiled as a qsim program instance.
 * The source file itself is unmodified; like `-Dmain=<inst>_main` this only redirects one libc
 * entry point.  fork() becomes a setjmp in the *caller's* frame (maildir(), which stays live while
 * the child body runs below it), so that the child can run inline as a second simulated process
 * and `_exit` of the child resumes the parent at the fork point with the child's pid.
 * lseek() is redirected to a tracing wrapper (same semantics).
 */
#ifndef C12_FORK_H
#define C12_FORK_H
#include <sys/types.h>
#include <unistd.h>
#include <setjmp.h>
extern jmp_buf *c12_fork_prepare(void);   /* creates the child process record, returns its exit jmp_buf */
extern int c12_fork_child(void);          /* switch to the child; returns 0 (or -1: fork fails) */
extern int c12_fork_parent(void);         /* child has exited or crashed: back in the parent; returns the child's pid */
#define fork() (setjmp(*c12_fork_prepare()) == 0 ? c12_fork_child() : c12_fork_parent())
/* lseek() of this translation unit (seek.h: seek_begin, seek_end, seek_cur are static inline) goes through a wrapper that
 * records the call and its result in the trace (qsim's lseek is not traced): "P<i> lseek <fd> <off> <whence> -> <result>" */
extern off_t c12_lseek(int fd, off_t off, int whence);
#define lseek(fd, off, whence) c12_lseek((fd), (off), (whence))
#endif
