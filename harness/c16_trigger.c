/* C16 correspondence harness: two real qmail-queue instances, the real qmail-send and qmail-clean as
 * threads under qsim; every interleaving of the trigger-related system calls is enumerated by
 * stateless depth-first search over schedules (or sampled at random).
 *
 * usage: c16_trigger <mode> <limit> <seed> <shard> <nshards>
 *   mode 0: one injector, exhaustive DFS             (shard 0 only)
 *   mode 1: two injectors, seeded random schedules    (<limit> per shard)
 *   mode 2: two injectors, exhaustive DFS, partitioned over shards by the first decisions (mode 3: by the first three)
 *   mode 4: START-UP leg - one injector that starts TOGETHER with the daemon: DFS over every interleaving of the first 9 (limit >= 4000: 12)
 *           decisions, partitioned like mode 3;  mode 5: START-UP leg, two injectors, seeded random schedules
 *        c16_trigger -      schedules on stdin: "<ninj> <c0,c1,c2,...> <readdir snapshot 0|1> [<variant 0|1>]"
 *
 * Scheduling: a thread whose next call is not trigger-related runs on without a decision; when every
 * runnable thread is about to make a trigger-related call (link todo / open, write, close of the FIFO /
 * trigger_set's close and open / opendir and readdir of todo / select) the schedule decides.
 *
 * output per run: CASE ninj=<n> sched=<choices>, T lines (trigger-related calls only, with the clock),
 *                 X lines (among them one `X snap ...` per select of the daemon, see c16_snap.h), END
 */
#define _GNU_SOURCE
#include "sim.h"
#include "auto_split.h"
#include <signal.h>
#include <stdarg.h>
#include "qmail.h"
SIM_INSTANCE(qs)
SIM_INSTANCE(qc)
SIM_INSTANCE(qa)
SIM_INSTANCE(qb)
#include "c16_snap.h"

#define QROOT "/var/qmail/queue"
static int ninj;
static int sched[256], nsched;          /* forced choices */
static int made[256], branch[256], nmade;
static int random_mode; static uint64_t rng;
static int variant;                     /* 0: the injectors start once the daemon has reached its first blocking select;
                                           1: injector A starts together with the daemon (START-UP leg: its steps interleave with todo_init's open of the
                                              FIFO, the first selects, the start-up re-arm and the first scan - or finish before the daemon's first step) */
static int depth_cap;                   /* DFS: only the first depth_cap decisions branch; afterwards the first runnable thread (the daemon) goes on */
static int idle_reached, a_wrote, term_sent, nselect_idle, nselect_run;
#define SELECT_STORM 1000               /* a run of the unmodified daemon makes ~100-200 selects; far beyond that it is spinning */
static long link_clock[SIM_MAXINO];

static void xlog(const char *fmt, ...) { char b[600]; va_list ap; va_start(ap, fmt); int n = vsnprintf(b, sizeof b, fmt, ap); va_end(ap); hbuf_add(&sim_trace, b, n); }

static int interesting(const char *w) {
  return !strcmp(w, "link_todo") || !strcmp(w, "open_trigger_w") || !strcmp(w, "write_fifo") || !strcmp(w, "close_fifo") ||
         !strcmp(w, "open_trigger_r") || !strcmp(w, "opendir_todo") || !strcmp(w, "readdir_todo") || !strcmp(w, "select");
}
static int pick(int n, int *idx, const char **what) {
  if (getenv("C16DBG")) { static int cnt; if (cnt++ < 4000 && cnt > 3900) { fprintf(stderr, "pick n=%d:", n); for (int i = 0; i < n; i++) fprintf(stderr, " P%d:%s", idx[i], what[i]); fprintf(stderr, "\n"); } }
  for (int i = 0; i < n; i++) if (!interesting(what[i])) return i;
  if (n == 1) return 0;
  /* fairness: a thread that has been chosen 12 times in a row while others were ready must yield (cuts the
   * infinite branch in which the daemon rescans forever while an injector still holds the FIFO open) */
  static int last = -1, streak = 0;
  if (nmade == 0) { last = -1; streak = 0; }
  int k;
  if (streak >= 12) { k = 0; for (int i = 0; i < n; i++) if (idx[i] != last) { k = i; break; } streak = 0; last = idx[k]; return k; }
  if (nmade < nsched) k = sched[nmade] % n;
  else if (depth_cap && nmade >= depth_cap) { if (idx[0] == last) streak++; else { last = idx[0]; streak = 1; } return 0; }
  else if (random_mode) { rng = rng * 6364136223846793005ull + 1442695040888963407ull; k = (int)((rng >> 33) % n); }
  else k = 0;
  if (nmade < 256) { made[nmade] = k; branch[nmade] = n; nmade++; }
  if (idx[k] == last) streak++; else { last = idx[k]; streak = 1; }
  return k;
}

/* stand-in for qmail.c (no bounces occur here) */
int qmail_open(struct qmail *qq) { qq->flagerr = 0; return 0; }
unsigned long qmail_qp(struct qmail *qq) { return 1; }
void qmail_fail(struct qmail *qq) { qq->flagerr = 1; }
void qmail_put(struct qmail *qq, char *s, size_t len) {}
void qmail_from(struct qmail *qq, char *s) {}
void qmail_to(struct qmail *qq, char *s) {}
char *qmail_close(struct qmail *qq) { return ""; }

static int others_active(void) { for (int i = 2; i < 2 + ninj; i++) if (P[i].used && !P[i].finished) return 1; return 0; }
static int todo_entries(void) { int n = 0; for (int i = 0; i < W.ndent; i++) if (W.dent[i].ino >= 0 && strstr(W.dent[i].path, "/queue/todo/")) n++; return n; }
static int fifo_ready(simproc *p) { for (int fd = 0; fd < SIM_MAXFD; fd++) if (p->fd[fd].kind == SFD_FIFO_R && W.ino[p->fd[fd].ino].buffered > 0) return 1; return 0; }
static int wait_for_event(simproc *p) { return !fifo_ready(p) && others_active(); }

static size_t cmdpos[2]; static int sinkid[2], srcid[2];
static void answer_commands(void) {          /* every delivery succeeds at once */
  for (int c = 0; c < 2; c++) { hbuf *b = &W.sink[sinkid[c]];
    for (;;) { size_t p = cmdpos[c]; if (p >= b->n) break; size_t q = p + 1; int nul = 0; while (q < b->n && nul < 3) { if (!b->p[q]) nul++; q++; }
      if (nul < 3) break; unsigned char r[8] = { b->p[p], 'K', 'o', 'k', '\n', 0 }; hbuf_add(&W.src[srcid[c]].data, r, 6); cmdpos[c] = q; } }
}
static int daemon_select(simproc *p, int nfds, fd_set *r, fd_set *w, struct timeval *tv) {
  if (p->idx != 0) return 0;
  if (++nselect_run == SELECT_STORM) { xlog("X select-storm selects=%d clock=%ld\n", nselect_run, W.clock); term_sent = 1; sim_deliver_signal(p, SIGTERM); }
  if (nselect_run > SELECT_STORM + 200) { p->exitcode = -98; sim_crash_before = W.ncalls_total + 1; }     /* not even TERM stops it */
  if (nselect_run <= SELECT_STORM + 200)
  c16_snapshot(p, nfds, r, w, tv);      /* the select preparation's inputs and outputs (SelPrep leg) */
  answer_commands();
  for (int pass = 0; pass < 2; pass++) {
    int n = 0; fd_set ro, wo; FD_ZERO(&ro); FD_ZERO(&wo);
    for (int fd = 0; fd < nfds && fd < SIM_MAXFD; fd++) {
      simfd *f = &p->fd[fd];
      if (r && FD_ISSET(fd, r)) { int ok = 0;
        if (f->kind == SFD_FIFO_R) ok = W.ino[f->ino].buffered > 0;
        else if (f->kind == SFD_SOURCE) ok = W.src[f->aux].pos < W.src[f->aux].data.n;
        if (ok) { FD_SET(fd, &ro); n++; } }
      if (w && FD_ISSET(fd, w) && f->kind != SFD_FREE) { FD_SET(fd, &wo); n++; }
    }
    if (n > 0 || !tv || tv->tv_sec == 0 || pass == 1) {
      if (n == 0 && tv && tv->tv_sec > 0) {
        /* nobody else can act: virtual time passes */
        if (!others_active() && todo_entries() == 0 && !term_sent) { term_sent = 1; xlog("X quiescent clock=%ld\n", W.clock); sim_deliver_signal(p, SIGTERM); }
        else { if (todo_entries() > 0) xlog("X sleeping-with-unprocessed-todo clock=%ld timeout=%ld\n", W.clock, (long)tv->tv_sec); W.clock += tv->tv_sec; if (++nselect_idle > 40 && !term_sent) { term_sent = 1; sim_deliver_signal(p, SIGTERM); } }
      }
      if (r) *r = ro; if (w) *w = wo;
      return n;
    }
    /* nothing ready, positive timeout: block until the FIFO becomes readable or the injectors are done */
    idle_reached = 1;
    sim_wait(wait_for_event, "select_wait");
  }
  return 0;
}

static int inj_a_wait(simproc *p) { return variant == 1 ? 0 : !idle_reached; }
static int inj_b_wait(simproc *p) { return !a_wrote; }

static void ctl(const char *name, const char *val) { char p[120]; snprintf(p, sizeof p, "/var/qmail/control/%s", name); sim_mkfile(p, val, strlen(val), 0, 0644); }
static void world_init(void) {
  char b[100];
  sim_reset();
  sim_user("alias", 7790, 2108); sim_user("qmaild", 7791, 2108); sim_user("qmails", 7796, 2107); sim_user("qmailq", 7794, 2107);
  sim_user("qmailr", 7795, 2107); sim_user("qmaill", 7792, 2108); sim_user("qmailp", 7793, 2108);
  static const char *dirs[] = { "pid", "intd", "todo", "bounce", "lock", 0 };
  for (int i = 0; dirs[i]; i++) { snprintf(b, sizeof b, QROOT "/%s", dirs[i]); sim_mkdir_p(b, 7794, 0700); }
  static const char *sdirs[] = { "mess", "info", "local", "remote", 0 };
  for (int j = 0; sdirs[j]; j++) for (int i = 0; i < auto_split; i++) { snprintf(b, sizeof b, QROOT "/%s/%d", sdirs[j], i); sim_mkdir_p(b, 7794, 0700); }
  sim_mkdir_p("/var/qmail/control", 0, 0755);
  sim_mkfifo_(QROOT "/lock/trigger", 7796, 0622);
  sim_mkfile(QROOT "/lock/sendmutex", "", 0, 7796, 0600);
  ctl("me", "h.example\n"); ctl("locals", "h.example\n"); ctl("concurrencylocal", "5\n"); ctl("concurrencyremote", "5\n");
}

static void on_sink(simproc *p, int fd) { }
static void note_trace(void) {
  /* learn from the trace buffer incrementally: A's write, link clocks */
}

static int pick_watch(int n, int *idx, const char **what);
static void run_once(void) {
  world_init();
  sim_globals_restore();
  idle_reached = a_wrote = term_sent = nselect_idle = nselect_run = 0; nmade = 0; cmdpos[0] = cmdpos[1] = 0;
  simproc *p0 = sim_proc(0, "qmail-send", 500, 7796, "/");
  simproc *p1 = sim_proc(1, "qmail-clean", 600, 7794, "/");
  sim_fd_sink(p0, 0); sinkid[0] = sim_fd_sink(p0, 1); sinkid[1] = sim_fd_sink(p0, 3);
  unsigned char sb = 5; srcid[0] = sim_fd_source(p0, 2, &sb, 1, 0); srcid[1] = sim_fd_source(p0, 4, &sb, 1, 0);
  int a = sim_pipe_new(), b = sim_pipe_new();
  sim_fd_pipe(p0, 5, a, 1); sim_fd_pipe(p1, 0, a, 0); sim_fd_pipe(p1, 1, b, 1); sim_fd_pipe(p0, 6, b, 0); sim_fd_sink(p1, 2);
  static const unsigned char env1[] = "Fs@src.example\0Tu1@h.example\0", env2[] = "Fs@src.example\0Tr1@far.example\0";
  for (int i = 0; i < ninj; i++) {
    simproc *q = sim_proc(2 + i, i ? "qmail-queue-b" : "qmail-queue-a", 700 + i, 1000, "/");
    sim_fd_source(q, 0, "hi\n", 3, 0);
    sim_fd_source(q, 1, i ? env2 : env1, i ? sizeof env2 : sizeof env1, 0);
    sim_fd_sink(q, 2);
    q->start_pred = i ? inj_b_wait : inj_a_wait;
  }
  sim_threads = 1; sim_select_hook = daemon_select; sim_pick = pick_watch; sim_sink_hook = on_sink;
  sim_spawn(p0, qs_main); sim_spawn(p1, qc_main);
  sim_spawn(&P[2], qa_main); if (ninj > 1) sim_spawn(&P[3], qb_main);
  sim_run_all();
  sim_threads = 0;
  /* output */
  fprintf(h_out, "CASE ninj=%d snap=%d var=%d sched=", ninj, sim_readdir_snapshot, variant);
  for (int i = 0; i < nmade; i++) fprintf(h_out, "%s%d", i ? "," : "", made[i]);
  if (!nmade) fputc('-', h_out);
  fputc('\n', h_out);
  char *s = (char *)sim_trace.p; size_t n = sim_trace.n, i = 0;
  while (i < n) { size_t j = i; while (j < n && s[j] != '\n') j++;
    char *l = s + i; size_t ll = j - i;
    if (l[0] == 'X') fprintf(h_out, "%.*s\n", (int)ll, l);
    else if (memmem(l, ll, "todo", 4) || memmem(l, ll, "trigger", 7) || memmem(l, ll, "fifo", 4) || memmem(l, ll, " select ", 8) || memmem(l, ll, " exit ", 6))
      fprintf(h_out, "T %.*s\n", (int)ll, l);
    i = j + 1; }
  fprintf(h_out, "END\n");
}

/* A's byte: watched through the sim's FIFO state by a cheap poll at every pick */
static int pick_watch(int n, int *idx, const char **what) {
  if (!a_wrote && P[2].used) { /* A has passed its write when its pending call is close_fifo or it finished */
    if (P[2].finished || (sim_pending_call[2] && !strcmp(sim_pending_call[2], "close_fifo"))) a_wrote = 1; }
  return pick(n, idx, what);
}

static int next_schedule(void) {     /* DFS successor of made[]; returns 0 when exhausted */
  int i = nmade - 1;
  while (i >= 0 && made[i] + 1 >= branch[i]) i--;
  if (i < 0) return 0;
  for (int k = 0; k < i; k++) sched[k] = made[k];
  sched[i] = made[i] + 1; nsched = i + 1;
  return 1;
}

int main(int argc, char **argv) {
  h_init_out();
  SIM_REGISTER(qs); SIM_REGISTER(qc); SIM_REGISTER(qa); SIM_REGISTER(qb); sim_globals_snapshot();
  if (argc > 1 && !strcmp(argv[1], "-")) {
    char line[2000];
    while (fgets(line, sizeof line, stdin)) {
      char sc[1800]; int snap = 0, var = 0; if (sscanf(line, "%d %1799s %d %d", &ninj, sc, &snap, &var) < 2) continue;
      sim_readdir_snapshot = snap; variant = var;
      nsched = 0; random_mode = 0;
      if (sc[0] != '-') for (char *t = strtok(sc, ","); t && nsched < 256; t = strtok(0, ",")) sched[nsched++] = atoi(t);
      sim_pick = pick_watch; run_once();
    }
    fflush(h_out); return 0;
  }
  int mode = h_argi(argc, argv, 1, 0), limit = h_argi(argc, argv, 2, 1000);
  uint64_t seed = (uint64_t)h_argi(argc, argv, 3, 1);
  int shard = h_argi(argc, argv, 4, 0), nshards = h_argi(argc, argv, 5, 1);
  if (mode == 0) {
    if (shard != 0) return 0;
    ninj = 1; nsched = 0; random_mode = 0;
    for (int runs = 0; runs < limit; runs++) { sim_readdir_snapshot = 0; run_once(); sim_readdir_snapshot = 1; run_once(); if (!next_schedule()) break; }
  } else if (mode == 1) {
    ninj = 2; random_mode = 1;
    for (int r = 0; r < limit; r++) { nsched = 0; sim_readdir_snapshot = r & 1; rng = (seed * 1000003ull + shard) * 2654435761ull + r * 40503ull + 1; run_once(); }
  } else if (mode == 5) {
    /* START-UP leg, two injectors (B starts when A has written), seeded random schedules */
    ninj = 2; random_mode = 1; variant = 1;
    for (int r = 0; r < limit; r++) { nsched = 0; sim_readdir_snapshot = r & 1; rng = (seed * 1000003ull + shard) * 2654435761ull + r * 40503ull + 77; run_once(); }
  } else if (mode == 3 || mode == 4) {
    if (mode == 4) { variant = 1; depth_cap = limit >= 4000 ? 12 : 9; }   /* START-UP leg, one injector: every interleaving of the first depth_cap decisions */
    /* as mode 2 but partitioned by the first THREE decisions (27 subtrees): the same depth-first enumeration spread evenly over the cores */
    ninj = mode == 4 ? 1 : 2; random_mode = 0;
    if (shard >= 27) return 0;
    int fx[3] = { shard % 3, (shard / 3) % 3, (shard / 9) % 3 };
    for (int k = 0; k < 3; k++) sched[k] = fx[k];
    nsched = 3;
    for (int runs = 0; runs < limit; runs++) {
      sim_readdir_snapshot = 0; run_once(); sim_readdir_snapshot = 1; run_once();
      int off = 0; for (int k = 0; k < 3; k++) if (nmade > k && made[k] != fx[k]) off = 1;     /* a forced choice did not exist */
      if (off) break;
      if (!next_schedule()) break;
      if (nsched <= 3) break;                            /* would leave this shard's subtree */
    }
  } else {
    /* exhaustive, partitioned: this shard owns the subtrees whose first two decisions are (shard % 3, (shard / 3) % 3) where they exist */
    ninj = 2; random_mode = 0;
    sched[0] = shard % 3; sched[1] = (shard / 3) % 3; nsched = 2;
    int fixed0 = sched[0], fixed1 = sched[1];
    if (shard >= 9) return 0;
    for (int runs = 0; runs < limit; runs++) {
      sim_readdir_snapshot = 0; run_once(); sim_readdir_snapshot = 1; run_once();
      if (nmade >= 1 && made[0] != fixed0) break;        /* the forced choice did not exist */
      if (nmade >= 2 && made[1] != fixed1) break;
      if (!next_schedule()) break;
      if (nsched <= 2) break;                            /* would leave this shard's subtree */
    }
  }
  fflush(h_out);
  return 0;
}
