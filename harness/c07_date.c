/* C07 date harness: the real datetime.c datetime_tai() and date822fmt.c date822fmt() (unmodified, #included from the
 * scratch build, compiled with ASan+UBSan) on a dense set of instants.
 * usage: c07_date <nrandom> <seed> <shard> <nshards>   |   c07_date -   (lines "DT <t>" / "UB <t>" on stdin; other lines ignored)
 * output, one line per instant:
 *   DT <t> <hour> <min> <sec> <wday> <mday> <yday> <mon> <year+1900> <hex of date822fmt's output>
 *   UB <t> <0|1>     datetime_tai(t) run in a forked child: 1 = the child was killed by the sanitizer (signed overflow),
 *                    0 = it returned.  Only used just outside the supported range (theorem C07_datetime_range). */
#include "hcommon.h"
#include <sys/wait.h>
#include <limits.h>
#include <fcntl.h>
#include "datetime.c"
#include "date822fmt.c"

static void one(long t) {
  struct datetime dt;
  char buf[128];
  memset(&dt, 0x55, sizeof dt);
  datetime_tai(&dt, (datetime_sec)t);
  unsigned int n = date822fmt(buf, &dt);
  fprintf(h_out, "DT %ld %d %d %d %d %d %d %d %ld ", t, dt.hour, dt.min, dt.sec, dt.wday, dt.mday, dt.yday, dt.mon, (long)dt.year + 1900);
  h_hex((unsigned char *)buf, n);
  fputc('\n', h_out);
}

static void ub(long t) {
  fflush(h_out);
  pid_t p = fork();
  if (p == 0) {
    struct datetime dt;
    int fd = open("/dev/null", 1); if (fd >= 0) { dup2(fd, 2); }
    datetime_tai(&dt, (datetime_sec)t);
    _exit(dt.hour == 99 ? 3 : 0);
  }
  int st = 0;
  if (p < 0 || waitpid(p, &st, 0) < 0) return;
  fprintf(h_out, "UB %ld %d\n", t, (WIFEXITED(st) && WEXITSTATUS(st) == 0) ? 0 : 1);
}

/* days from 1970-01-01 of a civil date (harness-side generator only; the oracle is in the driver) */
static long dfc(long y, int m, int d) {
  y -= m <= 2;
  long era = (y >= 0 ? y : y - 399) / 400;
  long yoe = y - era * 400;
  long doy = (153 * (m + (m > 2 ? -3 : 9)) + 2) / 5 + d - 1;
  long doe = yoe * 365 + yoe / 4 - yoe / 100 + doy;
  return era * 146097 + doe - 719468;
}

#define T_LO ((long)(INT_MIN + 11017L) * 86400L)
#define T_HI ((long)(INT_MAX - 4L) * 86400L + 86399L)

static uint64_t id; static int shard, nshards;
static void emit(long t) { if (t < T_LO || t > T_HI) return; if ((int)(id++ % nshards) == shard) one(t); }
static void around(long t) { emit(t - 1); emit(t); emit(t + 1); emit(t + 43200); emit(t + 86399); emit(t + 86400); }

int main(int argc, char **argv) {
  h_init_out();
  if (argc > 1 && !strcmp(argv[1], "-")) {
    static char line[1 << 16];
    while (fgets(line, sizeof line, stdin)) {
      long t;
      if (sscanf(line, "DT %ld", &t) == 1) { if (t >= T_LO && t <= T_HI) one(t); }
      else if (sscanf(line, "UB %ld", &t) == 1) ub(t);
    }
    fflush(h_out);
    return 0;
  }
  int nrandom = h_argi(argc, argv, 1, 1000);
  uint64_t seed = (uint64_t)h_argi(argc, argv, 2, 1);
  shard = h_argi(argc, argv, 3, 0); nshards = h_argi(argc, argv, 4, 1);
  /* (1) every day 1968-01-01 .. 2106-12-31: first and last second */
  for (long d = dfc(1968, 1, 1); d <= dfc(2106, 12, 31); d++) { emit(d * 86400); emit(d * 86400 + 86399); }
  /* (2) Feb 28 / Feb 29 or Mar 1 / Mar 1 / Dec 31 / Jan 1 of every year -430 .. 3030 and of the years around every 400-year
   *     boundary up to the ends of the range; the 1st of every month of the century years */
  for (long y = -430; y <= 3030; y++) {
    around(dfc(y, 2, 28) * 86400); around(dfc(y, 3, 1) * 86400); around(dfc(y, 12, 31) * 86400);
    if (y % 100 == 0) for (int m = 1; m <= 12; m++) around(dfc(y, m, 1) * 86400);
  }
  for (long c = -5870000; c <= 5880000; c += 10000)
    for (long y = c - 1; y <= c + 1; y++) { around(dfc(y, 2, 28) * 86400); around(dfc(y, 12, 31) * 86400); }
  for (long y = -5877600; y <= 5881500; y += 9700) { around(dfc(y, 2, 28) * 86400); around(dfc(y, 3, 1) * 86400); }
  /* (3) the ends of the supported range and the 32-bit time_t ends */
  for (long k = 0; k < 3; k++) { emit(T_LO + k); emit(T_HI - k); emit(T_LO + 86400 * k); emit(T_HI - 86400 * k); }
  around(0); around(-86400); around(2147483647L - 86399); around(-2147483648L); around(4294967296L - 86400);
  if (shard == 0) { ub(T_LO - 1); ub(T_LO - 86400); ub(T_HI + 1); ub(T_HI + 86400); ub(T_LO); ub(T_HI); }
  /* (4) seeded random instants: whole range, +-2^33, +-400 years around 2000 in days */
  h_seed(seed * 1000003ull + 77);
  for (int r = 0; r < nrandom; r++) {
    long t;
    uint64_t x = h_rand();
    switch (r % 4) {
      case 0: t = T_LO + (long)(x % (uint64_t)(T_HI - T_LO)); break;
      case 1: t = (long)(x % (1ull << 34)) - (1l << 33); break;
      case 2: t = (long)(x % (1ull << 32)); break;
      default: t = (dfc(2000, 3, 1) + (long)(x % 292194) - 146097) * 86400 + (long)((x >> 40) % 86400); break;
    }
    emit(t);
  }
  fflush(h_out);
  return 0;
}
