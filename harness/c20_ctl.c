/* C20 harness: HISTORIES of control-file edits and re-reads through the real qmail-send.c getcontrols() / reread() +
 * regetcontrols() / rewrite() / stripvdomprepend() (with the real control.c, constmap.c, qsutil.c), in-process, under
 * ASan+UBSan.  A history is what a running qmail-send sees over its life: start-up, then any number of
 * (edit control files: grow / shrink / remove / make unreadable) ; SIGHUP ; route some recipients.
 * The lookup tables (struct constmap) do not own their keys - they point into the buffer they were built on - so the
 * memory-safety question is about the whole history: which buffer is each table built on, and what do later re-reads
 * (successful, or failing half way) do to that buffer.
 *
 * usage: h_c20_ctl <workdir> <level> <nrandom> <seed> <shard> <nshards>
 *        h_c20_ctl <workdir> -          (cases "H <chunk> <events>" on stdin)
 * output:  H <chunk> <events> : <results> <shadow> inv=<0|1>
 *          X H <chunk> <events> sanitizer                          (sanitizer death callback)
 *   chunk    0, or the largest number of bytes one read() of a control file returns
 *   events   ','-separated:
 *     G             process start: every global of control.c / qmail-send.c as in a fresh process, then getcontrols()
 *     w<i>=<c>      control file i is replaced (0 me, 1 envnoathost, 2 locals, 3 percenthack, 4 virtualdomains);
 *                   <c> = "~" file removed, "-" empty file, else '+'-joined segments <hex> or <hex>x<count> (repeated)
 *     f<i>.<k>.<e>  fault armed for the next G / H only: k = 0 open of file i fails with errno e, k >= 1 the k-th read()
 *                   of file i fails with errno e (e.g. 21 EISDIR = a directory of that name, 13 EACCES, 5 EIO, 40 ELOOP)
 *     H             SIGHUP: reread() (chdir home, regetcontrols(), chdir queue)
 *     r=<c>         one envelope recipient (content syntax as above, NULs dropped): rewrite(), and for a local-channel result stripvdomprepend() of the rewritten
 *                   address (what addbounce() does)
 *   results  ','-separated, one per G / H / r event: g<rc>, h<1 reread took effect | 0 "alert: unable to reread" logged>,
 *            <ret>.<length of rwline>.<FNV-1a of rwline>.<offset stripvdomprepend returned | ->
 *            ("n" = no configuration in force: the daemon would have exited)
 *   shadow   "ok" or "e<epoch>.p<probe>": inv = 1 iff every recipient routed during the history gets the same answer from
 *            a FRESH process started on the configuration that was in force at that point (files of the last start-up,
 *            locals / virtualdomains of the last re-read that took effect).  A table that still points into a scratch
 *            buffer that a later (possibly failing) re-read has overwritten in place is caught here even when no
 *            reallocation happened; when it was reallocated ASan reports the use after free (X line).
 * Recipients are handed over in malloc blocks of exactly their size; the control files are real files in <workdir>/ctl<pid>. */
#include "c20_death.h"
#include <fcntl.h>
#include <errno.h>
#include <sys/stat.h>

static ssize_t ctl_read(int fd, void *buf, size_t n);
static int ctl_open_read(const char *fn);
static ssize_t ctl_logwrite(int fd, const void *b, size_t n);

#define _exit(x) h_exit(x)
#define main qmail_send_main
#define read ctl_read
#define open_read ctl_open_read
#include "control.c"
#include "constmap.c"
#define write ctl_logwrite
#include "qsutil.c"
#undef write
#include "qmail-send.c"
#undef main
#undef _exit
#undef read
#undef open_read

char auto_qmail[4096];           /* replaces auto_qmail.o: the scratch qmail home */

/* ------------------------------------------------------------------ interposed I/O */
#define NF 5
static const char *fnames[NF] = { "control/me", "control/envnoathost", "control/locals", "control/percenthack",
                                  "control/virtualdomains" };
static int fdfile[256], fdreads[256];
static struct { int file, k, err; } fault[8];
static int nfault, g_chunk;
static hbuf logbuf;

static int ctl_open_read(const char *fn) {
  int idx = -1;
  for (int i = 0; i < NF; i++) if (!strcmp(fn, fnames[i])) idx = i;
  for (int j = 0; j < nfault; j++) if (fault[j].file == idx && fault[j].k == 0) { errno = fault[j].err; return -1; }
  int fd = open(fn, O_RDONLY | O_NDELAY);
  if (fd >= 0 && fd < 256) { fdfile[fd] = idx; fdreads[fd] = 0; }
  return fd;
}
static ssize_t ctl_read(int fd, void *buf, size_t n) {
  if (fd >= 0 && fd < 256 && fdfile[fd] >= 0) {
    int k = ++fdreads[fd];
    for (int j = 0; j < nfault; j++) if (fault[j].file == fdfile[fd] && fault[j].k == k) { errno = fault[j].err; return -1; }
    if (g_chunk > 0 && n > (size_t)g_chunk) n = (size_t)g_chunk;
  }
  return read(fd, buf, n);
}
static ssize_t ctl_logwrite(int fd, const void *b, size_t n) { if (logbuf.n < 65536) hbuf_add(&logbuf, b, n); return (ssize_t)n; }

/* ------------------------------------------------------------------ state of one history */
typedef struct { int present; hbuf b; } cfile;
static cfile cur[NF];                       /* what is on disk now */
#define MAXEP 40
static struct { cfile f[NF]; int used; } ep[MAXEP];   /* configurations that were in force */
static int nep, curep, cfg_ok;
#define MAXPROBE 400
static struct { int ep; hbuf recip; hbuf res; } pr[MAXPROBE];
static int npr;
static hbuf results;

static void die(const char *m) { if (h_out) fflush(h_out); fprintf(stderr, "c20_ctl: %s: %s\n", m, strerror(errno)); exit(2); }

static void cf_copy(cfile *d, const cfile *s);
static cfile disk[NF];                      /* what put_file last wrote: an identical request is skipped */
static void put_file(int i, const cfile *f) {
  char path[4400];
  if (disk[i].present == f->present && disk[i].b.n == f->b.n && (!f->b.n || !memcmp(disk[i].b.p, f->b.p, f->b.n))) return;
  cf_copy(&disk[i], f);
  snprintf(path, sizeof path, "%s/%s", auto_qmail, fnames[i]);
  if (!f->present) { if (unlink(path) == -1 && errno != ENOENT) die(path); return; }
  int fd = open(path, O_WRONLY | O_CREAT | O_TRUNC, 0644);
  if (fd < 0) die(path);
  for (size_t off = 0; off < f->b.n;) {
    ssize_t w = write(fd, f->b.p + off, f->b.n - off);
    if (w < 0) { if (errno == EINTR) continue; die(path); }
    off += (size_t)w;
  }
  close(fd);
}
static void cf_copy(cfile *d, const cfile *s) { d->present = s->present; hbuf_reset(&d->b); hbuf_add(&d->b, s->b.p, s->b.n); }

static void sa_free(stralloc *s) { free(s->s); s->s = 0; s->len = s->a = 0; }
/* every global the code under test keeps between calls, as in a process that has just started */
static void fresh_process(void) {
  constmap_free(&maplocals); constmap_free(&mappercenthack); constmap_free(&mapvdoms);
  memset(&maplocals, 0, sizeof maplocals); memset(&mappercenthack, 0, sizeof mappercenthack); memset(&mapvdoms, 0, sizeof mapvdoms);
  sa_free(&me); sa_free(&line); meok = 0;
  sa_free(&locals); sa_free(&vdoms); sa_free(&percenthack); sa_free(&envnoathost); sa_free(&newlocals); sa_free(&newvdoms);
  sa_free(&bouncefrom); sa_free(&bouncehost); sa_free(&doublebouncehost); sa_free(&doublebounceto); sa_free(&rwline);
  cfg_ok = 0;
}
static int start_process(void) {
  fresh_process();
  if (chdir(auto_qmail) == -1) die("chdir home");
  cfg_ok = getcontrols();
  if (chdir("queue") == -1) die("chdir queue");
  return cfg_ok;
}

static void hexadd(hbuf *b, const unsigned char *p, size_t n) {
  static const char d[] = "0123456789abcdef";
  if (!n) { hbuf_add(b, "-", 1); return; }
  for (size_t i = 0; i < n; i++) { char c[2] = { d[p[i] >> 4], d[p[i] & 15] }; hbuf_add(b, c, 2); }
}
/* route one recipient under the tables now in force; the answer as text: <ret>.<len of rwline>.<FNV-1a of rwline>.<offset
 * stripvdomprepend() returned into the rewritten address | -> */
static void route(const unsigned char *r, size_t n, hbuf *out) {
  char hd[64];
  hbuf_reset(out);
  if (!cfg_ok) { hbuf_add(out, "n", 1); return; }
  char *x = malloc(n + 1); if (n) memcpy(x, r, n); x[n] = 0;
  int ret = rewrite(x);
  free(x);
  uint32_t h = 2166136261u; size_t rl = ret ? rwline.len : 0;
  for (size_t i = 0; i < rl; i++) h = (h ^ (unsigned char)rwline.s[i]) * 16777619u;
  hbuf_add(out, hd, (size_t)snprintf(hd, sizeof hd, "%d.%zu.%08x.", ret, rl, h));
  if (ret == 1 && rwline.len >= 2) {
    size_t l = rwline.len - 2;                       /* between the T and the NUL */
    char *y = malloc(l + 1); memcpy(y, rwline.s + 1, l); y[l] = 0;
    char *sp = stripvdomprepend(y);
    hbuf_add(out, hd, (size_t)snprintf(hd, sizeof hd, "%ld", (long)(sp - y)));
    free(y);
  } else hbuf_add(out, "-", 1);
}

static int hv(int c) { return c >= '0' && c <= '9' ? c - '0' : c >= 'a' && c <= 'f' ? c - 'a' + 10 : -1; }
/* "~" | "-" | seg+seg..., seg = hex | hex 'x' count */
static int parse_content(const char *s, const char *e, cfile *f) {
  hbuf_reset(&f->b); f->present = 1;
  if (e - s == 1 && *s == '~') { f->present = 0; return 1; }
  if (e - s == 1 && *s == '-') return 1;
  while (s < e) {
    size_t start = f->b.n;
    while (s + 1 < e && hv(s[0]) >= 0 && hv(s[1]) >= 0) { unsigned char c = (unsigned char)(hv(s[0]) * 16 + hv(s[1])); hbuf_add(&f->b, &c, 1); s += 2; }
    if (s < e && *s == 'x') {
      unsigned long cnt = 0; s++;
      while (s < e && *s >= '0' && *s <= '9') cnt = cnt * 10 + (unsigned long)(*s++ - '0');
      size_t l = f->b.n - start;
      if (cnt > 4000000 || (cnt && l * cnt > 8000000)) return 0;
      if (!cnt) f->b.n = start;
      if (cnt > 1) { hbuf_add(&f->b, "", 0); size_t need = start + l * cnt; if (need > f->b.cap) { f->b.cap = need + 64; f->b.p = realloc(f->b.p, f->b.cap); } }
      for (unsigned long k = 1; k < cnt; k++) hbuf_add(&f->b, f->b.p + start, l);
    }
    if (s < e) { if (*s != '+') return 0; s++; }
  }
  return 1;
}

static void new_epoch(int from_start) {
  if (nep >= MAXEP) { curep = -1; return; }
  if (from_start) for (int i = 0; i < NF; i++) cf_copy(&ep[nep].f[i], &cur[i]);
  else {
    for (int i = 0; i < NF; i++) cf_copy(&ep[nep].f[i], &ep[curep].f[i]);
    cf_copy(&ep[nep].f[2], &cur[2]); cf_copy(&ep[nep].f[4], &cur[4]);
  }
  ep[nep].used = 0; curep = nep++;
}

static void run_history(int chunk, const char *events) {
  static hbuf tmp; static cfile cf;
  char hd[64];
  size_t el = strlen(events);
  if (el + 64 >= sizeof c20_cur) return;
  snprintf(c20_cur, sizeof c20_cur, "H %d %s", chunk, events);
  g_chunk = chunk; nfault = 0; nep = 0; curep = -1; npr = 0; hbuf_reset(&results);
  for (int i = 0; i < NF; i++) { cur[i].present = 0; hbuf_reset(&cur[i].b); put_file(i, &cur[i]); }
  fresh_process();
  for (const char *s = events; *s;) {
    const char *e = strchr(s, ','); if (!e) e = s + strlen(s);
    if (results.n && (s[0] == 'G' || s[0] == 'H' || s[0] == 'r')) hbuf_add(&results, ",", 1);
    if (s[0] == 'G' && e - s == 1) {
      hbuf_reset(&logbuf);
      int ok = start_process();
      nfault = 0;
      hbuf_add(&results, hd, (size_t)snprintf(hd, sizeof hd, "g%d", ok));
      if (ok) new_epoch(1); else curep = -1;
    } else if (s[0] == 'H' && e - s == 1) {
      if (!cfg_ok) hbuf_add(&results, "n", 1);
      else {
        hbuf_reset(&logbuf);
        reread();
        nfault = 0;
        int took = !(logbuf.n >= 6 && !memcmp(logbuf.p, "alert:", 6));
        hbuf_add(&results, took ? "h1" : "h0", 2);
        if (took && curep >= 0) new_epoch(0);
      }
    } else if (s[0] == 'w' && e - s >= 4 && s[1] >= '0' && s[1] < '0' + NF && s[2] == '=') {
      int i = s[1] - '0';
      if (parse_content(s + 3, e, &cf)) { cf_copy(&cur[i], &cf); put_file(i, &cur[i]); }
    } else if (s[0] == 'f') {
      int i, k, er;
      if (sscanf(s, "f%d.%d.%d", &i, &k, &er) == 3 && i >= 0 && i < NF && k >= 0 && er > 0 && nfault < 8) { fault[nfault].file = i; fault[nfault].k = k; fault[nfault].err = er; nfault++; }
    } else if (s[0] == 'r' && s[1] == '=') {
      hbuf_reset(&tmp);
      if (parse_content(s + 2, e, &cf) && cf.present) for (size_t q = 0; q < cf.b.n; q++) if (cf.b.p[q]) hbuf_add(&tmp, cf.b.p + q, 1);
      if (npr < MAXPROBE) {
        hbuf_reset(&pr[npr].recip); hbuf_add(&pr[npr].recip, tmp.p, tmp.n);
        route(tmp.p, tmp.n, &pr[npr].res);
        pr[npr].ep = cfg_ok ? curep : -1;
        if (pr[npr].ep >= 0) ep[pr[npr].ep].used = 1;
        hbuf_add(&results, pr[npr].res.p, pr[npr].res.n);
        npr++;
      } else hbuf_add(&results, "n", 1);
    }
    s = *e ? e + 1 : e;
  }
  /* shadow pass: a fresh process on each configuration that was in force must route every recipient the same way */
  int inv = 1; char shadow[48] = "ok";
  nfault = 0;
  for (int k = 0; k < nep && inv; k++) {
    if (!ep[k].used) continue;
    for (int i = 0; i < NF; i++) put_file(i, &ep[k].f[i]);
    if (!start_process()) { inv = 0; snprintf(shadow, sizeof shadow, "e%d.start", k); break; }
    for (int p = 0; p < npr; p++) {
      if (pr[p].ep != k) continue;
      route(pr[p].recip.p, pr[p].recip.n, &tmp);
      if (tmp.n != pr[p].res.n || memcmp(tmp.p, pr[p].res.p, tmp.n)) { inv = 0; snprintf(shadow, sizeof shadow, "e%d.p%d", k, p); break; }
    }
  }
  if (!results.n) hbuf_add(&results, "-", 1);
  fprintf(h_out, "%s : ", c20_cur); fwrite(results.p, 1, results.n, h_out);
  fprintf(h_out, " %s inv=%d\n", shadow, inv);
  c20_cur[0] = 0;
}

/* ------------------------------------------------------------------ generators */
static hbuf ev;                  /* the history under construction */
static void evs(const char *s) { hbuf_add(&ev, s, strlen(s)); }
static void evsep(void) { if (ev.n) hbuf_add(&ev, ",", 1); }
/* content syntax of the w / r events: runs of 16 or more equal bytes become <hex>x<count> segments */
static void evhex(const char *s, size_t n) {
  int first = 1, open = 0; char t[32];
  for (size_t i = 0; i < n;) {
    size_t j = i; while (j < n && s[j] == s[i]) j++;
    if (j - i >= 16) { if (!first) evs("+"); hexadd(&ev, (const unsigned char *)s + i, 1); snprintf(t, sizeof t, "x%zu", j - i); evs(t); first = 0; open = 0; }
    else { if (!open && !first) evs("+"); open = 1; first = 0; hexadd(&ev, (const unsigned char *)s + i, j - i); }
    i = j;
  }
}
static void ev_event(const char *s) { evsep(); evs(s); }
static void ev_fault(int file, int k, int err) { char t[48]; snprintf(t, sizeof t, "f%d.%d.%d", file, k, err); ev_event(t); }
static void ev_probe(const char *r) { evsep(); evs("r="); evhex(r, strlen(r)); }

/* domain names: dom(k) is short for k < 100; k = 1000 + L is one label of L bytes (".e" appended) */
static void dom(int k, char *o) {
  if (k < 1000) { sprintf(o, "d%d.ex", k); return; }
  int L = k - 1000; memset(o, 'a' + (L % 23), (size_t)L); strcpy(o + L, ".e");
}
static const int LONGL[] = { 29, 31, 62, 65, 99, 101, 127, 129, 999, 1001, 1100, 4000 };

/* one content of locals (file 2) or virtualdomains (file 4) of size class c; the domains used are appended to used[] */
static int used[400], nused;
static void use(int k) { for (int i = 0; i < nused; i++) if (used[i] == k) return; if (nused < 400) used[nused++] = k; }
static void seg_line(int file, int k, int style) {   /* one line for domain k */
  static char d[5000], l[5200];
  dom(k, d); use(k);
  if (file == 2) snprintf(l, sizeof l, "%s%s\n", d, style == 1 ? " \t" : "");
  else switch (style % 4) {
    case 0: snprintf(l, sizeof l, "%s:p%d\n", d, k % 7); break;
    case 1: snprintf(l, sizeof l, ".%s:w%d\n", d, k % 5); break;
    case 2: snprintf(l, sizeof l, "u@%s:v\n", d); break;
    default: snprintf(l, sizeof l, "%s:\n", d); break;
  }
  evhex(l, strlen(l));
}
static void ev_write(int file, int cls, int base) {
  char t[64];
  evsep(); snprintf(t, sizeof t, "w%d=", file); evs(t);
  switch (cls) {
    case 0: evs("~"); break;
    case 1: evs("-"); break;
    case 2: seg_line(file, base, 0); break;
    case 3: for (int i = 0; i < 3; i++) { if (i) evs("+"); seg_line(file, base + i, i); } break;                /* ~25-35 bytes */
    case 4: for (int i = 0; i < 12; i++) { if (i) evs("+"); seg_line(file, base + i, i); } break;               /* > 100 bytes */
    case 5: for (int i = 0; i < 140; i++) { if (i) evs("+"); seg_line(file, (base + i) % 100, i); } break;      /* > 1000 bytes, 140 keys */
    case 6: seg_line(file, base, 0); evs("+"); evhex("# comment\n\n \t\n", 14); evs("+"); seg_line(file, base + 1, 1);
            evs("+"); { char d[64]; dom(base + 2, d); use(base + 2); evhex(d, strlen(d)); if (file == 4) evhex(":q", 2); } break;   /* no final newline */
    case 7: seg_line(file, base, 0); evs("x3000"); break;                                                       /* one key 3000 times */
    case 8: seg_line(file, base, 0); evs("+"); evhex("#", 1); evs("+"); evhex("c", 1); evs("x5000+"); evhex("\n", 1); evs("+"); seg_line(file, base + 1, 0); break;
    default: seg_line(file, 1000 + LONGL[(cls - 9) % 12], base); evs("+"); seg_line(file, base, 0); break;      /* a long line */
  }
}
/* used[seg[j] .. seg[j+1]) = the domains first written between the j-th and the (j+1)-th start / re-read: the probes of the
 * enumerated histories take turns over ALL of these segments (newest first), so that entries of every earlier
 * configuration - in force or not - are looked up after every step */
static int seg[64], nseg;
static void ev_go(const char *e) { ev_event(e); if (nseg < 64) seg[nseg++] = nused; }
static void ev_probes(int n, int extra) {
  static char d[5000], r[5300];
  for (int i = 0; i < n && nused; i++) {
    int k;
    if (extra < 0) {
      int ns = 0, lo[66], hi[66], a = 0;
      for (int j = 0; j <= nseg; j++) { int b = j < nseg ? seg[j] : nused; if (b > a) { lo[ns] = a; hi[ns] = b; ns++; } a = b > a ? b : a; }
      int sgi = ns - 1 - i % ns, within = i / ns;
      int sz = hi[sgi] - lo[sgi], w = (within / 2) % sz;
      k = used[within % 2 ? hi[sgi] - 1 - w : lo[sgi] + w];
    } else k = used[h_below((uint32_t)nused)];
    dom(k, d);
    switch (extra < 0 ? (i / 2) % 4 : (int)h_below(6)) {
      case 0: case 4: snprintf(r, sizeof r, "u@%s", d); break;
      case 1: snprintf(r, sizeof r, "v@sub.%s", d); break;
      case 2: snprintf(r, sizeof r, "p%d-x@%s", k % 7, d); break;
      case 3: snprintf(r, sizeof r, "u%%%s@d%d.ex", d, k % 50); break;
      default: { for (char *q = d; *q; q++) if (*q >= 'a' && *q <= 'z' && h_below(3) == 0) *q -= 32; snprintf(r, sizeof r, "U@%s", d); break; }
    }
    ev_probe(r);
  }
  ev_probe("u@never.ex"); ev_probe("plain");
}
static uint64_t g_id; static int g_shard, g_nshards = 1;
static void emit_history(int chunk) {
  hbuf_add(&ev, "", 1);
  if ((int)(g_id++ % (uint64_t)g_nshards) == g_shard) run_history(chunk, (const char *)ev.p);
  hbuf_reset(&ev); nused = 0; nseg = 0;
}

/* seed-independent: <pre> successful re-reads, each with its own sizes, then a re-read that fails at one point of one
 * file, recipients of old and new entries, then (tail) nothing / a successful re-read / a second failing one / a restart */
static const int FERR[] = { 13 /*EACCES*/, 21 /*EISDIR*/, 5 /*EIO*/, 40 /*ELOOP*/ };
static void enumerated(int level) {
  /* size classes of (locals, virtualdomains) along the history: start, pre-reads, failing read, tail read */
  static const int SEQ[][4] = { {2, 3, 4, 5}, {2, 4, 5, 3}, {5, 4, 3, 2}, {3, 3, 3, 3}, {4, 6, 9, 18}, {2, 7, 8, 5}, {1, 2, 14, 4}, {0, 3, 5, 0},
                                {3, 5, 16, 20}, {6, 10, 12, 4}, {4, 5, 7, 8}, {2, 19, 5, 2} };
  static const struct { int file, k; } FP[] = { {-1, 0}, {2, 0}, {2, 1}, {2, 2}, {2, 9}, {4, 0}, {4, 1}, {4, 3}, {4, 30} };
  int nseq = level < 2 ? 8 : 12;
  for (int pre = 0; pre <= 2; pre++)
    for (int sq = 0; sq < nseq; sq++)
      for (int fp = 0; fp < 9; fp++)
        for (int tail = 0; tail < 4; tail++)
          for (int vsame = 0; vsame < 2; vsame++) {
            const int *S = SEQ[sq];
            int chunk = (pre + sq + fp + tail) % 3 == 0 ? 0 : (pre + sq + fp) % 2 ? 7 : 64;
            if (level < 2 && vsame && (sq + fp + tail) % 2) continue;
            ev_event("w0=" "6d652e65780a");                                     /* me.ex */
            if (sq % 3) ev_event("w3=" "6431322e65780a" "+" "64332e65780a");   /* percenthack d12.ex d3.ex */
            ev_write(2, S[0], 0);
            ev_write(4, vsame ? S[0] : S[1], 10);
            ev_go("G"); ev_probes(4, -1);
            for (int p = 0; p < pre; p++) {
              ev_write(2, S[1 + (p > 0)], 20 + 7 * p); ev_write(4, vsame ? S[1 + (p > 0)] : S[2 - (p > 0)], 30 + 7 * p);
              ev_go("H"); ev_probes(5, -1);
            }
            ev_write(2, S[2], 40); ev_write(4, vsame ? S[2] : S[3], 50);
            if (FP[fp].file >= 0) ev_fault(FP[fp].file, FP[fp].k, FERR[(sq + fp + tail) % 4]);
            ev_go("H"); ev_probes(8, -1);
            switch (tail) {
              case 0: break;
              case 1: ev_write(2, S[3], 60); ev_go("H"); ev_probes(6, -1); break;
              case 2: ev_write(2, S[3], 60); ev_write(4, S[2], 70); ev_fault(fp % 2 ? 2 : 4, 1 + fp % 3, FERR[(fp + 1) % 4]); ev_go("H"); ev_probes(8, -1);
                      ev_go("H"); ev_probes(4, -1); break;
              default: ev_go("G"); ev_probes(4, -1); ev_write(2, S[1], 80); ev_fault(4, 0, 13); ev_go("H"); ev_probes(6, -1); break;
            }
            emit_history(chunk);
          }
  /* faults at start-up: every file, open and first / second read; then a clean start */
  for (int f = 0; f < NF; f++)
    for (int k = 0; k < 3; k++)
      for (int c = 2; c < (level < 2 ? 6 : 12); c++) {
        ev_event("w0=" "6d652e65780a"); ev_event("w1=" "656e762e65780a"); ev_write(2, c, 0); ev_event("w3=" "64312e65780a"); ev_write(4, c, 5);
        ev_fault(f, k, FERR[(f + k + c) % 4]); ev_go("G"); ev_probes(2, -1); ev_go("H"); ev_go("G"); ev_probes(4, -1);
        ev_write(2, c + 1, 9); ev_go("H"); ev_probes(4, -1);
        emit_history(k == 2 ? 5 : 0);
      }
  /* no control/me, no control/locals; locals removed later (falls back to me); virtualdomains removed / recreated */
  for (int v = 0; v < 12; v++) {
    if (v & 1) ev_event("w0=" "6d652e65780a");
    if (v & 2) ev_write(2, 3, 0);
    if (v & 4) ev_write(4, 4, 0);
    ev_go("G"); ev_probe("u@me.ex"); ev_probes(3, -1);
    ev_write(2, v < 8 ? 0 : 5, 10); ev_write(4, v & 4 ? 0 : 5, 10); ev_go("H"); ev_probe("u@me.ex"); ev_probes(4, -1);
    ev_write(2, 4, 20); ev_write(4, 4, 20); ev_fault(4, 1, 21); ev_go("H"); ev_probe("u@me.ex"); ev_probes(6, -1);
    ev_event("w0=~"); ev_write(2, 0, 0); ev_go("H"); ev_probe("u@me.ex"); ev_probes(6, -1);
    emit_history(v % 3 ? 0 : 3);
  }
}

/* seeded: 2..7 steps, each (edit some files with a random size class) ; maybe a fault at a random file and point ; HUP
 * (sometimes a restart) ; recipients drawn from every domain the history has used so far */
static void random_history(void) {
  ev_event(h_below(8) ? "w0=" "6d652e65780a" : "w0=~");
  if (h_below(3)) ev_event("w1=" "656e762e65780a");
  if (h_below(2)) ev_event("w3=" "64312e65780a" "+" "6431312e65780a");
  ev_write(2, h_below(8) ? 1 + (int)h_below(20) : 0, (int)h_below(60));
  ev_write(4, (int)h_below(21), (int)h_below(60));
  if (h_below(12) == 0) ev_fault((int)h_below(NF), (int)h_below(3), FERR[h_below(4)]);
  ev_go("G"); ev_probes(2 + (int)h_below(4), 0);
  int steps = 2 + (int)h_below(6);
  for (int s = 0; s < steps; s++) {
    if (h_below(5)) ev_write(2, h_below(10) ? 1 + (int)h_below(20) : 0, (int)h_below(60));
    if (h_below(4)) ev_write(4, (int)h_below(21), (int)h_below(60));
    if (h_below(25) == 0) ev_event(h_below(2) ? "w0=~" : "w0=" "6f746865722e65780a");
    if (h_below(5) < 2) {
      int f = h_below(6) ? (h_below(2) ? 2 : 4) : (int)h_below(NF);
      static const int K[] = { 0, 1, 1, 2, 3, 5, 9, 17, 40, 80 };
      ev_fault(f, K[h_below(10)], FERR[h_below(4)]);
    }
    ev_go(h_below(15) ? "H" : "G");
    ev_probes(3 + (int)h_below(6), 0);
  }
  static const int CH[] = { 0, 0, 0, 0, 5, 13, 63, 64 };
  emit_history(CH[h_below(8)]);
}

int main(int argc, char **argv) {
  if (argc < 3) { fprintf(stderr, "usage: c20_ctl workdir (level nrandom seed shard nshards | -)\n"); return 2; }
  h_init_out();
  c20_install_death();
  for (int i = 0; i < 256; i++) fdfile[i] = -1;
  char t[4400];
  mkdir(argv[1], 0755);
  if (!realpath(argv[1], t)) die(argv[1]);
  snprintf(auto_qmail, sizeof auto_qmail, "%s/ctl%ld", t, (long)getpid());
  if (mkdir(auto_qmail, 0755) == -1 && errno != EEXIST) die(auto_qmail);
  snprintf(t, sizeof t, "%s/control", auto_qmail); if (mkdir(t, 0755) == -1 && errno != EEXIST) die(t);
  snprintf(t, sizeof t, "%s/queue", auto_qmail); if (mkdir(t, 0755) == -1 && errno != EEXIST) die(t);
  if (!strcmp(argv[2], "-")) {
    char *line = 0; size_t cap = 0; ssize_t n;
    while ((n = getline(&line, &cap, stdin)) > 0) {
      int chunk, used_ = 0;
      if (line[0] != 'H' || line[1] != ' ' || sscanf(line, "H %d %n", &chunk, &used_) < 1 || !used_) continue;
      char *e = line + used_; e[strcspn(e, " \r\n")] = 0;
      run_history(chunk, e);
    }
    free(line);
  } else {
    int level = atoi(argv[2]); long nrandom = h_argi(argc, argv, 3, 0); uint64_t seed = (uint64_t)h_argi(argc, argv, 4, 1);
    g_shard = h_argi(argc, argv, 5, 0); g_nshards = h_argi(argc, argv, 6, 1);
    if (g_nshards < 1 || g_shard < 0 || g_shard >= g_nshards) { fprintf(stderr, "c20_ctl: bad shard\n"); return 2; }
    h_seed(12345);                 /* the enumerated histories draw nothing, but keep the stream defined */
    enumerated(level);
    h_seed(seed * 1000003ull + 31 * (uint64_t)g_shard + 7);
    long mine = nrandom / g_nshards + (g_shard < nrandom % g_nshards);
    g_nshards = 1; g_shard = 0;
    for (long c = 0; c < mine; c++) random_history();
  }
  fflush(h_out);
  for (int i = 0; i < NF; i++) { snprintf(t, sizeof t, "%s/%s", auto_qmail, fnames[i]); unlink(t); }
  snprintf(t, sizeof t, "%s/control", auto_qmail); rmdir(t);
  snprintf(t, sizeof t, "%s/queue", auto_qmail); rmdir(t);
  if (chdir("/") == 0) rmdir(auto_qmail);
  return 0;
}
