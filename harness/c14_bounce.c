/* C14 correspondence harness: the real qmail-send.c bounce machinery
 *   stripvdomprepend(), addbounce(), del_dochan() (report -> addbounce), getcontrols(), injectbounce()
 * run in-process against a small in-memory file system (open_read/open_append/open_write, read, write,
 * close, stat, fstat, unlink, sleep, time are defined here and win over libc at link time), with
 * qmail.o, qsutil.o and control.o replaced: qmail_* capture the message handed to qmail-queue, log*
 * capture the log, control.c is #included so that its static `meok` can be reset per configuration.
 *
 * usage: c14_bounce <replen> <rcplen> <nrandom> <seed> <shard> <nshards>
 *        c14_bounce -            cases "<kind> <blobhex>" on stdin (kind = P | I | C | D)
 * A case is one blob: fields separated by NUL bytes (all fields are C strings in the real program).
 *   P: vdomsfile recip report [wmode [localsfile [mode]]]
 *      mode 'L' (default): addbounce(id,recip,report,1) on recip as given (a local-channel record); 'R': flagstrip 0 (a remote-channel
 *      record); 'A': recip is an ORIGINAL address: the real rewrite() decides channel and stored form, addbounce gets those
 *   I: flags me bouncefrom bouncehost doublebounceto doublebouncehost virtualdomains locals fault sender mess {recip report}*
 *      every recip is an ORIGINAL address: the real rewrite() (controls as read by getcontrols()) gives channel and stored form,
 *      addbounce(id,stored,report,channel == local) is what del_dochan would call
 *   Q: like I, but the fault field is "<exitcode>,<signal>": only in the binary built with -DC14_REALQQ, which links the REAL
 *      qmail.c: qmail_open() forks and execs $QMAILQUEUE (= harness/c07_qq.c, the scripted stand-in for qmail-queue that records
 *      what it was given on descriptor 100, then exits with that code or kills itself with that signal); second call scripted 0,0
 *      flags = subset of "mfhtdvl" (which control files exist; with neither m nor l, control/locals is "localhost",
 *      because getcontrols() refuses to start without me and locals); fault = one of "-abcdefghi"
 *   C: like I (fault ignored): follows message -> bounce -> double bounce -> ... (at most 6 steps)
 *   D: flags recip raw chunk [vdomsfile [localsfile]]   flags[0]='1' job is dying; raw = status byte + text from the spawner
 * output, one line per case (hex fields, "-" = empty):
 *   P <blob> <stripped> <text> <sleeps> <flagstrip> <stored>      stripped = stripvdomprepend(stored)
 *   I <id> <blob> <bouncefile> <ret> <q> <F> <T> <body> <left> <log> <ret2> <q2> <F2> <T2> <body2|=> <left2> <log2> <sizes> <routes>
 *      routes = per failure "<flagstrip>:<stored hex>", comma separated ("-" if none)
 *   Q <blob> <bouncefile> <ret> <left> <rec> <msg> <env> <ret2> <left2> <rec2> <msg2> <env2> <routes> <fault> <log> <log2>     rec = the stand-in ran and recorded;
 *      fault = "-" or "<o|r>:<k>:<fired>:<file b|m|i>:<bytes of the file read before>" (Q fault field "<exit>,<signal>,<o|r><k>": the k-th open_read()/read()
 *      of a queue file inside the first injectbounce() fails)
 *      sizes = size of bounce/<id> after each addbounce() call, comma separated ("-" if none): the driver cuts the file
 *      into the texts the real addbounce() calls appended and replays the whole life of the message (arrival, D reports,
 *      appendBounce with these texts, the injection(s) with the real envelope/body, unlink) through the daemon monitor
 *   C <blob> <n> <sender0> {<F> <T>}*n
 *   D <blob> <appended> <order> <markbyte>     order = sequence of writes: 'a' to bounce/<id>, 'M' to the channel file ("-" = none); markbyte = first byte of the channel record afterwards
 *   X <kind> <blob>         the implementation crashed / a sanitizer fired while running this case */
#include "hcommon.h"
#include <sys/stat.h>
#include <sys/syscall.h>
#include <errno.h>
#include <time.h>
#include <fcntl.h>

#define DEPRECATED_FUNCTIONS_REMOVED
#define _exit(x) h_exit(x)
#define main qmail_send_main
#include "qmail-send.c"
#undef main
#include "control.c"
#undef _exit

static void hb_add(hbuf *b, const void *s, size_t n) { if (n) hbuf_add(b, s, n); }   /* memcpy(NULL,..,0) is UB */

/* ------------------------------------------------------------------ in-memory files */
#define NVF 32
typedef struct { char name[96]; hbuf d; int exists; } vfile;
static vfile vf[NVF];
typedef struct { vfile *f; size_t pos; int used; int app; } vfd;
#define NFD 16
#define FD0 700
static vfd vfds[NFD];

static vfile *vf_get(const char *name, int create) {
  int i, fr = -1;
  for (i = 0; i < NVF; i++) {
    if (vf[i].name[0]) { if (!strcmp(vf[i].name, name)) return &vf[i]; }
    else if (fr < 0) fr = i;
  }
  if (!create || fr < 0) return 0;
  strncpy(vf[fr].name, name, sizeof vf[fr].name - 1);
  vf[fr].exists = 0; vf[fr].d.n = 0;
  return &vf[fr];
}
static void vf_reset(void) {
  int i;
  for (i = 0; i < NVF; i++) { vf[i].name[0] = 0; vf[i].exists = 0; vf[i].d.n = 0; }
  for (i = 0; i < NFD; i++) vfds[i].used = 0;
}
static void vf_put(const char *name, const void *p, size_t n) {
  vfile *f = vf_get(name, 1);
  f->exists = 1; f->d.n = 0; hb_add(&f->d, p, n);
}
static int vf_exists(const char *name) { vfile *f = vf_get(name, 0); return f && f->exists; }
static int vfd_new(vfile *f, int app) {
  int i;
  for (i = 0; i < NFD; i++) if (!vfds[i].used) { vfds[i].used = 1; vfds[i].f = f; vfds[i].pos = 0; vfds[i].app = app; return FD0 + i; }
  errno = EMFILE; return -1;
}
static vfd *vfd_of(int fd) { return (fd >= FD0 && fd < FD0 + NFD && vfds[fd - FD0].used) ? &vfds[fd - FD0] : 0; }

/* fault plan */
static const char *flt_open_fail, *flt_read_fail, *flt_stat_fail;
static long flt_read_after;
static int flt_unlink_fail, flt_qq_open_fail, flt_qq_close_fail;
static int wmode, wmode_fired, nsleeps;
static int readchunk;                 /* D cases: bytes per read() on the spawner descriptor */
static const unsigned char *spawn_p; static size_t spawn_n, spawn_pos;
static void faults_clear(void) {
  flt_open_fail = flt_read_fail = flt_stat_fail = 0; flt_read_after = 0;
  flt_unlink_fail = flt_qq_open_fail = flt_qq_close_fail = 0; wmode = 0; wmode_fired = 0;
}

/* Q leg (session 4): fail the k-th open_read() / the k-th read() on a queue file, counted from the start of injectbounce() */
static int qf_kind, qf_idx, qf_cnt_o, qf_cnt_r, qf_fired; static char qf_target; static size_t qf_pos;
static void qf_hit(const char *name, size_t pos) {
  qf_fired = 1; qf_pos = pos;
  qf_target = strstr(name, "bounce/") ? 'b' : strstr(name, "mess/") ? 'm' : strstr(name, "info/") ? 'i' : 'x';
}
int open_read(const char *fn) {
  vfile *f;
  if (qf_kind) { int k = qf_cnt_o++; if (qf_kind == 'o' && k == qf_idx) { qf_hit(fn, 0); errno = ENFILE; return -1; } }
  if (flt_open_fail && strstr(fn, flt_open_fail)) { errno = EACCES; return -1; }
  f = vf_get(fn, 0);
  if (!f || !f->exists) { errno = ENOENT; return -1; }
  return vfd_new(f, 0);
}
int open_write(const char *fn) {
  vfile *f = vf_get(fn, 0);
  if (!f || !f->exists) { errno = ENOENT; return -1; }
  return vfd_new(f, 0);
}
int open_append(const char *fn) {
  vfile *f;
  if (wmode == 4 && !wmode_fired) { wmode_fired = 1; errno = EIO; return -1; }
  f = vf_get(fn, 1);
  if (!f) { errno = ENOSPC; return -1; }
  f->exists = 1;
  return vfd_new(f, 1);
}
ssize_t read(int fd, void *buf, size_t n) {
  vfd *v = vfd_of(fd);
  size_t k;
  if (!v) {
    if (spawn_p && (fd == 2 || fd == 4)) {           /* chanfdin[]: the spawner's reports */
      k = spawn_n - spawn_pos; if (k > n) k = n; if (readchunk > 0 && k > (size_t)readchunk) k = readchunk;
      if (k) memcpy(buf, spawn_p + spawn_pos, k); spawn_pos += k; return k;
    }
    return syscall(SYS_read, fd, buf, n);
  }
  if (qf_kind) { int k = qf_cnt_r++; if (qf_kind == 'r' && k == qf_idx) { qf_hit(v->f->name, v->pos); errno = EIO; return -1; } }
  if (flt_read_fail && strstr(v->f->name, flt_read_fail)) {
    if ((long)v->pos >= flt_read_after) { errno = EIO; return -1; }
    if ((long)(v->pos + n) > flt_read_after) n = flt_read_after - v->pos;
  }
  k = v->f->d.n - v->pos; if (k > n) k = n;
  if (k) memcpy(buf, v->f->d.p + v->pos, k); v->pos += k;
  return k;
}
/* D leg (session 4): the order in which del_dochan() writes the failure record ('a' = a write() to bounce/<id>) and the done-mark
   ('M' = a write() to the channel file local|remote/<split>/<id>); consecutive repeats are written once */
static char ord[16]; static int ordn;
static void ord_add(char c) { if ((ordn == 0 || ord[ordn - 1] != c) && ordn < (int)sizeof ord - 1) ord[ordn++] = c; ord[ordn] = 0; }
ssize_t write(int fd, const void *buf, size_t n) {
  vfd *v = vfd_of(fd);
  if (!v) return syscall(SYS_write, fd, buf, n);
  if (strstr(v->f->name, "bounce/")) ord_add('a');
  else if (strstr(v->f->name, "local/") || strstr(v->f->name, "remote/")) ord_add('M');
  if (wmode == 2 && !wmode_fired) { wmode_fired = 1; errno = ENOSPC; return -1; }
  if (wmode == 3 && !wmode_fired) { wmode_fired = 1; return 0; }
  if (wmode == 1 && n > 1) n = 1;
  if (wmode == 5 && n > 3) n = 3;
  if (v->app) hb_add(&v->f->d, buf, n);
  else {
    if (v->pos + n > v->f->d.n) { size_t need = v->pos + n - v->f->d.n; static char z[64]; while (need) { size_t q = need > 64 ? 64 : need; hb_add(&v->f->d, z, q); need -= q; } }
    if (n) memcpy(v->f->d.p + v->pos, buf, n); v->pos += n;
  }
  return n;
}
int close(int fd) {
  vfd *v = vfd_of(fd);
  if (!v) return syscall(SYS_close, fd);
  v->used = 0; return 0;
}
off_t lseek(int fd, off_t off, int wh) {
  vfd *v = vfd_of(fd);
  if (!v) return syscall(SYS_lseek, fd, off, wh);
  if (wh == SEEK_SET) v->pos = off; else if (wh == SEEK_END) v->pos = v->f->d.n + off; else v->pos += off;
  return v->pos;
}
int stat(const char *fn, struct stat *st) {
  if (flt_stat_fail && strstr(fn, flt_stat_fail)) { errno = EIO; return -1; }
  if (!vf_exists(fn)) { errno = ENOENT; return -1; }
  memset(st, 0, sizeof *st); st->st_mode = S_IFREG | 0600; st->st_size = vf_get(fn, 0)->d.n; st->st_mtime = 812000000;
  return 0;
}
int fstat(int fd, struct stat *st) {
  vfd *v = vfd_of(fd);
  if (!v) { errno = EBADF; return -1; }
  memset(st, 0, sizeof *st); st->st_mode = S_IFREG | 0600; st->st_size = v->f->d.n; st->st_mtime = 812000000;
  return 0;
}
int unlink(const char *fn) {
  vfile *f;
  if (flt_unlink_fail) { errno = EIO; return -1; }
  f = vf_get(fn, 0);
  if (!f || !f->exists) { errno = ENOENT; return -1; }
  f->exists = 0; f->d.n = 0; f->name[0] = 0;
  return 0;
}
unsigned int sleep(unsigned int s) { nsleeps++; if (nsleeps > 1000) { fprintf(stderr, "c14_bounce: sleeping forever\n"); fflush(h_out); abort(); } return 0; }
time_t time(time_t *t) { if (t) *t = 812090813; return 812090813; }

/* ------------------------------------------------------------------ qsutil.o stand-in: the log */
static hbuf logb;
void log1(char *a) { hb_add(&logb, a, strlen(a)); }
void qslog2(char *a, char *b) { log1(a); log1(b); }
void log3(char *a, char *b, char *c) { log1(a); log1(b); log1(c); }
void logsa(stralloc *sa) { hb_add(&logb, sa->s, sa->len); }
void logsafe(char *s) { log1(s); }
void nomem(void) { fprintf(stderr, "c14_bounce: nomem\n"); abort(); }
void pausedir(char *d) { fprintf(stderr, "c14_bounce: pausedir\n"); abort(); }

/* ------------------------------------------------------------------ qmail.o stand-in: capture */
#define MAXT 8
static hbuf qq_body, qq_from, qq_to[MAXT];
static int qq_nfrom, qq_nto, qq_accepted, qq_opens;
#ifndef C14_REALQQ
int qmail_open(struct qmail *qq) {
  int i;
  if (flt_qq_open_fail) return -1;
  qq->flagerr = 0; qq->pid = 4242; qq_opens++;
  hbuf_reset(&qq_body); hbuf_reset(&qq_from); for (i = 0; i < MAXT; i++) hbuf_reset(&qq_to[i]);
  qq_nfrom = qq_nto = qq_accepted = 0;
  return 0;
}
unsigned long qmail_qp(struct qmail *qq) { return qq->pid; }
void qmail_fail(struct qmail *qq) { qq->flagerr = 1; }
void qmail_put(struct qmail *qq, char *s, size_t len) { if (!qq->flagerr) hb_add(&qq_body, s, len); }
void qmail_from(struct qmail *qq, char *s) { if (qq_nfrom++) hb_add(&qq_from, ",", 1); hb_add(&qq_from, s, strlen(s)); }
void qmail_to(struct qmail *qq, char *s) { if (qq_nto < MAXT) hb_add(&qq_to[qq_nto], s, strlen(s)); qq_nto++; }
char *qmail_close(struct qmail *qq) {
  if (qq->flagerr || flt_qq_close_fail) return "Zqq read error (#4.3.0)";
  qq_accepted = 1; return "";
}
#else
char auto_qmail[] = "/";               /* replaces auto_qmail.o: the child of the real qmail_open() does chdir(auto_qmail) */
#define REC_FD 100
#endif

/* ------------------------------------------------------------------ blobs */
#define MAXF 40
static const unsigned char *fld[MAXF]; static size_t fln[MAXF]; static int nfld;
static char *fstr[MAXF];               /* NUL-terminated copies */
static void split_blob(const unsigned char *b, size_t n) {
  size_t i, st = 0; int k;
  for (k = 0; k < MAXF; k++) { free(fstr[k]); fstr[k] = 0; fld[k] = (const unsigned char *)""; fln[k] = 0; }
  nfld = 0;
  for (i = 0; i <= n; i++)
    if (i == n || b[i] == 0) { if (nfld < MAXF) { fld[nfld] = b + st; fln[nfld] = i - st; nfld++; } st = i + 1; }
  for (k = 0; k < MAXF; k++) { fstr[k] = malloc(fln[k] + 1); if (fln[k]) memcpy(fstr[k], fld[k], fln[k]); fstr[k][fln[k]] = 0; }
}
static hbuf blob;
static int blob_first;
static void blob_start(void) { hbuf_reset(&blob); blob_first = 1; }
static void blob_add(const void *p, size_t n) { if (!blob_first) hb_add(&blob, "", 1); blob_first = 0; hb_add(&blob, p, n); }
static void blob_adds(const char *s) { blob_add(s, strlen(s)); }

static void hexf(const unsigned char *p, size_t n) { fputc(' ', h_out); h_hex(p, n); }

/* ------------------------------------------------------------------ crash attribution
 * a sanitizer report, abort() or SIGSEGV inside the code under test prints "X <kind> <blob>" for the
 * case being run, so that the failing input is known */
static char cur_kind; static const unsigned char *cur_b; static size_t cur_n; static int crash_done;
static void cur_set(char k, const unsigned char *b, size_t n) { cur_kind = k; cur_b = b; cur_n = n; }
static void crash_report(void) {
  if (!cur_kind || crash_done) return;
  crash_done = 1;
  fprintf(h_out, "\nX %c ", cur_kind); h_hex(cur_b, cur_n); fputc('\n', h_out); fflush(h_out);
}
void __asan_on_error(void) { crash_report(); }
#include <signal.h>
static void on_sig(int sg) { crash_report(); signal(sg, SIG_DFL); raise(sg); }

/* ------------------------------------------------------------------ virtualdomains for P/D cases */
static hbuf vd_cache, lo_cache; static int vd_valid, maps_init;
static void set_tables(const unsigned char *p, size_t n, const unsigned char *lp, size_t ln) {
  int r;
  if (!stralloc_copys(&envnoathost, "envnoathost")) nomem();      /* rewrite() in P mode 'A' */
  vf_put("control/virtualdomains", p, n);
  vf_put("control/locals", lp, ln);
  if (vd_valid && vd_cache.n == n && (n == 0 || !memcmp(vd_cache.p, p, n))
      && lo_cache.n == ln && (ln == 0 || !memcmp(lo_cache.p, lp, ln))) return;
  if (maps_init) { constmap_free(&mapvdoms); constmap_free(&maplocals); }
  r = control_readfile(&vdoms, "control/virtualdomains", 0);
  if (r == 1) { if (!constmap_init(&mapvdoms, vdoms.s, vdoms.len, 1)) nomem(); }
  else if (!constmap_init(&mapvdoms, "", 0, 1)) nomem();
  if (control_readfile(&locals, "control/locals", 1) != 1) nomem();
  if (!constmap_init(&maplocals, locals.s, locals.len, 0)) nomem();
  if (!maps_init) constmap_init(&mappercenthack, "", 0, 0);
  maps_init = 1;
  hbuf_reset(&vd_cache); hb_add(&vd_cache, p, n);
  hbuf_reset(&lo_cache); hb_add(&lo_cache, lp, ln); vd_valid = 1;
}

#define ID0 4711ul
static char fn_info[64], fn_mess[64], fn_bounce[64];
static void names(unsigned long id) {
  fnmake_info(id); strcpy(fn_info, fn.s);
  fnmake_mess(id); strcpy(fn_mess, fn.s);
  fnmake2_bounce(id); strcpy(fn_bounce, fn2.s);
}

/* the real rewrite() on an original address: returns flagstrip (1 = local channel) and the stored recipient (malloc'd) */
static int route(const char *addr, char **stored) {
  char *tmp = strdup(addr); int r = rewrite(tmp);
  free(tmp);
  if (!r) nomem();
  *stored = strdup(rwline.s + 1);           /* rwline = "T" recipient "\0" */
  return r == 1;
}

/* ------------------------------------------------------------------ P */
static void case_P(const unsigned char *b, size_t n) {
  char *stripped; vfile *f; char *stored; int flag; char mode;
  cur_set('P', b, n);
  split_blob(b, n);
  vf_reset(); faults_clear(); nsleeps = 0; hbuf_reset(&logb);
  set_tables(fld[0], fln[0], fld[4], fln[4]);
  names(ID0);
  mode = (fln[5] > 0) ? fstr[5][0] : 'L';
  if (mode == 'A') flag = route(fstr[1], &stored);
  else { stored = strdup(fstr[1]); flag = (mode != 'R'); }
  wmode = (fln[3] > 0) ? fstr[3][0] - '0' : 0;
  stripped = stripvdomprepend(stored);
  fputs("P", h_out); hexf(b, n); hexf((unsigned char *)stripped, strlen(stripped));
  addbounce(ID0, stored, fstr[2], flag);
  f = vf_get(fn_bounce, 0);
  if (f && f->exists) hexf(f->d.p, f->d.n); else fputs(" 00", h_out);
  fprintf(h_out, " %d %d", nsleeps, flag); hexf((unsigned char *)stored, strlen(stored)); fputc('\n', h_out);
  free(stored);
  wmode = 0;
}

/* ------------------------------------------------------------------ I and C */
static void setup_controls(void) {
  static const char *cn[7] = { "control/me", "control/bouncefrom", "control/bouncehost", "control/doublebounceto",
                               "control/doublebouncehost", "control/virtualdomains", "control/locals" };
  static const char fl[7] = { 'm', 'f', 'h', 't', 'd', 'v', 'l' };
  int i;
  for (i = 0; i < 7; i++) if (strchr(fstr[0], fl[i])) vf_put(cn[i], fld[1 + i], fln[1 + i]);
  if (!strchr(fstr[0], 'l') && !strchr(fstr[0], 'm')) vf_put("control/locals", "localhost\n", 10);
  if (maps_init) { constmap_free(&maplocals); constmap_free(&mappercenthack); constmap_free(&mapvdoms); }
  meok = 0; me.len = 0;
  if (!getcontrols()) { fprintf(stderr, "c14_bounce: getcontrols failed\n"); fflush(h_out); abort(); }
  maps_init = 1; vd_valid = 0;
}
static void out_q(void) {
  int i;
  fprintf(h_out, " %d", qq_accepted);
  hexf(qq_from.p, qq_from.n);
  fputc(' ', h_out);
  if (qq_nto == 0) fputc('-', h_out);
  for (i = 0; i < qq_nto && i < MAXT; i++) { if (i) fputc(',', h_out); if (qq_to[i].n) h_hex(qq_to[i].p, qq_to[i].n); else fputs("00", h_out); }
}
static hbuf routes;
/* one injectbounce experiment on the already parsed blob; returns 1 if a message was queued */
static int run_inject(const unsigned char *b, size_t n, unsigned long id, int use_fault) {
  int i, r, r2, opens; vfile *f; char fault;
  static hbuf body1;
  vf_reset(); faults_clear(); nsleeps = 0;
  setup_controls();
  names(id);
  { hbuf t = {0}; hb_add(&t, "F", 1); hb_add(&t, fld[9], fln[9]); hb_add(&t, "", 1); vf_put(fn_info, t.p, t.n); free(t.p); }
  vf_put(fn_mess, fld[10], fln[10]);
  static char sizes[MAXF * 24]; size_t szn = 0; sizes[0] = 0;
  hbuf_reset(&routes);
  for (i = 11; i + 1 < nfld; i += 2) {
    char *stored; int flag = route(fstr[i], &stored); size_t k, sl = strlen(stored);
    static const char dg[] = "0123456789abcdef";
    addbounce(id, stored, fstr[i + 1], flag);
    if (routes.n) hb_add(&routes, ",", 1);
    hb_add(&routes, flag ? "1:" : "0:", 2);
    if (!sl) hb_add(&routes, "-", 1);
    for (k = 0; k < sl; k++) { hb_add(&routes, &dg[((unsigned char)stored[k]) >> 4], 1); hb_add(&routes, &dg[stored[k] & 15], 1); }
    free(stored);
    f = vf_get(fn_bounce, 0);
    szn += snprintf(sizes + szn, sizeof sizes - szn, "%s%lu", szn ? "," : "", (unsigned long)((f && f->exists) ? f->d.n : 0));
  }
  fprintf(h_out, "I %lu", id); hexf(b, n);
  f = vf_get(fn_bounce, 0);
  if (f && f->exists) hexf(f->d.p, f->d.n); else fputs(" -", h_out);
  size_t blen = (f && f->exists) ? f->d.n : 0, mlen = fln[10];
  fault = (use_fault && fln[8]) ? fstr[8][0] : '-';
  switch (fault) {
    case 'a': unlink(fn_info); break;
    case 'b': flt_stat_fail = "bounce/"; break;
    case 'c': flt_qq_open_fail = 1; break;
    case 'd': flt_open_fail = "bounce/"; break;
    case 'e': flt_read_fail = "bounce/"; flt_read_after = blen / 2; break;
    case 'f': flt_open_fail = "mess/"; break;
    case 'g': flt_read_fail = "mess/"; flt_read_after = mlen / 2; break;
    case 'h': flt_qq_close_fail = 1; break;
    case 'i': flt_unlink_fail = 1; break;
    default: break;
  }
  hbuf_reset(&logb); qq_accepted = 0; qq_nfrom = qq_nto = 0; hbuf_reset(&qq_from); hbuf_reset(&qq_body); opens = qq_opens;
  r = injectbounce(id);
  if (qq_opens == opens) { qq_accepted = 0; qq_nfrom = qq_nto = 0; hbuf_reset(&qq_from); hbuf_reset(&qq_body); }
  fprintf(h_out, " %d", r); out_q();
  if (qq_accepted) hexf(qq_body.p, qq_body.n); else fputs(" -", h_out);
  fprintf(h_out, " %d", vf_exists(fn_bounce));
  hexf(logb.p, logb.n);
  int q1 = qq_accepted;
  hbuf_reset(&body1); if (q1) hb_add(&body1, qq_body.p, qq_body.n);
  static hbuf f1, t1; hbuf_reset(&f1); hbuf_reset(&t1);
  hb_add(&f1, qq_from.p, qq_from.n); if (qq_nto > 0) hb_add(&t1, qq_to[0].p, qq_to[0].n);
  /* second call, without faults: retry after a failure, or "once" after a success */
  faults_clear();
  if (fault == 'a') { hbuf t = {0}; hb_add(&t, "F", 1); hb_add(&t, fld[9], fln[9]); hb_add(&t, "", 1); vf_put(fn_info, t.p, t.n); free(t.p); }
  hbuf_reset(&logb); opens = qq_opens; qq_accepted = 0;
  r2 = injectbounce(id);
  if (qq_opens == opens) { qq_accepted = 0; qq_nfrom = qq_nto = 0; hbuf_reset(&qq_from); hbuf_reset(&qq_body); }
  fprintf(h_out, " %d", r2); out_q();
  if (!qq_accepted) fputs(" -", h_out);
  else if (q1 && qq_body.n == body1.n && (body1.n == 0 || !memcmp(qq_body.p, body1.p, body1.n))) fputs(" =", h_out);
  else hexf(qq_body.p, qq_body.n);
  fprintf(h_out, " %d", vf_exists(fn_bounce));
  hexf(logb.p, logb.n);
  fprintf(h_out, " %s ", szn ? sizes : "-");
  if (routes.n) fwrite(routes.p, 1, routes.n, h_out); else fputc('-', h_out);
  fputc('\n', h_out);
  /* leave the first call's message in qq_* for the chain */
  hbuf_reset(&qq_body); hb_add(&qq_body, body1.p, body1.n);
  hbuf_reset(&qq_from); hb_add(&qq_from, f1.p, f1.n);
  hbuf_reset(&qq_to[0]); hb_add(&qq_to[0], t1.p, t1.n);
  return q1;
}
static void case_I(const unsigned char *b, size_t n) { cur_set('I', b, n); split_blob(b, n); run_inject(b, n, ID0, 1); }

static const char chain_report[] = "Sorry, I couldn't find any host by that name. (#5.1.2)\n";
static void case_C(const unsigned char *b0, size_t n0) {
  static hbuf cur, chain, first; int step, q, i, nq = 0;
  hbuf_reset(&cur); hb_add(&cur, b0, n0);
  hbuf_reset(&first); hb_add(&first, b0, n0);
  cur_set('C', first.p, first.n);
  hbuf_reset(&chain);
  split_blob(cur.p, cur.n);
  char s0[8192]; size_t s0n = fln[9] < sizeof s0 ? fln[9] : sizeof s0; if (s0n) memcpy(s0, fld[9], s0n);
  for (step = 0; step < 6; step++) {
    /* same controls, fault '-' */
    blob_start();
    for (i = 0; i < 8; i++) blob_add(fld[i], fln[i]);
    blob_adds("-");
    for (i = 9; i < nfld; i++) blob_add(fld[i], fln[i]);
    if (nfld < 11) for (i = nfld < 9 ? 9 : nfld; i < 11; i++) blob_adds("");
    hbuf_reset(&cur); hb_add(&cur, blob.p, blob.n);
    split_blob(cur.p, cur.n);
    q = run_inject(cur.p, cur.n, ID0 + step, 0);
    if (!q) break;
    nq++;
    /* record envelope, build the next message: the bounce just queued fails permanently */
    { size_t k; static const char d[] = "0123456789abcdef";
      hb_add(&chain, " ", 1);
      if (!qq_from.n) hb_add(&chain, "-", 1); for (k = 0; k < qq_from.n; k++) { hb_add(&chain, &d[qq_from.p[k] >> 4], 1); hb_add(&chain, &d[qq_from.p[k] & 15], 1); }
      hb_add(&chain, " ", 1);
      if (!qq_to[0].n) hb_add(&chain, "-", 1); for (k = 0; k < qq_to[0].n; k++) { hb_add(&chain, &d[qq_to[0].p[k] >> 4], 1); hb_add(&chain, &d[qq_to[0].p[k] & 15], 1); } }
    blob_start();
    for (i = 0; i < 8; i++) blob_add(fld[i], fln[i]);
    blob_adds("-");
    blob_add(qq_from.p, qq_from.n);
    blob_add(qq_body.p, qq_body.n);
    blob_add(qq_to[0].p, qq_to[0].n);
    blob_adds(chain_report);
    hbuf_reset(&cur); hb_add(&cur, blob.p, blob.n);
    split_blob(cur.p, cur.n);
  }
  fputs("C", h_out); hexf(first.p, first.n); fprintf(h_out, " %d", nq); hexf((unsigned char *)s0, s0n);
  if (chain.n) fwrite(chain.p, 1, chain.n, h_out);
  fputc('\n', h_out);
}

/* ------------------------------------------------------------------ Q: the real qmail.c and a scripted queue program */
#ifdef C14_REALQQ
#include <sys/wait.h>
static void rec_reset(void) { if (ftruncate(REC_FD, 0) == -1 || syscall(SYS_lseek, REC_FD, 0, SEEK_SET) == -1) { perror("c14_bounce: REC_FD"); abort(); } }
/* the record the stand-in appended: 'R' u32 n0 <message> u32 n1 <envelope> */
static void rec_out(void) {
  unsigned char h[5]; uint32_t a = 0, bb = 0; unsigned char *m, *e;
  if (pread(REC_FD, h, 5, 0) != 5 || h[0] != 'R') { fputs(" 0 - -", h_out); return; }
  memcpy(&a, h + 1, 4); m = malloc(a + 1);
  if (pread(REC_FD, m, a, 5) != (ssize_t)a || pread(REC_FD, &bb, 4, 5 + a) != 4) { fputs(" 0 - -", h_out); free(m); return; }
  e = malloc(bb + 1);
  if (pread(REC_FD, e, bb, 9 + a) != (ssize_t)bb) { fputs(" 0 - -", h_out); free(m); free(e); return; }
  fputs(" 1", h_out); hexf(m, a); hexf(e, bb);
  free(m); free(e);
}
static int q_last_fired;
static void case_Q(const unsigned char *b, size_t n) {
  int i, r; vfile *f; char script[64];
  cur_set('Q', b, n);
  split_blob(b, n);
  vf_reset(); faults_clear(); nsleeps = 0;
  setup_controls();
  names(ID0);
  { hbuf t = {0}; hb_add(&t, "F", 1); hb_add(&t, fld[9], fln[9]); hb_add(&t, "", 1); vf_put(fn_info, t.p, t.n); free(t.p); }
  vf_put(fn_mess, fld[10], fln[10]);
  hbuf_reset(&routes);
  for (i = 11; i + 1 < nfld; i += 2) {
    char *stored; int flag = route(fstr[i], &stored); size_t k, sl = strlen(stored);
    static const char dg[] = "0123456789abcdef";
    addbounce(ID0, stored, fstr[i + 1], flag);
    if (routes.n) hb_add(&routes, ",", 1);
    hb_add(&routes, flag ? "1:" : "0:", 2);
    if (!sl) hb_add(&routes, "-", 1);
    for (k = 0; k < sl; k++) { hb_add(&routes, &dg[((unsigned char)stored[k]) >> 4], 1); hb_add(&routes, &dg[stored[k] & 15], 1); }
    free(stored);
  }
  fputs("Q", h_out); hexf(b, n);
  f = vf_get(fn_bounce, 0);
  if (f && f->exists) hexf(f->d.p, f->d.n); else fputs(" -", h_out);
  /* fault field: "<exit>,<signal>[,<o|r><k>]": the third part fails the k-th open_read() / read() of a queue file inside the
     first injectbounce() call (k = 0: the first call; info/<id>, bounce/<id>, mess/<id> are opened in this order) */
  { int code = 0, sg = 0; char fk = 0; int fi = 0; const char *c1, *c2;
    static hbuf log1;
    if (fln[8]) { code = atoi(fstr[8]); c1 = strchr(fstr[8], ','); if (c1) { sg = atoi(c1 + 1); c2 = strchr(c1 + 1, ','); if (c2 && (c2[1] == 'o' || c2[1] == 'r')) { fk = c2[1]; fi = atoi(c2 + 2); } } }
    snprintf(script, sizeof script, "%d,%d,-", code, sg);
    setenv("C07_QQ", script, 1);
    rec_reset(); hbuf_reset(&logb);
    qf_kind = fk; qf_idx = fi; qf_cnt_o = qf_cnt_r = qf_fired = 0; qf_target = '-'; qf_pos = 0;
    r = injectbounce(ID0);
    qf_kind = 0;
    q_last_fired = qf_fired;
    fprintf(h_out, " %d %d", r, vf_exists(fn_bounce)); rec_out();
    hbuf_reset(&log1); hb_add(&log1, logb.p, logb.n);
    setenv("C07_QQ", "0,0,-", 1);
    rec_reset(); hbuf_reset(&logb);
    r = injectbounce(ID0);
    fprintf(h_out, " %d %d", r, vf_exists(fn_bounce)); rec_out();
    fputc(' ', h_out);
    if (routes.n) fwrite(routes.p, 1, routes.n, h_out); else fputc('-', h_out);
    /* fault report: kind index fired target bytes-of-the-file-delivered-before */
    if (fk) fprintf(h_out, " %c:%d:%d:%c:%lu", fk, fi, qf_fired, qf_target, (unsigned long)qf_pos); else fputs(" -", h_out);
    hexf(log1.p, log1.n); hexf(logb.p, logb.n);
    fputc('\n', h_out);
  }
}
#else
static void case_Q(const unsigned char *b, size_t n) { (void)b; (void)n; }
#endif

/* ------------------------------------------------------------------ D */
static int d_init;
static void case_D(const unsigned char *b, size_t n) {
  int c = 0, dn = 1; vfile *f; static hbuf raw;
  cur_set('D', b, n);
  split_blob(b, n);
  vf_reset(); faults_clear(); nsleeps = 0; hbuf_reset(&logb);
  set_tables(fld[4], fln[4], fld[5], fln[5]);
  names(ID0);
  if (!d_init) {
    numjobs = 2; job_init();
    concurrency[0] = 3; concurrency[1] = 3;
    d[0] = (struct del *) calloc(3, sizeof(struct del)); d[1] = (struct del *) calloc(3, sizeof(struct del));
    dline[0].s = 0; dline[1].s = 0; stralloc_copys(&dline[0], ""); stralloc_copys(&dline[1], "");
    d_init = 1;
  }
  c = (fln[0] > 1 && fstr[0][1] == 'r') ? 1 : 0;
  jo[0].refs = 1000; jo[0].id = ID0; jo[0].channel = c; jo[0].numtodo = 5; jo[0].flaghiteof = 0; jo[0].retry = 0;
  jo[0].flagdying = (fln[0] > 0 && fstr[0][0] == '1');
  d[c][dn].used = 1; d[c][dn].j = 0; d[c][dn].delid = 77; d[c][dn].mpos = 0;
  stralloc_copys(&d[c][dn].recip, fstr[1]); stralloc_0(&d[c][dn].recip);
  concurrencyused[c] = 1; dline[c].len = 0; flagspawnalive[c] = 1;
  hbuf_reset(&raw); { unsigned char x = dn; hb_add(&raw, &x, 1); } hb_add(&raw, fld[2], fln[2]); hb_add(&raw, "", 1);
  spawn_p = raw.p; spawn_n = raw.n; spawn_pos = 0; readchunk = atoi(fstr[3]); if (readchunk <= 0) readchunk = 2048;
  /* the channel file of the job, so that markdone() really writes its 'D' over the 'T' at mpos 0 */
  static char fn_chan[64];
  fnmake_chanaddr(ID0, c); strcpy(fn_chan, fn.s);
  { hbuf t = {0}; hb_add(&t, "T", 1); hb_add(&t, fstr[1], strlen(fstr[1]) + 1); vf_put(fn_chan, t.p, t.n); free(t.p); }
  ordn = 0; ord[0] = 0;
  while (spawn_pos < spawn_n) del_dochan(c);
  spawn_p = 0;
  fputs("D", h_out); hexf(b, n);
  f = vf_get(fn_bounce, 0);
  if (f && f->exists) hexf(f->d.p, f->d.n); else fputs(" 00", h_out);
  /* order of the record / mark writes, and the first byte of the channel record afterwards */
  { vfile *cf = vf_get(fn_chan, 0); fprintf(h_out, " %s %c", ordn ? ord : "-", (cf && cf->exists && cf->d.n) ? cf->d.p[0] : '?'); }
  fputc('\n', h_out);
  d[c][dn].used = 0;
}

static void run_case(char kind, const unsigned char *b, size_t n) {
#ifdef C14_REALQQ
  if (kind == 'Q') case_Q(b, n);
  cur_kind = 0;
  return;
#endif
  switch (kind) {
    case 'P': case_P(b, n); break;
    case 'I': case_I(b, n); break;
    case 'C': case_C(b, n); break;
    case 'D': case_D(b, n); break;
    default: break;
  }
}
#define case_P(b, n) (case_P(b, n), cur_kind = 0)
#define case_I(b, n) (case_I(b, n), cur_kind = 0)
#define case_C(b, n) (case_C(b, n), cur_kind = 0)
#define case_D(b, n) (case_D(b, n), cur_kind = 0)
#define case_Q(b, n) (case_Q(b, n), cur_kind = 0)

/* ------------------------------------------------------------------ generators */
static const char *P_me[] = { "mx.example.org\n", "host\n", "me.example\nsecond line\n" };
static const char *P_bfrom[] = { "MAILER-DAEMON\n", "bounce daemon\n", "a..b\n", "postmaster  \t\n", "\"q\"\\x\n", "B" };
static const char *P_bhost[] = { "bounce.example.org\n", "b\n", "\n", "bh.example  \n" };
static const char *P_dbto[] = { "postmaster\n", "dbl\n", "admin@elsewhere.example\n", "\n" };
static const char *P_dbhost[] = { "dbl.example.org\n", "d\n", "\n" };
static const char *P_vline[] = { "example.com:alice", ".example.com:bob", "sub.example.com:", ":catch", "joe@example.com:joeuser",
  "#comment:x", "nocolon", "EXAMPLE.org:Carol", "example.com:second", "example.com:alice  ", "x.y:pre:fix", "org:o", ".org:dotorg",
  "a:b", "", "   ", "other.org:catch-any", "info@example.com:alice", "x@sub2.example.com:bob", "joe@example.com:", "u@a:b",
  "JOE@Example.Com:joeuser", "alice-x@example.com:", "joeuser-joe@example.com:" };
static const char *P_lline[] = { "localhost", "example.com", "EXAMPLE.ORG", "other.org", "a", "b.a", "", "#x", "sub.example.com", "x.y",
  "sub2.example.com", "example.com  " };
static const char *P_sender[] = { "user@remote.example", "", "#@[]", "list-owner-@lists.example-@[]", "-@[]", "#@[]-@[]", "x-@[]-@[]",
  "we\"ird q@x.example", "noatsign", "\374ml@x.example", "a\nb@c.example", "a@b\nc", "@[]", "x@[]", "-@[]x", "#@[] ", "A-@[]", "abc-@[]",
  "a@b\n\n<forged@x>:\nby sender", ".dot.@x", "#@[]-@[]-@[]" };
static const char *P_mess[] = { "Received: (qmail 1 invoked by uid 0); 26 Sep 1995 04:46:53 -0000\nFrom: a@b\nSubject: hi\n\nbody line\n", "",
  "no newline at end", "\n\n<forged@x>:\nin message\n\n", "X\n" };
static const char *P_recip[] = { "alice-info@example.com", "bob-x@sub2.example.com", "joe@remote.net", "alice@example.com",
  "catch-any@other.org", "joeuser-joe@example.com", "a\nb@example.com", "x>:\n<forged@example.com", "second-s@EXAMPLE.COM",
  "Carol-c@example.org", "alice-", "noat", "pre-u@x.y", "dotorg-u@a.org", "o-u@org", "alice-x@sub.example.com", "alice-\n\n@example.com",
  "b-u@a", "second-@example.com", "secondx@example.com", "@", "alice-a@b@example.com", "catch-u@", "\n",
  "joeuser-joe@EXAMPLE.com", "joeuser-x-joe@example.com", "alice-bob@example.com", "joeuser-@example.com", "-joe@example.com",
  "alice-x@example.com", "ALICE-X@example.com", "x@example.com", "joe@example.com", "info@example.com", "u@sub.example.com",
  "someone@unlisted.example", "x@sub2.example.com", "u@a.org", "bare", "u@other.org" };
static const char *P_report[] = { "Sorry, no mailbox here by that name. (#5.1.1)\n",
  "Remote host said: 550 no\n\n<victim@x>:\nforged\n", "", "\n", "\n\n", "no trailing newline", "8bit \351\377\n", "a\n\n\nb\n\n",
  "x\n--- Below this line is a copy of the message.\n\nReturn-Path: <>\n", "\n<x>:\n", "a\n\n", "\n\n\n\n", "/\n/\n", "a\r\n\r\nb\r\n",
  "Connected to 10.0.0.1 but greeting failed.\nRemote host said: 554 go away\n" };
#define NEL(a) (sizeof a / sizeof a[0])
#define PICK(a) a[h_below(NEL(a))]

/* small-alphabet strings: virtualdomains lines and recipients that actually meet each other */
static void gen_small(hbuf *o, size_t n, const char *al, size_t nal) {
  size_t i; hbuf_reset(o);
  for (i = 0; i < n; i++) hb_add(o, &al[h_below(nal)], 1);
}
#define GEN_SMALL(o, n, lit) gen_small(o, n, lit, sizeof(lit) - 1)
static void gen_vdoms(hbuf *o) {
  int k, n = h_below(6);
  hbuf_reset(o);
  if (h_below(4) == 0) { GEN_SMALL(o, h_below(40), "ab.:@-# \t\nAB"); return; }
  for (k = 0; k < n; k++) { const char *l = PICK(P_vline); hb_add(o, l, strlen(l)); if (k + 1 < n || h_below(4)) hb_add(o, "\n", 1); }
}
static void gen_locals(hbuf *o) {
  int k, n = h_below(4);
  hbuf_reset(o);
  if (h_below(5) == 0) { GEN_SMALL(o, h_below(24), "ab.AB\n# "); return; }
  for (k = 0; k < n; k++) { const char *l = PICK(P_lline); hb_add(o, l, strlen(l)); if (k + 1 < n || h_below(4)) hb_add(o, "\n", 1); }
}
static void gen_control(hbuf *o, const char *pool) {
  if (h_below(6) == 0) GEN_SMALL(o, h_below(24), "ab.@ \t\n\"\\#:\351");
  else { hbuf_reset(o); hb_add(o, pool, strlen(pool)); }
}
static void gen_bytes(hbuf *o, size_t n, int mode) {
  size_t i; hbuf_reset(o);
  for (i = 0; i < n; i++) {
    unsigned char c;
    uint32_t x = h_below(mode == 0 ? 5 : 12);
    if (x == 0) c = '\n'; else if (x == 1 && mode == 2) c = 1 + h_below(255); else if (x == 2) c = "<>:@-/"[h_below(6)]; else c = "abcxyz ."[h_below(8)];
    hb_add(o, &c, 1);
  }
}
static void gen_I_blob(int fault, int sender_ix, int mask) {
  static hbuf v, t; int k, nf;
  char flags[8]; int j = 0;
  for (k = 0; k < 7; k++) if (mask & (1 << k)) flags[j++] = "mfhtdvl"[k];
  flags[j] = 0;
  blob_start();
  blob_adds(flags);
  gen_control(&t, PICK(P_me)); blob_add(t.p, t.n); gen_control(&t, PICK(P_bfrom)); blob_add(t.p, t.n);
  gen_control(&t, PICK(P_bhost)); blob_add(t.p, t.n); gen_control(&t, PICK(P_dbto)); blob_add(t.p, t.n);
  gen_control(&t, PICK(P_dbhost)); blob_add(t.p, t.n);
  gen_vdoms(&v); blob_add(v.p, v.n);
  gen_locals(&v); blob_add(v.p, v.n);
  { char fs[2] = { (char)fault, 0 }; blob_adds(fs); }
  if (sender_ix >= 0) blob_adds(P_sender[sender_ix]);
  else if (h_below(5) == 0) { gen_bytes(&t, h_below(30), 2); blob_add(t.p, t.n); }
  else blob_adds(PICK(P_sender));
  if (h_below(4) == 0) { gen_bytes(&t, h_below(600), 2); blob_add(t.p, t.n); } else blob_adds(PICK(P_mess));
  nf = (h_below(8) == 0) ? 0 : 1 + h_below(4);
  for (k = 0; k < nf; k++) {
    if (h_below(6) == 0) { gen_bytes(&t, h_below(20), 2); blob_add(t.p, t.n); } else blob_adds(PICK(P_recip));
    if (h_below(3) == 0) { gen_bytes(&t, h_below(8) == 0 ? 2000 + h_below(2000) : h_below(120), h_below(3)); blob_add(t.p, t.n); } else blob_adds(PICK(P_report));
  }
}

static int unhex(const char *h, unsigned char *o) {
  int n = 0;
  if (h[0] == '-') return 0;
  for (; h[0] && h[1] && h[0] != '\n'; h += 2) { unsigned v; sscanf(h, "%2x", &v); o[n++] = v; }
  return n;
}

int main(int argc, char **argv) {
  h_init_out();
  signal(SIGABRT, on_sig); signal(SIGSEGV, on_sig); signal(SIGBUS, on_sig); signal(SIGFPE, on_sig);
  fnmake_init();
#ifdef C14_REALQQ
  { /* descriptor 100: where the stand-in records what it was given (inherited through fork/exec) */
    char tn[] = "/tmp/c14rec.XXXXXX"; int tfd = mkstemp(tn);
    if (tfd == -1 || dup2(tfd, REC_FD) == -1) { perror("c14_bounce: record file"); return 111; }
    unlink(tn); if (tfd != REC_FD) syscall(SYS_close, tfd);
    signal(SIGPIPE, SIG_IGN);
    if (!getenv("QMAILQUEUE")) { fprintf(stderr, "c14_bounce: QMAILQUEUE not set\n"); return 111; }
  }
#endif
  if (argc > 1 && !strcmp(argv[1], "-")) {
    size_t cap = 1 << 22; char *line = malloc(cap); unsigned char *b = malloc(cap / 2);
    while (fgets(line, cap, stdin)) {
      char kind = line[0]; char *p = line + 1;
      while (*p == ' ') p++;
      if (!*p || *p == '\n') continue;
      run_case(kind, b, unhex(p, b));
    }
    fflush(h_out);
    return 0;
  }
  int replen = h_argi(argc, argv, 1, 6), rcplen = h_argi(argc, argv, 2, 5), nrandom = h_argi(argc, argv, 3, 1000);
  uint64_t seed = (uint64_t)h_argi(argc, argv, 4, 1);
  int shard = h_argi(argc, argv, 5, 0), nshards = h_argi(argc, argv, 6, 1);
  uint64_t id = 0;
  unsigned char m[64];
#define MINE ((int)(id++ % nshards) == shard)
#ifdef C14_REALQQ
  /* (Q) the real qmail.c: every way the queue program can end x sender forms; then seeded random */
  { static const char *scripts[] = { "0,0", "0,9", "0,15", "0,11", "51,0", "53,0", "54,0", "31,0", "81,0", "82,0", "91,0", "120,0", "1,0", "100,0", "0,6", "71,0" };
    (void)replen; (void)rcplen; (void)m;
    h_seed(seed * 1000003ull + 29);
    for (unsigned sc = 0; sc < NEL(scripts); sc++) for (unsigned sd = 0; sd < 6; sd++) {
      static hbuf keep; unsigned k; size_t off = 0; int fno = 0;
      gen_I_blob('-', (int[]){ 0, 1, 2, 3, 5, 9 }[sd], sd & 1 ? 127 : 1);
      /* replace the fault field (index 8) by the script */
      hbuf_reset(&keep);
      for (k = 0; k <= blob.n; k++) if (k == blob.n || blob.p[k] == 0) {
        if (fno) hb_add(&keep, "", 1);
        if (fno == 8) hb_add(&keep, scripts[sc], strlen(scripts[sc])); else hb_add(&keep, blob.p + off, k - off);
        off = k + 1; fno++;
      }
      if (!MINE) continue;
      case_Q(keep.p, keep.n);
    }
    /* (Q faults) every call index of open_read() and of read() on a queue file during injectbounce(), in front of a queue program
       that exits 0 (and one that exits 54, one killed): sweep k upwards until the fault no longer fires.  One group per shard. */
    { static const char *qs[] = { "0,0", "0,0", "54,0", "0,9" };
      for (unsigned g = 0; g < 16; g++) for (int fk = 0; fk < 2; fk++) {
        static hbuf keep0; int sdx = (int[]){ 0, 1, 3, 9 }[g & 3];
        gen_I_blob('-', sdx, (g & 4) ? 127 : 1);
        hbuf_reset(&keep0); hb_add(&keep0, blob.p, blob.n);
        if (!MINE) continue;
        for (int kk = 0; kk < 64; kk++) {
          static hbuf keep; unsigned k; size_t off = 0; int fno = 0; char sc[48];
          snprintf(sc, sizeof sc, "%s,%c%d", qs[g >> 2], fk ? 'r' : 'o', kk);
          hbuf_reset(&keep);
          for (k = 0; k <= keep0.n; k++) if (k == keep0.n || keep0.p[k] == 0) {
            if (fno) hb_add(&keep, "", 1);
            if (fno == 8) hb_add(&keep, sc, strlen(sc)); else hb_add(&keep, keep0.p + off, k - off);
            off = k + 1; fno++;
          }
          case_Q(keep.p, keep.n);
          if (!q_last_fired) break;
        }
      } }
    for (int r = 0; r < nrandom / 40; r++) {
      static hbuf keep; unsigned k; size_t off = 0; int fno = 0; char sc[32];
      gen_I_blob('-', -1, h_below(128));
      if (h_below(3) == 0) snprintf(sc, sizeof sc, "0,%d", (int[]){ 9, 15, 11, 6, 2 }[h_below(5)]);
      else if (h_below(2)) snprintf(sc, sizeof sc, "0,0");
      else snprintf(sc, sizeof sc, "%d,0", (int)h_below(130));
      if (h_below(3) == 0) { size_t l = strlen(sc); int isr = h_below(2); int kx = (int)h_below(isr ? 12 : 4); snprintf(sc + l, sizeof sc - l, ",%c%d", isr ? 'r' : 'o', kx); }
      hbuf_reset(&keep);
      for (k = 0; k <= blob.n; k++) if (k == blob.n || blob.p[k] == 0) {
        if (fno) hb_add(&keep, "", 1);
        if (fno == 8) hb_add(&keep, sc, strlen(sc)); else hb_add(&keep, blob.p + off, k - off);
        off = k + 1; fno++;
      }
      if (!MINE) continue;
      case_Q(keep.p, keep.n);
    }
    fflush(h_out);
    return 0;
  }
#endif
  /* (1) every report over {LF,x,<,>,:,0x80} up to replen; recipient a@b, no virtualdomains */
  { static const unsigned char al[6] = { '\n', 'x', '<', '>', ':', 0x80 };
    for (int len = 0; len <= replen; len++) {
      uint64_t total = 1; for (int i = 0; i < len; i++) total *= 6;
      for (uint64_t k = 0; k < total; k++) {
        if (!MINE) continue;
        uint64_t v = k; for (int i = 0; i < len; i++) { m[i] = al[v % 6]; v /= 6; }
        blob_start(); blob_adds(""); blob_adds("a@b"); blob_add(m, len);
        case_P(blob.p, blob.n);
      } } }
  /* (2) every recipient over {LF,a,b,@,-,.} up to rcplen against a fixed virtualdomains file (domain, wildcard,
   *     catch-all, domain exception, virtual-user, mixed-case entries and an exception entry for one whole address `a-a@b:`),
   *     without and with a locals file */
  for (int md = 0; md < 3; md++) for (int lo = 0; lo < 2; lo++)
  { static const unsigned char al[6] = { '\n', 'a', 'b', '@', '-', '.' };
    static const char *modes[3] = { "L", "R", "A" };   /* local-channel record, remote-channel record, original address through rewrite() */
    static const char vd[] = "b:a\n.b:b\n:ab\na.b:\na@b:b\nB.A:a-b\nb@a:a-b\na-a@b:\n";
    for (int len = 0; len <= rcplen; len++) {
      uint64_t total = 1; for (int i = 0; i < len; i++) total *= 6;
      for (uint64_t k = 0; k < total; k++) {
        if (!MINE) continue;
        uint64_t v = k; for (int i = 0; i < len; i++) { m[i] = al[v % 6]; v /= 6; }
        blob_start(); blob_adds(vd); blob_add(m, len); blob_adds("r\n"); blob_adds("0"); blob_adds(lo ? "B\na.b\n" : ""); blob_adds(modes[md]);
        case_P(blob.p, blob.n);
      } } }
  /* (3) pools: recipient x report x write behaviour, under two virtualdomains files */
  { static const char *vds[] = { "example.com:alice\n.example.com:bob\nsub.example.com:\nEXAMPLE.org:Carol\nx.y:pre:fix\norg:o\n.org:dotorg\na:b\njoe@example.com:joeuser\nalice-x@example.com:\n",
                                 ":catch\nexample.com:alice\nexample.com:second\n#c:x\nnocolon\nother.org:catch-any \n" };
    static const char *los[] = { "localhost\n", "EXAMPLE.com\nother.org\n" };
    for (unsigned md = 0; md < 3; md++) for (unsigned a = 0; a < 4; a++) for (unsigned r = 0; r < NEL(P_recip); r++) for (unsigned t = 0; t < NEL(P_report); t++) {
      if (!MINE) continue;
      char wm[2] = { (char)('0' + (r + t) % 6), 0 };
      blob_start(); blob_adds(vds[a & 1]); blob_adds(P_recip[r]); blob_adds(P_report[t]); blob_adds(wm); blob_adds(los[a >> 1]);
      blob_adds((const char *[]){ "L", "R", "A" }[md]);
      case_P(blob.p, blob.n);
    } }
  h_seed(seed * 1000003ull + 17);           /* same stream in every shard: cases are picked by id */
  /* (4) injectbounce: every sender form x which control files exist; every fault x sender */
  for (unsigned s = 0; s < NEL(P_sender); s++) for (int mask = 0; mask < 128; mask++) {
    gen_I_blob('-', s, mask);
    if (!MINE) continue;
    case_I(blob.p, blob.n);
  }
  for (unsigned s = 0; s < NEL(P_sender); s++) for (int fi = 0; fi < 10; fi++) for (int mk = 0; mk < 2; mk++) {
    gen_I_blob("-abcdefghi"[fi], s, mk ? 127 : 1);
    if (!MINE) continue;
    case_I(blob.p, blob.n);
  }
  /* (5) chains for every sender form */
  for (unsigned s = 0; s < NEL(P_sender); s++) for (int mk = 0; mk < 4; mk++) {
    gen_I_blob('-', s, (int[]){ 0, 1, 127, 94 }[mk]);
    if (!MINE) continue;
    case_C(blob.p, blob.n);
  }
  /* (6) del_dochan: status x dying x text, lengths around REPORTMAX */
  { static const char sts[] = "DZKX";
    static hbuf t;
    for (int si = 0; si < 4; si++) for (int dy = 0; dy < 2; dy++) for (unsigned r = 0; r < NEL(P_report); r++) for (int ck = 0; ck < 3; ck++) {
      if (!MINE) continue;
      char fl[3] = { (char)('0' + dy), (r & 1) ? 'r' : 'l', 0 };
      blob_start(); blob_adds(fl); blob_adds(P_recip[(r + si) % NEL(P_recip)]);
      hbuf_reset(&t); hb_add(&t, &sts[si], 1); hb_add(&t, P_report[r], strlen(P_report[r])); blob_add(t.p, t.n);
      blob_adds((const char *[]){ "1", "7", "2048" }[ck]); blob_adds("example.com:alice\njoe@example.com:joeuser\nalice-x@example.com:\n");
      blob_adds((r % 3 == 0) ? "example.com\n" : "localhost\n");
      case_D(blob.p, blob.n);
    }
    for (int len = REPORTMAX - 6; len <= REPORTMAX + 4; len++) for (int si = 0; si < 2; si++) for (int dy = 0; dy < 2; dy++) {
      if (!MINE) continue;
      char fl[3] = { (char)('0' + dy), 'l', 0 };
      blob_start(); blob_adds(fl); blob_adds("alice-info@example.com");
      hbuf_reset(&t); hb_add(&t, &sts[si], 1);
      for (int i = 1; i < len - 1; i++) { char ch = (i % 50 == 0) ? '\n' : (char)('a' + i % 26); hb_add(&t, &ch, 1); }
      blob_add(t.p, t.n); blob_adds((len & 1) ? "2048" : "999"); blob_adds("example.com:alice\n");
      case_D(blob.p, blob.n);
    } }
  /* (7) seeded random structured cases */
  for (int r = 0; r < nrandom; r++) {
    static hbuf v, t, u;
    int kind = h_below(10);
    if (kind < 4) {
      gen_I_blob(h_below(3) ? '-' : "abcdefghi"[h_below(9)], -1, h_below(128));
      if (!MINE) continue;
      case_I(blob.p, blob.n);
    } else if (kind < 5) {
      gen_I_blob('-', -1, h_below(128));
      if (!MINE) continue;
      case_C(blob.p, blob.n);
    } else if (kind < 9) {
      gen_vdoms(&v);
      { uint32_t w = h_below(4);
        if (w == 0) gen_bytes(&t, h_below(24), 2);
        else if (w == 1) GEN_SMALL(&t, h_below(12), "ab.@-AB\n");
        else { const char *s = PICK(P_recip); hbuf_reset(&t); hb_add(&t, s, strlen(s)); } }
      if (h_below(3)) gen_bytes(&u, h_below(10) == 0 ? 3000 + h_below(9000) : h_below(200), h_below(3)); else { const char *s = PICK(P_report); hbuf_reset(&u); hb_add(&u, s, strlen(s)); }
      char wm[2] = { (char)('0' + h_below(6)), 0 };
      blob_start(); blob_add(v.p, v.n); blob_add(t.p, t.n); blob_add(u.p, u.n); blob_adds(wm);
      gen_locals(&v); blob_add(v.p, v.n);
      blob_adds((const char *[]){ "L", "R", "A", "A" }[h_below(4)]);
      if (!MINE) continue;
      case_P(blob.p, blob.n);
    } else {
      char fl[3] = { (char)('0' + h_below(2)), h_below(2) ? 'r' : 'l', 0 };
      gen_vdoms(&v);
      gen_bytes(&u, h_below(6) == 0 ? REPORTMAX - 40 + h_below(80) : h_below(300), h_below(3));
      if (u.n) u.p[0] = "DDZZKx"[h_below(6)];
      char ck[8]; snprintf(ck, sizeof ck, "%d", 1 + (int)h_below(3000));
      blob_start(); blob_adds(fl); blob_adds(PICK(P_recip)); blob_add(u.p, u.n); blob_adds(ck); blob_add(v.p, v.n);
      gen_locals(&v); blob_add(v.p, v.n);
      if (!MINE) continue;
      case_D(blob.p, blob.n);
    }
  }
  fflush(h_out);
  return 0;
}
