/* C16 (select preparation): the daemon scenarios of harness/qsend.c (deliveries, deferrals, bounce failures, signals,
 * faults, crashes, restarts, concurrency bounds) with one addition — at every select() of the real qmail-send the
 * globals that its select preparation was computed from are read and printed next to the timeout and descriptor
 * sets the real code passed (see c16_snap.h).  qsend.c is included unmodified; its select hook is wrapped.
 *
 * usage: as qsend:  c16_selprep <nrandom> <seed> <shard> <nshards>   |   c16_selprep -   (scenario lines on stdin)
 */
#define _GNU_SOURCE
#include "sim.h"
static int (*c16_inner)(simproc *, int, fd_set *, fd_set *, struct timeval *);
#define main qsend_main
#define sim_select_hook c16_inner        /* qsend.c's `sim_select_hook = daemon_select;` installs the inner hook */
#include "qsend.c"
#undef sim_select_hook
#undef main
#include "c16_snap.h"

static int c16_select(simproc *p, int nfds, fd_set *r, fd_set *w, struct timeval *tv) {
  if (p->idx == 0) c16_snapshot(p, nfds, r, w, tv);
  return c16_inner ? c16_inner(p, nfds, r, w, tv) : 0;
}

int main(int argc, char **argv) {
  sim_select_hook = c16_select;
  return qsend_main(argc, argv);
}
