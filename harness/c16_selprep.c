/* C16 (select preparation): the daemon scenarios of harness/qsend.c (deliveries, deferrals, bounce failures, signals,
 * faults, crashes, restarts, concurrency bounds) with one addition — at every select() of the real qmail-send the
 * globals that its select preparation was computed from are read and printed next to the timeout and descriptor
 * sets the real code passed (see c16_snap.h).  qsend.c is included unmodified; its select hook is wrapped.
 *
 * usage: as qsend:  c16_selprep <nrandom> <seed> <shard> <nshards>   |   c16_selprep -   (scenario lines on stdin)
 *
 * Scenario keys handled HERE (qsend.c's parser ignores keys it does not know; they are part of the CASE text, so a replay
 * reproduces them):
 *   intr=<at>:<T|A|H>:<permille>,...   the <at>-th select() call of an incarnation (1-based, interrupted calls included) is
 *                                      INTERRUPTED by the signal: the handler runs, <permille>/1000 of the requested timeout
 *                                      elapses, select returns -1/EINTR and nothing else happens at that call (no descriptor is
 *                                      reported, arrivals and delivery reports wait for the next call).  The snapshot is taken
 *                                      first, like at every call.  (qsend.c's sig= delivers the signal inside a select that then
 *                                      returns normally after the FULL timeout; with that alone a signal never reaches a daemon
 *                                      that is still far from its next wake-up time.)
 *   slow=<n>                           every answer of qmail-clean takes n seconds: virtual time passes inside the do-phase of the loop
 *   adv=<n>                            virtual time also passes while the daemon works: after every select call that returns
 *                                      normally the clock moves on by a pseudo-random 0..n seconds (a function of the call
 *                                      number).  Gives messages that arrive close together distinct birth and retry times.
 *
 * Scenario families generated here, after those of qsend.c (r = nrandom; thorough tier, r >= 8000: r/4 and r/80):
 *   r/2  "deferred-queue" scenarios: 3-6 messages, mostly on one channel, arriving before, during and after the start-up scan,
 *        outcome scripts dominated by deferrals with some successes and failures (channel heaps of three and more entries with
 *        distinct due times, entries removed and re-inserted in many orders), ALRM/HUP/TERM both ways (sig= and intr=) at
 *        selects drawn from the WHOLE run (busy and idle phases), clean stops and crashes followed by a restart on the queue of
 *        deferred messages (pqstart rebuilds the heaps);
 *   r/120 (at least 2) restart sweeps: a message whose deliveries are in flight, TERM at each of the following 8 selects, and a second
 *        message whose injection completes 0..2 selects after the TERM - while daemon #1 drains (the pull succeeds into the descriptor
 *        of a process that ignores it and exits) - then daemon #2 starts on that queue: one run per (TERM point, arrival offset);
 *   r/40 interrupt sweeps: a deferred-queue base run without signals, then one run per select point with SIGALRM (sometimes
 *        SIGHUP) interrupting exactly that select: every select at which the daemon was about to sleep with messages queued,
 *        every select next to a command/report/arrival, and every 16th other one (capped, spread evenly).
 */
#define _GNU_SOURCE
#include "sim.h"
static int (*c16_inner)(simproc *, int, fd_set *, fd_set *, struct timeval *);
static int c16_inc_serial;               /* bumped at every start of an incarnation of the daemon */
static void c16_parse_keys(void);
static void c16_globals_restore(void) { c16_inc_serial++; sim_globals_restore(); c16_parse_keys(); }
#define main qsend_main
#define sim_select_hook c16_inner        /* qsend.c's `sim_select_hook = daemon_select;` installs the inner hook */
#define sim_globals_restore c16_globals_restore   /* start_incarnation() announces itself */
#include "qsend.c"
#undef sim_globals_restore
#undef sim_select_hook
#undef main
#include "c16_snap.h"

/* ---- the keys intr= and adv= ---- */
static struct { int at, sig, pm; } c16_in[12]; static int c16_nin, c16_adv, c16_slow;
/* fds=<k> (session 4, Nq.SelFds): the daemon runs with its spawner pipes on other descriptor numbers (chanfdout[]/chanfdin[] are set accordingly
 * and the descriptors moved before the daemon's first system call; descriptors it opens later - sendmutex, the trigger FIFO, todo files - take the
 * lowest free numbers, so with k=1 the trigger is BELOW the pipes and a command pipe is the highest descriptor).  out0,out1,in0,in1:
 * die=<sel>:<c>: at the <sel>-th select of an incarnation the spawner of channel c closes its report pipe (EOF: spawndied(), flagspawnalive[c] = 0,
 * exit requested) - the snapshots that follow have a dead spawner, whose descriptors must no longer be set */
static const int c16_fdtab[4][4] = { { 1, 3, 2, 4 }, { 12, 10, 9, 11 }, { 4, 2, 3, 1 }, { 1, 14, 2, 13 } };
static int c16_fds, c16_fds_done = -1, c16_die_at, c16_die_c;
static int c16_sel, c16_seen_inc;
static void c16_parse_keys(void) {
  c16_nin = 0; c16_adv = 0; c16_slow = 0; c16_fds = 0; c16_die_at = 0; c16_die_c = 0;
  char tmp[1600]; snprintf(tmp, sizeof tmp, "%s", S.text); char *save = 0;
  for (char *t = strtok_r(tmp, " ", &save); t; t = strtok_r(0, " ", &save)) {
    if (!strncmp(t, "adv=", 4)) c16_adv = atoi(t + 4);
    else if (!strncmp(t, "slow=", 5)) c16_slow = atoi(t + 5);
    else if (!strncmp(t, "fds=", 4)) c16_fds = atoi(t + 4) & 3;
    else if (!strncmp(t, "die=", 4)) { if (sscanf(t + 4, "%d:%d", &c16_die_at, &c16_die_c) != 2) c16_die_at = 0; c16_die_c &= 1; }
    else if (!strncmp(t, "intr=", 5)) { char *s2 = 0;
      for (char *u = strtok_r(t + 5, ",", &s2); u && c16_nin < 12; u = strtok_r(0, ",", &s2)) { char c; int at, pm = 0;
        if (sscanf(u, "%d:%c:%d", &at, &c, &pm) >= 2) { c16_in[c16_nin].at = at; c16_in[c16_nin].sig = c; c16_in[c16_nin].pm = pm < 0 ? 0 : pm > 1000 ? 1000 : pm; c16_nin++; } } }
  }
}

/* slow=<n>: every answer of qmail-clean takes n seconds (virtual time passes INSIDE the do-phase of qmail-send's loop) */
extern int chanfdout[2], chanfdin[2];
static void c16_renumber(simproc *p) {
  const int *t = c16_fdtab[c16_fds];
  if (c16_fds) {
    simfd old[5]; for (int fd = 1; fd <= 4; fd++) { old[fd] = p->fd[fd]; memset(&p->fd[fd], 0, sizeof p->fd[fd]); p->fd[fd].kind = SFD_FREE; }
    p->fd[t[0]] = old[1]; p->fd[t[1]] = old[3]; p->fd[t[2]] = old[2]; p->fd[t[3]] = old[4];
  }
  chanfdout[0] = t[0]; chanfdout[1] = t[1]; chanfdin[0] = t[2]; chanfdin[1] = t[3];
}
static void c16_gate(simproc *p, const char *what) {
  if (p->idx == 0 && c16_fds_done != c16_inc_serial) { c16_fds_done = c16_inc_serial; c16_renumber(p); }   /* before the daemon's first system call */
  if (c16_slow > 0 && p->idx == 1 && !strcmp(what, "write")) W.clock += c16_slow;
}

/* what the base run of a sweep looked like (first incarnation): per select, was the daemon about to sleep, and was anything queued */
static unsigned char c16_idle[MAXSEL], c16_queued[MAXSEL]; static int c16_nsel1;

static int c16_select(simproc *p, int nfds, fd_set *r, fd_set *w, struct timeval *tv) {
  if (p->idx != 0) return c16_inner ? c16_inner(p, nfds, r, w, tv) : 0;
  if (c16_seen_inc != c16_inc_serial) { c16_seen_inc = c16_inc_serial; c16_sel = 0; }
  c16_sel++;
  c16_snapshot(p, nfds, r, w, tv);
  if (incarnation == 1 && c16_sel < MAXSEL) {
    c16_nsel1 = c16_sel; c16_idle[c16_sel] = tv && tv->tv_sec > 0;
    c16_queued[c16_sel] = (pqchan[0].p && pqchan[0].len) || (pqchan[1].p && pqchan[1].len) || (pqdone.p && pqdone.len) || (pqfail.p && pqfail.len);
  }
  if (c16_die_at && c16_die_at == c16_sel) { xlog("X spawner-dies select=%d channel=%d\n", c16_sel, c16_die_c); W.src[srcid[c16_die_c]].closed = 1; }
  int fired = 0;
  for (int i = 0; i < c16_nin; i++) if (c16_in[i].at == c16_sel) {
    int sg = c16_in[i].sig == 'T' ? SIGTERM : c16_in[i].sig == 'A' ? SIGALRM : SIGHUP;
    long el = tv && tv->tv_sec > 0 && !fired ? (long)tv->tv_sec * c16_in[i].pm / 1000 : 0;
    xlog("X intr select=%d signal=%c elapsed=%ld\n", c16_sel, c16_in[i].sig, el);
    W.clock += el;
    if (sg == SIGTERM) stop_requested = 1;
    sim_deliver_signal(p, sg);
    fired = 1;
  }
  if (fired) { if (r) FD_ZERO(r); if (w) FD_ZERO(w); errno = EINTR; return -1; }
  int n = c16_inner ? c16_inner(p, nfds, r, w, tv) : 0;
  if (c16_adv > 0) W.clock += (long)((((uint64_t)c16_sel * 0x9E3779B97F4A7C15ull) >> 33) % (uint64_t)(c16_adv + 1));
  return n;
}

/* ---- scenario families of this harness ---- */
static const char *c16_loc[] = { "u1@h.example", "u2@h.example", "u3@h.example" };
static const char *c16_rem[] = { "r1@far.example", "r2@far.example", "r3@other.example" };

/* deferred-queue: several messages whose deliveries are mostly deferred, so that the channel heaps hold three and more entries
 * with distinct due times for a long stretch of the run while entries leave (success, failure) and come back (deferral) */
static void gen_deferred(char *o, size_t osz, int signals) {
  size_t n = 0; char out[40];
  int nm = 3 + h_below(4), mainchan = h_below(2);
  int at = h_below(3) == 0 ? 0 : 1 + (int)h_below(130);     /* in the queue at start / during the start-up scan of mess/ / after it */
  n += snprintf(o + n, osz - n, "m=");
  for (int i = 0; i < nm; i++) {
    int nr = 1 + (h_below(4) == 0);
    n += snprintf(o + n, osz - n, "%s%s:", i ? ";" : "", senders[h_below(10) < 7 ? 0 : h_below(5)]);
    for (int j = 0; j < nr; j++) { int ch = h_below(5) == 0 ? !mainchan : mainchan; n += snprintf(o + n, osz - n, "%s%s", j ? "," : "", (ch ? c16_rem : c16_loc)[h_below(3)]); }
    if (at) n += snprintf(o + n, osz - n, "@%d", at);
    at += 1 + (int)h_below(h_below(3) == 0 ? 4 : 40);
  }
  n += snprintf(o + n, osz - n, " out=%s ord=%d cl=%d cr=%d sl=%d sr=%d", outscript(out, 16, "ZZZZZZKKD"), (int)h_below(3), 1 + (int)h_below(4), 1 + (int)h_below(4), 1 + (int)h_below(5), 1 + (int)h_below(5));
  n += snprintf(o + n, osz - n, " adv=%d", (int[]){0, 0, 1, 2, 7, 40}[h_below(6)]);
  if (h_below(4) == 0) n += snprintf(o + n, osz - n, " slow=%d", (int[]){1, 3, 10, 60}[h_below(4)]);
  if (h_below(2) == 0) n += snprintf(o + n, osz - n, " fds=%d", 1 + (int)h_below(3));
  if (signals && h_below(4) == 0) n += snprintf(o + n, osz - n, " die=%d:%d", at + 2 + (int)h_below(120), (int)h_below(2));
  if (h_below(6) == 0) n += snprintf(o + n, osz - n, " life=%d", (int[]){2000, 7200, 100000}[h_below(3)]);
  if (h_below(8) == 0) n += snprintf(o + n, osz - n, " bf=%s", (const char *[]){"1", "10", "01"}[h_below(3)]);
  int hor = at + 150 + (int)h_below(300);
  if (signals) {
    int k = 1 + h_below(3); char a[120] = "", b[160] = ""; size_t na = 0, nb = 0;
    for (int i = 0; i < k; i++) {
      int sel = 1 + (int)h_below(hor + 20); char sg = "AAAAHHT"[h_below(7)];
      if (h_below(3) == 0) na += snprintf(a + na, sizeof a - na, "%s%d:%c", na ? "," : "", sel, sg);
      else nb += snprintf(b + nb, sizeof b - nb, "%s%d:%c:%d", nb ? "," : "", sel, sg, (int[]){0, 0, 0, (int)h_below(1000), 999}[h_below(5)]);
    }
    if (na) n += snprintf(o + n, osz - n, " sig=%s", a);
    if (nb) n += snprintf(o + n, osz - n, " intr=%s", b);
    if (h_below(5) == 0) n += snprintf(o + n, osz - n, " term=%d", 95 + (int)h_below(hor - 95));        /* clean stop, restart on the deferred queue */
    else if (h_below(8) == 0) n += snprintf(o + n, osz - n, " crash=%d:%d", 400 + (int)h_below(2500), (int)h_below(5));
  }
  n += snprintf(o + n, osz - n, " hor=%d", hor);
}

static void sweep_intr(char *base, int cap, int variants) {
  static char line[4000];
  memset(c16_idle, 0, sizeof c16_idle); memset(c16_queued, 0, sizeof c16_queued); c16_nsel1 = 0;
  after_first_incarnation = collect_calls; sweep_all = 0; run_line(base); after_first_incarnation = 0;
  static unsigned char idle[MAXSEL], queued[MAXSEL]; memcpy(idle, c16_idle, sizeof idle); memcpy(queued, c16_queued, sizeof queued);
  int last = c16_nsel1; if (last >= MAXSEL) last = MAXSEL - 1;
  static int ks[MAXSEL]; int nk = 0;
  for (int k = 1; k <= last; k++) if ((idle[k] && queued[k]) || sweep_active[k] || sweep_active[k - 1] || k % 16 == 0) ks[nk++] = k;
  int step = nk > cap ? (nk + cap - 1) / cap : 1; int off = step > 1 ? (int)h_below(step) : 0;
  for (int i = off; i < nk; i += step) {
    char sg = variants && h_below(4) == 0 ? 'H' : 'A';
    int pm = variants ? (int[]){0, 0, (int)h_below(1000), 999}[h_below(4)] : 0;
    snprintf(line, sizeof line, "%s intr=%d:%c:%d", base, ks[i], sg, pm);
    run_line(line);
  }
}

/* restart sweep: injection completes while the previous daemon drains after TERM; the restarted daemon must find it */
static void sweep_restart(char *line, size_t osz) {
  char out[24]; int loc = h_below(2), nr = 2 + h_below(3), t0 = h_below(3) == 0 ? 0 : 96 + (int)h_below(40);
  int first = t0 ? t0 : 1;            /* a message in the queue at start is taken over in the first scan */
  char head[300], tail[200]; size_t n = 0;
  n += snprintf(head + n, sizeof head - n, "m=s@src.example:");
  for (int j = 0; j < nr; j++) n += snprintf(head + n, sizeof head - n, "%s%s", j ? "," : "", (loc ? c16_loc : c16_rem)[j % 3]);
  if (t0) n += snprintf(head + n, sizeof head - n, "@%d", t0);
  snprintf(tail, sizeof tail, " out=%s ord=%d cl=%d cr=%d sl=%d sr=%d hold=%d adv=%d fds=%d", outscript(out, 6, "KKZZD"), (int)h_below(3), 1 + (int)h_below(4), 1 + (int)h_below(4),
           1 + (int)h_below(5), 1 + (int)h_below(5), (int[]){0, 2, 99}[h_below(3)], (int[]){0, 0, 1}[h_below(3)], (int)h_below(4));
  for (int k = first + 1; k <= first + 8; k++) for (int d = 0; d < 3; d++) {
    snprintf(line, osz, "%s;x@h.example:%s@%d%s term=%d hor=%d", head, (h_below(2) ? c16_loc : c16_rem)[h_below(3)], k + d, tail, k, k + 260);
    run_line(line);
  }
}

int main(int argc, char **argv) {
  sim_select_hook = c16_select; sim_gate_hook = c16_gate;
  int rc = qsend_main(argc, argv);
  if (rc || (argc > 1 && !strcmp(argv[1], "-"))) return rc;
  int nrandom = h_argi(argc, argv, 1, 100);
  uint64_t seed = (uint64_t)h_argi(argc, argv, 2, 1);
  int shard = h_argi(argc, argv, 3, 0), nshards = h_argi(argc, argv, 4, 1);
  int thorough = nrandom >= 8000;
  char *line = malloc(4000);
  int cnt[3] = { thorough ? nrandom / 4 : nrandom / 2, thorough ? nrandom / 80 : nrandom / 40, nrandom / 120 };
  for (int f = 0, r = 0; f < 3; f++) for (int i = 0; i < cnt[f]; i++, r++) {
    if ((i + 7 + 3 * f) % nshards != shard) continue;
    h_seed(seed * 1000003ull + 500000000ull + r);
    switch (f) {
      case 0: gen_deferred(line, 1500, i % 8 != 0); run_line(line); break;
      case 1: gen_deferred(line, 1500, 0); sweep_intr(line, thorough ? 60 : 24, thorough || i % 2); break;
      case 2: sweep_restart(line, 1500); break;
    }
  }
  fflush(h_out);
  return 0;
}
