/* C20: reproduction of the signed-counter overflow in quote.c doit() (theorem C20_quote_int_overflow).
 * An address of 2^30 bytes that all need a backslash passes both overflow checks (2*len+2 < 2^32), is given
 * 2^31+2 bytes, and `int j` is incremented beyond INT_MAX at quote.c `saout->s[j++] = ch`.  Needs about 3.5 GiB.
 * Prints "OVERFLOW-REPRODUCED" lines from UBSan on stderr ("runtime error: signed integer overflow") or
 * "quote returned r len" when the code is repaired.  Run only in the thorough tier, informational. */
#include <stdio.h>
#include <stdlib.h>
#include <string.h>
#include "stralloc.h"
#include "quote.h"
int main(void) {
  stralloc in = {0}, out = {0};
  unsigned int n = 1073741824u;
  in.s = malloc(n); if (!in.s) { puts("nomem"); return 2; }
  memset(in.s, '"', n); in.len = n; in.a = n;
  int r = quote(&out, &in);
  printf("quote returned %d out.len=%u out.a=%u\n", r, out.len, out.a);
  return 0;
}
