/* C20: quote() at the top of its length range (theorems C20_quote_doit_sound / C20_quote_int_overflow_pre_26e354b).
 * An address of 2^30 bytes that all need a backslash passes both overflow checks (2*len+2 < 2^32) and is given
 * 2^31+2 bytes.  With unsigned counters (26e354b) quote() must return 1 with len = a = 2147483650 and the expected
 * content; with the signed counters of the code before it UBSan reports "signed integer overflow" at quote.c
 * `saout->s[j++]`.  Needs about 3.5 GiB.  Run in the thorough tier and whenever a proof obligation of C20 is broken.
 * output: BIG quote <inlen> x <byte> : <ret> <len> <a> <content-ok>      (sanitizer reports go to stderr) */
#include <stdio.h>
#include <stdlib.h>
#include <string.h>
#include "stralloc.h"
#include "quote.h"
int main(void) {
  stralloc in = {0}, out = {0};
  unsigned int n = 1073741824u;
  in.s = malloc(n); if (!in.s) { puts("BIG nomem"); return 2; }
  memset(in.s, '"', n); in.len = n; in.a = n;
  int r = quote(&out, &in);
  int ok = r == 1 && out.len == 2u * n + 2 && out.s[0] == '"' && out.s[out.len - 1] == '"';
  if (ok) for (unsigned int k = 1; k + 1 < out.len; k += 2) if (out.s[k] != '\\' || out.s[k + 1] != '"') { ok = 0; break; }
  printf("BIG quote %u x 22 : %d %u %u %d\n", n, r, out.len, out.a, ok);
  return 0;
}
