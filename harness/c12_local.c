/* C12 correspondence harness: the real qmail-local main() (maildir(), maildir_child(), mailfile(), the
 * header-line builders) under qsim, plus direct calls of gfrom() and myctime().
 *
 * usage: c12_local <level> <nrandom> <seed> <shard> <nshards>    |    c12_local -   (cases on stdin)
 *
 * stdin cases (hex fields, "-" = empty):
 *   gf <line>                                                       gfrom(line)
 *   ct <time>                                                       myctime(time)
 *   md <msg> <sender> <local> <host> <hostname> <time> <collide> <faults>      maildir delivery
 *   mb <msg> <sender> <local> <host> <time> <box|absent> <faults>               mbox delivery
 *   mc <n> <sched|-> <time> <box|absent> <faults> <msg1> <sender1> ... <msgn> <sendern>   n concurrent mbox deliveries
 *   mm <n> <time> <collide> <hostname> <local> <host> <faults> {<msg> <sender> <childpid> <at> <dt> <mua>} x n
 *        n maildir deliveries into ONE maildir: delivery 0 first; delivery j with at=k>0 runs completely while the child of delivery 0 is
 *        stopped before its k-th call (two live children), with at=0 after the previous ones have exited (restart), dt seconds
 *        later, after a mail reader has moved the messages of new/ to cur/ if mua=1; processes of delivery j: P(2j), P(2j+1)
 *   faults: "-" or  proc:call:err[,proc:call:err]   err = errno | -1 short write | -3 clock jumps 100000 s (alarm fires)
 *           | -4 the process is killed before the call (maildir child only)
 *
 * output:
 *   G <line> <0|1>
 *   C <time> <text>
 *   CASE kind=md|mb|mc ... ; T <trace line> ... ; EXIT ... ; S/F lines ; END         (see the printing code)
 *
 * The maildir child runs inline as simulated process P1: qmail-local.c is compiled with
 * `-include harness/c12_fork.h` (fork() = setjmp in maildir()'s frame), see c12_fork.h.
 */
#define _GNU_SOURCE
#include "sim.h"
#include <sys/wait.h>
#include <dlfcn.h>
#include <stdarg.h>
SIM_INSTANCE(qa)
SIM_INSTANCE(qb)
SIM_INSTANCE(qc)
extern int gfrom(char *, int);
extern char *myctime(long);

#define HOME "/home/u"
#define MDIR HOME "/Maildir"
#define MBOX HOME "/Mailbox"
#define PID0 4000

/* ------------------------------------------------------------------ interposed: fork / waitpid / gethostname */
static __thread simproc *fk_parent;
jmp_buf *c12_fork_prepare(void) {
  simproc *par = sim_cur; int ci = par->idx + 1;
  simproc *ch = sim_proc(ci, "maildir-child", par->pid + 1, par->uid, par->cwd);
  ch->euid = par->euid; ch->gid = par->gid;
  for (int fd = 0; fd < SIM_MAXFD; fd++) {
    ch->fd[fd] = par->fd[fd];
    if (ch->fd[fd].kind == SFD_FILE) W.ino[ch->fd[fd].ino].nopen++;
  }
  fk_parent = par;
  return &ch->exitjb;
}
int c12_fork_child(void) {
  simproc *ch = &P[fk_parent->idx + 1];
  sim_tr("P%d fork -> P%d pid=%ld\n", fk_parent->idx, ch->idx, ch->pid);
  sim_cur = ch;
  return 0;
}
int c12_fork_parent(void) {
  simproc *ch = &P[fk_parent->idx + 1];
  sim_cur = fk_parent; sim_on = 1;
  if (ch->crashed) sleep(0);          /* the world has crashed: the next gate unwinds the parent as well */
  return (int)ch->pid;
}
pid_t waitpid(pid_t pid, int *wstat, int opt) {
  if (!sim_on) { static pid_t (*f)(pid_t, int *, int); if (!f) f = dlsym(RTLD_NEXT, "waitpid"); return f(pid, wstat, opt); }
  simproc *ch = &P[sim_cur->idx + 1];
  int st = ch->crashed ? 9 : ((ch->exitcode & 255) << 8);
  if (wstat) *wstat = st;
  sim_tr("P%d waitpid -> status=%d\n", sim_cur->idx, st);
  return pid;
}
off_t c12_lseek(int fd, off_t off, int whence) {
  off_t r = lseek(fd, off, whence);
  if (sim_on) sim_tr("P%d lseek %d %ld %d -> %ld\n", sim_cur->idx, fd, (long)off, whence, (long)r);
  return r;
}
static char g_hostname[100]; static size_t g_hostlen;
int gethostname(char *name, size_t len) {
  if (!sim_on) { static int (*f)(char *, size_t); if (!f) f = dlsym(RTLD_NEXT, "gethostname"); return f(name, len); }
  size_t n = g_hostlen < len ? g_hostlen : len;
  memcpy(name, g_hostname, n); if (n < len) name[n] = 0;
  return 0;
}

/* ------------------------------------------------------------------ case description */
#define MAXMSG 70000
typedef struct { unsigned char msg[MAXMSG]; size_t mn; char sender[600]; } deliv;
typedef struct {
  char kind[4];
  int n;                       /* deliveries (1 except mc) */
  deliv d[3];
  char local[300], host[300];
  long time; int collide;
  long pid[3]; int at[3]; long dt[3]; int mua[3];      /* mm: pid of the child, nesting point, delay, reader */
  int boxabsent; unsigned char box[20000]; size_t bn;
  simfault f[4]; int nf;
} kase;
static kase K;

static uint64_t fnv(const unsigned char *p, size_t n) {
  uint64_t h = 14695981039346656037ull;
  for (size_t i = 0; i < n; i++) { h ^= p[i]; h *= 1099511628211ull; }
  return h;
}

/* program arguments, one set per instance */
static char *g_argv[3][12]; static int g_argc[3];
static char g_alias[3][40];
static int tramp_a(void) { return ((int (*)(int, char **))qa_main)(g_argc[0], g_argv[0]); }
static int tramp_b(void) { return ((int (*)(int, char **))qb_main)(g_argc[1], g_argv[1]); }
static int tramp_c(void) { return ((int (*)(int, char **))qc_main)(g_argc[2], g_argv[2]); }
static int (*tramps[3])(void) = { tramp_a, tramp_b, tramp_c };

static void tmpname(char *o, size_t cap, const char *sub, long t) {
  char hn[80]; size_t n = g_hostlen < 64 ? g_hostlen : 64; memcpy(hn, g_hostname, n); hn[n] = 0;
  hn[strnlen(hn, 64)] = 0;
  snprintf(o, cap, MDIR "/%s/%ld.%ld.%s", sub, t, K.pid[0], hn);
}
static hbuf pre;                       /* description of files that exist before the delivery */
static void prefile(const char *sub, long t) {
  char p[300], c[340]; tmpname(p, sizeof p, sub, t);
  int l = snprintf(c, sizeof c, "OLD:%s", p);
  sim_mkfile(p, c, l, 1000, 0600);
  char b[400]; int bl = snprintf(b, sizeof b, "%s%s/%s:%d:%016llx", pre.n ? "," : "", sub, strrchr(p, '/') + 1, l, (unsigned long long)fnv((unsigned char *)c, l));
  hbuf_add(&pre, b, bl);
}

static void world(void) {
  sim_reset();
  sim_globals_restore();
  sim_gate_close = 1;
  sim_threads = 0;
  W.clock = K.time;
  sim_mkdir_p(HOME, 1000, 0700);
  pre.n = 0;
  sim_gate_hook = 0;
  if (!strcmp(K.kind, "md") || !strcmp(K.kind, "mm")) {
    if (K.collide != 9) { sim_mkdir_p(MDIR "/tmp", 1000, 0700); sim_mkdir_p(MDIR "/new", 1000, 0700); sim_mkdir_p(MDIR "/cur", 1000, 0700); }
    switch (K.collide) {
      case 1: prefile("tmp", K.time); break;
      case 2: prefile("new", K.time); break;
      case 3: prefile("tmp", K.time); prefile("tmp", K.time + 2); prefile("tmp", K.time + 4); break;
      case 4: prefile("tmp", K.time); prefile("tmp", K.time + 2); break;
      case 5: prefile("tmp", K.time); prefile("new", K.time + 2); break;
    }
  } else if (!K.boxabsent) sim_mkfile(MBOX, K.box, K.bn, 1000, 0600);
  for (int i = 0; i < K.n; i++) {
    char mp[40]; snprintf(mp, sizeof mp, "/msg%d", i);
    int ino = sim_mkfile(mp, K.d[i].msg, K.d[i].mn, 0, 0644);
    simproc *p = sim_proc(2 * i, "qmail-local", !strcmp(K.kind, "mm") ? K.pid[i] - 1 : PID0 + 2 * i, 1000, "/");
    p->fd[0].kind = SFD_FILE; p->fd[0].ino = ino; p->fd[0].off = 0; p->fd[0].flags = O_RDONLY; W.ino[ino].nopen++;
    sim_fd_sink(p, 1); sim_fd_sink(p, 2);
    strcpy(g_alias[i], K.kind[1] == 'd' || K.kind[1] == 'm' ? "./Maildir/" : "./Mailbox");
    char **a = g_argv[i]; int n = 0;
    a[n++] = "qmail-local"; a[n++] = "u"; a[n++] = HOME; a[n++] = K.local; a[n++] = ""; a[n++] = "";
    a[n++] = K.host; a[n++] = K.d[i].sender; a[n++] = g_alias[i]; a[n] = 0; g_argc[i] = n;
  }
  sim_nfaults = 0;
  for (int i = 0; i < K.nf; i++) sim_faults[sim_nfaults++] = K.f[i];
}

static void print_faults(void) {
  if (!K.nf) { fputc('-', h_out); return; }
  for (int i = 0; i < K.nf; i++) fprintf(h_out, "%s%d:%d:%d", i ? "," : "", K.f[i].proc, K.f[i].callno, K.f[i].err);
}
static void print_trace(void) {
  char *s = (char *)sim_trace.p; size_t n = sim_trace.n, i = 0;
  while (i < n) { size_t j = i; while (j < n && s[j] != '\n') j++; fprintf(h_out, "T %.*s\n", (int)(j - i), s + i); i = j + 1; }
}
static void print_sinks(int procidx) {
  simproc *p = &P[procidx];   /* descriptors were released at exit; sinks are numbered in creation order: 2 per process */
  (void)p;
}
static int dent_cmp(const void *a, const void *b) { return strcmp(((const simdent *)a)->path, ((const simdent *)b)->path); }
static void list_dir(const char *sub) {
  static simdent tmp[SIM_MAXDENT]; int n = 0; char pfx[100]; int pl = snprintf(pfx, sizeof pfx, MDIR "/%s/", sub);
  for (int i = 0; i < W.ndent; i++) if (W.dent[i].ino >= 0 && !strncmp(W.dent[i].path, pfx, pl)) tmp[n++] = W.dent[i];
  qsort(tmp, n, sizeof tmp[0], dent_cmp);
  fprintf(h_out, " %s=", sub);
  if (!n) fputc('-', h_out);
  for (int i = 0; i < n; i++) { siminode *x = &W.ino[tmp[i].ino];
    fprintf(h_out, "%s%s:%zu:%016llx", i ? "," : "", tmp[i].path + pl, x->cur.n, (unsigned long long)fnv(x->cur.p, x->cur.n)); }
}

/* the gated calls of process `proc` in the trace of the run just made: number and name (successful close() is traced
 * without a number: it is the call after the previous one) */
static struct { int no; char what[16]; } CALLS[400]; static int NCALLS;
static void record_calls(int proc) {
  char *s = (char *)sim_trace.p; size_t n = sim_trace.n, i = 0; int last = 0; NCALLS = 0;
  while (i < n && NCALLS < 400) {
    size_t j = i; while (j < n && s[j] != '\n') j++;
    char line[120]; size_t l = j - i < sizeof line - 1 ? j - i : sizeof line - 1; memcpy(line, s + i, l); line[l] = 0;
    int p, c; char w[32];
    if (sscanf(line, "P%d #%d %31s", &p, &c, w) == 3 && p == proc) { CALLS[NCALLS].no = c; snprintf(CALLS[NCALLS].what, 16, "%s", w); NCALLS++; last = c; }
    else if (sscanf(line, "P%d close %d", &p, &c) == 2 && p == proc && sim_gate_close && last) { CALLS[NCALLS].no = ++last; strcpy(CALLS[NCALLS].what, "close"); NCALLS++; }
    i = j + 1;
  }
}

/* ------------------------------------------------------------------ maildir */
static int md_final_only;
/* did a link() of the run just made return 0?  (the implementation's own result, read from its trace: "... link a b -> 0") */
static int trace_linked(void) {
  char *s = (char *)sim_trace.p; size_t n = sim_trace.n, i = 0;
  while (i < n) { size_t j = i; while (j < n && s[j] != '\n') j++;
    if (j - i > 12 && memmem(s + i, j - i, " link ", 6) && !memcmp(s + j - 5, " -> 0", 5)) return 1;
    i = j + 1; }
  return 0;
}
static void run_md(void) {
  world();
  sim_trace_on = 1;
  int code = sim_run(&P[0], tramps[0]);
  unsigned long total = W.ncalls_total;
  fprintf(h_out, "CASE kind=md msg="); h_hex(K.d[0].msg, K.d[0].mn);
  fprintf(h_out, " sender="); h_hex((unsigned char *)K.d[0].sender, strlen(K.d[0].sender));
  fprintf(h_out, " local="); h_hex((unsigned char *)K.local, strlen(K.local));
  fprintf(h_out, " host="); h_hex((unsigned char *)K.host, strlen(K.host));
  fprintf(h_out, " hn="); h_hex((unsigned char *)g_hostname, g_hostlen);
  fprintf(h_out, " time=%ld collide=%d faults=", K.time, K.collide); print_faults();
  fprintf(h_out, " pid=%d dir=%s pre=", PID0 + 1, MDIR);
  if (pre.n) fwrite(pre.p, 1, pre.n, h_out); else fputc('-', h_out);
  fputc('\n', h_out);
  print_trace(); record_calls(1);
  sim_trace_on = 0;
  fprintf(h_out, "EXIT %d ncalls=%lu faultfired=%d child=%d err=", code, total, sim_fault_fired, P[1].used ? P[1].exitcode : -1);
  h_hex(W.sink[1].p, W.sink[1].n); fprintf(h_out, " out="); h_hex(W.sink[0].p, W.sink[0].n); fputc('\n', h_out);
  sim_trace_on = 0;
  /* md_final_only (generator sections 10/12, faulted runs of the size sweeps): only the state after the last call is
   * resolved 5 ways; the full crash enumeration of the same delivery is done on its fault-free run.  Cases given on stdin
   * (corpus, replay, failing-input search) always get the full enumeration. */
  for (unsigned long k = md_final_only ? total + 1 : 1; k <= total + 1; k++)
    for (int mode = CR_KEEP; mode <= CR_HALF; mode++) {
      world();
      if (k <= total) sim_crash_before = k;
      sim_trace_on = 1;
      sim_run(&P[0], tramps[0]);
      sim_trace_on = 0;
      int linked = trace_linked();
      sim_apply_crash(mode);
      fprintf(h_out, "S %lu %d linked=%d", k, mode, linked); list_dir("new"); list_dir("tmp"); fputc('\n', h_out);
    }
  sim_trace_on = 1;
  fprintf(h_out, "END\n");
}

/* ------------------------------------------------------------------ several maildir deliveries into one maildir
 * Delivery 0 runs as in run_md.  A delivery j with at[j] = k > 0 runs to completion inside the gate of the k-th call of the child
 * of delivery 0 (sim_gate_hook): both children exist at the same time, the events of j lie between two calls of P1.  A delivery
 * with at[j] = 0 runs after the earlier ones have exited: a restart, dt[j] seconds later, optionally after a mail reader has
 * moved what is in new/ (not the files placed there by prefile()) to cur/.  No crash enumeration here (that is run_md's). */
static int mm_started[3], mm_code[3];
static void mm_run(int j) {
  mm_started[j] = 1;
  mm_code[j] = sim_run(&P[2 * j], tramps[j]);
}
static void mm_hook(simproc *p, const char *what) {
  (void)what;
  if (p->idx != 1) return;
  for (int j = 1; j < K.n; j++) if (K.at[j] > 0 && !mm_started[j] && p->ncalls == K.at[j]) {
    simproc *sv = fk_parent; mm_run(j); fk_parent = sv;
  }
}
static void mm_reader(void) {
  char pfx[100]; int pl = snprintf(pfx, sizeof pfx, MDIR "/new/");
  for (int i = 0; i < W.ndent; i++) if (W.dent[i].ino >= 0 && !strncmp(W.dent[i].path, pfx, pl)) {
    siminode *x = &W.ino[W.dent[i].ino];
    if (x->cur.n >= 4 && !memcmp(x->cur.p, "OLD:", 4)) continue;
    char nm[200]; snprintf(nm, sizeof nm, "%s", W.dent[i].path + pl);
    snprintf(W.dent[i].path, sizeof W.dent[i].path, MDIR "/cur/%s", nm);
    sim_tr("MUA %s\n", nm);
  }
}
static void run_mm(void) {
  world();
  sim_gate_hook = mm_hook;
  sim_trace_on = 1;
  for (int j = 0; j < 3; j++) { mm_started[j] = 0; mm_code[j] = -1; }
  mm_run(0);
  for (int j = 1; j < K.n; j++) if (!mm_started[j]) {
    if (K.dt[j]) { W.clock += K.dt[j]; sim_tr("TICK %ld\n", K.dt[j]); }
    if (K.mua[j]) mm_reader();
    mm_run(j);
  }
  sim_gate_hook = 0;
  fprintf(h_out, "CASE kind=mm n=%d", K.n);
  fprintf(h_out, " local="); h_hex((unsigned char *)K.local, strlen(K.local));
  fprintf(h_out, " host="); h_hex((unsigned char *)K.host, strlen(K.host));
  fprintf(h_out, " hn="); h_hex((unsigned char *)g_hostname, g_hostlen);
  fprintf(h_out, " time=%ld collide=%d faults=", K.time, K.collide); print_faults();
  fprintf(h_out, " dir=%s pre=", MDIR);
  if (pre.n) fwrite(pre.p, 1, pre.n, h_out); else fputc('-', h_out);
  for (int i = 0; i < K.n; i++) {
    fprintf(h_out, " msg%d=", i); h_hex(K.d[i].msg, K.d[i].mn);
    fprintf(h_out, " sender%d=", i); h_hex((unsigned char *)K.d[i].sender, strlen(K.d[i].sender));
    fprintf(h_out, " pid%d=%ld at%d=%d dt%d=%ld mua%d=%d", i, K.pid[i], i, K.at[i], i, K.dt[i], i, K.mua[i]);
  }
  fputc('\n', h_out);
  print_trace();
  for (int j = 0; j < K.n; j++) {
    fprintf(h_out, "X %d %d started=%d child=%d err=", j, mm_code[j], mm_started[j], P[2 * j + 1].used ? P[2 * j + 1].exitcode : -1);
    h_hex(W.sink[2 * j + 1].p, W.sink[2 * j + 1].n); fputc('\n', h_out);
  }
  fprintf(h_out, "L"); list_dir("new"); list_dir("tmp"); list_dir("cur"); fputc('\n', h_out);
  fprintf(h_out, "END\n");
}

/* ------------------------------------------------------------------ mbox, one delivery */
static void print_box(void) {
  int ino = sim_lookup(MBOX);
  fprintf(h_out, "F ");
  if (ino < 0) fprintf(h_out, "absent"); else h_hex(W.ino[ino].cur.p, W.ino[ino].cur.n);
  fputc('\n', h_out);
}
static void case_head_mb(const char *kind) {
  fprintf(h_out, "CASE kind=%s n=%d", kind, K.n);
  fprintf(h_out, " local="); h_hex((unsigned char *)K.local, strlen(K.local));
  fprintf(h_out, " host="); h_hex((unsigned char *)K.host, strlen(K.host));
  fprintf(h_out, " time=%ld box=", K.time);
  if (K.boxabsent) fprintf(h_out, "absent"); else h_hex(K.box, K.bn);
  fprintf(h_out, " faults="); print_faults();
  for (int i = 0; i < K.n; i++) {
    fprintf(h_out, " msg%d=", i); h_hex(K.d[i].msg, K.d[i].mn);
    fprintf(h_out, " sender%d=", i); h_hex((unsigned char *)K.d[i].sender, strlen(K.d[i].sender));
  }
}
static void run_mb(void) {
  world();
  sim_trace_on = 1;
  int code = sim_run(&P[0], tramps[0]);
  case_head_mb("mb"); fputc('\n', h_out);
  print_trace(); record_calls(0);
  fprintf(h_out, "EXIT %d ncalls=%lu faultfired=%d err=", code, W.ncalls_total, sim_fault_fired);
  h_hex(W.sink[1].p, W.sink[1].n); fprintf(h_out, " out="); h_hex(W.sink[0].p, W.sink[0].n); fputc('\n', h_out);
  print_box();
  fprintf(h_out, "END\n");
}

/* ------------------------------------------------------------------ mbox, concurrent deliveries (threads) */
static int sched[400], nsched, made[400], branch[400], nmade, random_mode; static uint64_t rng;
static int interesting(const char *w) {
  return !strcmp(w, "open_append") || !strcmp(w, "flock") || !strcmp(w, "write") || !strcmp(w, "fsync") || !strcmp(w, "ftruncate") || !strcmp(w, "close");
}
static int pick(int n, int *idx, const char **what) {
  for (int i = 0; i < n; i++) if (!interesting(what[i])) return i;
  if (n == 1) return 0;
  int k;
  if (nmade < nsched) k = sched[nmade] % n;
  else if (random_mode) { rng = rng * 6364136223846793005ull + 1442695040888963407ull; k = (int)((rng >> 33) % n); }
  else k = 0;
  if (nmade < 400) { made[nmade] = k; branch[nmade] = n; nmade++; }
  return k;
}
static void run_mc(void) {
  world();
  sim_trace_on = 1; nmade = 0;
  sim_threads = 1; sim_pick = pick;
  for (int i = 0; i < K.n; i++) sim_spawn(&P[2 * i], tramps[i]);
  sim_run_all();
  sim_threads = 0;
  case_head_mb("mc");
  fprintf(h_out, " sched=");
  for (int i = 0; i < nmade; i++) fprintf(h_out, "%s%d", i ? "," : "", made[i]);
  if (!nmade) fputc('-', h_out);
  fputc('\n', h_out);
  print_trace();
  fprintf(h_out, "EXIT");
  for (int i = 0; i < K.n; i++) fprintf(h_out, " %d", P[2 * i].exitcode);
  fprintf(h_out, " ncalls=%lu faultfired=%d", W.ncalls_total, sim_fault_fired);
  for (int i = 0; i < K.n; i++) { fprintf(h_out, " err%d=", i); h_hex(W.sink[2 * i + 1].p, W.sink[2 * i + 1].n); }
  fputc('\n', h_out);
  print_box();
  fprintf(h_out, "END\n");
}
static int next_schedule(void) {     /* DFS successor of made[]; 0 when exhausted */
  int i = nmade - 1;
  while (i >= 0 && made[i] + 1 >= branch[i]) i--;
  if (i < 0) return 0;
  for (int k = 0; k < i; k++) sched[k] = made[k];
  sched[i] = made[i] + 1; nsched = i + 1;
  return 1;
}

/* ------------------------------------------------------------------ parsing */
static int unhex(const char *h, unsigned char *o, size_t cap) {
  size_t n = 0;
  if (h[0] == '-' && !h[1]) return 0;
  for (; h[0] && h[1]; h += 2) { unsigned v; if (sscanf(h, "%2x", &v) != 1 || n >= cap) return -1; o[n++] = v; }
  return (int)n;
}
static int unhex_str(const char *h, char *o, size_t cap) {
  int n = unhex(h, (unsigned char *)o, cap - 1); if (n < 0) return -1;
  o[n] = 0; return memchr(o, 0, n) ? -1 : 0;
}
static int parse_faults(const char *s) {
  K.nf = 0;
  if (!strcmp(s, "-")) return 0;
  char b[200]; snprintf(b, sizeof b, "%s", s);
  for (char *t = strtok(b, ","); t && K.nf < 4; t = strtok(0, ",")) {
    simfault *f = &K.f[K.nf]; if (sscanf(t, "%d:%d:%d", &f->proc, &f->callno, &f->err) != 3) return -1; K.nf++;
  }
  return 0;
}
static void set_hostname(const void *s, size_t n) { if (n > sizeof g_hostname) n = sizeof g_hostname; memcpy(g_hostname, s, n); g_hostlen = n; }

static void kclear(const char *kind) {
  snprintf(K.kind, sizeof K.kind, "%s", kind); K.n = 1; K.nf = 0; K.collide = 0; K.boxabsent = 0; K.bn = 0; K.time = 1000000000;
  strcpy(K.local, "u"); strcpy(K.host, "h.example"); K.d[0].mn = 0; strcpy(K.d[0].sender, "s@x.org");
  set_hostname("mx.example", 10);
  for (int i = 0; i < 3; i++) { K.pid[i] = PID0 + 1 + 2 * i; K.at[i] = 0; K.dt[i] = 0; K.mua[i] = 0; }
}
static void set_msg(int i, const void *s, size_t n) { if (n > MAXMSG) n = MAXMSG; memcpy(K.d[i].msg, s, n); K.d[i].mn = n; }
static void fault1(int proc, int call, int err) { K.f[0].proc = proc; K.f[0].callno = call; K.f[0].err = err; K.nf = 1; }

static void run_case(void) {
  if (!strcmp(K.kind, "md")) run_md(); else if (!strcmp(K.kind, "mm")) run_mm(); else if (!strcmp(K.kind, "mb")) run_mb(); else run_mc();
}

static int stdin_cases(void) {
  static char line[600000]; static char *tok[40];
  while (fgets(line, sizeof line, stdin)) {
    int nt = 0; for (char *t = strtok(line, " \r\n"); t && nt < 40; t = strtok(0, " \r\n")) tok[nt++] = t;
    if (!nt) continue;
    if (!strcmp(tok[0], "gf") && nt >= 2) {
      static unsigned char b[4000]; int n = unhex(tok[1], b, sizeof b); if (n < 0) continue;
      fprintf(h_out, "G "); h_hex(b, n); fprintf(h_out, " %d\n", gfrom((char *)b, n) ? 1 : 0);
    } else if (!strcmp(tok[0], "ct") && nt >= 2) {
      long t = atol(tok[1]); char *r = myctime(t); fprintf(h_out, "C %ld ", t); h_hex((unsigned char *)r, strlen(r)); fputc('\n', h_out);
    } else if (!strcmp(tok[0], "md") && nt >= 9) {
      kclear("md"); unsigned char hn[100];
      int mn = unhex(tok[1], K.d[0].msg, MAXMSG); if (mn < 0) continue; K.d[0].mn = mn;
      if (unhex_str(tok[2], K.d[0].sender, sizeof K.d[0].sender) || unhex_str(tok[3], K.local, sizeof K.local) || unhex_str(tok[4], K.host, sizeof K.host)) continue;
      int hl = unhex(tok[5], hn, sizeof hn); if (hl < 0) continue; set_hostname(hn, hl);
      K.time = atol(tok[6]); K.collide = atoi(tok[7]); if (parse_faults(tok[8])) continue;
      run_case();
    } else if (!strcmp(tok[0], "mm") && nt >= 8) {
      kclear("mm"); unsigned char hn[100];
      K.n = atoi(tok[1]); if (K.n < 1 || K.n > 3 || nt < 8 + 6 * K.n) continue;
      K.time = atol(tok[2]); K.collide = atoi(tok[3]);
      int hl = unhex(tok[4], hn, sizeof hn); if (hl < 0) continue; set_hostname(hn, hl);
      if (unhex_str(tok[5], K.local, sizeof K.local) || unhex_str(tok[6], K.host, sizeof K.host) || parse_faults(tok[7])) continue;
      int bad = 0;
      for (int i = 0; i < K.n; i++) { char **t = tok + 8 + 6 * i;
        int mn = unhex(t[0], K.d[i].msg, MAXMSG); if (mn < 0) { bad = 1; break; } K.d[i].mn = mn;
        if (unhex_str(t[1], K.d[i].sender, sizeof K.d[i].sender)) { bad = 1; break; }
        K.pid[i] = atol(t[2]); K.at[i] = atoi(t[3]); K.dt[i] = atol(t[4]); K.mua[i] = atoi(t[5]);
        if (K.pid[i] < 2 || K.dt[i] < 0 || K.at[i] < 0) bad = 1; }
      K.at[0] = 0; K.dt[0] = 0; K.mua[0] = 0;
      /* two children that exist at the same time have different pids (the operating system's guarantee) */
      for (int i = 1; i < K.n; i++) if (K.at[i] > 0) { if (K.pid[i] == K.pid[0]) bad = 1; for (int j = 1; j < i; j++) if (K.at[j] == K.at[i]) bad = 1; }
      if (!bad) run_case();
    } else if (!strcmp(tok[0], "mb") && nt >= 8) {
      kclear("mb");
      int mn = unhex(tok[1], K.d[0].msg, MAXMSG); if (mn < 0) continue; K.d[0].mn = mn;
      if (unhex_str(tok[2], K.d[0].sender, sizeof K.d[0].sender) || unhex_str(tok[3], K.local, sizeof K.local) || unhex_str(tok[4], K.host, sizeof K.host)) continue;
      K.time = atol(tok[5]);
      if (!strcmp(tok[6], "absent")) K.boxabsent = 1; else { int bn = unhex(tok[6], K.box, sizeof K.box); if (bn < 0) continue; K.bn = bn; }
      if (parse_faults(tok[7])) continue;
      run_case();
    } else if (!strcmp(tok[0], "mc") && nt >= 6) {
      kclear("mc"); K.n = atoi(tok[1]); if (K.n < 1 || K.n > 3 || nt < 6 + 2 * K.n) continue;
      nsched = 0; random_mode = 0;
      if (strcmp(tok[2], "-")) { char b[2000]; snprintf(b, sizeof b, "%s", tok[2]); char *sv = 0; for (char *t = strtok_r(b, ",", &sv); t && nsched < 400; t = strtok_r(0, ",", &sv)) sched[nsched++] = atoi(t); }
      K.time = atol(tok[3]);
      if (!strcmp(tok[4], "absent")) K.boxabsent = 1; else { int bn = unhex(tok[4], K.box, sizeof K.box); if (bn < 0) continue; K.bn = bn; }
      if (parse_faults(tok[5])) continue;
      int bad = 0;
      for (int i = 0; i < K.n; i++) {
        int mn = unhex(tok[6 + 2 * i], K.d[i].msg, MAXMSG); if (mn < 0) { bad = 1; break; } K.d[i].mn = mn;
        if (unhex_str(tok[7 + 2 * i], K.d[i].sender, sizeof K.d[i].sender)) { bad = 1; break; }
      }
      if (!bad) run_case();
    }
  }
  return 0;
}

/* ------------------------------------------------------------------ generators */
static long g_id; static int g_shard, g_nshards;
static int mine(void) { return (int)(g_id++ % g_nshards) == g_shard; }

static const char *LINEPOOL[] = { "From x\n", ">From x\n", ">>From \n", "From\n", "\n", "x\n", ">\n", " From y\n", "From: a@b\n", ">>>From z z\n", "Fro\n", "From\tq\n" };
#define NLINEPOOL 12
static const char *TAILPOOL[] = { "", "From x", ">From ", "x", ">", "From", "\r" };
#define NTAILPOOL 7
static const char *SENDERS[] = { "s@x.org", "", "a b@c", "a\tb", "a\nb@c\nd", "#@[]", "\"q r\"@x", " ", "\n", "From @x", "a@b c", "\xc3\xa9@x", "x y\tz\nw" };
#define NSENDERS 13
static const long TIMES[] = { 1000000000, 0, 86399, 86400, 951782399, 951782400, 951868800, 946684799, 946684800, 2147483647, 2147483648, 4107542400, 68169599, 68169600, 1078099199 };
#define NTIMES 15
static const int FERRS[] = { EIO, ENOSPC, -1, EINTR, -3 };
#define NFERRS 5

static size_t entry_like(unsigned char *o, const char *sender, const char *body) {   /* a previous, well-formed mbox entry */
  return sprintf((char *)o, "From %s Thu Jan  1 00:00:00 1970\nReturn-Path: <%s>\nDelivered-To: u@h\n%s\n", *sender ? sender : "MAILER-DAEMON", sender, body);
}
static void set_box(int v) {
  K.boxabsent = 0; K.bn = 0;
  switch (v) {
    case 0: K.boxabsent = 1; break;
    case 1: break;
    case 2: K.bn = entry_like(K.box, "old@x", "Subject: o\n\n>From quoted\nbody\n"); break;
    case 3: K.bn = entry_like(K.box, "", "first\n"); K.bn += entry_like(K.box + K.bn, "b@y", "\n\nsecond\n\n"); break;
    case 4: K.bn = sprintf((char *)K.box, "garbage before any From_ line\n"); break;
    case 5: K.bn = sprintf((char *)K.box, "From a@b date\ntruncated entry without newline"); break;   /* not at a line boundary */
    default: K.bn = sprintf((char *)K.box, "From a@b date\nno blank line at the end\n"); break;
  }
}
#define NBOX 7

static void rnd_msg(int i, size_t n, int style) {
  unsigned char *m = K.d[i].msg;
  for (size_t k = 0; k < n; k++)
    m[k] = style == 0 ? (unsigned char)h_below(256) : style == 1 ? (unsigned char)"ab\n >From x\n"[h_below(12)] : (unsigned char)"From >\n"[h_below(7)];
  K.d[i].mn = n;
}
static void pool_msg(int i, uint64_t v, int nl, int tail) {
  size_t n = 0; unsigned char *m = K.d[i].msg;
  for (int k = 0; k < nl; k++) { const char *s = LINEPOOL[v % NLINEPOOL]; v /= NLINEPOOL; size_t l = strlen(s); memcpy(m + n, s, l); n += l; }
  size_t l = strlen(TAILPOOL[tail]); memcpy(m + n, TAILPOOL[tail], l); n += l;
  K.d[i].mn = n;
}
/* number of gated calls of the clean run of the current case, per process */
static void clean_calls(int *c0, int *c1) {
  int nf = K.nf; K.nf = 0; world(); sim_trace_on = 0;
  if (!strcmp(K.kind, "mc")) { *c0 = *c1 = 0; } else { sim_run(&P[0], tramps[0]); *c0 = P[0].ncalls; *c1 = P[1].used ? P[1].ncalls : 0; }
  sim_trace_on = 1; K.nf = nf;
}


/* ------------------------------------------------------------------ sizes at the buffer boundaries
 * qmail-local writes through a 1024-byte substdio buffer; which write() call carries which bytes, and whether a put
 * finds the buffer exactly full, depends on the total output length modulo 1024.  The generators below choose message
 * lengths such that the OUTPUT of the delivery (mbox: everything appended; maildir: the file) has a prescribed length.
 * The lead-in (From_ line, Return-Path, Delivered-To, >-quoting, completion of a partial last line) is not computed
 * here: it is MEASURED on a fault-free run of the implementation, so the generator shares no arithmetic with the model. */
static long clean_outlen(void) {
  int nf = K.nf; long r = -1; K.nf = 0; world(); sim_trace_on = 0;
  sim_run(&P[0], tramps[0]);
  sim_trace_on = 1; K.nf = nf;
  if (!strcmp(K.kind, "md")) {
    for (int i = 0; i < W.ndent; i++) if (W.dent[i].ino >= 0 && !strncmp(W.dent[i].path, MDIR "/new/", sizeof MDIR + 4)) {
      siminode *x = &W.ino[W.dent[i].ino];
      if (!(x->cur.n >= 4 && !memcmp(x->cur.p, "OLD:", 4))) r = (long)x->cur.n;       /* not one of prefile()'s */
    }
  } else { int ino = sim_lookup(MBOX); if (ino >= 0) r = (long)W.ino[ino].cur.n - (long)(K.boxabsent ? 0 : K.bn); }
  return r;
}
/* message = head ++ filler (lines of 64 'x', the last one 1..64 long) ++ tail; output length is affine in f with slope 1 */
static void filler_msg(int style, long f) {
  static const char *HEAD[] = { "Subject: t\n\n", "From the very first line\n>From second\n>>From third\n", "", "" };
  static const char *TAIL[] = { "\n", "\nFrom the last line, unterminated", "", "\n>From \n\n" };
  unsigned char *m = K.d[0].msg; size_t n = 0;
  if (style == 2) { static const unsigned char b[] = { 0, 0xff, '\n', 0x80, 'F', 'r', 'o', 'm', ' ', 0, '\n', '\r', '\n' }; memcpy(m, b, sizeof b); n = sizeof b; }
  else { n = strlen(HEAD[style]); memcpy(m, HEAD[style], n); }
  if (f < 1) f = 1; if (f > MAXMSG - 200) f = MAXMSG - 200;
  while (f > 64) { memset(m + n, 'x', 63); m[n + 63] = '\n'; n += 64; f -= 64; }
  memset(m + n, 'x', f); n += f;
  size_t l = strlen(TAIL[style]); memcpy(m + n, TAIL[style], l); n += l;
  K.d[0].mn = n;
}
static int fit_msg(int style, long target) {
  long f = target > 400 ? target - 300 : 1;
  for (int it = 0; it < 3; it++) {
    filler_msg(style, f);
    long L = clean_outlen(); if (L < 0) return 0;
    if (L == target) return 1;
    f += target - L; if (f < 1) return 0;
  }
  return 0;
}
/* the fault-free run of the current case (printed, full crash enumeration), then the same delivery with one failing
 * call: every call of the delivery itself (from open_append / all of the maildir child; `writes_only`: only write, fsync,
 * close, link) x the given fault kinds, plus a short write followed by ENOSPC on the retry (disk full in the middle of a buffer) */
static void fault_sweep(const int *kinds, int nkinds, int writes_only) {
  int md = !strcmp(K.kind, "md"), proc = md ? 1 : 0;
  K.nf = 0;
  run_case();
  static struct { int no; char what[16]; } cl[400]; int ncl = NCALLS, from = 0;      /* CALLS[] was recorded by run_md / run_mb */
  memcpy(cl, CALLS, sizeof cl);
  if (!md) { while (from < ncl && strcmp(cl[from].what, "open_append")) from++; }
  md_final_only = 1;
  for (int ci = from; ci < ncl; ci++) {
    const char *w = cl[ci].what; int iswrite = !strcmp(w, "write");
    if (writes_only && !(iswrite || !strcmp(w, "fsync") || !strcmp(w, "close") || !strcmp(w, "link"))) continue;
    for (int fe = 0; fe < nkinds; fe++) { fault1(proc, cl[ci].no, kinds[fe]); run_case(); }
    if (iswrite) {
      K.f[0].proc = proc; K.f[0].callno = cl[ci].no; K.f[0].err = -1; K.f[1].proc = proc; K.f[1].callno = cl[ci].no + 1; K.f[1].err = ENOSPC; K.nf = 2; run_case(); }
  }
  md_final_only = 0; K.nf = 0;
}

static void generate(int level, int nrandom, uint64_t seed) {
  /* (1) gfrom(): every string over a small alphabet */
  { static const char A[] = ">From \nf"; int L = level >= 3 ? 7 : 6; unsigned char b[8];
    for (int len = 0; len <= L; len++) { uint64_t tot = 1; for (int i = 0; i < len; i++) tot *= 8;
      for (uint64_t v = 0; v < tot; v++) { if (!mine()) continue; uint64_t x = v; for (int i = 0; i < len; i++) { b[i] = A[x % 8]; x /= 8; }
        fprintf(h_out, "G "); h_hex(b, len); fprintf(h_out, " %d\n", gfrom((char *)b, len) ? 1 : 0); } } }
  /* (2) myctime(): special instants, every day of 2096..2104 and 1999..2001, seeded random */
  { for (int i = 0; i < NTIMES; i++) for (int d = -1; d <= 1; d++) { if (!mine()) continue; long t = TIMES[i] + d; if (t < 0) continue; char *r = myctime(t); fprintf(h_out, "C %ld ", t); h_hex((unsigned char *)r, strlen(r)); fputc('\n', h_out); }
    for (long day = 10592; day < 11500; day++) { if (!mine()) continue; long t = day * 86400 + (day * 7919) % 86400; char *r = myctime(t); fprintf(h_out, "C %ld ", t); h_hex((unsigned char *)r, strlen(r)); fputc('\n', h_out); }
    for (long day = 46000; day < 49000; day += (level >= 3 ? 1 : 3)) { if (!mine()) continue; long t = day * 86400 + 86399; char *r = myctime(t); fprintf(h_out, "C %ld ", t); h_hex((unsigned char *)r, strlen(r)); fputc('\n', h_out); }
    h_seed(seed * 77 + 1);
    for (int i = 0; i < 2000; i++) { long t = (long)(h_rand() % (1ull << (20 + h_below(16)))); if (!mine()) continue; char *r = myctime(t); fprintf(h_out, "C %ld ", t); h_hex((unsigned char *)r, strlen(r)); fputc('\n', h_out); } }
  /* (3) mbox, one delivery, clean: every sequence of up to 2 (level>=3: 3) pool lines x tail x box shape (rotating senders, times) */
  { int maxl = level >= 3 ? 3 : 2; long c = 0;
    for (int nl = 0; nl <= maxl; nl++) { uint64_t tot = 1; for (int i = 0; i < nl; i++) tot *= NLINEPOOL;
      for (uint64_t v = 0; v < tot; v++) for (int tail = 0; tail < NTAILPOOL; tail++, c++) {
        if (!mine()) continue;
        kclear("mb"); pool_msg(0, v, nl, tail); strcpy(K.d[0].sender, SENDERS[c % NSENDERS]); K.time = TIMES[c % NTIMES]; set_box((int)(c % NBOX));
        run_case(); } } }
  /* (4) mbox, sizes around the 1024-byte buffers (entry length and message length), three byte styles */
  { static const int sz[] = { 900, 923, 940, 960, 1000, 1023, 1024, 1025, 1100, 2040, 2047, 2048, 2049, 2060, 3072, 5000 };
    for (unsigned s = 0; s < sizeof sz / sizeof sz[0]; s++) for (int d = -2; d <= 2; d++) for (int style = 0; style < 3; style++) {
      if (!mine()) continue;
      kclear("mb"); h_seed(seed * 131 + s * 17 + d * 3 + style); rnd_msg(0, sz[s] + d, style); set_box(2); run_case(); } }
  /* (5) mbox, every call index x every fault kind on three base cases (plus: lock failure followed by a write failure) */
  for (int base = 0; base < 3; base++) {
    kclear("mb"); h_seed(seed * 31 + base);
    if (base == 0) set_msg(0, "Subject: t\n\nFrom here\nbody", 26); else rnd_msg(0, base == 1 ? 1500 : 2600, 1);
    set_box(base == 0 ? 2 : base == 1 ? 0 : 3); strcpy(K.d[0].sender, base == 1 ? "" : "a b@c");
    int c0, c1; clean_calls(&c0, &c1);
    for (int fc = 1; fc <= c0; fc++) for (int fe = 0; fe < NFERRS; fe++) { if (!mine()) continue; fault1(0, fc, FERRS[fe]); run_case(); }
    for (int fc = 1; fc <= c0; fc++) for (int fc2 = fc + 1; fc2 <= c0 + 1; fc2++) { if (!mine()) continue;
      K.f[0].proc = 0; K.f[0].callno = fc; K.f[0].err = ENOLCK; K.f[1].proc = 0; K.f[1].callno = fc2; K.f[1].err = ENOSPC; K.nf = 2; run_case(); }
    K.nf = 0;
  }
  /* (6) maildir, clean, every crash point x resolution: message shapes x senders x host names x name collisions */
  { static const char *HN[] = { "mx.example", "h", "", "0123456789012345678901234567890123456789012345678901234567890123", "01234567890123456789012345678901234567890123456789012345678901234567890" };
    long c = 0;
    for (int shape = 0; shape < 14; shape++) for (int col = 0; col < 7; col++, c++) {
      if (!mine()) continue;
      kclear("md"); h_seed(seed * 57 + c);
      switch (shape) {
        case 0: set_msg(0, "", 0); break;
        case 1: set_msg(0, "a", 1); break;
        case 2: set_msg(0, "From x\n>From y\n>>From z\n", 24); break;
        case 3: set_msg(0, "Subject: s\n\nbody\n", 17); break;
        case 4: { unsigned char b[] = { 'a', 0, 0xff, '\n', 0x80, 0, '\n' }; set_msg(0, b, 7); break; }
        case 5: rnd_msg(0, 1023, 0); break; case 6: rnd_msg(0, 1024, 0); break; case 7: rnd_msg(0, 1025, 0); break;
        case 8: rnd_msg(0, 976 + col, 1); break;      /* file length around 1024 */
        case 9: rnd_msg(0, 2000 + col, 1); break;
        case 10: rnd_msg(0, 2048, 0); break; case 11: rnd_msg(0, 3100, 2); break;
        case 12: set_msg(0, "\n", 1); break;
        default: rnd_msg(0, h_below(300), 0); break;
      }
      strcpy(K.d[0].sender, SENDERS[c % NSENDERS]); K.time = TIMES[c % NTIMES]; if (K.time > 4000000000) K.time = 1234567890;
      set_hostname(HN[c % 5], strlen(HN[c % 5]));
      K.collide = col == 6 ? 9 : col;
      if (c % 11 == 3) strcpy(K.local, "u\nx y"); if (c % 13 == 5) strcpy(K.host, "h\nost");
      run_case();
    } }
  /* (7) maildir, every call index of parent and child x every fault kind on three base cases, each with every crash point */
  for (int base = 0; base < 3; base++) {
    kclear("md"); h_seed(seed * 37 + base);
    if (base == 0) set_msg(0, "Subject: t\n\nbody\n", 17); else rnd_msg(0, base == 1 ? 1100 : 2300, 1);
    K.collide = base == 2 ? 1 : 0;
    int c0, c1; clean_calls(&c0, &c1);
    for (int pr = 0; pr < 2; pr++) for (int fc = 1; fc <= (pr ? c1 : c0); fc++) for (int fe = 0; fe < NFERRS; fe++) {
      if (!mine()) continue; fault1(pr, fc, FERRS[fe]); run_case(); }
    /* the child alone is killed before each of its calls (fault kind -4 of sim.c): wait_crashed() in the parent */
    for (int fc = 1; fc <= c1 + 1; fc++) { if (!mine()) continue; fault1(1, fc, -4); run_case(); }
    K.nf = 0;
  }
  /* (8) concurrent mbox deliveries: 2 and 3 programs, depth-first over all schedules (capped), with and without a failing write */
  { int cap = level >= 3 ? 4000 : 250;
    for (int cfg = 0; cfg < 8; cfg++) {
      int n = cfg < 5 ? 2 : 3; long cnt = 0;
      nsched = 0; random_mode = 0;
      for (;;) {
        kclear("mc"); K.n = n; h_seed(seed * 41 + cfg);
        for (int i = 0; i < n; i++) { char s[40]; snprintf(s, sizeof s, "p%d@x", i); strcpy(K.d[i].sender, s); }
        switch (cfg) {
          case 0: set_msg(0, "From a\n", 7); set_msg(1, "b", 1); set_box(1); break;
          case 1: rnd_msg(0, 1500, 1); rnd_msg(1, 1200, 1); set_box(2); break;
          case 2: set_msg(0, "one\n", 4); rnd_msg(1, 1100, 1); set_box(0); fault1(2, 7, ENOSPC); break;
          case 3: rnd_msg(0, 1300, 1); set_msg(1, "two\n", 4); set_box(2); fault1(0, 8, EIO); break;
          case 4: rnd_msg(0, 1300, 1); rnd_msg(1, 40, 1); set_box(3); fault1(0, 9, EIO); break;
          case 5: set_msg(0, "a\n", 2); set_msg(1, ">From b\n", 8); set_msg(2, "c", 1); set_box(1); break;
          case 6: rnd_msg(0, 1100, 1); set_msg(1, "m\n", 2); rnd_msg(2, 30, 2); set_box(2); break;
          default: set_msg(0, "a\n", 2); rnd_msg(1, 1100, 1); set_msg(2, "c\n", 2); set_box(2); fault1(2, 8, ENOSPC); break;
        }
        int doit = mine();
        if (doit) run_case();
        else { /* the schedule tree must still be walked to find the successor: run without printing */
          FILE *sv = h_out; static FILE *nul; if (!nul) nul = fopen("/dev/null", "w"); h_out = nul; run_case(); h_out = sv; }
        cnt++;
        if (cnt >= cap || !next_schedule()) break;
      }
    }
    /* random schedules */
    for (int r = 0; r < nrandom / 4; r++) {
      if (!mine()) continue;
      kclear("mc"); K.n = 2 + (r & 1); h_seed(seed * 4099 + r);
      for (int i = 0; i < K.n; i++) { char s[40]; snprintf(s, sizeof s, "r%d y@x", i); strcpy(K.d[i].sender, s); rnd_msg(i, h_below(3) ? h_below(60) : 1000 + h_below(1500), 1 + (int)h_below(2)); }
      set_box((int)h_below(5));
      if (h_below(3) == 0) fault1(2 * (int)h_below(K.n), 5 + (int)h_below(8), (int[]){ EIO, ENOSPC, -1, EINTR }[h_below(4)]);
      nsched = 0; random_mode = 1; rng = seed * 977 + r;
      run_case();
    }
  }

  /* (10) output length exactly at the buffer boundaries: total output = k*1024 + d, d = -3..3, mbox and maildir, three
   *      message styles (text; From_/>From_ lines + unterminated last line; NUL/8-bit), rotating senders and old-file
   *      shapes / name collisions; each with a failing call at EVERY call index of the delivery x {ENOSPC, short write,
   *      EINTR (thorough: + EIO, alarm)} and short write + ENOSPC on the retry */
  { static const int KQ[] = { ENOSPC, -1, EINTR }, KT[] = { ENOSPC, -1, EINTR, EIO, -3 };
    int kmax = level >= 3 ? 6 : 4; long c = 0;
    for (int md = 0; md < 2; md++) for (int k = 1; k <= kmax; k++) for (int d = -3; d <= 3; d++) for (int style = 0; style < 3; style++, c++) {
      if (level < 3 && md && (int)((c + seed) % 3) != 0) continue;          /* quick: one style per maildir size (rotating with the seed) */
      if (!mine()) continue;                                                /* one shard does the whole sweep of a size */
      kclear(md ? "md" : "mb");
      strcpy(K.d[0].sender, SENDERS[(c + seed) % NSENDERS]);
      if (md) K.collide = (c + seed) % 5 == 4 ? 1 : 0; else set_box((int[]){ 2, 0, 3, 1 }[(c + seed) % 4]);
      if (!fit_msg(style, 1024L * k + d)) { run_case(); continue; }    /* not reachable: still exercise the case */
      fault_sweep(level >= 3 ? KT : KQ, level >= 3 ? 5 : 3, 0);
    }
    /* the input side: MESSAGE length k*1024 + d (the 1024-byte read buffer), same fault sweep */
    for (int md = 0; md < 2; md++) for (int k = 1; k <= kmax; k++) for (int d = -1; d <= 1; d++, c++) {
      if (!mine()) continue;
      kclear(md ? "md" : "mb");
      int style = (int)((c + seed) % 3);
      strcpy(K.d[0].sender, SENDERS[(c + seed) % NSENDERS]);
      if (!md) set_box((int[]){ 2, 0, 3, 1 }[(c + seed) % 4]);
      filler_msg(style, 64); filler_msg(style, 64 + 1024L * k + d - (long)K.d[0].mn);
      fault_sweep(level >= 3 ? KT : KQ, level >= 3 ? 5 : 3, 0);
    } }
  /* (11) the same without knowing where the boundaries are: the filler length runs over a full residue class range
   *      0..1030 (quick: mbox all of it, maildir a third of it per seed, so three seeds cover everything), a failing write /
   *      fsync / close / link at every such call x {ENOSPC (thorough: + short write)} and short write + ENOSPC on the retry */
  { static const int KR[] = { ENOSPC, -1 };
    for (int md = 0; md < 2; md++) for (int base = 0; base < (level >= 3 ? 3 : 1); base++) for (long f = 0; f <= 1030; f++) {
      if (level < 3 && md && (f + seed) % 3 != 0) continue;
      if (!mine()) continue;
      kclear(md ? "md" : "mb");
      int style = (int)((f / 3 + base) % 4);
      long kb = level >= 3 ? base : (long)((f / 7 + seed) % 3);                /* which multiple of 1024 the range sits on */
      filler_msg(style, 1 + f + 1024L * kb);
      if (!md) set_box((int)(f % 2) * 2);
      fault_sweep(KR, level >= 3 ? 2 : 1, 1);
    } }
  /* (12) several deliveries into one maildir (kind mm): restarts with the same / another pid, 0..3 s later, with and without a
   *      reader emptying new/, stale tmp/ and new/ names; a second delivery running completely between two calls of the first
   *      child (every call index), same second, other pid; three deliveries: one nested, one restart re-using a pid */
  { static const char *M[] = { "Subject: a\n\none\n", "From x\nsecond message, no newline", "" };
    long c = 0;
    for (int same = 0; same < 2; same++) for (int dt = 0; dt < 4; dt++) for (int mua = 0; mua < 2; mua++) for (int col = 0; col < 3; col++, c++) {
      if (!mine()) continue;
      kclear("mm"); K.n = 2; K.collide = col; K.time = TIMES[c % 3];
      set_msg(0, M[c % 3], strlen(M[c % 3])); set_msg(1, M[(c / 3) % 3], strlen(M[(c / 3) % 3])); strcpy(K.d[1].sender, SENDERS[c % NSENDERS]);
      K.pid[1] = same ? K.pid[0] : K.pid[0] + 5; K.dt[1] = dt; K.mua[1] = mua;
      run_case();
    }
    for (int v = 0; v < 64; v++, c++) {
      if (!mine()) continue;
      kclear("mm"); K.n = 3; K.collide = (v >> 5) & 1;
      for (int i = 0; i < 3; i++) set_msg(i, M[(v + i) % 3], strlen(M[(v + i) % 3]));
      K.pid[1] = K.pid[0]; K.pid[2] = (v & 1) ? K.pid[0] : K.pid[0] + 2;
      K.dt[1] = (v >> 1) & 1; K.dt[2] = ((v >> 2) & 1) * 2; K.mua[1] = (v >> 3) & 1; K.mua[2] = (v >> 4) & 1;
      run_case();
    }
    { kclear("mm"); K.n = 1; set_msg(0, M[0], strlen(M[0])); int c0, c1; clean_calls(&c0, &c1);
      for (int col = 0; col < 3; col++) for (int at = 1; at <= c1 + 1; at++) for (int third = 0; third < 2; third++, c++) {
        if (!mine()) continue;
        kclear("mm"); K.n = 2 + third; K.collide = col;
        set_msg(0, M[0], strlen(M[0])); set_msg(1, M[c % 3], strlen(M[c % 3])); set_msg(2, M[1], strlen(M[1]));
        K.pid[1] = K.pid[0] + 1 + (c % 2); K.at[1] = at;
        K.pid[2] = K.pid[1]; K.dt[2] = c % 3; K.mua[2] = (c / 3) % 2;      /* the restart re-uses the pid of the nested one */
        run_case();
      }
      /* a failing call in the nested / restarted delivery */
      for (int at = 0; at <= c1; at += 3) for (int fc = 1; fc <= c1; fc++, c++) {
        if (!mine()) continue;
        kclear("mm"); K.n = 2; set_msg(0, M[0], strlen(M[0])); set_msg(1, M[1], strlen(M[1]));
        K.pid[1] = at ? K.pid[0] + 1 : K.pid[0]; K.at[1] = at; fault1(3, fc, (int[]){ ENOSPC, EIO, -3, -4 }[c % 4]);
        run_case();
      } }
  }
  /* (9) seeded random single deliveries */
  for (int r = 0; r < nrandom; r++) {
    if (!mine()) continue;
    h_seed(seed * 1000003ull + r);
    int md = h_below(2);
    kclear(md ? "md" : "mb");
    size_t n = h_below(4) == 0 ? 900 + h_below(2500) : h_below(200);
    rnd_msg(0, n, (int)h_below(3));
    if (h_below(3) == 0) { size_t l = 0; char *s = K.d[0].sender; int sl = 1 + h_below(12); for (int i = 0; i < sl; i++) { int ch = 1 + h_below(255); s[l++] = h_below(4) == 0 ? " \t\n@\"\\."[h_below(7)] : ch; } s[l] = 0; }
    else strcpy(K.d[0].sender, SENDERS[h_below(NSENDERS)]);
    K.time = h_below(2) ? TIMES[h_below(NTIMES)] : (long)(h_rand() % 4000000000ull);
    if (md) { if (K.time > 4000000000) K.time = 999999999; K.collide = h_below(3) ? 0 : (int)h_below(6); }
    else set_box((int)h_below(NBOX));
    if (h_below(3) == 0) {      /* any call of the parent / the maildir child, however long the run is */
      int c0, c1; clean_calls(&c0, &c1);
      int pr = md && c1 > 0 ? (int)h_below(2) : 0, nc = pr ? c1 : c0;
      fault1(pr, 1 + (int)h_below(nc > 0 ? nc : 1), FERRS[h_below(NFERRS)]);
    }
    run_case();
  }
}

int main(int argc, char **argv) {
  h_init_out();
  SIM_REGISTER(qa); SIM_REGISTER(qb); SIM_REGISTER(qc); sim_globals_snapshot();
  if (argc > 1 && !strcmp(argv[1], "-")) { stdin_cases(); fflush(h_out); return 0; }
  int level = h_argi(argc, argv, 1, 2), nrandom = h_argi(argc, argv, 2, 200);
  uint64_t seed = (uint64_t)h_argi(argc, argv, 3, 1);
  g_shard = h_argi(argc, argv, 4, 0); g_nshards = h_argi(argc, argv, 5, 1);
  generate(level, nrandom, seed);
  fflush(h_out);
  return 0;
}
