/* C07 whole-program harness: the real qmail-qmqpd.c main() + the real qmail.c against the stand-in queue program.
 * usage: c07_qmqpd <nrandom> <seed> <shard> <nshards>   |   c07_qmqpd -   (case lines on stdin)
 * payload of a case: <request bytes>.  See c07_common.h for the line format. */
#include "c07_common.h"
#define read c07_read
#define write c07_write
#define fork c07_fork
#include "qmail.c"
#undef fork
#define _exit(x) h_exit(x)
#define main qmqpd_main
#include "qmail-qmqpd.c"
#undef main
#undef _exit
#undef read
#undef write

static void one(c07_case *c) {
  static unsigned char in[1 << 21];
  size_t n = c07_unhex(c->pay[0], in);
  c07_setup(c, in, n);
  ssin.p = 0; ssin.n = sizeof ssinbuf; ssout.p = 0; bytesleft = 100; flagok = 1; binqqargs[0] = 0;
  int code;
  h_exit_armed = 1;
  if (setjmp(h_jb) == 0) { qmqpd_main(); code = -1; } else code = h_exitcode;
  h_exit_armed = 0;
  c07_finish(c, code);
}

typedef struct { const char *s; size_t n; } str_t;
#define S(x) { x, sizeof(x) - 1 }
static void req(hbuf *b, const void *body, size_t bn, const void *sender, size_t sn, int nr, const str_t *r) {
  hbuf in = {0};
  c07_ns(&in, body, bn); c07_ns(&in, sender, sn);
  for (int i = 0; i < nr; i++) c07_ns(&in, r[i].s, r[i].n);
  c07_ns(b, in.p, in.n);
  free(in.p);
}
static void emit(c07_case *c, hbuf *b) { c->pay[0] = c07_hexdup(b->p, b->n); c->npay = 1; one(c); }
static char *fill(size_t n, char ch, const char *suffix) {
  char *s = malloc(n + 1); size_t sl = strlen(suffix);
  memset(s, ch, n); if (sl <= n) memcpy(s + n - sl, suffix, sl); s[n] = 0; return s;
}
static const str_t RC2[] = { S("u1@a.example"), S("u2@b.example") };
static const char BODY[] = "Subject: q\n\nline one\r\n.\nlast";

static void enumerate(void) {
  c07_case c; hbuf b = {0};
  /* custom texts outside the qmail-queue.8 interface (first byte neither D nor Z): NUL, 'K' */
  for (int k = 0; k < 2; k++) {
    if (!c07_mine()) continue;
    c07_defaults(&c, 'Q', k); free(c.qq); c.qq = strdup(k ? "82,0,4b6f6b2066616b65" : "82,0,007879");
    hbuf_reset(&b); req(&b, "x\n", 2, "s@x", 3, 1, RC2); emit(&c, &b); c07_free(&c);
  }
  /* every exit status; custom texts; crash */
  for (int e = 0; e < 256; e++) {
    if (!c07_mine()) continue;
    c07_defaults(&c, 'Q', e); free(c.qq); c.qq = c07_qqscript(e, 0, e % 7 == 0 ? "Zignored unless 82" : 0);
    hbuf_reset(&b); req(&b, BODY, sizeof BODY - 1, "s@x.example", 11, 2, RC2); emit(&c, &b); c07_free(&c);
  }
  for (int t = 0; t < C07_N(c07_texts); t++) for (int e = 81; e <= 83; e++) {
    if (!c07_mine()) continue;
    c07_defaults(&c, 'Q', t); free(c.qq); c.qq = c07_qqscript(e, 0, c07_texts[t]);
    hbuf_reset(&b); req(&b, BODY, sizeof BODY - 1, "", 0, 1, RC2); emit(&c, &b); c07_free(&c);
  }
  for (int sg = 0; sg < 3; sg++) {
    if (!c07_mine()) continue;
    c07_defaults(&c, 'Q', sg); free(c.qq); c.qq = c07_qqscript(0, (int[]){ SIGKILL, SIGTERM, SIGSEGV }[sg], 0);
    hbuf_reset(&b); req(&b, BODY, sizeof BODY - 1, "s", 1, 1, RC2); emit(&c, &b); c07_free(&c);
  }
  /* address lengths around 1000, NULs, no recipients, empty body */
  for (int who = 0; who < 2; who++) for (int len = 996; len <= 1003; len++) {
    if (!c07_mine()) continue;
    char *a = fill(len, 'q', "@ok.example"); str_t rr[3] = { S("first@x"), { a, len }, S("last@x") };
    c07_defaults(&c, 'Q', len); hbuf_reset(&b);
    if (who == 0) req(&b, "x\n", 2, a, len, 2, RC2); else req(&b, "x\n", 2, "s@x", 3, 3, rr);
    emit(&c, &b); c07_free(&c); free(a);
  }
  for (int who = 0; who < 2; who++) for (int pos = 0; pos < 5; pos++) {
    if (!c07_mine()) continue;
    char a[] = "ab@ok.example"; if (pos < 4) a[pos * 4] = 0;
    str_t rr[2] = { S("first@x"), { a, 13 } };
    c07_defaults(&c, 'Q', pos); hbuf_reset(&b);
    if (who == 0) req(&b, "x\n", 2, a, 13, 2, RC2); else req(&b, "x\n", 2, "s@x", 3, 2, rr);
    emit(&c, &b); c07_free(&c);
  }
  for (int k = 0; k < 3; k++) {
    if (!c07_mine()) continue;
    c07_defaults(&c, 'Q', k); hbuf_reset(&b);
    if (k == 0) req(&b, "x\n", 2, "s", 1, 0, RC2);
    if (k == 1) req(&b, "", 0, "", 0, 1, RC2);
    if (k == 2) { req(&b, "x\n", 2, "s", 1, 1, RC2); hbuf_add(&b, "trailing", 8); }
    emit(&c, &b); c07_free(&c);
  }
  /* every cut point and every single-byte substitution of a short request; outer length off by -2..+2 */
  {
    hbuf s = {0}; static const str_t r1[] = { S("u@a"), S("v@b.example") };
    req(&s, "H: v\n\nb\n", 8, "s@x", 3, 2, r1);
    for (size_t k = 0; k <= s.n; k++) {
      if (!c07_mine()) continue;
      c07_defaults(&c, 'Q', (unsigned)k); c.chunk = (int)(k % 3);
      hbuf_reset(&b); if (k) hbuf_add(&b, s.p, k); emit(&c, &b); c07_free(&c);
    }
    static const unsigned char alt[] = { '0', '9', ':', ',', '/', 'a', 0, '\n', ';', 0xff, '5', '3' };
    for (size_t k = 0; k < s.n; k++) for (int a = 0; a < (int)sizeof alt; a++) {
      if (alt[a] == s.p[k]) continue;
      if (!c07_mine()) continue;
      c07_defaults(&c, 'Q', 1);
      hbuf_reset(&b); hbuf_add(&b, s.p, s.n); b.p[k] = alt[a]; emit(&c, &b); c07_free(&c);
    }
    for (int d = -3; d <= 3; d++) {
      if (!c07_mine()) continue;
      hbuf in = {0}; c07_ns(&in, "m\n", 2); c07_ns(&in, "s", 1); c07_ns(&in, "r@x", 3);
      char l[32]; int ll = sprintf(l, "%d:", (int)in.n + d);
      c07_defaults(&c, 'Q', 1); hbuf_reset(&b); hbuf_add(&b, l, ll); hbuf_add(&b, in.p, in.n); hbuf_add(&b, ",", 1);
      emit(&c, &b); c07_free(&c); free(in.p);
    }
    free(s.p);
  }
  /* the k-th write to the queue program fails */
  for (int v = 0; v < 3; v++) for (int wf = 0; wf < 6; wf++) {
    if (!c07_mine()) continue;
    c07_defaults(&c, 'Q', wf); c.wfault = wf; hbuf_reset(&b);
    char *big = fill(2500, 'b', "\n"); char *a = fill(700, 'r', "@ok.example"); str_t rr[3] = { { a, 700 }, { a, 700 }, S("z@ok.example") };
    if (v == 0) req(&b, BODY, sizeof BODY - 1, "s@x", 3, 2, RC2);
    if (v == 1) req(&b, big, 2500, "s@x", 3, 2, RC2);
    if (v == 2) req(&b, BODY, sizeof BODY - 1, a, 700, 3, rr);
    emit(&c, &b); c07_free(&c); free(big); free(a);
  }
}

/* every byte value in every peer-supplied string; address lengths 0..1030 in every role */
static void enumerate2(void) {
  c07_case c; hbuf b = {0};
  for (unsigned k = 0; k < C07_NPEERV; k++) {
    if (C07_PEER_HELO_ONLY(k)) continue;
    if (!c07_mine()) continue;
    char *helo; c07_peer_variant(&c, 'Q', k, &helo); free(helo);
    hbuf_reset(&b); req(&b, "x\n", 2, "s@x", 3, 1, RC2); emit(&c, &b); c07_free(&c);
  }
  for (int role = 0; role < 4; role++) for (int i = 0; c07_addrlen(i) >= 0; i++) {
    if (!c07_mine()) continue;
    int len = c07_addrlen(i);
    char *a = fill(len, 'q', "@ok.example"); str_t rr[3] = { S("first@x"), { a, len }, S("last@x") };
    c07_defaults(&c, 'Q', len + role); hbuf_reset(&b);
    if (role == 0) req(&b, "x\n", 2, a, len, 2, RC2);
    if (role == 1) req(&b, "x\n", 2, "s@x", 3, 1, rr + 1);
    if (role == 2) req(&b, "x\n", 2, "s@x", 3, 3, rr);
    if (role == 3) req(&b, "x\n", 2, "", 0, 2, rr);   /* last of two, empty sender */
    emit(&c, &b); c07_free(&c); free(a);
  }
}

/* Real-queue leg (protocol letter 'q'): the real qmail-queue behind the real qmail.c.
 * The envelope is made longer than qmail.c's 1024-byte buffer, so that part of it has reached qmail-queue when the session
 * fails; the sender length sweeps a full period of the recipient record size, so that the flushed part ends at every position
 * of a record (after 'T', inside the address, exactly at a record boundary); then the session fails in every way the daemon
 * knows: the client disconnects (several cut points behind the flush), a recipient contains NUL, a recipient is too long,
 * the framing breaks.  Nothing may be committed, whatever qmail-queue had read by then. */
static void real_sweep(int quickdiv) {
  c07_case c; hbuf b = {0};
  static const int recs[] = { 4, 8, 16, 100 };
  for (int ri = 0; ri < 4; ri++) {
    int rec = recs[ri], L = rec - 2, nr = 1030 / rec + 6;
    for (int sl = 0; sl < rec; sl++) for (int kind = 0; kind < 8; kind++) {
      if (rec == 100 && !(kind == 1 || kind == 5)) continue;
      if (kind == 0 && sl % 4) continue;
      if (quickdiv > 1 && rec == 100 && (sl % quickdiv) && kind != 5) continue;
      if (!c07_mine()) continue;
      char *sender = fill(sl, 's', ""); static char rb[300][104]; static str_t rr[300];
      for (int i = 0; i < nr + 3; i++) { memset(rb[i], 'a' + i % 26, L); rb[i][0] = 'r'; rr[i].s = rb[i]; rr[i].n = L; }
      int n = nr;
      char *longa = 0;
      if (kind == 5) { rb[nr][L / 2] = 0; n = nr + 3; }       /* a recipient with NUL, then two good ones */
      if (kind == 6) { longa = fill(1000 + sl % 5, 'l', "@x"); rr[nr].s = longa; rr[nr].n = 1000 + sl % 5; n = nr + 3; }
      c07_defaults(&c, 'q', sl + kind); hbuf_reset(&b);
      req(&b, "Subject: real\n\nbody\n", 20, sender, sl, n, rr);
      size_t wire = (size_t)(L >= 10 ? 2 : 1) + 1 + L + 1;     /* netstring of one recipient */
      if (kind >= 1 && kind <= 4) {                             /* the client disconnects: before the last comma, at a record boundary, inside records */
        size_t back = kind == 1 ? 1 : kind == 2 ? 1 + wire : kind == 3 ? 1 + 2 * wire + wire / 2 : 2 + 3 * wire;
        if (back < b.n) b.n -= back;
      }
      if (kind == 7) b.p[b.n - 1 - wire] = 'x';                 /* the length of the last recipient is not a number */
      emit(&c, &b); c07_free(&c); free(sender); free(longa);
    }
  }
}
static void enumerate_real(void) {
  c07_case c; hbuf b = {0};
  /* clean sessions: must be acknowledged and committed exactly */
  for (int k = 0; k < 8; k++) {
    if (!c07_mine()) continue;
    c07_defaults(&c, 'q', k); hbuf_reset(&b);
    char *big = fill(k == 3 ? 9000 : 1500, 'b', "\n"); static char rb[40][16]; static str_t rr[40];
    for (int i = 0; i < 40; i++) { snprintf(rb[i], 16, "u%d@h%d.example", i, i % 7); rr[i].s = rb[i]; rr[i].n = strlen(rb[i]); }
    if (k == 0) req(&b, BODY, sizeof BODY - 1, "s@x.example", 11, 2, RC2);
    if (k == 1) req(&b, "", 0, "", 0, 1, RC2);
    if (k == 2) req(&b, big, 1500, "s@x", 3, 25, rr);
    if (k == 3) req(&b, big, 9000, "s@x", 3, 40, rr);
    if (k == 4) req(&b, "x\n", 2, "s", 1, 0, RC2);
    if (k == 5) { char *a = fill(999, 'q', "@ok.example"); str_t r1[2] = { { a, 999 }, { a, 999 } }; req(&b, "x\n", 2, a, 999, 2, r1); free(a); }
    if (k == 6) { req(&b, BODY, sizeof BODY - 1, "s@x", 3, 2, RC2); c.wfault = 1; }
    if (k == 7) { req(&b, big, 1500, "s@x", 3, 25, rr); c.wfault = 2; }
    emit(&c, &b); c07_free(&c); free(big);
  }
  /* every cut point of a short request */
  { hbuf s = {0}; static const str_t r1[] = { S("u@a"), S("v@b.example") };
    req(&s, "H: v\n\nb\n", 8, "s@x", 3, 2, r1);
    for (size_t k = 0; k <= s.n; k++) {
      if (!c07_mine()) continue;
      c07_defaults(&c, 'q', (unsigned)k); hbuf_reset(&b); if (k) hbuf_add(&b, s.p, k); emit(&c, &b); c07_free(&c);
    }
    free(s.p); }
}

static void randoms(int nrandom, uint64_t seed) {
  c07_case c; hbuf b = {0};
  for (int r = 0; r < nrandom; r++) {
    if (!c07_mine()) continue;
    h_seed(seed * 1000003ull + r + 77777);
    c07_defaults(&c, 'Q', h_below(1000));
    static const int codes[] = { 0, 0, 0, 0, 0, 11, 31, 51, 53, 54, 81, 91, 115, 120, 1, 40, 41, 100, 255 };
    free(c.qq);
    if (h_below(10) == 0) c.qq = c07_qqscript(82, 0, h_below(2) ? "Dcustom no" : "Zcustom later");
    else c.qq = c07_qqscript(codes[h_below(C07_N(codes))], h_below(40) == 0 ? SIGKILL : 0, 0);
    unsigned char body[4000]; size_t bn = h_below(10) == 0 ? h_below(3000) : h_below(70);
    for (size_t i = 0; i < bn; i++) { uint32_t x = h_below(12); body[i] = x == 0 ? '\r' : x == 1 ? '\n' : x == 2 ? 0 : (unsigned char)('a' + h_below(26)); }
    unsigned char sender[1100]; size_t sn = h_below(12) == 0 ? 990 + h_below(15) : h_below(20);
    for (size_t i = 0; i < sn; i++) sender[i] = (unsigned char)('a' + h_below(26));
    if (sn && h_below(12) == 0) sender[h_below(sn)] = 0;
    int nr = h_below(5); str_t rr[5]; static char rb[5][1200];
    for (int i = 0; i < nr; i++) {
      size_t ln = h_below(15) == 0 ? 985 + h_below(20) : h_below(14);
      for (size_t j = 0; j < ln; j++) rb[i][j] = (char)('a' + h_below(26));
      if (ln && h_below(15) == 0) rb[i][h_below(ln)] = 0;
      rr[i].s = rb[i]; rr[i].n = ln;
    }
    hbuf_reset(&b); req(&b, body, bn, sender, sn, nr, rr);
    uint32_t mu = h_below(10);
    if (mu == 0 && b.n) b.n = h_below(b.n);
    if (mu == 1 || mu == 2) for (int k = 0; k < 1 + (int)h_below(2); k++) if (b.n) {
      static const unsigned char alt[] = { '0', '1', '9', ':', ',', '/', ';', 'a', 0, '\n', 0xff, ' ' };
      b.p[h_below(b.n)] = alt[h_below(sizeof alt)];
    }
    if (mu == 3 && b.n) { size_t p = h_below(b.n); memmove(b.p + p, b.p + p + 1, b.n - p - 1); b.n--; }
    if (mu == 4) { unsigned char x = "0:,9/"[h_below(5)]; size_t p = h_below(b.n + 1); hbuf_add(&b, "", 1); memmove(b.p + p + 1, b.p + p, b.n - 1 - p); b.p[p] = x; }
    if (h_below(25) == 0) c.wfault = h_below(6);
    c.chunk = (int[]){ 0, 0, 1, 3, 100 }[h_below(5)];
    if (h_below(8) == 0) { static const char *odd[] = { "e\\", "a\"b", "(c", "d)", "<e>", "f,g;h", "\x7f\x80\xff", "i\\)j(" };   /* peer strings from the whole byte range */
      int f = h_below(5); unsigned char v[16]; size_t vn = 1 + h_below(12);
      for (size_t i = 0; i < vn; i++) v[i] = (unsigned char)(1 + h_below(255));
      free(c.env[f]); c.env[f] = h_below(3) ? c07_hexdup(v, vn) : c07_hexs(odd[h_below(8)]); }
    if (h_below(25) == 0) c.proto = 'q';                       /* the same session against the real qmail-queue */
    emit(&c, &b); c07_free(&c);
  }
}

int main(int argc, char **argv) {
  c07_init();
  if (argc > 1 && !strcmp(argv[1], "-")) {
    static char line[1 << 23];
    while (fgets(line, sizeof line, stdin)) { c07_case c; if (c07_parse(line, &c) && toupper((unsigned char)c.proto) == 'Q' && c.npay >= 1) one(&c); }
  } else {
    int nrandom = h_argi(argc, argv, 1, 1000); uint64_t seed = (uint64_t)h_argi(argc, argv, 2, 1);
    c07_shard = h_argi(argc, argv, 3, 0); c07_nshards = h_argi(argc, argv, 4, 1); c07_thorough = nrandom > 50000;
    enumerate();
    enumerate2();
    enumerate_real();
    real_sweep(c07_thorough ? 1 : 5);
    randoms(nrandom, seed);
  }
  c07_fini();
  return 0;
}
