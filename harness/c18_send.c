/* C18 correspondence harness (3/3): the real qmail-send.c del_dochan() (with markdone, addbounce, job_close, del_status and
 * the real qsutil.c logging) fed with hostile byte streams on a report descriptor while deliveries are / are not in flight.
 * usage: c18_send <level> <nrandom> <seed> <shard> <nshards>   |   c18_send -   (cases "D <c> <jobs> <slots> <plan> <chunk> <hex>")
 * output per case:  D <c> <jobs> <slots> <plan> <chunk> <stream-hex> <trace>
 *   c     : channel (0 local, 1 remote)
 *   jobs  : ';'-separated  id:refs:numtodo:hiteof:dying:retry:channel       ('-' = none)
 *   slots : ';'-separated, one per delivery slot of channel c (their number is concurrency[c]):
 *           '-' unused | j:delid:mpos:recip-hex
 *   plan  : one byte per open_write()/unlink()/stat() call in order: 00 = open_write ok / unlink ok / stat ENOENT,
 *           01 = open_write fails / unlink fails / stat succeeds, 02 = stat fails with EIO (others: as 00)
 *   chunk : most bytes one read() returns (0 = sizeof delbuf); a negative number -s = every read() returns its own
 *           number of bytes between 1 and sizeof delbuf, drawn from a generator seeded with s (a third of them 1..16)
 *   trace : ','-separated events in program order
 *           L<hex> log bytes (descriptor 0, merged)   O<path-hex> open_write   K<pos> lseek   D<hex> write to that file
 *           A<path-hex> open_append   B<hex> write to the bounce file   U<path-hex> unlink   T<path-hex> stat
 *           Q<d|0|1>:<id>:<dt> prioq_insert into pqdone / pqchan[0] / pqchan[1]
 *           E<used flags>:<concurrencyused>:<dline.len>:<refs/numtodo of every job, ';'-separated>    (final state) */
#include "hcommon.h"
#include <errno.h>
#include <time.h>
#include <sys/stat.h>
#include <sys/time.h>

#define NOW 1000000
static ssize_t h_read(int fd, void *buf, size_t len);
static ssize_t h_write(int fd, const void *buf, size_t len);
static int h_close(int fd) { return 0; }
static off_t h_lseek(int fd, off_t pos, int whence);
static int h_fstat(int fd, struct stat *st) { memset(st, 0, sizeof *st); return 0; }
static int h_stat(const char *fn, struct stat *st);
static int h_unlink(const char *fn);
static int h_open_write(const char *fn);
static int h_open_append(const char *fn);
static time_t h_time(time_t *t) { return NOW; }
static unsigned int h_sleep(unsigned int s) { fprintf(stderr, "harness: sleep() called\n"); abort(); }
struct prioq_elt; struct prioq;
static int h_prioq_insert();

#define _exit(x) h_exit(x)
#define main qmail_send_main
#define read h_read
#define write h_write
#define close h_close
#define lseek h_lseek
#define fstat h_fstat
#define stat(a,b) h_stat(a,b)
#define unlink h_unlink
#define open_write h_open_write
#define open_append h_open_append
#define time h_time
#define sleep h_sleep
#define prioq_insert h_prioq_insert
#include "qsutil.c"
#include "qmail-send.c"
#undef main
#undef _exit
#undef read
#undef write
#undef close
#undef lseek
#undef fstat
#undef stat
#undef unlink
#undef time
#undef sleep

#define FD_CHAN 70
#define FD_BOUNCE 71
static hbuf mbuf; static char mtag;     /* pending merged event (L or B) */
static int first_ev;
static void ev_flush(void) {
  if (!mbuf.n) return;
  size_t n = mbuf.n; mbuf.n = 0;
  if (!first_ev) fputc(',', h_out); first_ev = 0; fputc(mtag, h_out); h_hex(mbuf.p, n);
}
static void ev_begin(char tag) { ev_flush(); if (!first_ev) fputc(',', h_out); first_ev = 0; fputc(tag, h_out); }
static void ev_merge(char tag, const void *p, size_t n) { if (mbuf.n && mtag != tag) ev_flush(); mtag = tag; hbuf_add(&mbuf, p, n); }

static const unsigned char *in_p; static size_t in_n, in_pos; static int in_chunk; static uint64_t in_rs;
static unsigned in_rand(void) { in_rs = in_rs * 6364136223846793005ull + 1442695040888963407ull; return (unsigned)(in_rs >> 33); }
static const unsigned char *plan_p; static size_t plan_n, plan_pos;
static int plan_next(void) { int r = plan_pos < plan_n ? plan_p[plan_pos] : 0; plan_pos++; return r; }

static ssize_t h_read(int fd, void *buf, size_t len) {
  size_t k = in_n - in_pos;
  if (k > len) k = len;
  if (in_chunk > 0 && k > (size_t)in_chunk) k = in_chunk;
  if (in_chunk < 0) { size_t c = (in_rand() % 3) ? 1 + in_rand() % 2048 : 1 + in_rand() % 16; if (k > c) k = c; }
  memcpy(buf, in_p + in_pos, k); in_pos += k;
  return k;
}
static ssize_t h_write(int fd, const void *buf, size_t len) {
  if (fd == 0) ev_merge('L', buf, len);
  else if (fd == FD_BOUNCE) ev_merge('B', buf, len);
  else if (fd == FD_CHAN) { ev_begin('D'); h_hex(buf, len); }
  else { fprintf(stderr, "harness: write to unexpected descriptor %d\n", fd); abort(); }
  return len;
}
static off_t h_lseek(int fd, off_t pos, int whence) { ev_begin('K'); fprintf(h_out, "%ld", (long)pos); return pos; }
static int h_open_write(const char *fn) { ev_begin('O'); h_hex((const unsigned char *)fn, strlen(fn)); if (plan_next() == 1) { errno = EIO; return -1; } return FD_CHAN; }
static int h_open_append(const char *fn) { ev_begin('A'); h_hex((const unsigned char *)fn, strlen(fn)); return FD_BOUNCE; }
static int h_unlink(const char *fn) { ev_begin('U'); h_hex((const unsigned char *)fn, strlen(fn)); if (plan_next() == 1) { errno = EIO; return -1; } return 0; }
static int h_stat(const char *fn, struct stat *st) {
  ev_begin('T'); h_hex((const unsigned char *)fn, strlen(fn));
  int r = plan_next(); memset(st, 0, sizeof *st);
  if (r == 1) return 0;
  errno = (r == 2) ? EIO : ENOENT; return -1;
}
static int h_prioq_insert(prioq *pq, struct prioq_elt *pe) {
  ev_begin('Q'); fprintf(h_out, "%c:%lu:%ld", pq == &pqdone ? 'd' : pq == &pqchan[0] ? '0' : '1', pe->id, (long)pe->dt);
  return 1;
}

static int hexv(int c) { return c <= '9' ? c - '0' : (c | 32) - 'a' + 10; }
static int unhex(const char *h, unsigned char *o) {
  int n = 0;
  if (h[0] == '-') return 0;
  for (; h[0] && h[1]; h += 2) o[n++] = hexv(h[0]) * 16 + hexv(h[1]);
  return n;
}

#define MAXSLOTS 16
#define MAXJOBS 16
static void one(int c, const char *jobs, const char *slots, const unsigned char *plan, size_t pn, int chunk,
                const unsigned char *m, size_t n) {
  static int inited;
  if (!inited) { inited = 1; fnmake_init(); constmap_init(&mapvdoms, "", 0, 1); constmap_init(&maplocals, "", 0, 0); constmap_init(&mappercenthack, "", 0, 0); numjobs = MAXJOBS; job_init();
                 concurrency[0] = concurrency[1] = MAXSLOTS; del_init(); mbuf.n = 0; }
  fprintf(h_out, "D %d %s %s ", c, jobs, slots); h_hex(plan, pn); fprintf(h_out, " %d ", chunk); h_hex(m, n); fputc(' ', h_out);
  /* jobs */
  int nj = 0;
  for (int j = 0; j < MAXJOBS; j++) jo[j].refs = 0;
  if (jobs[0] != '-') for (const char *p = jobs; *p;) {
    unsigned long id; int refs, numtodo, hiteof, dying, chan; long retry; int used = 0;
    if (sscanf(p, "%lu:%d:%d:%d:%d:%ld:%d%n", &id, &refs, &numtodo, &hiteof, &dying, &retry, &chan, &used) < 7) { fprintf(stderr, "harness: bad jobs\n"); abort(); }
    jo[nj].id = id; jo[nj].refs = refs; jo[nj].numtodo = numtodo; jo[nj].flaghiteof = hiteof; jo[nj].flagdying = dying;
    jo[nj].retry = retry; jo[nj].channel = chan; nj++;
    p += used; if (*p == ';') p++;
  }
  /* slots */
  int ns = 0, nused = 0;
  for (const char *p = slots; *p;) {
    if (*p == '-') { d[c][ns].used = 0; p++; }
    else {
      int j, used = 0; unsigned long delid; long mpos; static char rh[8192]; static unsigned char rb[4096];
      if (sscanf(p, "%d:%lu:%ld:%8191[0-9a-f-]%n", &j, &delid, &mpos, rh, &used) < 4) { fprintf(stderr, "harness: bad slots\n"); abort(); }
      int rl = unhex(rh, rb); rb[rl] = 0;
      d[c][ns].used = 1; d[c][ns].j = j; d[c][ns].delid = delid; d[c][ns].mpos = mpos; nused++;
      if (!stralloc_copys(&d[c][ns].recip, (char *)rb) || !stralloc_0(&d[c][ns].recip)) abort();
      p += used;
    }
    ns++; if (*p == ';') p++;
  }
  concurrency[c] = ns; concurrencyused[c] = nused;
  concurrency[!c] = 7; concurrencyused[!c] = 0;
  dline[c].len = 0; flagexitasap = 0; flagspawnalive[0] = flagspawnalive[1] = 1;
  in_p = m; in_n = n; in_pos = 0; in_chunk = chunk; in_rs = 0x9e3779b97f4a7c15ull ^ (uint64_t)(-(long)chunk);
  plan_p = plan; plan_n = pn; plan_pos = 0;
  first_ev = 1;
  while (in_pos < in_n) del_dochan(c);
  ev_begin('E');
  for (int i = 0; i < ns; i++) fputc(d[c][i].used ? '1' : '0', h_out);
  if (!ns) fputc('-', h_out);
  fprintf(h_out, ":%u:%u:", concurrencyused[c], dline[c].len);
  for (int j = 0; j < nj; j++) fprintf(h_out, "%s%d/%d", j ? ";" : "", jo[j].refs, jo[j].numtodo);
  if (!nj) fputc('-', h_out);
  fputc('\n', h_out);
  if (dline[c].a > 20000) { free(dline[c].s); dline[c].s = 0; dline[c].a = 0; if (!stralloc_copys(&dline[c], "")) abort(); }
}

/* ---------------------------------------------------------------- generators */
static const char *recips[] = { "726563697040686f7374", "6c6f63616c", "61400a62", "-", "757365722d65787440762e646f6d2e6578616d706c65" };
#define NEL(a) (sizeof a / sizeof a[0])

/* a standard world: 3 jobs, 4 slots of which slot 0,2 in flight for job 0 (two recipients), slot 3 for job 1 (dying) */
static const char *W_JOBS = "1234:3:2:1:0:900000:%d;77:2:1:1:1:900001:%d;5:1:0:0:0:900002:%d";
static const char *W_SLOTS = "0:11:0:726563697040686f7374;-;0:12:37:61400a62;1:13:5:6c6f63616c";

/* flush the protocol stream if a sanitizer aborts the process, so that the case being run is identified */
#if defined(__SANITIZE_ADDRESS__)
void __asan_set_death_callback(void (*cb)(void));
static void h_death(void) { if (h_out) fflush(h_out); }
#endif

int main(int argc, char **argv) {
  h_init_out();
#if defined(__SANITIZE_ADDRESS__)
  __asan_set_death_callback(h_death);
#endif
  if (argc > 1 && !strcmp(argv[1], "-")) {
    static char line[900000], jobs[4000], slots[40000], pl[4000], hx[800000], tag[16]; static unsigned char b[400000], pb[2000];
    while (fgets(line, sizeof line, stdin)) {
      int c, chunk;
      if (sscanf(line, "%15s %d %3999s %39999s %3999s %d %799999s", tag, &c, jobs, slots, pl, &chunk, hx) != 7 || tag[0] != 'D') continue;
      int pn = unhex(pl, pb);
      one(c, jobs, slots, pb, pn, chunk, b, unhex(hx, b));
    }
    fflush(h_out);
    return 0;
  }
  int level = h_argi(argc, argv, 1, 5), nrandom = h_argi(argc, argv, 2, 3000);
  uint64_t seed = (uint64_t)h_argi(argc, argv, 3, 1);
  int shard = h_argi(argc, argv, 4, 0), nshards = h_argi(argc, argv, 5, 1);
  uint64_t id = 0;
  char jobs[512];
  unsigned char m[64], pl[16];
  static unsigned char big[40000];
  /* (1) every stream over {0,1,2,3 (slot numbers; 0 is also NUL; slot 1 is unused), 4 (out of range), 'K','Z','D','x', 0xff} up to length <level>,
   *     against the standard world (deliveries in flight) and against an idle channel */
  static const unsigned char a[10] = { 0, 1, 2, 3, 4, 'K', 'Z', 'D', 'x', 0xff };
  for (int len = 0; len <= level; len++) {
    uint64_t total = 1; for (int i = 0; i < len; i++) total *= 10;
    for (uint64_t k = 0; k < total; k++, id++) {
      if ((int)(id % nshards) != shard) continue;
      uint64_t v = k; for (int i = 0; i < len; i++) { m[i] = a[v % 10]; v /= 10; }
      int c = (int)(k & 1);
      sprintf(jobs, W_JOBS, c, c, c);
      pl[0] = (k / 2) % 3; pl[1] = (k / 6) % 3; pl[2] = (k / 18) % 3;
      one(c, jobs, W_SLOTS, pl, 3, (k % 7 == 0) ? 1 : 0, m, len);
      if (k % 3 == 0) one(c, jobs, "-;-;-", 0, 0, 0, m, len);
    }
  }
  /* (3) reports around and beyond REPORTMAX for a delivery in flight, delivered in read()s of every kind: text lengths
   *     REPORTMAX-12 .. REPORTMAX+12 one by one and then up to REPORTMAX+2100 (one sizeof delbuf beyond) in steps, each with
   *     chunk sizes 1, 2, 3, 7, 1023, 1024, 2047, sizeof delbuf and two random chunkings; status letters K, D, Z (slot 3
   *     belongs to a dying job: Z is rewritten to D); optional garbage / an unterminated prefix in front, so that the report
   *     starts anywhere in a read(); always followed by a short report for another delivery */
  {
    static const int chunks[10] = { 1, 2, 3, 7, 1023, 1024, 2047, 0, -1, -2 };
    int nlen = level <= 5 ? 60 : 400;
    for (int li = 0; li < 25 + nlen; li++) for (int ci = 0; ci < 10; ci++, id++) {
      if ((int)(id % nshards) != shard) continue;
      int tl = li < 25 ? REPORTMAX - 14 + li : REPORTMAX + 11 + (int)(((uint64_t)(li - 24) * 2100) / nlen) - (int)((id * 7) % 5);
      int c = (int)(id & 1);
      static const unsigned char dl[3] = { 0, 2, 3 };
      size_t n = 0;
      int pre = (int)((id / 10) % 4);
      if (pre == 1) { big[n++] = 4; big[n++] = 'K'; big[n++] = 0; }                      /* out-of-range report first */
      if (pre == 2) { int g = 1 + (int)((id * 13) % 300); for (int i = 0; i < g; i++) big[n++] = 0; }   /* NULs: nothing */
      if (pre == 3) { big[n++] = 1; for (int i = 0; i < 1 + (int)((id * 31) % 2047); i++) big[n++] = 'u'; big[n++] = 0; }  /* unused slot */
      big[n++] = dl[(id / 40) % 3]; big[n++] = "KDZ"[(id / 120) % 3];
      for (int i = 0; i < tl; i++) big[n++] = (i % 61 == 60) ? '\n' : 'a' + (i % 26);
      big[n++] = 0;
      big[n++] = dl[(id / 40 + 1) % 3]; big[n++] = 'K'; big[n++] = 'o'; big[n++] = 'k'; big[n++] = 0;
      sprintf(jobs, W_JOBS, c, c, c);
      int ch = chunks[ci]; if (ch < 0) ch = -(int)(1 + (id * 2654435761u + seed) % 100000);
      one(c, jobs, W_SLOTS, 0, 0, ch, big, n);
    }
  }
  /* (2) seeded random: worlds with random slots/jobs, streams of mostly well-formed reports (all letters, long texts,
   *     texts beyond REPORTMAX, control bytes), reports for unused / out-of-range slots, garbage */
  h_seed(seed * 1000003ull + shard * 104729);
  for (int r = 0; r < nrandom; r++) {
    if ((r % nshards) != shard) continue;
    int c = h_below(2), ns = h_below(7), nj = 1 + h_below(4);
    char slots[2048]; size_t so = 0, jo_ = 0;
    int refs[8] = {0}, ntodo[8] = {0};
    for (int i = 0; i < ns; i++) {
      if (i) slots[so++] = ';';
      if (h_below(3) == 0) slots[so++] = '-';
      else { int j = h_below(nj); refs[j]++; ntodo[j]++; so += sprintf(slots + so, "%d:%u:%u:%s", j, 100 + i, h_below(500), recips[h_below(NEL(recips))]); }
    }
    if (!ns) slots[so++] = '-';
    slots[so] = 0;
    for (int j = 0; j < nj; j++) {
      int extra = h_below(3);   /* the pass itself may still hold a reference / have recipients to do */
      jo_ += sprintf(jobs + jo_, "%s%u:%d:%d:%d:%d:%u:%d", j ? ";" : "", 1 + h_below(100000), refs[j] + (extra > 0), ntodo[j] + (extra > 1 ? (int)h_below(3) : 0),
                     (int)h_below(2), (int)(h_below(4) == 0), 900000 + h_below(1000), c);
    }
    static unsigned char s[70000]; size_t n = 0;
    int nrep = 1 + h_below(8);
    for (int q = 0; q < nrep; q++) {
      int kind = h_below(12);
      if (kind == 0) { int l = h_below(30); for (int i = 0; i < l; i++) s[n++] = h_below(4) ? h_below(256) : 0; continue; }
      s[n++] = (kind == 1) ? h_below(256) : h_below(ns + 1);
      s[n++] = (kind == 2) ? h_below(256) : "KZDKZDKZDx"[h_below(10)];
      int l = (kind == 3) ? 9990 + h_below(30) : (kind == 4) ? 10000 + h_below(15000) : h_below(120);
      if (kind == 3 || kind == 4) { if (n + l > 40000) l = 50; }
      for (int i = 0; i < l; i++) { int x = h_below(20); s[n++] = x == 0 ? '\n' : x == 1 ? 1 + h_below(255) : x == 2 ? '%' : 'a' + h_below(26); }
      if (!(q == nrep - 1 && h_below(4) == 0)) s[n++] = 0;
    }
    int pn = h_below(3) ? 0 : 1 + h_below(8);
    for (int i = 0; i < pn; i++) pl[i] = h_below(3);
    one(c, jobs, slots, pl, pn, (int[]){0, 0, 1, 5, 2047, 100, 2, 1024, -1 - (int)h_below(100000)}[h_below(9)], s, n);
  }
  fflush(h_out);
  return 0;
}
