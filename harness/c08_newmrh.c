/* C08 harness, second translation unit: the real qmail-newmrh.c main(), renamed, so that the harness can
 * compile control/morercpthosts into control/morercpthosts.cdb in-process with the code under test.
 * Symbols that would clash with qmail-smtpd.c are renamed; nothing else is changed. */
#define main newmrh_main
#define die_read newmrh_die_read
#define die_write newmrh_die_write
#define ssin newmrh_ssin
#define inbuf newmrh_inbuf
#define line newmrh_line
#define match newmrh_match
#define fd newmrh_fd
#define fdtemp newmrh_fdtemp
#include "qmail-newmrh.c"
