/* C11 correspondence harness: the real qmail-newu.c main, cdb_seek(), qmail-getpw.c main, and
 * spawn.c docmd() -> qmail-lspawn.c spawn()/nughde_get() child, with the privileged calls recorded.
 *
 * usage: c11_users <ntemplate-lines> <nrandom> <seed> <shard> <nshards>   |   c11_users -   (cases on stdin)
 * Names (assign keys, wildcard prefixes, passwd accounts, probed local parts) range over ALL byte values except NUL, LF and
 * (in users/assign) ':' — see tl8/probe_locals8 (seed-independent) and name_mode/name_tok8 (seeded).
 *
 * output lines (hex fields: lower-case hex, "-" = empty):
 *   R <code|c> <first-byte> <fixed>                     report() on exit code <code> (c = crashed)
 *   Q <code|c> <out-hex>                                the whole output of report() when the child wrote "out\0tail" (len 8)
 *   I <uidp> <gidn> <uidq> <auto_qmail-hex> <aliasempty-hex>   ids obtained by the real initialize()
 *   P <pwtext-hex>                                      scripted passwd db + home directories from now on
 *   N <assign-hex> <rc> <cdb-hex> <stderr-hex>          real qmail-newu on that users/assign; its users/cdb is current
 *   C <cdb-hex|x>                                       raw bytes installed as users/cdb (x = no file)
 *   K <key-hex> <r> <data-hex> <pos>                    real cdb_seek on the current cdb (r=1 found, 0, -1 error, -2 data unreadable);
 *                                                       pos = file position cdb_seek left for the data (-1 unless it reported a record)
 *   G <local-hex> <rc> <out-hex>                        real qmail-getpw main
 *   S <fault> <sender-hex> <recip-hex> <X|E|D> <code> <log>   docmd()+spawn() child: X = execv of qmail-local reached,
 *                                                       E = _exit(code), D = docmd refused (log = its message)
 * stdin lines: "P hex", "A assign-hex", "C hex|x", "K key", "G local", "S fault sender recip", "R", and
 *   "<fault-digit> <blob-hex>" where blob = assign text, "%\n", pw text, "%\n", local parts one per line. */
#include "hcommon.h"
#include <pwd.h>
#include <grp.h>
#include <errno.h>
#include <fcntl.h>
#include <stdarg.h>
#include <sys/stat.h>
#include <sys/mman.h>
#include <sys/wait.h>
#include "substdio.h"
#include "stralloc.h"
#include "fd.h"
#include "subfd.h"
#include "cdb.h"

const char *__asan_default_options(void) { return "detect_leaks=0:allocator_may_return_null=1:max_allocation_size_mb=16"; }

/* ------------------------------------------------------------------ recording */
struct shlog { size_t n; char b[1 << 16]; };
static struct shlog *L;            /* shared with the forked qmail-getpw child */
static int logging, in_child, fault, fork_calls;
static unsigned sim_uid, sim_gid;
enum { F_NONE, F_CHDIR, F_SETGROUPS, F_SETGID, F_SETUID, F_EXECHARD, F_EXECSOFT, F_CDBOPEN, F_FORK, F_EXECPW, F_NFAULT };

static void lg_c(char c) { if (L && logging && L->n < sizeof L->b - 2) L->b[L->n++] = c; }
static void lg_hex(const char *s) {
  static const char d[] = "0123456789abcdef";
  if (!*s) lg_c('-');
  for (; *s; s++) { lg_c(d[(unsigned char)*s >> 4]); lg_c(d[*s & 15]); }
}
/* one event: [g]<text>; ('g' marks the forked qmail-getpw child) */
static void ev(const char *fmt, ...) {
  if (!L || !logging) return;
  char t[128];
  va_list ap; va_start(ap, fmt); vsnprintf(t, sizeof t, fmt, ap); va_end(ap);
  if (in_child) lg_c('g');
  for (char *p = t; *p; p++) lg_c(*p);
  lg_c(';');
}

/* link-level interposition of the privileged calls (prot.o is the real object) */
int setgroups(size_t n, const gid_t *g) {
  if (fault == F_SETGROUPS) { ev("sg!%zu:%u", n, n ? (unsigned)g[0] : 0); errno = EPERM; return -1; }
  ev("sg:%zu:%u", n, n ? (unsigned)g[0] : 0); return 0;
}
int setgid(gid_t g) {
  if (fault == F_SETGID) { ev("gid!%u", (unsigned)g); errno = EPERM; return -1; }
  ev("gid:%u", (unsigned)g); sim_gid = g; return 0;
}
int setuid(uid_t u) {
  if (fault == F_SETUID) { ev("uid!%u", (unsigned)u); errno = EAGAIN; return -1; }
  ev("uid:%u", (unsigned)u); sim_uid = u; return 0;
}
uid_t getuid(void) { ev("gu:%u", sim_uid); return sim_uid; }

/* ------------------------------------------------------------------ scripted passwd db */
struct pwent { char name[80]; unsigned uid, gid; char dir[160]; int flag; };
struct dirent_ { char path[160]; int err; unsigned owner; };
static struct pwent pwdb[96]; static int npw;
static struct dirent_ dirdb[96]; static int ndir;
static hbuf pwtext;
extern int error_temp();

static void pw_install(const unsigned char *t, size_t n) {
  npw = ndir = 0; hbuf_reset(&pwtext); hbuf_add(&pwtext, t, n);
  size_t i = 0;
  while (i < n) {
    size_t j = i; while (j < n && t[j] != '\n') j++;
    char ln[512]; size_t l = j - i; if (l >= sizeof ln) l = sizeof ln - 1;
    memcpy(ln, t + i, l); ln[l] = 0; i = j + 1;
    char *f[6]; int nf = 0; char *p = ln;
    f[nf++] = p;
    for (; *p && nf < 6; p++) if (*p == ':') { *p = 0; f[nf++] = p + 1; }
    if (ln[0] == '@') {
      if (nf < 3 || ndir >= 96) continue;
      struct dirent_ *d = &dirdb[ndir++];
      snprintf(d->path, sizeof d->path, "%s", f[0] + 1); d->err = atoi(f[1]); d->owner = strtoul(f[2], 0, 10);
      if (d->err) d->err = error_temp(d->err) ? EIO : ENOENT;      /* two classes only: temporary / permanent */
    } else {
      if (nf < 5 || npw >= 96) continue;
      struct pwent *e = &pwdb[npw++];
      snprintf(e->name, sizeof e->name, "%s", f[0]); e->uid = strtoul(f[1], 0, 10); e->gid = strtoul(f[2], 0, 10);
      snprintf(e->dir, sizeof e->dir, "%s", f[3]); e->flag = atoi(f[4]);
    }
  }
}
static struct passwd pw_ret; static char pw_name[80], pw_dir[160];
struct passwd *getpwnam(const char *name) {
  for (int i = 0; i < npw; i++) if (!strcmp(pwdb[i].name, name)) {
    if (pwdb[i].flag == 1) { errno = ETXTBSY; return 0; }
    strcpy(pw_name, pwdb[i].name); strcpy(pw_dir, pwdb[i].dir);
    pw_ret.pw_name = pw_name; pw_ret.pw_passwd = "x"; pw_ret.pw_uid = pwdb[i].uid; pw_ret.pw_gid = pwdb[i].gid;
    pw_ret.pw_gecos = ""; pw_ret.pw_dir = pw_dir; pw_ret.pw_shell = "";
    return &pw_ret;
  }
  /* the system accounts qmail-lspawn's initialize() needs, unless the script defines them */
  static const struct { const char *n; unsigned u; } sys[] = { { "qmailp", 7794 }, { "qmailq", 7795 } };
  for (int i = 0; i < 2; i++) if (!strcmp(sys[i].n, name)) {
    strcpy(pw_name, name); pw_ret.pw_name = pw_name; pw_ret.pw_passwd = "x"; pw_ret.pw_uid = sys[i].u; pw_ret.pw_gid = 2108;
    pw_ret.pw_gecos = ""; pw_ret.pw_dir = "/var/qmail"; pw_ret.pw_shell = ""; return &pw_ret;
  }
  return 0;
}
static struct group gr_ret;
struct group *getgrnam(const char *name) {
  static char *nomem[] = { 0 };
  if (strcmp(name, "nofiles") && strcmp(name, "qmail")) return 0;
  gr_ret.gr_name = (char *)name; gr_ret.gr_passwd = "x"; gr_ret.gr_gid = !strcmp(name, "nofiles") ? 2108 : 2107; gr_ret.gr_mem = nomem;
  return &gr_ret;
}
static int h_stat(const char *path, struct stat *st) {
  for (int i = 0; i < ndir; i++) if (!strcmp(dirdb[i].path, path)) {
    if (dirdb[i].err) { errno = dirdb[i].err; return -1; }
    memset(st, 0, sizeof *st); st->st_uid = dirdb[i].owner; st->st_mode = S_IFDIR | 0755; return 0;
  }
  errno = ENOENT; return -1;
}

/* ------------------------------------------------------------------ captured substdio outputs */
static hbuf cap;
static ssize_t capwrite(int fd, const void *buf, size_t n) {
  if (in_child) return write(1, buf, n);
  hbuf_add(&cap, buf, n); return n;
}
static char capbuf1[256], capbuf2[256];
static substdio capss1 = SUBSTDIO_FDBUF(capwrite, -1, capbuf1, sizeof capbuf1);
static substdio capss2 = SUBSTDIO_FDBUF(capwrite, -1, capbuf2, sizeof capbuf2);
substdio *h_gpw_out = &capss1;
substdio *h_newu_err = &capss2;

static pid_t real_fork(void) { return fork(); }
static int real_execv_unused;

static void c11_exit(int c) __attribute__((noreturn));
static void c11_exit(int c) { if (in_child) _Exit(c); h_exit(c); }

int h_chdir(const char *p) {
  if (in_child) lg_c('g');
  lg_c('c'); lg_c('d'); lg_c(':'); lg_hex(p); lg_c(';');
  if (fault == F_CHDIR) { errno = EACCES; return -1; }
  return 0;
}
int h_fd_move(int to, int from) { if (in_child) return fd_move(to, from); ev("fm:%d", to); return 0; }
int h_fd_copy(int to, int from) { if (in_child) return fd_copy(to, from); ev("fc:%d", to); return 0; }
static int h_fork(void) {
  if (fork_calls++ == 0) return 0;            /* spawn(): the delivery child runs in-process */
  if (fault == F_FORK) { errno = EAGAIN; return -1; }
  pid_t p = real_fork();                       /* nughde_get(): qmail-getpw runs in a real child */
  if (p == 0) in_child = 1;
  return p;
}
int getpw_main(int, char **);
static int h_execv(const char *path, char **argv) {
  if (in_child) lg_c('g');
  lg_c('x'); lg_c(':'); lg_hex(path);
  for (int i = 0; argv[i]; i++) { lg_c('.'); lg_hex(argv[i]); }
  lg_c(';');
  if (in_child) {
    if (fault == F_EXECPW) { errno = ENOENT; return -1; }
    int argc = 0; while (argv[argc]) argc++;
    int rc = getpw_main(argc, argv);
    _Exit(rc);
  }
  if (fault == F_EXECHARD) { errno = ENOENT; return -1; }
  if (fault == F_EXECSOFT) { errno = ETXTBSY; return -1; }
  longjmp(h_jb, 2);
}

/* ------------------------------------------------------------------ the unmodified sources */
#define _exit(x) c11_exit(x)
#define chdir(p) h_chdir(p)

#define main newu_main
#define wildchars newu_wildchars
#define inbuf newu_inbuf
#define ssin newu_ssin
#define subfderr h_newu_err
#include "qmail-newu.c"
#undef main
#undef wildchars
#undef inbuf
#undef ssin
#undef subfderr

#define main getpw_main
#define stat(p, s) h_stat(p, s)
#define subfdoutsmall h_gpw_out
#include "qmail-getpw.c"
#undef main
#undef stat
#undef subfdoutsmall

#define fork() h_fork()
#define execv(p, a) h_execv(p, a)
#define fd_move(a, b) h_fd_move(a, b)
#define fd_copy(a, b) h_fd_copy(a, b)
#include "qmail-lspawn.c"
#define main spawn_main
#include "spawn.c"
#undef main
#undef fork
#undef execv
#undef fd_move
#undef fd_copy
#undef chdir
#undef _exit

/* ------------------------------------------------------------------ drivers of the real code */
static char sandbox[128];
static hbuf cur_assign, cur_cdb; static int have_cdb;
static int fd_base;
static void sweep_fds(void) { for (int i = fd_base; i < fd_base + 24; i++) close(i); }

static void write_file(const char *name, const unsigned char *p, size_t n) {
  int f = open(name, O_WRONLY | O_CREAT | O_TRUNC, 0644);
  if (f < 0) { perror(name); exit(3); }
  size_t o = 0; while (o < n) { ssize_t w = write(f, p + o, n - o); if (w <= 0) { perror("write"); exit(3); } o += w; }
  close(f);
}
static int read_file(const char *name, hbuf *b) {
  hbuf_reset(b);
  int f = open(name, O_RDONLY); if (f < 0) return 0;
  char buf[65536]; ssize_t r;
  while ((r = read(f, buf, sizeof buf)) > 0) hbuf_add(b, buf, r);
  close(f); return 1;
}
static void remove_cdb(void) { unlink("users/cdb"); unlink("users/cdb.tmp"); }

static void do_R(void) {
  for (int c = 0; c <= 256; c++) {
    hbuf_reset(&cap); capss1.p = 0;
    report(&capss1, c == 256 ? 9 : (c << 8), "", 0); substdio_flush(&capss1);
    if (c == 256) fprintf(h_out, "R c "); else fprintf(h_out, "R %d ", c);
    fprintf(h_out, "%d %d\n", cap.n ? cap.p[0] : -1, cap.n > 1);
    hbuf_reset(&cap); capss1.p = 0;
    report(&capss1, c == 256 ? 9 : (c << 8), "out\0tail", 8); substdio_flush(&capss1);
    if (c == 256) fprintf(h_out, "Q c "); else fprintf(h_out, "Q %d ", c);
    h_hex(cap.p, cap.n); fputc('\n', h_out);
  }
}
static void do_P(const unsigned char *t, size_t n) {
  pw_install(t, n);
  /* print the canonical text of what was installed, so that harness and driver cannot read it differently */
  hbuf c = { 0 }; char ln[512];
  for (int i = 0; i < npw; i++) { int k = snprintf(ln, sizeof ln, "%s:%u:%u:%s:%d\n", pwdb[i].name, pwdb[i].uid, pwdb[i].gid, pwdb[i].dir, pwdb[i].flag == 1); hbuf_add(&c, ln, k); }
  for (int i = 0; i < ndir; i++) { int k = snprintf(ln, sizeof ln, "@%s:%d:%u\n", dirdb[i].path, dirdb[i].err, dirdb[i].owner); hbuf_add(&c, ln, k); }
  fputs("P ", h_out); h_hex(c.p, c.n); fputc('\n', h_out);
  free(c.p);
}
static void do_N(const unsigned char *a, size_t n) {
  hbuf_reset(&cur_assign); hbuf_add(&cur_assign, a, n);
  remove_cdb();
  write_file("users/assign", a, n);
  hbuf_reset(&cap); capss2.p = 0;
  int rc; logging = 0; in_child = 0; fault = 0;
  h_exit_armed = 1;
  if (setjmp(h_jb) == 0) rc = newu_main(); else rc = h_exitcode;
  h_exit_armed = 0;
  sweep_fds();
  have_cdb = read_file("users/cdb", &cur_cdb);
  fputs("N ", h_out); h_hex(a, n); fprintf(h_out, " %d ", rc);
  if (have_cdb) h_hex(cur_cdb.p, cur_cdb.n); else fputc('x', h_out);
  fputc(' ', h_out); h_hex(cap.p, cap.n); fputc('\n', h_out);
}
static void do_C(const unsigned char *c, size_t n, int present) {
  remove_cdb();
  have_cdb = present;
  hbuf_reset(&cur_cdb);
  if (present) { hbuf_add(&cur_cdb, c, n); write_file("users/cdb", c, n); }
  fputs("C ", h_out); if (present) h_hex(c, n); else fputc('x', h_out); fputc('\n', h_out);
}
static void do_K(const unsigned char *k, size_t n) {
  int f = open("users/cdb", O_RDONLY);
  if (f < 0) return;
  uint32 dlen = 0; int r = cdb_seek(f, (char *)k, (unsigned)n, &dlen);
  unsigned char *data = 0; size_t dn = 0; long long where = -1;
  if (r == 1) {
    off_t here = lseek(f, 0, SEEK_CUR); struct stat st; fstat(f, &st);
    where = (long long)here;
    if ((off_t)dlen > st.st_size - here) r = -2;
    else { data = malloc(dlen + 1); if (cdb_bread(f, (char *)data, dlen) == -1) r = -2; else dn = dlen; }
  }
  close(f);
  fputs("K ", h_out); h_hex(k, n); fprintf(h_out, " %d ", r); h_hex(data, dn); fprintf(h_out, " %lld\n", where);
  free(data);
}
static void do_G(const unsigned char *l, size_t n) {
  char *loc = malloc(n + 1); memcpy(loc, l, n); loc[n] = 0;
  char *args[3] = { "bin/qmail-getpw", loc, 0 };
  hbuf_reset(&cap); capss1.p = 0; logging = 0; in_child = 0; fault = 0;
  int rc;
  h_exit_armed = 1;
  if (setjmp(h_jb) == 0) { rc = getpw_main(2, args); }
  else rc = h_exitcode;
  h_exit_armed = 0;
  fputs("G ", h_out); h_hex((unsigned char *)loc, strlen(loc)); fprintf(h_out, " %d ", rc); h_hex(cap.p, cap.n); fputc('\n', h_out);
  free(loc);
}
static ssize_t capwrite_fd(int fd, const void *buf, size_t n) { hbuf_add(&cap, buf, n); return n; }
static void do_S(int flt, const unsigned char *s, size_t sn, const unsigned char *r, size_t rn) {
  /* the strings are C strings for the code under test: cut at the first NUL */
  sn = strnlen((const char *)s, sn); rn = strnlen((const char *)r, rn);
  fflush(h_out);
  L->n = 0; sim_uid = sim_gid = 0; fork_calls = 0; in_child = 0; fault = flt;
  if (fault == F_CDBOPEN) { remove_cdb(); symlink("cdb", "users/cdb"); }
  if (!stralloc_copys(&messid, "1") || !stralloc_0(&messid)) exit(3);
  if (!stralloc_copyb(&sender, (char *)s, sn) || !stralloc_0(&sender)) exit(3);
  if (!stralloc_copyb(&recip, (char *)r, rn) || !stralloc_0(&recip)) exit(3);
  delnum = 0; d[0].used = 0; flagabort = 0;
  hbuf_reset(&cap);
  substdio_fdbuf(&ssout, capwrite_fd, 1, outbuf, sizeof outbuf);
  char oc = 'D'; int code = 0;
  h_exit_armed = 1; logging = 1;
  int j = setjmp(h_jb);
  if (j == 0) docmd();
  else if (j == 1) { oc = 'E'; code = h_exitcode; }
  else { oc = 'X'; }
  logging = 0; h_exit_armed = 0; in_child = 0; fault = 0;
  sweep_fds();
  while (waitpid(-1, 0, WNOHANG) > 0) ;
  if (flt == F_CDBOPEN) { remove_cdb(); if (have_cdb) write_file("users/cdb", cur_cdb.p, cur_cdb.n); }
  fprintf(h_out, "S %d ", flt); h_hex(s, sn); fputc(' ', h_out); h_hex(r, rn);
  fprintf(h_out, " %c %d ", oc, code);
  if (oc == 'D') h_hex(cap.p, cap.n);
  else if (L->n) fwrite(L->b, 1, L->n, h_out); else fputc('-', h_out);
  fputc('\n', h_out);
}

/* ------------------------------------------------------------------ generators */
static int unhex(const char *h, unsigned char *o) {
  int n = 0;
  if (h[0] == '-' || h[0] == 'x') return 0;
  for (; h[0] && h[1]; h += 2) { unsigned v; sscanf(h, "%2x", &v); o[n++] = v; }
  return n;
}

static const char *DEFAULT_PW =
  "alias:7790:2108:/var/qmail/alias:0\n" "a:2001:201:/h/pa:0\n" "a-b:2002:202:/h/pab:0\n" "r:0:0:/root:0\n"
  "b:2003:203:/h/pb:0\n" "c:2004:204:/h/pc:0\n" "ab:2005:205:/h/nohome:0\n" "x:2006:206:/h/px:0\n"
  "jos\351:2007:207:/h/pj:0\n"                                         /* an account with an 8-bit (Latin-1) name */
  "@/var/qmail/alias:0:7790\n" "@/h/pa:0:2001\n" "@/h/pab:0:2002\n" "@/root:0:0\n" "@/h/pb:0:2001\n" "@/h/pc:5:2004\n" "@/h/px:0:2006\n"
  "@/h/pj:0:2007\n";

static const char *tl[] = {
  "=a:ua:1001:101:/h/a:::", "=A:uA:1002:102:/h/A:-:x:", "+a:wa:1003:103:/h/wa:-:p:", "+a-:wad:1004:104:/h/wad:-::",
  "+:wall:1005:105:/h/all:-::", "+ab:wab:1006:106:/h/wab:::", "=a-b:uab:1007:107:/h/uab:::", "+a-b:wabx:1008:108:/h/wabx:-:q:",
  "=r:root:0:0:/root:::", "=b:ub:4294967296:7:/h/b:::", "bad", "=s:us:12:13:/h:-", "+A-B:wx:1009:109:/h/wx:-::",
  "=ab:uab2:x12:y:/h/ab2:::extra:stuff", "+r-:rootw:0:5:/root:-::", "+a.:wdot:1010:110:/h/wdot:.::",
  "=c:uc:1011:111:/h/c:-:x" /* seven fields: one colon short */ };
#define NTL (sizeof tl / sizeof tl[0])
static const char *probe_locals[] = { "a", "A", "ab", "aB", "a-", "a-b", "A-B", "a-b-c", "a-bc", "a.b", "abc", "b", "r", "r-x", "R", "s", "", "-", "c", "a-B-C",
                                      "x-y", "a@b", "ba" };
#define NPL (sizeof probe_locals / sizeof probe_locals[0])

/* The whole byte range in names (qmail is 8-bit clean; case folding is ASCII-only): UTF-8 and Latin-1 sequences, 0x7f, 0x01, 0xff, 0x80,
 * bytes that are an ASCII letter + 0x80 (0xc1 = 'A'|0x80, 0xe1 = 'a'|0x80), upper-case ASCII next to 8-bit bytes; exact and wildcard. */
static const char *tl8[] = {
  "=m\303\274ller:mue:1101:111:/h/mue:::", "+m\303\274ller-:muew:1102:112:/h/muew:-::", "+jos\351-:jose:1103:113:/h/jose:-:\303\251-:",
  "=M\303\234LLER:MUE:1104:114:/h/MUE:::", "+\377:wff:1105:115:/h/wff:-:p:", "=\177\001:ctl:1106:116:/h/ctl:::",
  "+\301:whi:1107:117:/h/whi:-::", "+:wall:1005:105:/h/all:-::", "=\351:root8:0:0:/root:::", "+M\303\274:wmu:1108:118:/h/wm\374:::",
  "=\200\377\200:hi:1109:119:/h/hi:::" };
#define NTL8 (sizeof tl8 / sizeof tl8[0])
static const char *probe_locals8[] = { "m\303\274ller", "M\303\274LLER", "M\303\234LLER", "m\303\234ller", "m\303\274ller-news", "M\303\274Ller-News",
                                       "jos\351-x", "JOS\351-X", "jos\311-x", "jos\351", "\377", "\377x", "\377\377", "\177\001", "\177", "\301b", "\341b", "Ab",
                                       "\351", "\311", "m\303", "m\303\274", "\200\377\200", "\200\377", "plain", "\303\274-\303\274" };
#define NPL8 (sizeof probe_locals8 / sizeof probe_locals8[0])

static void S_local(int flt, const char *local, size_t ln, const char *domain) {
  unsigned char r[4096]; size_t n = 0;
  if (ln > 3000) ln = 3000;
  memcpy(r, local, ln); n = ln; r[n++] = '@'; size_t dl = strlen(domain); memcpy(r + n, domain, dl); n += dl;
  do_S(flt, (const unsigned char *)"sender@s.example", 16, r, n);
}

static const char name_alpha[] = "aaabbc-A-B.x+_";
/* name_mode 1: names are sequences of these tokens (at most 3 bytes each), else of the ASCII alphabet above */
static int name_mode;
static const char *name_tok8[] = { "a", "a", "b", "-", "-", "A", "B", "\303\274" /* u umlaut, UTF-8 */, "\303\234" /* U umlaut */, "\351" /* e acute, Latin-1 */,
                                   "\311" /* E acute */, "\377", "\200", "\177", "\001", "\301" /* 'A'|0x80 */, "\341" /* 'a'|0x80 */, "\342\202\254" /* euro */,
                                   "\240", "\337" };
#define NTOK8 (sizeof name_tok8 / sizeof name_tok8[0])
static size_t gen_name(char *o, int maxlen) {
  size_t n = h_below(maxlen + 1);
  if (name_mode && h_below(4)) {          /* in an 8-bit table three names out of four are 8-bit, the others ASCII */
    size_t l = 0;
    for (size_t i = 0; i < n; i++) {
      if (h_below(12) == 0) { unsigned char c = 1 + h_below(255); if (c == ':' || c == '\n') c = 0x80 | c; o[l++] = (char)c; continue; }   /* any byte */
      const char *t = name_tok8[h_below(NTOK8)]; size_t tn = strlen(t); memcpy(o + l, t, tn); l += tn;
    }
    o[l] = 0; return l;
  }
  for (size_t i = 0; i < n; i++) o[i] = name_alpha[h_below(sizeof name_alpha - 1)];
  o[n] = 0; return n;
}

/* a random, mostly well-formed users/assign; names collected for the probes */
static char gnames[4096][48]; static int ngnames;
static void gen_assign(hbuf *a, int nent, int clean) {
  hbuf_reset(a); ngnames = 0;
  name_mode = h_below(3) == 0;              /* every third table has names over the whole byte range */
  for (int i = 0; i < nent; i++) {
    char nm[48], line[256];
    size_t nl = gen_name(nm, nent > 100 ? 8 : 4);
    /* now and then a name longer than cdb_seek's 32-byte comparison chunk, sharing a long prefix with its siblings */
    if (h_below(24) == 0) { nl = 30 + h_below(12); for (size_t j = 0; j < nl; j++) nm[j] = j < 29 ? 'l' : "ab-"[h_below(3)]; nm[nl] = 0; }
    if (ngnames < 4096) strcpy(gnames[ngnames++], nm);
    int kind = h_below(20);
    unsigned uid = h_below(12) == 0 ? 0 : 1000 + h_below(50), gid = 100 + h_below(5);
    const char *dash = h_below(2) ? "-" : "", *pre = (const char *[]){ "", "", "p", "x-", "\303\251", "\377-", "\351" }[h_below(name_mode ? 7 : 4)];
    const char *up = name_mode && h_below(2) ? "\303\274" : "";          /* 8-bit bytes in the user name and home directory as well */
    if (!clean && kind == 0) snprintf(line, sizeof line, "%s", nm);                                /* no colon */
    else if (!clean && kind == 1 && h_below(2)) snprintf(line, sizeof line, "=%s:u%d:%u:%u:/h/u%d", nm, i, uid, gid, i); /* too few colons */
    else if (!clean && kind == 1) snprintf(line, sizeof line, "%c%s:u%d:%u:%u:/h/u%d:%s:%s", "=+"[h_below(2)], nm, i, uid, gid, i, dash, pre); /* exactly one colon short */
    else if (!clean && kind == 2) snprintf(line, sizeof line, ":u%d:%u:%u:/h/u%d:%s:%s:", i, uid, gid, i, dash, pre);
    else if (!clean && kind == 3) snprintf(line, sizeof line, "%c%s:u%d:%u:%u:/h/u%d:%s:%s:", "#x-"[h_below(3)], nm, i, uid, gid, i, dash, pre);
    else if (kind < 11) snprintf(line, sizeof line, "=%s:%su%d:%u:%u:/h/%su%d:%s:%s:", nm, up, i, uid, gid, up, i, dash, pre);
    else snprintf(line, sizeof line, "+%s:%sw%d:%u:%u:/h/%sw%d:%s:%s:%s", nm, up, i, uid, gid, up, i, dash, pre, h_below(8) ? "" : "trailing:junk");
    hbuf_add(a, line, strlen(line));
    if (!clean && h_below(400) == 0) { hbuf_add(a, "\0", 1); }
    hbuf_add(a, "\n", 1);
  }
  int end = clean ? 0 : h_below(30);
  if (end == 0 || end > 3) hbuf_add(a, ".\n", 2);
  else if (end == 1) hbuf_add(a, ".", 1);             /* dot line without newline: accepted */
  else if (end == 2) hbuf_add(a, ".more\n=z:z:1:1:/:::\n", 20);
  /* end == 3: no terminating dot line: format error */
}

static void probes_for_names(int flt_every) {
  char buf[128];
  for (int i = 0; i < ngnames && i < 40; i++) {
    const char *nm = gnames[h_below(ngnames)];
    size_t l = strlen(nm);
    int v = h_below(10);
    if (v == 0) snprintf(buf, sizeof buf, "%s", nm);
    else if (v == 1) snprintf(buf, sizeof buf, "%s-%s", nm, h_below(3) ? "ext" : "Ex\303\234\351");
    else if (v == 2) snprintf(buf, sizeof buf, "%sx", nm);
    else if (v == 3) { snprintf(buf, sizeof buf, "%s", nm); if (l) buf[l - 1] = 0; }
    else if (v == 4) { snprintf(buf, sizeof buf, "%s", nm); for (char *p = buf; *p; p++) if (*p >= 'a' && *p <= 'z') *p -= 32; }
    else if (v == 5) { snprintf(buf, sizeof buf, "%s%s", nm, gnames[h_below(ngnames)]); }
    else if (v == 6) { snprintf(buf, sizeof buf, "%s", nm); for (char *p = buf; *p; p++) if (h_below(2)) { if (*p >= 'a' && *p <= 'z') *p -= 32; else if (*p >= 'A' && *p <= 'Z') *p += 32; } }
    /* ASCII-only folding: the Latin-1 "other case" (bit 5 of a byte >= 0xc0) is a DIFFERENT name */
    else if (v == 8) { snprintf(buf, sizeof buf, "%s", nm); for (char *p = buf; *p; p++) if ((unsigned char)*p >= 0xc0) *p ^= 0x20; }
    /* bit 7 of one byte toggled (7-bit <-> 8-bit): a different name */
    else if (v == 9 && l) { snprintf(buf, sizeof buf, "%s", nm); size_t j = h_below(l); unsigned char c = (unsigned char)buf[j] ^ 0x80; if (c && c != '\n') buf[j] = (char)c; }
    else gen_name(buf, 6);
    int flt = (flt_every && h_below(flt_every) == 0) ? 1 + h_below(F_NFAULT - 1) : 0;
    S_local(flt, buf, strlen(buf), h_below(6) ? "d.example" : "x@y.example");
  }
}
static void keys_for_names(void) {
  unsigned char k[64];
  do_K((const unsigned char *)"", 0);
  for (int i = 0; i < ngnames && i < 30; i++) {
    const char *nm = gnames[h_below(ngnames)]; size_t l = strlen(nm);
    k[0] = '!'; for (size_t j = 0; j < l; j++) k[1 + j] = (nm[j] >= 'A' && nm[j] <= 'Z') ? nm[j] + 32 : nm[j];
    int v = h_below(4);
    if (v == 0) { k[1 + l] = 0; do_K(k, l + 2); }
    else if (v == 1) do_K(k, l + 1);
    else if (v == 2) { k[1 + l] = 'q'; do_K(k, l + 2); }
    else do_K(k + 1, l);
  }
}

/* random passwd db over short names */
static void gen_pw(hbuf *t) {
  hbuf_reset(t);
  char line[400], nm[80];
  int alias = h_below(12);
  if (alias == 0) ;                                                  /* no alias user */
  else if (alias == 1) hbuf_add(t, "alias:0:0:/var/qmail/alias:0\n", 29);
  else hbuf_add(t, "alias:7790:2108:/var/qmail/alias:0\n", 35);
  int n = 1 + h_below(10);
  ngnames = 0;
  name_mode = h_below(4) == 0;              /* every fourth passwd db has account names with 8-bit bytes */
  for (int i = 0; i < n; i++) {
    size_t l;
    if (h_below(10) == 0) { l = 29 + h_below(6); for (size_t j = 0; j < l; j++) nm[j] = "ab-"[h_below(3)]; nm[l] = 0; }
    else { l = gen_name(nm, 4); for (size_t j = 0; j < l; j++) if (nm[j] == '+' ) nm[j] = 'c'; if (!l) { strcpy(nm, "a"); l = 1; } }
    if (h_below(3)) for (size_t j = 0; j < l; j++) if (nm[j] >= 'A' && nm[j] <= 'Z') nm[j] += 32;
    if (l < 40 && ngnames < 4096) strcpy(gnames[ngnames++], nm);
    unsigned uid = h_below(8) == 0 ? 0 : 2000 + i;
    int home = h_below(10);   /* 0 missing, 1 wrong owner, 2 temp error, 3 EACCES, else fine */
    int flag = h_below(40) == 0;
    snprintf(line, sizeof line, "%s:%u:%u:/h/p%d:%d\n", nm, uid, 200 + i, i, flag); hbuf_add(t, line, strlen(line));
    if (home == 0) continue;
    snprintf(line, sizeof line, "@/h/p%d:%d:%u\n", i, home == 2 ? EIO : home == 3 ? EACCES : 0, home == 1 ? uid + 1 : uid);
    hbuf_add(t, line, strlen(line));
  }
}
static void getpw_probes(int n, int with_spawn) {
  char buf[128];
  for (int i = 0; i < n; i++) {
    const char *nm = ngnames ? gnames[h_below(ngnames)] : "a";
    int v = h_below(11);
    if (v == 0) snprintf(buf, sizeof buf, "%s", nm);
    else if (v == 1) snprintf(buf, sizeof buf, "%s-ext", nm);
    else if (v == 2) snprintf(buf, sizeof buf, "%s-Ext-more", nm);
    else if (v == 3) snprintf(buf, sizeof buf, "%s+ext", nm);
    else if (v == 4) { snprintf(buf, sizeof buf, "%s-x", nm); for (char *p = buf; *p; p++) if (*p >= 'a' && *p <= 'z' && h_below(2)) *p -= 32; }
    else if (v == 5) { snprintf(buf, sizeof buf, "%s", nm); size_t l = strlen(buf); if (l) buf[l - 1] = 0; }
    else if (v == 6) { size_t l = 28 + h_below(8); for (size_t j = 0; j < l; j++) buf[j] = "ab-"[h_below(3)]; buf[l] = 0; }
    else if (v == 7) { size_t l = 28 + h_below(8); for (size_t j = 0; j < l; j++) buf[j] = "ab-"[h_below(3)]; snprintf(buf + l, sizeof buf - l, "-%s", nm); }
    else if (v == 8) snprintf(buf, sizeof buf, "%s-", nm);
    else if (v == 10) { snprintf(buf, sizeof buf, "%s-\351X", nm); for (char *p = buf; *p; p++) if ((unsigned char)*p >= 0xc0 && h_below(2)) *p ^= 0x20; }   /* Latin-1 "case": not folded */
    else gen_name(buf, 6);
    do_G((unsigned char *)buf, strlen(buf));
    if (with_spawn && i % with_spawn == 0) S_local(h_below(6) ? 0 : 1 + h_below(F_NFAULT - 1), buf, strlen(buf), "d.example");
  }
}

static void corrupt_and_probe(void) {
  if (!have_cdb || cur_cdb.n < 2048) return;
  hbuf orig = { 0 }; hbuf_add(&orig, cur_cdb.p, cur_cdb.n);
  for (int t = 0; t < 6; t++) {
    hbuf m = { 0 }; hbuf_add(&m, orig.p, orig.n);
    int kind = h_below(5);
    if (kind == 0) m.n = h_below(m.n + 1);                               /* truncate anywhere */
    else if (kind == 1) m.n = 2048 + h_below(m.n - 2048 + 1);            /* truncate after the header */
    else if (kind == 2) m.p[h_below(m.n)] ^= 1 << h_below(8);            /* flip a bit */
    else {                                                                /* overwrite an aligned 32-bit field */
      size_t off = kind == 3 ? 4 * h_below(512) : 2048 + 4 * h_below((m.n - 2048) / 4 + 1);
      static const uint32_t edge[] = { 0, 1, 7, 8, 2047, 2048, 0x7fffffff, 0x80000000, 0xffffffff, 0xfffffff8, 0x00ffffff };
      uint32_t v = h_below(3) ? edge[h_below(11)] : (h_below(2) ? (uint32_t)m.n - h_below(16) : h_below((uint32_t)m.n + 64));
      if (off + 4 <= m.n) { m.p[off] = v; m.p[off + 1] = v >> 8; m.p[off + 2] = v >> 16; m.p[off + 3] = v >> 24; }
    }
    do_C(m.p, m.n, 1);
    keys_for_names();
    probes_for_names(0);
    free(m.p);
  }
  free(orig.p);
}

static void run_blob(int flt, const unsigned char *b, size_t n) {
  /* sections separated by a line consisting of "%" */
  size_t s1 = n, s2 = n;
  for (size_t i = 0; i + 1 < n; i++) if (b[i] == '%' && b[i + 1] == '\n' && (i == 0 || b[i - 1] == '\n')) { if (s1 == n) s1 = i; else if (s2 == n) { s2 = i; break; } }
  if (s1 == n || s2 == n) return;
  if (s2 > s1 + 2) do_P(b + s1 + 2, s2 - s1 - 2); else do_P((const unsigned char *)DEFAULT_PW, strlen(DEFAULT_PW));
  do_N(b, s1);
  size_t i = s2 + 2;
  while (i < n) {
    size_t j = i; while (j < n && b[j] != '\n') j++;
    do_G(b + i, j - i);
    S_local(flt, (const char *)b + i, j - i, "d.example");
    i = j + 1;
  }
}

int main(int argc, char **argv) {
  h_init_out();
  L = mmap(0, sizeof *L, PROT_READ | PROT_WRITE, MAP_SHARED | MAP_ANONYMOUS, -1, 0);
  if (L == MAP_FAILED) { perror("mmap"); return 3; }
  { struct stat st; snprintf(sandbox, sizeof sandbox, "%s/c11-%d", stat("/dev/shm", &st) == 0 ? "/dev/shm" : "/tmp", (int)getpid()); }
  mkdir(sandbox, 0755);
  if (chdir(sandbox) == -1) { perror(sandbox); return 3; }
  mkdir("users", 0755);
  write_file("1", (const unsigned char *)"msg\n", 4);
  { int f = open("/dev/null", O_RDONLY); fd_base = f; close(f); }
  /* the real initialize(): uids of qmailp/qmailq and the nofiles gid through the scripted passwd db */
  d = (struct delivery *)calloc(auto_spawn + 10, sizeof(struct delivery));
  { char *av[] = { "qmail-lspawn", "./Mailbox", 0 }; initialize(2, av); }
  { struct stat st; stat("1", &st); fprintf(h_out, "I %u %u %u ", (unsigned)auto_uidp, (unsigned)auto_gidn, (unsigned)auto_uidq);
    h_hex((unsigned char *)auto_qmail, strlen(auto_qmail)); fputc(' ', h_out); h_hex((unsigned char *)aliasempty, strlen(aliasempty)); fputc('\n', h_out);
    auto_uidq = st.st_uid; }
  do_R();
  do_P((const unsigned char *)DEFAULT_PW, strlen(DEFAULT_PW));

  if (argc > 1 && !strcmp(argv[1], "-")) {
    static char line[2000000], f1[1000000], f2[400000], f3[400000]; static unsigned char b1[500000], b2[200000], b3[200000];
    while (fgets(line, sizeof line, stdin)) {
      f1[0] = f2[0] = f3[0] = 0; char op[8];
      int nf = sscanf(line, "%7s %999999s %399999s %399999s", op, f1, f2, f3);
      if (nf < 1) continue;
      if (op[0] == 'R') do_R();
      else if (op[0] == 'I') ;
      else if (op[0] == 'P' && nf >= 2) do_P(b1, unhex(f1, b1));
      else if ((op[0] == 'A' || op[0] == 'N') && nf >= 2) do_N(b1, unhex(f1, b1));
      else if (op[0] == 'C' && nf >= 2) do_C(b1, unhex(f1, b1), f1[0] != 'x');
      else if (op[0] == 'K' && nf >= 2) do_K(b1, unhex(f1, b1));
      else if (op[0] == 'G' && nf >= 2) do_G(b1, unhex(f1, b1));
      else if (op[0] == 'S' && nf >= 4) { int sn = unhex(f2, b2), rn = unhex(f3, b3); do_S(atoi(f1) % F_NFAULT, b2, sn, b3, rn); }
      else if (op[0] >= '0' && op[0] <= '9' && nf >= 2) run_blob(atoi(op) % F_NFAULT, b1, unhex(f1, b1));
    }
    fflush(h_out);
    chdir("/"); { char cmd[256]; snprintf(cmd, sizeof cmd, "rm -rf %s", sandbox); if (system(cmd)) {} }
    return 0;
  }
  int ntl = h_argi(argc, argv, 1, 3), nrandom = h_argi(argc, argv, 2, 200);
  uint64_t seed = (uint64_t)h_argi(argc, argv, 3, 1);
  int shard = h_argi(argc, argv, 4, 0), nshards = h_argi(argc, argv, 5, 1);
  uint64_t id = 0;
  hbuf a = { 0 };

  /* (1) every users/assign of up to <ntl> lines drawn from the template set; all probe locals; faults on a rotating basis */
  for (int nl = 0; nl <= ntl; nl++) {
    uint64_t total = 1; for (int i = 0; i < nl; i++) total *= NTL;
    for (uint64_t k = 0; k < total; k++, id++) {
      if ((int)(id % nshards) != shard) continue;
      hbuf_reset(&a); uint64_t v = k;
      for (int i = 0; i < nl; i++) { const char *s = tl[v % NTL]; v /= NTL; hbuf_add(&a, s, strlen(s)); hbuf_add(&a, "\n", 1); }
      hbuf_add(&a, ".\n", 2);
      do_N(a.p, a.n);
      for (unsigned p = 0; p < NPL; p++) {
        int flt = ((id + p) % 7 == 0) ? 1 + (int)((id / 7 + p) % (F_NFAULT - 1)) : 0;
        if (!have_cdb && p % 4) continue;        /* no table: every lookup forks qmail-getpw; sample */
        if (nl == ntl && ntl >= 3 && (id + p) % 3) continue;
        S_local(flt, probe_locals[p], strlen(probe_locals[p]), p % 5 ? "d.example" : "x@y.example");
      }
    }
  }
  /* (1b) the same over the 8-bit template set (seed-independent): every table of up to min(<ntl>,2) lines, every 8-bit probe through
   * cdb_seek (exact and wildcard form of the key) and through the delivery child */
  for (int nl = 0; nl <= (ntl < 2 ? ntl : 2); nl++) {
    uint64_t total = 1; for (int i = 0; i < nl; i++) total *= NTL8;
    for (uint64_t k = 0; k < total; k++, id++) {
      if ((int)(id % nshards) != shard) continue;
      hbuf_reset(&a); uint64_t v = k;
      for (int i = 0; i < nl; i++) { const char *s = tl8[v % NTL8]; v /= NTL8; hbuf_add(&a, s, strlen(s)); hbuf_add(&a, "\n", 1); }
      hbuf_add(&a, ".\n", 2);
      do_N(a.p, a.n);
      for (unsigned p = 0; p < NPL8; p++) {
        const char *pl = probe_locals8[p]; size_t l = strlen(pl); unsigned char key[64];
        key[0] = '!'; for (size_t j = 0; j < l; j++) key[1 + j] = (pl[j] >= 'A' && pl[j] <= 'Z') ? pl[j] + 32 : pl[j];
        key[1 + l] = 0; do_K(key, l + 2); do_K(key, l + 1);
        int flt = ((id + p) % 9 == 0) ? 1 + (int)((id / 9 + p) % (F_NFAULT - 1)) : 0;
        S_local(flt, pl, l, p % 5 ? "d.example" : "x@y.example");
      }
    }
  }
  /* (2) seeded random tables, raw cdb lookups, probes derived from the table, corrupted copies */
  h_seed(seed * 1000003ull + shard + 17);
  hbuf pwt = { 0 };
  for (int r = 0; r < nrandom; r++) {
    if ((r % nshards) != shard) continue;
    int q = r / nshards;      /* per-shard round number */
    int nent = (q % 53 == 5) ? 990 + h_below(1200) : (q % 11 == 3) ? 200 + h_below(500) : 1 + h_below(40);
    gen_assign(&a, nent, nent > 100 || h_below(3) != 0);
    do_N(a.p, a.n);
    keys_for_names();
    probes_for_names(9);
    if (q % 4 == 0 && nent <= 100) { corrupt_and_probe(); }
    /* (3) passwd databases: qmail-getpw directly, and through qmail-lspawn without users/cdb */
    if (q % 2 == 0) {
      gen_pw(&pwt); do_P(pwt.p, pwt.n);
      do_C(0, 0, 0);
      getpw_probes(60, 12);
      do_P((const unsigned char *)DEFAULT_PW, strlen(DEFAULT_PW));
    }
  }
  /* (4) a recipient without '@' and the null recipient */
  if (shard == 0) {
    do_S(0, (const unsigned char *)"s@x", 3, (const unsigned char *)"nohost", 6);
    do_S(0, (const unsigned char *)"", 0, (const unsigned char *)"@d.example", 10);
  }
  fflush(h_out);
  if (chdir("/") == 0) { char cmd[256]; snprintf(cmd, sizeof cmd, "rm -rf %s", sandbox); if (system(cmd)) {} }
  return 0;
}
