/* C18 correspondence harness (2/3): the real spawn.c main()/getcmd()/docmd()/sigchld() together with the real
 * report()/spawn() of qmail-lspawn.c (-DLSPAWN) or qmail-rspawn.c (-DRSPAWN), fork-free: the system calls are
 * scripted.  One case = one run of main() from start to _exit(0).
 * usage: c18_spawn <level> <nrandom> <seed> <shard> <nshards>   |   c18_spawn -   (cases "S <k> <plan> <script>" on stdin)
 * output per case:  S <l|r> <plan-hex> <script> <trace>
 *   plan  : one byte per open_read() call in order: 00 regular file owned by the queue user, 01 open fails, 02 fstat fails,
 *           03 directory, 04 foreign owner, 05 pipe() fails, 06 fork() fails, 07 fifo, 08 directory + foreign owner
 *   script: '.'-separated events delivered one per select() wake-up:
 *           c<hex>         these bytes arrive on descriptor 0 (one read)
 *           w<ss><hex>     the child of slot ss writes these bytes (<=128; skipped if the slot has no live child)
 *           x<ss><wwww>    the child of slot ss exits with wait status wwww; SIGCHLD handler runs (signal delivered before
 *                          select() looks at the descriptors), then EOF on its pipe in the same wake-up
 *           k<ss><wwww>    the child of slot ss exits with wait status wwww while the spawner sits in select(): the SIGCHLD
 *                          handler runs and select() returns -1/EINTR; the EOF on the child's pipe is NOT seen yet
 *                          (skipped unless the slot has a live child)
 *           z<ss>          EOF on the pipe of slot ss (skipped unless the slot's child has been reaped by an earlier k and
 *                          the slot has not been reported yet: the spawner holds a write end until the handler has run)
 *           y<ss>          the live child of slot ss closes its own copies of the pipe's write end (its descriptors 1 and 2)
 *                          and goes on running.  The pipe reaches EOF only if NO process holds a write end any more: the
 *                          harness records every close() of the program, and while the program still holds the write end
 *                          pipe() gave it nothing happens (the event is skipped); otherwise select() reports the pipe
 *                          readable and read() returns 0 although the child is alive and its wait status is not known
 *                          (skipped unless the slot has a live child)
 *           v<ss><wwww>    like x, but the kernel closes the dying child's descriptors before the SIGCHLD is delivered: if the
 *                          program holds no write end, select() reports the EOF first and the handler runs only when the
 *                          program unblocks the signal again (start of the next select()); if it does hold one this is x
 *           e              EOF on descriptor 0 (once; later c and e events are skipped: nothing can be read after EOF)
 *           (w is delivered to any slot in use, reaped or not: a reaped child's output may still sit in the pipe)
 *           at the end of the script: EOF on descriptor 0 unless already seen, then, lowest slot first, every slot still in
 *           use is finished: a live child exits with status 0 (as x), a reaped one gets its EOF (as z)
 *   trace : ','-separated: o<path-hex> open_read(path) | f<ss>:<sender-hex>:<recip-hex>:<at> spawn() called and child forked
 *           | W<hex> bytes written to descriptor 1 (adjacent writes merged) | q<n> the program called _exit after the
 *           harness had consumed n events of the script (delivered or skipped) | e<code>
 *           and, not program output but what the world knows (the driver takes them out before comparing with the model and
 *           feeds them to the oracle "no report before the child's status is known, no crash relayed as success"):
 *           b<ss> fork() succeeded, a child now runs for delivery ss | r<ss><wwww> wait_nohang() handed the program the status
 *           wwww of the child that was forked for delivery ss | p<ss><wwww> the program calls report() for delivery ss with
 *           wait status wwww
 *           (a trace that does not end in e<code> means the program was aborted by a sanitizer while running this case)
 * session 4 — out of memory while a command is read (flagabort): cases "A <k> <plan> <oom> <script>", output
 *   "A <l|r> <plan> <oom> <script> <trace>"; oom = '.'-separated decimal ordinals (counted from 0 over the whole case) of the
 *   stralloc_append(&messid/&sender/&recip,&ch) calls of getcmd() that fail ("-" = none); script and trace as above */
#include "hcommon.h"
#include "substdio.h"
#include <errno.h>
#include <sys/stat.h>
#include <sys/select.h>

#define QUID 7777
static ssize_t h_read(int fd, void *buf, size_t len);
static ssize_t h_write(int fd, const void *buf, size_t len);
static unsigned char fd_closed[1024];      /* descriptors the program has closed (pipe ends are never re-used within a case) */
static int h_close(int fd) { if (fd >= 0 && fd < 1024) fd_closed[fd] = 1; return 0; }
static int h_chdir(const char *p) { return 0; }
static int h_pipe(int pi[2]);
static int h_select(int n, fd_set *r, fd_set *w, fd_set *x, struct timeval *t);
static int h_fstat(int fd, struct stat *st);
static int h_open_read(const char *fn);
static pid_t h_fork(void);
static int h_wait_nohang(int *wstat);
static unsigned int h_sleep(unsigned int s) { return 0; }
static uid_t h_inituid(char *u) { return QUID; }
static gid_t h_initgid(char *g) { return QUID; }
static void h_tcpto_clean(void) {}
static int h_coe(int fd) { return 0; }
static int h_spawn(int fdmess, int fdout, char *s, char *r, int at);
static void h_report(substdio *ss, int wstat, char *s, int len);

#include "stralloc.h"
static int h_stralloc_append(stralloc *sa, const char *in);
#define stralloc_append h_stralloc_append
#define _exit(x) h_exit(x)
#define main spawn_main
#define read h_read
#define write h_write
#define close h_close
#define chdir h_chdir
#define pipe h_pipe
#define select h_select
#define fstat h_fstat
#define open_read h_open_read
#define fork h_fork
#define wait_nohang h_wait_nohang
#define sleep h_sleep
#define inituid h_inituid
#define initgid h_initgid
#define tcpto_clean h_tcpto_clean
#define coe h_coe
#define spawn h_spawn
#define report h_report
#include "spawn.c"
#undef spawn
#undef report
#undef main
#ifdef LSPAWN
#define lower ls_lower
#include "qmail-lspawn.c"
#define KIND 'l'
#else
#include "qmail-rspawn.c"
#define KIND 'r'
#endif
#undef stralloc_append
#undef _exit
#undef read
#undef write
#undef close
#undef chdir
#undef pipe
#undef select
#undef fstat
#undef open_read
#undef fork
#undef wait_nohang
#undef sleep
#undef coe

/* ---------------------------------------------------------------- scripted world */
/* failing allocations in getcmd(): ordinals of the stralloc_append calls on messid/sender/recip that return 0 */
static unsigned oom_list[64]; static int oom_n, a_mode; static unsigned append_calls;
static int h_stralloc_append(stralloc *sa, const char *in) {
  if (sa == &messid || sa == &sender || sa == &recip) {
    unsigned k = append_calls++;
    for (int i = 0; i < oom_n; i++) if (oom_list[i] == k) { errno = ENOMEM; return 0; }
  }
  return stralloc_append(sa, in);
}
static hbuf wbuf;            /* pending (merged) output */
static int first_ev;
static void ev_flush(void);
static void ev_begin(char tag) { ev_flush(); if (!first_ev) fputc(',', h_out); first_ev = 0; fputc(tag, h_out); }
static void ev_flush(void) {
  if (!wbuf.n) return;
  size_t n = wbuf.n; wbuf.n = 0;
  if (!first_ev) fputc(',', h_out); first_ev = 0; fputc('W', h_out); h_hex(wbuf.p, n);
}

static const unsigned char *plan_p; static size_t plan_n, plan_pos; static int cur_plan;
static const char *sc_p;                 /* rest of the script */
static unsigned char pend[2048]; static int pend_n, pend_fd;   /* what the next read() of pend_fd returns */
static int wait_pid_v, wait_stat_v;
static int npipes, nforks, stdin_eof, nops;
static int pid_slot[1024];     /* world: which delivery a forked child belongs to */
static int world_pid[256];     /* world: the child running for a delivery (0 = none), whatever the program believes */
static int sig_pending;        /* a SIGCHLD that arrived while the signal was blocked: handler runs at the next select() */

static ssize_t h_write(int fd, const void *buf, size_t len) { hbuf_add(&wbuf, buf, len); return len; }
static ssize_t h_read(int fd, void *buf, size_t len) {
  if (fd != pend_fd) { fprintf(stderr, "harness: unexpected read(%d), expected %d\n", fd, pend_fd); abort(); }
  if ((size_t)pend_n > len) { fprintf(stderr, "harness: read buffer too small\n"); abort(); }
  memcpy(buf, pend, pend_n); pend_fd = -1;
  return pend_n;
}
static int h_open_read(const char *fn) {
  ev_begin('o'); h_hex((const unsigned char *)fn, strlen(fn));
  cur_plan = plan_pos < plan_n ? plan_p[plan_pos] : 0; plan_pos++;
  if (cur_plan == 1) { errno = ENOENT; return -1; }
  return 50;
}
static int h_fstat(int fd, struct stat *st) {
  memset(st, 0, sizeof *st);
  if (cur_plan == 2) { errno = EIO; return -1; }
  st->st_mode = (cur_plan == 3 || cur_plan == 8) ? (S_IFDIR | 0755) : (cur_plan == 7) ? (S_IFIFO | 0644) : (S_IFREG | 0644);
  st->st_uid = (cur_plan == 4 || cur_plan == 8) ? 1234 : QUID;
  return 0;
}
static int h_pipe(int pi[2]) {
  if (cur_plan == 5) { errno = EMFILE; return -1; }
  if (npipes >= 440) { fprintf(stderr, "harness: too many pipes\n"); abort(); }
  pi[0] = 100 + 2 * npipes; pi[1] = 101 + 2 * npipes; npipes++;
  return 0;
}
static pid_t h_fork(void) {
  if (cur_plan == 6) { errno = EAGAIN; return -1; }
  if (nforks >= 1024) { fprintf(stderr, "harness: too many forks\n"); abort(); }
  pid_slot[nforks] = delnum & 255; world_pid[delnum & 255] = 1000 + nforks;
  ev_begin('b'); fprintf(h_out, "%02x", delnum & 255);
  return 1000 + nforks++;
}
static int h_spawn(int fdmess, int fdout, char *s, char *r, int at) {
  ev_begin('f'); fprintf(h_out, "%02x:", delnum & 255); h_hex((unsigned char *)s, strlen(s)); fputc(':', h_out);
  h_hex((unsigned char *)r, strlen(r)); fprintf(h_out, ":%d", at);
  return spawn(fdmess, fdout, s, r, at);
}
static int h_wait_nohang(int *wstat) {
  if (!wait_pid_v) return 0;
  int p = wait_pid_v; *wstat = wait_stat_v; wait_pid_v = 0;
  int sl = pid_slot[p - 1000];
  if (world_pid[sl] == p) world_pid[sl] = 0;
  ev_begin('r'); fprintf(h_out, "%02x%04x", sl, wait_stat_v & 0xffff);
  return p;
}

static int hexv(int c) { return c <= '9' ? c - '0' : (c | 32) - 'a' + 10; }
static int inuse(int i) { return i >= 0 && i < auto_spawn && d[i].used; }
static int live(int i) { return inuse(i) && d[i].pid; }
static int reaped(int i) { return inuse(i) && !d[i].pid; }
static void child_exit(int slot, int wstat, fd_set *r) {
  wait_pid_v = d[slot].pid; wait_stat_v = wstat;
  sigchld();
  pend_fd = d[slot].fdin; pend_n = 0; FD_SET(pend_fd, r);
}
static void pipe_eof(int slot, fd_set *r) { pend_fd = d[slot].fdin; pend_n = 0; FD_SET(pend_fd, r); }
/* does the program still hold the write end pipe() gave it for this slot?  (h_pipe: write end = read end + 1) */
static int holds_wend(int slot) { int w = d[slot].fdin + 1; return w >= 0 && w < 1024 && !fd_closed[w]; }
static int h_select(int n, fd_set *r, fd_set *w, fd_set *x, struct timeval *t) {
  fd_set asked = *r;
  FD_ZERO(r);
  if (sig_pending) { sig_pending = 0; sigchld(); }     /* sig_childunblock(): the blocked SIGCHLD is delivered now */
  for (;;) {
    if (!*sc_p) {                     /* script exhausted: close descriptor 0, then finish every slot still in use */
      if (!stdin_eof) { stdin_eof = 1; pend_fd = 0; pend_n = 0; FD_SET(0, r); break; }
      int i; for (i = 0; i < auto_spawn; i++) if (inuse(i)) break;
      if (i == auto_spawn) { fprintf(stderr, "harness: select with nothing to wait for\n"); abort(); }
      if (live(i)) child_exit(i, 0, r); else pipe_eof(i, r);
      break;
    }
    char op = *sc_p++;
    if (op == '.') continue;
    nops++;
    if (op == 'c') {
      pend_n = 0; while (*sc_p && *sc_p != '.') { pend[pend_n++] = hexv(sc_p[0]) * 16 + hexv(sc_p[1]); sc_p += 2; }
      if (stdin_eof) continue;
      pend_fd = 0; FD_SET(0, r); break;
    }
    if (op == 'e') {
      if (stdin_eof) continue;
      stdin_eof = 1; pend_fd = 0; pend_n = 0; FD_SET(0, r); break;
    }
    int slot = hexv(sc_p[0]) * 16 + hexv(sc_p[1]); sc_p += 2;
    if (op == 'w') {
      pend_n = 0; while (*sc_p && *sc_p != '.') { pend[pend_n++] = hexv(sc_p[0]) * 16 + hexv(sc_p[1]); sc_p += 2; }
      if (!inuse(slot) || pend_n == 0) continue;
      pend_fd = d[slot].fdin; FD_SET(pend_fd, r); break;
    }
    if (op == 'y') {
      if (!live(slot)) continue;
      if (holds_wend(slot)) continue;            /* a write end is still open in the spawner: no EOF */
      pipe_eof(slot, r); break;
    }
    if (op == 'x' || op == 'k' || op == 'v') {
      int ws = 0; for (int k = 0; k < 4; k++) ws = ws * 16 + hexv(*sc_p++);
      if (!live(slot)) {
        /* the program knows of no live child here; if the world does (the program has already written the report and freed
         * the slot), the child still dies and its status is still handed to the handler, which has no use for it */
        if (slot < 256 && world_pid[slot] && !inuse(slot)) { wait_pid_v = world_pid[slot]; wait_stat_v = ws; sigchld(); }
        continue;
      }
      if (op == 'v' && !holds_wend(slot)) {      /* EOF visible before the handler has run */
        wait_pid_v = d[slot].pid; wait_stat_v = ws; sig_pending = 1;
        pipe_eof(slot, r); break;
      }
      if (op == 'v') op = 'x';
      if (op == 'x') { child_exit(slot, ws, r); break; }
      /* the signal interrupts select(): handler, then -1/EINTR; no descriptor is reported */
      wait_pid_v = d[slot].pid; wait_stat_v = ws;
      sigchld();
      errno = EINTR;
      return -1;
    }
    if (op == 'z') {
      if (!reaped(slot)) continue;
      pipe_eof(slot, r); break;
    }
    fprintf(stderr, "harness: bad script op %c\n", op); abort();
  }
  if (!FD_ISSET(pend_fd, &asked)) { fprintf(stderr, "harness: descriptor %d not selected for\n", pend_fd); abort(); }
  return 1;
}

/* report() gets the child's output as (s,len) and must stay inside it: the rest of the stralloc's allocation is
 * poisoned for the duration of the call, so that any read beyond len — not only beyond the allocation — aborts under ASan
 * (the death callback flushes the case line; the driver reports the truncated trace as an ORACLE failure with the input) */
#if defined(__SANITIZE_ADDRESS__)
void __asan_poison_memory_region(void const volatile *addr, size_t size);
void __asan_unpoison_memory_region(void const volatile *addr, size_t size);
#endif
static void h_report(substdio *ss, int wstat, char *s, int len) {
  { int sl = 255; for (int i = 0; i < auto_spawn; i++) if (d[i].used && d[i].output.s == s) sl = i;
    ev_begin('p'); fprintf(h_out, "%02x%04x", sl, wstat & 0xffff); }
#if defined(__SANITIZE_ADDRESS__)
  unsigned int a = 0;
  for (int i = 0; i < auto_spawn; i++) if (d[i].used && d[i].output.s == s) a = d[i].output.a;
  if (s && a > (unsigned)len) __asan_poison_memory_region(s + len, a - len);
#endif
  report(ss, wstat, s, len);
#if defined(__SANITIZE_ADDRESS__)
  if (s && a > (unsigned)len) __asan_unpoison_memory_region(s + len, a - len);
#endif
}

static void one(const char *script, const unsigned char *plan, size_t pn) {
  fprintf(h_out, "%c %c ", a_mode ? 'A' : 'S', KIND); h_hex(plan, pn);
  if (a_mode) { fputc(' ', h_out); if (!oom_n) fputc('-', h_out); for (int i = 0; i < oom_n; i++) fprintf(h_out, "%s%u", i ? "." : "", oom_list[i]); }
  else oom_n = 0;
  append_calls = 0;
  fprintf(h_out, " %s ", *script ? script : "-");
  plan_p = plan; plan_n = pn; plan_pos = 0; cur_plan = 0;
  sc_p = script; pend_fd = -1; wait_pid_v = 0; npipes = nforks = stdin_eof = nops = 0;
  memset(fd_closed, 0, sizeof fd_closed); memset(world_pid, 0, sizeof world_pid); sig_pending = 0;
  flagwriting = 1; flagreading = 1; stage = 0; flagabort = 0; delnum = 0;
  first_ev = 1; wbuf.n = 0;
  static char *av[] = { "qmail-xspawn", "./Mailbox", 0 };
  h_exit_armed = 1;
  int rc;
  if (setjmp(h_jb) == 0) { rc = spawn_main(2, av); } else rc = h_exitcode;
  h_exit_armed = 0;
  ev_flush(); if (!first_ev) fputc(',', h_out); fprintf(h_out, "q%d,e%d\n", nops, rc);
  if (d) { for (int i = 0; i < auto_spawn; i++) if (d[i].output.s) { free(d[i].output.s); d[i].output.s = 0; } free(d); d = 0; }
}

/* ---------------------------------------------------------------- generators */
static hbuf sb;  /* script under construction */
static void s_reset(void) { sb.n = 0; }
static void s_sep(void) { if (sb.n) hbuf_add(&sb, ".", 1); }
static void s_hex(const unsigned char *p, size_t n) { static const char dg[] = "0123456789abcdef"; for (size_t i = 0; i < n; i++) { char c[2] = { dg[p[i] >> 4], dg[p[i] & 15] }; hbuf_add(&sb, c, 2); } }
static void s_cmd(const unsigned char *p, size_t n) { while (n) { size_t k = n > 1024 ? 1024 : n; s_sep(); hbuf_add(&sb, "c", 1); s_hex(p, k); p += k; n -= k; } }
static void s_out(int slot, const unsigned char *p, size_t n) {
  while (n) { size_t k = n > 128 ? 128 : n; char t[8]; s_sep(); sprintf(t, "w%02x", slot & 255); hbuf_add(&sb, t, 3); s_hex(p, k); p += k; n -= k; }
}
static void s_exit(int slot, int ws) { char t[16]; s_sep(); sprintf(t, "x%02x%04x", slot & 255, ws & 0xffff); hbuf_add(&sb, t, 7); }
static void s_reap(int slot, int ws) { char t[16]; s_sep(); sprintf(t, "k%02x%04x", slot & 255, ws & 0xffff); hbuf_add(&sb, t, 7); }
static void s_peof(int slot) { char t[16]; s_sep(); sprintf(t, "z%02x", slot & 255); hbuf_add(&sb, t, 3); }
static void s_eof(void) { s_sep(); hbuf_add(&sb, "e", 1); }
static void s_cclose(int slot) { char t[16]; s_sep(); sprintf(t, "y%02x", slot & 255); hbuf_add(&sb, t, 3); }
static void s_exit_eof_first(int slot, int ws) { char t[16]; s_sep(); sprintf(t, "v%02x%04x", slot & 255, ws & 0xffff); hbuf_add(&sb, t, 7); }
static const char *s_str(void) { hbuf_add(&sb, "", 1); sb.n--; return (const char *)sb.p; }

static size_t mkcmd(unsigned char *b, int delnum, const char *mid, size_t ml, const char *snd, const char *rcp) {
  size_t n = 0; b[n++] = delnum; memcpy(b + n, mid, ml); n += ml; b[n++] = 0;
  size_t l = strlen(snd); memcpy(b + n, snd, l + 1); n += l + 1;
  l = strlen(rcp); memcpy(b + n, rcp, l + 1); n += l + 1;
  return n;
}

static const char *recips[] = { "r@h", "r", "@", "", "a@b@c", "user-ext@host.example", "@h" };
static const char *senders[] = { "", "s@h", "#@[]", "a-@[]" };
static const char *messids[] = { "0/1", "22/45", "1/1234567", "7", "5/", "3//4", "/1", "1/.", "../1", "1/../../etc/passwd", "a", "12x", "1/ 2",
                                 "", "12/\377", "0/18446744073709551617", "-1", "+1", "1\n" };
#define NEL(a) (sizeof a / sizeof a[0])

/* flush the protocol stream if a sanitizer aborts the process, so that the case being run is identified */
#if defined(__SANITIZE_ADDRESS__)
void __asan_set_death_callback(void (*cb)(void));
static void h_death(void) { if (h_out) fflush(h_out); }
#endif

int main(int argc, char **argv) {
  h_init_out();
#if defined(__SANITIZE_ADDRESS__)
  __asan_set_death_callback(h_death);
#endif
  if (argc > 1 && !strcmp(argv[1], "-")) {
    static char line[800000], sc[800000], pl[4000], tag[16], kind[16]; static unsigned char pb[2000];
    while (fgets(line, sizeof line, stdin)) {
      if (line[0] == 'A' && line[1] == ' ') {
        static char om[4000];
        if (sscanf(line, "%15s %15s %3999s %3999s %799999s", tag, kind, pl, om, sc) != 5 || kind[0] != KIND) continue;
        int pn = 0; if (pl[0] != '-') for (char *h = pl; h[0] && h[1]; h += 2) pb[pn++] = hexv(h[0]) * 16 + hexv(h[1]);
        oom_n = 0;
        if (om[0] != '-') for (char *t = strtok(om, "."); t && oom_n < 64; t = strtok(0, ".")) oom_list[oom_n++] = (unsigned)strtoul(t, 0, 10);
        a_mode = 1; one(sc[0] == '-' ? "" : sc, pb, pn); a_mode = 0;
        continue;
      }
      if (sscanf(line, "%15s %15s %3999s %799999s", tag, kind, pl, sc) != 4 || tag[0] != 'S' || kind[0] != KIND) continue;
      int pn = 0; if (pl[0] != '-') for (char *h = pl; h[0] && h[1]; h += 2) pb[pn++] = hexv(h[0]) * 16 + hexv(h[1]);
      one(sc[0] == '-' ? "" : sc, pb, pn);
    }
    fflush(h_out);
    return 0;
  }
  int level = h_argi(argc, argv, 1, 4), nrandom = h_argi(argc, argv, 2, 4000);
  uint64_t seed = (uint64_t)h_argi(argc, argv, 3, 1);
  int shard = h_argi(argc, argv, 4, 0), nshards = h_argi(argc, argv, 5, 1);
  uint64_t id = 0;
  unsigned char cb[8192], pl[16];
  /* (1) one command: every messid over {1 / . a 0xff :} up to length <level>, delivery numbers around every limit,
   *     recipients with and without '@', every outcome of open/fstat/pipe/fork */
  static const int delnums[] = { 0, 1, 119, 120, 121, 255 };
  static const unsigned char ma[6] = { '1', '/', '.', 'a', 0xff, ':' };
  for (int len = 0; len <= level; len++) {
    uint64_t total = 1; for (int i = 0; i < len; i++) total *= 6;
    for (uint64_t k = 0; k < total; k++) for (unsigned dn = 0; dn < NEL(delnums); dn++, id++) {
      if ((int)(id % nshards) != shard) continue;
      char mid[16]; uint64_t v = k; for (int i = 0; i < len; i++) { mid[i] = ma[v % 6]; v /= 6; }
      size_t n = mkcmd(cb, delnums[dn], mid, len, senders[id % NEL(senders)], recips[(id / 3) % NEL(recips)]);
      pl[0] = (id / 7) % 9;
      s_reset(); s_cmd(cb, n); one(s_str(), pl, 1);
    }
  }
  /* (2) the message-id list x every recipient x every plan, delnum 3 */
  for (unsigned a = 0; a < NEL(messids); a++) for (unsigned b = 0; b < NEL(recips); b++) for (int p = 0; p < 9; p++, id++) {
    if ((int)(id % nshards) != shard) continue;
    size_t n = mkcmd(cb, 3, messids[a], strlen(messids[a]), senders[id % NEL(senders)], recips[b]);
    pl[0] = p; s_reset(); s_cmd(cb, n); one(s_str(), pl, 1);
  }
  /* (3) report(): one delivery whose child writes every string over an 8-letter alphabet up to length <level>+1 and
   *     exits with each of a set of wait statuses; plus every exit code 0..255 and every signal with a fixed output */
  static const unsigned char ra[8] = { 'r', 'h', 's', 'K', 'Z', 'D', 0, 'x' };
  static const int wstats[] = { 0, 111 << 8, 100 << 8, 1 << 8, 9, 0x8b };
  for (int len = 0; len <= level + 1; len++) {
    uint64_t total = 1; for (int i = 0; i < len; i++) total *= 8;
    for (uint64_t k = 0; k < total; k++, id++) {
      if ((int)(id % nshards) != shard) continue;
      unsigned char o[16]; uint64_t v = k; for (int i = 0; i < len; i++) { o[i] = ra[v & 7]; v >>= 3; }
      size_t n = mkcmd(cb, 5, "1/24", 4, "s@h", "r@h");
      s_reset(); s_cmd(cb, n); s_out(5, o, len); s_exit(5, (k % 4 == 3) ? wstats[(k / 4) % NEL(wstats)] : 0);
      one(s_str(), 0, 0);
    }
  }
  for (int ws = 0; ws < 256 + 128; ws++, id++) {
    if ((int)(id % nshards) != shard) continue;
    size_t n = mkcmd(cb, 0, "0/23", 4, "", "x@y");
    s_reset(); s_cmd(cb, n); s_out(0, (const unsigned char *)"did 1+0+0\n\0more", 15); s_exit(0, ws < 256 ? ws << 8 : ws - 256);
    one(s_str(), 0, 0);
  }
  /* (5) end of input with deliveries in flight: after a first command (delivery 0) every sequence of up to <level> events
   *     over { second command (delivery 1), EOF on descriptor 0, and for each of the two slots: child reaped while in select
   *     (k), EOF on its pipe (z), both in one wake-up (x); output of child 0 } - every order of end of input, death of a
   *     child, and the read that produces its report, relative to the exit test at the top of the main loop */
  {
    static const char *const evs9[9] = { 0, "e", "k000000", "z00", "x006400", "k016f00", "z01", "x010000", "w004b6f6b0a00" };
    unsigned char c2[64];
    size_t n1 = mkcmd(cb, 0, "0/77", 4, "s@h", "r@h");
    size_t n2 = mkcmd(c2, 1, "1/78", 4, "", "q@h");
    for (int len = 0; len <= level; len++) {
      uint64_t total = 1; for (int i = 0; i < len; i++) total *= 9;
      for (uint64_t k = 0; k < total; k++, id++) {
        if ((int)(id % nshards) != shard) continue;
        s_reset(); s_cmd(cb, n1);
        uint64_t v = k;
        for (int i = 0; i < len; i++, v /= 9) {
          if (v % 9 == 0) s_cmd(c2, n2);
          else { s_sep(); hbuf_add(&sb, evs9[v % 9], strlen(evs9[v % 9])); }
        }
        one(s_str(), 0, 0);
      }
    }
  }
  /* (6) the report must reflect how the child ended, whatever the child does with its output descriptors: slot 0 is first used
   *     by an ordinary delivery (child writes a success report, exits 0), then a second delivery in the same slot whose child
   *     writes a complete success report; then every sequence of up to <level> events over { the child closes its output
   *     descriptors and lives on (y), it is killed by a signal / exits 111 / exits 100 / exits 0 - seen as SIGCHLD then EOF in one
   *     wake-up (x), as EOF before SIGCHLD (v), or reaped while in select (k) with the EOF later (z) -, end of input }: all orders
   *     of EOF-on-pipe vs SIGCHLD.  Also with a crashed first delivery (stale status the other way round). */
  {
    static const char *const evs6[12] = { "y00", "x00000b", "x006f00", "v00000b", "v006f00", "v000000", "k00000b", "k006400", "z00", "e",
                                          "x000000", "w004b6c6174650a00" };
    static const unsigned char okrep[] = "r192.0.2.1 accepted message.\n\0K192.0.2.1 accepted message.\nRemote host said: 250 ok\n";
    size_t n1 = mkcmd(cb, 0, "0/77", 4, "s@h", "r@h");
    for (int first = 0; first < 2; first++)
      for (int len = 0; len <= level; len++) {
        uint64_t total = 1; for (int i = 0; i < len; i++) total *= 12;
        if (first && len > 2) break;
        for (uint64_t k = 0; k < total; k++, id++) {
          if ((int)(id % nshards) != shard) continue;
          s_reset(); s_cmd(cb, n1); s_out(0, okrep, sizeof okrep); s_exit(0, first ? 0x000b : 0);
          s_cmd(cb, n1); s_out(0, okrep, sizeof okrep);
          uint64_t v = k;
          for (int i = 0; i < len; i++, v /= 12) { s_sep(); hbuf_add(&sb, evs6[v % 12], strlen(evs6[v % 12])); }
          one(s_str(), 0, 0);
        }
      }
  }
  /* (4) seeded random sessions: several commands (mostly valid) cut into arbitrary reads, truncated at end of input,
   *     oversized fields, re-used delivery numbers, children writing hostile / long output and exiting in any order -
   *     reaped and reported in one wake-up (x) or reaped first (k) with the EOF on the pipe (z) arriving any time later,
   *     or only at the end; in a third of the sessions descriptor 0 reaches EOF somewhere in the middle (e) */
  h_seed(seed * 1000003ull + shard * 7919 + (KIND == 'l'));
  for (int r = 0; r < nrandom; r++) {
    if ((r % nshards) != shard) continue;
    static unsigned char stream[65536]; size_t sn = 0;
    int ncmd = 1 + h_below(6), pn = h_below(3) ? 0 : 1 + h_below(6);
    for (int i = 0; i < pn; i++) pl[i] = h_below(9);
    int used[8], nu = 0;
    int zs[8], nz = 0;                                    /* reaped, EOF still to come */
    int eof_at = h_below(3) ? -1 : (int)h_below(ncmd + 1);  /* after how many flushes descriptor 0 is closed */
    int nflush = 0;
    s_reset();
    for (int c = 0; c < ncmd; c++) {
      int dn = h_below(6) ? (int)h_below(6) : delnums[h_below(NEL(delnums))];
      char mid[400]; size_t ml;
      int mk = h_below(10);
      if (mk < 6) ml = sprintf(mid, "%u/%u", h_below(23), h_below(1000000));
      else if (mk == 6) { ml = 95 + h_below(10); for (size_t i = 0; i < ml; i++) mid[i] = '0' + h_below(10); }
      else if (mk == 7) { ml = 200 + h_below(150); for (size_t i = 0; i < ml; i++) mid[i] = i ? "0123456789/"[h_below(11)] : '1'; }
      else { const char *s = messids[h_below(NEL(messids))]; ml = strlen(s); memcpy(mid, s, ml); }
      char rcp[3000]; const char *rc = recips[h_below(NEL(recips))];
      if (!h_below(8)) { size_t l = 1000 + h_below(1500); for (size_t i = 0; i < l; i++) rcp[i] = 'a' + h_below(26); rcp[l / 2] = h_below(3) ? '@' : 'x'; rcp[l] = 0; rc = rcp; }
      size_t n = mkcmd(cb, dn, mid, ml, senders[h_below(NEL(senders))], rc);
      if (c == ncmd - 1 && !h_below(5)) n = h_below(n);       /* truncated last command */
      memcpy(stream + sn, cb, n); sn += n;
      if (nu < 8) used[nu++] = dn;
      if (!h_below(3)) {   /* flush the commands so far (in random pieces), then let some children talk */
        size_t pos = 0; while (pos < sn) { size_t k = 1 + h_below(h_below(4) ? 1024 : 40); if (k > sn - pos) k = sn - pos; s_cmd(stream + pos, k); pos += k; }
        sn = 0;
        int eof_now = (nflush++ == eof_at), eof_first = h_below(2);
        if (eof_now && eof_first) s_eof();
        int acts = h_below(4);
        for (int a = 0; a < acts && nu; a++) {
          int slot = used[h_below(nu)];
          unsigned char o[4000]; size_t ol;
          int ok = h_below(8);
          if (ok < 3) ol = sprintf((char *)o, "%c%s%c%c%s%c", "rhs"[h_below(3)], "host said ok", 0, "KZD"[h_below(3)], "accepted\n", 0) ;
          else if (ok < 5) { ol = h_below(40); for (size_t i = 0; i < ol; i++) o[i] = ra[h_below(8)]; o[ol++] = 0; }
          else if (ok == 5) { ol = 2900 + h_below(400); for (size_t i = 0; i < ol; i++) o[i] = h_below(30) ? 'a' + h_below(26) : '\n'; }
          else { ol = h_below(300); for (size_t i = 0; i < ol; i++) o[i] = h_below(20) ? 32 + h_below(95) : h_below(256); o[ol++] = 0; }
          s_out(slot, o, ol);
          if (!h_below(4)) s_cclose(slot);           /* output descriptors closed, the child lives on */
          if (h_below(3)) {
            int ws = h_below(4) ? 0 : h_below(3) ? (int)(h_below(256) << 8) : (int)h_below(128);
            int how = h_below(4);
            if (how < 2) { if (h_below(3)) s_exit(slot, ws); else s_exit_eof_first(slot, ws); }
            else { s_reap(slot, ws); if (how == 2) s_peof(slot); else if (nz < 8) zs[nz++] = slot; }
          }
          if (nz && !h_below(3)) { int q = h_below(nz); s_peof(zs[q]); zs[q] = zs[--nz]; }
        }
        if (eof_now && !eof_first) s_eof();
      }
    }
    { size_t pos = 0; while (pos < sn) { size_t k = 1 + h_below(h_below(4) ? 1024 : 40); if (k > sn - pos) k = sn - pos; s_cmd(stream + pos, k); pos += k; } }
    if (eof_at >= 0) {   /* end of input, then some of the children die / are reported in a random order; the rest at the end of the script */
      if (h_below(4)) s_eof();
      for (int a = h_below(5); a > 0 && nu; a--) {
        int slot = used[h_below(nu)], ws = h_below(3) ? 0 : (int)(h_below(256) << 8);
        switch (h_below(4)) {
          case 0: s_exit(slot, ws); break;
          case 1: s_reap(slot, ws); if (nz < 8) zs[nz++] = slot; break;
          case 2: if (nz) { int q = h_below(nz); s_peof(zs[q]); zs[q] = zs[--nz]; } break;
          default: s_out(slot, (const unsigned char *)"Kfine\n", 7); break;
        }
      }
      if (!h_below(3)) s_eof();
    }
    one(s_str(), pl, pn);
  }
  /* (7) out of memory while a command is read (session 4).  (a) seed-independent: three commands (slot 0, slot 1, slot 0
   *     again) with every single stralloc_append call failing, every pair among the first command's calls and one of the
   *     later ones, read whole / cut after every byte of the first command, plans {all fine, second file foreign}, the
   *     children exiting afterwards; (b) seeded random: 1..4 commands from the lists, 0..3 failing calls, random cuts,
   *     random child events. */
  {
    unsigned char c3[3][64]; size_t l3[3], tot = 0;
    l3[0] = mkcmd(c3[0], 0, "1", 1, "s@h", "r@h"); l3[1] = mkcmd(c3[1], 1, "22/45", 5, "", "x@y"); l3[2] = mkcmd(c3[2], 0, "7", 1, "#@[]", "@h");
    unsigned char all[256]; for (int i = 0; i < 3; i++) { memcpy(all + tot, c3[i], l3[i]); tot += l3[i]; }
    unsigned ncalls = (unsigned)tot - 3;
    for (unsigned a = 0; a < ncalls; a++) for (unsigned b = a; b < ncalls; b += (b == a ? 1 : 5)) for (size_t cut = 0; cut <= l3[0]; cut += (a % 3 == 0 ? 1 : 4))
      for (int pv = 0; pv < 2; pv++, id++) {
        if ((int)(id % nshards) != shard) continue;
        oom_n = 0; oom_list[oom_n++] = a; if (b != a) oom_list[oom_n++] = b;
        s_reset();
        if (cut) s_cmd(all, cut);
        s_cmd(all + cut, tot - cut);
        s_out(0, (const unsigned char *)"Kok\n", 4); s_exit(1, 0); s_exit(0, pv ? 100 << 8 : 0);
        pl[0] = 0; pl[1] = pv ? 4 : 0; pl[2] = 0;
        a_mode = 1; one(s_str(), pl, 3); a_mode = 0;
      }
    for (int r = 0; r < nrandom / 4; r++) {
      if ((r % nshards) != shard) continue;
      static unsigned char stream[4096]; size_t sn = 0; int nc = 1 + h_below(4);
      for (int q = 0; q < nc; q++) {
        const char *mid = messids[h_below(6) ? h_below(4) : h_below(NEL(messids))];
        sn += mkcmd(stream + sn, h_below(6) ? (int)h_below(3) : delnums[h_below(NEL(delnums))], mid, strlen(mid),
                    senders[h_below(NEL(senders))], recips[h_below(NEL(recips))]);
      }
      if (!h_below(5) && sn > 2) sn -= 1 + h_below(2);                 /* the last command is cut */
      oom_n = h_below(4);
      for (int i = 0; i < oom_n; i++) oom_list[i] = h_below(h_below(3) ? (unsigned)sn + 2 : 8);
      int pn = h_below(3); for (int i = 0; i < pn; i++) pl[i] = h_below(3) ? 0 : h_below(9);
      s_reset();
      { size_t pos = 0; while (pos < sn) { size_t k = 1 + h_below(h_below(3) ? 1024 : 6); if (k > sn - pos) k = sn - pos; s_cmd(stream + pos, k); pos += k;
          if (!h_below(6)) { int sl = h_below(3); if (h_below(2)) s_out(sl, (const unsigned char *)"Kdone\n", 6); else s_exit(sl, h_below(3) ? 0 : (int)(h_below(256) << 8)); } } }
      if (!h_below(3)) s_eof();
      a_mode = 1; one(s_str(), pl, pn); a_mode = 0;
    }
    oom_n = 0;
  }
  fflush(h_out);
  return 0;
}
