/* C18 correspondence harness (1/3): the real qmail-clean.c main() incl. cleanuppid() — every request string, every unlink
 * outcome, scripted contents of pid/.
 * usage: c18_clean <L1> <L2> <nrandom> <seed> <shard> <nshards>   |   c18_clean -   (cases "C <chunk> <plan> <hex> [<scans>]" on stdin)
 * output per case:  C <chunk> <plan-hex> <input-hex> <scans> <trace>
 *   plan : one byte per unlink() call of the request loop in order: 00 = succeeds, 01 = fails ENOENT, 02 = fails EIO (missing = 00);
 *          the unlinks of cleanuppid() (between opendir and closedir) always succeed and do not consume the plan (their result is
 *          ignored by the code)
 *   scans: what the successive calls of cleanuppid() see, joined by ';' ("-" = none: every opendir fails):
 *            <now>@!                      now() and a failing opendir("pid")
 *            <now>@-                      an empty directory
 *            <now>@<ent>+<ent>+...        readdir order; <ent> = <name-hex>=<atime>  or  <name-hex>=x  (stat fails)
 *   trace: comma separated events in program order:  u<path-hex>  (unlink called with this path)
 *                                                    s<byte-hex>  (one write of status bytes on fd 1)
 *                                                    o<path-hex>  (opendir), c (closedir), e<code> (main returned / _exit)
 * session 4 — read/write faults:  cases "Q <rscript> <wplan> <plan> [<scans>]", output "Q <rscript> <wplan> <plan> <scans> <trace>"
 *   rscript: what the successive read() calls on the request pipe return, joined by '.' ("-" = none; after the last one: 0 = EOF):
 *            d<hex> these bytes (a short read; "d" alone = returns 0, end of file), i = -1/EINTR, x = -1/EIO
 *   wplan  : one byte per write() call on the answer pipe: 00 = writes the byte, 01 = -1/EINTR, 02 = -1/EPIPE (missing = 00)
 *   trace  : additionally  i<byte-hex> (a write() of this byte failed with EINTR), f<byte-hex> (failed with EPIPE);
 *            e1100 = _exit(100) */
#include "hcommon.h"
#include <dirent.h>
#include <errno.h>
#include <sys/stat.h>
#include <sys/types.h>
#include <time.h>

static time_t h_time(time_t *t);
static int h_chdir(const char *p) { return 0; }
static int h_unlink(const char *p);
static DIR *h_opendir(const char *p);
static struct dirent *h_readdir(DIR *d);
static int h_closedir(DIR *d);
static int h_stat(const char *p, struct stat *st);

#define _exit(x) h_exit(x)
#define main qmail_clean_main
#define chdir h_chdir
#define unlink h_unlink
#define opendir h_opendir
#define readdir h_readdir
#define closedir h_closedir
#define stat(p,b) h_stat(p,b)
#define time(x) h_time(x)
#include "qmail-clean.c"
#undef main
#undef _exit
#undef chdir
#undef unlink
#undef opendir
#undef readdir
#undef closedir
#undef stat
#undef time

/* scripted pid/ directory */
#define MAXSCAN 8
#define MAXENT 12
struct h_ent { char name[256]; int statok; long atime; };
struct h_scan { long now; int open_ok; int nent; struct h_ent ent[MAXENT]; };
static struct h_scan scans[MAXSCAN]; static int nscans, scan_pos;
static struct h_scan *cur_scan; static int ent_pos, in_cleanup;

static const unsigned char *in_p; static size_t in_n, in_pos; static int in_chunk;
static const unsigned char *plan_p; static size_t plan_n, plan_pos;
static int first_ev;

static void ev(char tag, const unsigned char *p, size_t n) {
  if (!first_ev) fputc(',', h_out);
  first_ev = 0;
  fputc(tag, h_out); h_hex(p, n);
}

static int h_unlink(const char *p) {
  ev('u', (const unsigned char *)p, strlen(p));
  if (in_cleanup) return 0;
  int r = plan_pos < plan_n ? plan_p[plan_pos] : 0;
  plan_pos++;
  if (r == 0) return 0;
  errno = (r == 1) ? ENOENT : EIO;
  return -1;
}
static time_t h_time(time_t *t) { return scan_pos < nscans ? scans[scan_pos].now : 0; }   /* now() = time(NULL) */
static DIR *h_opendir(const char *p) {
  static int dummy;
  ev('o', (const unsigned char *)p, strlen(p));
  cur_scan = scan_pos < nscans ? &scans[scan_pos] : 0;
  scan_pos++;
  if (!cur_scan || !cur_scan->open_ok) { cur_scan = 0; errno = ENOENT; return 0; }
  ent_pos = 0; in_cleanup = 1;
  return (DIR *)&dummy;
}
static struct dirent *h_readdir(DIR *d) {
  static struct dirent de;
  if (!cur_scan || ent_pos >= cur_scan->nent) return 0;
  memset(&de, 0, sizeof de);
  strcpy(de.d_name, cur_scan->ent[ent_pos++].name);
  return &de;
}
static int h_closedir(DIR *d) { if (!first_ev) fputc(',', h_out); first_ev = 0; fputc('c', h_out); in_cleanup = 0; cur_scan = 0; return 0; }
/* stat("pid/<name>") of the entry readdir returned last; any other path does not exist */
static int h_stat(const char *p, struct stat *st) {
  struct h_ent *e = (cur_scan && ent_pos > 0) ? &cur_scan->ent[ent_pos - 1] : 0;
  if (!e || strncmp(p, "pid/", 4) || strcmp(p + 4, e->name) || !e->statok) { errno = ENOENT; return -1; }
  memset(st, 0, sizeof *st);
  st->st_atime = e->atime; st->st_mtime = 0; st->st_mode = S_IFREG | 0600;
  return 0;
}

/* scripted read()/write() outcomes (Q cases) */
#define MAXRD 4096
struct h_rd { char kind; size_t off, len; };
static struct h_rd rds[MAXRD]; static int nrd, rd_pos; static size_t rd_off;
static unsigned char rd_bytes[70000]; static size_t rd_nbytes;
static unsigned char wplan_b[4096]; static size_t wplan_n, wplan_pos;
static int io_mode;

static ssize_t h_read(int fd, void *buf, size_t len) {
  if (io_mode) {
    if (rd_pos >= nrd) return 0;
    struct h_rd *r = &rds[rd_pos];
    if (r->kind == 'i') { rd_pos++; errno = EINTR; return -1; }
    if (r->kind == 'x') { rd_pos++; errno = EIO; return -1; }
    size_t k = r->len - rd_off;
    if (k > len) k = len;
    memcpy(buf, rd_bytes + r->off + rd_off, k);
    rd_off += k;
    if (rd_off >= r->len) { rd_pos++; rd_off = 0; }
    return k;
  }
  size_t k = in_n - in_pos;
  if (k > len) k = len;
  if (in_chunk > 0 && k > (size_t)in_chunk) k = in_chunk;
  memcpy(buf, in_p + in_pos, k); in_pos += k;
  return k;
}
static ssize_t h_write(int fd, const void *buf, size_t len) {
  if (io_mode) {
    int r = wplan_pos < wplan_n ? wplan_b[wplan_pos] : 0;
    wplan_pos++;
    if (r == 1) { ev('i', buf, len); errno = EINTR; return -1; }
    if (r != 0) { ev('f', buf, len); errno = EPIPE; return -1; }
  }
  ev('s', buf, len); return len;
}

/* replace substdio.a's subfdins.o / subfdouts.o */
static char h_inbuf[256], h_outbuf[256];
static substdio h_in = SUBSTDIO_FDBUF(h_read, 0, h_inbuf, 256);
static substdio h_outs = SUBSTDIO_FDBUF(h_write, 1, h_outbuf, 256);
substdio *subfdinsmall = &h_in;
substdio *subfdoutsmall = &h_outs;

static void print_scans(void) {
  if (!nscans) { fputc('-', h_out); return; }
  for (int i = 0; i < nscans; i++) {
    if (i) fputc(';', h_out);
    fprintf(h_out, "%ld@", scans[i].now);
    if (!scans[i].open_ok) fputc('!', h_out);
    else if (!scans[i].nent) fputc('-', h_out);
    else for (int j = 0; j < scans[i].nent; j++) {
      struct h_ent *e = &scans[i].ent[j];
      if (j) fputc('+', h_out);
      h_hex((const unsigned char *)e->name, strlen(e->name));
      if (e->statok) fprintf(h_out, "=%ld", e->atime); else fputs("=x", h_out);
    }
  }
}

/* "<now>@<ents>;..." -> scans[]; malformed parts are dropped */
static void parse_scans(const char *s) {
  nscans = 0;
  if (!s || !*s || !strcmp(s, "-")) return;
  while (*s && nscans < MAXSCAN) {
    struct h_scan *sc = &scans[nscans];
    char *end;
    sc->now = strtol(s, &end, 10); sc->open_ok = 1; sc->nent = 0;
    if (*end != '@') return;
    s = end + 1;
    if (*s == '!') { sc->open_ok = 0; s++; }
    else if (*s == '-') s++;
    else while (*s && *s != ';') {
      struct h_ent e; int k = 0;
      while (s[0] && s[1] && s[0] != '=' && k < 255) { unsigned v; sscanf(s, "%2x", &v); e.name[k++] = (char)v; s += 2; }
      e.name[k] = 0;
      if (*s != '=') return;
      s++;
      if (*s == 'x') { e.statok = 0; e.atime = 0; s++; } else { e.statok = 1; e.atime = strtol(s, &end, 10); s = end; }
      if (sc->nent < MAXENT && k > 0) sc->ent[sc->nent++] = e;
      if (*s == '+') s++;
    }
    nscans++;
    if (*s == ';') s++;
  }
}

static void one(const unsigned char *m, size_t n, int chunk, const unsigned char *plan, size_t pn) {
  h_in.p = 0; h_in.n = 256; h_outs.p = 0;
  in_p = m; in_n = n; in_pos = 0; in_chunk = chunk;
  plan_p = plan; plan_n = pn; plan_pos = 0;
  scan_pos = 0; cur_scan = 0; ent_pos = 0; in_cleanup = 0;
  fprintf(h_out, "C %d ", chunk); h_hex(plan, pn); fputc(' ', h_out); h_hex(m, n); fputc(' ', h_out); print_scans(); fputc(' ', h_out);
  first_ev = 1;
  int rc;
  h_exit_armed = 1;
  if (setjmp(h_jb) == 0) rc = qmail_clean_main(); else rc = 1000 + h_exitcode;
  h_exit_armed = 0;
  if (!first_ev) fputc(',', h_out);
  fprintf(h_out, "e%d\n", rc);
}

/* read-script construction */
static void rs_reset(void) { nrd = 0; rd_nbytes = 0; }
static void rs_add(char kind, const unsigned char *p, size_t n) {
  if (nrd >= MAXRD || rd_nbytes + n > sizeof rd_bytes) return;
  if (kind == 'd' && n > 256) n = 256;            /* the program never asks for more than its 256-byte buffer */
  rds[nrd].kind = kind; rds[nrd].off = rd_nbytes; rds[nrd].len = n;
  if (n) memcpy(rd_bytes + rd_nbytes, p, n);
  rd_nbytes += n; nrd++;
}
/* the bytes b[0..n) in reads of `chunk` bytes (0 = 256) */
static void rs_chunks(const unsigned char *b, size_t n, int chunk) {
  if (chunk <= 0 || chunk > 256) chunk = 256;
  for (size_t i = 0; i < n; i += chunk) rs_add('d', b + i, n - i < (size_t)chunk ? n - i : (size_t)chunk);
}

static void one_io(const unsigned char *wp, size_t wn, const unsigned char *plan, size_t pn) {
  h_in.p = 0; h_in.n = 256; h_outs.p = 0;
  io_mode = 1; rd_pos = 0; rd_off = 0;
  if (wn > sizeof wplan_b) wn = sizeof wplan_b;
  if (wn) memcpy(wplan_b, wp, wn);
  wplan_n = wn; wplan_pos = 0;
  plan_p = plan; plan_n = pn; plan_pos = 0;
  scan_pos = 0; cur_scan = 0; ent_pos = 0; in_cleanup = 0;
  fputs("Q ", h_out);
  if (!nrd) fputc('-', h_out);
  for (int i = 0; i < nrd; i++) {
    if (i) fputc('.', h_out);
    fputc(rds[i].kind, h_out);
    if (rds[i].kind == 'd' && rds[i].len) h_hex(rd_bytes + rds[i].off, rds[i].len);
  }
  fputc(' ', h_out); h_hex(wplan_b, wplan_n); fputc(' ', h_out); h_hex(plan, pn); fputc(' ', h_out); print_scans(); fputc(' ', h_out);
  first_ev = 1;
  int rc;
  h_exit_armed = 1;
  if (setjmp(h_jb) == 0) rc = qmail_clean_main(); else rc = 1000 + h_exitcode;
  h_exit_armed = 0;
  io_mode = 0;
  if (!first_ev) fputc(',', h_out);
  fprintf(h_out, "e%d\n", rc);
}

static int unhex(const char *h, unsigned char *o) {
  int n = 0;
  if (h[0] == '-') return 0;
  for (; h[0] && h[1]; h += 2) { unsigned v; sscanf(h, "%2x", &v); o[n++] = v; }
  return n;
}

static const char *prefixes[] = { "foop/", "todo/", "todoX", "todo.", "todo", "foop", "foop.", "fooq/", "Foop/", "FOOP/", "toop/",
                                  "fodo/", "/foop", "intd/", "mess/", "../..", "foop/foop/", "todo/todo/", "foop/1/", "todo/../", "fo",
                                  "", "todo/0", "foop/18446744073709551" };
#define NPFX (sizeof prefixes / sizeof prefixes[0])
static const char *numbers[] = { "0", "1", "7", "22", "23", "24", "45", "46", "4294967295", "4294967296", "9223372036854775807",
                                 "9223372036854775808", "18446744073709551615", "18446744073709551616", "18446744073709551617",
                                 "18446744073709551639", "18446744073709551661", "36893488147419103232", "36893488147419103233",
                                 "184467440737095516160", "184467440737095516161", "99999999999999999999", "100000000000000000000",
                                 "00", "01", "007", "0000000000000000000001", "18446744073709551616000", "1844674407370955161", "1844674407370955162" };
#define NNUM (sizeof numbers / sizeof numbers[0])

static void enumerate(const unsigned char *alpha, int na, int maxlen, uint64_t *id, int shard, int nshards) {
  unsigned char m[64];
  for (int len = 0; len <= maxlen; len++) {
    uint64_t total = 1; for (int i = 0; i < len; i++) total *= na;
    for (uint64_t k = 0; k < total; k++, (*id)++) {
      if ((int)(*id % nshards) != shard) continue;
      uint64_t v = k; for (int i = 0; i < len; i++) { m[i] = alpha[v % na]; v /= na; }
      one(m, len, (k % 5 == 0) ? 1 + (int)(k % 3) : 0, 0, 0);
    }
  }
}

/* flush the protocol stream if a sanitizer aborts the process, so that the case being run is identified */
#if defined(__SANITIZE_ADDRESS__)
void __asan_set_death_callback(void (*cb)(void));
static void h_death(void) { if (h_out) fflush(h_out); }
#endif

int main(int argc, char **argv) {
  h_init_out();
#if defined(__SANITIZE_ADDRESS__)
  __asan_set_death_callback(h_death);
#endif
  if (argc > 1 && !strcmp(argv[1], "-")) {
    static char line[400000], hx[400000], pl[4000], tag[16], scs[40000]; static unsigned char b[200000], pb[2000];
    while (fgets(line, sizeof line, stdin)) {
      int chunk;
      scs[0] = 0;
      if (line[0] == 'Q' && line[1] == ' ') {
        static char rs[400000], wpl[9000]; static unsigned char wb[4500], tmp[300];
        if (sscanf(line, "%15s %399999s %8999s %3999s %39999s", tag, rs, wpl, pl, scs) < 4) continue;
        int wn = unhex(wpl, wb), pn = unhex(pl, pb);
        parse_scans(scs);
        rs_reset();
        if (strcmp(rs, "-")) for (char *t = strtok(rs, "."); t; t = strtok(0, ".")) {
          if (t[0] == 'd') { if (strlen(t + 1) > 512) t[513] = 0; int k = unhex(t[1] ? t + 1 : "-", tmp); rs_add('d', tmp, k); }
          else if (t[0] == 'i' || t[0] == 'x') rs_add(t[0], 0, 0);
        }
        one_io(wb, wn, pb, pn);
        continue;
      }
      if (sscanf(line, "%15s %d %3999s %399999s %39999s", tag, &chunk, pl, hx, scs) < 4 || tag[0] != 'C' || tag[1]) continue;
      int pn = unhex(pl, pb);
      parse_scans(scs);
      one(b, unhex(hx, b), chunk, pb, pn);
    }
    fflush(h_out);
    return 0;
  }
  int L1 = h_argi(argc, argv, 1, 7), L2 = h_argi(argc, argv, 2, 4), nrandom = h_argi(argc, argv, 3, 20000);
  uint64_t seed = (uint64_t)h_argi(argc, argv, 4, 1);
  int shard = h_argi(argc, argv, 5, 0), nshards = h_argi(argc, argv, 6, 1);
  uint64_t id = 0;
  nscans = 0;
  /* (1),(2) every stream over the letters of one keyword, '/', one digit, NUL and one foreign letter */
  static const unsigned char a1[7] = { 'f', 'o', 'p', '/', '1', 0, 'x' };
  static const unsigned char a2[7] = { 't', 'o', 'd', '/', '1', 0, 'X' };
  enumerate(a1, 7, L1, &id, shard, nshards);
  enumerate(a2, 7, L1, &id, shard, nshards);
  /* (3) every near-miss prefix followed by every tail over a 10-letter alphabet, NUL-terminated; a second, valid
   *     request follows so that a request that is not skipped properly shows up in the next answer */
  static const unsigned char ta[10] = { '0', '1', '9', '/', '.', ':', 'X', 0, 0xff, 'f' };
  static const unsigned char plans[5][2] = { {0, 0}, {2, 0}, {1, 1}, {0, 2}, {1, 2} };
  unsigned char m[512];
  for (unsigned p = 0; p < NPFX; p++) {
    size_t pl = strlen(prefixes[p]);
    for (int len = 0; len <= L2; len++) {
      uint64_t total = 1; for (int i = 0; i < len; i++) total *= 10;
      for (uint64_t k = 0; k < total; k++, id++) {
        if ((int)(id % nshards) != shard) continue;
        memcpy(m, prefixes[p], pl);
        uint64_t v = k; for (int i = 0; i < len; i++) { m[pl + i] = ta[v % 10]; v /= 10; }
        size_t n = pl + len; m[n++] = 0;
        one(m, n, 0, 0, 0);
        if (k % 4 == 1) { memcpy(m + n, "todo/5", 7); one(m, n + 7, (int)(k % 3), plans[k % 5], 2); }
        else if (k % 8 == 2) one(m, n, 1, plans[1 + k % 4], 2);
      }
    }
  }
  /* (4) seeded random streams of 1..5 requests: interesting and random numbers, leading zeros, lengths around the
   *     100-byte limit and beyond the 256-byte substdio buffer, random unlink outcomes and read chunkings */
  h_seed(seed * 1000003ull + shard);
  for (int r = 0; r < nrandom; r++) {
    if ((r % nshards) != shard) continue;
    static unsigned char b[4096]; size_t n = 0;
    unsigned char plan[12]; int pn = h_below(4) ? 0 : 1 + h_below(10);
    for (int i = 0; i < pn; i++) plan[i] = h_below(3);
    int nreq = 1 + h_below(5);
    for (int q = 0; q < nreq; q++) {
      const char *pf = h_below(8) ? prefixes[h_below(2)] : prefixes[h_below(NPFX)];
      size_t l = strlen(pf); memcpy(b + n, pf, l); n += l;
      int kind = h_below(10);
      if (kind < 3) { const char *s = numbers[h_below(NNUM)]; l = strlen(s); memcpy(b + n, s, l); n += l; }
      else if (kind < 7) { int d = 1 + h_below(24); for (int i = 0; i < d; i++) b[n++] = (i == 0 && h_below(4)) ? '1' + h_below(9) : '0' + h_below(10); }
      else if (kind == 7) { int d = 90 + h_below(8); for (int i = 0; i < d; i++) b[n++] = '0' + (i ? h_below(10) : 1 + h_below(9)); }
      else if (kind == 8) { int d = h_below(3) ? 100 + h_below(60) : 240 + h_below(300); for (int i = 0; i < d; i++) b[n++] = '0' + h_below(10); }
      else { int d = 1 + h_below(8); for (int i = 0; i < d; i++) b[n++] = '0' + h_below(10); }
      if (!h_below(12)) b[n - 1 - h_below(n > 6 ? 3 : 1)] = "x/.: \377-+"[h_below(8)];
      if (!(q == nreq - 1 && !h_below(10))) b[n++] = 0;
    }
    one(b, n, (int[]){0, 0, 1, 2, 7, 100, 255}[h_below(7)], plan, pn);
  }
  /* (5) cleanuppid(): scripted pid/.  (a) seed-independent: one entry, every name class x every stat/atime class around the
   *     OSSIFIED boundary x two clocks, followed by one valid request; the empty directory; a failing opendir.
   *     (b) seeded random: 0..70 short requests (so that the sweeps of iterations 0, 31 and 62 all run) with 0..4 scans of
   *     0..6 entries, atimes around the boundary, stat failures, random unlink outcomes for the requests. */
  static const char *names[] = { ".", "..", "1", "4711", "x", "...", ".a", "..b", "a b", "\377\001", "12345678901234567890",
                                 "intd", "foop", 0 };
  static char longname[256]; memset(longname, 'n', 255); longname[255] = 0;
  const long OSS = OSSIFIED;
  {
    static const long clocks[2] = { 129600, 1700000000 };
    int nn = 0; while (names[nn]) nn++;
    for (int ni = 0; ni <= nn; ni++) for (int ac = 0; ac < 8; ac++) for (int ck = 0; ck < 2; ck++, id++) {
      if ((int)(id % nshards) != shard) continue;
      long nw = clocks[ck];
      nscans = 1; scans[0].now = nw; scans[0].open_ok = 1; scans[0].nent = 1;
      struct h_ent *e = &scans[0].ent[0];
      strcpy(e->name, ni < nn ? names[ni] : longname);
      e->statok = ac != 0;
      e->atime = (long[]){ 0, nw - OSS - 1, nw - OSS, nw - OSS + 1, 0, nw, nw + 5, nw - 2 * OSS }[ac];
      if (e->atime < 0) e->atime = 0;
      one((const unsigned char *)"todo/5", 7, 0, 0, 0);
    }
    if ((int)(id++ % nshards) == shard) { nscans = 1; scans[0].now = 1700000000; scans[0].open_ok = 1; scans[0].nent = 0; one((const unsigned char *)"foop/12", 8, 0, 0, 0); }
    if ((int)(id++ % nshards) == shard) { nscans = 1; scans[0].now = 1700000000; scans[0].open_ok = 0; scans[0].nent = 0; one((const unsigned char *)"foop/12", 8, 0, 0, 0); }
    if ((int)(id++ % nshards) == shard) { nscans = 0; one((const unsigned char *)"", 0, 0, 0, 0); }
    for (int r = 0; r < nrandom / 8; r++) {
      if ((r % nshards) != shard) continue;
      static unsigned char b[4096]; size_t n = 0;
      unsigned char plan[12]; int pn = h_below(3) ? 0 : 1 + h_below(10);
      for (int i = 0; i < pn; i++) plan[i] = h_below(3);
      int nreq = (int[]){ 0, 1, 3, 29, 30, 31, 32, 40, 61, 62, 63, 70 }[h_below(12)];
      for (int q = 0; q < nreq; q++) {
        int k = h_below(6);
        if (k < 3) n += sprintf((char *)b + n, "%s%u", k ? "todo/" : "foop/", h_below(50)) + 1;
        else if (k == 3) { b[n++] = 'x'; b[n++] = 0; }
        else if (k == 4) n += sprintf((char *)b + n, "pid/%u", h_below(50)) + 1;
        else b[n++] = 0;
      }
      nscans = h_below(5);
      for (int i = 0; i < nscans; i++) {
        struct h_scan *sc = &scans[i];
        sc->now = h_below(4) ? 1600000000 + (long)h_below(200000000) : (long)h_below(300000);
        sc->open_ok = h_below(6) != 0; sc->nent = sc->open_ok ? h_below(7) : 0;
        for (int j = 0; j < sc->nent; j++) {
          struct h_ent *e = &sc->ent[j];
          if (h_below(3)) sprintf(e->name, "%u", h_below(100000)); else if (!h_below(12)) strcpy(e->name, longname); else strcpy(e->name, names[h_below(nn)]);
          e->statok = h_below(8) != 0;
          switch (h_below(6)) {
            case 0: e->atime = sc->now - OSS; break;
            case 1: e->atime = sc->now - OSS + 1; break;
            case 2: e->atime = sc->now - OSS - 1 - (long)h_below(1000000); break;
            case 3: e->atime = sc->now - (long)h_below(129600); break;
            case 4: e->atime = sc->now + (long)h_below(100); break;
            default: e->atime = (long)h_below(2000000000); break;
          }
          if (e->atime < 0) e->atime = 0;
          if (!e->statok) e->atime = 0;
        }
      }
      one(b, n, (int[]){0, 0, 1, 7, 255}[h_below(5)], plan, pn);
    }
    nscans = 0;
  }
  /* (6) read/write faults (session 4).  (a) seed-independent: four sessions; for every cut position j of the byte stream
   *     {nothing, EINTR, EIO, end of file} between byte j-1 and byte j, the rest in reads of 256/1/3 bytes; with every write()
   *     index k: {all delivered, write k fails, write k interrupted once, interrupted twice, interrupted then fails}; three
   *     unlink plans.  (b) seeded random sessions: random read sizes, EINTR anywhere, EIO/EOF at a random place, random write
   *     and unlink outcomes, pid/ listings. */
  {
    static unsigned char big[1024]; size_t bign = 0;
    for (int q = 0; q < 33; q++) bign += sprintf((char *)big + bign, q % 3 ? "todo/%d" : "foop/%d", q) + 1;
    struct { const unsigned char *b; size_t n; int nw; } base[4] = {
      { (const unsigned char *)"foop/12\0todo/7\0x\0", 17, 3 },
      { (const unsigned char *)"todo/5\0foop/18446744073709551617\0foop/3\0", 40, 3 },
      { (const unsigned char *)"\0foop/1", 7, 1 },
      { big, bign, 33 } };
    static const unsigned char uplans[3][4] = { {0, 0, 0, 0}, {0, 2, 0, 0}, {1, 0, 2, 0} };
    static const char mids[4] = { 0, 'i', 'x', 'd' };
    static const int chunks[3] = { 0, 1, 3 };
    for (int bi = 0; bi < 4; bi++) {
      size_t step = bi == 3 ? 13 : 1;
      for (size_t j = 0; j <= base[bi].n; j += step) for (int mi = 0; mi < 4; mi++) for (int ci = 0; ci < 3; ci++)
        for (int k = -1; k < base[bi].nw; k += (bi == 3 && k >= 0 ? 8 : 1)) for (int wk = 0; wk < (k < 0 ? 1 : 4); wk++, id++) {
          if ((int)(id % nshards) != shard) continue;
          unsigned char wp[64]; size_t wn = 0;
          if (k >= 0) {
            memset(wp, 0, sizeof wp); wn = k;
            if (wk == 0) wp[wn++] = 2;
            else if (wk == 1) wp[wn++] = 1;
            else if (wk == 2) { wp[wn++] = 1; wp[wn++] = 1; }
            else { wp[wn++] = 1; wp[wn++] = 2; }
          }
          rs_reset();
          rs_chunks(base[bi].b, j, chunks[ci]);
          if (mids[mi]) rs_add(mids[mi], 0, 0);
          rs_chunks(base[bi].b + j, base[bi].n - j, chunks[(ci + 1) % 3]);
          nscans = 0;
          if (bi == 3) { nscans = 2; for (int i = 0; i < 2; i++) { scans[i].now = 1700000000; scans[i].open_ok = 1; scans[i].nent = 1;
                           strcpy(scans[i].ent[0].name, i ? "77" : "4711"); scans[i].ent[0].statok = 1; scans[i].ent[0].atime = 1600000000; } }
          one_io(wp, wn, uplans[(j + mi) % 3], 4);
        }
    }
    nscans = 0;
    for (int r = 0; r < nrandom / 4; r++) {
      if ((r % nshards) != shard) continue;
      static unsigned char b[4096]; size_t n = 0;
      unsigned char plan[12]; int pn = h_below(3) ? 0 : 1 + h_below(10);
      for (int i = 0; i < pn; i++) plan[i] = h_below(3);
      int nreq = (int[]){ 0, 1, 2, 3, 5, 8, 31, 40 }[h_below(8)];
      for (int q = 0; q < nreq; q++) {
        int k = h_below(8);
        if (k < 4) n += sprintf((char *)b + n, "%s%u", (k & 1) ? "todo/" : "foop/", h_below(50)) + 1;
        else if (k == 4) { b[n++] = 'x'; b[n++] = 0; }
        else if (k == 5) n += sprintf((char *)b + n, "foop/%s", numbers[h_below(NNUM)]) + 1;
        else if (k == 6) { int d = 95 + h_below(170); memcpy(b + n, "todo/", 5); n += 5; for (int i = 0; i < d; i++) b[n++] = '0' + h_below(10); b[n++] = 0; }
        else b[n++] = 0;
      }
      if (!h_below(3)) n += sprintf((char *)b + n, "foop/%u", h_below(50));          /* an unterminated tail */
      rs_reset();
      int mode = h_below(4);                                                        /* read sizes */
      size_t stop = h_below(3) ? n + 1 : h_below(n + 1);                            /* EIO / EOF in the middle of a third */
      char stopk = h_below(2) ? 'x' : 'd';
      for (size_t i = 0; i < n; ) {
        if (i >= stop) { rs_add(stopk, 0, 0); stop = n + 1; if (h_below(2)) continue; }
        if (!h_below(mode == 0 ? 30 : 6)) rs_add('i', 0, 0);
        size_t c = mode == 0 ? 256 : mode == 1 ? 1 + h_below(3) : mode == 2 ? 1 + h_below(40) : 1 + h_below(256);
        if (c > n - i) c = n - i;
        if (stop <= n && i + c > stop && stop > i) c = stop - i;
        rs_add('d', b + i, c); i += c;
      }
      if (!h_below(4)) rs_add(h_below(2) ? 'i' : 'x', 0, 0);
      unsigned char wp[48]; size_t wn = h_below(3) ? h_below(2 * nreq + 2) : 0;
      if (wn > sizeof wp) wn = sizeof wp;
      for (size_t i = 0; i < wn; i++) wp[i] = (unsigned char[]){ 0, 0, 0, 0, 0, 1, 1, 2 }[h_below(i + 1 == wn ? 8 : 7)];
      nscans = h_below(3);
      for (int i = 0; i < nscans; i++) {
        struct h_scan *sc = &scans[i];
        sc->now = 1700000000; sc->open_ok = h_below(5) != 0; sc->nent = sc->open_ok ? h_below(4) : 0;
        for (int j2 = 0; j2 < sc->nent; j2++) {
          struct h_ent *e = &sc->ent[j2];
          sprintf(e->name, "%u", h_below(100000)); e->statok = h_below(6) != 0;
          e->atime = e->statok ? sc->now - OSS - 5 + (long)h_below(10) : 0;
        }
      }
      one_io(wp, wn, plan, pn);
    }
    nscans = 0;
  }
  fflush(h_out);
  return 0;
}
