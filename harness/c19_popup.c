/* C19 correspondence harness: the real qmail-popup.c main() run in-process; the subprogram is a
 * stand-in checker (/bin/sh) that stores what it reads from descriptor 3 and exits as scripted.
 *
 * usage: c19_popup <seqlen> <nrandom> <seed> <shard> <nshards>  |  c19_popup -   (cases "<hosthex> <child> <inputhex>" on stdin)
 *   child = e<exit code> | c (killed by a signal)
 * output line: U <pid> <now> <hosthex> <child> <inputhex> <fd1 hex> <fd3 hex|none> <exit code>
 */
#define _GNU_SOURCE
#include "hcommon.h"
#include <fcntl.h>
#include <sys/stat.h>
#include <sys/syscall.h>
#include <time.h>

__attribute__((noreturn)) static void h19_exit(int c);
#define _exit(x) h19_exit(x)
#define main popup_main
#define puts popup_puts
#include "qmail-popup.c"
#undef main
#undef _exit
#undef puts

static const unsigned char *in_p; static size_t in_n, in_pos; static int in_chunk;
static hbuf out1;
static int exitcode, harness_pid;
static long cur_now;
static jmp_buf jb19;

static void h19_exit(int c) {
  if ((int)syscall(SYS_getpid) != harness_pid) syscall(SYS_exit_group, c);   /* the forked child: really exit */
  exitcode = c; longjmp(jb19, 1);
}
time_t time(time_t *t) { if (t) *t = cur_now; return cur_now; }

ssize_t timeoutread(int t, int fd, char *buf, size_t len) {
  size_t k = in_n - in_pos;
  if (k > len) k = len;
  if (in_chunk > 0 && k > (size_t)in_chunk) k = in_chunk;
  memcpy(buf, in_p + in_pos, k); in_pos += k;
  return k;
}
ssize_t timeoutwrite(int t, int fd, const void *buf, size_t len) { hbuf_add(&out1, buf, len); return len; }

static char base[200], capfile[260];

static void one(const char *host, const char *child, const unsigned char *inp, size_t n, int chunk) {
  char script[600];
  unlink(capfile);
  if (child[0] == 'c') snprintf(script, sizeof script, "cat <&3 >\"$0\"; kill -SEGV $$");
  else snprintf(script, sizeof script, "cat <&3 >\"$0\"; exit %d", atoi(child + 1));
  char *argv[8] = { "qmail-popup", (char *)host, "/bin/sh", "-c", script, capfile, 0 };
  ssin.p = 0; ssin.n = sizeof ssinbuf; ssout.p = 0;
  seenuser = 0; username.len = 0;
  in_p = inp; in_n = n; in_pos = 0; in_chunk = chunk;
  hbuf_reset(&out1); exitcode = -1;
  cur_now = 1000000000L + (long)(n * 7919 % 100000);
  /* the command buffer is modified in place by pop3_apop: give the program its own copy */
  if (setjmp(jb19) == 0) popup_main(6, argv);
  fprintf(h_out, "U %d %ld ", harness_pid, cur_now);
  h_hex((const unsigned char *)host, strlen(host));
  fprintf(h_out, " %s ", child);
  h_hex(inp, n); fputc(' ', h_out); h_hex(out1.p, out1.n); fputc(' ', h_out);
  int fd = open(capfile, O_RDONLY);
  if (fd < 0) fputs("none", h_out);
  else {
    static unsigned char buf[1 << 16]; size_t m = 0; ssize_t r;
    while ((r = read(fd, buf + m, sizeof buf - m)) > 0) m += r;
    close(fd); h_hex(buf, m);
  }
  fprintf(h_out, " %d\n", exitcode);
}

static const char *alpha[] = {
  "USER bob", "USER", "user alice", "PASS secret", "PASS", "PASS two  words ", "APOP bob 0123456789abcdef", "APOP bob",
  "apop  carol  x y", "QUIT", "NOOP", "STAT", "LIST", "RETR 1", "DELE 1", "TOP 1 1", "UIDL", "RSET", "LAST", "XYZZY", "",
  "USER  dave\t", "PASSWORD x",
};
#define NALPHA ((int)(sizeof alpha / sizeof alpha[0]))
static const char *children[] = { "e0", "e1", "e111", "c", "e0", "e3" };

static int unhex(const char *h, unsigned char *o) {
  int n = 0;
  if (h[0] == '-') return 0;
  for (; h[0] && h[1]; h += 2) { unsigned v; sscanf(h, "%2x", &v); o[n++] = v; }
  return n;
}

int main(int argc, char **argv) {
  int fd = fcntl(1, F_DUPFD_CLOEXEC, 100);
  h_out = fdopen(fd, "w");
  static char big[1 << 20]; setvbuf(h_out, big, _IOFBF, sizeof big);
  harness_pid = getpid();
  struct stat st;
  snprintf(base, sizeof base, "%s/nqc19u-%d", stat("/dev/shm", &st) == 0 ? "/dev/shm" : "/tmp", harness_pid);
  mkdir(base, 0700);
  snprintf(capfile, sizeof capfile, "%s/fd3", base);
  /* descriptors 3 and 4 must be free for the program's pipe() */
  close(3); close(4);

  if (argc > 1 && !strcmp(argv[1], "-")) {
    static char line[1 << 18], hh[1 << 16], ch[64], ih[1 << 17]; static unsigned char hb[1 << 15], ib[1 << 16];
    while (fgets(line, sizeof line, stdin)) {
      if (sscanf(line, "%65535s %63s %131071s", hh, ch, ih) != 3) continue;
      int hn = unhex(hh, hb); hb[hn] = 0;
      one((char *)hb, ch, ib, unhex(ih, ib), 0);
    }
  } else {
    int seqlen = h_argi(argc, argv, 1, 2), nrandom = h_argi(argc, argv, 2, 200);
    uint64_t seed = (uint64_t)h_argi(argc, argv, 3, 1);
    int shard = h_argi(argc, argv, 4, 0), nshards = h_argi(argc, argv, 5, 1);
    uint64_t id = 0; unsigned char in[8192];
    for (int len = 0; len <= seqlen; len++) {
      uint64_t total = 1; for (int i = 0; i < len; i++) total *= NALPHA;
      for (uint64_t k = 0; k < total; k++, id++) {
        if ((int)(id % nshards) != shard) continue;
        size_t n = 0; uint64_t v = k;
        for (int i = 0; i < len; i++) { n += sprintf((char *)in + n, "%s%s", alpha[v % NALPHA], (id + i) % 3 ? "\r\n" : "\n"); v /= NALPHA; }
        one(id % 5 ? "pop.example.org" : "h", children[id % 6], in, n, (int)(id % 4 == 1 ? 1 : id % 4 == 2 ? 5 : 0));
      }
    }
    h_seed(seed * 1000003ull + 77 + shard);
    for (int r = 0; r < nrandom; r++) {
      if ((r % nshards) != shard) continue;
      size_t n = 0; int len = 1 + h_below(4);
      for (int i = 0; i < len; i++) {
        int kind = h_below(4);
        if (kind == 0) n += sprintf((char *)in + n, "%s", alpha[h_below(NALPHA)]);
        else {
          n += sprintf((char *)in + n, "%s ", kind == 1 ? "USER" : kind == 2 ? "PASS" : "APOP");
          int al = h_below(h_below(8) ? 12 : 300);
          for (int j = 0; j < al; j++) {
            unsigned char c = h_below(6) == 0 ? " \t\r.:<>@\x7f\xff"[h_below(10)] : (unsigned char)(33 + h_below(94));
            if (c == '\n') c = 'n';
            in[n++] = c;
          }
        }
        if (h_below(4)) in[n++] = '\r';
        in[n++] = '\n';
      }
      if (h_below(10) == 0 && n > 1) n--;       /* unfinished last line */
      one(h_below(2) ? "mx.test" : "a.b.c.d.example", children[h_below(6)], in, n, (int[]){0, 1, 3, 64}[h_below(4)]);
    }
  }
  unlink(capfile); rmdir(base);
  fflush(h_out);
  return 0;
}
