/* C09 correspondence harness: the real qmail-remote.c smtp()/smtpcode()/quit()/dropped()/blast()
 * against a scripted SMTP server, and the real qmail-rspawn.c report() on exit status x output.
 *
 * usage: c09_remote <level> <nrandom> <seed> <shard> <nshards>   |   c09_remote -   (cases on stdin)
 *
 * output, one line per case:
 *   S <ip> <helo> <sender> <rcpts,> <msg> <msgerr> <stream> <chunk> <wk> <endmode> <wlabel> <wtry> <out> <wire> <exit> <relay> <wchunk>
 *       wchunk = the socket takes at most this many bytes per write() call of blast() (0 = all): short writes, allwrite() loops;
 *       every write() call counts for wk
 *       ip = 8 hex digits; rcpts = comma-separated hex; stream = every byte the server sends;
 *       chunk = bytes per read of the socket (0 = as many as fit); wk = number of the socket write that
 *       fails (0 = none); endmode = what a read past the end of the stream returns (0: 0/EOF, 1: -1/timeout;
 *       also used for the failing write); wlabel = which write that was (none|helo|mail|rcpt<i>|data|body|final|quit):
 *       every write is named by its bytes only ("body" = any write of blast(); the harness never prints "final" and does
 *       not look at the client's flagcritical): the driver decides from wtry and wire whether the write came after
 *       `flagcritical = 1` (model input) and whether it carried the end of the message (oracle);
 *       wtry = the bytes of the write that failed ('-' if none);
 *       out = qmail-remote's standard output; wire = bytes the server received; exit = exit status;
 *       relay = report(0, out) of qmail-rspawn.c
 *   R <wstat> <out> <relay>
 *   M <dnsret> <cands> <stream> <wk> <wlabel> <wtry> <out> <wire> <exit> <trace>
 *       the real main() of qmail-remote (argv: host.example s@a.example r0@b.example) with control files, DNS,
 *       ipme, tcpto, socket/connect replaced: dnsret = what dns_mxip returns (-3 -2 -1 0 1);
 *       cands = comma-separated ip(8 hex):pref:isme:tcpto_skip:conn (conn 0 = connects, 1 = refused, 2 = timeout), or '.';
 *       trace = tcpto_err calls as comma-separated idx:flag, or '.'
 * stdin cases:  S <ip> <helo> <sender> <rcpts,> <msg> <msgerr> <stream> <chunk> <wk> <endmode> [<wchunk>]   |   R <wstat> <out>
 *               M <dnsret> <cands> <stream> <wk>
 */
#include "hcommon.h"
#include <errno.h>
#include "alloc.h"
#include <sys/socket.h>
#include <netinet/in.h>
#include <arpa/inet.h>
static int h_socket(void); static int h_close(int fd);
#define _exit(x) h_exit(x)
#define main qmail_remote_main
#define chdir(x) (0)
#define socket(a,b,c) h_socket()
#define close(x) h_close(x)
#include "qmail-remote.c"
#undef chdir
#undef socket
#undef close
#undef main
#include "qmail-rspawn.c"
#undef _exit

/* what qmail-rspawn.c needs at link time besides report() (never called here) */
uid_t auto_uidq;
char auto_userq[] = "qmailq";
uid_t inituid(char *u) { return 0; }
void tcpto_clean(void) {}
char *env_get(char *s) { return 0; }
int fd_move(int to, int from) { return -1; }
int fd_copy(int to, int from) { return -1; }

#define MAXR 8
struct scase {
  unsigned char ip[4];
  hbuf helo, sender, rcpt[MAXR]; int n;
  hbuf msg; int msgerr;
  hbuf stream; int chunk, wk, endmode, wchunk;
};

/* ---- scripted socket (replaces timeoutread.o / timeoutwrite.o) ---- */
static const unsigned char *sv_p; static size_t sv_n, sv_pos; static int sv_chunk, sv_endmode, sv_wchunk;
static hbuf wire, wtry; static int wcall, wfailat, data_sent, nrcptcmd; static char wlabel[32];

ssize_t timeoutread(int t, int fd, char *buf, size_t len) {
  size_t k = sv_n - sv_pos;
  if (k == 0) { if (sv_endmode) { errno = ETIMEDOUT; return -1; } return 0; }
  if (k > len) k = len;
  if (sv_chunk > 0 && k > (size_t)sv_chunk) k = sv_chunk;
  memcpy(buf, sv_p + sv_pos, k); sv_pos += k;
  return k;
}
ssize_t timeoutwrite(int t, int fd, const void *buf, size_t len) {
  const char *b = buf;
  const char *lab; static char lb[32];
  ++wcall;
  if (!data_sent) {
    if (len >= 5 && !memcmp(b, "HELO ", 5)) lab = "helo";
    else if (len >= 5 && !memcmp(b, "MAIL ", 5)) lab = "mail";
    else if (len >= 5 && !memcmp(b, "RCPT ", 5)) { snprintf(lb, sizeof lb, "rcpt%d", nrcptcmd); lab = lb; }
    else if (len == 6 && !memcmp(b, "DATA\r\n", 6)) lab = "data";
    else if (len == 6 && !memcmp(b, "QUIT\r\n", 6)) lab = "quit";
    else lab = "unknown";
  } else {
    if (len == 6 && !memcmp(b, "QUIT\r\n", 6)) lab = "quit";
    else lab = "body";   /* some flush of blast(); which one is decided by the driver from the bytes (wtry, wire) */
  }
  if (wcall == wfailat) {
    strcpy(wlabel, lab); hbuf_reset(&wtry); hbuf_add(&wtry, buf, len);
    if (sv_endmode) { errno = ETIMEDOUT; return -1; }
    errno = EPIPE; return -1;
  }
  if (!strncmp(lab, "rcpt", 4)) nrcptcmd++;
  if (!strcmp(lab, "data")) data_sent = 1;
  if (sv_wchunk > 0 && !strcmp(lab, "body") && len > (size_t)sv_wchunk) len = sv_wchunk;   /* short write */
  hbuf_add(&wire, buf, len);
  return len;
}

/* ---- message on descriptor 0, report on descriptor 1 ---- */
static const unsigned char *in_p; static size_t in_n, in_pos; static int in_err;
static hbuf repb, relayb;
static ssize_t rd(int fd, char *buf, size_t len) {
  size_t k = in_n - in_pos;
  if (k == 0) { if (in_err) { errno = EIO; return -1; } return 0; }
  if (k > len) k = len;
  memcpy(buf, in_p + in_pos, k); in_pos += k;
  return k;
}
static ssize_t wrrep(int fd, const char *buf, size_t len) { hbuf_add(&repb, buf, len); return len; }
static ssize_t wrrelay(int fd, const char *buf, size_t len) { hbuf_add(&relayb, buf, len); return len; }

/* the real report() on (wstat, s[0..len)); the buffer is followed by the slack bytes "!\0" and then by
 * an ASan red zone, like a stralloc whose allocation is a little larger than its content */
static void do_report(int wstat, const unsigned char *s, size_t len) {
  static char rbuf[256]; substdio ss;
  char *copy = malloc(len + 2);
  memcpy(copy, s, len); copy[len] = '!'; copy[len + 1] = 0;
  substdio_fdbuf(&ss, wrrelay, -1, rbuf, sizeof rbuf);
  hbuf_reset(&relayb);
  report(&ss, wstat, copy, (int)len);
  substdio_flush(&ss);
  free(copy);
}

static void put_hex(const hbuf *b) { h_hex(b->p, b->n); }

static void run_s(struct scase *c) {
  substdio tin = SUBSTDIO_FDBUF(rd, -1, inbuf, sizeof inbuf);
  substdio tto = SUBSTDIO_FDBUF(safewrite, -1, smtptobuf, sizeof smtptobuf);
  substdio tfrom = SUBSTDIO_FDBUF(saferead, -1, smtpfrombuf, sizeof smtpfrombuf);
  ssin = tin; smtpto = tto; smtpfrom = tfrom;
  subfdoutsmall->op = wrrep; subfdoutsmall->p = 0;
  flagcritical = 0; smtptext.len = 0;
  byte_copy(&partner, 4, c->ip);
  if (!stralloc_copyb(&helohost, (char *)c->helo.p, c->helo.n)) exit(3);
  if (!stralloc_copyb(&sender, (char *)c->sender.p, c->sender.n)) exit(3);
  reciplist.len = 0;
  for (int i = 0; i < c->n; i++) {
    if (!saa_readyplus(&reciplist, 1)) exit(3);
    reciplist.sa[reciplist.len] = sauninit;
    if (!stralloc_copyb(reciplist.sa + reciplist.len, (char *)c->rcpt[i].p, c->rcpt[i].n)) exit(3);
    ++reciplist.len;
  }
  sv_p = c->stream.p; sv_n = c->stream.n; sv_pos = 0; sv_chunk = c->chunk; sv_endmode = c->endmode; sv_wchunk = c->wchunk;
  in_p = c->msg.p; in_n = c->msg.n; in_pos = 0; in_err = c->msgerr;
  hbuf_reset(&wire); hbuf_reset(&repb); hbuf_reset(&wtry);
  wcall = 0; wfailat = c->wk; data_sent = 0; nrcptcmd = 0; strcpy(wlabel, "none");
  int ex = -1;
  h_exit_armed = 1;
  if (setjmp(h_jb) == 0) { smtp(); } else ex = h_exitcode;
  h_exit_armed = 0;
  for (int i = 0; i < c->n; i++) { alloc_free(reciplist.sa[i].s); reciplist.sa[i].s = 0; }
  do_report(0, repb.p, repb.n);
  fprintf(h_out, "S %02x%02x%02x%02x ", c->ip[0], c->ip[1], c->ip[2], c->ip[3]);
  put_hex(&c->helo); fputc(' ', h_out); put_hex(&c->sender); fputc(' ', h_out);
  if (c->n == 0) fputc('.', h_out);
  for (int i = 0; i < c->n; i++) { if (i) fputc(',', h_out); put_hex(&c->rcpt[i]); }
  fputc(' ', h_out); put_hex(&c->msg); fprintf(h_out, " %d ", c->msgerr); put_hex(&c->stream);
  fprintf(h_out, " %d %d %d %s ", c->chunk, c->wk, c->endmode, wlabel);
  put_hex(&wtry); fputc(' ', h_out);
  put_hex(&repb); fputc(' ', h_out); put_hex(&wire); fprintf(h_out, " %d ", ex); put_hex(&relayb); fprintf(h_out, " %d\n", c->wchunk);
}

static void run_r(int wstat, const unsigned char *s, size_t n) {
  do_report(wstat, s, n);
  fprintf(h_out, "R %d ", wstat); h_hex(s, n); fputc(' ', h_out); put_hex(&relayb); fputc('\n', h_out);
}


/* ---- M mode: what main() needs besides smtp(): control.o dns.o ipme.o tcpto.o timeoutconn.o are excluded ---- */
#define MAXC 8
struct cand { unsigned char ip[4]; int pref, isme, skip, conn; };
static struct cand cands[MAXC]; static int ncand, dnsret; static hbuf trace;
static int h_socket(void) { return 100; }
static int h_close(int fd) { return 0; }
int control_init(void) { return 0; }
int control_readint(int *i, char *fn) { return 0; }
int control_rldef(stralloc *sa, char *fn, int flagme, char *def) { return stralloc_copys(sa, "me.example") ? 1 : -1; }
int control_readfile(stralloc *sa, char *fn, int flagme) { return 0; }
int control_readline(stralloc *sa, char *fn) { return 0; }
ipalloc ipme = {0};
int ipme_init(void) { return 1; }
static int cand_of(struct ip_address *ip) { for (int i = 0; i < ncand; i++) if (!memcmp(cands[i].ip, ip, 4)) return i; return -1; }
/* identity is by position for the flags: candidates get distinct addresses from the generator */
int ipme_is(struct ip_address *ip) { int i = cand_of(ip); return i >= 0 && cands[i].isme; }
static int fill_ips(ipalloc *ia) {
  if (!ipalloc_readyplus(ia, 0)) return DNS_MEM;
  ia->len = 0;
  if (dnsret < 0) return dnsret;
  for (int i = 0; i < ncand; i++) { struct ip_mx ix; memcpy(&ix.ip, cands[i].ip, 4); ix.pref = cands[i].pref; if (!ipalloc_append(ia, &ix)) return DNS_MEM; }
  return dnsret;
}
int dns_mxip(ipalloc *ia, stralloc *sa, unsigned long random) { return fill_ips(ia); }
int dns_ip(ipalloc *ia, stralloc *sa) { return fill_ips(ia); }
int tcpto(struct ip_address *ip) { int i = cand_of(ip); return i >= 0 && cands[i].skip; }
void tcpto_err(struct ip_address *ip, int flag) { char b[32]; snprintf(b, sizeof b, "%s%d:%d", trace.n ? "," : "", cand_of(ip), flag); hbuf_add(&trace, b, strlen(b)); }
int timeoutconn(int s, struct ip_address *ip, unsigned int port, int timeout) {
  int i = cand_of(ip);
  if (i >= 0 && cands[i].conn == 0) return 0;
  errno = (i >= 0 && cands[i].conn == 2) ? ETIMEDOUT : ECONNREFUSED;
  return -1;
}

static void run_m(const hbuf *stream, int wk) {
  static char *argv[] = { "qmail-remote", "host.example", "s@a.example", "r0@b.example", 0 };
  substdio tin = SUBSTDIO_FDBUF(rd, -1, inbuf, sizeof inbuf);
  substdio tto = SUBSTDIO_FDBUF(safewrite, -1, smtptobuf, sizeof smtptobuf);
  substdio tfrom = SUBSTDIO_FDBUF(saferead, -1, smtpfrombuf, sizeof smtpfrombuf);
  static const char msg[] = "Subject: x\n\nbody\n";
  ssin = tin; smtpto = tto; smtpfrom = tfrom;
  subfdoutsmall->op = wrrep; subfdoutsmall->p = 0;
  flagcritical = 0; smtptext.len = 0; reciplist.len = 0; port = PORT_SMTP;
  sv_p = stream->p; sv_n = stream->n; sv_pos = 0; sv_chunk = 0; sv_endmode = 0; sv_wchunk = 0;
  in_p = (const unsigned char *)msg; in_n = sizeof msg - 1; in_pos = 0; in_err = 0;
  hbuf_reset(&wire); hbuf_reset(&repb); hbuf_reset(&trace); hbuf_reset(&wtry);
  wcall = 0; wfailat = wk; data_sent = 0; nrcptcmd = 0; strcpy(wlabel, "none");
  int ex = -1;
  h_exit_armed = 1;
  if (setjmp(h_jb) == 0) { qmail_remote_main(4, argv); } else ex = h_exitcode;
  h_exit_armed = 0;
  for (int i = 0; i < reciplist.len; i++) { alloc_free(reciplist.sa[i].s); reciplist.sa[i].s = 0; }
  fprintf(h_out, "M %d ", dnsret);
  if (!ncand) fputc('.', h_out);
  for (int i = 0; i < ncand; i++)
    fprintf(h_out, "%s%02x%02x%02x%02x:%d:%d:%d:%d", i ? "," : "", cands[i].ip[0], cands[i].ip[1], cands[i].ip[2], cands[i].ip[3],
            cands[i].pref, cands[i].isme, cands[i].skip, cands[i].conn);
  fputc(' ', h_out); put_hex(stream); fprintf(h_out, " %d %s ", wk, wlabel);
  put_hex(&wtry); fputc(' ', h_out);
  put_hex(&repb); fputc(' ', h_out); put_hex(&wire); fprintf(h_out, " %d ", ex);
  if (trace.n) fwrite(trace.p, 1, trace.n, h_out); else fputc('.', h_out);
  fputc('\n', h_out);
}

/* ---- helpers for building cases ---- */
static void hset(hbuf *b, const char *s) { hbuf_reset(b); hbuf_add(b, s, strlen(s)); }
static void hcat(hbuf *b, const char *s) { hbuf_add(b, s, strlen(s)); }
static int unhexb(const char *h, hbuf *o) {
  hbuf_reset(o);
  if (h[0] == '-' || h[0] == '.') return 0;
  for (; h[0] && h[1]; h += 2) { unsigned v; if (sscanf(h, "%2x", &v) != 1) return -1; unsigned char ch = v; hbuf_add(o, &ch, 1); }
  return 0;
}

static struct scase C;
static void base_case(int n) {
  static const unsigned char ip[4] = { 192, 0, 2, 25 };
  memcpy(C.ip, ip, 4);
  hset(&C.helo, "me.example"); hset(&C.sender, "s@a.example");
  C.n = n;
  for (int i = 0; i < n; i++) { char b[32]; snprintf(b, sizeof b, "r%d@b.example", i); hset(&C.rcpt[i], b); }
  hset(&C.msg, "Subject: x\n\n.hello\n"); C.msgerr = 0;
  hbuf_reset(&C.stream); C.chunk = 0; C.wk = 0; C.endmode = 0; C.wchunk = 0;
}

/* reply kinds; %s = the code this phase wants (220 / 250 / 354) */
enum { K_OK1, K_OKM, K_T1, K_P1, K_EOF, K_PART, K_3XX, K_TM, K_PM, K_2XX, K_BARE, K_SHORT, K_ODD, NKINDS };
static const char *kind_fmt[NKINDS] = {
  "%s ok\r\n", "%s-first\r\n%s second line\r\n", "451 try later\r\n", "550 no\r\n", "", "%s-a\r\n25",
  "354 go\r\n", "450-a\r\n450 b\r\n", "553-a\n553-b\n553 c\n", "211 x\n", "%s\n", "ok\n", "1?0 x\n" };
/* may the conversation go on after this kind of reply at this phase? (a generator heuristic only) */
static int continues(int phase_type, int k) {  /* 0 greeting 1 helo 2 mail 3 rcpt 4 data 5 final */
  if (k == K_EOF || k == K_PART || phase_type == 5) return 0;
  if (phase_type == 3) return 1;
  if (k == K_OK1 || k == K_OKM || k == K_BARE || k == K_SHORT) return 1;
  if (phase_type == 0) return 0;
  if (k == K_ODD) return 1;
  if (phase_type == 1) return 0;
  return k == K_2XX || k == K_3XX;
}
static int phase_type(int p, int n) { return p < 3 ? p : p < 3 + n ? 3 : p == 3 + n ? 4 : 5; }
static const char *phase_code(int pt) { return pt == 0 ? "220" : pt == 4 ? "354" : "250"; }

static uint64_t case_id; static int g_shard, g_nshards;
static int mine(void) { return (int)(case_id++ % g_nshards) == g_shard; }

/* every script over the first `nk` kinds for n recipients, cut after the reply that ends the conversation */
static void enum_scripts(int n, int nk, int p, size_t slen, int variants) {
  int pt = phase_type(p, n);
  for (int k = 0; k < nk; k++) {
    char rep[128]; const char *c = phase_code(pt);
    snprintf(rep, sizeof rep, kind_fmt[k], c, c);
    C.stream.n = slen; hcat(&C.stream, rep);
    if (continues(pt, k) && p < 4 + n) enum_scripts(n, nk, p + 1, C.stream.n, variants);
    else if (mine()) {
      C.chunk = 0; C.wk = 0; C.endmode = 0; run_s(&C);
      if (variants) { C.chunk = 1; C.endmode = 1; run_s(&C); C.chunk = 0; C.endmode = 0; }
    }
  }
  C.stream.n = slen;
}

/* scripts over {ok, 4xx, 5xx} with every write failing in turn */
static void enum_wfail(int n, int p, size_t slen) {
  static const int ks[3] = { K_OK1, K_T1, K_P1 };
  int pt = phase_type(p, n);
  for (int j = 0; j < 3; j++) {
    char rep[128]; const char *c = phase_code(pt);
    snprintf(rep, sizeof rep, kind_fmt[ks[j]], c, c);
    C.stream.n = slen; hcat(&C.stream, rep);
    if (continues(pt, ks[j]) && p < 4 + n) enum_wfail(n, p + 1, C.stream.n);
    else if (mine())
      for (int wk = 1; wk <= n + 8; wk++) { C.wk = wk; C.endmode = wk & 1; run_s(&C); }
  }
  C.stream.n = slen; C.wk = 0; C.endmode = 0;
}

/* message sizes around the 1024-byte smtpto buffer: at k = 1022..1024 the put of the terminating ".\r\n" finds the buffer
 * (nearly) full and first flushes body bytes with flagcritical already 1 (a write that is flagged but does not carry the end of
 * the message); below that the terminator shares the last write with body bytes; above, a buffer-full flush precedes it.
 * Each write from DATA to QUIT failing in turn, final reply 2xx/4xx/5xx. */
static void enum_boundary(void) {
  static const char *fin[3] = { "250 ok\r\n", "451 later\r\n", "554 no\r\n" };
  static const int wcs[4] = { 0, 1000, 600, 1 };
  for (int k = 1015; k <= 1026; k++)
    for (int j = 0; j < 3; j++)
      for (int wc = 0; wc < 4; wc++)
        for (int wk = 4; wk <= (wc == 0 ? 8 : wc == 3 ? 6 : 10); wk++)
          for (int em = 0; em < 2; em++) {
            if (wc && (j || em)) continue;
            if (!mine()) continue;
            base_case(1);
            hbuf_reset(&C.msg); for (int i = 0; i < k; i++) hcat(&C.msg, "a"); hcat(&C.msg, "\n");
            hset(&C.stream, "220 a\r\n250 b\r\n250 c\r\n250 d\r\n354 e\r\n"); hcat(&C.stream, fin[j]);
            C.wk = wk; C.endmode = em; C.wchunk = wcs[wc]; run_s(&C);
            /* with one byte per write(): the writes around the end of the body and the terminator (calls k+2 .. k+6 of blast()) */
            if (wc == 3 && wk == 4) for (int d = 0; d < 7; d++) { C.wk = 5 + k - 2 + d; run_s(&C); }
          }
  /* the same boundary reached with line ends (2-byte puts), a dot-stuffed line, a final CR (5-byte tail put as 2 + 3) */
  static const char *tails[4] = { "\n", "\n.x\n", "\r", "\n\n\n" };
  for (int k = 1012; k <= 1024; k++)
    for (int tl = 0; tl < 4; tl++)
      for (int wk = 5; wk <= 8; wk++) {
        if (!mine()) continue;
        base_case(1);
        hbuf_reset(&C.msg); for (int i = 0; i < k; i++) hcat(&C.msg, "a"); hcat(&C.msg, tails[tl]);
        hset(&C.stream, "220 a\r\n250 b\r\n250 c\r\n250 d\r\n354 e\r\n250 ok\r\n");
        C.wk = wk; C.endmode = 0; C.wchunk = 0; run_s(&C);
      }
}

/* every byte string over `alpha` up to length maxlen as the reply at a given position of a good conversation */
static void enum_bytes(int maxlen) {
  static const unsigned char alpha[8] = { '2', '5', '0', '4', '-', '\n', '\r', ' ' };
  static const char *prefix[3] = { "", "220 a\r\n250 b\r\n", "220 a\r\n250 b\r\n250 c\r\n250 d\r\n354 e\r\n" };
  unsigned char w[16];
  for (int pos = 0; pos < 3; pos++)
    for (int len = 0; len <= maxlen; len++) {
      uint64_t total = 1; for (int i = 0; i < len; i++) total *= 8;
      for (uint64_t v0 = 0; v0 < total; v0++) {
        if (!mine()) continue;
        uint64_t v = v0; for (int i = 0; i < len; i++) { w[i] = alpha[v & 7]; v >>= 3; }
        hset(&C.stream, prefix[pos]); hbuf_add(&C.stream, w, len);
        /* let the conversation run on if the bytes form a complete reply */
        static const char follow[] = "250 x\r\n250 y\r\n354 z\r\n250 fin\r\n";
        hcat(&C.stream, follow);
        C.chunk = (int)(v0 % 3); run_s(&C);
        if (len > 0) { C.stream.n -= strlen(follow); C.chunk = 0; run_s(&C); }   /* and the same with nothing after it */
      }
    }
}

static void rand_bytes(hbuf *b, size_t n, int mode) {
  hbuf_reset(b);
  for (size_t i = 0; i < n; i++) {
    unsigned char ch;
    uint32_t x = h_below(mode == 0 ? 6 : 30);
    ch = x == 0 ? '\r' : x == 1 ? '\n' : x == 2 ? '.' : x == 3 ? 0 : mode == 2 ? (unsigned char)h_below(256) : (unsigned char)('a' + h_below(26));
    hbuf_add(b, &ch, 1);
  }
}
static void rand_addr(hbuf *b) {
  hbuf_reset(b);
  size_t n = h_below(12) ? h_below(24) : h_below(600);
  for (size_t i = 0; i < n; i++) { unsigned char ch = h_below(20) ? (unsigned char)(33 + h_below(94)) : (unsigned char)h_below(256); hbuf_add(b, &ch, 1); }
}
static void rand_reply(hbuf *s, int pt) {
  char code[8]; uint32_t x = h_below(100);
  if (x < 55) strcpy(code, phase_code(pt));
  else if (x < 65) snprintf(code, sizeof code, "%d", 200 + h_below(200));
  else if (x < 80) snprintf(code, sizeof code, "%d", 400 + h_below(100));
  else if (x < 92) snprintf(code, sizeof code, "%d", 500 + h_below(100));
  else if (x < 96) snprintf(code, sizeof code, "%03d", h_below(1000));
  else { code[0] = 32 + h_below(95); code[1] = 32 + h_below(95); code[2] = 32 + h_below(95); code[3] = 0; }
  int nlines = h_below(4) ? 1 : 1 + h_below(5);
  for (int l = 0; l < nlines; l++) {
    hcat(s, (l > 0 && h_below(10) == 0) ? "999" : code);
    if (l + 1 < nlines) hcat(s, "-"); else if (h_below(8)) hcat(s, " "); else if (h_below(2)) hcat(s, "x");
    size_t tl = h_below(40) ? h_below(60) : 3000 + h_below(4000);
    for (size_t i = 0; i < tl; i++) {
      unsigned char ch = h_below(50) ? (unsigned char)(32 + h_below(95)) : (unsigned char)"\r\0-\t\xff!"[h_below(6)];
      hbuf_add(s, &ch, 1);
    }
    if (h_below(6)) hcat(s, "\r");
    hcat(s, "\n");
  }
}
static void random_case(void) {
  int n = 1 + h_below(h_below(4) ? 3 : MAXR);
  base_case(n);
  for (int i = 0; i < 4; i++) C.ip[i] = h_below(3) ? h_below(256) : (unsigned char[]){ 0, 9, 10, 99, 100, 255 }[h_below(6)];
  if (h_below(2)) { rand_addr(&C.helo); rand_addr(&C.sender); for (int i = 0; i < n; i++) rand_addr(&C.rcpt[i]); }
  uint32_t mm = h_below(10);
  if (mm < 4) {
    rand_bytes(&C.msg, h_below(200), h_below(3));
    if (h_below(3)) hcat(&C.msg, "\n");
  } else if (mm < 6) { rand_bytes(&C.msg, 900 + h_below(3000), 1); if (h_below(4)) hcat(&C.msg, "\n"); }
  C.msgerr = h_below(12) == 0;
  int phases = 5 + n;
  for (int p = 0; p < phases; p++) rand_reply(&C.stream, phase_type(p, n));
  uint32_t cut = h_below(10);
  if (cut < 3) C.stream.n = h_below((uint32_t)C.stream.n + 1);          /* disconnect anywhere */
  else if (cut < 4) { int k = h_below(3); for (int i = 0; i < k && C.stream.n; i++) { unsigned char ch = h_below(256); size_t at = h_below((uint32_t)C.stream.n); C.stream.p[at] = ch; } }
  C.chunk = (int[]){ 0, 1, 2, 7, 128, 1000 }[h_below(6)];
  C.wk = h_below(3) ? 0 : 1 + h_below(n + 9);
  C.endmode = h_below(2);
  C.wchunk = h_below(3) ? 0 : (int[]){ 1, 2, 3, 7, 100, 1000 }[h_below(6)];
  if (C.wchunk && C.wk) C.wk = 1 + h_below(n + 14);
  run_s(&C);
}

static void enum_reports(int maxlen) {
  static const unsigned char alpha[8] = { 'r', 'h', 's', 'K', 'Z', 'D', 'x', 0 };
  unsigned char w[16];
  for (int len = 0; len <= maxlen; len++) {
    uint64_t total = 1; for (int i = 0; i < len; i++) total *= 8;
    for (uint64_t v0 = 0; v0 < total; v0++) {
      if (!mine()) continue;
      uint64_t v = v0; for (int i = 0; i < len; i++) { w[i] = alpha[v & 7]; v >>= 3; }
      run_r(0, w, len);
      if (len <= 2)   /* every exit status, with and without a signal / core flag */
        for (int ex = 0; ex < 256; ex++)
          for (int sg = 0; sg < 7; sg++) {
            int sig = (int[]){ 0, 1, 9, 11, 127, 128, 128 + 11 }[sg];
            if (ex == 0 && sig == 0) continue;
            run_r((ex << 8) | sig, w, len);
          }
    }
  }
}


/* main(): every DNS result x every list of up to 3 candidates (pref {0,10} x is-me x tcpto-skip x connect ok/refused/timeout) */
static void enum_main(void) {
  static hbuf good, bad, none;
  hset(&good, "220 a\r\n250 b\r\n250 c\r\n250 d\r\n354 e\r\n250 f\r\n"); hset(&bad, "554 go away\r\n"); hbuf_reset(&none);
  for (int d = -3; d < 0; d++) { if (!mine()) continue; dnsret = d; ncand = 1; memset(&cands[0], 0, sizeof cands[0]); cands[0].ip[0] = 10; run_m(&good, 0); }
  for (int len = 0; len <= 3; len++) {
    uint64_t total = 1; for (int i = 0; i < len; i++) total *= 24;
    for (uint64_t v0 = 0; v0 < total; v0++) {
      if (!mine()) continue;
      uint64_t v = v0; ncand = len;
      for (int i = 0; i < len; i++) {
        int x = v % 24; v /= 24;
        cands[i].ip[0] = 10; cands[i].ip[1] = 0; cands[i].ip[2] = 0; cands[i].ip[3] = 1 + i;
        cands[i].pref = (x & 1) ? 10 : 0; cands[i].isme = (x >> 1) & 1; cands[i].skip = (x >> 2) & 1; cands[i].conn = x >> 3;
      }
      for (dnsret = 0; dnsret <= 1; dnsret++) {
        run_m(&good, 0);
        if (len <= 2) { run_m(&bad, 0); run_m(&none, 0); run_m(&good, 1 + (int)(v0 % 6)); }
      }
    }
  }
}

static void stdin_cases(void) {
  static char line[1 << 20];
  static char f[12][1 << 17];
  while (fgets(line, sizeof line, stdin)) {
    if (line[0] == 'S') {
      int msgerr, chunk, wk, endmode, wchunk = 0;
      if (sscanf(line, "S %131000s %131000s %131000s %131000s %131000s %d %131000s %d %d %d %d", f[0], f[1], f[2], f[3], f[4],
                 &msgerr, f[5], &chunk, &wk, &endmode, &wchunk) < 10) continue;
      unsigned v[4];
      if (sscanf(f[0], "%2x%2x%2x%2x", &v[0], &v[1], &v[2], &v[3]) != 4) continue;
      for (int i = 0; i < 4; i++) C.ip[i] = v[i];
      unhexb(f[1], &C.helo); unhexb(f[2], &C.sender);
      C.n = 0;
      if (f[3][0] != '.') {
        char *save = 0;
        for (char *t = strtok_r(f[3], ",", &save); t && C.n < MAXR; t = strtok_r(0, ",", &save)) unhexb(t, &C.rcpt[C.n++]);
      }
      unhexb(f[4], &C.msg); C.msgerr = msgerr; unhexb(f[5], &C.stream);
      C.chunk = chunk; C.wk = wk; C.endmode = endmode; C.wchunk = wchunk;
      run_s(&C);
    } else if (line[0] == 'M') {
      int wk; static hbuf st;
      if (sscanf(line, "M %d %131000s %131000s %d", &dnsret, f[0], f[1], &wk) != 4) continue;
      ncand = 0;
      if (f[0][0] != '.') {
        char *save = 0;
        for (char *tk = strtok_r(f[0], ",", &save); tk && ncand < MAXC; tk = strtok_r(0, ",", &save)) {
          unsigned v[4]; struct cand *c = &cands[ncand];
          if (sscanf(tk, "%2x%2x%2x%2x:%d:%d:%d:%d", &v[0], &v[1], &v[2], &v[3], &c->pref, &c->isme, &c->skip, &c->conn) != 8) break;
          for (int i = 0; i < 4; i++) c->ip[i] = v[i];
          ncand++;
        }
      }
      unhexb(f[1], &st);
      run_m(&st, wk);
    } else if (line[0] == 'R') {
      int wstat; static hbuf o;
      if (sscanf(line, "R %d %131000s", &wstat, f[0]) != 2) continue;
      unhexb(f[0], &o);
      run_r(wstat, o.p, o.n);
    }
  }
}

int main(int argc, char **argv) {
  h_init_out();
  if (argc > 1 && !strcmp(argv[1], "-")) { stdin_cases(); fflush(h_out); return 0; }
  int level = h_argi(argc, argv, 1, 0), nrandom = h_argi(argc, argv, 2, 1000);
  uint64_t seed = (uint64_t)h_argi(argc, argv, 3, 1);
  g_shard = h_argi(argc, argv, 4, 0); g_nshards = h_argi(argc, argv, 5, 1);
  /* (1) reply-class scripts, exhaustive */
  base_case(1); enum_scripts(1, NKINDS, 0, 0, 1);
  base_case(2); enum_scripts(2, level ? NKINDS : 9, 0, 0, 0);
  base_case(3); enum_scripts(3, level ? 9 : 6, 0, 0, 0);
  /* (2) every write failing in turn */
  for (int n = 1; n <= 3; n++) { base_case(n); enum_wfail(n, 0, 0); }
  /* long message: buffer-full flushes before the final one */
  for (int n = 1; n <= 2; n++) {
    base_case(n);
    hbuf_reset(&C.msg); for (int i = 0; i < 150; i++) hcat(&C.msg, ".line of text\n");
    enum_wfail(n, 0, 0);
    if (n == 1) { C.wchunk = 700; enum_wfail(n, 0, 0); C.wchunk = 0; }
  }
  enum_boundary();
  /* message that cannot be sent: partial last line, read error */
  for (int v = 0; v < 4; v++) {
    base_case(2); hset(&C.msg, (v & 1) ? "no newline" : "x\r"); C.msgerr = v >> 1;
    enum_wfail(2, 0, 0);
  }
  /* (3) reply bytes, exhaustive */
  base_case(1); enum_bytes(level ? 6 : 5);
  /* (4) spawner report: every output over {r,h,s,K,Z,D,x,NUL} x exit statuses */
  enum_reports(level ? 8 : 6);
  /* (4b) the real main(): DNS result, MX choice, tcpto, connect loop */
  enum_main();
  /* (5) seeded random conversations */
  h_seed(seed * 1000003ull + g_shard);
  for (int r = 0; r < nrandom; r++) { if ((r % g_nshards) != g_shard) continue; random_case(); }
  fflush(h_out);
  return 0;
}
