/* C16: snapshot of qmail-send's select preparation, taken inside select() of the running daemon.
 *
 * Between `recent = now()` and `select()` the main loop of qmail-send.c only runs the five *_selprep functions,
 * which do not modify the globals they read; so at the moment select() is entered the globals below are exactly
 * what `wakeup`/`tv.tv_sec`/the descriptor sets were computed from.  The harness reads them (read-only; the
 * symbols are kept global by checks/c16.py: keep_globals) and prints one line
 *
 *   X snap recent=<t> exit=<0|1> c0=<alive>,<commpending>,<used>,<conc>,<passopen>,<pqmin|-> c1=... jobs=<one digit per slot: refs|-> \
 *          pqfail=<dt|-> pqdone=<dt|-> trig=<0|1> tready=<0|1> tododir=<0|1> next=<t> fc=<0|1> ct=<t> timeout=<tv_sec|-1> rfds=<list|-> wfds=<list|-> \
 *          q0=<dt,dt,..|-> q1=<..> qfail=<..> qdone=<..> tusec=<tv_usec> simnow=<the simulator's clock> todo=<entries in queue/todo> \
 *          nfds=<first argument of select> fdout=<chanfdout[0]>,<chanfdout[1]> fdin=<chanfdin[0]>,<chanfdin[1]> tfd=<trigger descriptor|-1> \
 *          rset=<every fd in rfds, 0..FD_SETSIZE-1, by number|-> wset=<same for wfds>
 *
 * <pqmin>, pqfail=, pqdone= are what the CODE reads (prioq_min: the ROOT p[0] of the heap array).  q0= q1= qfail= qdone= are the due times of
 * ALL entries of pqchan[0], pqchan[1], pqfail, pqdone in array order: the driver's oracle takes "the earliest due event" to be the minimum over
 * everything that is queued, independently of which entry sits at the root (a heap whose root is not its minimum is otherwise invisible).
 *
 * tready = the trigger FIFO is readable at this moment (it stays readable until the daemon itself closes it), so this select will report it.
 *
 * tusec: the microsecond half of the timeval passed (qsim's select writes the remaining time back like Linux, so a tv_usec that is not
 * re-initialised shows here).  simnow: the simulator's clock when select() is entered — the program's own `recent` is what its timeout was
 * computed from, simnow is what time it really is.  todo: number of directory entries in queue/todo at this moment.
 *
 * descriptor lists: d<c> = chanfdin[c], c<c> = chanfdout[c], t = the trigger FIFO, x<fd> = anything else (only fds < nfds count).
 * The structs mirror the (anonymous / file-local) struct types of qmail-send.c; a layout change shows up as DISAGREE. */
#ifndef C16_SNAP_H
#define C16_SNAP_H
#include "sim.h"
#include "datetime.h"
#include "prioq.h"
#include "stralloc.h"
#include "seek.h"
#include "substdio.h"

struct c16_pass { unsigned long id; int j; int fd; seek_pos mpos; substdio ss; char buf[128]; };
struct c16_job { int refs; unsigned long id; int channel; datetime_sec retry; stralloc sender; int numtodo; int flaghiteof; int flagdying; };
extern int flagexitasap, flagspawnalive[2], flagcleanup, numjobs;
extern datetime_sec recent, nexttodorun, cleanuptime;
extern struct c16_pass pass[2];
extern struct c16_job *jo;
extern prioq pqdone, pqchan[2], pqfail;
extern stralloc comm_buf[2];
extern unsigned int concurrency[2], concurrencyused[2];
extern DIR *tododir;
extern int chanfdout[2], chanfdin[2];

static int c16_nsnap;
static void c16_fmt_min(char *o, size_t n, prioq *q) { if (q->p && q->len) snprintf(o, n, "%ld", (long)q->p[0].dt); else snprintf(o, n, "-"); }
/* every entry of the heap array, in array order (at most 200; the scenarios queue a handful of messages) */
static size_t c16_fmt_all(char *b, size_t n, size_t cap, const char *key, prioq *q) {
  n += snprintf(b + n, cap - n, " %s=", key);
  if (!(q->p && q->len)) { b[n++] = '-'; return n; }
  for (unsigned int i = 0; i < q->len && i < 200 && n + 40 < cap; i++) n += snprintf(b + n, cap - n, "%s%ld", i ? "," : "", (long)q->p[i].dt);
  return n;
}

static void c16_snapshot(simproc *p, int nfds, fd_set *r, fd_set *w, struct timeval *tv) {
  static char b[8192]; size_t n = 0; char m[32];
  c16_nsnap++;
  n += snprintf(b + n, sizeof b - n, "X snap recent=%ld exit=%d", (long)recent, flagexitasap ? 1 : 0);
  for (int c = 0; c < 2; c++) {
    c16_fmt_min(m, sizeof m, &pqchan[c]);
    n += snprintf(b + n, sizeof b - n, " c%d=%d,%d,%u,%u,%d,%s", c, flagspawnalive[c] ? 1 : 0, (comm_buf[c].s && comm_buf[c].len) ? 1 : 0,
                  concurrencyused[c], concurrency[c], pass[c].id ? 1 : 0, m);
  }
  n += snprintf(b + n, sizeof b - n, " jobs=");
  if (numjobs <= 0) b[n++] = '-';
  for (int j = 0; j < numjobs && n < sizeof b - 600; j++) b[n++] = '0' + (jo[j].refs < 0 ? 9 : jo[j].refs > 9 ? 9 : jo[j].refs);
  c16_fmt_min(m, sizeof m, &pqfail); n += snprintf(b + n, sizeof b - n, " pqfail=%s", m);
  c16_fmt_min(m, sizeof m, &pqdone); n += snprintf(b + n, sizeof b - n, " pqdone=%s", m);
  int tfd = -1; for (int fd = 0; fd < SIM_MAXFD; fd++) if (p->fd[fd].kind == SFD_FIFO_R) tfd = fd;
  int tready = tfd >= 0 && W.ino[p->fd[tfd].ino].buffered > 0;
  n += snprintf(b + n, sizeof b - n, " trig=%d tready=%d tododir=%d next=%ld fc=%d ct=%ld timeout=%ld", tfd >= 0, tready, tododir ? 1 : 0, (long)nexttodorun,
                flagcleanup ? 1 : 0, (long)cleanuptime, tv ? (long)tv->tv_sec : -1L);
  for (int pass_ = 0; pass_ < 2; pass_++) {
    fd_set *s = pass_ ? w : r; int any = 0;
    n += snprintf(b + n, sizeof b - n, pass_ ? " wfds=" : " rfds=");
    for (int fd = 0; s && fd < nfds && fd < FD_SETSIZE; fd++) if (FD_ISSET(fd, s)) {
      if (any) b[n++] = ',';
      any = 1;
      if (!pass_ && fd == tfd) n += snprintf(b + n, sizeof b - n, "t");
      else if (!pass_ && (fd == chanfdin[0] || fd == chanfdin[1])) n += snprintf(b + n, sizeof b - n, "d%d", fd == chanfdin[1]);
      else if (pass_ && (fd == chanfdout[0] || fd == chanfdout[1])) n += snprintf(b + n, sizeof b - n, "c%d", fd == chanfdout[1]);
      else n += snprintf(b + n, sizeof b - n, "x%d", fd);
    }
    if (!any) b[n++] = '-';
  }
  n = c16_fmt_all(b, n, sizeof b - 2, "q0", &pqchan[0]); n = c16_fmt_all(b, n, sizeof b - 2, "q1", &pqchan[1]);
  n = c16_fmt_all(b, n, sizeof b - 2, "qfail", &pqfail); n = c16_fmt_all(b, n, sizeof b - 2, "qdone", &pqdone);
  int ntodo = 0; for (int i = 0; i < W.ndent; i++) if (W.dent[i].ino >= 0 && strstr(W.dent[i].path, "/queue/todo/")) ntodo++;
  if (n + 120 < sizeof b) n += snprintf(b + n, sizeof b - n, " tusec=%ld simnow=%ld todo=%d", tv ? (long)tv->tv_usec : 0L, (long)W.clock, ntodo);
  /* numeric side (Nq.SelFds): nfds as passed, the descriptor numbers, and EVERY member of the two sets up to FD_SETSIZE -
   * also those at or above nfds, which select() does not examine */
  if (n + 400 < sizeof b) {
    n += snprintf(b + n, sizeof b - n, " nfds=%d fdout=%d,%d fdin=%d,%d tfd=%d", nfds, chanfdout[0], chanfdout[1], chanfdin[0], chanfdin[1], tfd);
    for (int pass_ = 0; pass_ < 2; pass_++) {
      fd_set *s = pass_ ? w : r; int any = 0;
      n += snprintf(b + n, sizeof b - n, pass_ ? " wset=" : " rset=");
      for (int fd = 0; s && fd < FD_SETSIZE && n + 16 < sizeof b; fd++) if (FD_ISSET(fd, s)) { n += snprintf(b + n, sizeof b - n, "%s%d", any ? "," : "", fd); any = 1; }
      if (!any) b[n++] = '-';
    }
  }
  b[n++] = '\n';
  hbuf_add(&sim_trace, b, n);
}
#endif
